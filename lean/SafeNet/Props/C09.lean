import SafeNet.Proofs.Replication
import SafeNet.Proofs.ReplicationRounds
import SafeNet.Proofs.ReplicationPhases
import SafeNet.Props.C11
/-!
# C09 — records replicate to in-range neighbours and replicas converge

Theorems over `SafeNet.Replication` (Model/Replication.lean): 2–3 nodes `{store, replication fetcher, clock,
throttle}` joined by a wire; the fetcher is the C08 model, `store_replicated_in_record` is the validation model
(C03/C04/C07), constants / guards / operators come from `SafeNet.Gen.{Replication, Fetcher, Validate}`
(regenerated from the Rust source on every run).

* `only_close_holders_heard` — node level, system level (`…_sys`), and for all histories (`…_always`: invariant
  `AllHeard` preserved by every transition, induction over arbitrary operation lists).
* `advertises_everything` — the periodic list is exactly the index (`…_sys`: what goes on the wire).
* `immutable_replicates` — single-record advertisement `[(k, Chunk)]` → fetch → reply → store, the copy equals the holder's;
  `immutable_converge` — liveness: after one fair round every one of the `n` neighbours holds a chunk that any of them held.
* `mutable_converge_txs` / `mutable_converge_reg` — `n` nodes, whole (multi-key) advertisements, any order of exchanges,
  FETCH_TIMEOUT in the round structure: one fair round leaves every node with the join; ranking function 0 afterwards.
  (`mutable_converge_partial_*` are the earlier two-node single-key versions, kept.)
* `mutable_converge_partial` — a fair round (a→b, then b→a) makes both hold the merge of a diverging
  transaction set / register; relies on the F-g repair (`skipHeldSameTypeOnly`). What keeps it `_partial`: each
  advertisement is the single-record list for the diverging key (`freshAdv`, `OnlyNew`: fresh-record replication, the
  fast path); whole-store lists are the round / phase theorems.
* scratchpads: `ScratchpadsConverge` is false of the code (K-g): `scratchpad_never_fetched`,
  `scratchpad_never_converges_witness`.
* beyond the FairRound restrictions (`Proofs/ReplicationPhases.lean`): `big_advert_converge_partial_*` — one advertisement
  with ANY number of new keys is worked off inside one exchange, batch by batch, in at most that many replies, in any
  reply order; `concurrent_adverts_serial_*` — several advertisements in flight at one requester, any interleaving, same
  join as the serialised exchanges; `mutable_converge_*_big` / `mutable_converge_*_phases` / `immutable_converge_phases` —
  the `n`-node convergence theorems over such schedules; `big_advert_stall_witness` — why the remaining hypothesis
  (fewer than MAX_PARALLEL_FETCH no-op fetches) is needed.
-/
namespace SafeNet.Props.C09
open SafeNet.Replication SafeNet.Gen.Replication
open SafeNet.Validate (Content Store union)
open SafeNet.Fetcher (Entry admits hasKT hasKTH addKeys nextKeys newPut addCore earlyDone)
set_option linter.unusedSimpArgs false

/-! ## (3) only close holders are heard -/

/-- A `Replicate` list whose sender is not among the `K_VALUE` closest known peers (self included in the count), or is
the node itself, changes nothing at the node and schedules nothing — whatever the list and the node's state. -/
theorem only_close_holders_heard (w : World) (i : Nat) (nd : NodeSt) (holder : Nat) (keys : List (Nat × Nat))
    (choice : List Entry) (hfar : holder ∉ closestK w i ∨ holder = i) :
    (nodeRep w i nd holder keys choice).1 = nd ∧ (nodeRep w i nd holder keys choice).2.ret = [] := by
  have hh : heard w i holder = false := by
    simp only [heard, replicateChecksCloseness, replicateRejectsSelf, Bool.not_true, Bool.false_or]
    rcases hfar with h | h
    · have : (closestK w i).contains holder = false := by simpa using h
      rw [this]; rfl
    · subst h; simp
  simp [nodeRep, hh]

theorem set_getD_self (l : List NodeSt) (i : Nat) : l.set i (l[i]?.getD {}) = l := by
  induction l generalizing i with
  | nil => rfl
  | cons x xs ih =>
    cases i with
    | zero => rfl
    | succ j => simpa [List.set] using ih j

/-- System level: delivering such a message only removes it from the wire. -/
theorem only_close_holders_heard_sys (w : World) (s : Sys) (m src dst holder : Nat) (keys : List (Nat × Nat))
    (choice : List Entry) (hm : s.msg m = some (.rep src dst holder keys))
    (hfar : holder ∉ closestK w dst ∨ holder = dst) :
    (step w s (.deliver m choice)).1.nodes = s.nodes ∧
    (step w s (.deliver m choice)).1.wire = (s.unwire m).wire ∧
    (step w s (.deliver m choice)).2.sched = [] ∧ (step w s (.deliver m choice)).2.newMsgs = [] := by
  obtain ⟨h1, h2⟩ := only_close_holders_heard w dst ((s.unwire m).node dst) holder keys choice hfar
  simp only [step, hm, deliverRep, deliverRepWith]
  split
  · simp [Sys.unwire]
  · generalize hr : nodeRep w dst ((s.unwire m).node dst) holder keys choice = r at h1 h2
    obtain ⟨nd, o⟩ := r
    simp only at h1 h2
    subst h1
    simp [h2, fetchMsgs, Sys.send, Sys.setNode, Sys.node, Sys.unwire, set_getD_self]

/-- the closeness check is what the source does today (breaks if the guard is dropped) -/
theorem closeness_guard_present : replicateChecksCloseness = true ∧ replicateRejectsSelf = true ∧
    replicateArmPassesOn = true := ⟨rfl, rfl, rfl⟩

/-! ## (2) the periodic replication lists exactly the held index -/

/-- When `try_interval_replication` sends anything, the list is the whole index — every held record with the record
type its content determines, and nothing else — and every recipient is a replication candidate of the node. -/
theorem advertises_everything (w : World) (i : Nat) (nd nd' : NodeSt) (tg : List Nat) (keys : List (Nat × Nat))
    (h : interval w i nd = (nd', tg, keys)) (hsent : tg ≠ []) :
    keys = indexOf nd.store ∧
    (∀ k c, nd.store.get k = some c → (k, tyOf c) ∈ keys) ∧
    (∀ p ∈ keys, ∃ c, (p.1, c) ∈ nd.store ∧ p.2 = tyOf c) ∧
    (∀ p ∈ tg, p ∈ candidates w i nd) := by
  unfold interval at h
  split at h
  · simp at h; exact absurd h.2.1 hsent
  · simp only at h
    split at h
    · simp at h; exact absurd h.2.1 hsent
    · split at h
      · simp at h; exact absurd h.2.1 hsent
      · simp only [Prod.mk.injEq] at h
        obtain ⟨_, htg, hkeys⟩ := h
        subst hkeys
        refine ⟨rfl, fun k c hc => indexOf_complete _ k c hc, fun p hp => indexOf_sound _ p hp, ?_⟩
        intro p hp
        rw [← htg] at hp
        exact (List.mem_filter.1 hp).1

/-- System level: every message `interval` puts on the wire is `Replicate{holder = i, keys = index of i}`. -/
theorem advertises_everything_sys (w : World) (s : Sys) (i : Nat) (x : Nat × Msg)
    (hx : x ∈ (step w s (.interval i)).1.wire) :
    x ∈ s.wire ∨ ∃ p, x.2 = .rep i p i (indexOf (s.node i).store) ∧ p ∈ candidates w i (s.node i) := by
  simp only [step] at hx
  split at hx
  · exact Or.inl hx
  · generalize hr : interval w i (s.node i) = r at hx
    obtain ⟨nd', tg, keys⟩ := r
    simp only [Sys.send, Sys.setNode, List.mem_append] at hx
    rcases hx with hx | hx
    · exact Or.inl hx
    · right
      have hm := (List.of_mem_zip hx).2
      obtain ⟨p, hp, hpe⟩ := List.mem_map.1 hm
      have hp' := (List.mem_filter.1 hp).1
      have htg : tg ≠ [] := by intro h0; rw [h0] at hp'; simp at hp'
      obtain ⟨hk, _, _, hc⟩ := advertises_everything w i (s.node i) nd' tg keys hr htg
      exact ⟨p, by rw [← hpe, hk], hc p hp'⟩

/-! ## replication targets at the range boundary -/

/-- **Who is a replication target.** With a responsible range `r` set, the candidates are exactly the known peers whose
distance to the node is `≤ r` — the peer sitting exactly on the boundary included (the run loop sets the range to the
distance of one of the node's own close peers) — provided at least `CLOSE_GROUP_SIZE` peers are within the range;
otherwise, and when no range is set, the `CLOSE_GROUP_SIZE` closest. (Selection step = `SafeNet.Distance.replicateCandidates`,
C11 `replicate_candidates_spec`, over the regenerated `get_peers_in_range` operator.) -/
theorem replication_targets_spec (w : World) (i : Nat) (nd : NodeSt) :
    candidates w i nd =
      match nd.range with
      | some r =>
        if SafeNet.Gen.Distance.closeGroupSize ≤ ((w.rt i).filter (fun p => decide (w.pdist i p ≤ r))).length
        then (w.rt i).filter (fun p => decide (w.pdist i p ≤ r))
        else (w.rt i).take SafeNet.Gen.Distance.closeGroupSize
      | none => (w.rt i).take SafeNet.Gen.Distance.closeGroupSize := by
  unfold candidates
  rw [SafeNet.Props.C11.replicate_candidates_spec]
  cases nd.range with
  | none => simp [List.map_take, Function.comp_def]
  | some r =>
    simp only [List.filter_map, Function.comp_def, List.length_map, ge_iff_le]
    split
    · simp [List.map_map, Function.comp_def]
    · simp [List.map_take, Function.comp_def]

/-- the peer on the boundary is a target: a known peer at distance `≤ r` (in particular `= r`) is a candidate whenever
at least `CLOSE_GROUP_SIZE` known peers are within `r` -/
theorem boundary_peer_is_target (w : World) (i : Nat) (nd : NodeSt) (r p : Nat) (hr : nd.range = some r)
    (hp : p ∈ w.rt i) (hd : w.pdist i p ≤ r)
    (hen : SafeNet.Gen.Distance.closeGroupSize ≤ ((w.rt i).filter (fun q => decide (w.pdist i q ≤ r))).length) :
    p ∈ candidates w i nd := by
  rw [replication_targets_spec, hr]
  simp only [hen, if_true]
  exact List.mem_filter.2 ⟨hp, by simpa using hd⟩

/-- every candidate that was not served during the last `REPLICATION_TIMEOUT` receives the list (when anything is sent) -/
theorem every_due_candidate_served (w : World) (i : Nat) (nd nd' : NodeSt) (tg : List Nat) (keys : List (Nat × Nat))
    (h : interval w i nd = (nd', tg, keys)) (hsent : tg ≠ []) (p : Nat) (hp : p ∈ candidates w i nd)
    (hdue : ∀ q ∈ nd.targets, q.1 = p → targetStillFresh (2 * q.2) (2 * nd.fetcher.now + 1) = false) :
    p ∈ tg := by
  unfold interval at h
  split at h
  · simp at h; exact absurd h.2.1 hsent
  · simp only at h
    split at h
    · simp at h; exact absurd h.2.1 hsent
    · split at h
      · simp at h; exact absurd h.2.1 hsent
      · simp only [Prod.mk.injEq] at h
        rw [← h.2.1]
        refine List.mem_filter.2 ⟨hp, ?_⟩
        simp only [Bool.not_eq_true', List.any_eq_false, beq_iff_eq]
        intro q hq hqe
        simp only [freshTargets, List.mem_filter] at hq
        have := hdue q hq.1 hqe
        rw [this] at hq
        exact absurd hq.2 (by simp)

/-! ## (1) immutable data replicates -/

/-- a single-record advertisement whose record `k` the receiver neither holds with the advertised type nor has queued from
this holder (and that is not beyond its farthest acceptable distance): the single-key fast path of `add_keys` applies.
This is the situation right after an upload (fresh-record replication). (A multi-record list with one new key no longer
takes the fast path — C08 `range_respected_multi_advert`; such lists are the subject of the round / phase theorems.) -/
def OnlyNew (w : World) (dst : Nat) (nd : NodeSt) (src : Nat) (adv : List (Nat × Nat)) (k t : Nat) : Prop :=
  adv.filter (admits (w.kdist dst) nd.fetcher (indexOf nd.store) src) = [(k, t)] ∧ adv.length = 1

/-- fast path: the only new key of an advertisement from a heard holder is scheduled at once (any legal or illegal
choice witness) unless that very version is already in flight -/
theorem single_new_scheduled (w : World) (dst src : Nat) (nd : NodeSt) (adv : List (Nat × Nat)) (k t : Nat)
    (choice : List Entry) (hheard : heard w dst src = true) (honly : OnlyNew w dst nd src adv k t)
    (hfly : hasKT nd.fetcher.ogf k t = false) :
    (∃ e ∈ (nodeRep w dst nd src adv choice).2.ret, e.key = k ∧ e.ty = t ∧ e.holder = src) ∧
    (nodeRep w dst nd src adv choice).1.store = nd.store := by
  have hpass : (!(replicateArmPassesOn && heard w dst src)) = false := by simp [replicateArmPassesOn, hheard]
  simp only [nodeRep, hpass, replicateEmitsFetchEvent, if_true, Bool.false_eq_true, if_false]
  refine ⟨?_, trivial⟩
  let dist := w.kdist dst
  let s := nd.fetcher
  let locals := indexOf nd.store
  have hog : hasKT (SafeNet.Fetcher.ogf1 s locals) k t = false := by
    rw [SafeNet.Fetcher.hasKT_false_iff] at hfly ⊢
    intro e he
    exact hfly e (List.mem_filter.1 he).1
  obtain ⟨X, ill, hx⟩ := SafeNet.Fetcher.addKeys_shape dist s src adv locals choice
  show ∃ e ∈ (addKeys dist s src adv locals choice).2.ret, _
  rw [hx]
  rcases SafeNet.Fetcher.addCore_cases dist s src adv locals with ⟨p, hp, hk, _⟩ | ⟨p, hp, _, hc⟩ | ⟨hlen, _⟩
  · have : SafeNet.Fetcher.newOf dist s locals src adv = [(k, t)] := honly.1
    rw [this] at hp
    obtain rfl : (k, t) = p := by simpa using hp
    rw [hog] at hk; cases hk
  · have : SafeNet.Fetcher.newOf dist s locals src adv = [(k, t)] := honly.1
    rw [this] at hp
    obtain rfl : (k, t) = p := by simpa using hp
    rw [hc]
    exact ⟨SafeNet.Fetcher.fastEntry s src (k, t), List.mem_append_left _ (List.mem_singleton.2 rfl), rfl, rfl, rfl⟩
  · have : SafeNet.Fetcher.newOf dist s locals src adv = [(k, t)] := honly.1
    rw [this] at hlen
    rcases hlen with hlen | hlen
    · exact absurd rfl hlen
    · exact absurd honly.2 hlen

/-- Accepting: a chunk fetched through replication by a node that lacks it is stored under its key, as the holder's
content (chunks are content-addressed: key and content determine the bytes); other keys are untouched.
A node that already holds the key keeps what it has. -/
theorem immutable_accepted (w : World) (b : Nat) (nb : NodeSt) (k : Nat) (choice : List Entry) (hk : k % 3 = 0) :
    (nb.store.get k = none →
      (nodeRsp w b nb k .chunk choice).1.store.get k = some .chunk ∧
      ∀ k', k' ≠ k → (nodeRsp w b nb k .chunk choice).1.store.get k' = nb.store.get k') ∧
    (∀ c, nb.store.get k = some c → (nodeRsp w b nb k .chunk choice).1.store = nb.store) := by
  constructor
  · intro hl
    simp only [nodeRsp_store, replWrites_chunk_absent nb.store k hk hl]
    exact ⟨get_put_same _ _ _, fun k' hk' => get_put_other _ _ _ _ hk'⟩
  · intro c hc
    simp only [nodeRsp_store, replWrites_chunk_held nb.store k c hk hc]

/-- **Immutable data replicates.** Node `a` holds the chunk `k`, neighbour `b` lacks it, hears `a`, and `a` sends the
single-record advertisement `[(k, Chunk)]` (the `Cmd::Replicate` of `replicate_valid_fresh_record`: fresh-record
replication; whole-store advertisements of any length are `immutable_converge` / `big_advert_replicates_chunk`).
Then `b` schedules the fetch from `a`, `a` serves its copy, and after the reply `b` holds the same content under `k`. -/
theorem immutable_replicates (w : World) (a b : Nat) (na nb : NodeSt) (k : Nat) (c1 c2 : List Entry)
    (hk : k % 3 = 0) (hold : na.store.get k = some .chunk) (hlack : nb.store.get k = none)
    (hheard : heard w b a = true) (honly : OnlyNew w b nb a [(k, 0)] k 0)
    (hfly : hasKT nb.fetcher.ogf k 0 = false) :
    let r := nodeRep w b nb a [(k, 0)] c1
    (∃ e ∈ r.2.ret, e.key = k ∧ e.holder = a) ∧
    serve na k = some .chunk ∧
    (nodeRsp w b r.1 k .chunk c2).1.store.get k = na.store.get k := by
  obtain ⟨⟨e, he, h1, _, h3⟩, hst⟩ := single_new_scheduled w b a nb [(k, 0)] k 0 c1 hheard honly hfly
  refine ⟨⟨e, he, h1, h3⟩, hold, ?_⟩
  have hl : (nodeRep w b nb a [(k, 0)] c1).1.store.get k = none := by rw [hst]; exact hlack
  rw [hold]
  exact ((immutable_accepted w b _ k c2 hk).1 hl).1

/-! ## (5) scratchpads: `RecordType::Scratchpad` carries no version (K-g) -/

/-- A node that holds *any* version of a scratchpad never admits an advertisement of that scratchpad: the advertised
record type equals the held one whatever the counters are. -/
theorem scratchpad_never_fetched (w : World) (dst src : Nat) (nd : NodeSt) (k n : Nat) (v : Bool)
    (hheld : nd.store.get k = some (.pad n v)) :
    admits (w.kdist dst) nd.fetcher (indexOf nd.store) src (k, 1) = false := by
  have : (indexOf nd.store).lookup k = some 1 := by rw [indexOf_lookup, hheld]; rfl
  simp [admits, SafeNet.Fetcher.skipHeld, SafeNet.Fetcher.skip_same, this]

/-- two mutually close nodes, scratchpad `k = 1` with counter 1 at node 0 and counter 2 at node 1 -/
def padWorld : World := { n := 2, rt := fun i => if i = 0 then [1] else [0], pdist := fun _ _ => 5, kdist := fun _ _ => 7 }

/-- two full rounds of periodic replication, every message delivered -/
def padRun : List Op :=
  [.seed 0 1 (.pad 1 true) [], .seed 1 1 (.pad 2 true) [],
   .interval 0, .deliver 1 [], .interval 1, .deliver 2 [],
   .tick 0 50, .tick 1 50,
   .interval 0, .deliver 3 [], .interval 1, .deliver 4 []]

/-- the property's wording for scratchpads: after fair rounds every holder has the highest counter -/
def ScratchpadsConverge : Prop :=
  let s := run padWorld (init 2) padRun
  (s.node 0).store.get 1 = some (.pad 2 true) ∧ (s.node 1).store.get 1 = some (.pad 2 true)

/-- **Witness (K-g)**: after the two rounds nothing is in flight, nothing is on the wire, and node 0 still holds
counter 1 while node 1 holds counter 2. -/
theorem scratchpad_never_converges_witness :
    let s := run padWorld (init 2) padRun
    (s.node 0).store.get 1 = some (.pad 1 true) ∧ (s.node 1).store.get 1 = some (.pad 2 true) ∧
    s.wire = [] ∧ (s.node 0).fetcher.ogf = [] ∧ (s.node 0).fetcher.tbf = [] := by
  decide

theorem scratchpads_converge_is_false : ¬ ScratchpadsConverge := by
  intro h
  have := scratchpad_never_converges_witness
  simp only [ScratchpadsConverge] at h this
  rw [this.1] at h
  exact absurd h.1 (by decide)

/-- What does hold for scratchpads: a node *lacking* the scratchpad accepts the fetched version; a holder of a lower
counter would accept a higher one if it were ever fetched (it is not, by `scratchpad_never_fetched`). -/
theorem scratchpad_accept_partial (w : World) (b : Nat) (nb : NodeSt) (k n m : Nat) (v : Bool) (choice : List Entry)
    (hk : k % 3 = 1) (hheld : nb.store.get k = some (.pad m v)) (hnew : m < n) :
    (nodeRsp w b nb k (.pad n true) choice).1.store.get k = some (.pad n true) := by
  have : ¬ n ≤ m := by omega
  simp only [nodeRsp_store, replWrites_pad_held nb.store k n m v hk hheld, this, if_false]
  exact get_put_same _ _ _

/-! ## (3') the SENDER of an advertisement: nobody can speak for a close peer

`only_close_holders_heard*` above are about the `holder` FIELD of the message. The request's authenticated sender is a
different thing: until the repair the `Cmd::Replicate` arm of `handle_req_resp_events` never compared the two, so a far
peer could send `Replicate{holder = <a close peer>}` and have the node queue fetches from — and later report as failed —
that honest close peer (reproduced on the real code; `unguarded_arm_hears_far_sender_witness` is the model's view of it).
The arm now hands a list on only `if holder.as_peer_id() == Some(peer)`; rs2lean reads that shape two-sidedly
(`replicateChecksSender`, `replicateSenderMustEqual`), the model's `armActs` is instantiated with what it read. -/

/-- generated: the arm compares the holder field with the sending peer, with `==` (breaks if the guard is dropped or
its operator flipped) -/
theorem sender_guard_present : replicateChecksSender = true ∧ replicateSenderMustEqual = true := ⟨rfl, rfl⟩

/-- the arm hands a list on exactly when its holder field names the peer it came from -/
theorem armActs_iff (src holder : Nat) : armActs src holder = true ↔ holder = src := by
  simp [armActs, armActsWith, replicateChecksSender, replicateSenderMustEqual]

/-- **A node acts on advertisements only from peers among its closest — the peer being the SENDER.** In any state `s`
(so: after any schedule), delivering a `Replicate` request that was sent by a peer outside the receiver's `K_VALUE`
closest (self included in the count), or by the receiver itself, changes no node, schedules nothing and puts nothing on
the wire — whatever the `holder` field of the message claims and whatever the key list and the choice witness are. -/
theorem only_close_sender_heard (w : World) (s : Sys) (m src dst holder : Nat) (keys : List (Nat × Nat))
    (choice : List Entry) (hm : s.msg m = some (.rep src dst holder keys))
    (hfar : src ∉ closestK w dst ∨ src = dst) :
    (step w s (.deliver m choice)).1.nodes = s.nodes ∧
    (step w s (.deliver m choice)).1.wire = (s.unwire m).wire ∧
    (step w s (.deliver m choice)).2.sched = [] ∧ (step w s (.deliver m choice)).2.newMsgs = [] := by
  cases ha : armActs src holder with
  | true =>
    have := (armActs_iff src holder).1 ha
    subst this
    exact only_close_holders_heard_sys w s m holder dst holder keys choice hm hfar
  | false =>
    simp [step, hm, deliverRep, deliverRepWith, ha, Sys.unwire]

/-- the same read forwards: a list that gets anything scheduled names its own sender as holder, and that sender is among
the receiver's `K_VALUE` closest and is not the receiver -/
theorem acted_list_names_its_close_sender (w : World) (s : Sys) (m src dst holder : Nat) (keys : List (Nat × Nat))
    (choice : List Entry) (hm : s.msg m = some (.rep src dst holder keys))
    (hact : (step w s (.deliver m choice)).2.sched ≠ []) :
    holder = src ∧ src ∈ closestK w dst ∧ src ≠ dst := by
  have hs : holder = src := by
    cases ha : armActs src holder with
    | true => exact (armActs_iff src holder).1 ha
    | false =>
      exfalso; apply hact
      simp [step, hm, deliverRep, deliverRepWith, ha]
  refine ⟨hs, ?_⟩
  by_cases hfar : src ∉ closestK w dst ∨ src = dst
  · exact absurd (only_close_sender_heard w s m src dst holder keys choice hm hfar).2.2.1 hact
  · simp only [not_or, Decidable.not_not] at hfar
    exact hfar

/-- **For every schedule**: from fresh nodes, after any sequence of uploads, ticks, periodic replications, forged and
spoofed lists, deliveries in any order, duplications and drops, a `Replicate` request on the wire whose sender is not
among the receiver's closest is without effect when delivered. -/
theorem only_close_sender_heard_always (w : World) (n : Nat) (ops : List Op) (m src dst holder : Nat)
    (keys : List (Nat × Nat)) (choice : List Entry)
    (hm : (run w (init n) ops).msg m = some (.rep src dst holder keys))
    (hfar : src ∉ closestK w dst ∨ src = dst) :
    let s := run w (init n) ops
    (step w s (.deliver m choice)).1.nodes = s.nodes ∧ (step w s (.deliver m choice)).2.sched = [] ∧
    (step w s (.deliver m choice)).2.newMsgs = [] := by
  intro s
  obtain ⟨h1, _, h3, h4⟩ := only_close_sender_heard w s m src dst holder keys choice hm hfar
  exact ⟨h1, h3, h4⟩

/-- **Witness of the defect that was repaired** (model of the arm without the guard, `armActsWith false`): node 1 holds
chunk 0; peer 28 — unknown to node 0, hence not among its closest — sends node 0 a list claiming node 1 as holder.
Without the guard node 0 schedules the fetch from node 1; with the guard as generated from today's source the same
delivery does nothing. (Real code, before the repair: `spoof 1061 1 0 0=C ; deliver 1` ⇒ `rep sched=1:0:C`.) -/
theorem unguarded_arm_hears_far_sender_witness :
    let s0 := run padWorld (init 2) [.seed 1 0 .chunk [], .spoof 28 1 0 [(0, 0)]]
    28 ∉ closestK padWorld 0 ∧ s0.wire.map (·.1) = [1] ∧
    (deliverRepWith (armActsWith false true 28 1) padWorld (s0.unwire 1) 0 1 [(0, 0)] [⟨0, 0, 1, 0⟩]).2.sched.map
      (fun e => (e.holder, e.key)) = [(1, 0)] ∧
    (step padWorld s0 (.deliver 1 [])).2.sched = [] ∧
    ((step padWorld s0 (.deliver 1 [])).1.node 0).fetcher.ogf = [] ∧
    ((step padWorld s0 (.deliver 1 [])).1.node 0).fetcher.tbf = [] ∧ (step padWorld s0 (.deliver 1 [])).1.wire = [] := by
  decide

/-- non-vacuity of `acted_list_names_its_close_sender`: the honest list (node 1 names itself) is acted on -/
example :
    let s0 := run padWorld (init 2) [.seed 1 0 .chunk [], .forge 1 0 [(0, 0)]]
    (step padWorld s0 (.deliver 1 [⟨0, 0, 1, 0⟩])).2.sched.map (fun e => (e.holder, e.key)) = [(1, 0)] := by
  decide

/-! ## retry after a lost fetch -/

/-- **Retry after a lost fetch, step 1.** The fetch of `(k, t)` was lost: its in-flight entry is still registered at a
`StaleQuiet` fetcher (past FETCH_TIMEOUT, nothing queued). The next single-key advertisement of that very version finds the
entry occupied and schedules nothing — but the `next_keys_to_fetch` that ends `add_keys` prunes every timed-out entry,
*although nothing is queued*, reports their holders, and leaves the fetcher empty. -/
theorem lost_fetch_pruned (w : World) (dst src : Nat) (nd : NodeSt) (adv : List (Nat × Nat)) (k t : Nat)
    (choice : List Entry) (hheard : heard w dst src = true) (hq : StaleQuiet nd.fetcher)
    (honly : OnlyNew w dst nd src adv k t) (hstale : hasKT nd.fetcher.ogf k t = true) :
    (nodeRep w dst nd src adv choice).2.ret = [] ∧
    (nodeRep w dst nd src adv choice).1.fetcher.ogf = [] ∧
    (nodeRep w dst nd src adv choice).1.fetcher.tbf = [] ∧
    (nodeRep w dst nd src adv choice).1.fetcher.farthest = none ∧
    (nodeRep w dst nd src adv choice).1.store = nd.store ∧
    (∀ e ∈ nd.fetcher.ogf, Fetcher.heldSame (indexOf nd.store) e = false →
      e.holder ∈ (nodeRep w dst nd src adv choice).2.failed) := by
  rw [nodeRep_eq w dst nd src adv choice hheard]
  simp only
  obtain ⟨ht, hf, hexp⟩ := hq
  let dist := w.kdist dst
  let s := nd.fetcher
  let loc := indexOf nd.store
  obtain ⟨X, hst, hret, _⟩ := addKeys_shape' dist s src adv loc choice
  have hcf := SafeNet.Fetcher.addCore_fields dist s src adv loc
  have hnew : SafeNet.Fetcher.newOf dist s loc src adv = [(k, t)] := honly.1
  -- the stale entry survives `remove_stored_keys`: the advertised version is not held
  have hadm : admits dist s loc src (k, t) = true := by
    have : (k, t) ∈ adv.filter (admits dist s loc src) := by
      rw [show adv.filter (admits dist s loc src) = [(k, t)] from honly.1]; exact List.mem_singleton.2 rfl
    exact (List.mem_filter.1 this).2
  have hnotheld : loc.lookup k ≠ some t := by
    intro hh
    simp [admits, SafeNet.Fetcher.skipHeld, SafeNet.Fetcher.skip_same, hh] at hadm
  have hog : hasKT (SafeNet.Fetcher.ogf1 s loc) k t = true := by
    obtain ⟨e, he, hek, het⟩ := (SafeNet.Fetcher.hasKT_true_iff _ _ _).1 hstale
    refine (SafeNet.Fetcher.hasKT_true_iff _ _ _).2 ⟨e, List.mem_filter.2 ⟨he, ?_⟩, hek, het⟩
    simp only [SafeNet.Fetcher.heldSame, hek, het, Bool.not_eq_true', beq_eq_false_iff_ne, ne_eq]
    exact hnotheld
  rcases SafeNet.Fetcher.addCore_cases dist s src adv loc with ⟨p, hp, _, hc⟩ | ⟨p, hp, hk', _⟩ | ⟨hlen, _⟩
  · -- occupied: nothing scheduled by the fast path; the final `next_keys_to_fetch` prunes
    have htb : (addCore dist s src adv loc).1.tbf = [] := by
      have ht' : s.tbf = [] := ht
      rw [hc]; simp [SafeNet.Fetcher.tbf2, SafeNet.Fetcher.tbf1, ht']
    obtain ⟨h1, h2, h3⟩ := nextKeys_tbf_nil dist (addCore dist s src adv loc).1 X htb
    have hpo : SafeNet.Fetcher.pOgf (addCore dist s src adv loc).1 = [] := by
      apply pOgf_nil_of_expired
      intro e he
      rw [hc] at he ⊢
      exact hexp e (List.mem_filter.1 he).1
    have hfast : (addCore dist s src adv loc).2 = [] := by rw [hc]
    have hfields := SafeNet.Fetcher.nextKeys_fields dist (addCore dist s src adv loc).1 X
    refine ⟨?_, ?_, ?_, ?_, trivial, ?_⟩
    · show (addKeys dist s src adv loc choice).2.ret = []
      rw [hret, hfast, h1]; rfl
    · show (addKeys dist s src adv loc choice).1.ogf = []
      rw [hst, h3, hpo]
    · show (addKeys dist s src adv loc choice).1.tbf = []
      rw [hst, h2]
    · show (addKeys dist s src adv loc choice).1.farthest = none
      rw [hst, hfields.2.1, hcf.2.1]; exact hf
    · intro e he hes
      obtain ⟨X', ill, hx⟩ := SafeNet.Fetcher.addKeys_shape dist s src adv loc choice
      show e.holder ∈ (addKeys dist s src adv loc choice).2.failed
      rw [hx]
      simp only
      rw [(SafeNet.Fetcher.nextKeys_fields dist (addCore dist s src adv loc).1 X').2.2.2]
      apply SafeNet.Fetcher.mem_failedOf (o := e)
      · rw [hc]; exact List.mem_filter.2 ⟨he, by rw [show Fetcher.heldSame loc e = false from hes]; rfl⟩
      · rw [hc]; exact hexp e he
  · rw [hnew] at hp
    obtain rfl : (k, t) = p := by simpa using hp
    rw [hog] at hk'; cases hk'
  · rw [hnew] at hlen
    rcases hlen with hlen | hlen
    · exact absurd rfl hlen
    · exact absurd honly.2 hlen

/-- **Retry after a lost fetch, step 2 — eventual fetch.** After that pruning advertisement, the next single-key
advertisement of the record (same store, from any heard holder `src'`) schedules the fetch: two advertisements after
the FETCH_TIMEOUT of a lost fetch suffice for the record to be requested again. -/
theorem eventual_fetch_after_timeout (w : World) (dst src src' : Nat) (nd : NodeSt) (adv adv' : List (Nat × Nat))
    (k t : Nat) (c1 c2 : List Entry) (hheard : heard w dst src = true) (hheard' : heard w dst src' = true)
    (hq : StaleQuiet nd.fetcher) (honly : OnlyNew w dst nd src adv k t) (hstale : hasKT nd.fetcher.ogf k t = true)
    (honly' : OnlyNew w dst { nd with fetcher := {} } src' adv' k t) :
    let nd1 := (nodeRep w dst nd src adv c1).1
    ∃ e ∈ (nodeRep w dst nd1 src' adv' c2).2.ret, e.key = k ∧ e.ty = t ∧ e.holder = src' := by
  intro nd1
  obtain ⟨_, h2, h3, h4, h5, _⟩ := lost_fetch_pruned w dst src nd adv k t c1 hheard hq honly hstale
  have hon : OnlyNew w dst nd1 src' adv' k t := by
    unfold OnlyNew at honly' ⊢
    have : ∀ p, admits (w.kdist dst) nd1.fetcher (indexOf nd1.store) src' p =
        admits (w.kdist dst) ({ nd with fetcher := {} } : NodeSt).fetcher (indexOf ({ nd with fetcher := {} } : NodeSt).store) src' p := by
      intro p
      show admits (w.kdist dst) (nodeRep w dst nd src adv c1).1.fetcher (indexOf (nodeRep w dst nd src adv c1).1.store) src' p = _
      simp only [admits, h3, h4, h5]
    rw [List.filter_congr (fun p _ => this p)]
    exact honly'
  have hfly : hasKT nd1.fetcher.ogf k t = false := by
    show hasKT (nodeRep w dst nd src adv c1).1.fetcher.ogf k t = false
    rw [h2]; rfl
  obtain ⟨⟨e, he, a, b, c⟩, _⟩ := single_new_scheduled w dst src' nd1 adv' k t c2 hheard' hon hfly
  exact ⟨e, he, a, b, c⟩

/-- the same through the system-level transitions: the reply to node 1's fetch of chunk 0 is lost; 25 s later (past
FETCH_TIMEOUT) node 0's next single-key advertisement only prunes the dead entry (node 0 reported), the one after it is
fetched, and node 1 ends up holding the chunk with nothing in flight -/
example :
    let s := run padWorld (init 2)
      [.seed 0 0 .chunk [], .interval 0, .deliver 1 [⟨0, 0, 0, 0⟩], .deliver 2 [], .drop 3,
       .tick 1 25, .tick 0 50, .interval 0, .deliver 4 [],
       .tick 0 50, .interval 0, .deliver 5 [⟨0, 0, 0, 0⟩], .deliver 6 [], .deliver 7 []]
    (s.node 1).store.get 0 = some .chunk ∧ (s.node 1).fetcher.ogf = [] ∧ s.wire = [] ∧
    (step padWorld (run padWorld (init 2)
      [.seed 0 0 .chunk [], .interval 0, .deliver 1 [⟨0, 0, 0, 0⟩], .deliver 2 [], .drop 3,
       .tick 1 25, .tick 0 50, .interval 0]) (.deliver 4 [])).2.failed = [0] := by
  decide

/-! ## (4) mutable records converge -/

/-- the single-record advertisement `src` sends for its record `k` (`replicate_valid_fresh_record`: one
`(address, record type)` pair; nothing when it does not hold `k`) -/
def freshAdv (ns : NodeSt) (k : Nat) : List (Nat × Nat) :=
  match ns.store.get k with
  | some c => [(k, tyOf c)]
  | none => []

/-- one directed exchange about key `k`: `src` advertises its record `k` on its own to `dst` (fresh-record replication,
a single-record list); if the fetch of `k` from `src` is scheduled by that advertisement, `src` serves its copy and `dst`
processes the reply. (Whole-store advertisements: `exchangeAll`, the round and phase theorems.) -/
def exchange (w : World) (src dst : Nat) (ns nd : NodeSt) (k : Nat) (c1 c2 : List Entry) : NodeSt :=
  let r := nodeRep w dst nd src (freshAdv ns k) c1
  if r.2.ret.any (fun e => e.key == k && e.holder == src) then
    match serve ns k with
    | some c => (nodeRsp w dst r.1 k c c2).1
    | none => r.1
  else r.1

theorem nodeRep_store (w : World) (i : Nat) (nd : NodeSt) (h : Nat) (keys : List (Nat × Nat)) (c : List Entry) :
    (nodeRep w i nd h keys c).1.store = nd.store := by
  unfold nodeRep
  split <;> rfl

/-- what it takes for the fetch to be scheduled: if the advertised version differs from the held one, the single-record
advertisement's record is new to the receiver (`OnlyNew`) and that version is not already in flight -/
def Fetchable (w : World) (src dst : Nat) (ns nd : NodeSt) (k : Nat) (cs cd : Content) : Prop :=
  tyOf cs ≠ tyOf cd →
    OnlyNew w dst nd src (freshAdv ns k) k (tyOf cs) ∧ hasKT nd.fetcher.ogf k (tyOf cs) = false

theorem fetched_of_differs (w : World) (src dst : Nat) (ns nd : NodeSt) (k : Nat) (cs cd : Content) (c1 : List Entry)
    (hheard : heard w dst src = true) (hf : Fetchable w src dst ns nd k cs cd) (hne : tyOf cs ≠ tyOf cd) :
    (nodeRep w dst nd src (freshAdv ns k) c1).2.ret.any (fun e => e.key == k && e.holder == src) = true := by
  obtain ⟨ho, hfly⟩ := hf hne
  obtain ⟨⟨e, he, h1, _, h3⟩, _⟩ := single_new_scheduled w dst src nd (freshAdv ns k) k (tyOf cs) c1 hheard ho hfly
  exact List.any_eq_true.2 ⟨e, he, by simp [h1, h3]⟩

/-- a → b for a transaction set: afterwards `b` holds the union -/
theorem exchange_txs (w : World) (src dst : Nat) (ns nd : NodeSt) (k : Nat) (ia ib : List Nat) (c1 c2 : List Entry)
    (hk : k % 3 = 1) (hs : ns.store.get k = some (.txs ia)) (hd : nd.store.get k = some (.txs ib))
    (hne : ia ≠ []) (hcb : Canon ib)
    (hheard : heard w dst src = true) (hf : Fetchable w src dst ns nd k (.txs ia) (.txs ib)) :
    (exchange w src dst ns nd k c1 c2).store.get k = some (.txs (union ia ib)) := by
  have hst := nodeRep_store w dst nd src (freshAdv ns k) c1
  have hfetched : (nodeRsp w dst (nodeRep w dst nd src (freshAdv ns k) c1).1 k (.txs ia) c2).1.store.get k
      = some (.txs (union ia ib)) := by
    have hd' : (nodeRep w dst nd src (freshAdv ns k) c1).1.store.get k = some (.txs ib) := by rw [hst]; exact hd
    simp only [nodeRsp_store, replWrites_txs _ k ia hk hne ib (Or.inl hd')]
    exact get_put_same _ _ _
  unfold exchange
  simp only [serve, hs]
  by_cases hty : tyOf (Content.txs ia) = tyOf (Content.txs ib)
  · have hab : ia = ib := by
      rcases tyOf_inj hty with h | ⟨_, _, _, _, h, _⟩
      · injection h
      · cases h
    split
    · exact hfetched
    · rw [hst, hd, hab, union_of_subset hcb (fun x hx => hx)]
  · rw [if_pos (fetched_of_differs w src dst ns nd k _ _ c1 hheard hf hty)]
    exact hfetched

/-- a → b for a register: afterwards `b` holds the union of the ops -/
theorem exchange_reg (w : World) (src dst : Nat) (ns nd : NodeSt) (k : Nat) (alt : Bool) (oa ob : List Nat)
    (c1 c2 : List Entry)
    (hk : k % 3 = 2) (hs : ns.store.get k = some (.reg alt oa)) (hd : nd.store.get k = some (.reg alt ob))
    (hcb : Canon ob)
    (hheard : heard w dst src = true) (hf : Fetchable w src dst ns nd k (.reg alt oa) (.reg alt ob)) :
    (exchange w src dst ns nd k c1 c2).store.get k = some (.reg alt (union oa ob)) := by
  have hst := nodeRep_store w dst nd src (freshAdv ns k) c1
  have hfetched : (nodeRsp w dst (nodeRep w dst nd src (freshAdv ns k) c1).1 k (.reg alt oa) c2).1.store.get k
      = some (.reg alt (union oa ob)) := by
    have hd' : (nodeRep w dst nd src (freshAdv ns k) c1).1.store.get k = some (.reg alt ob) := by rw [hst]; exact hd
    by_cases hany : (oa.any fun o => !ob.contains o) = true
    · simp only [nodeRsp_store, replWrites_reg_held _ k alt oa ob hk hd', hany, if_true]
      exact get_put_same _ _ _
    · have hsub : ∀ x ∈ oa, x ∈ ob := by
        intro x hx
        simp only [List.any_eq_true, Bool.not_eq_true', not_exists, not_and] at hany
        simpa using hany x hx
      simp only [nodeRsp_store, replWrites_reg_held _ k alt oa ob hk hd', hany, if_false, Bool.false_eq_true]
      rw [hd', union_of_subset hcb hsub]
  unfold exchange
  simp only [serve, hs]
  by_cases hty : tyOf (Content.reg alt oa) = tyOf (Content.reg alt ob)
  · have hab : oa = ob := by
      rcases tyOf_inj hty with h | ⟨_, _, _, _, h, _⟩
      · injection h
      · cases h
    split
    · exact hfetched
    · rw [hst, hd, hab, union_of_subset hcb (fun x hx => hx)]
  · rw [if_pos (fetched_of_differs w src dst ns nd k _ _ c1 hheard hf hty)]
    exact hfetched

theorem union_ne_nil {a b : List Nat} (h : a ≠ []) : union a b ≠ [] := by
  intro h0
  cases a with
  | nil => exact h rfl
  | cons x xs =>
    have : x ∈ union (x :: xs) b := (mem_union' _ _ _).2 (Or.inl (List.mem_cons_self ..))
    rw [h0] at this; cases this

/-- **Transaction sets converge (partial).** Nodes `a`, `b` hear each other and hold the sets `ia`, `ib` under `k`.
One fair round — `a` advertises, `b` fetches what was scheduled; then `b` advertises, `a` fetches — leaves both with
`ia ∪ ib`. `Fetchable` (both directions; the second one about `b`'s state after the first exchange) is what keeps this
`_partial`: each advertisement is the single-record list for `k` (`freshAdv`, the fast path) and that version must not
already be in flight. Whole-store advertisements with any number of new keys, three or more nodes and the quiet-fetcher
hypothesis after a round are the subject of `mutable_converge_txs/_reg`, `big_advert_converge_*` and the phase theorems. -/
theorem mutable_converge_partial_txs (w : World) (a b : Nat) (na nb : NodeSt) (k : Nat) (ia ib : List Nat)
    (c1 c2 c3 c4 : List Entry)
    (hk : k % 3 = 1) (ha : na.store.get k = some (.txs ia)) (hb : nb.store.get k = some (.txs ib))
    (hia : ia ≠ []) (hca : Canon ia) (hcb : Canon ib)
    (hab : heard w b a = true) (hba : heard w a b = true)
    (hf1 : Fetchable w a b na nb k (.txs ia) (.txs ib))
    (hf2 : Fetchable w b a (exchange w a b na nb k c1 c2) na k (.txs (union ia ib)) (.txs ia)) :
    let nb' := exchange w a b na nb k c1 c2
    let na' := exchange w b a nb' na k c3 c4
    na'.store.get k = some (.txs (union ia ib)) ∧ nb'.store.get k = some (.txs (union ia ib)) := by
  intro nb' na'
  have h1 : nb'.store.get k = some (.txs (union ia ib)) :=
    exchange_txs w a b na nb k ia ib c1 c2 hk ha hb hia hcb hab hf1
  have h2 := exchange_txs w b a nb' na k (union ia ib) ia c3 c4 hk h1 ha (union_ne_nil hia) hca hba hf2
  refine ⟨?_, h1⟩
  show na'.store.get k = _
  rw [h2]
  congr 2
  exact canon_ext (canon_union _ _) (canon_union _ _) (by
    intro x; simp only [mem_union']
    constructor
    · rintro ((h | h) | h) <;> simp [h]
    · rintro (h | h) <;> simp [h])

/-- **Registers converge (partial)**: same round, same hypotheses, for two versions of one register (same base,
diverging op sets). Depends on the F-g repair: with `skipHeldSameTypeOnly = false` the held key is never admitted. -/
theorem mutable_converge_partial_reg (w : World) (a b : Nat) (na nb : NodeSt) (k : Nat) (alt : Bool) (oa ob : List Nat)
    (c1 c2 c3 c4 : List Entry)
    (hk : k % 3 = 2) (ha : na.store.get k = some (.reg alt oa)) (hb : nb.store.get k = some (.reg alt ob))
    (hca : Canon oa) (hcb : Canon ob)
    (hab : heard w b a = true) (hba : heard w a b = true)
    (hf1 : Fetchable w a b na nb k (.reg alt oa) (.reg alt ob))
    (hf2 : Fetchable w b a (exchange w a b na nb k c1 c2) na k (.reg alt (union oa ob)) (.reg alt oa)) :
    let nb' := exchange w a b na nb k c1 c2
    let na' := exchange w b a nb' na k c3 c4
    na'.store.get k = some (.reg alt (union oa ob)) ∧ nb'.store.get k = some (.reg alt (union oa ob)) := by
  intro nb' na'
  have h1 : nb'.store.get k = some (.reg alt (union oa ob)) :=
    exchange_reg w a b na nb k alt oa ob c1 c2 hk ha hb hcb hab hf1
  have h2 := exchange_reg w b a nb' na k alt (union oa ob) oa c3 c4 hk h1 ha hca hba hf2
  refine ⟨?_, h1⟩
  show na'.store.get k = _
  rw [h2]
  congr 2
  exact canon_ext (canon_union _ _) (canon_union _ _) (by
    intro x; simp only [mem_union']
    constructor
    · rintro ((h | h) | h) <;> simp [h]
    · rintro (h | h) <;> simp [h])

/-! ## (4) mutable records converge: any number of nodes, whole advertisements, rounds with timeouts

Built in `Proofs/ReplicationRounds.lean`:
* `adv_complete` — one advertisement at a `StaleQuiet` fetcher (nothing queued, every earlier in-flight entry past its
  FETCH_TIMEOUT) is taken up completely: every new `(key, type)` of the list is scheduled from the advertiser at once
  (C08 `progress_partial` for each queued entry, the fast path for a single one), nothing stays queued;
* `exchange_join_tx` / `exchange_join_reg` — after all scheduled fetches are served and processed (`exchangeAll`) the
  requester's version of *every* transaction / register key is the join (set union) of the two versions;
* `exchange_then_tick_staleQuiet` — the quiet fetcher is re-established: what stays in flight (a fetch that merged to
  nothing notifies nobody — the F-g side effect) has timed out after FETCH_TIMEOUT;
* `void_exchange_quiets` — the F-g side effect itself: a timed-out fetch from the advertiser makes a multi-key
  advertisement void (advertiser reported failed, nothing fetched) but leaves the fetcher empty, so that pair's next
  exchange is complete: no two consecutive exchanges of one ordered pair are void;
* `Abs.abs_converge` / `Abs.measure_zero` — the abstract semilattice system: a schedule with a completed exchange for
  every ordered pair leaves every node with the join of all initial versions; the measure "nodes not at the join" is 0
  afterwards, hence strictly smaller than before unless it was 0. -/

open SafeNet.Replication.Abs in
/-- version maps agree ⇒ the stored contents agree (transaction keys) -/
theorem txKey_ext {k : Nat} {a b : NodeSt} (ha : TxKey k a) (hb : TxKey k b)
    (h : verTx (a.store.get k) = verTx (b.store.get k)) : a.store.get k = b.store.get k := by
  rcases ha with ha | ⟨la, ha, _, _⟩ <;> rcases hb with hb | ⟨lb, hb, _, _⟩ <;> rw [ha, hb] at h ⊢ <;>
    simp [verTx] at h ⊢
  exact h

open SafeNet.Replication.Abs in
theorem regKey_ext {alt : Bool} {k : Nat} {a b : NodeSt} (ha : RegKey alt k a) (hb : RegKey alt k b)
    (h : verReg alt (a.store.get k) = verReg alt (b.store.get k)) : a.store.get k = b.store.get k := by
  rcases ha with ha | ⟨la, ha, _⟩ <;> rcases hb with hb | ⟨lb, hb, _⟩ <;> rw [ha, hb] at h ⊢ <;>
    simp [verReg] at h ⊢
  exact h

open SafeNet.Replication.Abs in
/-- **Transaction sets converge — `n` nodes, whole advertisements, any order.**
`nodes` are `n` neighbours whose fetchers are `StaleQuiet`; at key `k` each holds nothing or a transaction set.
`xs` is any schedule of exchanges among them in which (`Valid`, the FairRound hypotheses, checked at the state each
exchange meets) every advertisement is heard and taken up (legal choice witness, fewer than MAX_PARALLEL_FETCH records and
stale entries, keys within the range, no timed-out fetch from that advertiser still registered), every scheduled fetch is
served and processed, and FETCH_TIMEOUT passes at the requester afterwards; and which (`Covers`) contains such an exchange
for every ordered pair — one fair round. Then every node holds the same content under `k`, its members are exactly the
transactions held anywhere at the start, every fetcher is `StaleQuiet` again, and the ranking function (nodes not yet at
the join) is 0 — strictly below its starting value unless that was 0. Bound: one fair round; two when exchanges voided
by the F-g side effect are counted (`void_exchange_quiets`). -/
theorem mutable_converge_txs (w : World) (n k : Nat) (nodes : Nat → NodeSt) (xs : List Xch) (hk : k % 3 = 1)
    (hq : ∀ i, StaleQuiet (nodes i).fetcher) (hkey : ∀ i, TxKey k (nodes i)) (hv : Valid w nodes xs)
    (hin : ∀ x ∈ xs, x.src < n ∧ x.dst < n) (hcov : Covers n (xs.map (fun x => (x.src, x.dst)))) :
    let fin := runXs w nodes xs
    (∀ x y, x < n → y < n → (fin x).store.get k = (fin y).store.get k) ∧
    (∀ x m, x < n → (memV m (verTx ((fin x).store.get k)) ↔ ∃ y, y < n ∧ memV m (verTx ((nodes y).store.get k)))) ∧
    (∀ i, StaleQuiet (fin i).fetcher) ∧
    (∀ x0, x0 < n → measure n (fun i => verTx ((fin i).store.get k)) (verTx ((fin x0).store.get k)) = 0) := by
  intro fin
  obtain ⟨r1, r2, r3⟩ := runXs_refines w k verTx (TxKey k) (fun nd d h => h)
    (fun src dst ns nd c1 cs hq ok hs hd => exchange_join_tx w src dst ns nd c1 cs k hk hq ok hs hd) xs nodes hq hkey hv
  have hc : ∀ i, CanonV ((fun j => verTx ((nodes j).store.get k)) i) := by
    intro i l hl
    rcases hkey i with h | ⟨l', h, hcl, _⟩
    · simp [h, verTx] at hl
    · simp only [h, verTx, Option.some.injEq] at hl; rw [← hl]; exact hcl
  have hin' : ∀ p ∈ xs.map (fun x => (x.src, x.dst)), p.1 < n ∧ p.2 < n := by
    intro p hp
    obtain ⟨x, hx, rfl⟩ := List.mem_map.1 hp
    exact hin x hx
  obtain ⟨a1, _, a3⟩ := abs_converge n _ _ hc hin' hcov
  refine ⟨?_, ?_, r3, ?_⟩
  · intro x y hx hy
    exact txKey_ext (r2 x) (r2 y) (by rw [r1 x, r1 y]; exact a3 x y hx hy)
  · intro x m hx
    rw [r1 x]; exact a1 x m hx
  · intro x0 hx0
    have := (measure_zero n _ _ hc hin' hcov x0 hx0).1
    have hf : (fun i => verTx ((fin i).store.get k)) =
        runX (fun j => verTx ((nodes j).store.get k)) (xs.map (fun x => (x.src, x.dst))) := by
      funext i; exact r1 i
    rw [hf, r1 x0]; exact this

open SafeNet.Replication.Abs in
/-- **Registers converge — `n` nodes, whole advertisements, any order** (same statement for the versions of one register
with base `alt`; depends on the F-g repair through `adv_complete`). -/
theorem mutable_converge_reg (w : World) (n k : Nat) (alt : Bool) (nodes : Nat → NodeSt) (xs : List Xch) (hk : k % 3 = 2)
    (hq : ∀ i, StaleQuiet (nodes i).fetcher) (hkey : ∀ i, RegKey alt k (nodes i)) (hv : Valid w nodes xs)
    (hin : ∀ x ∈ xs, x.src < n ∧ x.dst < n) (hcov : Covers n (xs.map (fun x => (x.src, x.dst)))) :
    let fin := runXs w nodes xs
    (∀ x y, x < n → y < n → (fin x).store.get k = (fin y).store.get k) ∧
    (∀ x m, x < n → (memV m (verReg alt ((fin x).store.get k)) ↔
      ∃ y, y < n ∧ memV m (verReg alt ((nodes y).store.get k)))) ∧
    (∀ i, StaleQuiet (fin i).fetcher) ∧
    (∀ x0, x0 < n → measure n (fun i => verReg alt ((fin i).store.get k)) (verReg alt ((fin x0).store.get k)) = 0) := by
  intro fin
  obtain ⟨r1, r2, r3⟩ := runXs_refines w k (verReg alt) (RegKey alt k) (fun nd d h => h)
    (fun src dst ns nd c1 cs hq ok hs hd => exchange_join_reg w src dst ns nd c1 cs alt k hk hq ok hs hd) xs nodes hq hkey hv
  have hc : ∀ i, CanonV ((fun j => verReg alt ((nodes j).store.get k)) i) := by
    intro i l hl
    rcases hkey i with h | ⟨l', h, hcl⟩
    · simp [h, verReg] at hl
    · simp only [h, verReg, if_true, Option.some.injEq] at hl; rw [← hl]; exact hcl
  have hin' : ∀ p ∈ xs.map (fun x => (x.src, x.dst)), p.1 < n ∧ p.2 < n := by
    intro p hp
    obtain ⟨x, hx, rfl⟩ := List.mem_map.1 hp
    exact hin x hx
  obtain ⟨a1, _, a3⟩ := abs_converge n _ _ hc hin' hcov
  refine ⟨?_, ?_, r3, ?_⟩
  · intro x y hx hy
    exact regKey_ext (r2 x) (r2 y) (by rw [r1 x, r1 y]; exact a3 x y hx hy)
  · intro x m hx
    rw [r1 x]; exact a1 x m hx
  · intro x0 hx0
    have := (measure_zero n _ _ hc hin' hcov x0 hx0).1
    have hf : (fun i => verReg alt ((fin i).store.get k)) =
        runX (fun j => verReg alt ((nodes j).store.get k)) (xs.map (fun x => (x.src, x.dst))) := by
      funext i; exact r1 i
    rw [hf, r1 x0]; exact this

open SafeNet.Replication.Abs in
theorem chunkKey_some {k : Nat} {a : NodeSt} (ha : ChunkKey k a) (h : (verChunk (a.store.get k)).isSome = true) :
    a.store.get k = some .chunk := by
  rcases ha with ha | ha
  · rw [ha] at h; cases h
  · exact ha

open SafeNet.Replication.Abs in
/-- **Immutable data reaches every neighbour — liveness, `n` nodes, whole advertisements.** Under the FairRound
hypotheses (`Valid`) and one completed exchange per ordered pair (`Covers`): if any of the `n` neighbours holds the chunk
`k` at the start, every one of them holds it after the round (the same content: a chunk is determined by its key), and
nobody holds it otherwise. Bound: one fair round (two when exchanges voided by the F-g side effect are counted). -/
theorem immutable_converge (w : World) (n k : Nat) (nodes : Nat → NodeSt) (xs : List Xch) (hk : k % 3 = 0)
    (hq : ∀ i, StaleQuiet (nodes i).fetcher) (hkey : ∀ i, ChunkKey k (nodes i)) (hv : Valid w nodes xs)
    (hin : ∀ x ∈ xs, x.src < n ∧ x.dst < n) (hcov : Covers n (xs.map (fun x => (x.src, x.dst)))) :
    let fin := runXs w nodes xs
    (∀ x, x < n → ((fin x).store.get k = some .chunk ↔ ∃ y, y < n ∧ (nodes y).store.get k = some .chunk)) ∧
    (∀ i, StaleQuiet (fin i).fetcher) := by
  intro fin
  obtain ⟨r1, r2, r3⟩ := runXs_refines w k verChunk (ChunkKey k) (fun nd d h => h)
    (fun src dst ns nd c1 cs hq ok hs hd => exchange_join_chunk w src dst ns nd c1 cs k hk hq ok hs hd) xs nodes hq hkey hv
  have hc : ∀ i, CanonV ((fun j => verChunk ((nodes j).store.get k)) i) := by
    intro i l hl
    rcases hkey i with h | h
    · simp [h, verChunk] at hl
    · simp only [h, verChunk, Option.some.injEq] at hl; rw [← hl]; trivial
  have hin' : ∀ p ∈ xs.map (fun x => (x.src, x.dst)), p.1 < n ∧ p.2 < n := by
    intro p hp
    obtain ⟨x, hx, rfl⟩ := List.mem_map.1 hp
    exact hin x hx
  obtain ⟨_, a2, _⟩ := abs_converge n _ _ hc hin' hcov
  refine ⟨?_, r3⟩
  intro x hx
  have := a2 x hx
  rw [← r1 x] at this
  constructor
  · intro h
    obtain ⟨y, hy, hs⟩ := this.1 (by rw [h]; rfl)
    exact ⟨y, hy, chunkKey_some (hkey y) hs⟩
  · rintro ⟨y, hy, hs⟩
    exact chunkKey_some (r2 x) (this.2 ⟨y, hy, by rw [hs]; rfl⟩)

/-- three mutually close nodes -/
def meshWorld3 : World :=
  { n := 3, rt := fun i => if i = 0 then [1, 2] else if i = 1 then [0, 2] else [1, 0], pdist := fun _ _ => 0, kdist := fun _ _ => 0 }

/-- **Non-vacuity, 3 nodes × 2 keys, through the system-level transitions** (the history was produced by three real nodes
in the harness; message ids and choice witnesses are theirs): every node starts with its own version of register 2 and
transaction set 4; one round — each node's periodic replication, every Replicate delivered (both keys new: the multi-key
path), every fetch served and processed — leaves all three with the unions, nothing on the wire, nothing queued. -/
example :
    let s := run meshWorld3 (init 3)
      [.seed 0 2 (.reg false [0]) [],
     .seed 0 4 (.txs [0]) [],
     .seed 1 2 (.reg false [1]) [],
     .seed 1 4 (.txs [1]) [],
     .seed 2 2 (.reg false [2]) [],
     .seed 2 4 (.txs [2]) [],
     .interval 0,
     .deliver 1 [⟨4, tyOf (.txs [0]), 0, 0⟩, ⟨2, tyOf (.reg false [0]), 0, 0⟩],
     .deliver 2 [⟨4, tyOf (.txs [0]), 0, 0⟩, ⟨2, tyOf (.reg false [0]), 0, 0⟩],
     .deliver 3 [],
     .deliver 4 [],
     .deliver 5 [],
     .deliver 6 [],
     .deliver 7 [],
     .deliver 8 [],
     .deliver 9 [],
     .deliver 10 [],
     .interval 1,
     .deliver 11 [⟨4, tyOf (.txs [0, 1]), 1, 0⟩, ⟨2, tyOf (.reg false [0, 1]), 1, 0⟩],
     .deliver 12 [⟨4, tyOf (.txs [0, 1]), 1, 0⟩, ⟨2, tyOf (.reg false [0, 1]), 1, 0⟩],
     .deliver 13 [],
     .deliver 14 [],
     .deliver 15 [],
     .deliver 16 [],
     .deliver 17 [],
     .deliver 18 [],
     .deliver 19 [],
     .deliver 20 [],
     .interval 2,
     .deliver 21 [⟨4, tyOf (.txs [0, 1, 2]), 2, 0⟩, ⟨2, tyOf (.reg false [0, 1, 2]), 2, 0⟩],
     .deliver 22 [⟨4, tyOf (.txs [0, 1, 2]), 2, 0⟩, ⟨2, tyOf (.reg false [0, 1, 2]), 2, 0⟩],
     .deliver 23 [],
     .deliver 24 [],
     .deliver 25 [],
     .deliver 26 [],
     .deliver 27 [],
     .deliver 28 [],
     .deliver 29 [],
     .deliver 30 []]
    (∀ i, i < 3 → (s.node i).store.get 2 = some (.reg false [0, 1, 2]) ∧ (s.node i).store.get 4 = some (.txs [0, 1, 2]) ∧
      (s.node i).fetcher.tbf = []) ∧ s.wire = [] := by
  set_option maxRecDepth 100000 in decide

/-! ## (3) as an invariant of every run: whatever the delivery order, duplication and loss -/

/-- every queued or in-flight entry of a fetcher names a holder satisfying `P` -/
def HoldersIn (P : Nat → Prop) (f : SafeNet.Fetcher.State) : Prop :=
  (∀ e ∈ f.tbf, P e.holder) ∧ (∀ e ∈ f.ogf, P e.holder)

theorem holders_next (dist : Nat → Nat) (P : Nat → Prop) (f : SafeNet.Fetcher.State) (c : List Entry)
    (h : HoldersIn P f) :
    HoldersIn P (nextKeys dist f c).1 ∧ ∀ e ∈ (nextKeys dist f c).2.ret, P e.holder := by
  have hret : ∀ e ∈ (nextKeys dist f c).2.ret, P e.holder := by
    intro e he
    obtain ⟨⟨x, hx, _, _, hh⟩, _⟩ := SafeNet.Fetcher.nextKeys_ret_origin dist he
    rw [← hh]
    exact h.1 x ((SafeNet.Fetcher.pTbf_sub f).subset hx)
  refine ⟨⟨?_, ?_⟩, hret⟩
  · intro e he
    exact h.1 e ((SafeNet.Fetcher.pTbf_sub f).subset ((SafeNet.Fetcher.nextKeys_tbf_sub dist f c).subset he))
  · intro e he
    rw [SafeNet.Fetcher.nextKeys_ogf_eq] at he
    rcases List.mem_append.1 he with he | he
    · exact h.2 e ((SafeNet.Fetcher.pOgf_sub f).subset he)
    · exact hret e he

theorem holders_put (dist : Nat → Nat) (P : Nat → Prop) (f : SafeNet.Fetcher.State) (k t : Nat) (c : List Entry)
    (h : HoldersIn P f) :
    HoldersIn P (newPut dist f k t c).1 ∧ ∀ e ∈ (newPut dist f k t c).2.ret, P e.holder := by
  unfold newPut
  apply holders_next
  exact ⟨fun e he => h.1 e (List.mem_filter.1 he).1, fun e he => h.2 e (List.mem_filter.1 he).1⟩

theorem holders_early (dist : Nat → Nat) (P : Nat → Prop) (f : SafeNet.Fetcher.State) (k t : Nat) (c : List Entry)
    (h : HoldersIn P f) :
    HoldersIn P (earlyDone dist f k t c).1 ∧ ∀ e ∈ (earlyDone dist f k t c).2.ret, P e.holder := by
  unfold earlyDone
  apply holders_next
  exact ⟨fun e he => h.1 e (List.mem_filter.1 he).1, fun e he => h.2 e (List.mem_filter.1 he).1⟩

theorem holders_add (dist : Nat → Nat) (P : Nat → Prop) (f : SafeNet.Fetcher.State) (hd : Nat)
    (inc loc : List (Nat × Nat)) (c : List Entry) (h : HoldersIn P f) (hp : P hd) :
    HoldersIn P (addKeys dist f hd inc loc c).1 ∧ ∀ e ∈ (addKeys dist f hd inc loc c).2.ret, P e.holder := by
  obtain ⟨X, ill, hx⟩ := SafeNet.Fetcher.addKeys_shape dist f hd inc loc c
  have hcore : HoldersIn P (addCore dist f hd inc loc).1 ∧ ∀ e ∈ (addCore dist f hd inc loc).2, P e.holder := by
    refine ⟨⟨?_, ?_⟩, ?_⟩
    · intro e he
      rcases SafeNet.Fetcher.addCore_tbf_origin dist he with ⟨h1, _⟩ | ⟨_, p, _, _, rfl⟩
      · exact h.1 e h1
      · exact hp
    · intro e he
      rcases SafeNet.Fetcher.addCore_cases dist f hd inc loc with ⟨p, _, _, hc⟩ | ⟨p, _, _, hc⟩ | ⟨_, hc⟩
      · rw [hc] at he; exact h.2 e (List.mem_filter.1 he).1
      · rw [hc] at he
        rcases List.mem_append.1 he with he | he
        · exact h.2 e (List.mem_filter.1 he).1
        · rw [List.mem_singleton.1 he]; exact hp
      · rw [hc] at he; exact h.2 e (List.mem_filter.1 he).1
    · intro e he
      rcases SafeNet.Fetcher.addCore_cases dist f hd inc loc with ⟨p, _, _, hc⟩ | ⟨p, _, _, hc⟩ | ⟨_, hc⟩
      · rw [hc] at he; cases he
      · rw [hc] at he; rw [List.mem_singleton.1 he]; exact hp
      · rw [hc] at he; cases he
  obtain ⟨h1, h2⟩ := holders_next dist P _ X hcore.1
  rw [hx]
  refine ⟨h1, ?_⟩
  intro e he
  rcases List.mem_append.1 he with he | he
  · exact hcore.2 e he
  · exact h2 e he

/-- the safety invariant: at every node every queued / in-flight fetch names a holder that node hears, and every
`GetReplicatedRecord` on the wire goes to a holder its sender hears -/
def AllHeard (w : World) (s : Sys) : Prop :=
  (∀ i, HoldersIn (fun h => heard w i h = true) (s.node i).fetcher) ∧
  (∀ x ∈ s.wire, ∀ src dst key, x.2 = Msg.get src dst key → heard w src dst = true)

theorem node_setNode_cases (s : Sys) (i : Nat) (nd : NodeSt) (j : Nat) :
    ((s.setNode i nd).node j = nd ∧ j = i) ∨ (s.setNode i nd).node j = s.node j := by
  simp only [Sys.setNode, Sys.node, List.getD_eq_getElem?_getD, List.getElem?_set]
  by_cases hij : i = j
  · subst hij
    by_cases hl : i < s.nodes.length
    · left; simp [hl]
    · right; simp [hl]
  · right; simp [hij]

theorem send_nodes (s : Sys) (ms : List Msg) : (s.send ms).1.nodes = s.nodes := rfl

theorem send_wire (s : Sys) (ms : List Msg) (x : Nat × Msg) (hx : x ∈ (s.send ms).1.wire) :
    x ∈ s.wire ∨ x.2 ∈ ms := by
  simp only [Sys.send, List.mem_append] at hx
  rcases hx with hx | hx
  · exact Or.inl hx
  · exact Or.inr (List.of_mem_zip hx).2

theorem allHeard_update (w : World) (s : Sys) (i : Nat) (nd : NodeSt) (msgs : List Msg) (h : AllHeard w s)
    (hnd : HoldersIn (fun h => heard w i h = true) nd.fetcher)
    (hm : ∀ m ∈ msgs, ∀ src dst key, m = Msg.get src dst key → heard w src dst = true) :
    AllHeard w ((s.setNode i nd).send msgs).1 := by
  constructor
  · intro j
    have : ((s.setNode i nd).send msgs).1.node j = (s.setNode i nd).node j := rfl
    rw [this]
    rcases node_setNode_cases s i nd j with ⟨h1, rfl⟩ | h1
    · rw [h1]; exact hnd
    · rw [h1]; exact h.1 j
  · intro x hx src dst key he
    rcases send_wire _ _ _ hx with h1 | h1
    · exact h.2 x h1 src dst key he
    · exact hm _ h1 src dst key he

theorem allHeard_unwire (w : World) (s : Sys) (m : Nat) (h : AllHeard w s) : AllHeard w (s.unwire m) :=
  ⟨h.1, fun x hx => h.2 x (List.mem_filter.1 hx).1⟩

theorem fetchMsgs_heard (w : World) (i : Nat) (ret : List Entry) (hr : ∀ e ∈ ret, heard w i e.holder = true) :
    ∀ m ∈ fetchMsgs i ret, ∀ src dst key, m = Msg.get src dst key → heard w src dst = true := by
  intro m hm src dst key he
  obtain ⟨e, hee, rfl⟩ := List.mem_map.1 hm
  injection he with h1 h2 _
  subst h1; subst h2
  exact hr e hee

theorem no_get (ms : List Msg) (h : ∀ m ∈ ms, ∀ src dst key, m ≠ Msg.get src dst key) :
    ∀ m ∈ ms, ∀ src dst key, m = Msg.get src dst key → heard w src dst = true :=
  fun m hm src dst key he => absurd he (h m hm src dst key)

theorem putLocal_holders (w : World) (i : Nat) (nd : NodeSt) (k : Nat) (c : Content) (choice : List Entry)
    (h : HoldersIn (fun h => heard w i h = true) nd.fetcher) :
    HoldersIn (fun h => heard w i h = true) (putLocal w i nd k c choice).1.fetcher ∧
    ∀ e ∈ (putLocal w i nd k c choice).2.ret, heard w i e.holder = true := by
  obtain ⟨h1, h2⟩ := holders_put (w.kdist i) (fun h => heard w i h = true) nd.fetcher k (tyOf c) choice h
  unfold putLocal
  cases nd.range <;> exact ⟨h1, h2⟩

theorem nodeRep_holders (w : World) (i : Nat) (nd : NodeSt) (holder : Nat) (keys : List (Nat × Nat))
    (choice : List Entry) (h : HoldersIn (fun h => heard w i h = true) nd.fetcher) :
    HoldersIn (fun h => heard w i h = true) (nodeRep w i nd holder keys choice).1.fetcher ∧
    ∀ e ∈ (nodeRep w i nd holder keys choice).2.ret, heard w i e.holder = true := by
  unfold nodeRep
  by_cases hh : (!(replicateArmPassesOn && heard w i holder)) = true
  · rw [if_pos hh]; exact ⟨h, fun e he => by cases he⟩
  · rw [if_neg hh]
    have hheard : heard w i holder = true := by
      simp only [Bool.not_eq_true', Bool.and_eq_false_iff, not_or] at hh
      simpa using hh.2
    obtain ⟨h1, h2⟩ := holders_add (w.kdist i) (fun h => heard w i h = true) nd.fetcher holder keys
      (indexOf nd.store) choice h hheard
    generalize addKeys (w.kdist i) nd.fetcher holder keys (indexOf nd.store) choice = r at h1 h2
    obtain ⟨f, o⟩ := r
    simp only [replicateEmitsFetchEvent, if_true]
    exact ⟨h1, h2⟩

theorem nodeRsp_holders (w : World) (i : Nat) (nd : NodeSt) (k : Nat) (c : Content) (choice : List Entry)
    (h : HoldersIn (fun h => heard w i h = true) nd.fetcher) :
    HoldersIn (fun h => heard w i h = true) (nodeRsp w i nd k c choice).1.fetcher ∧
    ∀ e ∈ (nodeRsp w i nd k c choice).2.1.ret, heard w i e.holder = true := by
  unfold nodeRsp nodeRspWith
  simp only []
  split
  · split
    · exact holders_early (w.kdist i) _ nd.fetcher k (tyOf c) choice h
    · exact ⟨h, fun e he => by cases he⟩
  · rename_i k' c' _ _
    split
    · obtain ⟨a1, a2⟩ := holders_put (w.kdist i) (fun h => heard w i h = true) nd.fetcher k' (tyOf c') (choicePut choice) h
      obtain ⟨b1, b2⟩ := holders_early (w.kdist i) (fun h => heard w i h = true) _ k (tyOf c) (choiceDone choice) a1
      refine ⟨?_, ?_⟩
      · cases nd.range <;> exact b1
      · intro e he
        rcases List.mem_append.1 he with he | he
        · exact a2 e he
        · exact b2 e he
    · exact putLocal_holders w i nd _ _ choice h

theorem interval_fetcher (w : World) (i : Nat) (nd : NodeSt) : (interval w i nd).1.fetcher = nd.fetcher := by
  unfold interval
  split
  · rfl
  · simp only []
    split
    · rfl
    · split <;> rfl

theorem interval_no_get (i : Nat) (l : List Nat) (keys : List (Nat × Nat)) :
    ∀ m ∈ l.map (fun p => Msg.rep i p i keys), ∀ src dst key, m ≠ Msg.get src dst key := by
  intro m hm src dst key he
  obtain ⟨p, _, rfl⟩ := List.mem_map.1 hm
  cases he

/-- every transition preserves the invariant -/
theorem step_allHeard (w : World) (s : Sys) (op : Op) (h : AllHeard w s) : AllHeard w (step w s op).1 := by
  cases op with
  | seed i k c choice =>
    simp only [step]
    split
    · exact h
    · obtain ⟨h1, h2⟩ := putLocal_holders w i (s.node i) k c choice (h.1 i)
      exact allHeard_update w s i _ _ h h1 (fetchMsgs_heard w i _ h2)
  | range i d =>
    simp only [step]
    split
    · exact h
    · have := allHeard_update w s i { s.node i with range := some d, fetcher := { (s.node i).fetcher with range := some d } } []
        h (h.1 i) (by intro m hm; cases hm)
      simpa [Sys.send] using this
  | tick i d =>
    simp only [step]
    split
    · exact h
    · have := allHeard_update w s i { s.node i with fetcher := { (s.node i).fetcher with now := (s.node i).fetcher.now + d } } []
        h (h.1 i) (by intro m hm; cases hm)
      simpa [Sys.send] using this
  | interval i =>
    simp only [step]
    split
    · exact h
    · have hf := interval_fetcher w i (s.node i)
      generalize interval w i (s.node i) = r at hf
      obtain ⟨nd', tg, keys⟩ := r
      simp only at hf
      exact allHeard_update w s i nd' _ h (by rw [hf]; exact h.1 i) (no_get (w := w) _ (interval_no_get i _ keys))
  | forge src dst keys =>
    simp only [step]
    split
    · exact h
    · have := allHeard_update w s dst (s.node dst) [Msg.rep src dst src keys] h (h.1 dst)
        (by intro m hm a b c he; rw [List.mem_singleton.1 hm] at he; cases he)
      simpa [Sys.setNode, Sys.node, set_getD_self] using this
  | spoof src holder dst keys =>
    simp only [step]
    split
    · exact h
    · have := allHeard_update w s dst (s.node dst) [Msg.rep src dst holder keys] h (h.1 dst)
        (by intro m hm a b c he; rw [List.mem_singleton.1 hm] at he; cases he)
      simpa [Sys.setNode, Sys.node, set_getD_self] using this
  | dup m =>
    simp only [step]
    split
    · rename_i a b hd ks _
      have := allHeard_update w s 0 (s.node 0) [Msg.rep a b hd ks] h (h.1 0)
        (by intro m hm a b c he; rw [List.mem_singleton.1 hm] at he; cases he)
      simpa [Sys.setNode, Sys.node, set_getD_self] using this
    · exact h
  | drop m =>
    simp only [step]
    split
    · exact allHeard_unwire w s m h
    · exact allHeard_unwire w s m h
    · exact allHeard_unwire w s m h
    · exact h
  | deliver m choice =>
    simp only [step]
    split
    · rename_i a dst holder keys _
      have hu := allHeard_unwire w s m h
      simp only [deliverRep, deliverRepWith]
      split
      · exact hu
      · obtain ⟨h1, h2⟩ := nodeRep_holders w dst ((s.unwire m).node dst) holder keys choice (hu.1 dst)
        exact allHeard_update w (s.unwire m) dst _ _ hu h1 (fetchMsgs_heard w dst _ h2)
    · rename_i src dst key _
      split
      · have hu := allHeard_unwire w s m h
        have := allHeard_update w (s.unwire m) 0 ((s.unwire m).node 0) [Msg.rsp dst src key (serve ((s.unwire m).node dst) key)] hu (hu.1 0)
          (by intro m hm a b c he; rw [List.mem_singleton.1 hm] at he; cases he)
        simpa [deliverGet, Sys.setNode, Sys.node, set_getD_self] using this
      · exact h
    · rename_i a dst key c _
      have hu := allHeard_unwire w s m h
      cases c with
      | none => exact hu
      | some c =>
        obtain ⟨h1, h2⟩ := nodeRsp_holders w dst ((s.unwire m).node dst) key c choice (hu.1 dst)
        exact allHeard_update w (s.unwire m) dst _ _ hu h1 (fetchMsgs_heard w dst _ h2)
    · exact h

theorem run_allHeard (w : World) (ops : List Op) : ∀ s, AllHeard w s → AllHeard w (run w s ops) := by
  induction ops with
  | nil => intro s h; exact h
  | cons op rest ih => intro s h; exact ih _ (step_allHeard w s op h)

theorem init_allHeard (w : World) (n : Nat) : AllHeard w (init n) := by
  constructor
  · intro i
    have : (init n).node i = {} := by
      simp only [init, Sys.node, List.getD_eq_getElem?_getD, List.getElem?_replicate]
      split <;> rfl
    rw [this]
    refine ⟨fun e he => ?_, fun e he => ?_⟩ <;> exact absurd he List.not_mem_nil
  · intro x hx; cases hx

/-- **Only close holders are ever heard — for all histories.** From fresh nodes, after any sequence of uploads,
timer ticks, periodic replications, forged advertisements, deliveries in any order, duplications and drops: every
fetch a node has queued or in flight, and every `GetReplicatedRecord` on the wire, is addressed to a peer among the
requester's `K_VALUE` closest (and not to itself). -/
theorem only_close_holders_heard_always (w : World) (n : Nat) (ops : List Op) :
    let s := run w (init n) ops
    (∀ i, ∀ e ∈ (s.node i).fetcher.tbf ++ (s.node i).fetcher.ogf, e.holder ∈ closestK w i ∧ e.holder ≠ i) ∧
    (∀ x ∈ s.wire, ∀ src dst key, x.2 = Msg.get src dst key → dst ∈ closestK w src ∧ dst ≠ src) := by
  have hh : ∀ i h, heard w i h = true → h ∈ closestK w i ∧ h ≠ i := by
    intro i h hh
    simp only [heard, replicateChecksCloseness, replicateRejectsSelf, Bool.not_true, Bool.false_or,
      Bool.and_eq_true, List.contains_eq_mem, decide_eq_true_eq, bne_iff_ne, ne_eq] at hh
    exact hh
  have := run_allHeard w ops (init n) (init_allHeard w n)
  constructor
  · intro i e he
    rcases List.mem_append.1 he with he | he
    · exact hh i _ ((this.1 i).1 e he)
    · exact hh i _ ((this.1 i).2 e he)
  · intro x hx src dst key he
    exact hh src dst (this.2 x hx src dst key he)

/-! ## non-vacuity -/

def naEx : NodeSt := { store := [(0, .chunk), (2, .reg false [0, 1]), (4, .txs [0])] }
def nbEx : NodeSt := { store := [(0, .chunk), (2, .reg false [1, 2]), (4, .txs [0])] }

/-- the hypotheses of `mutable_converge_partial_reg` hold — in BOTH directions (`hf1`, and `hf2` at `b`'s state after the
first exchange) — for two nodes holding diverging versions of one register next to other records, and the round ends with
both holding the union -/
example : heard padWorld 1 0 = true ∧ heard padWorld 0 1 = true ∧
    Fetchable padWorld 0 1 naEx nbEx 2 (.reg false [0, 1]) (.reg false [1, 2]) ∧
    Fetchable padWorld 1 0 (exchange padWorld 0 1 naEx nbEx 2 [⟨2, tyOf (.reg false [0, 1]), 0, 0⟩] []) naEx 2
      (.reg false [0, 1, 2]) (.reg false [0, 1]) ∧
    Canon [0, 1] ∧ Canon [1, 2] ∧
    (exchange padWorld 0 1 naEx nbEx 2 [⟨2, tyOf (.reg false [0, 1]), 0, 0⟩] []).store.get 2 = some (.reg false [0, 1, 2]) := by
  refine ⟨by decide, by decide, ?_, ?_, ?_, ?_, by decide⟩
  · intro _; exact ⟨⟨by decide, by decide⟩, by decide⟩
  · intro _; exact ⟨⟨by decide, by decide⟩, by decide⟩
  · simp [Canon]
  · simp [Canon]

/-- the same convergence through the system-level transitions (`step`), message by message: diverging registers and
transaction sets on two nodes, one round, both end with the unions and an empty wire -/
example :
    let s := run padWorld (init 2)
      [.seed 0 2 (.reg false [0, 1]) [], .seed 1 2 (.reg false [1, 2]) [],
       .interval 0, .deliver 1 [⟨2, tyOf (.reg false [0, 1]), 0, 0⟩], .deliver 2 [], .deliver 3 [],
       .interval 1, .deliver 4 [⟨2, tyOf (.reg false [0, 1, 2]), 1, 0⟩], .deliver 5 [], .deliver 6 []]
    (s.node 0).store.get 2 = some (.reg false [0, 1, 2]) ∧ (s.node 1).store.get 2 = some (.reg false [0, 1, 2]) ∧
    s.wire = [] := by
  decide

/-- a far holder: node 1 knows 19 closer peers, so node 0 is its 21st closest and is not heard -/
example :
    let w : World := { n := 2, rt := fun i => if i = 1 then (List.range' 10 19) ++ [0] else [1],
                       pdist := fun _ _ => 0, kdist := fun _ _ => 0 }
    heard w 1 0 = false ∧ heard w 0 1 = true ∧ heard w 1 28 = true ∧ heard w 1 1 = false := by
  decide

/-- non-vacuity of `mutable_converge_reg`: a concrete two-exchange schedule satisfies every FairRound hypothesis -/
def exNodes : Nat → NodeSt := fun i => if i = 0 then naEx else nbEx
def exSched : List Xch :=
  [⟨0, 1, [⟨2, tyOf (.reg false [0, 1]), 0, 0⟩], [], 20⟩,
   ⟨1, 0, [⟨2, tyOf (.reg false [0, 1, 2]), 1, 0⟩], [], 20⟩]

theorem exValid : Valid padWorld exNodes exSched := by
  refine ⟨⟨by decide, by decide, by decide, by decide, by decide, ?_, by decide⟩, by decide,
          ⟨by decide, by decide, by decide, by decide, by decide, ?_, by decide⟩, by decide, trivial⟩
  · intro r hr
    have : (exNodes 1).fetcher.range = none := by decide
    rw [this] at hr; cases hr
  · intro r hr
    have : (stepX padWorld exNodes ⟨0, 1, [⟨2, tyOf (.reg false [0, 1]), 0, 0⟩], [], 20⟩ 0).fetcher.range = none := by decide
    rw [this] at hr; cases hr

example : (∀ i, StaleQuiet (exNodes i).fetcher) ∧ (∀ i, RegKey false 2 (exNodes i)) ∧
    SafeNet.Replication.Abs.Covers 2 (exSched.map (fun x => (x.src, x.dst))) ∧
    (runXs padWorld exNodes exSched 0).store.get 2 = some (.reg false [0, 1, 2]) := by
  refine ⟨?_, ?_, ?_, by decide⟩
  · intro i; unfold exNodes; split <;> exact ⟨rfl, rfl, fun e he => by cases he⟩
  · intro i; unfold exNodes; split
    · exact Or.inr ⟨[0, 1], rfl, by simp [Canon]⟩
    · exact Or.inr ⟨[1, 2], rfl, by simp [Canon]⟩
  · intro y x hy hx hne
    have : (y = 0 ∧ x = 1) ∨ (y = 1 ∧ x = 0) := by omega
    rcases this with ⟨rfl, rfl⟩ | ⟨rfl, rfl⟩ <;> decide

/-- `advertises_everything`: node 0 of the two-node mesh advertises its three records, with their types, to node 1 -/
example : (interval padWorld 0 naEx).2.1 = [1] ∧ (interval padWorld 0 naEx).2.2 = indexOf naEx.store ∧
    (interval padWorld 0 naEx).2.2.length = 3 := by decide

/-- seven known peers at distances 1..7, responsible range = the distance of the sixth: the boundary peer is a target -/
def rangeWorld : World := { n := 1, rt := fun _ => [10, 11, 12, 13, 14, 15, 16], pdist := fun _ p => p - 9, kdist := fun _ _ => 0 }

example : candidates rangeWorld 0 { range := some 6 } = [10, 11, 12, 13, 14, 15] ∧
    candidates rangeWorld 0 { range := some 5 } = [10, 11, 12, 13, 14] ∧
    candidates rangeWorld 0 { range := some 4 } = [10, 11, 12, 13, 14] ∧
    candidates rangeWorld 0 {} = [10, 11, 12, 13, 14] := by decide

/-- `every_due_candidate_served`: peer 10 was served 50 s ago (its entry lapsed), peer 11 ten seconds ago (fresh):
10 is a target again, 11 is skipped -/
example :
    let nd : NodeSt := { store := [(0, .chunk)], fetcher := { now := 100 }, lastRepl := some 50, targets := [(10, 95), (11, 135)] }
    (interval rangeWorld 0 nd).2.1 = [10, 12, 13, 14] := by decide

def ncA : NodeSt := { store := [(0, .chunk), (3, .chunk)] }
def ncB : NodeSt := {}
def chunkNodes : Nat → NodeSt := fun i => if i = 0 then ncA else ncB
def chunkSched : List Xch :=
  [⟨0, 1, [⟨0, 0, 0, 0⟩, ⟨3, 0, 0, 0⟩], [], 20⟩, ⟨1, 0, [], [], 20⟩]

/-- non-vacuity of `immutable_converge`: a two-key (multi-key path) advertisement, every FairRound hypothesis holds -/
theorem chunkValid : Valid padWorld chunkNodes chunkSched := by
  refine ⟨⟨by decide, by decide, by decide, by decide, by decide, ?_, by decide⟩, by decide,
          ⟨by decide, by decide, by decide, by decide, by decide, ?_, by decide⟩, by decide, trivial⟩
  · intro r hr
    have : (chunkNodes 1).fetcher.range = none := by decide
    rw [this] at hr; cases hr
  · intro r hr
    have : (stepX padWorld chunkNodes ⟨0, 1, [⟨0, 0, 0, 0⟩, ⟨3, 0, 0, 0⟩], [], 20⟩ 0).fetcher.range = none := by decide
    rw [this] at hr; cases hr

example : (runXs padWorld chunkNodes chunkSched 1).store.get 0 = some .chunk ∧
    (runXs padWorld chunkNodes chunkSched 1).store.get 3 = some .chunk := by decide


/-! ## beyond the FairRound restrictions: advertisements of any size, several in flight, replies in any order

`Proofs/ReplicationPhases.lean` replaces the atomic exchange by a *phase* at one requester: an arbitrary interleaving
of `Replicate` lists (each with any number of new keys) and of the replies to the scheduled fetches, the reply to
process being picked freely among the outstanding ones. A reply that is stored runs the real path `PutLocalRecord` →
`notify_about_new_put` → `next_keys_to_fetch`, which schedules the next closest queued keys (C08 `batch_cap`,
`closest_first`): an advertisement of more than MAX_PARALLEL_FETCH keys is worked off batch by batch inside one exchange.
`PInv` (fetcher side: every in-flight entry is a timed-out leftover, awaits its reply, or its copy changed nothing; every
queued entry waits only because the limit is reached — data side: every advertiser's version is absorbed, being fetched, or
queued) is preserved by every event. -/

open SafeNet.Replication.Abs in
/-- **(a) Transaction sets: an advertisement of ANY size is one complete exchange.** `dst`'s fetcher is quiet; `src`
advertises its index — `n` new keys, no bound on `n`; at least `n` reply deliveries follow, each processing *some*
outstanding reply (any order); per-event FairRound hypotheses (`PhaseOk`: heard, legal choice witnesses, keys in range, no
timed-out fetch from `src` / of an advertised version registered). Missing for the unconditional statement
(`BigAdvertAlwaysDrains`, false: `big_advert_stall_witness`): `hroom` — fewer than MAX_PARALLEL_FETCH fetches are left in
flight when the last reply has been processed, i.e. fewer than that many fetched copies changed nothing at `dst` (such a
fetch keeps its slot until FETCH_TIMEOUT — the F-g side effect). Then: no reply is outstanding (bound: `n` replies), the
queue is drained, and for EVERY transaction key `k` the requester holds the join of the two versions. -/
theorem big_advert_converge_partial_txs (w : World) (dst src : Nat) (nodes : Nat → NodeSt) (k : Nat) (hk : k % 3 = 1)
    (hwf : ∀ i, StoreWF (nodes i).store) (hkey : ∀ i, TxKey k (nodes i)) (hq : StaleQuiet (nodes dst).fetcher)
    (c : List Entry) (rsps : List Ev) (hr : ∀ ev ∈ rsps, ev.isRsp = true)
    (hlen : ((indexOf (nodes src).store).filter
      (admits (w.kdist dst) (nodes dst).fetcher (indexOf (nodes dst).store) src)).length ≤ rsps.length)
    (hok : PhaseOk w dst nodes ⟨nodes dst, [], []⟩ (.adv src c :: rsps))
    (hroom : (runEvs w dst nodes ⟨nodes dst, [], []⟩ (.adv src c :: rsps)).nd.fetcher.ogf.length <
      SafeNet.Gen.Fetcher.maxParallelFetch) :
    let fin := runEvs w dst nodes ⟨nodes dst, [], []⟩ (.adv src c :: rsps)
    fin.pending = [] ∧ fin.nd.fetcher.tbf = [] ∧
    verTx (fin.nd.store.get k) = join (verTx ((nodes src).store.get k)) (verTx ((nodes dst).store.get k)) ∧
    TxKey k fin.nd :=
  cascade_join w dst nodes k verTx OkTx (lawTx k hk) hwf hkey hq src c rsps hr hlen hok hroom

open SafeNet.Replication.Abs in
/-- **(a) Registers**: the same for the versions of a register with base `alt`. -/
theorem big_advert_converge_partial_reg (w : World) (dst src : Nat) (nodes : Nat → NodeSt) (alt : Bool) (k : Nat)
    (hk : k % 3 = 2)
    (hwf : ∀ i, StoreWF (nodes i).store) (hkey : ∀ i, RegKey alt k (nodes i)) (hq : StaleQuiet (nodes dst).fetcher)
    (c : List Entry) (rsps : List Ev) (hr : ∀ ev ∈ rsps, ev.isRsp = true)
    (hlen : ((indexOf (nodes src).store).filter
      (admits (w.kdist dst) (nodes dst).fetcher (indexOf (nodes dst).store) src)).length ≤ rsps.length)
    (hok : PhaseOk w dst nodes ⟨nodes dst, [], []⟩ (.adv src c :: rsps))
    (hroom : (runEvs w dst nodes ⟨nodes dst, [], []⟩ (.adv src c :: rsps)).nd.fetcher.ogf.length <
      SafeNet.Gen.Fetcher.maxParallelFetch) :
    let fin := runEvs w dst nodes ⟨nodes dst, [], []⟩ (.adv src c :: rsps)
    fin.pending = [] ∧ fin.nd.fetcher.tbf = [] ∧
    verReg alt (fin.nd.store.get k) =
      join (verReg alt ((nodes src).store.get k)) (verReg alt ((nodes dst).store.get k)) ∧
    RegKey alt k fin.nd :=
  cascade_join w dst nodes k (verReg alt) (OkReg alt) (lawReg alt k hk) hwf hkey hq src c rsps hr hlen hok hroom

/-- **(a) Immutable data**: after an advertisement of any size the requester holds the chunk `k` iff one of the two did
(the copy is the holder's: a chunk is determined by its key). -/
theorem big_advert_replicates_partial_chunk (w : World) (dst src : Nat) (nodes : Nat → NodeSt) (k : Nat) (hk : k % 3 = 0)
    (hwf : ∀ i, StoreWF (nodes i).store) (hkey : ∀ i, ChunkKey k (nodes i)) (hq : StaleQuiet (nodes dst).fetcher)
    (c : List Entry) (rsps : List Ev) (hr : ∀ ev ∈ rsps, ev.isRsp = true)
    (hlen : ((indexOf (nodes src).store).filter
      (admits (w.kdist dst) (nodes dst).fetcher (indexOf (nodes dst).store) src)).length ≤ rsps.length)
    (hok : PhaseOk w dst nodes ⟨nodes dst, [], []⟩ (.adv src c :: rsps))
    (hroom : (runEvs w dst nodes ⟨nodes dst, [], []⟩ (.adv src c :: rsps)).nd.fetcher.ogf.length <
      SafeNet.Gen.Fetcher.maxParallelFetch) :
    let fin := runEvs w dst nodes ⟨nodes dst, [], []⟩ (.adv src c :: rsps)
    (fin.nd.store.get k = some .chunk ↔
      ((nodes src).store.get k = some .chunk ∨ (nodes dst).store.get k = some .chunk)) := by
  intro fin
  obtain ⟨_, _, hj, hko⟩ := cascade_join w dst nodes k verChunk OkChunk (lawChunk k hk) hwf hkey hq src c rsps hr hlen hok hroom
  have hsome : ∀ v, OkChunk v → (v = some .chunk ↔ (verChunk v).isSome = true) := by
    intro v hv
    rcases hv with rfl | rfl <;> simp [verChunk]
  rw [hsome _ hko, hj, SafeNet.Replication.Abs.isSome_join, Bool.or_eq_true, ← hsome _ (hkey src), ← hsome _ (hkey dst)]

open SafeNet.Replication.Abs in
/-- **(a′) Transaction sets, with no bound on the copies that change nothing.** As `big_advert_converge_partial_txs` with
`hroom` replaced by `hacc`: every fetched copy is accepted by the requester (`store_replicated_in_record` returns Ok —
true of every copy an honest holder of a compatible record serves). Since the fetch task reports every accepted copy as
complete, stored or not, no slot stays blocked: the queue drains, and when the last reply has been processed nothing is in
flight except timed-out leftovers of earlier phases. -/
theorem big_advert_converge_txs (w : World) (dst src : Nat) (nodes : Nat → NodeSt) (k : Nat) (hk : k % 3 = 1)
    (hwf : ∀ i, StoreWF (nodes i).store) (hkey : ∀ i, TxKey k (nodes i)) (hq : StaleQuiet (nodes dst).fetcher)
    (c : List Entry) (rsps : List Ev) (hr : ∀ ev ∈ rsps, ev.isRsp = true)
    (hlen : ((indexOf (nodes src).store).filter
      (admits (w.kdist dst) (nodes dst).fetcher (indexOf (nodes dst).store) src)).length ≤ rsps.length)
    (hok : PhaseOk w dst nodes ⟨nodes dst, [], []⟩ (.adv src c :: rsps))
    (hacc : Accepted w dst nodes ⟨nodes dst, [], []⟩ (.adv src c :: rsps)) :
    let fin := runEvs w dst nodes ⟨nodes dst, [], []⟩ (.adv src c :: rsps)
    fin.pending = [] ∧ fin.nd.fetcher.tbf = [] ∧ (∀ o ∈ fin.nd.fetcher.ogf, o.deadline ≤ (nodes dst).fetcher.now) ∧
    verTx (fin.nd.store.get k) = join (verTx ((nodes src).store.get k)) (verTx ((nodes dst).store.get k)) ∧
    TxKey k fin.nd :=
  cascade_join_accepted w dst nodes k verTx OkTx (lawTx k hk) hwf hkey hq src c rsps hr hlen hok hacc

open SafeNet.Replication.Abs in
/-- **(a′) Registers.** -/
theorem big_advert_converge_reg (w : World) (dst src : Nat) (nodes : Nat → NodeSt) (alt : Bool) (k : Nat)
    (hk : k % 3 = 2)
    (hwf : ∀ i, StoreWF (nodes i).store) (hkey : ∀ i, RegKey alt k (nodes i)) (hq : StaleQuiet (nodes dst).fetcher)
    (c : List Entry) (rsps : List Ev) (hr : ∀ ev ∈ rsps, ev.isRsp = true)
    (hlen : ((indexOf (nodes src).store).filter
      (admits (w.kdist dst) (nodes dst).fetcher (indexOf (nodes dst).store) src)).length ≤ rsps.length)
    (hok : PhaseOk w dst nodes ⟨nodes dst, [], []⟩ (.adv src c :: rsps))
    (hacc : Accepted w dst nodes ⟨nodes dst, [], []⟩ (.adv src c :: rsps)) :
    let fin := runEvs w dst nodes ⟨nodes dst, [], []⟩ (.adv src c :: rsps)
    fin.pending = [] ∧ fin.nd.fetcher.tbf = [] ∧ (∀ o ∈ fin.nd.fetcher.ogf, o.deadline ≤ (nodes dst).fetcher.now) ∧
    verReg alt (fin.nd.store.get k) =
      join (verReg alt ((nodes src).store.get k)) (verReg alt ((nodes dst).store.get k)) ∧
    RegKey alt k fin.nd :=
  cascade_join_accepted w dst nodes k (verReg alt) (OkReg alt) (lawReg alt k hk) hwf hkey hq src c rsps hr hlen hok hacc

/-- **(a′) Immutable data.** -/
theorem big_advert_replicates_chunk (w : World) (dst src : Nat) (nodes : Nat → NodeSt) (k : Nat) (hk : k % 3 = 0)
    (hwf : ∀ i, StoreWF (nodes i).store) (hkey : ∀ i, ChunkKey k (nodes i)) (hq : StaleQuiet (nodes dst).fetcher)
    (c : List Entry) (rsps : List Ev) (hr : ∀ ev ∈ rsps, ev.isRsp = true)
    (hlen : ((indexOf (nodes src).store).filter
      (admits (w.kdist dst) (nodes dst).fetcher (indexOf (nodes dst).store) src)).length ≤ rsps.length)
    (hok : PhaseOk w dst nodes ⟨nodes dst, [], []⟩ (.adv src c :: rsps))
    (hacc : Accepted w dst nodes ⟨nodes dst, [], []⟩ (.adv src c :: rsps)) :
    let fin := runEvs w dst nodes ⟨nodes dst, [], []⟩ (.adv src c :: rsps)
    (fin.nd.store.get k = some .chunk ↔
      ((nodes src).store.get k = some .chunk ∨ (nodes dst).store.get k = some .chunk)) := by
  intro fin
  obtain ⟨_, _, _, hj, hko⟩ := cascade_join_accepted w dst nodes k verChunk OkChunk (lawChunk k hk) hwf hkey hq src c rsps hr hlen hok hacc
  have hsome : ∀ v, OkChunk v → (v = some .chunk ↔ (verChunk v).isSome = true) := by
    intro v hv
    rcases hv with rfl | rfl <;> simp [verChunk]
  rw [hsome _ hko, hj, SafeNet.Replication.Abs.isSome_join, Bool.or_eq_true, ← hsome _ (hkey src), ← hsome _ (hkey dst)]

/-! ### C08, arrival clause: a fetched record that arrives leaves the in-flight set, whether or not it changes anything -/

/-- whoever a fetcher operation reports has a timed-out fetch registered when the operation starts -/
theorem step_failed_origin (dist : Nat → Nat) (s : SafeNet.Fetcher.State) (op : SafeNet.Fetcher.Op) (h : Nat)
    (hh : h ∈ (SafeNet.Fetcher.step dist s op).2.failed) : ∃ o ∈ s.ogf, o.deadline ≤ s.now ∧ o.holder = h := by
  cases op with
  | add hd inc loc c => exact Ph.add_failed dist hh
  | put k t c => exact Ph.put_failed dist hh
  | early k t c => exact Ph.early_failed dist hh
  | next c =>
    have : (SafeNet.Fetcher.step dist s (.next c)).2.failed = SafeNet.Fetcher.failedOf s :=
      (SafeNet.Fetcher.nextKeys_fields dist s c).2.2.2
    rw [this] at hh
    exact Ph.failedOf_mem hh
  | setRange r => cases hh
  | full k => cases k <;> cases hh
  | age d => cases hh

/-- **An accepted arrival ends the fetch of the SERVED version.** A fetched record `(key, c)` arrives at node `i` (any
state, any choice witness). If `store_replicated_in_record` returns Ok — the record is stored, merged, or changes nothing
at all — then afterwards no in-flight and no queued entry of the fetcher carries `(key, record type of the fetched bytes)`.
That is the type the holder advertised ONLY IF its copy did not change between the advertisement and the serve; an entry
registered under another advertised type of the same key is removed only when something is written
(`notify_about_new_put` removes by key) — see `HonestHolderNeverReported`, false: `served_version_differs_witness`,
K-y-served-version-differs. If it returns an error and writes nothing, the node is unchanged: that fetch leaves the in-flight set by the
timeout clause (C08 `inflight_leaves_timeout`, `timeout_reports_and_drops`: its holder is reported). -/
theorem arrived_record_leaves_inflight (w : World) (i : Nat) (nd : NodeSt) (key : Nat) (c : Content) (ch : List Entry) :
    (replOk nd.store key c = true →
      (∀ o ∈ (nodeRsp w i nd key c ch).1.fetcher.ogf, ¬(o.key = key ∧ o.ty = tyOf c)) ∧
      (∀ e ∈ (nodeRsp w i nd key c ch).1.fetcher.tbf, ¬(e.key = key ∧ e.ty = tyOf c))) ∧
    (replOk nd.store key c = false → replWrites nd.store key c = [] → (nodeRsp w i nd key c ch).1 = nd) := by
  constructor
  · intro hok
    rcases nodeRsp_cases w i nd key c ch with ⟨_, hno, _⟩ | ⟨_, _, _, _, _, h4⟩ |
      ⟨c', rest, _, _, _, _, _, _, h3, h4, _⟩ | ⟨c', rest, _, hno, _⟩
    · rw [hok] at hno; cases hno
    · rw [h4]
      exact SafeNet.Props.C08.inflight_leaves_early (w.kdist i) nd.fetcher key (tyOf c) ch
    · rw [h3, h4]
      exact SafeNet.Props.C08.inflight_leaves_early (w.kdist i) _ key (tyOf c) (choiceDone ch)
    · rw [hok] at hno; cases hno
  · intro hno hw
    rcases nodeRsp_cases w i nd key c ch with ⟨_, _, h1, _⟩ | ⟨_, hyes, _⟩ | ⟨c', rest, hw', _⟩ | ⟨c', rest, hw', _⟩
    · exact h1
    · rw [hno] at hyes; cases hyes
    · rw [hw] at hw'; cases hw'
    · rw [hw] at hw'; cases hw'

/-- **A holder is not reported on account of the version it served.** When the fetched record `(key, c)` is accepted
(`store_replicated_in_record` returns Ok), (1) whoever the arrival step itself reports in `FailedToFetchHolders` has
ANOTHER fetch — not of `(key, type of the fetched bytes)` — that had timed out before the record arrived, and (2) whoever
the next operation of the fetcher reports has a timed-out fetch of another `(key, type)` registered: no fetch of the served
version is there to time out. This is NOT "an honest holder is never reported for a fetch whose record arrived": the
completion notice carries `(key, type of the fetched bytes)`, not the holder, so a fetch registered under the type the
holder ADVERTISED survives when the holder's copy changed before it was asked and the served copy changes nothing at the
requester (`HonestHolderNeverReported` is false: `served_version_differs_witness`). -/
theorem holder_not_reported_for_the_served_version (w : World) (i : Nat) (nd : NodeSt) (key : Nat) (c : Content) (ch : List Entry)
    (hok : replOk nd.store key c = true) :
    (∀ h ∈ (nodeRsp w i nd key c ch).2.1.failed, ∃ o ∈ nd.fetcher.ogf,
      o.holder = h ∧ o.deadline ≤ nd.fetcher.now ∧ ¬(o.key = key ∧ o.ty = tyOf c)) ∧
    (∀ (op : SafeNet.Fetcher.Op), ∀ h ∈ (SafeNet.Fetcher.step (w.kdist i) (nodeRsp w i nd key c ch).1.fetcher op).2.failed,
      ∃ o ∈ (nodeRsp w i nd key c ch).1.fetcher.ogf,
        o.holder = h ∧ o.deadline ≤ (nodeRsp w i nd key c ch).1.fetcher.now ∧ ¬(o.key = key ∧ o.ty = tyOf c)) := by
  constructor
  · intro h hh
    unfold nodeRsp nodeRspWith at hh
    simp only [notifies, hok, Bool.and_self, if_true] at hh
    split at hh
    · -- nothing written: the completion notice removes the entry, then prunes
      simp only [earlyDone] at hh
      rw [(SafeNet.Fetcher.nextKeys_fields _ _ _).2.2.2] at hh
      obtain ⟨o, ho, hd, hho⟩ := Ph.failedOf_mem hh
      obtain ⟨ho1, ho2⟩ := List.mem_filter.1 ho
      refine ⟨o, ho1, hho, hd, ?_⟩
      simp only [SafeNet.Fetcher.sameKT, Bool.not_eq_true', Bool.and_eq_false_imp, beq_iff_eq, beq_eq_false_iff_ne, ne_eq] at ho2
      exact fun hkt => ho2 hkt.1 hkt.2
    · rename_i k' c' rest heq
      have hk : k' = key := replWrites_key nd.store key c (k', c') (by rw [heq]; exact List.mem_cons_self ..)
      subst hk
      simp only [] at hh
      rcases List.mem_append.1 hh with hh | hh
      · simp only [newPut] at hh
        rw [(SafeNet.Fetcher.nextKeys_fields _ _ _).2.2.2] at hh
        obtain ⟨o, ho, hd, hho⟩ := Ph.failedOf_mem hh
        obtain ⟨ho1, ho2⟩ := List.mem_filter.1 ho
        refine ⟨o, ho1, hho, hd, ?_⟩
        simp only [Bool.not_eq_true', beq_eq_false_iff_ne, ne_eq] at ho2
        exact fun hkt => ho2 hkt.1
      · -- the second `next_keys_to_fetch` of the step finds nothing timed out: the first one has just pruned
        exfalso
        obtain ⟨o, ho, hd, _⟩ := Ph.early_failed _ hh
        have hlive := SafeNet.Props.C08.inflight_leaves_timeout (w.kdist i) nd.fetcher
          (.put k' (tyOf c') (choicePut ch)) trivial o ho
        have hnow := (Ph.put_fields (w.kdist i) nd.fetcher k' (tyOf c') (choicePut ch)).1
        have hd' : o.deadline ≤ (newPut (w.kdist i) nd.fetcher k' (tyOf c') (choicePut ch)).1.now := hd
        rw [hnow] at hd'
        omega
  · intro op h hh
    obtain ⟨o, ho, hd, hho⟩ := step_failed_origin (w.kdist i) _ op h hh
    exact ⟨o, ho, hho, hd, ((arrived_record_leaves_inflight w i nd key c ch).1 hok).1 o ho⟩

/-- **The clause at full strength**: a fetch `e` (in flight at node `i`, addressed to holder `e.holder`) whose reply arrives
— whatever copy `c` of the record the holder serves by then — and is accepted by the requester is over: `e` leaves the
in-flight set, so that `e.holder` cannot be reported for it. -/
def HonestHolderNeverReported : Prop :=
  ∀ (w : World) (i : Nat) (nd : NodeSt) (e : Entry) (c : Content) (ch : List Entry),
    e ∈ nd.fetcher.ogf → replOk nd.store e.key c = true →
    e ∉ (nodeRsp w i nd e.key c ch).1.fetcher.ogf

/-- the requester holds register `{0,1}`; holder 0 advertised `{0}` (fetch in flight under that type) -/
def svFetcher : SafeNet.Fetcher.State := { ogf := [⟨2, tyOf (.reg false [0]), 0, 100⟩], now := 0 }
def svNode : NodeSt := { store := [(2, .reg false [0, 1])], fetcher := svFetcher }

/-- **It is false of the code (known finding K-y-served-version-differs).** Holder 0's register changed after its
advertisement (it now serves `{1}`, another content hash); the copy is accepted and changes nothing at the requester, the
completion notice names `(2, type of {1})`, the fetch registered as `(2, type of {0})` stays — and once FETCH_TIMEOUT has
passed the next `next_keys_to_fetch` reports the honest, responsive holder 0. (Completing by `(key, holder)` instead of
`(key, type)` would need a command that carries the holder: `FetchCompleted` and `notify_fetch_early_completed` do not.) -/
theorem served_version_differs_witness :
    replOk svNode.store 2 (.reg false [1]) = true ∧
    (nodeRsp padWorld 1 svNode 2 (.reg false [1]) []).2.1.illegal = false ∧
    (nodeRsp padWorld 1 svNode 2 (.reg false [1]) []).2.2 = [] ∧
    (nodeRsp padWorld 1 svNode 2 (.reg false [1]) []).1.fetcher.ogf = [⟨2, tyOf (.reg false [0]), 0, 100⟩] ∧
    (SafeNet.Fetcher.step (padWorld.kdist 1)
      (SafeNet.Fetcher.step (padWorld.kdist 1) (nodeRsp padWorld 1 svNode 2 (.reg false [1]) []).1.fetcher (.age 200)).1
      (.next [])).2.failed = [0] := by
  decide

theorem honestHolderNeverReported_false : ¬ HonestHolderNeverReported := by
  intro h
  have := h padWorld 1 svNode ⟨2, tyOf (.reg false [0]), 0, 100⟩ (.reg false [1]) [] (by decide) (by decide)
  exact this (by decide)

/-- **The bound**: `n` new keys take at most `n` reply deliveries — every reply strictly decreases
"outstanding + queued" (`evStep_rsp_measure`), whatever it contains and whatever batch the fetcher returns; all of it inside
ONE exchange of the ordered pair (the fair-round bound of `mutable_converge_*` stays 1, 2 with voided exchanges). At no time
are more than MAX_PARALLEL_FETCH fetches in flight beyond the single-key fast path (C08 `batch_cap_all_ops`). -/
theorem big_advert_replies_bound (w : World) (dst src : Nat) (nodes : Nat → NodeSt)
    (hq : StaleQuiet (nodes dst).fetcher) (c : List Entry) (rsps : List Ev) (hr : ∀ ev ∈ rsps, ev.isRsp = true)
    (hheard : heard w dst src = true)
    (hlen : ((indexOf (nodes src).store).filter
      (admits (w.kdist dst) (nodes dst).fetcher (indexOf (nodes dst).store) src)).length ≤ rsps.length) :
    (runEvs w dst nodes ⟨nodes dst, [], []⟩ (.adv src c :: rsps)).pending = [] := by
  obtain ⟨e1, _, e3, _⟩ := evStep_adv_eq w dst nodes ⟨nodes dst, [], []⟩ src c hheard
  apply replies_bound w dst nodes rsps _ hr
  have := Ph.add_measure (w.kdist dst) (nodes dst).fetcher src (indexOf (nodes src).store) (indexOf (nodes dst).store) c
  simp only [Rq.mu, e1, e3, List.nil_append]
  rw [hq.1] at this
  simp only [List.length_nil, Nat.zero_add] at this
  omega

/-- the (a)-statement without `hroom`: whatever the fetched copies do, the queue of one advertisement drains -/
def BigAdvertAlwaysDrains : Prop :=
  ∀ (w : World) (dst src : Nat) (nodes : Nat → NodeSt) (c : List Entry) (rsps : List Ev),
    (∀ i, StoreWF (nodes i).store) → StaleQuiet (nodes dst).fetcher → (∀ ev ∈ rsps, ev.isRsp = true) →
    ((indexOf (nodes src).store).filter
      (admits (w.kdist dst) (nodes dst).fetcher (indexOf (nodes dst).store) src)).length ≤ rsps.length →
    PhaseOk w dst nodes ⟨nodes dst, [], []⟩ (.adv src c :: rsps) →
    (runEvs w dst nodes ⟨nodes dst, [], []⟩ (.adv src c :: rsps)).nd.fetcher.tbf = []

/-- distance = key number, two mutually close nodes -/
def lineWorld : World := { n := 2, rt := fun i => if i = 0 then [1] else [0], pdist := fun _ _ => 5, kdist := fun _ k => k }
def ent (h : Nat) (c : Content) (k : Nat) : Entry := ⟨k, tyOf c, h, 0⟩

def stKeys : List Nat := (List.range 21).map (fun i => 3 * i + 2)
/-- node 0 holds version `[0]` of 21 registers; node 1 holds the superset `[0, 1]` of the 20 closest and the diverging
version `[1]` of the farthest one -/
def stNodes : Nat → NodeSt := fun i =>
  if i = 0 then { store := stKeys.map (fun k => (k, Content.reg false [0])) }
  else { store := (stKeys.take 20).map (fun k => (k, Content.reg false [0, 1])) ++ [(62, .reg false [1])] }
def stEvs : List Ev := .adv 0 ((stKeys.take 20).map (ent 0 (.reg false [0]))) :: List.replicate 21 (.rsp 0 [])

/-- **The defect the completion notice repairs, at scale (OLD shape of the fetch task: flag off).** Node 0 advertises 21
registers to node 1; the 20 closest are fetched first and every one of those copies merges to nothing, so no
`notify_about_new_put` runs — and, without the completion notice, nobody tells the fetcher: all 20 slots stay occupied until
FETCH_TIMEOUT, no reply is outstanding, yet the 21st register — the only real difference — is still queued and node 1
still holds its own version; the honest holder is reported when the slots time out. Reverting the repair in
`ant-node/src/replication.rs` turns `fetchTaskNotifiesCompletion` to `false`, i.e. `runEvs` into this machine. -/
theorem big_advert_stall_witness :
    phaseOkBWith false lineWorld 1 stNodes ⟨stNodes 1, [], []⟩ stEvs = true ∧
    (runEvsWith false lineWorld 1 stNodes ⟨stNodes 1, [], []⟩ stEvs).pending = [] ∧
    (runEvsWith false lineWorld 1 stNodes ⟨stNodes 1, [], []⟩ stEvs).nd.fetcher.ogf.length = 20 ∧
    (runEvsWith false lineWorld 1 stNodes ⟨stNodes 1, [], []⟩ stEvs).nd.fetcher.tbf.map (·.key) = [62] ∧
    (runEvsWith false lineWorld 1 stNodes ⟨stNodes 1, [], []⟩ stEvs).nd.store.get 62 = some (.reg false [1]) := by
  set_option maxRecDepth 100000 in decide

/-- the same advertisement on the repaired machine: the first no-op copy frees its slot, the 21st register is fetched at
once (`stEvs'` carries that batch as the choice witness of the first reply) and merged; nothing is left in flight or
queued, every hypothesis of `big_advert_converge_reg` holds -/
def stEvs' : List Ev :=
  .adv 0 ((stKeys.take 20).map (ent 0 (.reg false [0]))) :: .rsp 0 [ent 0 (.reg false [0]) 62] :: List.replicate 20 (.rsp 0 [])

theorem big_advert_no_stall_example :
    phaseOkB lineWorld 1 stNodes ⟨stNodes 1, [], []⟩ stEvs' = true ∧
    acceptedB lineWorld 1 stNodes ⟨stNodes 1, [], []⟩ stEvs' = true ∧
    (runEvs lineWorld 1 stNodes ⟨stNodes 1, [], []⟩ stEvs').pending = [] ∧
    (runEvs lineWorld 1 stNodes ⟨stNodes 1, [], []⟩ stEvs').nd.fetcher.ogf = [] ∧
    (runEvs lineWorld 1 stNodes ⟨stNodes 1, [], []⟩ stEvs').nd.fetcher.tbf = [] ∧
    (runEvs lineWorld 1 stNodes ⟨stNodes 1, [], []⟩ stEvs').nd.store.get 62 = some (.reg false [0, 1]) := by
  set_option maxRecDepth 100000 in decide

/-- node 0 holds 21 registers whose 20 closest have ANOTHER base than node 1's copies: every fetched copy is REJECTED
(`store_replicated_in_record` returns an error, nothing is reported complete) -/
def rjNodes : Nat → NodeSt := fun i =>
  if i = 0 then { store := (stKeys.take 20).map (fun k => (k, Content.reg true [0])) ++ [(62, .reg false [0])] }
  else { store := (stKeys.take 20).map (fun k => (k, Content.reg false [0, 1])) ++ [(62, .reg false [1])] }
def rjEvs : List Ev := .adv 0 ((stKeys.take 20).map (ent 0 (.reg true [0]))) :: List.replicate 21 (.rsp 0 [])

/-- **Why `hroom` / `Accepted` is still needed on the repaired machine.** A copy that is REJECTED (here: a register with
another base) is not a completed fetch: its entry stays until FETCH_TIMEOUT and its holder is then reported — the
"times out, a timed-out holder being reported" clause. MAX_PARALLEL_FETCH such copies block every slot. -/
theorem big_advert_rejected_stall_witness :
    phaseOkB lineWorld 1 rjNodes ⟨rjNodes 1, [], []⟩ rjEvs = true ∧
    (runEvs lineWorld 1 rjNodes ⟨rjNodes 1, [], []⟩ rjEvs).pending = [] ∧
    (runEvs lineWorld 1 rjNodes ⟨rjNodes 1, [], []⟩ rjEvs).nd.fetcher.ogf.length = 20 ∧
    (runEvs lineWorld 1 rjNodes ⟨rjNodes 1, [], []⟩ rjEvs).nd.fetcher.tbf.map (·.key) = [62] ∧
    (runEvs lineWorld 1 rjNodes ⟨rjNodes 1, [], []⟩ rjEvs).nd.store.get 62 = some (.reg false [1]) := by
  set_option maxRecDepth 100000 in decide

theorem big_advert_always_drains_is_false : ¬ BigAdvertAlwaysDrains := by
  intro h
  have hw := big_advert_rejected_stall_witness
  have := h lineWorld 1 0 rjNodes ((stKeys.take 20).map (ent 0 (.reg true [0]))) (List.replicate 21 (.rsp 0 []))
    (by intro i; unfold rjNodes StoreWF; split <;> decide)
    ⟨rfl, rfl, fun e he => by cases he⟩
    (by decide) (by decide) (phaseOkB_sound hw.1)
  have h2 := hw.2.2.2.1
  rw [show (runEvs lineWorld 1 rjNodes ⟨rjNodes 1, [], []⟩ rjEvs) =
    runEvs lineWorld 1 rjNodes ⟨rjNodes 1, [], []⟩
      (.adv 0 ((stKeys.take 20).map (ent 0 (.reg true [0]))) :: List.replicate 21 (.rsp 0 [])) from rfl, this] at h2
  cases h2

open SafeNet.Replication.Abs in
/-- **(b) Several advertisements in flight at one requester: the interleaving does not matter (transaction sets).**
`evs` is ANY interleaving of advertisements from any number of sources and of reply deliveries (any order; a reply may
arrive after a later `put` has already dropped its in-flight entry, a version may be queued behind an in-flight fetch of the
same version from another holder, …) meeting the per-event hypotheses. Once no reply is outstanding and the queue is
drained (or fewer than MAX_PARALLEL_FETCH fetches are left in flight), the requester's version of every transaction key is
exactly what the SERIALISED schedule of complete exchanges `s₁ → dst, s₂ → dst, …` (`Abs.runX`) leaves: the join. -/
theorem concurrent_adverts_serial_txs (w : World) (dst : Nat) (nodes : Nat → NodeSt) (k : Nat) (hk : k % 3 = 1)
    (hwf : ∀ i, StoreWF (nodes i).store) (hkey : ∀ i, TxKey k (nodes i)) (hq : StaleQuiet (nodes dst).fetcher)
    (evs : List Ev) (hok : PhaseOk w dst nodes ⟨nodes dst, [], []⟩ evs)
    (hp : (runEvs w dst nodes ⟨nodes dst, [], []⟩ evs).pending = [])
    (hdr : (runEvs w dst nodes ⟨nodes dst, [], []⟩ evs).nd.fetcher.tbf = [] ∨
      (runEvs w dst nodes ⟨nodes dst, [], []⟩ evs).nd.fetcher.ogf.length < SafeNet.Gen.Fetcher.maxParallelFetch) :
    verTx ((runEvs w dst nodes ⟨nodes dst, [], []⟩ evs).nd.store.get k) =
      runX (fun j => verTx ((nodes j).store.get k)) ((advSrcs evs).map (fun s => (s, dst))) dst ∧
    TxKey k (runEvs w dst nodes ⟨nodes dst, [], []⟩ evs).nd :=
  ⟨phase_is_serial w dst nodes k verTx OkTx (lawTx k hk) hwf hkey hq evs hok hp hdr,
   (phase_join w dst nodes k verTx OkTx (lawTx k hk) hwf hkey hq evs hok hp hdr).2⟩

open SafeNet.Replication.Abs in
/-- **(b) Registers.** -/
theorem concurrent_adverts_serial_reg (w : World) (dst : Nat) (nodes : Nat → NodeSt) (alt : Bool) (k : Nat)
    (hk : k % 3 = 2)
    (hwf : ∀ i, StoreWF (nodes i).store) (hkey : ∀ i, RegKey alt k (nodes i)) (hq : StaleQuiet (nodes dst).fetcher)
    (evs : List Ev) (hok : PhaseOk w dst nodes ⟨nodes dst, [], []⟩ evs)
    (hp : (runEvs w dst nodes ⟨nodes dst, [], []⟩ evs).pending = [])
    (hdr : (runEvs w dst nodes ⟨nodes dst, [], []⟩ evs).nd.fetcher.tbf = [] ∨
      (runEvs w dst nodes ⟨nodes dst, [], []⟩ evs).nd.fetcher.ogf.length < SafeNet.Gen.Fetcher.maxParallelFetch) :
    verReg alt ((runEvs w dst nodes ⟨nodes dst, [], []⟩ evs).nd.store.get k) =
      runX (fun j => verReg alt ((nodes j).store.get k)) ((advSrcs evs).map (fun s => (s, dst))) dst ∧
    RegKey alt k (runEvs w dst nodes ⟨nodes dst, [], []⟩ evs).nd :=
  ⟨phase_is_serial w dst nodes k (verReg alt) (OkReg alt) (lawReg alt k hk) hwf hkey hq evs hok hp hdr,
   (phase_join w dst nodes k (verReg alt) (OkReg alt) (lawReg alt k hk) hwf hkey hq evs hok hp hdr).2⟩

open SafeNet.Replication.Abs in
/-- **(b) Chunks.** -/
theorem concurrent_adverts_serial_chunk (w : World) (dst : Nat) (nodes : Nat → NodeSt) (k : Nat) (hk : k % 3 = 0)
    (hwf : ∀ i, StoreWF (nodes i).store) (hkey : ∀ i, ChunkKey k (nodes i)) (hq : StaleQuiet (nodes dst).fetcher)
    (evs : List Ev) (hok : PhaseOk w dst nodes ⟨nodes dst, [], []⟩ evs)
    (hp : (runEvs w dst nodes ⟨nodes dst, [], []⟩ evs).pending = [])
    (hdr : (runEvs w dst nodes ⟨nodes dst, [], []⟩ evs).nd.fetcher.tbf = [] ∨
      (runEvs w dst nodes ⟨nodes dst, [], []⟩ evs).nd.fetcher.ogf.length < SafeNet.Gen.Fetcher.maxParallelFetch) :
    verChunk ((runEvs w dst nodes ⟨nodes dst, [], []⟩ evs).nd.store.get k) =
      runX (fun j => verChunk ((nodes j).store.get k)) ((advSrcs evs).map (fun s => (s, dst))) dst ∧
    ChunkKey k (runEvs w dst nodes ⟨nodes dst, [], []⟩ evs).nd :=
  ⟨phase_is_serial w dst nodes k verChunk OkChunk (lawChunk k hk) hwf hkey hq evs hok hp hdr,
   (phase_join w dst nodes k verChunk OkChunk (lawChunk k hk) hwf hkey hq evs hok hp hdr).2⟩

open SafeNet.Replication.Abs in
/-- **(c) Transaction sets converge — `n` nodes, schedules of phases.** As `mutable_converge_txs`, with `ValidP` in
place of `Valid`: every phase is an arbitrary interleaving at one requester (advertisements of any size, any number of
them in flight together, replies in any order), lasts until no reply is outstanding and the queue is drained, and is
followed by FETCH_TIMEOUT at the requester; `Covers`: the schedule contains an advertisement for every ordered pair — one
fair round. Then all `n` nodes hold the same content under `k`, its members are exactly the transactions held anywhere at
the start, every fetcher is quiet again and the ranking function is 0. -/
theorem mutable_converge_txs_phases (w : World) (n k : Nat) (nodes : Nat → NodeSt) (phs : List Phase) (hk : k % 3 = 1)
    (hq : ∀ i, StaleQuiet (nodes i).fetcher) (hwf : ∀ i, StoreWF (nodes i).store) (hkey : ∀ i, TxKey k (nodes i))
    (hv : ValidP w nodes phs) (hin : ∀ p ∈ pairsOf phs, p.1 < n ∧ p.2 < n) (hcov : Covers n (pairsOf phs)) :
    let fin := runPs w nodes phs
    (∀ x y, x < n → y < n → (fin x).store.get k = (fin y).store.get k) ∧
    (∀ x m, x < n → (memV m (verTx ((fin x).store.get k)) ↔ ∃ y, y < n ∧ memV m (verTx ((nodes y).store.get k)))) ∧
    (∀ i, StaleQuiet (fin i).fetcher) ∧
    (∀ x0, x0 < n → measure n (fun i => verTx ((fin i).store.get k)) (verTx ((fin x0).store.get k)) = 0) := by
  intro fin
  obtain ⟨r1, r2, r3, _⟩ := runPs_refines w k verTx OkTx (lawTx k hk) phs nodes hq hwf hkey hv
  have hc : ∀ i, CanonV ((fun j => verTx ((nodes j).store.get k)) i) := by
    intro i l hl
    rcases hkey i with h | ⟨l', h, hcl, _⟩
    · simp [h, verTx] at hl
    · simp only [h, verTx, Option.some.injEq] at hl; rw [← hl]; exact hcl
  obtain ⟨a1, _, a3⟩ := abs_converge n _ _ hc hin hcov
  refine ⟨?_, ?_, r3, ?_⟩
  · intro x y hx hy
    exact txKey_ext (r2 x) (r2 y) (by rw [r1 x, r1 y]; exact a3 x y hx hy)
  · intro x m hx
    rw [r1 x]; exact a1 x m hx
  · intro x0 hx0
    have := (measure_zero n _ _ hc hin hcov x0 hx0).1
    have hf : (fun i => verTx ((fin i).store.get k)) =
        runX (fun j => verTx ((nodes j).store.get k)) (pairsOf phs) := by
      funext i; exact r1 i
    rw [hf, r1 x0]; exact this

open SafeNet.Replication.Abs in
/-- **(c) Registers converge — `n` nodes, schedules of phases.** -/
theorem mutable_converge_reg_phases (w : World) (n k : Nat) (alt : Bool) (nodes : Nat → NodeSt) (phs : List Phase)
    (hk : k % 3 = 2)
    (hq : ∀ i, StaleQuiet (nodes i).fetcher) (hwf : ∀ i, StoreWF (nodes i).store) (hkey : ∀ i, RegKey alt k (nodes i))
    (hv : ValidP w nodes phs) (hin : ∀ p ∈ pairsOf phs, p.1 < n ∧ p.2 < n) (hcov : Covers n (pairsOf phs)) :
    let fin := runPs w nodes phs
    (∀ x y, x < n → y < n → (fin x).store.get k = (fin y).store.get k) ∧
    (∀ x m, x < n → (memV m (verReg alt ((fin x).store.get k)) ↔
      ∃ y, y < n ∧ memV m (verReg alt ((nodes y).store.get k)))) ∧
    (∀ i, StaleQuiet (fin i).fetcher) ∧
    (∀ x0, x0 < n → measure n (fun i => verReg alt ((fin i).store.get k)) (verReg alt ((fin x0).store.get k)) = 0) := by
  intro fin
  obtain ⟨r1, r2, r3, _⟩ := runPs_refines w k (verReg alt) (OkReg alt) (lawReg alt k hk) phs nodes hq hwf hkey hv
  have hc : ∀ i, CanonV ((fun j => verReg alt ((nodes j).store.get k)) i) := by
    intro i l hl
    rcases hkey i with h | ⟨l', h, hcl⟩
    · simp [h, verReg] at hl
    · simp only [h, verReg, if_true, Option.some.injEq] at hl; rw [← hl]; exact hcl
  obtain ⟨a1, _, a3⟩ := abs_converge n _ _ hc hin hcov
  refine ⟨?_, ?_, r3, ?_⟩
  · intro x y hx hy
    exact regKey_ext (r2 x) (r2 y) (by rw [r1 x, r1 y]; exact a3 x y hx hy)
  · intro x m hx
    rw [r1 x]; exact a1 x m hx
  · intro x0 hx0
    have := (measure_zero n _ _ hc hin hcov x0 hx0).1
    have hf : (fun i => verReg alt ((fin i).store.get k)) =
        runX (fun j => verReg alt ((nodes j).store.get k)) (pairsOf phs) := by
      funext i; exact r1 i
    rw [hf, r1 x0]; exact this

open SafeNet.Replication.Abs in
/-- **(c) Immutable data reaches every neighbour — `n` nodes, schedules of phases**: byte-identical copies (a chunk is
determined by its key) at every one of the `n` neighbours iff any of them held it, after one fair round of phases. -/
theorem immutable_converge_phases (w : World) (n k : Nat) (nodes : Nat → NodeSt) (phs : List Phase) (hk : k % 3 = 0)
    (hq : ∀ i, StaleQuiet (nodes i).fetcher) (hwf : ∀ i, StoreWF (nodes i).store) (hkey : ∀ i, ChunkKey k (nodes i))
    (hv : ValidP w nodes phs) (hin : ∀ p ∈ pairsOf phs, p.1 < n ∧ p.2 < n) (hcov : Covers n (pairsOf phs)) :
    let fin := runPs w nodes phs
    (∀ x, x < n → ((fin x).store.get k = some .chunk ↔ ∃ y, y < n ∧ (nodes y).store.get k = some .chunk)) ∧
    (∀ i, StaleQuiet (fin i).fetcher) := by
  intro fin
  obtain ⟨r1, r2, r3, _⟩ := runPs_refines w k verChunk OkChunk (lawChunk k hk) phs nodes hq hwf hkey hv
  have hc : ∀ i, CanonV ((fun j => verChunk ((nodes j).store.get k)) i) := by
    intro i l hl
    rcases hkey i with h | h
    · simp [h, verChunk] at hl
    · simp only [h, verChunk, Option.some.injEq] at hl; rw [← hl]; trivial
  obtain ⟨_, a2, _⟩ := abs_converge n _ _ hc hin hcov
  refine ⟨?_, r3⟩
  intro x hx
  have := a2 x hx
  rw [← r1 x] at this
  constructor
  · intro h
    obtain ⟨y, hy, hs⟩ := this.1 (by rw [h]; rfl)
    exact ⟨y, hy, chunkKey_some (hkey y) hs⟩
  · rintro ⟨y, hy, hs⟩
    exact chunkKey_some (r2 x) (this.2 ⟨y, hy, by rw [hs]; rfl⟩)

open SafeNet.Replication.Abs in
/-- **(a) for `mutable_converge_txs`-style histories: no bound on the number of keys.** `xs` is any schedule of complete
exchanges among `n` neighbours, each an advertisement of ANY size followed by its replies in any order; `ValidBig` = the
FairRound hypotheses of `Valid` with the bound "fewer than MAX_PARALLEL_FETCH advertised records" replaced by "fewer than
MAX_PARALLEL_FETCH fetches left in flight at the end of the exchange", at least as many reply deliveries as new keys, and
no assumption on the reply order. One fair round (`Covers`) leaves every node with the union of all versions. -/
theorem mutable_converge_txs_big (w : World) (n k : Nat) (nodes : Nat → NodeSt) (xs : List BigXch) (hk : k % 3 = 1)
    (hq : ∀ i, StaleQuiet (nodes i).fetcher) (hwf : ∀ i, StoreWF (nodes i).store) (hkey : ∀ i, TxKey k (nodes i))
    (hv : ValidBig w nodes xs) (hin : ∀ x ∈ xs, x.src < n ∧ x.dst < n)
    (hcov : Covers n (xs.map (fun x => (x.src, x.dst)))) :
    let fin := runPs w nodes (xs.map BigXch.phase)
    (∀ x y, x < n → y < n → (fin x).store.get k = (fin y).store.get k) ∧
    (∀ x m, x < n → (memV m (verTx ((fin x).store.get k)) ↔ ∃ y, y < n ∧ memV m (verTx ((nodes y).store.get k)))) ∧
    (∀ i, StaleQuiet (fin i).fetcher) ∧
    (∀ x0, x0 < n → measure n (fun i => verTx ((fin i).store.get k)) (verTx ((fin x0).store.get k)) = 0) := by
  have hp := pairsOf_big xs (validBig_rsps w xs nodes hv)
  apply mutable_converge_txs_phases w n k nodes _ hk hq hwf hkey (validP_of_big w xs nodes hq hwf hv)
  · intro p hpm
    rw [hp] at hpm
    obtain ⟨x, hx, rfl⟩ := List.mem_map.1 hpm
    exact hin x hx
  · rw [hp]; exact hcov

open SafeNet.Replication.Abs in
/-- **(a) for `mutable_converge_reg`-style histories: no bound on the number of keys.** -/
theorem mutable_converge_reg_big (w : World) (n k : Nat) (alt : Bool) (nodes : Nat → NodeSt) (xs : List BigXch)
    (hk : k % 3 = 2)
    (hq : ∀ i, StaleQuiet (nodes i).fetcher) (hwf : ∀ i, StoreWF (nodes i).store) (hkey : ∀ i, RegKey alt k (nodes i))
    (hv : ValidBig w nodes xs) (hin : ∀ x ∈ xs, x.src < n ∧ x.dst < n)
    (hcov : Covers n (xs.map (fun x => (x.src, x.dst)))) :
    let fin := runPs w nodes (xs.map BigXch.phase)
    (∀ x y, x < n → y < n → (fin x).store.get k = (fin y).store.get k) ∧
    (∀ x m, x < n → (memV m (verReg alt ((fin x).store.get k)) ↔
      ∃ y, y < n ∧ memV m (verReg alt ((nodes y).store.get k)))) ∧
    (∀ i, StaleQuiet (fin i).fetcher) ∧
    (∀ x0, x0 < n → measure n (fun i => verReg alt ((fin i).store.get k)) (verReg alt ((fin x0).store.get k)) = 0) := by
  have hp := pairsOf_big xs (validBig_rsps w xs nodes hv)
  apply mutable_converge_reg_phases w n k alt nodes _ hk hq hwf hkey (validP_of_big w xs nodes hq hwf hv)
  · intro p hpm
    rw [hp] at hpm
    obtain ⟨x, hx, rfl⟩ := List.mem_map.1 hpm
    exact hin x hx
  · rw [hp]; exact hcov

/-! ### non-vacuity of the phase theorems -/

def bigKeys : List Nat := (List.range 22).map (fun i => 3 * i + 1)
/-- two nodes, 22 transaction sets (more than MAX_PARALLEL_FETCH), every one diverging: `[0]` at node 0, `[1]` at node 1 -/
def bigNodes : Nat → NodeSt := fun i =>
  if i = 0 then { store := bigKeys.map (fun k => (k, Content.txs [0])) }
  else { store := bigKeys.map (fun k => (k, Content.txs [1])) }
/-- 0 → 1: the 20 closest keys are the first batch; the first two stored replies each schedule one of the two keys left
in the queue; 22 replies in all. Then 1 → 0 likewise with the merged versions. -/
def bigSched : List BigXch :=
  [⟨0, 1, (bigKeys.take 20).map (ent 0 (.txs [0])),
     [.rsp 0 [ent 0 (.txs [0]) 61], .rsp 0 [ent 0 (.txs [0]) 64]] ++ List.replicate 20 (.rsp 0 []), 20⟩,
   ⟨1, 0, (bigKeys.take 20).map (ent 1 (.txs [0, 1])),
     [.rsp 0 [ent 1 (.txs [0, 1]) 61], .rsp 0 [ent 1 (.txs [0, 1]) 64]] ++ List.replicate 20 (.rsp 0 []), 20⟩]

/-- every hypothesis of `mutable_converge_txs_big` / `big_advert_converge_partial_txs` holds for the 22-key round (the
executable checks `phaseOkB` / `validPB` are sound: `phaseOkB_sound`, `validPB_sound`), nothing is left in flight, and
all 22 keys end as `[0, 1]` at both nodes — including key 64, which is only fetched in the second batch -/
theorem bigValid :
    validPB lineWorld bigNodes (bigSched.map BigXch.phase) = true ∧
    (runPhase lineWorld bigNodes ⟨1, .adv 0 ((bigKeys.take 20).map (ent 0 (.txs [0]))) ::
        ([.rsp 0 [ent 0 (.txs [0]) 61], .rsp 0 [ent 0 (.txs [0]) 64]] ++ List.replicate 20 (.rsp 0 [])), 20⟩).nd.fetcher.ogf = [] ∧
    ((indexOf (bigNodes 0).store).filter
      (admits (lineWorld.kdist 1) (bigNodes 1).fetcher (indexOf (bigNodes 1).store) 0)).length = 22 ∧
    (∀ k ∈ bigKeys, (runPs lineWorld bigNodes (bigSched.map BigXch.phase) 0).store.get k = some (.txs [0, 1]) ∧
      (runPs lineWorld bigNodes (bigSched.map BigXch.phase) 1).store.get k = some (.txs [0, 1])) := by
  set_option maxRecDepth 100000 in decide

example : ValidP lineWorld bigNodes (bigSched.map BigXch.phase) ∧ (∀ i, StaleQuiet (bigNodes i).fetcher) ∧
    (∀ i, StoreWF (bigNodes i).store) ∧ (∀ i, TxKey 64 (bigNodes i)) ∧
    SafeNet.Replication.Abs.Covers 2 (pairsOf (bigSched.map BigXch.phase)) := by
  refine ⟨validPB_sound bigValid.1, ?_, ?_, ?_, ?_⟩
  · intro i; unfold bigNodes; split <;> exact ⟨rfl, rfl, fun e he => by cases he⟩
  · intro i; unfold bigNodes StoreWF; split <;> decide
  · intro i; unfold bigNodes; split
    · exact Or.inr ⟨[0], by decide, by simp [Canon], by simp⟩
    · exact Or.inr ⟨[1], by decide, by simp [Canon], by simp⟩
  · intro y x hy hx hne
    have : (y = 0 ∧ x = 1) ∨ (y = 1 ∧ x = 0) := by omega
    rcases this with ⟨rfl, rfl⟩ | ⟨rfl, rfl⟩ <;> decide

/-- three mutually close nodes, each with its own version of register 2 and transaction set 4 -/
def cNodes : Nat → NodeSt := fun i => { store := [(2, .reg false [i]), (4, .txs [i])] }
/-- one fair round in three phases, two advertisements in flight together in each. Phase at node 2: both lists arrive
before any reply; the reply of node 1's register is processed first — its `put` drops the in-flight entry of node 0's
fetch of the same key, whose reply arrives later all the same. Phase at node 1: nodes 0 and 2 advertise the SAME
versions; the second list is queued behind the in-flight fetches of the first and leaves the queue when they are stored. -/
def cPhases : List Phase :=
  [⟨2, [.adv 0 [ent 0 (.reg false [0]) 2, ent 0 (.txs [0]) 4], .adv 1 [ent 1 (.reg false [1]) 2, ent 1 (.txs [1]) 4],
        .rsp 2 [], .rsp 2 [], .rsp 0 [], .rsp 0 []], 20⟩,
   ⟨0, [.adv 1 [ent 1 (.reg false [1]) 2, ent 1 (.txs [1]) 4],
        .adv 2 [ent 2 (.reg false [0, 1, 2]) 2, ent 2 (.txs [0, 1, 2]) 4],
        .rsp 3 [], .rsp 0 [], .rsp 1 [], .rsp 0 []], 25⟩,
   ⟨1, [.adv 0 [ent 0 (.reg false [0, 1, 2]) 2, ent 0 (.txs [0, 1, 2]) 4], .adv 2 [], .rsp 1 [], .rsp 0 []], 20⟩]

/-- non-vacuity of `mutable_converge_*_phases` / `concurrent_adverts_serial_*`: the concurrent round meets every
hypothesis, covers all six ordered pairs, and leaves the unions everywhere; in the third phase two entries really were
queued behind in-flight fetches of the same version -/
theorem cValid :
    validPB meshWorld3 cNodes cPhases = true ∧
    pairsOf cPhases = [(0, 2), (1, 2), (1, 0), (2, 0), (0, 1), (2, 1)] ∧
    (∀ i, i < 3 → (runPs meshWorld3 cNodes cPhases i).store =
      [(2, .reg false [0, 1, 2]), (4, .txs [0, 1, 2])]) ∧
    ((runEvs meshWorld3 1 (runPs meshWorld3 cNodes (cPhases.take 2))
        ⟨runPs meshWorld3 cNodes (cPhases.take 2) 1, [], []⟩ [.adv 0 [ent 0 (.reg false [0, 1, 2]) 2, ent 0 (.txs [0, 1, 2]) 4],
          .adv 2 []]).nd.fetcher.tbf.map (·.holder)) = [2, 2] := by
  set_option maxRecDepth 100000 in decide

example : ValidP meshWorld3 cNodes cPhases ∧ SafeNet.Replication.Abs.Covers 3 (pairsOf cPhases) ∧
    (∀ i, StoreWF (cNodes i).store) ∧ (∀ i, RegKey false 2 (cNodes i)) ∧ (∀ i, TxKey 4 (cNodes i)) := by
  refine ⟨validPB_sound cValid.1, ?_, ?_, ?_, ?_⟩
  · rw [cValid.2.1]
    intro y x hy hx hne
    have : y = 0 ∨ y = 1 ∨ y = 2 := by omega
    have : x = 0 ∨ x = 1 ∨ x = 2 := by omega
    rcases ‹y = 0 ∨ y = 1 ∨ y = 2› with rfl | rfl | rfl <;> rcases ‹x = 0 ∨ x = 1 ∨ x = 2› with rfl | rfl | rfl <;>
      first | exact absurd rfl hne | decide
  · intro i; simp [StoreWF, cNodes]
  · intro i; exact Or.inr ⟨[i], rfl, trivial⟩
  · intro i; exact Or.inr ⟨[i], rfl, trivial, by simp⟩

#print axioms SafeNet.Props.C09.only_close_holders_heard
#print axioms SafeNet.Props.C09.only_close_holders_heard_sys
#print axioms SafeNet.Props.C09.closeness_guard_present
#print axioms SafeNet.Props.C09.advertises_everything
#print axioms SafeNet.Props.C09.advertises_everything_sys
#print axioms SafeNet.Props.C09.single_new_scheduled
#print axioms SafeNet.Props.C09.immutable_accepted
#print axioms SafeNet.Props.C09.immutable_replicates
#print axioms SafeNet.Props.C09.scratchpad_never_fetched
#print axioms SafeNet.Props.C09.scratchpad_never_converges_witness
#print axioms SafeNet.Props.C09.scratchpads_converge_is_false
#print axioms SafeNet.Props.C09.scratchpad_accept_partial
#print axioms SafeNet.Props.C09.exchange_txs
#print axioms SafeNet.Props.C09.exchange_reg
#print axioms SafeNet.Props.C09.mutable_converge_partial_txs
#print axioms SafeNet.Props.C09.mutable_converge_partial_reg
#print axioms SafeNet.Props.C09.step_allHeard
#print axioms SafeNet.Props.C09.only_close_holders_heard_always
#print axioms SafeNet.Props.C09.replication_targets_spec
#print axioms SafeNet.Props.C09.boundary_peer_is_target
#print axioms SafeNet.Props.C09.every_due_candidate_served
#print axioms SafeNet.Props.C09.mutable_converge_txs
#print axioms SafeNet.Props.C09.mutable_converge_reg
#print axioms SafeNet.Replication.adv_complete
#print axioms SafeNet.Replication.exchange_join_tx
#print axioms SafeNet.Replication.exchange_join_reg
#print axioms SafeNet.Replication.exchange_then_tick_staleQuiet
#print axioms SafeNet.Replication.void_exchange_quiets
#print axioms SafeNet.Replication.Abs.abs_converge
#print axioms SafeNet.Replication.Abs.measure_zero
#print axioms SafeNet.Props.C09.exValid
#print axioms SafeNet.Props.C09.immutable_converge
#print axioms SafeNet.Replication.exchange_join_chunk
#print axioms SafeNet.Props.C09.chunkValid
#print axioms SafeNet.Props.C09.lost_fetch_pruned
#print axioms SafeNet.Props.C09.eventual_fetch_after_timeout
#print axioms SafeNet.Props.C09.big_advert_converge_partial_txs
#print axioms SafeNet.Props.C09.big_advert_converge_partial_reg
#print axioms SafeNet.Props.C09.big_advert_replicates_partial_chunk
#print axioms SafeNet.Props.C09.big_advert_replies_bound
#print axioms SafeNet.Props.C09.big_advert_stall_witness
#print axioms SafeNet.Props.C09.big_advert_always_drains_is_false
#print axioms SafeNet.Props.C09.big_advert_converge_txs
#print axioms SafeNet.Props.C09.big_advert_converge_reg
#print axioms SafeNet.Props.C09.big_advert_replicates_chunk
#print axioms SafeNet.Props.C09.big_advert_no_stall_example
#print axioms SafeNet.Props.C09.big_advert_rejected_stall_witness
#print axioms SafeNet.Props.C09.arrived_record_leaves_inflight
#print axioms SafeNet.Props.C09.holder_not_reported_for_the_served_version
#print axioms SafeNet.Props.C09.served_version_differs_witness
#print axioms SafeNet.Props.C09.honestHolderNeverReported_false
#print axioms SafeNet.Replication.cascade_join_accepted
#print axioms SafeNet.Replication.accepted_phase_room
#print axioms SafeNet.Props.C09.concurrent_adverts_serial_txs
#print axioms SafeNet.Props.C09.concurrent_adverts_serial_reg
#print axioms SafeNet.Props.C09.concurrent_adverts_serial_chunk
#print axioms SafeNet.Props.C09.mutable_converge_txs_phases
#print axioms SafeNet.Props.C09.mutable_converge_reg_phases
#print axioms SafeNet.Props.C09.immutable_converge_phases
#print axioms SafeNet.Props.C09.mutable_converge_txs_big
#print axioms SafeNet.Props.C09.mutable_converge_reg_big
#print axioms SafeNet.Props.C09.bigValid
#print axioms SafeNet.Props.C09.cValid
#print axioms SafeNet.Replication.pInv_step
#print axioms SafeNet.Replication.phase_join
#print axioms SafeNet.Replication.cascade_drains
#print axioms SafeNet.Replication.evStep_rsp_measure
#print axioms SafeNet.Replication.runPs_refines
#print axioms SafeNet.Props.C09.sender_guard_present
#print axioms SafeNet.Props.C09.armActs_iff
#print axioms SafeNet.Props.C09.only_close_sender_heard
#print axioms SafeNet.Props.C09.acted_list_names_its_close_sender
#print axioms SafeNet.Props.C09.only_close_sender_heard_always
#print axioms SafeNet.Props.C09.unguarded_arm_hears_far_sender_witness

end SafeNet.Props.C09
