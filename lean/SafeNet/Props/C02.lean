import SafeNet.Proofs.StoreReach
import SafeNet.Proofs.StoreIds
import SafeNet.Proofs.StoreStart
import SafeNet.Proofs.StoreCipher
import SafeNet.Proofs.StoreFault
/-!
# C02 — a restarted node never serves corrupted records and keeps completed writes

`Op.crash torn` stops the node at the current point of a history — every pending task simply never
runs, except that each listed in-flight write `(id, n)` has written the first `n` bytes of its file
(`File.torn`, every `n` below the full length) — and reopens the store on the same directory with the
same identity (`restart`: start-up scan, index/distance index/farthest rebuilt, payment count restored).
Which tasks had completed before the stop is part of the history (`Op.run`), so the theorems quantify
over all subsets of completed tasks allowed by per-key FIFO, and over all torn prefixes.

Which hypotheses each theorem carries: none beyond `encrypt = true` — `restart_sound`, `restart_sound_faults`,
`restart_keeps_completed(_reachable)`, `restart_removed_stay_removed`, `torn_file_gone_after_restart`,
`crash_after_failed_write`, `crash_after_failed_open_keeps_previous`, the start-up theorems; `NoRemoveWhileInFlight`
(and per-key FIFO): `restart_keeps_completed_history` = `…_history_partial`, `restart_removed_history` = `…_history_partial`.
-/
namespace SafeNet.Props.C02
open SafeNet.Store

/-- the shipped antnode encrypts record files (ant-node default features → ant-networking/encrypt-records) -/
example : Gen.Store.shippedEncrypt = true := by decide

theorem shipped_encrypts (maxRecords cacheSize : Nat) : (Cfg.shipped maxRecords cacheSize).encrypt = true := by
  show Gen.Store.shippedEncrypt = true
  decide

/-- the start-up scan of the current source removes no file because of its size (regenerated from
`update_records_from_an_existing_store`; `restart_keeps_completed` is proved against this) -/
theorem scan_has_no_size_test : Gen.Store.scanDropsOversized = false := by decide

/-- record files are named by the hex of the whole key and the start-up scan takes every hex name back for a
key, whatever its length (regenerated from `generate_filename` / `get_data_from_filename`) -/
theorem scan_accepts_every_key_length :
    Gen.Store.fileNameIsFullHex = true ∧ Gen.Store.scanAcceptsEveryHexName = true := by decide

theorem runFrom_append (cfg : Cfg) (dist : Nat → Nat) (s : St) (ops ops' : List Op) :
    runFrom cfg dist s (ops ++ ops') = runFrom cfg dist (runFrom cfg dist s ops) ops' := by
  induction ops generalizing s with
  | nil => rfl
  | cons op ops ih => simp only [List.cons_append, runFrom]; exact ih _

/-- **A restarted node serves nothing or a value previously validated for that key**, whole: for every
history, every set of completed tasks, every set of torn in-flight writes and every prefix length,
with record encryption on. -/
theorem restart_sound (cfg : Cfg) (henc : cfg.encrypt = true) (dist : Nat → Nat) (ops : List Op)
    (torn : List (Nat × Nat)) (k : Nat) (r : Read)
    (h : get cfg (step cfg dist (run cfg dist ops) (.crash torn)).1 k = some r) :
    ∃ v rt, r = .whole v ∧ Op.put k v rt ∈ ops := by
  have hs : Sound (fun k v => ∃ rt, Op.put k v rt ∈ ops) (run cfg dist ops) :=
    Sound.runFrom ops (Sound.init cfg dist) (fun op ho k v rt e => ⟨rt, e ▸ ho⟩)
  have hs' := hs.step (cfg := cfg) (dist := dist) (.crash torn) (fun k v rt e => by cases e)
  obtain ⟨⟨rt, hp⟩, hw⟩ := hs'.get h
  obtain ⟨v, rfl⟩ := hw henc
  exact ⟨v, rt, rfl, hp⟩

/-- `restart_sound` for the shipped build. -/
theorem restart_sound_shipped (maxRecords cacheSize : Nat) (dist : Nat → Nat) (ops : List Op)
    (torn : List (Nat × Nat)) (k : Nat) (r : Read)
    (h : get (Cfg.shipped maxRecords cacheSize)
      (step (Cfg.shipped maxRecords cacheSize) dist (run (Cfg.shipped maxRecords cacheSize) dist ops) (.crash torn)).1 k = some r) :
    ∃ v rt, r = .whole v ∧ Op.put k v rt ∈ ops :=
  restart_sound _ (shipped_encrypts _ _) dist ops torn k r h

/-! ## completed writes are kept, completed removals stay removed -/

/-- files of keys without a pending write are untouched by the stop -/
theorem lookup_crashDisk_of_no_write (s : St) (torn : List (Nat × Nat)) (k : Nat)
    (hq : ∀ i v rt, (i, Task.write k v rt) ∉ s.tasks) : lookup k (crashDisk s torn) = lookup k s.disk := by
  unfold crashDisk
  have : ∀ (d : List (Nat × File)),
      lookup k (torn.foldl (fun d t =>
        match lookup t.1 s.tasks with
        | some (.write k v _) => insert k (.torn v t.2) d
        | _ => d) d) = lookup k d := by
    induction torn with
    | nil => intro d; rfl
    | cons t ts ih =>
      intro d
      simp only [List.foldl_cons]
      rw [ih]
      split
      · rename_i k' v' rt' ht
        have : k ≠ k' := by
          intro e; subst e
          exact hq _ _ _ (lookup_some_mem ht)
        exact lookup_insert_ne this _ _
      · rfl
  exact this s.disk

/-- **Completed writes survive.** If the file of `k` is completely written (`full v`, a record with a valid
header) and no write of `k` is pending — its last write task ran and no later put of `k` was issued;
whether the `AddLocalRecordAsStored` notification was handled, is still queued or gets lost does not
matter — then after the stop and restart `k` is served with exactly `v` and is listed. -/
theorem restart_keeps_completed (cfg : Cfg) (dist : Nat → Nat) (s : St) (hd : (keys s.disk).Nodup)
    (torn : List (Nat × Nat)) (hok : torn.all (tearOk s) = true) (k v : Nat)
    (hfile : lookup k s.disk = some (.full v)) (hq : ∀ i v rt, (i, Task.write k v rt) ∉ s.tasks)
    (hhdr : hdrClass v ≠ .bad) :
    let s' := (step cfg dist s (.crash torn)).1
    get cfg s' k = some (.whole v) ∧ contains s' k = true := by
  simp only [step, hok, ↓reduceIte]
  have hcd : lookup k (crashDisk s torn) = some (.full v) := by
    rw [lookup_crashDisk_of_no_write s torn k hq]; exact hfile
  have hnd := nodup_crashDisk hd torn
  have hmem := lookup_some_mem hcd
  have hst : ∃ rt, scanType cfg (.full v) = some rt := by
    -- the start-up scan of the current source has no size test (regenerated flag)
    have hsz : oversized cfg (.full v) = false := by
      simp [oversized, show Gen.Store.scanDropsOversized = false from rfl]
    simp only [scanType, hsz, Bool.false_eq_true, ↓reduceIte, readFile, hdrOf]
    cases h : hdrClass v with
    | chunk => exact ⟨_, rfl⟩
    | other => exact ⟨_, rfl⟩
    | bad => exact absurd h hhdr
  obtain ⟨rt, hrt⟩ := hst
  -- every hex file name is taken for a key by the scan of the current source (regenerated flags)
  have hname : nameKept k = true := by
    simp [nameKept, show Gen.Store.scanAcceptsEveryHexName = true from rfl, show Gen.Store.fileNameIsFullHex = true from rfl]
  have hrt : scanEntry cfg k (.full v) = some rt := by simp [scanEntry, hname, hrt]
  have hidx : lookup k (scanIndex cfg (crashDisk s torn)) = some rt :=
    lookup_of_mem ((keys_scanIndex_sublist _ _).nodup hnd) (mem_scanIndex.mpr ⟨_, hmem, hrt⟩)
  have hdisk : lookup k ((crashDisk s torn).filter (fun e => (scanEntry cfg e.1 e.2).isSome || !nameKept e.1)) = some (.full v) := by
    apply lookup_of_mem
    · have : (keys ((crashDisk s torn).filter (fun e => (scanEntry cfg e.1 e.2).isSome || !nameKept e.1))).Sublist (keys (crashDisk s torn)) := by
        simp only [keys]; exact (List.filter_sublist).map _
      exact this.nodup hnd
    · exact List.mem_filter.mpr ⟨hmem, by simp [hrt]⟩
  constructor
  · simp only [SafeNet.Store.get, restart, lookup, hidx, hdisk, Option.bind_some, readFile]
  · simp only [contains, restart, hidx, Option.isSome_some]

/-- the file is complete as soon as the write task has run -/
theorem write_done_file (s : St) (id k v : Nat) (rt : RType) (ht : lookup id s.tasks = some (.write k v rt))
    (hl : legalRun s.tasks id (.write k v rt) = true) : lookup k (runTask s id).1.disk = some (.full v) := by
  simp only [runTask, ht, hl, ↓reduceIte]
  exact lookup_insert_self _ _ _

/-- **Completed removals stay removed.** If `k` has no file (its delete task ran) and no write of `k` is
pending (no later put), then after the stop and restart `k` is neither served nor listed. -/
theorem restart_removed_stay_removed (cfg : Cfg) (dist : Nat → Nat) (s : St)
    (torn : List (Nat × Nat)) (hok : torn.all (tearOk s) = true) (k : Nat)
    (hfile : lookup k s.disk = none) (hq : ∀ i v rt, (i, Task.write k v rt) ∉ s.tasks) :
    let s' := (step cfg dist s (.crash torn)).1
    get cfg s' k = none ∧ contains s' k = false ∧ lookup k s'.disk = none := by
  simp only [step, hok, ↓reduceIte]
  have hcd : lookup k (crashDisk s torn) = none := by
    rw [lookup_crashDisk_of_no_write s torn k hq]; exact hfile
  have hk : k ∉ keys (crashDisk s torn) := lookup_none_iff.mp hcd
  have hidx : lookup k (scanIndex cfg (crashDisk s torn)) = none :=
    lookup_none_iff.mpr (fun hm => hk ((keys_scanIndex_sublist _ _).subset hm))
  have hdisk : lookup k ((crashDisk s torn).filter (fun e => (scanEntry cfg e.1 e.2).isSome || !nameKept e.1)) = none := by
    apply lookup_none_iff.mpr
    intro hm
    apply hk
    simp only [keys, List.mem_map] at hm ⊢
    obtain ⟨e, he, rfl⟩ := hm
    exact ⟨e, (List.mem_filter.mp he).1, rfl⟩
  refine ⟨?_, ?_, hdisk⟩
  · simp only [SafeNet.Store.get, restart, lookup, hidx]
  · simp only [contains, restart, hidx, Option.isSome_none]

/-! ## the same for the state after any history -/

/-- `restart_keeps_completed` for the state after **any** history (any schedule, earlier crashes included): the
file-name uniqueness it needs holds in every reachable state (`DiskOK.run`). -/
theorem restart_keeps_completed_reachable (cfg : Cfg) (dist : Nat → Nat) (ops : List Op)
    (torn : List (Nat × Nat)) (hok : torn.all (tearOk (run cfg dist ops)) = true) (k v : Nat)
    (hfile : lookup k (run cfg dist ops).disk = some (.full v))
    (hq : ∀ i v rt, (i, Task.write k v rt) ∉ (run cfg dist ops).tasks) (hhdr : hdrClass v ≠ .bad) :
    let s' := (step cfg dist (run cfg dist ops) (.crash torn)).1
    get cfg s' k = some (.whole v) ∧ contains s' k = true :=
  restart_keeps_completed cfg dist _ (DiskOK.run cfg dist ops) torn hok k v hfile hq hhdr

/-- **Completed writes survive, in the words of the history.** In a history that removes nothing in flight: if
the last store-changing event on `k` is an accepted put of `v` (a record with a valid header) and its write task
has run — whether or not the notification was handled — then after a stop at this point (any in-flight writes of
other keys torn anywhere) and a restart, `k` is served with exactly `v` and is listed. -/
theorem restart_keeps_completed_history (cfg : Cfg) (dist : Nat → Nat) (ops : List Op)
    (hn : NoRemoveWhileInFlight cfg dist (init cfg dist) ops)
    (torn : List (Nat × Nat)) (hok : torn.all (tearOk (run cfg dist ops)) = true) (k v i : Nat) (rt : RType)
    (hlast : lastEvent cfg dist ops k = some (v, rt, i)) (hran : ¬ hasWrite (run cfg dist ops) k)
    (hhdr : hdrClass v ≠ .bad) :
    let s' := (step cfg dist (run cfg dist ops) (.crash torn)).1
    get cfg s' k = some (.whole v) ∧ contains s' k = true := by
  have hinv := KeyInv.run cfg dist ops hn
  obtain ⟨_, _, _, hstage⟩ := hinv.present k v rt i hlast
  have hfile : lookup k (run cfg dist ops).disk = some (.full v) := by
    rcases hstage with h | ⟨_, _, c, _⟩ | ⟨_, _, c, _⟩
    · exact absurd ⟨i, v, rt, h⟩ hran
    · exact c
    · exact c
  exact restart_keeps_completed_reachable cfg dist ops torn hok k v hfile
    (fun i' v' rt' hm => hran ⟨i', v', rt', hm⟩) hhdr

/-- **Completed removals stay removed, in the words of the history.** In a history that removes nothing in
flight: if the last store-changing event on `k` is a removal (explicit, eviction or clean-up) and no delete task of
`k` is pending any more, then after a stop and restart `k` is neither served nor listed and has no file. -/
theorem restart_removed_history (cfg : Cfg) (dist : Nat → Nat) (ops : List Op)
    (hn : NoRemoveWhileInFlight cfg dist (init cfg dist) ops)
    (torn : List (Nat × Nat)) (hok : torn.all (tearOk (run cfg dist ops)) = true) (k : Nat)
    (hlast : lastEvent cfg dist ops k = none) (hdone : ¬ hasDelete (run cfg dist ops) k) :
    let s' := (step cfg dist (run cfg dist ops) (.crash torn)).1
    get cfg s' k = none ∧ contains s' k = false ∧ lookup k s'.disk = none := by
  have hinv := KeyInv.run cfg dist ops hn
  obtain ⟨hnf, _, _, hd⟩ := hinv.absent k hlast
  have hfile : lookup k (run cfg dist ops).disk = none := by
    cases h : lookup k (run cfg dist ops).disk with
    | none => rfl
    | some f => exact absurd (hd (by rw [h]; simp)) hdone
  exact restart_removed_stay_removed cfg dist _ torn hok k hfile
    (fun i v rt hm => hnf (.inl ⟨i, v, rt, hm⟩))

/-- non-vacuity of the two history-level theorems: key 2's write ran but its notification is lost, key 1 was
removed and its delete ran; the history removes nothing in flight; after the stop key 2 is served, key 1 is gone -/
example :
    let cfg := Cfg.shipped 4 2
    let d : Nat → Nat := fun k => k
    let ops : List Op := [.run 0, .put 1 3 .chunk, .put 2 7 (.nonChunk (.whole 7)), .run 1, .run 2, .deliver 1, .remove 1, .run 3]
    nrwifB cfg d (init cfg d) ops = true ∧ lastEvent cfg d ops 2 = some (7, .nonChunk (.whole 7), 2) ∧
      lastEvent cfg d ops 1 = none ∧ (run cfg d ops).tasks = [] ∧
      get cfg (step cfg d (run cfg d ops) (.crash [])).1 2 = some (.whole 7) ∧
      get cfg (step cfg d (run cfg d ops) (.crash [])).1 1 = none := by
  decide

/-! ## the start-up step outside the record store: `check_and_wipe_storage_dir_if_necessary`

`NetworkBuilder::build_node` runs it at every start before the store is opened (`Model/StoreStart`): it compares
`<root>/network_key_version` with the current network id and, on mismatch, wipes the record-store directory and
rewrites the file. `Op.crash` above is a stop followed by a start that finds its own id in the version file; the
theorems below say why that is all a restart with the same identity can be — also when starts are interrupted. -/

/-- what rs2lean read from driver.rs: the version file is truncated and rewritten only inside the branch
`cur_version_str != prev_version_str`; inside it the wipe comes first; `build_node` runs the check with
`get_network_id()` before it configures the store -/
theorem version_file_written_only_on_mismatch :
    Gen.Startup.versionWrittenOnlyOnMismatch = true ∧ Gen.Startup.wipeBeforeVersionWrite = true ∧
      Gen.Startup.checkedAtEveryStart = true := by decide

/-- **Same network id: the step performs no file-system effect at all.** -/
theorem start_same_id_has_no_effect (cur : Text) : startupEffects (some cur) cur = [] := startupEffects_same cur

/-- **A start for the same network id, completed or interrupted at ANY point** (after any number of effects, any
number of bytes into a write, any part of a wipe), **leaves the version file and every record file untouched.** -/
theorem start_same_id_untouched (d : Dir) (cur : Text) (h : d.vfile = some cur) :
    completeStart d cur = d ∧ ∀ i : Intr, interruptedStart d cur i = d :=
  ⟨completeStart_same d cur h, fun i => interruptedStart_same d cur i h⟩

/-- **`restart_keeps_completed` for histories containing interrupted starts.** A node (running or down) whose version
file holds its network id: after any number of starts with that id interrupted anywhere, followed by a completed
start, the node is up, the version file is as before, and every completely written record with no pending write is
served with exactly its value and is listed. -/
theorem restart_keeps_completed_interrupted_starts (cfg : Cfg) (dist : Nat → Nat) (n : Node) (cur : Text)
    (hv : n.vfile = some cur) (hd : (keys n.st.disk).Nodup) (is : List Intr) (k v : Nat)
    (hfile : lookup k n.st.disk = some (.full v)) (hq : ∀ i v rt, (i, Task.write k v rt) ∉ n.st.tasks)
    (hhdr : hdrClass v ≠ .bad) :
    let n' := nrunFrom cfg dist n (interrupts cur is ++ [.start cur none])
    n'.up = true ∧ n'.vfile = some cur ∧ get cfg n'.st k = some (.whole v) ∧ contains n'.st k = true := by
  intro n'
  have hn' : n' = { up := true, vfile := some cur, st := restart cfg dist n.st.disk n.st.hist n.st.nextId } :=
    interrupted_starts_then_start cfg dist cur is n hv
  rw [hn']
  have := restart_keeps_completed cfg dist n.st hd [] rfl k v hfile hq hhdr
  rw [step_crash_nil] at this
  exact ⟨rfl, rfl, this.1, this.2⟩

/-- the same for completed removals: a key without a file and without a pending write stays removed -/
theorem restart_removed_interrupted_starts (cfg : Cfg) (dist : Nat → Nat) (n : Node) (cur : Text)
    (hv : n.vfile = some cur) (is : List Intr) (k : Nat)
    (hfile : lookup k n.st.disk = none) (hq : ∀ i v rt, (i, Task.write k v rt) ∉ n.st.tasks) :
    let n' := nrunFrom cfg dist n (interrupts cur is ++ [.start cur none])
    get cfg n'.st k = none ∧ contains n'.st k = false ∧ lookup k n'.st.disk = none := by
  intro n'
  have hn' : n' = { up := true, vfile := some cur, st := restart cfg dist n.st.disk n.st.hist n.st.nextId } :=
    interrupted_starts_then_start cfg dist cur is n hv
  rw [hn']
  have := restart_removed_stay_removed cfg dist n.st [] rfl k hfile hq
  rw [step_crash_nil] at this
  exact this

/-- …for the node after **any** node history (store operations, crashes, completed and interrupted starts with any
ids): file names are unique in every reachable node (`NDiskOK.run`) -/
theorem restart_keeps_completed_node_history (cfg : Cfg) (dist : Nat → Nat) (nops : List NOp) (cur : Text)
    (hv : (nrun cfg dist nops).vfile = some cur) (is : List Intr) (k v : Nat)
    (hfile : lookup k (nrun cfg dist nops).st.disk = some (.full v))
    (hq : ∀ i v rt, (i, Task.write k v rt) ∉ (nrun cfg dist nops).st.tasks) (hhdr : hdrClass v ≠ .bad) :
    let n' := nrunFrom cfg dist (nrun cfg dist nops) (interrupts cur is ++ [.start cur none])
    n'.up = true ∧ n'.vfile = some cur ∧ get cfg n'.st k = some (.whole v) ∧ contains n'.st k = true :=
  restart_keeps_completed_interrupted_starts cfg dist _ cur hv (NDiskOK.run cfg dist nops) is k v hfile hq hhdr

/-- **Whatever starts a history holds — any ids, completed or interrupted anywhere — a node serves nothing or a whole
value previously validated for that key** (record encryption on): the step only ever removes record files. -/
theorem node_history_sound (cfg : Cfg) (henc : cfg.encrypt = true) (dist : Nat → Nat) (nops : List NOp) (k : Nat) (r : Read)
    (h : get cfg (nrun cfg dist nops).st k = some r) :
    ∃ v rt, r = .whole v ∧ NOp.store (.put k v rt) ∈ nops := by
  have hs : Sound (fun k v => ∃ rt, NOp.store (.put k v rt) ∈ nops) (nrun cfg dist nops).st :=
    Sound.nrunFrom nops (Sound.init cfg dist) (fun op ho k v rt e => ⟨rt, e ▸ ho⟩)
  obtain ⟨⟨rt, hp⟩, hw⟩ := hs.get h
  obtain ⟨v, rfl⟩ := hw henc
  exact ⟨v, rt, rfl, hp⟩

/-- **A start for another network id** (the file holds another text, is empty or torn, or is absent) **wipes**: when
it completes, the version file holds the new id and no record file is left. -/
theorem start_other_id_wipes (cfg : Cfg) (dist : Nat → Nat) (n : Node) (cur : Text)
    (h : (cur != n.vfile.getD []) = true) :
    let n' := (nstep cfg dist n (.start cur none)).1
    n'.up = true ∧ n'.vfile = some cur ∧ n'.st.index = [] ∧ n'.st.disk = [] := by
  simp [nstep, completeStart_mismatch ⟨n.vfile, n.st.disk⟩ cur h, restart, scanIndex]

/-- **…and when it is interrupted**, at any point: record files may already be gone (never altered, never added), and
the new id is in the version file only if the wipe has completed. -/
theorem interrupted_start_other_id (d : Dir) (cur : Text) (i : Intr) (h : (cur != d.vfile.getD []) = true) :
    (interruptedStart d cur i).disk.Sublist d.disk ∧
      ((interruptedStart d cur i).vfile = some cur → (interruptedStart d cur i).disk = []) :=
  ⟨interruptedStart_disk_sublist d cur i, interruptedStart_mismatch d cur i h⟩

/-- so after any number of interrupted starts for the new id, a completed start for it leaves no record of the old
network behind (the version file never names the new id over an unwiped store) -/
theorem other_id_interrupted_then_complete_wipes (d : Dir) (cur : Text) (hc : cur ≠ []) (h : d.vfile ≠ some cur)
    (is : List Intr) :
    completeStart (is.foldl (fun d i => interruptedStart d cur i) d) cur = ⟨some cur, []⟩ := by
  have hw : WipedIfNamed cur d := fun e => absurd e h
  clear h
  induction is generalizing d with
  | nil => exact completeStart_of_wipedIfNamed hc hw
  | cons i is ih => exact ih _ (hw.interrupted hc i)

/-- an empty version file — what a start interrupted between truncating and writing leaves — makes the next start
wipe every record, whatever the id: this is why no start with the node's own id may touch the file -/
theorem empty_version_file_wipes (disk : List (Nat × File)) (id : Nat) :
    completeStart ⟨some [], disk⟩ (idText id) = ⟨some (idText id), []⟩ := by
  apply completeStart_mismatch
  simpa using idText_ne_nil id

/-- **The statements depend on the generated flag**: a source that rewrites the version file at every start performs
`truncate; write` for the node's own id; interrupted between the two the file is empty, and the next start with the
same id wipes a completely written record. -/
theorem unconditional_rewrite_witness :
    startupEffectsWith false true (some (idText 1)) (idText 1) = [.truncate, .write (idText 1)] ∧
    applyEff ⟨some (idText 1), [(7, .full 3)]⟩ .truncate = ⟨some [], [(7, .full 3)]⟩ ∧
    completeStart ⟨some [], [(7, .full 3)]⟩ (idText 1) = ⟨some (idText 1), []⟩ := by
  decide

/-- non-vacuity: a node gets its version file (`start` on a fresh directory), stores key 1, is stopped and started
twice with an interruption (before anything / "after two effects" — there are none), then started: key 1 is served;
a later start for network id 2 interrupted after the wipe, then completed, leaves nothing and names id 2 -/
example :
    let cfg := Cfg.shipped 4 2
    let d : Nat → Nat := fun k => k
    let ops : List NOp := [.start (idText 1) none, .store (.put 1 3 .chunk), .store (.run 2), .store (.deliver 2),
      .start (idText 1) (some ⟨0, 0, []⟩), .start (idText 1) (some ⟨2, 1, [1]⟩), .start (idText 1) none]
    (nrun cfg d ops).vfile = some (idText 1) ∧ get cfg (nrun cfg d ops).st 1 = some (.whole 3) ∧
    (nrun cfg d (ops ++ [.start (idText 2) (some ⟨1, 0, []⟩)])).vfile = some (idText 1) ∧
    (nrun cfg d (ops ++ [.start (idText 2) (some ⟨1, 0, []⟩)])).st.disk = [] ∧
    (nrun cfg d (ops ++ [.start (idText 2) (some ⟨1, 0, []⟩), .start (idText 2) none])).vfile = some (idText 2) ∧
    get cfg (nrun cfg d (ops ++ [.start (idText 2) (some ⟨1, 0, []⟩), .start (idText 2) none])).st 1 = none := by
  decide

/-! ## the AEAD clause of the model follows from the laws of an ideal cipher

`Proofs/StoreCipher.lean`: record files as byte strings under an abstract authenticated cipher `C` with the laws
`Cipher.Ideal` (correctness, authenticity, no ciphertext a proper prefix of another, key/nonce separation). The
scan and `get` decrypt under the store key and the nonce of the record key, or skip the file. -/

/-- `get_record_from_bytes` answers a decryption failure with "no record" (regenerated; `decodeFile` and the
model's `readFile` follow this flag, so `get_sound`, `restart_sound` and `scan_decrypt_or_skip` are proved against it) -/
theorem decrypt_failure_skips : Gen.Store.decryptFailureSkips = true := by decide

/-- **A restarted node never serves a torn or a foreign file**, by the scan's decrypt-or-skip logic: a completely
written file decrypts to its value; every strict prefix of it is skipped; a file made under another store key or
another nonce is skipped. -/
theorem scan_decrypt_or_skip (C : Cipher) (h : C.Ideal) (storeKey : Nat) (nonceOf : Nat → Nat) (k : Nat) (v : Bytes) :
    decodeFile C storeKey nonceOf k (C.enc storeKey (nonceOf k) v) = some v ∧
    (∀ n, n < (C.enc storeKey (nonceOf k) v).length →
      decodeFile C storeKey nonceOf k ((C.enc storeKey (nonceOf k) v).take n) = none) ∧
    (∀ key' nonce', ¬ (key' = storeKey ∧ nonce' = nonceOf k) →
      decodeFile C storeKey nonceOf k (C.enc key' nonce' v) = none) :=
  ⟨decode_full h _ _ _ _, fun n hn => decode_torn h _ _ _ _ n hn, fun k' n' hne => decode_foreign h _ _ _ k' n' _ hne⟩

/-- the model's `readFile true` is what decrypt-or-skip computes on the rendered bytes -/
theorem aead_clause_refines (C : Cipher) (h : C.Ideal) (storeKey : Nat) (nonceOf : Nat → Nat) (valBytes : Nat → Bytes)
    (k : Nat) (f : File) (hwf : ∀ v n, f = .torn v n → n < (C.enc storeKey (nonceOf k) (valBytes v)).length) :
    decodeFile C storeKey nonceOf k (render C storeKey nonceOf valBytes k f) =
      (readFile true f).map (fun r => valBytes (match r with | .whole v => v | .part v _ => v)) :=
  readFile_refines h storeKey nonceOf valBytes k f hwf

/-- the cipher laws are jointly satisfiable -/
theorem ideal_cipher_exists : ∃ C : Cipher, C.Ideal := ⟨toyCipher, toyCipher_ideal⟩

/-! ## removals by clean-up schedule the file deletion -/

theorem foldl_removeKey_index' (dist : Nat → Nat) (ks : List Nat) (s : St) :
    (ks.foldl (removeKey dist) s).index = s.index.filter (fun e => !ks.contains e.1) := by
  induction ks generalizing s with
  | nil => exact (List.filter_eq_self.mpr (by simp)).symm
  | cons k ks ih =>
    rw [List.foldl_cons, ih]
    simp only [removeKey, erase, List.filter_filter]
    apply List.filter_congr
    intro e _
    simp only [List.contains_cons]
    cases h1 : (e.1 != k) <;> cases h2 : ks.contains e.1 <;> simp_all [bne]

/-- **Every record the clean-up drops from the index gets its file deleted**: `cleanup_irrelevant_records`
removes through `RecordStore::remove` (regenerated: `cleanupRemovesThroughRemove`), so for each key that leaves the
index a delete task is pending afterwards. Once that task has run and no write of the key is pending,
`restart_removed_stay_removed` applies: the key stays removed across a restart. -/
theorem cleanup_removal_spawns_delete (cfg : Cfg) (dist : Nat → Nat) (s : St) (k : Nat)
    (hin : k ∈ keys s.index) (hout : k ∉ keys (cleanup cfg dist s).index) :
    Gen.Store.cleanupRemovesThroughRemove = true ∧ ∃ j, (j, Task.delete k) ∈ (cleanup cfg dist s).tasks := by
  refine ⟨by decide, ?_⟩
  unfold cleanup at hout ⊢
  split at hout
  · exact absurd hin hout
  · rename_i hlen
    rw [if_neg hlen]
    split at hout
    · exact absurd hin hout
    · rename_i r hr
      rw [foldl_removeKey_tasks]
      rw [foldl_removeKey_index'] at hout
      have hk : k ∈ (sortByFst (s.byDist.filter (fun e => beyond e.1 r))).map (·.2) := by
        obtain ⟨e, he, rfl⟩ := List.mem_map.mp hin
        by_cases hc : ((sortByFst (s.byDist.filter (fun e => beyond e.1 r))).map (·.2)).contains e.1 = true
        · simpa using hc
        · exfalso
          apply hout
          have hc' : ((sortByFst (s.byDist.filter (fun e => beyond e.1 r))).map (·.2)).contains e.1 = false := by
            cases h : ((sortByFst (s.byDist.filter (fun e => beyond e.1 r))).map (·.2)).contains e.1 with
            | false => rfl
            | true => exact absurd h hc
          exact List.mem_map.mpr ⟨e, List.mem_filter.mpr ⟨he, by rw [hc']; rfl⟩, rfl⟩
      obtain ⟨j, hj⟩ := mem_delTasks (n := s.nextId) hk
      exact ⟨j, List.mem_append_right _ hj⟩

/-! ## the theorems depend on the shipped feature set -/

def noEncrypt : Cfg := { Cfg.shipped 4 2 with encrypt := false }

/-- Without `encrypt-records` a torn file is served truncated after the restart: put k v; the write is
torn after 5 bytes; the reopened store lists `k` and returns the 5-byte prefix. -/
theorem restart_no_encrypt_witness :
    let s := run noEncrypt (fun k => k) [.run 0, .put 1 3 .chunk, .crash [(1, 5)]]
    get noEncrypt s 1 = some (.part 3 5) ∧ contains s 1 = true := by
  decide

/-- with encryption the same history leaves `k` absent and its torn file deleted -/
theorem restart_torn_absent_example :
    let s := run (Cfg.shipped 4 2) (fun k => k) [.run 0, .put 1 3 .chunk, .crash [(1, 5)]]
    get (Cfg.shipped 4 2) s 1 = none ∧ contains s 1 = false ∧ lookup 1 s.disk = none := by
  decide

/-- non-vacuity: a completed write whose notification is lost is served after the restart, a completed
removal stays removed, an unfinished delete resurrects nothing that was not validated -/
example :
    let s := run (Cfg.shipped 4 2) (fun k => k)
      [.run 0, .put 1 3 .chunk, .put 2 7 (.nonChunk (.whole 7)), .run 1, .run 2, .deliver 1,
       .remove 1, .run 3, .crash []]
    get (Cfg.shipped 4 2) s 1 = none ∧ get (Cfg.shipped 4 2) s 2 = some (.whole 7) ∧
      s.index = [(2, .nonChunk (.whole 7))] := by
  decide

#print axioms SafeNet.Props.C02.shipped_encrypts
#print axioms SafeNet.Props.C02.scan_has_no_size_test
#print axioms SafeNet.Props.C02.scan_accepts_every_key_length
/-! ## correctly named aliases of the two theorems that carry `NoRemoveWhileInFlight` -/

theorem restart_keeps_completed_history_partial (cfg : Cfg) (dist : Nat → Nat) (ops : List Op)
    (hn : NoRemoveWhileInFlight cfg dist (init cfg dist) ops)
    (torn : List (Nat × Nat)) (hok : torn.all (tearOk (run cfg dist ops)) = true) (k v i : Nat) (rt : RType)
    (hlast : lastEvent cfg dist ops k = some (v, rt, i)) (hran : ¬ hasWrite (run cfg dist ops) k)
    (hhdr : hdrClass v ≠ .bad) :
    let s' := (step cfg dist (run cfg dist ops) (.crash torn)).1
    get cfg s' k = some (.whole v) ∧ contains s' k = true :=
  restart_keeps_completed_history cfg dist ops hn torn hok k v i rt hlast hran hhdr

theorem restart_removed_history_partial (cfg : Cfg) (dist : Nat → Nat) (ops : List Op)
    (hn : NoRemoveWhileInFlight cfg dist (init cfg dist) ops)
    (torn : List (Nat × Nat)) (hok : torn.all (tearOk (run cfg dist ops)) = true) (k : Nat)
    (hlast : lastEvent cfg dist ops k = none) (hdone : ¬ hasDelete (run cfg dist ops) k) :
    let s' := (step cfg dist (run cfg dist ops) (.crash torn)).1
    get cfg s' k = none ∧ contains s' k = false ∧ lookup k s'.disk = none :=
  restart_removed_history cfg dist ops hn torn hok k hlast hdone

/-! ## a stop after a FAILED write (`Model/StoreFault`) -/

/-- **A restarted node serves nothing or a whole previously validated value — with failing writes in the history.**
A failed write leaves a torn or empty file that is neither a crash artefact nor complete; the invariant is the same. -/
theorem restart_sound_faults (cfg : Cfg) (henc : cfg.encrypt = true) (dist : Nat → Nat) (fops : List FOp)
    (torn : List (Nat × Nat)) (k : Nat) (r : Read)
    (h : get cfg (fstep cfg dist (frun cfg dist fops) (.base (.crash torn))).1.s k = some r) :
    ∃ v rt, r = .whole v ∧ FOp.base (.put k v rt) ∈ fops := by
  have hs : Sound (fun k v => ∃ rt, FOp.base (.put k v rt) ∈ fops) (frun cfg dist fops).s :=
    Sound.frunFrom fops (Sound.init cfg dist) (fun op ho k v rt e => ⟨rt, e ▸ ho⟩)
  have hs' := hs.fstep (cfg := cfg) (dist := dist) (.base (.crash torn)) (fun k v rt e => by cases e)
  obtain ⟨⟨rt, hp⟩, hw⟩ := hs'.get h
  obtain ⟨v, rfl⟩ := hw henc
  exact ⟨v, rt, rfl, hp⟩

/-- **A torn file is gone after a restart**, whatever left it (a stop inside the write, or a write that failed after
`n` bytes): with record encryption the start-up scan does not index it and deletes it. -/
theorem torn_file_gone_after_restart (cfg : Cfg) (henc : cfg.encrypt = true) (dist : Nat → Nat) (s : St)
    (hd : (keys s.disk).Nodup) (torn : List (Nat × Nat)) (hok : torn.all (tearOk s) = true) (k v n : Nat)
    (hfile : lookup k s.disk = some (.torn v n)) (hq : ∀ i v rt, (i, Task.write k v rt) ∉ s.tasks) :
    let s' := (step cfg dist s (.crash torn)).1
    get cfg s' k = none ∧ contains s' k = false ∧ lookup k s'.disk = none := by
  simp only [step, hok, ↓reduceIte]
  have hcd : lookup k (crashDisk s torn) = some (.torn v n) := by
    rw [lookup_crashDisk_of_no_write s torn k hq]; exact hfile
  have hnd := nodup_crashDisk hd torn
  have hse : scanEntry cfg k (.torn v n) = none := by
    have hsz : oversized cfg (.torn v n) = false := by
      simp [oversized, show Gen.Store.scanDropsOversized = false from rfl]
    simp [scanEntry, scanType, hsz, readFile, henc, show Gen.Store.decryptFailureSkips = true from rfl]
  have honly : ∀ f, (k, f) ∈ crashDisk s torn → f = .torn v n := by
    intro f hf
    have := lookup_of_mem hnd hf
    rw [hcd] at this; cases this; rfl
  have hidx : lookup k (scanIndex cfg (crashDisk s torn)) = none := by
    cases hl : lookup k (scanIndex cfg (crashDisk s torn)) with
    | none => rfl
    | some rt =>
      obtain ⟨f, hf, hs⟩ := mem_scanIndex.mp (lookup_some_mem hl)
      rw [honly f hf, hse] at hs; cases hs
  have hdisk : lookup k ((crashDisk s torn).filter (fun e => (scanEntry cfg e.1 e.2).isSome || !nameKept e.1)) = none := by
    apply lookup_none_iff.mpr
    intro hm
    simp only [keys, List.mem_map] at hm
    obtain ⟨e, he, hek⟩ := hm
    obtain ⟨he1, he2⟩ := List.mem_filter.mp he
    obtain ⟨k', f⟩ := e
    simp only at hek; subst hek
    rw [honly f he1] at he2
    simp [hse, nameKept_true] at he2
  refine ⟨?_, ?_, hdisk⟩
  · simp only [SafeNet.Store.get, restart, lookup, hidx]
  · simp only [contains, restart, hidx, Option.isSome_none]

/-- **Stop after a write that failed part-way** (before or after `RemoveFailedLocalRecord` is handled): the `b`-byte
file it left is neither indexed nor served by the restarted node and is deleted — also when it replaced a complete
earlier version of the record (that version was destroyed by the failed overwrite, not by the restart). -/
theorem crash_after_failed_write (cfg : Cfg) (henc : cfg.encrypt = true) (dist : Nat → Nat) (fs : FSt)
    (hd : (keys fs.s.disk).Nodup) (id k v b : Nat) (rt : RType)
    (ht : lookup id fs.s.tasks = some (.write k v rt)) (hl : legalRun fs.s.tasks id (.write k v rt) = true)
    (hb : b < fileLen cfg.encrypt (.full v))
    (hq : ∀ i v' rt', (i, Task.write k v' rt') ∈ fs.s.tasks → i = id) :
    let s1 := (runFail cfg fs id (.full b)).1.s
    let s' := (step cfg dist s1 (.crash [])).1
    get cfg s' k = none ∧ contains s' k = false ∧ lookup k s'.disk = none := by
  intro s1 s'
  have ho := runFail_outcome cfg fs id k v rt (.full b) ht hl hb
  simp only at ho
  have hdisk : s1.disk = insert k (.torn v b) fs.s.disk := ho.2.2.1
  have htasks : s1.tasks = erase id fs.s.tasks := ho.1
  apply torn_file_gone_after_restart cfg henc dist s1 (by rw [hdisk]; exact nodup_keys_insert hd) [] (by simp) k v b
  · rw [hdisk]; exact lookup_insert_self _ _ _
  · intro i v' rt' hm
    rw [htasks] at hm
    obtain ⟨hm1, hm2⟩ := mem_erase.mp hm
    exact hm2 (hq i v' rt' hm1)

/-- **Stop after a write that failed at the open**: nothing was created or truncated, so a complete earlier version
of the record (its write had completed; the overwrite never reached the disk) is served again after the restart. -/
theorem crash_after_failed_open_keeps_previous (cfg : Cfg) (dist : Nat → Nat) (fs : FSt)
    (hd : (keys fs.s.disk).Nodup) (id k v v1 : Nat) (rt : RType)
    (ht : lookup id fs.s.tasks = some (.write k v rt)) (hl : legalRun fs.s.tasks id (.write k v rt) = true)
    (hq : ∀ i v' rt', (i, Task.write k v' rt') ∈ fs.s.tasks → i = id)
    (hfile : lookup k fs.s.disk = some (.full v1)) (hhdr : hdrClass v1 ≠ .bad) :
    let s1 := (runFail cfg fs id .openFail).1.s
    let s' := (step cfg dist s1 (.crash [])).1
    get cfg s' k = some (.whole v1) ∧ contains s' k = true := by
  intro s1 s'
  have ho := runFail_outcome cfg fs id k v rt .openFail ht hl trivial
  simp only at ho
  have hdisk : s1.disk = fs.s.disk := ho.2.2.1
  have htasks : s1.tasks = erase id fs.s.tasks := ho.1
  apply restart_keeps_completed cfg dist s1 (by rw [hdisk]; exact hd) [] (by simp) k v1 (by rw [hdisk]; exact hfile)
  · intro i v' rt' hm
    rw [htasks] at hm
    obtain ⟨hm1, hm2⟩ := mem_erase.mp hm
    exact hm2 (hq i v' rt' hm1)
  · exact hhdr

/-! ## restarting "with the same identity" -/

/-- **Same identity ⇒ same directory, same seed, same cipher.** Two starts of a node with the same root directory and the
same peer id — whatever else differs between them — open the record store on the same directory (the one the start-up
check guards), with the same metrics directory, the same `encryption_seed` (the first 16 bytes of the peer id) and the
same cipher input. Over the definitions regenerated from `build_node` / `with_config`: an edit that takes the seed from
anything but the identity, or moves the directory from start to start, turns a flag and this no longer checks. -/
theorem same_identity_same_seed (root : String) (peer : List Nat) (amb1 amb2 : Nat) :
    storeOpening root peer amb1 = storeOpening root peer amb2 ∧
    (storeOpening root peer amb1).storageDir = root ++ "/" ++ Gen.Startup.storageDirName ∧
    Gen.Startup.storageDirName = "record_store" ∧
    (storeOpening root peer amb1).quoteDir = root ∧
    (storeOpening root peer amb1).seed = peer.take 16 ∧
    (storeOpening root peer amb1).cipherInput = peer.take 16 := by
  refine ⟨rfl, rfl, by decide, rfl, rfl, rfl⟩

/-- **Another identity: the old files are skipped.** Record files as byte strings under an ideal AEAD `C` (the `auth`
abstraction of `scan_decrypt_or_skip`), the store key derived from the cipher input by `kdf` (HKDF; hypothesis: the two
seeds in play give different keys), the per-key nonce from seed and record key by `nonceOf`. A complete file written by
a node opened for `peer` and scanned (or read by `get`) by a node opened for `peer'` — any root, anything ambient —
fails to decode: `get_record_from_bytes` answers `None`, which in `update_records_from_an_existing_store` is the branch
that removes the file ("Failed to decrypt record from file …, clean it up"). The seeds themselves differ. The deletion
is not part of this statement: the `St` model has no constructor for a foreign file (for a file the scan cannot decode
that IS in the model — a torn one — see `torn_file_gone_after_restart`). -/
theorem other_identity_file_skipped (C : Cipher) (hC : C.Ideal) (kdf : List Nat → Nat) (nonceOf : List Nat → Nat → Nat)
    (root root' : String) (peer peer' : List Nat) (amb amb' : Nat)
    (hk : kdf (peer.take 16) ≠ kdf (peer'.take 16)) (k : Nat) (v : Bytes) :
    let o := storeOpening root peer amb
    let o' := storeOpening root' peer' amb'
    o.seed ≠ o'.seed ∧
    decodeFile C (kdf o'.cipherInput) (nonceOf o'.seed) k (C.enc (kdf o.cipherInput) (nonceOf o.seed k) v) = none := by
  intro o o'
  have hci : o.cipherInput = peer.take 16 := rfl
  have hci' : o'.cipherInput = peer'.take 16 := rfl
  have hs : o.seed = peer.take 16 := rfl
  have hs' : o'.seed = peer'.take 16 := rfl
  refine ⟨?_, ?_⟩
  · rw [hs, hs']; intro e; exact hk (by rw [e])
  · apply decode_foreign hC
    rintro ⟨e, _⟩
    rw [hci, hci'] at e
    exact hk e

#print axioms SafeNet.Props.C02.restart_sound
#print axioms SafeNet.Props.C02.restart_sound_shipped
#print axioms SafeNet.Props.C02.restart_keeps_completed
#print axioms SafeNet.Props.C02.write_done_file
#print axioms SafeNet.Props.C02.restart_removed_stay_removed
#print axioms SafeNet.Props.C02.cleanup_removal_spawns_delete
#print axioms SafeNet.Props.C02.restart_keeps_completed_reachable
#print axioms SafeNet.Props.C02.restart_keeps_completed_history
#print axioms SafeNet.Props.C02.restart_removed_history
#print axioms SafeNet.Props.C02.decrypt_failure_skips
#print axioms SafeNet.Props.C02.scan_decrypt_or_skip
#print axioms SafeNet.Props.C02.aead_clause_refines
#print axioms SafeNet.Props.C02.ideal_cipher_exists
#print axioms SafeNet.Props.C02.restart_no_encrypt_witness
#print axioms SafeNet.Props.C02.restart_torn_absent_example
#print axioms SafeNet.Props.C02.version_file_written_only_on_mismatch
#print axioms SafeNet.Props.C02.start_same_id_has_no_effect
#print axioms SafeNet.Props.C02.start_same_id_untouched
#print axioms SafeNet.Props.C02.restart_keeps_completed_interrupted_starts
#print axioms SafeNet.Props.C02.restart_removed_interrupted_starts
#print axioms SafeNet.Props.C02.restart_keeps_completed_node_history
#print axioms SafeNet.Props.C02.node_history_sound
#print axioms SafeNet.Props.C02.start_other_id_wipes
#print axioms SafeNet.Props.C02.interrupted_start_other_id
#print axioms SafeNet.Props.C02.other_id_interrupted_then_complete_wipes
#print axioms SafeNet.Props.C02.empty_version_file_wipes
#print axioms SafeNet.Props.C02.unconditional_rewrite_witness
#print axioms SafeNet.Props.C02.restart_keeps_completed_history_partial
#print axioms SafeNet.Props.C02.restart_removed_history_partial
#print axioms SafeNet.Props.C02.restart_sound_faults
#print axioms SafeNet.Props.C02.torn_file_gone_after_restart
#print axioms SafeNet.Props.C02.crash_after_failed_write
#print axioms SafeNet.Props.C02.crash_after_failed_open_keeps_previous
#print axioms SafeNet.Props.C02.same_identity_same_seed
#print axioms SafeNet.Props.C02.other_identity_file_skipped
end SafeNet.Props.C02
