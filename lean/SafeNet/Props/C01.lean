import SafeNet.Proofs.Store
/-!
# C01 — validated records read back byte-exact from a node's store

Statements over `SafeNet.Store` (model of `ant-networking/src/record_store.rs`, tied to the source by
`rs2lean` constants/flags and by the differential run of `drv_store` against the real store).
`run cfg dist ops` is the state after the history `ops` from a fresh store; schedules are part of the
history (`Op.run id`, `Op.deliver id`), restricted only by `legalRun` / `legalDeliver`
(per-key FIFO; tasks of different keys complete in any order).
-/
namespace SafeNet.Props.C01
open SafeNet.Store

/-- **Soundness of reads.** Whatever history and schedule (including crashes and reopenings), a read of
`k` only returns a value that was handed to `put_verified` for that same key; with record encryption
(the shipped configuration) it is the whole value, never a truncated one. -/
theorem get_sound (cfg : Cfg) (dist : Nat → Nat) (ops : List Op) (k : Nat) (r : Read)
    (h : get cfg (run cfg dist ops) k = some r) :
    (∃ rt, Op.put k (readVal r) rt ∈ ops) ∧ (cfg.encrypt = true → ∃ v, r = .whole v) := by
  have hs : Sound (fun k v => ∃ rt, Op.put k v rt ∈ ops) (run cfg dist ops) :=
    Sound.runFrom ops (Sound.init cfg dist) (fun op ho k v rt e => ⟨rt, e ▸ ho⟩)
  exact hs.get h

/-- `get_sound` for the shipped build (constants and feature flag regenerated from the source). -/
theorem get_sound_shipped (maxRecords cacheSize : Nat) (dist : Nat → Nat) (ops : List Op) (k : Nat) (r : Read)
    (h : get (Cfg.shipped maxRecords cacheSize) (run (Cfg.shipped maxRecords cacheSize) dist ops) k = some r) :
    ∃ v rt, r = .whole v ∧ Op.put k v rt ∈ ops := by
  obtain ⟨⟨rt, hp⟩, hw⟩ := get_sound _ dist ops k r h
  obtain ⟨v, rfl⟩ := hw (show Gen.Store.shippedEncrypt = true by decide)
  exact ⟨v, rt, rfl, hp⟩

/-! ## The full settled read-back statement is false of the current code (known finding K-a) -/

/-- nothing in flight -/
def Settled (s : St) : Prop := s.tasks = [] ∧ s.notes = []

/-- The unrestricted statement: in a settled state every listed key is readable. -/
def SettledListedReadable : Prop :=
  ∀ (cfg : Cfg) (dist : Nat → Nat) (ops : List Op) (k : Nat),
    Settled (run cfg dist ops) → contains (run cfg dist ops) k = true → (get cfg (run cfg dist ops) k).isSome

def danglingOps : List Op :=
  [.run 0, .put 1 3 .chunk, .run 1, .deliver 1,      -- put k v1, settled
   .put 1 6 .chunk, .remove 1,                        -- overwrite, then removal while the write is in flight
   .run 2, .run 3, .deliver 2]                        -- write, delete (per-key FIFO), late notification

/-- **K-a.** put k v1; settle; put k v2; remove k; write runs, delete runs, the late
`AddLocalRecordAsStored` is handled ⇒ nothing in flight, `k` listed, unreadable, no file. -/
theorem dangling_index_witness :
    let s := run (Cfg.shipped 4 2) (fun k => k) danglingOps
    s.tasks = [] ∧ s.notes = [] ∧ contains s 1 = true ∧ get (Cfg.shipped 4 2) s 1 = none ∧ lookup 1 s.disk = none := by
  decide

theorem settledListedReadable_false : ¬ SettledListedReadable := by
  intro h
  have w := dangling_index_witness
  have := h (Cfg.shipped 4 2) (fun k => k) danglingOps 1 ⟨w.1, w.2.1⟩ w.2.2.1
  rw [w.2.2.2.1] at this
  exact absurd this (by decide)

/-- non-vacuity: three keys at capacity 2 with an overwrite (key 1), an eviction (key 3 is the farthest
when key 2 arrives) and a removal (key 2), under a schedule that completes the tasks of different keys
out of spawn order; settled at the end: key 1 reads back its latest value, keys 2 and 3 are gone. -/
example :
    let cfg := Cfg.shipped 2 1
    let s := run cfg (fun k => k)
      [.put 1 3 .chunk, .put 3 9 .chunk, .run 2, .run 0, .run 1, .deliver 2, .deliver 1,   -- 1 and 3 stored
       .put 2 12 .chunk, .put 1 6 .chunk,                                                   -- 2 evicts 3; overwrite 1
       .run 5, .run 4, .run 3, .deliver 5, .deliver 4,
       .remove 2, .run 6]
    s.tasks = [] ∧ s.notes = [] ∧ get cfg s 1 = some (.whole 6) ∧ get cfg s 2 = none ∧ get cfg s 3 = none ∧
      s.index = [(1, .chunk)] ∧ keys s.disk = [1] := by
  decide

#print axioms SafeNet.Props.C01.get_sound
#print axioms SafeNet.Props.C01.get_sound_shipped
#print axioms SafeNet.Props.C01.dangling_index_witness
#print axioms SafeNet.Props.C01.settledListedReadable_false
end SafeNet.Props.C01
