import SafeNet.Proofs.StoreSchedule
import SafeNet.Proofs.StoreFault
import SafeNet.Proofs.StoreRelaxed
/-!
# C01 — validated records read back byte-exact from a node's store

Statements over `SafeNet.Store` (model of `ant-networking/src/record_store.rs`, tied to the source by
`rs2lean` constants/flags and by the differential run of `drv_store` against the real store).
`run cfg dist ops` is the state after the history `ops` from a fresh store; schedules are part of the
history (`Op.run id`, `Op.deliver id`), restricted only by `legalRun` / `legalDeliver`
(per-key FIFO; tasks of different keys complete in any order).

Which hypotheses each theorem carries:
* none (full strength, every history, schedule, crash, disk fault): `get_sound`, `get_sound_faults`,
  `failed_write_removes_key`, `no_notification_lost`, `put_local_record_types`;
* `NoRemoveWhileInFlight` (no removal / eviction / clean-up of a key while a write or notification of it is pending, no
  restart) AND per-key FIFO completion (`legalRun` / `legalDeliver`, built into `Op.run` / `Op.deliver`):
  `settled_readback` = `settled_readback_partial`, `settled_readback_all` = `settled_readback_all_partial`;
* additionally `BelowCapacity`: `schedule_independent_partial`;
* `settled_readback_faults_partial` (`NoWriteFault`) and `settled_readback_anyorder_partial` (`PerKeyFifo`) are WEAK: the
  hypothesis is that the WHOLE history contains no failing write / no `runAny` at all, and under it each is
  `settled_readback` restated on the embedded base history (`frun_base` / `rrun_base`). Neither says anything about a
  history with even one fault, or one out-of-order completion, on ANOTHER key. The per-key statements ("no fault / no
  `runAny` on a task of key k, no removal of k in flight ⇒ the read-back conclusion for k") are OPEN: `KeyInv` is a
  global invariant and has not been carried over to `fstep` / `rstep`. What IS proved about histories that do contain
  faults: `get_sound_faults`, `failed_write_removes_key` (any start state), `views_agree_faults`,
  `capacity_bound_partial_faults`, `restart_sound_faults`.
Refuted full statements: `SettledListedReadable` (K-a), `ScheduleIndependent` (at capacity), `SettledReadbackFaults`
(a failed overwrite destroys the previous version too), `SettledReadbackAnyOrder` (same-key completion order, K-a2).
-/
namespace SafeNet.Props.C01
open SafeNet.Store

/-- **Soundness of reads.** Whatever history and schedule (including crashes and reopenings), a read of
`k` only returns a value that was handed to `put_verified` for that same key; with record encryption
(the shipped configuration) it is the whole value, never a truncated one. -/
theorem get_sound (cfg : Cfg) (dist : Nat → Nat) (ops : List Op) (k : Nat) (r : Read)
    (h : get cfg (run cfg dist ops) k = some r) :
    (∃ rt, Op.put k (readVal r) rt ∈ ops) ∧ (cfg.encrypt = true → ∃ v, r = .whole v) := by
  have hs : Sound (fun k v => ∃ rt, Op.put k v rt ∈ ops) (run cfg dist ops) :=
    Sound.runFrom ops (Sound.init cfg dist) (fun op ho k v rt e => ⟨rt, e ▸ ho⟩)
  exact hs.get h

/-- `get_sound` for the shipped build (constants and feature flag regenerated from the source). -/
theorem get_sound_shipped (maxRecords cacheSize : Nat) (dist : Nat → Nat) (ops : List Op) (k : Nat) (r : Read)
    (h : get (Cfg.shipped maxRecords cacheSize) (run (Cfg.shipped maxRecords cacheSize) dist ops) k = some r) :
    ∃ v rt, r = .whole v ∧ Op.put k v rt ∈ ops := by
  obtain ⟨⟨rt, hp⟩, hw⟩ := get_sound _ dist ops k r h
  obtain ⟨v, rfl⟩ := hw (show Gen.Store.shippedEncrypt = true by decide)
  exact ⟨v, rt, rfl, hp⟩

/-! ## The full settled read-back statement is false of the current code (known finding K-a) -/

/-- nothing in flight -/
def Settled (s : St) : Prop := s.tasks = [] ∧ s.notes = []

/-- The unrestricted statement: in a settled state every listed key is readable. -/
def SettledListedReadable : Prop :=
  ∀ (cfg : Cfg) (dist : Nat → Nat) (ops : List Op) (k : Nat),
    Settled (run cfg dist ops) → contains (run cfg dist ops) k = true → (get cfg (run cfg dist ops) k).isSome

def danglingOps : List Op :=
  [.run 0, .put 1 3 .chunk, .run 1, .deliver 1,      -- put k v1, settled
   .put 1 6 .chunk, .remove 1,                        -- overwrite, then removal while the write is in flight
   .run 2, .run 3, .deliver 2]                        -- write, delete (per-key FIFO), late notification

/-- **K-a.** put k v1; settle; put k v2; remove k; write runs, delete runs, the late
`AddLocalRecordAsStored` is handled ⇒ nothing in flight, `k` listed, unreadable, no file. -/
theorem dangling_index_witness :
    let s := run (Cfg.shipped 4 2) (fun k => k) danglingOps
    s.tasks = [] ∧ s.notes = [] ∧ contains s 1 = true ∧ get (Cfg.shipped 4 2) s 1 = none ∧ lookup 1 s.disk = none := by
  decide

theorem settledListedReadable_false : ¬ SettledListedReadable := by
  intro h
  have w := dangling_index_witness
  have := h (Cfg.shipped 4 2) (fun k => k) danglingOps 1 ⟨w.1, w.2.1⟩ w.2.2.1
  rw [w.2.2.2.1] at this
  exact absurd this (by decide)

/-! ## Settled read-back under `NoRemoveWhileInFlight`

`lastEvent cfg dist ops k` is the last store-changing event on `k` in the history: `some (v, rt, i)` when it
is an accepted `put_verified k v rt` (a write task, id `i`, was spawned), `none` when it is a removal
(explicit `remove`, eviction by `prune_records_if_needed`, clean-up — a delete task was spawned) or when
`k` was never stored.  Refused puts and puts answered by the cache-equality early return spawn nothing
and are no events.  `NoRemoveWhileInFlight` (the named hypothesis; without it K-a refutes the statement):
no step removes a key while a write or a notification of that key is pending, and the node does not stop. -/

/-- **Settled read-back.** For every history and every legal schedule satisfying `NoRemoveWhileInFlight`,
and every key with nothing pending (no write, delete or notification of `k`; tasks of *other* keys may
still be pending in any order): if the last store-changing event on `k` is an accepted put of `v` with
type `rt`, then `get k` returns exactly `v`, `k` is listed with `rt` and its file holds `v`; if it is a
removal (or `k` was never stored), `k` is not readable, not listed and has no file. -/
theorem settled_readback (cfg : Cfg) (dist : Nat → Nat) (ops : List Op)
    (hn : NoRemoveWhileInFlight cfg dist (init cfg dist) ops) (k : Nat) (hq : KeyQuiet (run cfg dist ops) k) :
    match lastEvent cfg dist ops k with
    | some (v, rt, _) =>
      get cfg (run cfg dist ops) k = some (.whole v) ∧ lookup k (run cfg dist ops).index = some rt ∧
        lookup k (run cfg dist ops).disk = some (.full v)
    | none =>
      get cfg (run cfg dist ops) k = none ∧ lookup k (run cfg dist ops).index = none ∧
        lookup k (run cfg dist ops).disk = none :=
  (KeyInv.run cfg dist ops hn).readback cfg k hq

theorem keyQuiet_of_settled {s : St} (h : Settled s) (k : Nat) : KeyQuiet s k := by
  obtain ⟨ht, hn⟩ := h
  refine ⟨?_, ?_, ?_⟩
  · rintro ⟨i, v, rt, hm⟩; rw [ht] at hm; cases hm
  · rintro ⟨i, rt, hm⟩; rw [hn] at hm; cases hm
  · rintro ⟨j, hm⟩; rw [ht] at hm; cases hm

/-- `settled_readback` for a settled store (nothing in flight at all): every key at once. -/
theorem settled_readback_all (cfg : Cfg) (dist : Nat → Nat) (ops : List Op)
    (hn : NoRemoveWhileInFlight cfg dist (init cfg dist) ops) (hs : Settled (run cfg dist ops)) (k : Nat) :
    match lastEvent cfg dist ops k with
    | some (v, rt, _) =>
      get cfg (run cfg dist ops) k = some (.whole v) ∧ lookup k (run cfg dist ops).index = some rt
    | none => get cfg (run cfg dist ops) k = none ∧ contains (run cfg dist ops) k = false := by
  have h := settled_readback cfg dist ops hn k (keyQuiet_of_settled hs k)
  cases hw : lastEvent cfg dist ops k with
  | none => rw [hw] at h; exact ⟨h.1, by simp [contains, h.2.1]⟩
  | some p => obtain ⟨v, rt, i⟩ := p; rw [hw] at h; exact ⟨h.1, h.2.1⟩

/-! ## Schedule independence

Two histories are *schedules of the same operation list* when they have the same store operations
(`storeOps`: everything except `run` / `deliver`) — they differ only in when spawned tasks complete and
when notifications are handled.  -/

/-- The unrestricted statement: two legal schedules of the same operation list, both settled, both without a
removal in flight, list the same keys. -/
def ScheduleIndependent : Prop :=
  ∀ (cfg : Cfg) (dist : Nat → Nat) (ops1 ops2 : List Op), storeOps ops1 = storeOps ops2 →
    NoRemoveWhileInFlight cfg dist (init cfg dist) ops1 → NoRemoveWhileInFlight cfg dist (init cfg dist) ops2 →
    Settled (run cfg dist ops1) → Settled (run cfg dist ops2) →
    ∀ k, contains (run cfg dist ops1) k = contains (run cfg dist ops2) k

def ackedOps : List Op :=
  [.run 0, .put 1 3 .chunk, .run 1, .deliver 1, .put 2 6 .chunk, .run 2, .deliver 2,
   .put 3 9 .chunk, .run 3, .deliver 3]
def burstOps : List Op :=
  [.run 0, .put 1 3 .chunk, .put 2 6 .chunk, .put 3 9 .chunk, .run 1, .run 2, .run 3,
   .deliver 1, .deliver 2, .deliver 3]

/-- At capacity the settled state depends on the schedule (the mechanism of K-h): capacity 2, three puts;
acknowledged one by one the third put is refused (key 3 is the farthest), as a burst all three are
accepted and listed. Same store operations, both settled, no removal in flight in either. -/
theorem schedule_dependent_at_capacity_witness :
    let cfg := Cfg.shipped 2 5
    let d : Nat → Nat := fun k => k
    storeOps ackedOps = storeOps burstOps ∧
    nrwifB cfg d (init cfg d) ackedOps = true ∧ nrwifB cfg d (init cfg d) burstOps = true ∧
    (run cfg d ackedOps).tasks = [] ∧ (run cfg d ackedOps).notes = [] ∧
    (run cfg d burstOps).tasks = [] ∧ (run cfg d burstOps).notes = [] ∧
    contains (run cfg d ackedOps) 3 = false ∧ contains (run cfg d burstOps) 3 = true := by
  decide

theorem scheduleIndependent_false : ¬ ScheduleIndependent := by
  intro h
  have w := schedule_dependent_at_capacity_witness
  simp only at w
  obtain ⟨w1, w2, w3, w4, w5, w6, w7, w8, w9⟩ := w
  have := h (Cfg.shipped 2 5) (fun k => k) ackedOps burstOps w1 (nrwifB_sound _ _ _ _ w2) (nrwifB_sound _ _ _ _ w3)
    ⟨w4, w5⟩ ⟨w6, w7⟩ 3
  rw [w8, w9] at this
  exact absurd this (by decide)

/-- **Schedule independence (partial).** Missing hypothesis of the full statement: `BelowCapacity` — every put
finds fewer than `max_records` records listed and no clean-up applies, in both schedules (at capacity the
accept / evict decision depends on which notifications have been handled, see the witness above).
Then any two legal schedules of the same operation list that remove nothing in flight agree on every key
that has nothing pending in either: same read result, same listing, same file. -/
theorem schedule_independent_partial (cfg : Cfg) (dist : Nat → Nat) (ops1 ops2 : List Op)
    (hsame : storeOps ops1 = storeOps ops2)
    (hn1 : NoRemoveWhileInFlight cfg dist (init cfg dist) ops1)
    (hn2 : NoRemoveWhileInFlight cfg dist (init cfg dist) ops2)
    (hb1 : BelowCapacity cfg dist (init cfg dist) ops1) (hb2 : BelowCapacity cfg dist (init cfg dist) ops2)
    (k : Nat) (hq1 : KeyQuiet (run cfg dist ops1) k) (hq2 : KeyQuiet (run cfg dist ops2) k) :
    get cfg (run cfg dist ops1) k = get cfg (run cfg dist ops2) k ∧
    lookup k (run cfg dist ops1).index = lookup k (run cfg dist ops2).index ∧
    lookup k (run cfg dist ops1).disk = lookup k (run cfg dist ops2).disk := by
  have he := lastEvent_schedule_independent cfg dist ops1 ops2 hsame hb1 hb2
  have h1 := settled_readback cfg dist ops1 hn1 k hq1
  have h2 := settled_readback cfg dist ops2 hn2 k hq2
  rw [he] at h1
  cases hw : lastEvent cfg dist ops2 k with
  | none =>
    rw [hw] at h1 h2
    exact ⟨h1.1.trans h2.1.symm, h1.2.1.trans h2.2.1.symm, h1.2.2.trans h2.2.2.symm⟩
  | some p =>
    obtain ⟨v, rt, i⟩ := p
    rw [hw] at h1 h2
    exact ⟨h1.1.trans h2.1.symm, h1.2.1.trans h2.2.1.symm, h1.2.2.trans h2.2.2.symm⟩

/-- non-vacuity of `schedule_independent_partial`: two interleavings of the same three store operations
below capacity (one completes the tasks of different keys out of spawn order), both satisfying the
hypotheses -/
example :
    let cfg := Cfg.shipped 4 2
    let d : Nat → Nat := fun k => k
    let a : List Op := [.put 1 3 .chunk, .put 2 6 .chunk, .run 1, .deliver 1, .run 2, .deliver 2, .remove 1, .run 3, .run 0]
    let b : List Op := [.put 1 3 .chunk, .run 0, .put 2 6 .chunk, .run 2, .run 1, .deliver 2, .deliver 1, .remove 1, .run 3]
    storeOps a = storeOps b ∧ nrwifB cfg d (init cfg d) a = true ∧ nrwifB cfg d (init cfg d) b = true ∧
      (run cfg d a).tasks = [] ∧ (run cfg d b).tasks = [] ∧ get cfg (run cfg d a) 2 = some (.whole 6) := by
  decide

/-! ## the command handlers in front of the store (cmd.rs) -/

/-- The `PutLocalRecord` handler's header → record-type mapping, regenerated from its `match` (wire tags from
`RecordKind`'s serializer): Chunk ↦ Chunk, Transaction / Register ↦ NonChunk(content hash), Scratchpad ↦ Scratchpad,
every kind that still carries a payment is refused. The model's `putLocalRecordType` reads this table, and component
`store_cmd` runs the real handler against it. -/
theorem put_local_record_types :
    Gen.Store.localPutTable =
      [(0, none), (1, some 0), (2, some 2), (3, some 2), (4, none), (5, some 1), (6, none), (7, none)] ∧
    putLocalRecordType 3 = some .chunk ∧ putLocalRecordType 4 = some (.nonChunk (.whole 4)) ∧
    putLocalRecordType 7 = some .scratchpad ∧ putLocalRecordType 10 = none ∧ putLocalRecordType 2 = none := by
  decide

/-- **No completion notification is lost.** `send_local_swarm_cmd` spawns a task that awaits room on the local
command channel (regenerated: `notificationSenderWaits`), so the channel's capacity is no part of the model: a
write task that runs always leaves its `AddLocalRecordAsStored` pending, every other pending notification stays,
and handling one notification removes only that one. -/
theorem no_notification_lost (dist : Nat → Nat) (s : St) (id k v : Nat) (rt : RType)
    (ht : lookup id s.tasks = some (.write k v rt)) (hl : legalRun s.tasks id (.write k v rt) = true) :
    Gen.Store.notificationSenderWaits = true ∧
    (id, (⟨k, rt⟩ : Note)) ∈ (runTask s id).1.notes ∧ (∀ n ∈ s.notes, n ∈ (runTask s id).1.notes) ∧
    (∀ id' n, n ∈ s.notes → n.1 ≠ id' → n ∈ (deliver dist s id').1.notes) := by
  refine ⟨by decide, ?_, ?_, ?_⟩
  · simp [runTask, ht, hl]
  · intro n hn; simp [runTask, ht, hl, hn]
  · intro id' n hn hne
    unfold deliver
    split
    · exact hn
    · split
      · exact mem_erase.mpr ⟨hn, hne⟩
      · exact hn

/-- non-vacuity: three keys at capacity 2 with an overwrite (key 1), an eviction (key 3 is the farthest
when key 2 arrives) and a removal (key 2), under a schedule that completes the tasks of different keys
out of spawn order; settled at the end: key 1 reads back its latest value, keys 2 and 3 are gone. -/
example :
    let cfg := Cfg.shipped 2 1
    let s := run cfg (fun k => k)
      [.put 1 3 .chunk, .put 3 9 .chunk, .run 2, .run 0, .run 1, .deliver 2, .deliver 1,   -- 1 and 3 stored
       .put 2 12 .chunk, .put 1 6 .chunk,                                                   -- 2 evicts 3; overwrite 1
       .run 5, .run 4, .run 3, .deliver 5, .deliver 4,
       .remove 2, .run 6]
    s.tasks = [] ∧ s.notes = [] ∧ get cfg s 1 = some (.whole 6) ∧ get cfg s 2 = none ∧ get cfg s 3 = none ∧
      s.index = [(1, .chunk)] ∧ keys s.disk = [1] := by
  decide

/-- the history of the example above satisfies `NoRemoveWhileInFlight` (key 3 is evicted and key 2 removed
only after their notifications were handled), and its last events are: key 1 ↦ put of 6, keys 2, 3 ↦ removal -/
example :
    let cfg := Cfg.shipped 2 1
    let ops : List Op :=
      [.put 1 3 .chunk, .put 3 9 .chunk, .run 2, .run 0, .run 1, .deliver 2, .deliver 1,
       .put 2 12 .chunk, .put 1 6 .chunk, .run 5, .run 4, .run 3, .deliver 5, .deliver 4, .remove 2, .run 6]
    NoRemoveWhileInFlight cfg (fun k => k) (init cfg (fun k => k)) ops ∧
      lastEvent cfg (fun k => k) ops 1 = some (6, .chunk, 5) ∧ lastEvent cfg (fun k => k) ops 2 = none ∧
      lastEvent cfg (fun k => k) ops 3 = none :=
  ⟨nrwifB_sound _ _ _ _ (by decide), by decide, by decide, by decide⟩

/-- K-a's history violates the hypothesis: key 1 is removed while its overwrite is in flight -/
example : nrwifB (Cfg.shipped 4 2) (fun k => k) (init (Cfg.shipped 4 2) (fun k => k)) danglingOps = false := by decide

/-! ## correctly named aliases: the theorems above that carry `NoRemoveWhileInFlight` (and per-key FIFO) -/

theorem settled_readback_partial (cfg : Cfg) (dist : Nat → Nat) (ops : List Op)
    (hn : NoRemoveWhileInFlight cfg dist (init cfg dist) ops) (k : Nat) (hq : KeyQuiet (run cfg dist ops) k) :
    match lastEvent cfg dist ops k with
    | some (v, rt, _) =>
      get cfg (run cfg dist ops) k = some (.whole v) ∧ lookup k (run cfg dist ops).index = some rt ∧
        lookup k (run cfg dist ops).disk = some (.full v)
    | none =>
      get cfg (run cfg dist ops) k = none ∧ lookup k (run cfg dist ops).index = none ∧
        lookup k (run cfg dist ops).disk = none :=
  settled_readback cfg dist ops hn k hq

theorem settled_readback_all_partial (cfg : Cfg) (dist : Nat → Nat) (ops : List Op)
    (hn : NoRemoveWhileInFlight cfg dist (init cfg dist) ops) (hs : Settled (run cfg dist ops)) (k : Nat) :
    match lastEvent cfg dist ops k with
    | some (v, rt, _) =>
      get cfg (run cfg dist ops) k = some (.whole v) ∧ lookup k (run cfg dist ops).index = some rt
    | none => get cfg (run cfg dist ops) k = none ∧ contains (run cfg dist ops) k = false :=
  settled_readback_all cfg dist ops hn hs k

/-! ## the disk-write ERROR path (`Model/StoreFault`: `fs::write` fails ⇒ `RemoveFailedLocalRecord` ⇒ `remove`)

`FOp.runFail id f`: write task `id` runs with fault `f` — `openFail` (nothing created or truncated), `full b` (the
file is the `b`-byte prefix of the new ciphertext; a previous complete version is destroyed), `encryptFail` (no command
at all). File states as measured on the real code (harness op `runfail`, RLIMIT_NOFILE / RLIMIT_FSIZE). -/

/-- **Soundness of reads with failing writes.** Whatever history, schedule, crashes and disk faults: a read of `k`
returns only a value handed to `put_verified` for `k`, and with record encryption the whole value — a torn or empty file
left by a failed write is never served (it fails to decrypt: `readFile`, the AEAD abstraction of C02), also after the
cache entry of the unpersisted value was evicted. -/
theorem get_sound_faults (cfg : Cfg) (dist : Nat → Nat) (fops : List FOp) (k : Nat) (r : Read)
    (h : get cfg (frun cfg dist fops).s k = some r) :
    (∃ rt, FOp.base (.put k (readVal r) rt) ∈ fops) ∧ (cfg.encrypt = true → ∃ v, r = .whole v) := by
  have hs : Sound (fun k v => ∃ rt, FOp.base (.put k v rt) ∈ fops) (frun cfg dist fops).s :=
    Sound.frunFrom fops (Sound.init cfg dist) (fun op ho k v rt e => ⟨rt, e ▸ ho⟩)
  exact hs.get h

/-- **A failed write removes the key.** From ANY state in which write task `id` of key `k` may run and nothing else of
`k` is pending: the write fails (at the open, or after `b` bytes). Until `RemoveFailedLocalRecord` is handled the index
and the cache are untouched — the cache keeps serving the value that never reached the disk (and a repeated put of it is
answered Ok by the cache-equality early return), for as long as the entry is not evicted and the command not handled.
Once the command is handled the key is neither listed nor cached nor readable; once the file delete the handler
spawned has run there is no file either. -/
theorem failed_write_removes_key (cfg : Cfg) (dist : Nat → Nat) (fs : FSt) (id k v : Nat) (rt : RType) (f : Fault)
    (ht : lookup id fs.s.tasks = some (.write k v rt)) (hl : legalRun fs.s.tasks id (.write k v rt) = true)
    (hb : f.bites cfg v) (hne : f ≠ .encryptFail)
    (hnotes : ∀ e ∈ fs.s.notes, e.1 ≠ id ∧ e.2.k ≠ k)
    (htasks : ∀ e ∈ fs.s.tasks, e.1 < fs.s.nextId ∧ (e.1 ≠ id → taskKey e.2 ≠ some k)) :
    let fs1 := (runFail cfg fs id f).1
    let fs2 := (fdeliver dist fs1 id).1
    let s3 := (runTask fs2.s fs.s.nextId).1
    (runFail cfg fs id f).2 = .ranFail ∧ fs1.s.cache = fs.s.cache ∧ fs1.s.index = fs.s.index ∧
    (fdeliver dist fs1 id).2 = .ok ∧ get cfg fs2.s k = none ∧ contains fs2.s k = false ∧
    (runTask fs2.s fs.s.nextId).2 = .ran ∧
    get cfg s3 k = none ∧ contains s3 k = false ∧ lookup k s3.disk = none :=
  failed_write_chain cfg dist fs id k v rt f ht hl hb hne hnotes htasks

/-- the history with every failing write replaced by the same write succeeding -/
def eraseFault : FOp → Op
  | .base op => op
  | .runFail id _ => .run id

/-- The settled read-back statement read literally with failing writes ("every accepted validated write is readable
once settled": a put whose write later failed WAS accepted with Ok): the history with faults settles to what the last
accepted put says. FALSE of the code, and of any store — a write that failed cannot be readable; what is specific to
this code is that the failed OVERWRITE also destroys the previous complete version (`fs::write` truncates first, and
the handler removes the key altogether). -/
def SettledReadbackFaults : Prop :=
  ∀ (cfg : Cfg) (dist : Nat → Nat) (fops : List FOp),
    NoRemoveWhileInFlight cfg dist (init cfg dist) (fops.map eraseFault) →
    ∀ k, KeyQuiet (frun cfg dist fops).s k → (frun cfg dist fops).failed = [] →
    match lastEvent cfg dist (fops.map eraseFault) k with
    | some (v, _, _) => get cfg (frun cfg dist fops).s k = some (.whole v)
    | none => get cfg (frun cfg dist fops).s k = none

def failedOverwriteOps : List FOp :=
  [.base (.put 1 3 .chunk), .base (.run 1), .base (.deliver 1),   -- v1 stored and acknowledged
   .base (.put 1 6 .chunk), .runFail 2 (.full 5),                 -- the overwrite fails after 5 bytes
   .base (.deliver 2), .base (.run 3)]                            -- RemoveFailedLocalRecord handled, file delete ran

/-- **Witness (replayed on the real store, corpus `write_fault_corpus`).** v1 stored and acknowledged; the overwrite
with v2 is accepted (Ok) and fails after 5 bytes: the file is a 5-byte prefix (v1 is gone), the cache serves v2, the
key is still listed; after the failure is handled and everything settled: nothing pending, the key not listed, no file,
`get` = none — neither the accepted v2 nor the previously complete v1 is readable. -/
theorem failed_overwrite_witness :
    let cfg := Cfg.shipped 4 1
    let d : Nat → Nat := fun k => k
    let mid := frun cfg d (failedOverwriteOps.take 5)
    let fin := frun cfg d failedOverwriteOps
    lookup 1 mid.s.disk = some (.torn 6 5) ∧ get cfg mid.s 1 = some (.whole 6) ∧ contains mid.s 1 = true ∧
    (putVerified cfg d mid.s 1 6 .chunk).2 = .dedup ∧
    fin.s.tasks = [] ∧ fin.s.notes = [] ∧ fin.failed = [] ∧
    get cfg fin.s 1 = none ∧ contains fin.s 1 = false ∧ lookup 1 fin.s.disk = none ∧
    lastEvent cfg d (failedOverwriteOps.map eraseFault) 1 = some (6, .chunk, 2) ∧
    nrwifB cfg d (init cfg d) (failedOverwriteOps.map eraseFault) = true := by
  decide

theorem settledReadbackFaults_false : ¬ SettledReadbackFaults := by
  intro h
  have w := failed_overwrite_witness
  simp only at w
  obtain ⟨_, _, _, _, w5, w6, w7, w8, _, _, w11, w12⟩ := w
  have hq : KeyQuiet (frun (Cfg.shipped 4 1) (fun k => k) failedOverwriteOps).s 1 := keyQuiet_of_settled ⟨w5, w6⟩ 1
  have := h (Cfg.shipped 4 1) (fun k => k) failedOverwriteOps (nrwifB_sound _ _ _ _ w12) 1 hq w7
  rw [w11] at this
  simp only at this
  rw [w8] at this
  exact absurd this (by decide)

/-- no spawned write fails: the history is a history of the base model -/
def NoWriteFault (fops : List FOp) (ops : List Op) : Prop := fops = ops.map .base

/-- **Settled read-back with the error path in the model (partial — a restatement).** Missing hypothesis of
`SettledReadbackFaults`: `NoWriteFault`, which is GLOBAL (not one write of ANY key fails). Under it the fault history is
the embedding of a base history (`frun_base`) and this is `settled_readback_partial` verbatim (carrying
`NoRemoveWhileInFlight` and per-key FIFO); the conjunct `failed = []` is by `rfl`. It proves nothing about a history in
which a write of another key failed. OPEN (not proved): the per-key form — no failing write of a task of key `k`, no
removal of `k` in flight (handling another key's `RemoveFailedLocalRecord` is a removal of that other key only) ⇒ the
read-back conclusion for `k`; it needs `KeyInv` re-proved over `fstep`. -/
theorem settled_readback_faults_partial (cfg : Cfg) (dist : Nat → Nat) (fops : List FOp) (ops : List Op)
    (hnf : NoWriteFault fops ops) (hn : NoRemoveWhileInFlight cfg dist (init cfg dist) ops) (k : Nat)
    (hq : KeyQuiet (frun cfg dist fops).s k) :
    (frun cfg dist fops).failed = [] ∧
    match lastEvent cfg dist ops k with
    | some (v, rt, _) =>
      get cfg (frun cfg dist fops).s k = some (.whole v) ∧ lookup k (frun cfg dist fops).s.index = some rt ∧
        lookup k (frun cfg dist fops).s.disk = some (.full v)
    | none =>
      get cfg (frun cfg dist fops).s k = none ∧ lookup k (frun cfg dist fops).s.index = none ∧
        lookup k (frun cfg dist fops).s.disk = none := by
  unfold NoWriteFault at hnf
  subst hnf
  rw [frun_base] at hq ⊢
  exact ⟨rfl, settled_readback cfg dist ops hn k hq⟩

/-- non-vacuity of `failed_write_removes_key`'s hypotheses and of the window it describes, with tasks of another key
interleaved: key 2's write completes between the failure and its handling -/
example :
    let cfg := Cfg.shipped 4 2
    let d : Nat → Nat := fun k => k
    let fs := frun cfg d [.base (.put 1 3 .chunk), .base (.put 2 9 .chunk), .runFail 1 .openFail, .base (.run 2),
      .base (.deliver 2)]
    get cfg fs.s 1 = some (.whole 3) ∧ contains fs.s 1 = false ∧ fs.failed = [1] ∧
    (let fs' := frunFrom cfg d fs [.base (.deliver 1), .base (.run 3)]
     get cfg fs'.s 1 = none ∧ get cfg fs'.s 2 = some (.whole 9) ∧ fs'.s.tasks = [] ∧ fs'.s.notes = []) := by
  decide

/-! ## same-key completion order (K-a2)

Every theorem above that mentions a schedule assumes PER-KEY FIFO: `Op.run id` is legal only for the oldest pending task
of its key (`legalRun`). The property's quantifier is wider ("all completion orders of the store's spawned disk-write,
file-delete and completion-notification tasks"), and the shipped runtime gives no such guarantee: on tokio's multi-thread
runtime (antnode: `Runtime::new()`) a task spawned from a worker takes the worker's LIFO slot, so of two tasks spawned
back to back the SECOND runs first — measured on the real store with the harness op `lifo` (tokio's own order, nothing
forced). `RelaxedOp.runAny id` is that freedom in the model (a separate legality; the theorems above are untouched). -/

/-- `settled_readback`'s statement over histories in which same-key tasks may complete in any order. FALSE. -/
def SettledReadbackAnyOrder : Prop :=
  ∀ (cfg : Cfg) (dist : Nat → Nat) (rops : List RelaxedOp),
    RNoRemoveWhileInFlight cfg dist (init cfg dist) rops → ∀ k, KeyQuiet (rrun cfg dist rops) k →
    match rlastEvent cfg dist rops k with
    | some (v, rt, _) =>
      get cfg (rrun cfg dist rops) k = some (.whole v) ∧ lookup k (rrun cfg dist rops).index = some rt ∧
        lookup k (rrun cfg dist rops).disk = some (.full v)
    | none =>
      get cfg (rrun cfg dist rops) k = none ∧ lookup k (rrun cfg dist rops).index = none ∧
        lookup k (rrun cfg dist rops).disk = none

/-- (a) `put k v1; put k v2` back to back; the second write completes first (LIFO slot), then the first: the file ends
with v1. Key 2 is stored afterwards, which pushes key 1 out of the one-entry cache. -/
def staleOverwriteOps : List RelaxedOp :=
  [.base (.put 1 4 (.nonChunk (.whole 4))), .base (.put 1 7 (.nonChunk (.whole 7))), .runAny 2, .runAny 1,
   .base (.deliver 2), .base (.deliver 1), .base (.put 2 9 .chunk), .base (.run 3), .base (.deliver 3)]

/-- **K-a2 (a).** Nothing removed, nothing in flight at the end, the last accepted put of key 1 wrote value 7 — the
settled store serves value 4 (an older accepted put; `get_sound` holds) and lists the key with the OLDER record type. -/
theorem stale_overwrite_witness :
    let cfg := Cfg.shipped 4 1
    let d : Nat → Nat := fun k => k
    let s := rrun cfg d staleOverwriteOps
    rnrwifB cfg d (init cfg d) staleOverwriteOps = true ∧ s.tasks = [] ∧ s.notes = [] ∧
    rlastEvent cfg d staleOverwriteOps 1 = some (7, .nonChunk (.whole 7), 2) ∧
    get cfg s 1 = some (.whole 4) ∧ lookup 1 s.index = some (.nonChunk (.whole 4)) ∧
    lookup 1 s.disk = some (.full 4) := by
  decide

/-- (b) capacity 1, key 1 held (so it is the farthest held record); an update of key 1: `prune_records_if_needed` evicts
key 1 itself — index entry and the just-pushed cache entry erased, `remove_file` spawned — then `put_verified` spawns the
write; the write runs before the delete (LIFO slot); the late `AddLocalRecordAsStored` lists the key. -/
def selfEvictionOps : List RelaxedOp :=
  [.base (.put 1 3 .chunk), .base (.run 1), .base (.deliver 1),
   .base (.put 1 6 .chunk), .runAny 3, .runAny 2, .base (.deliver 3)]

/-- **K-a2 (b).** No separate remove call (this is not K-a: the history satisfies `NoRemoveWhileInFlight`): the update
returned Ok, nothing is in flight, the key is listed, its file is gone, `get` returns nothing. -/
theorem self_eviction_witness :
    let cfg := Cfg.shipped 1 2
    let d : Nat → Nat := fun k => k
    let s := rrun cfg d selfEvictionOps
    (putVerified cfg d (rrun cfg d (selfEvictionOps.take 3)) 1 6 .chunk).2 = .ok ∧
    rnrwifB cfg d (init cfg d) selfEvictionOps = true ∧ s.tasks = [] ∧ s.notes = [] ∧
    rlastEvent cfg d selfEvictionOps 1 = some (6, .chunk, 3) ∧
    contains s 1 = true ∧ get cfg s 1 = none ∧ lookup 1 s.disk = none := by
  decide

theorem settledReadbackAnyOrder_false : ¬ SettledReadbackAnyOrder := by
  intro h
  have w := stale_overwrite_witness
  simp only at w
  obtain ⟨w1, w2, w3, w4, w5, _, _⟩ := w
  have := h (Cfg.shipped 4 1) (fun k => k) staleOverwriteOps (rnrwifB_sound _ _ _ _ w1) 1 (keyQuiet_of_settled ⟨w2, w3⟩ 1)
  rw [w4] at this
  simp only at this
  rw [w5] at this
  exact absurd this.1 (by decide)

/-- per-key FIFO: the relaxed history uses no `runAny` -/
def PerKeyFifo (rops : List RelaxedOp) (ops : List Op) : Prop := rops = ops.map .base

/-- **Settled read-back over relaxed histories (partial — a restatement).** Missing hypothesis of
`SettledReadbackAnyOrder`: `PerKeyFifo`, which is GLOBAL (no `runAny` at all). Under it the relaxed history is the
embedding of a base history (`rrun_base`, `rlastEvent_base`) and this is `settled_readback_partial` verbatim. It proves
nothing about a history in which tasks of ANOTHER key completed out of order. OPEN (not proved): the per-key form — every
`runAny id` in the history is on a task of a key other than `k` (or is the oldest pending task of its key) ⇒ the
read-back conclusion for `k`; it needs `KeyInv` re-proved over `rstep`. -/
theorem settled_readback_anyorder_partial (cfg : Cfg) (dist : Nat → Nat) (rops : List RelaxedOp) (ops : List Op)
    (hf : PerKeyFifo rops ops) (hn : NoRemoveWhileInFlight cfg dist (init cfg dist) ops) (k : Nat)
    (hq : KeyQuiet (rrun cfg dist rops) k) :
    match rlastEvent cfg dist rops k with
    | some (v, rt, _) =>
      get cfg (rrun cfg dist rops) k = some (.whole v) ∧ lookup k (rrun cfg dist rops).index = some rt ∧
        lookup k (rrun cfg dist rops).disk = some (.full v)
    | none =>
      get cfg (rrun cfg dist rops) k = none ∧ lookup k (rrun cfg dist rops).index = none ∧
        lookup k (rrun cfg dist rops).disk = none := by
  unfold PerKeyFifo at hf
  subst hf
  rw [rrun_base] at hq ⊢
  rw [rlastEvent_base]
  exact settled_readback cfg dist ops hn k hq

/-- the worker's order for the tasks of one burst of calls: last spawned first, then spawn order (harness op `lifo`) -/
example : lifoOrder [1, 2] = [2, 1] ∧ lifoOrder [4, 5, 6] = [6, 4, 5] ∧ lifoOrder [3] = [3] := by decide

#print axioms SafeNet.Props.C01.get_sound
#print axioms SafeNet.Props.C01.settled_readback
#print axioms SafeNet.Props.C01.put_local_record_types
#print axioms SafeNet.Props.C01.no_notification_lost
#print axioms SafeNet.Props.C01.settled_readback_all
#print axioms SafeNet.Props.C01.schedule_independent_partial
#print axioms SafeNet.Props.C01.schedule_dependent_at_capacity_witness
#print axioms SafeNet.Props.C01.scheduleIndependent_false
#print axioms SafeNet.Props.C01.get_sound_shipped
#print axioms SafeNet.Props.C01.dangling_index_witness
#print axioms SafeNet.Props.C01.settledListedReadable_false
#print axioms SafeNet.Props.C01.settled_readback_partial
#print axioms SafeNet.Props.C01.settled_readback_all_partial
#print axioms SafeNet.Props.C01.get_sound_faults
#print axioms SafeNet.Props.C01.failed_write_removes_key
#print axioms SafeNet.Props.C01.failed_overwrite_witness
#print axioms SafeNet.Props.C01.settledReadbackFaults_false
#print axioms SafeNet.Props.C01.settled_readback_faults_partial
#print axioms SafeNet.Props.C01.stale_overwrite_witness
#print axioms SafeNet.Props.C01.self_eviction_witness
#print axioms SafeNet.Props.C01.settledReadbackAnyOrder_false
#print axioms SafeNet.Props.C01.settled_readback_anyorder_partial
end SafeNet.Props.C01
