import SafeNet.Proofs.BootCache
/-!
# C18 — bootstrap cache stays bounded, well-formed and atomically persisted

Statements over `SafeNet.BootCache` (model of `ant-bootstrap/src/{cache_store,lib,config}.rs`), whose constants
and comparators (`MAX_PEERS`, `MAX_ADDRS_PER_PEER`, `ADDR_EXPIRY_DURATION`, `is_reliable`'s `>=`, the expiry `<`,
the two `>` limits, the atomic write) are regenerated from the Rust source into `SafeNet.Gen.BootCache`.
All statements quantify over every configuration `cfg`, every time `now`, every multiaddress shape, every
eviction tie-break `ch` (the hash-map iteration order) and every operation list / interleaving.
-/
namespace SafeNet.Props.C18
open SafeNet.BootCache SafeNet.Gen.BootCache

/-- **Clean-up bounds.** Whatever the cache held, after `perform_cleanup` it holds at most `max_peers` peers
and at most `max_addrs_per_peer` addresses for each of them. -/
theorem cleanup_bounds (cfg : Cfg) (ch : List Nat) (now : Nat) (c : Cache) :
    (cleanup cfg ch now c).length ≤ cfg.maxPeers ∧
    ∀ e ∈ cleanup cfg ch now c, e.2.length ≤ cfg.maxAddrs :=
  cleanup_bounded cfg ch now c

/-- **`add_addr` bounds**, and the bound as an invariant of every reachable state: a store within its limits
stays within them under `add_addr` (any multiaddress); and after any sequence of additions, status updates,
clean-ups, flushes (merges with the file), raw writes, clock ticks and even foreign replacements of the file,
by any number of stores, every store's memory is within the limits, and so is anything `load_cache_data`
returns. -/
theorem add_addr_bounds (cfg : Cfg) (ch : List Nat) (now : Nat) (c : Cache) (ma : Ma)
    (h : Bounded cfg c) : Bounded cfg (addAddr cfg ch now c ma) :=
  addAddr_bounded ma h

/-- The operation lists include flushes whose write FAILS (`Op.flushFail`: disk full, read-only directory) and the periodic
swap of `driver.rs` (`Op.swap`). For `flushFail` the proof needs `flushFailKeepsMemory` (read off `sync_and_flush_to_disk`):
the shape that left the merge `memory ∪ file` behind is NOT bounded — `failed_flush_old_shape_unbounded`. -/
theorem bounds_invariant (s : Sys) (ops : List Op) (h : BoundedSys s) :
    (∀ w ∈ (run s ops).ws, Bounded s.cfg w.mem) ∧
    (∀ ch d, load s.cfg ch (run s ops).now (run s ops).file = some d → Bounded s.cfg d) := by
  constructor
  · have := run_bounded ops s h
    intro w hw
    have h2 := this w hw
    rw [run_cfg] at h2
    exact h2
  · intro ch d hd
    cases hf : (run s ops).file with
    | absent => simp [hf, load] at hd
    | garbage => simp [hf, load] at hd
    | data c =>
      simp only [hf, load, loadCleans, if_true, Option.some.injEq] at hd
      subst hd
      exact cleanup_bounded _ _ _ _

/-- the initial state (empty stores, no file) is within the limits, so `bounds_invariant` applies to every history -/
theorem init_bounded (cfg : Cfg) (n : Nat) : BoundedSys (Sys.init cfg n) := by
  intro w hw
  simp only [Sys.init, List.mem_replicate] at hw
  rw [hw.2]
  exact bounded_nil _

/-- **Well-formedness is an inductive invariant over memory and file.** If every store's memory, everything an
in-flight flush has read, and the file hold only addresses of the shape `ip4/(udp[/quic-v1] | tcp[/ws])/p2p/<peer>`
filed under that peer, then so they do after any sequence of operations of the cache code in any interleaving
(`add_addr` of *any* multiaddress, status update, clean-up, the load half and the commit half of a flush, raw
write), and after foreign replacements of the file by well-formed content or by garbage. -/
theorem wellformed (s : Sys) (ops : List Op) (h : Inv s) (hops : ∀ op ∈ ops, OpOk op) : Inv (run s ops) :=
  run_inv ops s h hops

theorem init_inv (cfg : Cfg) (n : Nat) : Inv (Sys.init cfg n) := by
  refine ⟨?_, by intro c hc; simp [Sys.init] at hc⟩
  intro w hw
  simp only [Sys.init, List.mem_replicate] at hw
  rw [hw.2]
  exact ⟨wf_nil, by intro d hd; simp [Writer.empty] at hd⟩

/-- `add_addr` stores nothing but what `craft_valid_multiaddr` returns, and that is always a dialable shape
carrying the first peer id of the input. -/
theorem craft_dialable (ma out : Ma) (h : craft ma = some out) :
    ∃ k, dialable out = some k ∧ peerOf ma = some k := by
  obtain ⟨k, h1, _, h3⟩ := craft_spec h
  exact ⟨k, h1, h3⟩

/-- **Clean-up drops expired and unreliable addresses.** After `perform_cleanup` no address has more failures
than successes, none was last seen `addr_expiry_duration` or longer ago, none lies in the future. -/
theorem cleanup_drops_expired_and_unreliable (cfg : Cfg) (ch : List Nat) (now : Nat) (c : Cache) :
    ∀ e ∈ cleanup cfg ch now c, ∀ a ∈ e.2, ¬ (a.fail > a.succ) ∧ a.seen ≤ now ∧ now - a.seen < cfg.expiry := by
  intro e he a ha
  obtain ⟨_, _, _, _, hall⟩ := cleanup_mem he
  have hk := (hall a ha).2
  simp only [keep, reliableCmp, notExpiredCmp, Bool.and_eq_true, decide_eq_true_eq] at hk
  exact ⟨by omega, hk.2.1, hk.2.2⟩

/-- …and clean-up only removes: every surviving address was there before, under the same peer. -/
theorem cleanup_only_removes (cfg : Cfg) (ch : List Nat) (now : Nat) (c : Cache) :
    ∀ e ∈ cleanup cfg ch now c, ∃ e0 ∈ c, e.1 = e0.1 ∧ ∀ a ∈ e.2, a ∈ e0.2 := by
  intro e he
  obtain ⟨e0, he0, hk, _, hall⟩ := cleanup_mem he
  exact ⟨e0, he0, hk, fun a ha => (hall a ha).1⟩

/-- Quirk made explicit: after the reliability filter the sort key `failure_rate() as u64` is 0 for every
address, so the "lowest failure rate first" sort never reorders and the cap keeps the first
`max_addrs_per_peer` addresses in insertion order. -/
theorem sort_key_constant_after_filter (cfg : Cfg) (now : Nat) (a : Addr) (h : keep cfg now a = true) : frKey a = 0 := by
  simp only [keep, reliableCmp, Bool.and_eq_true, decide_eq_true_eq] at h
  simp only [frKey]
  by_cases hf : a.fail = 0
  · simp [hf]
  · exact Nat.div_eq_of_lt (by omega)

theorem oldest_max {now : Nat} : ∀ {c : Cache} {q a : Nat}, oldest now c = some (q, a) →
    (∃ l, (q, l) ∈ c ∧ peerAge now l = a) ∧ ∀ e ∈ c, peerAge now e.2 ≤ a := by
  intro c
  induction c with
  | nil => intro q a h; simp [oldest] at h
  | cons e t ih =>
    intro q a h
    simp only [oldest] at h
    split at h
    · rename_i ho
      have := oldest_none ho
      subst this
      simp only [Option.some.injEq, Prod.mk.injEq] at h
      obtain ⟨rfl, rfl⟩ := h
      exact ⟨⟨e.2, by simp, rfl⟩, by intro e' he'; simp at he'; subst he'; exact Nat.le_refl _⟩
    · rename_i q' a' ho
      obtain ⟨⟨l', hl', ha'⟩, hmax⟩ := ih ho
      split at h
      · rename_i hle
        simp only [Option.some.injEq, Prod.mk.injEq] at h
        obtain ⟨rfl, rfl⟩ := h
        refine ⟨⟨e.2, by simp, rfl⟩, ?_⟩
        intro e' he'
        simp only [List.mem_cons] at he'
        rcases he' with rfl | he'
        · exact Nat.le_refl _
        · exact Nat.le_trans (hmax e' he') hle
      · rename_i hle
        simp only [Option.some.injEq, Prod.mk.injEq] at h
        obtain ⟨rfl, rfl⟩ := h
        refine ⟨⟨l', by simp [hl'], ha'⟩, ?_⟩
        intro e' he'
        simp only [List.mem_cons] at he'
        rcases he' with rfl | he'
        · omega
        · exact hmax e' he'

/-- **Every tie-break is legal.** Whatever preference list `ch` is supplied (the hash map's iteration order in
the implementation), the peer evicted next is one whose most recent address is the oldest of all peers. -/
theorem eviction_choice_legal (ch : List Nat) (now : Nat) (c : Cache) (p : Nat) (h : pickOldest ch now c = some p) :
    ∃ l, (p, l) ∈ c ∧ ∀ e ∈ c, peerAge now e.2 ≤ peerAge now l := by
  simp only [pickOldest] at h
  split at h
  · rename_i q hq
    simp only [Option.some.injEq] at h
    subst h
    have := List.find?_some hq
    simp only [isOldest] at this
    split at this
    · rename_i l q' a hl ho
      simp only [beq_iff_eq] at this
      refine ⟨l, lookup_mem hl, ?_⟩
      rw [this]
      exact (oldest_max ho).2
    · simp at this
  · cases ho : oldest now c with
    | none => simp [ho] at h
    | some x =>
      cases x with
      | mk q a =>
        simp only [ho, Option.map_some, Option.some.injEq] at h
        subst h
        obtain ⟨⟨l, hl, ha⟩, hmax⟩ := oldest_max ho
        exact ⟨l, hl, by rw [ha]; exact hmax⟩

/-- **Merging keeps both sides.** After `CacheData::sync` (before any clean-up) every peer and every address
known to the store's memory or to the other cache (the file) is still known. -/
theorem sync_keeps_both (c other : Cache) :
    (∀ p, HasPeer c p → HasPeer (syncCache c other) p) ∧
    (∀ p m, HasAddr c p m → HasAddr (syncCache c other) p m) ∧
    (∀ e ∈ other, HasPeer (syncCache c other) e.1) ∧
    (∀ e ∈ other, ∀ a ∈ e.2, HasAddr (syncCache c other) e.1 a.ma) :=
  ⟨fun _ h => syncCache_hasPeer_left other c h, fun _ _ h => syncCache_hasAddr_left other c h,
   syncCache_hasPeer_right other c, syncCache_hasAddr_right other c⟩

/-- (unfolding lemma, not a property statement) what an uninterrupted flush without clean-up writes -/
theorem flushOps_file (s : Sys) (i : Nat) (ch : List Nat) (hi : i < s.ws.length)
    (hd : (getW s.ws i).disabled = false) :
    (run s (flushOps i false ch)).file =
      .data (match load s.cfg ch s.now s.file with
        | some d => syncCache (getW s.ws i).mem d
        | none => (getW s.ws i).mem) := by
  simp only [flushOps, run, step, length_modAt, hi, commitData]
  rw [getW_modAt _ _ _ hi]
  simp only [hd]
  cases load s.cfg ch s.now s.file <;> simp

/-- the cache a file holds (nothing when it is missing or unparsable) -/
def fileCache : File → Cache
  | .data c => c
  | _ => []

/-- **"Merging with the on-disk cache never loses a peer or address known to either side"**, stated at the moment store
`i` commits a flush without clean-up: the file then holds every peer and address of the store's memory AND every peer and
address `load_cache_data` (tie-break `ch0`) returns for the file as it is at that moment. -/
def KeepsBoth (s : Sys) (i : Nat) (ch ch0 : List Nat) : Prop :=
  (∀ p, HasPeer (getW s.ws i).mem p → HasPeer (fileCache (step s (.flushCommit i false ch)).file) p) ∧
  (∀ p m, HasAddr (getW s.ws i).mem p m → HasAddr (fileCache (step s (.flushCommit i false ch)).file) p m) ∧
  ∀ d, load s.cfg ch0 s.now s.file = some d →
    ∀ e ∈ d, HasPeer (fileCache (step s (.flushCommit i false ch)).file) e.1 ∧
      ∀ a ∈ e.2, HasAddr (fileCache (step s (.flushCommit i false ch)).file) e.1 a.ma

/-- the full clause: in EVERY state in which store `i` has done the load half of a flush (a commit without a load half
is not a step of `sync_and_flush_to_disk`), whatever other stores did since this store read the file -/
def merge_never_loses : Prop :=
  ∀ (s : Sys) (i : Nat) (ch ch0 : List Nat), i < s.ws.length → (getW s.ws i).disabled = false →
    (getW s.ws i).loaded ≠ none → KeepsBoth s i ch ch0

/-- the missing hypothesis: what the flush read is what the file holds now — no other writer committed between the two
halves of this flush (`sync_and_flush_to_disk` takes no lock: lib.rs advertises "File locking", the code has none) -/
def NoInterleaving (s : Sys) (i : Nat) (ch0 : List Nat) : Prop :=
  (getW s.ws i).loaded = some (load s.cfg ch0 s.now s.file)

/-- **Merging never loses a peer or address — for a flush that is not interleaved with another writer's commit.**
The full clause is FALSE of the code (`interleaved_flush_loses_peer`, known finding K-c18-interleaved-flush-loses-peers). -/
theorem merge_never_loses_partial (s : Sys) (i : Nat) (ch ch0 : List Nat) (hi : i < s.ws.length)
    (hd : (getW s.ws i).disabled = false) (hn : NoInterleaving s i ch0) : KeepsBoth s i ch ch0 := by
  have hf : (step s (.flushCommit i false ch)).file = .data (commitData s.cfg ch s.now false (getW s.ws i)) := by
    simp [step, hi, hd]
  unfold NoInterleaving at hn
  unfold KeepsBoth
  rw [hf]
  simp only [fileCache, commitData, hn]
  cases hl : load s.cfg ch0 s.now s.file with
  | none =>
    refine ⟨fun p h => by simpa using h, fun p m h => by simpa using h, ?_⟩
    intro d hd'; simp at hd'
  | some d =>
    have hk := sync_keeps_both (getW s.ws i).mem d
    refine ⟨fun p h => by simpa using hk.1 p h, fun p m h => by simpa using hk.2.1 p m h, ?_⟩
    intro d' hd' e he
    simp only [Option.some.injEq] at hd'
    subst hd'
    exact ⟨by simpa using hk.2.2.1 e he, fun a ha => by simpa using hk.2.2.2 e he a ha⟩

/-- the hypothesis holds right after the load half, i.e. for `sync_and_flush_to_disk` run without interruption -/
theorem uninterrupted_flush_no_interleaving (s : Sys) (i : Nat) (ch0 : List Nat) (hi : i < s.ws.length)
    (hd : (getW s.ws i).disabled = false) : NoInterleaving (step s (.flushLoad i ch0)) i ch0 := by
  simp only [NoInterleaving, step]
  rw [getW_modAt _ _ _ hi]
  simp [hd]

/-! ### a flush whose write fails -/

theorem step_flushLoad_keeps (s : Sys) (i : Nat) (ch : List Nat) (hi : i < s.ws.length) :
    (step s (.flushLoad i ch)).file = s.file ∧ (getW (step s (.flushLoad i ch)).ws i).mem = (getW s.ws i).mem ∧
    (step s (.flushLoad i ch)).ws.length = s.ws.length := by
  refine ⟨rfl, ?_, by simp [step, length_modAt]⟩
  simp only [step]
  rw [getW_modAt _ _ _ hi]
  split <;> rfl

/-- **A flush whose write fails changes nothing**: the file is what it was (atomic replacement) and so is the store's
memory — within its limits, and not merged with the file, so that the next attempt does not count the file's
counters a second time. Depends on `flushFailKeepsMemory` (read off `sync_and_flush_to_disk`). -/
theorem failed_flush_changes_nothing (s : Sys) (i : Nat) (wc : Bool) (ch : List Nat) (hi : i < s.ws.length) :
    (run s (flushFailOps i wc ch)).file = s.file ∧
    (getW (run s (flushFailOps i wc ch)).ws i).mem = (getW s.ws i).mem := by
  obtain ⟨h1, h2, h3⟩ := step_flushLoad_keeps s i ch hi
  have hi' : i < (step s (.flushLoad i ch)).ws.length := by rw [h3]; exact hi
  have hk : ∀ (cfg : Cfg) (now : Nat) (w : Writer), failMem flushFailKeepsMemory cfg ch now wc w = w.mem := by
    intro cfg now w; simp [failMem, flushFailKeepsMemory]
  simp only [flushFailOps, run]
  generalize step s (.flushLoad i ch) = s1 at h1 h2 hi'
  rw [← h1, ← h2]
  simp only [step]
  split
  · refine ⟨rfl, ?_⟩
    rw [getW_modAt _ _ _ hi']
    simpa using hk s1.cfg s1.now (getW s1.ws i)
  · exact ⟨rfl, rfl⟩

/-- **A flush with clean-up writes a cache within the limits and free of expired / unreliable addresses**, whatever the
store had read from the file and whenever (so also when other writers interleaved). -/
theorem flush_with_cleanup_bounded_clean (s : Sys) (i : Nat) (ch : List Nat) (hi : i < s.ws.length)
    (hd : (getW s.ws i).disabled = false) :
    ∃ c, (step s (.flushCommit i true ch)).file = .data c ∧ Bounded s.cfg c ∧
      ∀ e ∈ c, ∀ a ∈ e.2, ¬ (a.fail > a.succ) ∧ a.seen ≤ s.now ∧ s.now - a.seen < s.cfg.expiry := by
  refine ⟨commitData s.cfg ch s.now true (getW s.ws i), by simp [step, hi, hd], ?_, ?_⟩
  · simp only [commitData, if_true]
    exact removeOldest_bounded (cleanup_bounded _ _ _ _).2
  · intro e he
    simp only [commitData, if_true] at he
    exact cleanup_drops_expired_and_unreliable _ _ _ _ e (removeOldest_mem he)

/-- **Save then load is the identity apart from what clean-up removes** (the serialisation itself is abstract):
loading right after `write` returns the clean-up of what was saved; if clean-up has nothing to remove the very
same cache comes back; and with `max_addrs_per_peer ≥ 1` the result of a clean-up is such a cache, so a second
save/load changes nothing more. -/
theorem save_load_identity_mod_cleanup (s : Sys) (i : Nat) (ch : List Nat) (hi : i < s.ws.length) :
    load s.cfg ch s.now (step s (.write i)).file = some (cleanup s.cfg ch s.now (getW s.ws i).mem) ∧
    (Clean s.cfg s.now (getW s.ws i).mem →
      load s.cfg ch s.now (step s (.write i)).file = some (getW s.ws i).mem) ∧
    (1 ≤ s.cfg.maxAddrs → ∀ ch' c, Clean s.cfg s.now (cleanup s.cfg ch' s.now c)) := by
  have h1 : load s.cfg ch s.now (step s (.write i)).file = some (cleanup s.cfg ch s.now (getW s.ws i).mem) := by
    simp [step, hi, load, loadCleans]
  refine ⟨h1, ?_, ?_⟩
  · intro hc
    rw [h1, cleanup_of_clean hc]
  · intro hm ch' c
    exact cleanup_clean hm

/-- one step of the cache code never makes the file unparsable — because the write is an atomic replace -/
theorem step_file_loadable {s : Sys} {op : Op} (hop : op.isWriterOp = true) (h : s.file ≠ .garbage) :
    (step s op).file ≠ .garbage := by
  cases op with
  | extFile f => simp [Op.isWriterOp] at hop
  | tick d => exact h
  | add i ma ch => exact h
  | upd i ma ok => exact h
  | clean i ch => exact h
  | flushLoad i ch => exact h
  | flushCommit i wc ch =>
    simp only [step]
    split
    · simp
    · exact h
  | write i =>
    simp only [step]
    split
    · simp
    · exact h
  | halfWrite i =>
    simp only [step, writeAtomic, Bool.true_or, if_true]
    exact h
  | rebuild i first disabled =>
    simp only [step]
    split
    · split
      · simp
      · exact h
    · exact h
  | flushFail i wc ch =>
    simp only [step]
    split <;> exact h
  | swap i j =>
    simp only [step]
    split <;> exact h

/-- …and never removes or garbles an existing cache file -/
theorem step_file_data {s : Sys} {op : Op} (hop : op.isWriterOp = true) (h : ∃ c, s.file = .data c) :
    ∃ c, (step s op).file = .data c := by
  cases op with
  | extFile f => simp [Op.isWriterOp] at hop
  | tick d => exact h
  | add i ma ch => exact h
  | upd i ma ok => exact h
  | clean i ch => exact h
  | flushLoad i ch => exact h
  | flushCommit i wc ch =>
    simp only [step]
    split
    · exact ⟨_, rfl⟩
    · exact h
  | write i =>
    simp only [step]
    split
    · exact ⟨_, rfl⟩
    · exact h
  | halfWrite i =>
    simp only [step, writeAtomic, Bool.true_or, if_true]
    exact h
  | rebuild i first disabled =>
    simp only [step]
    split
    · split
      · exact ⟨_, rfl⟩
      · exact h
    · exact h
  | flushFail i wc ch =>
    simp only [step]
    split <;> exact h
  | swap i j =>
    simp only [step]
    split <;> exact h

/-! Remark (not a theorem; it is the definition of `Op.rebuild` read back): a store has one effective location —
rebuilding it through `new` / `new_from_peers_args` leaves the file as it was unless `first` asks for an empty cache, the
rebuilt store reads and replaces that same file, and a store with cache writing disabled (`local`) never changes it. The
tie to the code is the `mk` op of the harness (oracle clauses `store-location`, `first-clears`, `foreign-file-untouched`). -/

/-- **Concurrent flushes leave a loadable file.** The file is an atomic register (`AtomicWriteFile` + rename,
read off the source by the translator as `writeAtomic`). For any number of stores and ANY interleaving of their
operations — in particular of the load halves and commit halves of their flushes — a file that was not
unparsable never becomes unparsable, a file that held a cache always holds a cache, and (with the invariant)
that cache is well-formed; so is what every store has read. -/
theorem concurrent_flush_loadable (s : Sys) (ops : List Op) (hops : ∀ op ∈ ops, op.isWriterOp = true) :
    (s.file ≠ .garbage → (run s ops).file ≠ .garbage) ∧
    ((∃ c, s.file = .data c) → ∃ c, (run s ops).file = .data c) ∧
    (Inv s → ∀ c, (run s ops).file = .data c → WF c) := by
  refine ⟨?_, ?_, ?_⟩
  · induction ops generalizing s with
    | nil => intro h; exact h
    | cons op ops ih =>
      intro h
      simp only [run]
      exact ih _ (fun o ho => hops o (by simp [ho])) (step_file_loadable (hops op (by simp)) h)
  · induction ops generalizing s with
    | nil => intro h; exact h
    | cons op ops ih =>
      intro h
      simp only [run]
      exact ih _ (fun o ho => hops o (by simp [ho])) (step_file_data (hops op (by simp)) h)
  · intro hinv
    have hok : ∀ op ∈ ops, OpOk op := by
      intro op hop
      have := hops op hop
      cases op <;> simp [Op.isWriterOp] at this <;> trivial
    exact (run_inv ops s hinv hok).2

/-- **A corrupt or foreign file is ignored and replaced.** `load_cache_data` fails on it (it does not crash: the model is
total); a flush over it leaves a loadable file that holds every peer and address of the store's memory (flush without
clean-up) resp. a cache within the limits and free of expired / unreliable addresses (flush with clean-up). -/
theorem corrupt_ignored (s : Sys) (i : Nat) (ch : List Nat) (hi : i < s.ws.length)
    (hd : (getW s.ws i).disabled = false) (hf : s.file = .garbage ∨ s.file = .absent) :
    load s.cfg ch s.now s.file = none ∧
    (∃ c, (run s (flushOps i false ch)).file = .data c ∧
      (∀ p, HasPeer (getW s.ws i).mem p → HasPeer c p) ∧ ∀ p m, HasAddr (getW s.ws i).mem p m → HasAddr c p m) ∧
    (∃ c, (run s (flushOps i true ch)).file = .data c ∧ Bounded s.cfg c ∧
      ∀ e ∈ c, ∀ a ∈ e.2, ¬ (a.fail > a.succ) ∧ a.seen ≤ s.now ∧ s.now - a.seen < s.cfg.expiry) := by
  have hl : load s.cfg ch s.now s.file = none := by
    rcases hf with h | h <;> simp [h, load]
  refine ⟨hl, ?_, ?_⟩
  · refine ⟨(getW s.ws i).mem, ?_, fun p h => h, fun p m h => h⟩
    rw [flushOps_file s i ch hi hd, hl]
  · obtain ⟨h1, h2, h3⟩ := step_flushLoad_keeps s i ch hi
    have hd' : (getW (step s (.flushLoad i ch)).ws i).disabled = false := by
      simp only [step]; rw [getW_modAt _ _ _ hi]; simp [hd]
    obtain ⟨c, hc, hb, hcl⟩ := flush_with_cleanup_bounded_clean (step s (.flushLoad i ch)) i ch (by rw [h3]; exact hi) hd'
    exact ⟨c, by simpa [flushOps, run] using hc, hb, hcl⟩

/-- **No CONTENT of the cache file ever makes start-up fail.** `PeersArgs::get_bootstrap_addr` (the path antnode, the CLI
and the client take to find their first peers) succeeds over ANY file content — unparsable, foreign, missing, valid —
whenever it succeeds with no cache file at all, for the same flags, `--peer` arguments, `ANT_PEERS`, `count` and the same
state `dir` of the `--bootstrap-cache-dir` argument (the cache only ever adds addresses); over an unparsable file the
result is exactly the one with no file (by unfolding: `startup … .garbage = startup … .absent`, see the `example` below).
Depends on the load result being consumed with `if let Ok(..)` (`startupIgnoresLoadError`, read off the source).
What CAN fail start-up is not the file but the directory argument: `startup_fails_on_unusable_cache_dir`. -/
theorem startup_never_fails_because_of_cache (cfg : Cfg) (ch ord : List Nat) (now : Nat) (args : StartArgs)
    (env : List Ma) (dir : DirKind) (file : File) (h : okB (startup cfg ch ord now args env dir .absent) = true) :
    okB (startup cfg ch ord now args env dir file) = true := by
  simp only [startup, load, startupIgnoresLoadError, Bool.true_or, if_true] at h ⊢
  split
  · rfl
  · rw [if_neg (by assumption)] at h
    split
    · rfl
    · rw [if_neg (by assumption)] at h
      split
      · rfl
      · rw [if_neg (by assumption)] at h
        split
        · rfl
        · rw [if_neg (by assumption)] at h
          split
          · rw [if_pos (by assumption)] at h; exact h
          · rw [if_neg (by assumption)] at h
            cases hde : dirErr dir with
            | some e => simp [hde, okB] at h
            | none =>
              simp only [hde] at h ⊢
              have hne : (List.map (startAddr now) (List.filterMap craft args.addrs)).isEmpty = false := by
                simp only [finish] at h
                split at h
                · simp [okB] at h
                · rename_i hx; simpa using hx
              cases file with
              | absent => exact h
              | garbage => exact h
              | data c =>
                simp only [finish]
                have : (List.map (startAddr now) (List.filterMap craft args.addrs) ++
                    cachePicks ord (if loadCleans = true then cleanup cfg ch now c else c)).isEmpty = false := by
                  cases hl : List.map (startAddr now) (List.filterMap craft args.addrs) with
                  | nil => simp [hl] at hne
                  | cons x t => simp
                simp [this, okB]

/-- the cache step of `get_bootstrap_addr` is reached: not `--first`, no usable `ANT_PEERS`, not `--local`, fewer `--peer`
arguments than `count`, not `--ignore-cache` -/
def ReachesCache (now : Nat) (args : StartArgs) (env : List Ma) : Prop :=
  args.first = false ∧ ((env.filterMap craft).map (startAddr now)).isEmpty = true ∧ args.local = false ∧
  enough args.count ((args.addrs.filterMap craft).map (startAddr now)) = false ∧ args.ignoreCache = false

/-- **…but an unusable `--bootstrap-cache-dir` does** (C18-4, outside the file-content model until round 6): when the
cache step is reached, `get_bootstrap_cache_path()?` hands `InvalidBootstrapCacheDir` (the argument names a regular file)
or the I/O error of `create_dir_all` (it cannot be created) to the caller — whatever the cache file holds and however
many `--peer` addresses were given; with a usable directory argument (absent, a directory, or creatable) no error of the
cache step reaches the caller. -/
theorem startup_fails_on_unusable_cache_dir (cfg : Cfg) (ch ord : List Nat) (now : Nat) (args : StartArgs)
    (env : List Ma) (dir : DirKind) (file : File) (hr : ReachesCache now args env) :
    (dir = .isFile → startup cfg ch ord now args env dir file = .error .badDir) ∧
    (dir = .uncreatable → startup cfg ch ord now args env dir file = .error .cache) ∧
    (dir ≠ .isFile → dir ≠ .uncreatable → startup cfg ch ord now args env dir file ≠ .error .cache ∧
      startup cfg ch ord now args env dir file ≠ .error .badDir) := by
  obtain ⟨h1, h2, h3, h4, h5⟩ := hr
  refine ⟨?_, ?_, ?_⟩
  · intro hd; subst hd
    simp [startup, h1, h2, h3, h4, h5, dirErr]
  · intro hd; subst hd
    simp [startup, h1, h2, h3, h4, h5, dirErr]
  · intro hd1 hd2
    have hde : dirErr dir = none := by cases dir <;> simp_all [dirErr]
    simp only [startup, h1, h2, h3, h4, h5, hde, startupIgnoresLoadError, Bool.true_or, if_true]
    constructor <;> (cases load cfg ch now file <;> simp [finish] <;> split <;> simp)

-- the hypothesis is inhabited (no `--first`, no `ANT_PEERS`, not `--local`, no `--peer`, cache not ignored) …
example : ReachesCache 5 ⟨false, false, false, [], none⟩ [] := by simp [ReachesCache, enough]
-- … and one instance of each failing directory kind, over a cache file that is perfectly fine
example : startup ⟨2, 2, 100⟩ [] [] 5 ⟨false, false, false, [], none⟩ [] .isFile (.data []) = .error .badDir := rfl
example : startup ⟨2, 2, 100⟩ [] [] 5 ⟨false, false, false, [], none⟩ [] .uncreatable .absent = .error .cache := rfl
example : startup ⟨2, 2, 100⟩ [] [] 5 ⟨false, false, false, [], none⟩ [] .missing .absent = .error .noPeers := rfl

/-- **What antnode's own start-up does with the cache** (`new_from_peers_args(..)?` then `sync_and_flush_to_disk(true)?`,
antnode/main.rs): it ends the process exactly when the default cache directory cannot be obtained or created
(`default_config()?`, evaluated even with an override), the directory argument is unusable, the cache file's directory
vanished before `Self::new` could re-create it, or the cache file cannot be written while the node is `--first` or cache
writing is enabled (not `--local`). The CONTENT of the cache file plays no part (it is not an argument of `nodeStart`;
a flush over any content writes a cache: `corrupt_ignored`, `flush_with_cleanup_bounded_clean`). -/
theorem node_start_fails_iff (defaultDirFails : Bool) (dir : DirKind) (parentFails first loc writeFails : Bool) :
    nodeStart defaultDirFails dir parentFails first loc writeFails ≠ .ok () ↔
      (defaultDirFails = true ∨ dir = .isFile ∨ dir = .uncreatable ∨ parentFails = true ∨
        (writeFails = true ∧ (first = true ∨ loc = false))) := by
  cases defaultDirFails <;> cases dir <;> cases parentFails <;> cases first <;> cases loc <;> cases writeFails <;>
    simp [nodeStart, dirErr]

-- an unusable DEFAULT directory ends start-up even though `--bootstrap-cache-dir` names a good one
example : nodeStart true .isDir false false false false = .error .cache := rfl
example : nodeStart false .isDir false false false false = .ok () := rfl

/-! ### the periodic save of `ant-networking/src/driver.rs` -/

/-- one periodic save run without interruption: swap in a fresh store (slot `i` continues, slot `j` is the spawned
task's store), then `old_cache.sync_and_flush_to_disk(periodicFlushCleans)` -/
def periodicOps (i j : Nat) (ch1 ch : List Nat) : List Op :=
  [.swap i j, .flushLoad j ch1, .flushCommit j periodicFlushCleans ch]

theorem getW_modAt_ne (f : Writer → Writer) : ∀ (i j : Nat) (ws : List Writer), i ≠ j →
    getW (modAt f i ws) j = getW ws j := by
  intro i j ws
  induction ws generalizing i j with
  | nil => intro _; simp [modAt]
  | cons a t ih =>
    intro h
    cases i with
    | zero =>
      cases j with
      | zero => exact absurd rfl h
      | succ j => simp [modAt, getW]
    | succ i =>
      cases j with
      | zero => simp [modAt, getW]
      | succ j =>
        have := ih i j (by omega)
        simp only [getW, modAt, List.getD_cons_succ] at this ⊢
        exact this

/-- **The periodic save keeps every promise of the property about the file and the live store**: the live store
continues empty (so within its limits), and the file the spawned task writes is a cache within the limits, free of
expired and unreliable addresses.  This statement runs the swap and the two halves of the spawned flush BACK TO BACK
from an arbitrary state; for a spawned flush whose halves are interleaved with steps of other stores (or of earlier
spawned tasks of the same process) the file clause is `flush_with_cleanup_bounded_clean` (any state in which slot `j`
commits) and `bounds_invariant` / `concurrent_flush_loadable` (any operation list, `swap` included); what such
interleaving does lose is peers (`interleaved_flush_loses_peer` and the one-process example below it).
Depends on the flush being called with clean-up (`periodicFlushCleans`, read off driver.rs). -/
theorem periodic_flush_bounded_clean (s : Sys) (i j : Nat) (ch1 ch : List Nat) (hi : i < s.ws.length)
    (hj : j < s.ws.length) (hij : i ≠ j) (hd : (getW s.ws i).disabled = false) :
    (getW (run s (periodicOps i j ch1 ch)).ws i).mem = [] ∧
    ∃ c, (run s (periodicOps i j ch1 ch)).file = .data c ∧ Bounded s.cfg c ∧
      ∀ e ∈ c, ∀ a ∈ e.2, ¬ (a.fail > a.succ) ∧ a.seen ≤ s.now ∧ s.now - a.seen < s.cfg.expiry := by
  have hcond : (decide (i < s.ws.length) && (decide (j < s.ws.length) && decide (i ≠ j))) = true := by simp [hi, hj, hij]
  have hs1 : step s (.swap i j) = { s with ws := modAt (fun _ => ⟨[], none, (getW s.ws i).disabled⟩) i (modAt (fun _ => ⟨(getW s.ws i).mem, none, (getW s.ws i).disabled⟩) j s.ws) } := by
    simp only [step, hcond, if_true]
  obtain ⟨hlen1, hmi1, hdj1, hcfg1, hnow1⟩ : (step s (.swap i j)).ws.length = s.ws.length ∧
      (getW (step s (.swap i j)).ws i).mem = [] ∧ (getW (step s (.swap i j)).ws j).disabled = false ∧
      (step s (.swap i j)).cfg = s.cfg ∧ (step s (.swap i j)).now = s.now := by
    rw [hs1]
    refine ⟨by simp [length_modAt], ?_, ?_, rfl, rfl⟩
    · simp only []
      rw [getW_modAt _ _ _ (by simpa [length_modAt] using hi)]
    · simp only []
      rw [getW_modAt_ne _ _ _ _ hij, getW_modAt _ _ _ hj]
      exact hd
  have hpc : periodicFlushCleans = true := rfl
  simp only [periodicOps, run, hpc]
  generalize step s (.swap i j) = s1 at hlen1 hmi1 hdj1 hcfg1 hnow1
  have hj1 : j < s1.ws.length := by rw [hlen1]; exact hj
  -- the load half by slot j
  obtain ⟨hlen2, hmi2, hdj2, hcfg2, hnow2⟩ : (step s1 (.flushLoad j ch1)).ws.length = s.ws.length ∧
      (getW (step s1 (.flushLoad j ch1)).ws i).mem = [] ∧ (getW (step s1 (.flushLoad j ch1)).ws j).disabled = false ∧
      (step s1 (.flushLoad j ch1)).cfg = s.cfg ∧ (step s1 (.flushLoad j ch1)).now = s.now := by
    refine ⟨by simp [step, length_modAt, hlen1], ?_, ?_, hcfg1, hnow1⟩
    · simp only [step]
      rw [getW_modAt_ne _ _ _ _ (Ne.symm hij)]
      exact hmi1
    · simp only [step]
      rw [getW_modAt _ _ _ hj1]
      simp [hdj1]
  generalize step s1 (.flushLoad j ch1) = s2 at hlen2 hmi2 hdj2 hcfg2 hnow2
  have hj2 : j < s2.ws.length := by rw [hlen2]; exact hj
  obtain ⟨c, hc, hb, hcl⟩ := flush_with_cleanup_bounded_clean s2 j ch hj2 hdj2
  refine ⟨?_, c, hc, by rw [← hcfg2]; exact hb, by rw [← hcfg2, ← hnow2]; exact hcl⟩
  simp only [step, hj2, hdj2, decide_true, Bool.not_false, Bool.and_self, if_true]
  rw [getW_modAt_ne _ _ _ _ (Ne.symm hij)]
  exact hmi2

/-- the save interval after a periodic save stays positive (`tokio::time::interval` panics on a zero period) provided the
current period is at least a second and `cache_save_scaling_factor`, `max_cache_save_duration` are at least 1; with a
scaling factor of 0 (the field is public) the next period is 0 — an observation, not a clause of C18 -/
theorem periodic_interval_positive (cur factor maxv : Nat) (h1 : 1 ≤ cur) (h2 : 1 ≤ factor) (h3 : 1 ≤ maxv) :
    1 ≤ nextSavePeriod cur factor maxv ∧ nextSavePeriod cur 0 maxv = 0 := by
  refine ⟨?_, by simp [nextSavePeriod]⟩
  simp only [nextSavePeriod]
  have : 1 ≤ cur * factor := Nat.mul_pos h1 h2
  omega

/-! ## Non-vacuity and concrete instances -/

def q (ip port p : Nat) : Ma := [.ip4 ip, .udp port, .quic, .p2p p]
def cfg22 : Cfg := ⟨2, 2, 100⟩

-- a relay circuit address is reduced to the relay's own dialable address
example : craft [.ip4 1, .udp 2, .quic, .p2p 7, .circuit, .p2p 9] = some [.ip4 1, .udp 2, .quic, .p2p 7] := by decide
-- ip6 / dns / missing peer id / garbage are refused
example : craft [.ip6 1, .udp 2, .quic, .p2p 7] = none := by decide
example : craft [.ip4 1, .udp 2, .quic] = none := by decide
example : craft [.other 3, .ws, .circuit] = none := by decide
-- protocols in any order are normalised
example : craft [.p2p 3, .ws, .tcp 5, .other 1, .ip4 9] = some [.ip4 9, .tcp 5, .ws, .p2p 3] := by decide

-- three peers into a cache limited to two: the oldest is evicted
example : (run (Sys.init cfg22 1) [.tick 1, .add 0 (q 1 1 1) [], .tick 1, .add 0 (q 1 1 2) [], .tick 1, .add 0 (q 1 1 3) []]).ws
    = [⟨[(2, [⟨q 1 1 2, 1, 0, 1000002⟩]), (3, [⟨q 1 1 3, 1, 0, 1000003⟩])], none, false⟩] := by decide
-- two failures against one success: dropped by clean-up; an expired address likewise
example : cleanup cfg22 [] 50 [(1, [⟨q 1 1 1, 1, 2, 40⟩]), (2, [⟨q 1 1 2, 1, 1, 40⟩])] = [(2, [⟨q 1 1 2, 1, 1, 40⟩])] := by decide
example : cleanup cfg22 [] 200 [(1, [⟨q 1 1 1, 1, 0, 100⟩]), (2, [⟨q 1 1 2, 1, 0, 101⟩])] = [(2, [⟨q 1 1 2, 1, 0, 101⟩])] := by decide
-- the hypotheses of `wellformed`, `bounds_invariant` and `concurrent_flush_loadable` are satisfiable: the initial state
example : Inv (Sys.init cfg22 3) ∧ BoundedSys (Sys.init cfg22 3) := ⟨init_inv _ _, init_bounded _ _⟩
-- two writers interleave load/commit halves: the second commit overwrites, the file stays a well-formed cache
example : (run (Sys.init cfg22 2)
    [.tick 1, .add 0 (q 1 1 1) [], .tick 1, .add 1 (q 1 1 2) [], .flushLoad 0 [], .flushLoad 1 [], .flushCommit 0 true [], .flushCommit 1 true []]).file
    = .data [(2, [⟨q 1 1 2, 1, 0, 1000002⟩])] := by decide
-- a merge keeps both sides (instance of `sync_keeps_both` with both sides non-empty)
example : syncCache [(1, [⟨q 1 1 1, 1, 0, 5⟩])] [(1, [⟨q 2 2 1, 3, 1, 4⟩]), (2, [⟨q 1 1 2, 1, 0, 3⟩])]
    = [(1, [⟨q 1 1 1, 1, 0, 5⟩, ⟨q 2 2 1, 3, 1, 4⟩]), (2, [⟨q 1 1 2, 1, 0, 3⟩])] := by decide
-- `Clean` is satisfiable, so the identity part of `save_load_identity_mod_cleanup` is not vacuous
example : Clean cfg22 10 [(1, [⟨q 1 1 1, 1, 0, 5⟩])] := by
  refine ⟨⟨by decide, by intro e he; simp at he; subst he; decide⟩, ?_⟩
  intro e he; simp at he; subst he
  refine ⟨by simp, ?_⟩
  intro a ha; simp at ha; subst ha; decide
-- a corrupt file is overwritten by a flush
example : (run { Sys.init cfg22 1 with file := .garbage } (flushOps 0 true [])).file = .data [] := by decide
-- over an unparsable cache file start-up gives exactly the result it gives with no cache file (by unfolding)
example (cfg : Cfg) (ch ord : List Nat) (now : Nat) (args : StartArgs) (env : List Ma) (dir : DirKind) :
    startup cfg ch ord now args env dir .garbage = startup cfg ch ord now args env dir .absent := by
  simp [startup, load, startupIgnoresLoadError]

/-! ## Witnesses: what the code does NOT guarantee -/

/-- two stores, one file: store 0 holds peer 1, store 1 holds peer 2; both have read the (missing) file, store 0 has
committed (file = {1}, its memory cleared) and store 1 is about to commit -/
def raceState : Sys :=
  run (Sys.init cfg22 2)
    [.tick 1, .add 0 (q 1 1 1) [], .tick 1, .add 1 (q 1 1 2) [], .flushLoad 0 [], .flushLoad 1 [], .flushCommit 0 false []]

/-- **Witness (K-c18-interleaved-flush-loses-peers): interleaved flushes lose a peer for good.** Store 1 commits what it
read BEFORE store 0's commit: the file loses peer 1, which store 0 has already cleared from its memory — the peer is in
no file and in no memory. The full clause `merge_never_loses` is false of the code. -/
theorem interleaved_flush_loses_peer : ¬ merge_never_loses := by
  intro h
  have h3 := ((h raceState 1 [] [] (by decide) (by decide) (by decide)).2.2 [(1, [⟨q 1 1 1, 1, 0, 1000001⟩])] (by decide)
    (1, [⟨q 1 1 1, 1, 0, 1000001⟩]) (by simp)).1
  simp only [HasPeer] at h3
  revert h3
  decide

-- …and after that commit peer 1 is in no store's memory either
example : (step raceState (.flushCommit 1 false [])).ws = [⟨[], none, false⟩, ⟨[], none, false⟩] ∧
    (step raceState (.flushCommit 1 false [])).file = .data [(2, [⟨q 1 1 2, 1, 0, 1000002⟩])] := by decide

-- the same inside ONE process: two periodic saves of driver.rs whose spawned flushes overlap (slots 1 and 2)
example : (run (Sys.init cfg22 3)
    [.tick 1, .add 0 (q 1 1 1) [], .swap 0 1, .flushLoad 1 [], .tick 1, .add 0 (q 1 1 2) [], .swap 0 2, .flushLoad 2 [],
     .flushCommit 1 true [], .flushCommit 2 true []]).file = .data [(2, [⟨q 1 1 2, 1, 0, 1000002⟩])] := by decide

-- a periodic save whose write fails: the error is only logged and the spawned task's store is dropped (slot 1 is
-- overwritten by the next swap) — the peers of that interval are gone (an observation: a failed write is not a merge)
example : (run (Sys.init cfg22 2)
    [.tick 1, .add 0 (q 1 1 1) [], .swap 0 1, .flushLoad 1 [], .flushFail 1 true [], .swap 0 1]).ws
      = [⟨[], none, false⟩, ⟨[], none, false⟩] := by decide

/-- `max_peers = 1`; peer 1 is in the file, peer 2 in the store's memory, and the store has done the load half of a flush -/
def oldShapeState : Sys :=
  run (Sys.init ⟨1, 2, 100⟩ 1)
    ([.tick 2, .add 0 (q 1 1 1) []] ++ flushOps 0 false [] ++ [.tick 2, .add 0 (q 1 1 2) [], .flushLoad 0 []])

/-- **Witness (fixed shape): the merge a failed write left behind.** Before the repair `sync_and_flush_to_disk` merged the
file into the store's own memory and returned on a write error: with `max_peers = 1`, one peer in the file and another in
memory, a failed flush without clean-up left two peers in a store limited to one (and the next attempt merged the file's
counters a second time). `failMem false` is that shape; `bounds_invariant` needs `flushFailKeepsMemory`. -/
theorem failed_flush_old_shape_unbounded :
    BoundedSys oldShapeState ∧
    ¬ Bounded oldShapeState.cfg (failMem false oldShapeState.cfg [] oldShapeState.now false (getW oldShapeState.ws 0)) := by
  constructor
  · exact run_bounded _ _ (init_bounded _ _)
  · intro h
    have := h.1
    revert this
    decide

-- the repaired shape on the same history: the memory is what it was
example : (getW (run (Sys.init ⟨1, 2, 100⟩ 1)
      ([.tick 2, .add 0 (q 1 1 1) []] ++ flushOps 0 false [] ++ [.tick 2, .add 0 (q 1 1 2) []] ++ flushFailOps 0 false [])).ws 0).mem
    = [(2, [⟨q 1 1 2, 1, 0, 1000004⟩])] := by decide

end SafeNet.Props.C18

#print axioms SafeNet.Props.C18.cleanup_bounds
#print axioms SafeNet.Props.C18.add_addr_bounds
#print axioms SafeNet.Props.C18.bounds_invariant
#print axioms SafeNet.Props.C18.wellformed
#print axioms SafeNet.Props.C18.craft_dialable
#print axioms SafeNet.Props.C18.cleanup_drops_expired_and_unreliable
#print axioms SafeNet.Props.C18.cleanup_only_removes
#print axioms SafeNet.Props.C18.sort_key_constant_after_filter
#print axioms SafeNet.Props.C18.eviction_choice_legal
#print axioms SafeNet.Props.C18.sync_keeps_both
#print axioms SafeNet.Props.C18.merge_never_loses_partial
#print axioms SafeNet.Props.C18.uninterrupted_flush_no_interleaving
#print axioms SafeNet.Props.C18.interleaved_flush_loses_peer
#print axioms SafeNet.Props.C18.failed_flush_changes_nothing
#print axioms SafeNet.Props.C18.failed_flush_old_shape_unbounded
#print axioms SafeNet.Props.C18.flush_with_cleanup_bounded_clean
#print axioms SafeNet.Props.C18.save_load_identity_mod_cleanup
#print axioms SafeNet.Props.C18.concurrent_flush_loadable
#print axioms SafeNet.Props.C18.corrupt_ignored
#print axioms SafeNet.Props.C18.startup_never_fails_because_of_cache
#print axioms SafeNet.Props.C18.startup_fails_on_unusable_cache_dir
#print axioms SafeNet.Props.C18.node_start_fails_iff
#print axioms SafeNet.Props.C18.periodic_flush_bounded_clean
#print axioms SafeNet.Props.C18.periodic_interval_positive
