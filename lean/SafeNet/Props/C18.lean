import SafeNet.Proofs.BootCache
/-!
# C18 — bootstrap cache stays bounded, well-formed and atomically persisted

Statements over `SafeNet.BootCache` (model of `ant-bootstrap/src/{cache_store,lib,config}.rs`), whose constants
and comparators (`MAX_PEERS`, `MAX_ADDRS_PER_PEER`, `ADDR_EXPIRY_DURATION`, `is_reliable`'s `>=`, the expiry `<`,
the two `>` limits, the atomic write) are regenerated from the Rust source into `SafeNet.Gen.BootCache`.
All statements quantify over every configuration `cfg`, every time `now`, every multiaddress shape, every
eviction tie-break `ch` (the hash-map iteration order) and every operation list / interleaving.
-/
namespace SafeNet.Props.C18
open SafeNet.BootCache SafeNet.Gen.BootCache

/-- **Clean-up bounds.** Whatever the cache held, after `perform_cleanup` it holds at most `max_peers` peers
and at most `max_addrs_per_peer` addresses for each of them. -/
theorem cleanup_bounds (cfg : Cfg) (ch : List Nat) (now : Nat) (c : Cache) :
    (cleanup cfg ch now c).length ≤ cfg.maxPeers ∧
    ∀ e ∈ cleanup cfg ch now c, e.2.length ≤ cfg.maxAddrs :=
  cleanup_bounded cfg ch now c

/-- **`add_addr` bounds**, and the bound as an invariant of every reachable state: a store within its limits
stays within them under `add_addr` (any multiaddress); and after any sequence of additions, status updates,
clean-ups, flushes (merges with the file), raw writes, clock ticks and even foreign replacements of the file,
by any number of stores, every store's memory is within the limits, and so is anything `load_cache_data`
returns. -/
theorem add_addr_bounds (cfg : Cfg) (ch : List Nat) (now : Nat) (c : Cache) (ma : Ma)
    (h : Bounded cfg c) : Bounded cfg (addAddr cfg ch now c ma) :=
  addAddr_bounded ma h

theorem bounds_invariant (s : Sys) (ops : List Op) (h : BoundedSys s) :
    (∀ w ∈ (run s ops).ws, Bounded s.cfg w.mem) ∧
    (∀ ch d, load s.cfg ch (run s ops).now (run s ops).file = some d → Bounded s.cfg d) := by
  constructor
  · have := run_bounded ops s h
    intro w hw
    have h2 := this w hw
    rw [run_cfg] at h2
    exact h2
  · intro ch d hd
    cases hf : (run s ops).file with
    | absent => simp [hf, load] at hd
    | garbage => simp [hf, load] at hd
    | data c =>
      simp only [hf, load, loadCleans, if_true, Option.some.injEq] at hd
      subst hd
      exact cleanup_bounded _ _ _ _

/-- the initial state (empty stores, no file) is within the limits, so `bounds_invariant` applies to every history -/
theorem init_bounded (cfg : Cfg) (n : Nat) : BoundedSys (Sys.init cfg n) := by
  intro w hw
  simp only [Sys.init, List.mem_replicate] at hw
  rw [hw.2]
  exact bounded_nil _

/-- **Well-formedness is an inductive invariant over memory and file.** If every store's memory, everything an
in-flight flush has read, and the file hold only addresses of the shape `ip4/(udp[/quic-v1] | tcp[/ws])/p2p/<peer>`
filed under that peer, then so they do after any sequence of operations of the cache code in any interleaving
(`add_addr` of *any* multiaddress, status update, clean-up, the load half and the commit half of a flush, raw
write), and after foreign replacements of the file by well-formed content or by garbage. -/
theorem wellformed (s : Sys) (ops : List Op) (h : Inv s) (hops : ∀ op ∈ ops, OpOk op) : Inv (run s ops) :=
  run_inv ops s h hops

theorem init_inv (cfg : Cfg) (n : Nat) : Inv (Sys.init cfg n) := by
  refine ⟨?_, by intro c hc; simp [Sys.init] at hc⟩
  intro w hw
  simp only [Sys.init, List.mem_replicate] at hw
  rw [hw.2]
  exact ⟨wf_nil, by intro d hd; simp [Writer.empty] at hd⟩

/-- `add_addr` stores nothing but what `craft_valid_multiaddr` returns, and that is always a dialable shape
carrying the first peer id of the input. -/
theorem craft_dialable (ma out : Ma) (h : craft ma = some out) :
    ∃ k, dialable out = some k ∧ peerOf ma = some k := by
  obtain ⟨k, h1, _, h3⟩ := craft_spec h
  exact ⟨k, h1, h3⟩

/-- **Clean-up drops expired and unreliable addresses.** After `perform_cleanup` no address has more failures
than successes, none was last seen `addr_expiry_duration` or longer ago, none lies in the future. -/
theorem cleanup_drops_expired_and_unreliable (cfg : Cfg) (ch : List Nat) (now : Nat) (c : Cache) :
    ∀ e ∈ cleanup cfg ch now c, ∀ a ∈ e.2, ¬ (a.fail > a.succ) ∧ a.seen ≤ now ∧ now - a.seen < cfg.expiry := by
  intro e he a ha
  obtain ⟨_, _, _, _, hall⟩ := cleanup_mem he
  have hk := (hall a ha).2
  simp only [keep, reliableCmp, notExpiredCmp, Bool.and_eq_true, decide_eq_true_eq] at hk
  exact ⟨by omega, hk.2.1, hk.2.2⟩

/-- …and clean-up only removes: every surviving address was there before, under the same peer. -/
theorem cleanup_only_removes (cfg : Cfg) (ch : List Nat) (now : Nat) (c : Cache) :
    ∀ e ∈ cleanup cfg ch now c, ∃ e0 ∈ c, e.1 = e0.1 ∧ ∀ a ∈ e.2, a ∈ e0.2 := by
  intro e he
  obtain ⟨e0, he0, hk, _, hall⟩ := cleanup_mem he
  exact ⟨e0, he0, hk, fun a ha => (hall a ha).1⟩

/-- Quirk made explicit: after the reliability filter the sort key `failure_rate() as u64` is 0 for every
address, so the "lowest failure rate first" sort never reorders and the cap keeps the first
`max_addrs_per_peer` addresses in insertion order. -/
theorem sort_key_constant_after_filter (cfg : Cfg) (now : Nat) (a : Addr) (h : keep cfg now a = true) : frKey a = 0 := by
  simp only [keep, reliableCmp, Bool.and_eq_true, decide_eq_true_eq] at h
  simp only [frKey]
  by_cases hf : a.fail = 0
  · simp [hf]
  · exact Nat.div_eq_of_lt (by omega)

theorem oldest_max {now : Nat} : ∀ {c : Cache} {q a : Nat}, oldest now c = some (q, a) →
    (∃ l, (q, l) ∈ c ∧ peerAge now l = a) ∧ ∀ e ∈ c, peerAge now e.2 ≤ a := by
  intro c
  induction c with
  | nil => intro q a h; simp [oldest] at h
  | cons e t ih =>
    intro q a h
    simp only [oldest] at h
    split at h
    · rename_i ho
      have := oldest_none ho
      subst this
      simp only [Option.some.injEq, Prod.mk.injEq] at h
      obtain ⟨rfl, rfl⟩ := h
      exact ⟨⟨e.2, by simp, rfl⟩, by intro e' he'; simp at he'; subst he'; exact Nat.le_refl _⟩
    · rename_i q' a' ho
      obtain ⟨⟨l', hl', ha'⟩, hmax⟩ := ih ho
      split at h
      · rename_i hle
        simp only [Option.some.injEq, Prod.mk.injEq] at h
        obtain ⟨rfl, rfl⟩ := h
        refine ⟨⟨e.2, by simp, rfl⟩, ?_⟩
        intro e' he'
        simp only [List.mem_cons] at he'
        rcases he' with rfl | he'
        · exact Nat.le_refl _
        · exact Nat.le_trans (hmax e' he') hle
      · rename_i hle
        simp only [Option.some.injEq, Prod.mk.injEq] at h
        obtain ⟨rfl, rfl⟩ := h
        refine ⟨⟨l', by simp [hl'], ha'⟩, ?_⟩
        intro e' he'
        simp only [List.mem_cons] at he'
        rcases he' with rfl | he'
        · omega
        · exact hmax e' he'

/-- **Every tie-break is legal.** Whatever preference list `ch` is supplied (the hash map's iteration order in
the implementation), the peer evicted next is one whose most recent address is the oldest of all peers. -/
theorem eviction_choice_legal (ch : List Nat) (now : Nat) (c : Cache) (p : Nat) (h : pickOldest ch now c = some p) :
    ∃ l, (p, l) ∈ c ∧ ∀ e ∈ c, peerAge now e.2 ≤ peerAge now l := by
  simp only [pickOldest] at h
  split at h
  · rename_i q hq
    simp only [Option.some.injEq] at h
    subst h
    have := List.find?_some hq
    simp only [isOldest] at this
    split at this
    · rename_i l q' a hl ho
      simp only [beq_iff_eq] at this
      refine ⟨l, lookup_mem hl, ?_⟩
      rw [this]
      exact (oldest_max ho).2
    · simp at this
  · cases ho : oldest now c with
    | none => simp [ho] at h
    | some x =>
      cases x with
      | mk q a =>
        simp only [ho, Option.map_some, Option.some.injEq] at h
        subst h
        obtain ⟨⟨l, hl, ha⟩, hmax⟩ := oldest_max ho
        exact ⟨l, hl, by rw [ha]; exact hmax⟩

/-- **Merging keeps both sides.** After `CacheData::sync` (before any clean-up) every peer and every address
known to the store's memory or to the other cache (the file) is still known. -/
theorem sync_keeps_both (c other : Cache) :
    (∀ p, HasPeer c p → HasPeer (syncCache c other) p) ∧
    (∀ p m, HasAddr c p m → HasAddr (syncCache c other) p m) ∧
    (∀ e ∈ other, HasPeer (syncCache c other) e.1) ∧
    (∀ e ∈ other, ∀ a ∈ e.2, HasAddr (syncCache c other) e.1 a.ma) :=
  ⟨fun _ h => syncCache_hasPeer_left other c h, fun _ _ h => syncCache_hasAddr_left other c h,
   syncCache_hasPeer_right other c, syncCache_hasAddr_right other c⟩

/-- The flush without clean-up writes exactly that merge of the memory with what was loaded from the file. -/
theorem flush_writes_merge (s : Sys) (i : Nat) (ch : List Nat) (hi : i < s.ws.length)
    (hd : (getW s.ws i).disabled = false) :
    (run s (flushOps i false ch)).file =
      .data (match load s.cfg ch s.now s.file with
        | some d => syncCache (getW s.ws i).mem d
        | none => (getW s.ws i).mem) := by
  simp only [flushOps, run, step, length_modAt, hi, commitData]
  rw [getW_modAt _ _ _ hi]
  simp only [hd]
  cases load s.cfg ch s.now s.file <;> simp

/-- **Save then load is the identity apart from what clean-up removes** (the serialisation itself is abstract):
loading right after `write` returns the clean-up of what was saved; if clean-up has nothing to remove the very
same cache comes back; and with `max_addrs_per_peer ≥ 1` the result of a clean-up is such a cache, so a second
save/load changes nothing more. -/
theorem save_load_identity_mod_cleanup (s : Sys) (i : Nat) (ch : List Nat) (hi : i < s.ws.length) :
    load s.cfg ch s.now (step s (.write i)).file = some (cleanup s.cfg ch s.now (getW s.ws i).mem) ∧
    (Clean s.cfg s.now (getW s.ws i).mem →
      load s.cfg ch s.now (step s (.write i)).file = some (getW s.ws i).mem) ∧
    (1 ≤ s.cfg.maxAddrs → ∀ ch' c, Clean s.cfg s.now (cleanup s.cfg ch' s.now c)) := by
  have h1 : load s.cfg ch s.now (step s (.write i)).file = some (cleanup s.cfg ch s.now (getW s.ws i).mem) := by
    simp [step, hi, load, loadCleans]
  refine ⟨h1, ?_, ?_⟩
  · intro hc
    rw [h1, cleanup_of_clean hc]
  · intro hm ch' c
    exact cleanup_clean hm

/-- one step of the cache code never makes the file unparsable — because the write is an atomic replace -/
theorem step_file_loadable {s : Sys} {op : Op} (hop : op.isWriterOp = true) (h : s.file ≠ .garbage) :
    (step s op).file ≠ .garbage := by
  cases op with
  | extFile f => simp [Op.isWriterOp] at hop
  | tick d => exact h
  | add i ma ch => exact h
  | upd i ma ok => exact h
  | clean i ch => exact h
  | flushLoad i ch => exact h
  | flushCommit i wc ch =>
    simp only [step]
    split
    · simp
    · exact h
  | write i =>
    simp only [step]
    split
    · simp
    · exact h
  | halfWrite i =>
    simp only [step, writeAtomic, Bool.true_or, if_true]
    exact h
  | rebuild i first disabled =>
    simp only [step]
    split
    · split
      · simp
      · exact h
    · exact h

/-- …and never removes or garbles an existing cache file -/
theorem step_file_data {s : Sys} {op : Op} (hop : op.isWriterOp = true) (h : ∃ c, s.file = .data c) :
    ∃ c, (step s op).file = .data c := by
  cases op with
  | extFile f => simp [Op.isWriterOp] at hop
  | tick d => exact h
  | add i ma ch => exact h
  | upd i ma ok => exact h
  | clean i ch => exact h
  | flushLoad i ch => exact h
  | flushCommit i wc ch =>
    simp only [step]
    split
    · exact ⟨_, rfl⟩
    · exact h
  | write i =>
    simp only [step]
    split
    · exact ⟨_, rfl⟩
    · exact h
  | halfWrite i =>
    simp only [step, writeAtomic, Bool.true_or, if_true]
    exact h
  | rebuild i first disabled =>
    simp only [step]
    split
    · split
      · exact ⟨_, rfl⟩
      · exact h
    · exact h

/-- A store has one effective location: rebuilding it (through `new` or `new_from_peers_args`, whatever the
overrides) leaves the file exactly as it was unless `first` asks for an empty cache, and a flush by the rebuilt
store reads and replaces that same file; a store with cache writing disabled (`local`) never changes it. -/
theorem rebuild_same_file (s : Sys) (i : Nat) (dis : Bool) (wc : Bool) (ch : List Nat) (hi : i < s.ws.length) :
    (step s (.rebuild i false dis)).file = s.file ∧
    (step s (.rebuild i true dis)).file = .data [] ∧
    (run (step s (.rebuild i false true)) (flushOps i wc ch)).file = s.file ∧
    (run (step s (.rebuild i false false)) (flushOps i false ch)).file =
      .data (match load s.cfg ch s.now s.file with | some d => syncCache [] d | none => []) := by
  refine ⟨by simp [step, hi], by simp [step, hi], ?_, ?_⟩
  · simp only [flushOps, run, step, hi, if_true, length_modAt]
    rw [getW_modAt _ _ _ (by simpa [length_modAt] using hi)]
    rw [getW_modAt _ _ _ hi]
    simp
  · have h1 : i < (step s (.rebuild i false false)).ws.length := by simp [step, hi, length_modAt]
    have h2 : (getW (step s (.rebuild i false false)).ws i).disabled = false := by
      simp only [step, hi, if_true]; rw [getW_modAt _ _ _ hi]
    rw [flush_writes_merge _ i ch h1 h2]
    simp only [step, hi, if_true]
    rw [getW_modAt _ _ _ hi]
    simp

/-- **Concurrent flushes leave a loadable file.** The file is an atomic register (`AtomicWriteFile` + rename,
read off the source by the translator as `writeAtomic`). For any number of stores and ANY interleaving of their
operations — in particular of the load halves and commit halves of their flushes — a file that was not
unparsable never becomes unparsable, a file that held a cache always holds a cache, and (with the invariant)
that cache is well-formed; so is what every store has read. -/
theorem concurrent_flush_loadable (s : Sys) (ops : List Op) (hops : ∀ op ∈ ops, op.isWriterOp = true) :
    (s.file ≠ .garbage → (run s ops).file ≠ .garbage) ∧
    ((∃ c, s.file = .data c) → ∃ c, (run s ops).file = .data c) ∧
    (Inv s → ∀ c, (run s ops).file = .data c → WF c) := by
  refine ⟨?_, ?_, ?_⟩
  · induction ops generalizing s with
    | nil => intro h; exact h
    | cons op ops ih =>
      intro h
      simp only [run]
      exact ih _ (fun o ho => hops o (by simp [ho])) (step_file_loadable (hops op (by simp)) h)
  · induction ops generalizing s with
    | nil => intro h; exact h
    | cons op ops ih =>
      intro h
      simp only [run]
      exact ih _ (fun o ho => hops o (by simp [ho])) (step_file_data (hops op (by simp)) h)
  · intro hinv
    have hok : ∀ op ∈ ops, OpOk op := by
      intro op hop
      have := hops op hop
      cases op <;> simp [Op.isWriterOp] at this <;> trivial
    exact (run_inv ops s hinv hok).2

/-- every commit half of a flush, and every raw write, by an existing store leaves a cache in the file -/
theorem commit_leaves_cache (s : Sys) (i : Nat) (wc : Bool) (ch : List Nat) (hi : i < s.ws.length)
    (hd : (getW s.ws i).disabled = false) :
    (∃ c, (step s (.flushCommit i wc ch)).file = .data c) ∧ (∃ c, (step s (.write i)).file = .data c) := by
  simp [step, hi, hd]

/-- **A corrupt or foreign file is ignored.** `load_cache_data` fails on it (it does not crash: the model is
total), and a flush over it writes exactly the store's own memory (cleaned if asked) — the same as over a
missing file — and leaves a loadable file. -/
theorem corrupt_ignored (s : Sys) (i : Nat) (wc : Bool) (ch : List Nat) (hi : i < s.ws.length)
    (hd : (getW s.ws i).disabled = false) (hf : s.file = .garbage ∨ s.file = .absent) :
    load s.cfg ch s.now s.file = none ∧
    (run s (flushOps i wc ch)).file =
      .data (if wc then removeOldest s.cfg ch s.now (cleanup s.cfg ch s.now (getW s.ws i).mem) else (getW s.ws i).mem) := by
  have hl : load s.cfg ch s.now s.file = none := by
    rcases hf with h | h <;> simp [h, load]
  refine ⟨hl, ?_⟩
  simp only [flushOps, run, step, length_modAt, hi, commitData]
  rw [getW_modAt _ _ _ hi]
  simp [hl, hd]

/-- **A corrupt, foreign or missing cache file never makes start-up fail.** `PeersArgs::get_bootstrap_addr` (the
path antnode, the CLI and the client take to find their first peers) gives, over an unparsable cache file, exactly
the result it gives with no cache file at all — whatever the flags, `--peer` arguments, `ANT_PEERS` and `count`;
and over ANY file content it succeeds whenever it succeeds without a cache file (the cache only ever adds
addresses). Depends on the load result being consumed with `if let Ok(..)` (`startupIgnoresLoadError`, read off
the source). -/
theorem startup_ignores_corrupt_cache (cfg : Cfg) (ch ord : List Nat) (now : Nat) (args : StartArgs) (env : List Ma) :
    startup cfg ch ord now args env .garbage = startup cfg ch ord now args env .absent := by
  simp [startup, load, startupIgnoresLoadError]

theorem startup_never_fails_because_of_cache (cfg : Cfg) (ch ord : List Nat) (now : Nat) (args : StartArgs)
    (env : List Ma) (file : File) (h : okB (startup cfg ch ord now args env .absent) = true) :
    okB (startup cfg ch ord now args env file) = true := by
  simp only [startup, load, startupIgnoresLoadError, Bool.true_or, if_true] at h ⊢
  split
  · rfl
  · rw [if_neg (by assumption)] at h
    split
    · rfl
    · rw [if_neg (by assumption)] at h
      split
      · rfl
      · rw [if_neg (by assumption)] at h
        split
        · rfl
        · rw [if_neg (by assumption)] at h
          split
          · rw [if_pos (by assumption)] at h; exact h
          · rw [if_neg (by assumption)] at h
            have hne : (List.map (startAddr now) (List.filterMap craft args.addrs)).isEmpty = false := by
              simp only [finish] at h
              split at h
              · simp [okB] at h
              · rename_i hx; simpa using hx
            cases file with
            | absent => exact h
            | garbage => exact h
            | data c =>
              simp only [finish]
              have : (List.map (startAddr now) (List.filterMap craft args.addrs) ++
                  cachePicks ord (if loadCleans = true then cleanup cfg ch now c else c)).isEmpty = false := by
                cases hl : List.map (startAddr now) (List.filterMap craft args.addrs) with
                | nil => simp [hl] at hne
                | cons x t => simp
              simp [this, okB]

/-! ## Non-vacuity and concrete instances -/

def q (ip port p : Nat) : Ma := [.ip4 ip, .udp port, .quic, .p2p p]
def cfg22 : Cfg := ⟨2, 2, 100⟩

-- a relay circuit address is reduced to the relay's own dialable address
example : craft [.ip4 1, .udp 2, .quic, .p2p 7, .circuit, .p2p 9] = some [.ip4 1, .udp 2, .quic, .p2p 7] := by decide
-- ip6 / dns / missing peer id / garbage are refused
example : craft [.ip6 1, .udp 2, .quic, .p2p 7] = none := by decide
example : craft [.ip4 1, .udp 2, .quic] = none := by decide
example : craft [.other 3, .ws, .circuit] = none := by decide
-- protocols in any order are normalised
example : craft [.p2p 3, .ws, .tcp 5, .other 1, .ip4 9] = some [.ip4 9, .tcp 5, .ws, .p2p 3] := by decide

-- three peers into a cache limited to two: the oldest is evicted
example : (run (Sys.init cfg22 1) [.tick 1, .add 0 (q 1 1 1) [], .tick 1, .add 0 (q 1 1 2) [], .tick 1, .add 0 (q 1 1 3) []]).ws
    = [⟨[(2, [⟨q 1 1 2, 1, 0, 1000002⟩]), (3, [⟨q 1 1 3, 1, 0, 1000003⟩])], none, false⟩] := by decide
-- two failures against one success: dropped by clean-up; an expired address likewise
example : cleanup cfg22 [] 50 [(1, [⟨q 1 1 1, 1, 2, 40⟩]), (2, [⟨q 1 1 2, 1, 1, 40⟩])] = [(2, [⟨q 1 1 2, 1, 1, 40⟩])] := by decide
example : cleanup cfg22 [] 200 [(1, [⟨q 1 1 1, 1, 0, 100⟩]), (2, [⟨q 1 1 2, 1, 0, 101⟩])] = [(2, [⟨q 1 1 2, 1, 0, 101⟩])] := by decide
-- the hypotheses of `wellformed`, `bounds_invariant` and `concurrent_flush_loadable` are satisfiable: the initial state
example : Inv (Sys.init cfg22 3) ∧ BoundedSys (Sys.init cfg22 3) := ⟨init_inv _ _, init_bounded _ _⟩
-- two writers interleave load/commit halves: the second commit overwrites, the file stays a well-formed cache
example : (run (Sys.init cfg22 2)
    [.tick 1, .add 0 (q 1 1 1) [], .tick 1, .add 1 (q 1 1 2) [], .flushLoad 0 [], .flushLoad 1 [], .flushCommit 0 true [], .flushCommit 1 true []]).file
    = .data [(2, [⟨q 1 1 2, 1, 0, 1000002⟩])] := by decide
-- a merge keeps both sides (instance of `sync_keeps_both` with both sides non-empty)
example : syncCache [(1, [⟨q 1 1 1, 1, 0, 5⟩])] [(1, [⟨q 2 2 1, 3, 1, 4⟩]), (2, [⟨q 1 1 2, 1, 0, 3⟩])]
    = [(1, [⟨q 1 1 1, 1, 0, 5⟩, ⟨q 2 2 1, 3, 1, 4⟩]), (2, [⟨q 1 1 2, 1, 0, 3⟩])] := by decide
-- `Clean` is satisfiable, so the identity part of `save_load_identity_mod_cleanup` is not vacuous
example : Clean cfg22 10 [(1, [⟨q 1 1 1, 1, 0, 5⟩])] := by
  refine ⟨⟨by decide, by intro e he; simp at he; subst he; decide⟩, ?_⟩
  intro e he; simp at he; subst he
  refine ⟨by simp, ?_⟩
  intro a ha; simp at ha; subst ha; decide
-- a corrupt file is overwritten by a flush
example : (run { Sys.init cfg22 1 with file := .garbage } (flushOps 0 true [])).file = .data [] := by decide

end SafeNet.Props.C18

#print axioms SafeNet.Props.C18.cleanup_bounds
#print axioms SafeNet.Props.C18.add_addr_bounds
#print axioms SafeNet.Props.C18.bounds_invariant
#print axioms SafeNet.Props.C18.wellformed
#print axioms SafeNet.Props.C18.craft_dialable
#print axioms SafeNet.Props.C18.cleanup_drops_expired_and_unreliable
#print axioms SafeNet.Props.C18.cleanup_only_removes
#print axioms SafeNet.Props.C18.sort_key_constant_after_filter
#print axioms SafeNet.Props.C18.eviction_choice_legal
#print axioms SafeNet.Props.C18.sync_keeps_both
#print axioms SafeNet.Props.C18.flush_writes_merge
#print axioms SafeNet.Props.C18.save_load_identity_mod_cleanup
#print axioms SafeNet.Props.C18.rebuild_same_file
#print axioms SafeNet.Props.C18.concurrent_flush_loadable
#print axioms SafeNet.Props.C18.commit_leaves_cache
#print axioms SafeNet.Props.C18.corrupt_ignored
#print axioms SafeNet.Props.C18.startup_ignores_corrupt_cache
#print axioms SafeNet.Props.C18.startup_never_fails_because_of_cache
