import SafeNet.Proofs.SelfEnc
/-!
C14 — self-encrypted data round-trips; chunks are bounded and content-addressed.
Statements are over the model of `encrypt` / `pack_data_map` / `fetch_from_data_map(_chunk)` in `Model/SelfEnc.lean`;
what is packed at each level, what the fetch loop unwraps, the size guard and the chunk order are regenerated from
the Rust source (`Gen/SelfEnc.lean`). The third-party `self_encryption` crate, sha3 and the rmp codec are the structure
parameter `SE` with the hypotheses `Laws` (functional behaviour) and `Shrinks` (sizes) — they are assumed, not verified.
Nothing is assumed of the hash beyond "the chunks at hand do not collide" (`NoCollision`, a hypothesis on the produced
chunks, satisfiable by a real hash, unlike global injectivity). That `self_encryption::encrypt` is a function of its
input (same bytes ⇒ same data map and chunks) is built into `SE.enc` being a Lean function: an assumption on the
third-party crate, checked on the real code by the harness (clause `encrypt-deterministic`).
-/
namespace SafeNet.Props.C14
open SafeNet.Model.SelfEnc SafeNet.Proofs.SelfEnc

variable {B DM : Type}

/-! ### fetch_pack_roundtrip -/

/-- Every produced chunk, the data-map chunk included, is addressed by the hash of its content (stated again below as
`chunks_content_addressed`). -/
theorem chunks_content_addressed_aux (S : SE B DM) (max fuel : Nat) (data : B) (dataMapChunk : Chunk B)
    (chunks : List (Chunk B)) (h : encrypt S max fuel data = .ok (dataMapChunk, chunks)) :
    dataMapChunk.address = S.hash dataMapChunk.value ∧ ∀ c ∈ chunks, c.address = S.hash c.value := by
  unfold encrypt at h
  split at h
  · cases h
  · rename_i dm cs henc
    split at h
    · cases h
    · rename_i dmc additional hpack
      simp only [Except.ok.injEq, Prod.mk.injEq] at h
      obtain ⟨hwfadd, hdm⟩ := pack_wf S max fuel _ [] _ _ hpack (by intro c hc; cases hc)
      rw [← h.1, ← h.2]
      refine ⟨by rw [hdm]; rfl, ?_⟩
      intro c hc
      cases List.mem_append.1 hc with
      | inl h1 => obtain ⟨v, _, hv⟩ := List.mem_map.1 h1; rw [← hv]; rfl
      | inr h2 => exact hwfadd c h2

/-- The round trip against ANY honest record source that holds at least the produced chunks (`store`: every chunk
addressed by the hash of its value, no two values in it colliding): what else the source holds does not matter. -/
theorem fetch_pack_roundtrip_store (S : SE B DM) (L : Laws S) (max fuel : Nat) (data : B)
    (dataMapChunk : Chunk B) (chunks store : List (Chunk B))
    (h : encrypt S max fuel data = .ok (dataMapChunk, chunks))
    (hsub : ∀ c ∈ chunks, c ∈ store) (hwf : WF S store)
    (hcf : NoCollision S (store.map (·.value))) :
    ∀ fuel', fuel + 1 ≤ fuel' → ∀ codes : List (List Nat),
      fetchFromDataMapChunk S (storeGet store) fuel' codes dataMapChunk.value = .ok data := by
  unfold encrypt at h
  split at h
  · cases h
  · rename_i dm cs henc
    split at h
    · cases h
    · rename_i dmc additional hpack
      simp only [Except.ok.injEq, Prod.mk.injEq] at h
      obtain ⟨h1, h2⟩ := h
      subst h1
      unfold packDataMap at hpack
      have hcs : ∀ c ∈ cs, Chunk.new S c ∈ store := by
        intro c hc; apply hsub; rw [← h2]; exact List.mem_append_left _ (List.mem_map_of_mem hc)
      -- the first level is good at depth 1
      have hgood : Good S store data (false, dm) 1 := by
        intro f hf codes
        obtain ⟨f', rfl⟩ : ∃ f', f = f' + 1 := ⟨f - 1, by omega⟩
        simp only [fetchLoop]
        rw [fetch_round S L store hwf hcf data dm cs henc hcs]
        simp
      obtain ⟨lvl', depth', hun, hg, hle⟩ := pack_good S L max store hwf hcf data fuel _ [] _ _ hpack
        (by intro c hc; apply hsub; rw [← h2]; exact List.mem_append_right _ hc) (false, dm) 1 (L.unwrap_wrap false dm) hgood
      intro fuel' hfuel codes
      unfold fetchFromDataMapChunk
      rw [hun]
      exact hg fuel' (by omega) codes

/-- For every input that `encrypt` accepts — whatever the number of data-map levels — fetching through the returned
data-map chunk against a record source that holds exactly the produced chunks returns the input, for every completion
order of the chunk fetches of every round (`codes`: every code is a permutation and every permutation has a code,
`completion_codes_are_the_permutations`), given enough loop iterations. The only thing asked of the hash is that no two
of the produced chunks collide (a colliding pair would share one address, and the store can hold only one of them). -/
theorem fetch_pack_roundtrip (S : SE B DM) (L : Laws S) (max fuel : Nat) (data : B)
    (dataMapChunk : Chunk B) (chunks : List (Chunk B))
    (h : encrypt S max fuel data = .ok (dataMapChunk, chunks))
    (hcf : NoCollision S (chunks.map (·.value))) :
    ∀ fuel', fuel + 1 ≤ fuel' → ∀ codes : List (List Nat),
      fetchFromDataMapChunk S (storeGet chunks) fuel' codes dataMapChunk.value = .ok data := by
  have hwf : WF S chunks := fun c hc => (chunks_content_addressed_aux S max fuel data dataMapChunk chunks h).2 c hc
  exact fetch_pack_roundtrip_store S L max fuel data dataMapChunk chunks chunks h (fun c hc => hc) hwf hcf

/-- The completion orders the round-trip theorem quantifies over are exactly the permutations of the download tasks:
every code denotes a permutation of the task list and every permutation of it has a code. -/
theorem completion_codes_are_the_permutations {α : Type} (tasks order : List α) :
    order.Perm tasks ↔ ∃ code, permute code tasks = order :=
  ⟨permute_surj tasks order, fun ⟨code, h⟩ => h ▸ permute_perm code tasks⟩

/-! ### datamap_chunk_bounded, chunks_bounded -/

/-- The returned data-map chunk passes the size guard against `MAX_CHUNK_SIZE` … -/
theorem datamap_chunk_fits (S : SE B DM) (max fuel : Nat) (data : B) (dataMapChunk : Chunk B) (chunks : List (Chunk B))
    (h : encrypt S max fuel data = .ok (dataMapChunk, chunks)) :
    Gen.SelfEnc.packFits max (S.len dataMapChunk.value) = true := by
  unfold encrypt at h
  split at h
  · cases h
  · split at h
    · cases h
    · rename_i dmc additional hpack
      simp only [Except.ok.injEq, Prod.mk.injEq] at h
      rw [← h.1]
      exact pack_bounded S max fuel _ [] _ _ hpack

/-- … which, with the guard as it is in the source, means it is no larger than `MAX_CHUNK_SIZE`. -/
theorem datamap_chunk_bounded (S : SE B DM) (max fuel : Nat) (data : B) (dataMapChunk : Chunk B) (chunks : List (Chunk B))
    (h : encrypt S max fuel data = .ok (dataMapChunk, chunks)) :
    S.len dataMapChunk.value ≤ max := by
  have := datamap_chunk_fits S max fuel data dataMapChunk chunks h
  simpa [Gen.SelfEnc.packFits] using this

/-- All other chunks are outputs of the third-party `encrypt`: they obey whatever bound that crate guarantees
(`bound`; measured by the harness: cipher/compression overhead over `MAX_CHUNK_SIZE`). -/
theorem chunks_bounded (S : SE B DM) (max fuel bound : Nat) (data : B) (dataMapChunk : Chunk B) (chunks : List (Chunk B))
    (hbound : ∀ b dm cs, S.enc b = some (dm, cs) → ∀ c ∈ cs, S.len c ≤ bound)
    (h : encrypt S max fuel data = .ok (dataMapChunk, chunks)) :
    ∀ c ∈ chunks, S.len c.value ≤ bound := by
  -- invariant of the pack loop: every accumulated chunk is bounded
  have hloop : ∀ (fuel : Nat) (content : B) (acc : List (Chunk B)) dmc out,
      packLoop S max fuel content acc = .ok (dmc, out) → (∀ c ∈ acc, S.len c.value ≤ bound) →
      ∀ c ∈ out, S.len c.value ≤ bound := by
    intro fuel
    induction fuel with
    | zero => intro content acc dmc out h; simp [packLoop] at h
    | succ fuel ih =>
      intro content acc dmc out h hacc
      simp only [packLoop] at h
      split at h
      · simp only [Except.ok.injEq, Prod.mk.injEq] at h
        rw [← h.2]
        intro c hc
        apply hacc
        split at hc
        · exact List.mem_reverse.1 hc
        · exact hc
      · split at h
        · cases h
        · rename_i dm next henc
          apply ih _ _ _ _ h
          intro c hc
          have : c ∈ next.map (Chunk.new S) ∨ c ∈ acc := by
            split at hc
            · exact List.mem_append.1 hc
            · exact (List.mem_append.1 hc).symm
          cases this with
          | inl h1 =>
            obtain ⟨v, hv, hcv⟩ := List.mem_map.1 h1
            rw [← hcv]; exact hbound _ _ _ henc v hv
          | inr h2 => exact hacc c h2
  unfold encrypt at h
  split at h
  · cases h
  · rename_i dm cs henc
    split at h
    · cases h
    · rename_i dmc additional hpack
      simp only [Except.ok.injEq, Prod.mk.injEq] at h
      rw [← h.2]
      intro c hc
      cases List.mem_append.1 hc with
      | inl h1 =>
        obtain ⟨v, hv, hcv⟩ := List.mem_map.1 h1
        rw [← hcv]; exact hbound _ _ _ henc v hv
      | inr h2 => exact hloop fuel _ [] _ _ hpack (by intro c hc; cases hc) c h2

/-- The clause as the property words it: *every* produced chunk is no larger than `MAX_CHUNK_SIZE`. It speaks about the
output of the third-party crate, so its truth depends on the `SE` instance — and it is FALSE of the real one: the
crate's cipher pads every encrypted chunk, a full-size chunk comes out 16 bytes longer than `MAX_CHUNK_SIZE` (harness
op `bound`: 416 bytes with `MAX_CHUNK_SIZE=400`, 1048592 with the shipped 1 MiB; known finding K-j-chunk-exceeds-max). -/
def AllChunksBounded (S : SE B DM) (max : Nat) : Prop :=
  ∀ fuel data dataMapChunk chunks, encrypt S max fuel data = .ok (dataMapChunk, chunks) →
    ∀ c ∈ chunks, S.len c.value ≤ max

/-- What IS bounded. The data-map chunk is no larger than `MAX_CHUNK_SIZE` (repo code decides that); every other chunk
is an output of the third-party `encrypt` and is no larger than `MAX_CHUNK_SIZE + over` if that is the crate's bound
(`hbound`; measured `over = 16`); and every chunk record — two header bytes, the msgpack `bin` header of at most five
bytes, the value — is smaller than the node's `MAX_PACKET_SIZE` (`packet`, the size of record a node stores) whenever
`max + over + 7 < packet` (shipped: 1 MiB + 16 + 7 < 5 MiB, example below). -/
theorem chunks_bounded_partial (S : SE B DM) (max fuel over packet : Nat) (data : B) (dataMapChunk : Chunk B)
    (chunks : List (Chunk B))
    (hbound : ∀ b dm cs, S.enc b = some (dm, cs) → ∀ c ∈ cs, S.len c ≤ max + over)
    (hbin : ∀ b, S.len (S.bin b) ≤ S.len b + 5)
    (hpacket : max + over + 7 < packet)
    (h : encrypt S max fuel data = .ok (dataMapChunk, chunks)) :
    S.len dataMapChunk.value ≤ max ∧ (∀ c ∈ chunks, S.len c.value ≤ max + over) ∧
      ∀ c ∈ dataMapChunk :: chunks, 2 + S.len (S.bin c.value) < packet := by
  have hdm := datamap_chunk_bounded S max fuel data dataMapChunk chunks h
  have hcs := chunks_bounded S max fuel (max + over) data dataMapChunk chunks hbound h
  refine ⟨hdm, hcs, ?_⟩
  intro c hc
  have hb := hbin c.value
  cases hc with
  | head => omega
  | tail _ hc => have := hcs c hc; omega

/-! ### chunks_content_addressed -/

/-- Every produced chunk, the data-map chunk included, is addressed by the hash of its content. -/
theorem chunks_content_addressed (S : SE B DM) (max fuel : Nat) (data : B) (dataMapChunk : Chunk B)
    (chunks : List (Chunk B)) (h : encrypt S max fuel data = .ok (dataMapChunk, chunks)) :
    dataMapChunk.address = S.hash dataMapChunk.value ∧ ∀ c ∈ chunks, c.address = S.hash c.value :=
  chunks_content_addressed_aux S max fuel data dataMapChunk chunks h

/-! ### encrypt_deterministic -/

/-- The result is a function of the input alone: two successful runs (whatever the iteration budgets) return the
same data-map chunk and the same chunks, hence the same addresses. What this proves is that the repo's packing adds no
dependence on anything but the input (in the model: the iteration budget); that the third-party `encrypt` itself
returns the same data map and chunk contents for the same bytes is not proved but assumed — `SE.enc` is a function —
and is checked on the real code by the harness (same input encrypted twice ⇒ same data-map chunk and same sorted
chunk addresses; the order of the chunk list inside a level is run dependent and deliberately not part of the claim). -/
theorem encrypt_deterministic (S : SE B DM) (max fuel fuel' : Nat) (data : B) (r r' : Chunk B × List (Chunk B))
    (h : encrypt S max fuel data = .ok r) (h' : encrypt S max fuel' data = .ok r') : r = r' := by
  have key : ∀ f f', f ≤ f' → ∀ r r', encrypt S max f data = .ok r → encrypt S max f' data = .ok r' → r = r' := by
    intro f f' hle r r' h h'
    unfold encrypt at h h'
    cases henc : S.enc data with
    | none => simp [henc] at h
    | some p =>
      obtain ⟨dm, cs⟩ := p
      simp only [henc] at h h'
      unfold packDataMap at h h'
      cases hp : packLoop S max f (S.wrap false dm) [] with
      | error e => simp [hp] at h
      | ok q =>
        have hp' := pack_fuel_mono S max f _ [] q hp f' hle
        simp only [hp] at h
        simp only [hp'] at h'
        rw [← Except.ok.inj h, ← Except.ok.inj h']
  cases Nat.le_total fuel fuel' with
  | inl hle => exact key fuel fuel' hle r r' h h'
  | inr hle => exact (key fuel' fuel hle r' r h' h).symm

/-! ### too_small_rejected -/

/-- Inputs below the self-encryption minimum are rejected with an error, nothing is produced. -/
theorem too_small_rejected (S : SE B DM) (L : Laws S) (max fuel : Nat) (data : B) (hsmall : S.len data < 3) :
    encrypt S max fuel data = .error .selfEncryption := by
  unfold encrypt
  rw [(L.enc_none_iff_small data).2 hsmall]

/-- The same on every client entry point that takes bytes to self-encryption (private put, public put, cost
estimate): each hands the caller's bytes to `encrypt` as they are (flags regenerated from the source), so an input
below the minimum is an error there too — it is never padded or otherwise turned into something encryptable. -/
theorem too_small_rejected_on_every_entry_point (S : SE B DM) (L : Laws S) (max fuel : Nat) (pre : B → B) (data : B)
    (hsmall : S.len data < 3) (e : Entry) :
    putEntry S max fuel pre e data = .error .selfEncryption := by
  have hpass : e.passesBytesUnchanged = true := by cases e <;> rfl
  unfold putEntry
  rw [hpass]
  exact too_small_rejected S L max fuel data hsmall

/-- python.rs `encrypt`: a too-small input is an error whichever way the binding reaches self-encryption — directly (the
crate's own refusal) or, were it routed through the repo's `encrypt`, by `too_small_rejected` (both branches are
proved; the statement does not lean on the flag). -/
theorem too_small_rejected_python (S : SE B DM) (L : Laws S) (max fuel : Nat) (data : B) (hsmall : S.len data < 3) :
    pythonEncrypt S max fuel data = .error .selfEncryption := by
  unfold pythonEncrypt
  split
  · rw [(L.enc_none_iff_small data).2 hsmall]
  · rw [too_small_rejected S L max fuel data hsmall]

/-- What the flag says about the code as it is (pinned by `rfl`: routing the binding through the repo's `encrypt` breaks
this proof): the binding returns the contents of the FIRST-level chunks only, whatever the size of the data map — the
chunks of further data-map levels and the `DataMapLevel` chunk the client's reads start from are never produced, so its
output is outside the round-trip theorems (declared uncovered). -/
theorem python_encrypt_bypasses_packing (S : SE B DM) (max fuel : Nat) (data : B) (dm : DM) (cs : List B)
    (h : S.enc data = some (dm, cs)) : pythonEncrypt S max fuel data = .ok cs := by
  have hflag : Gen.SelfEnc.pythonEncryptBypassesPacking = true := rfl
  unfold pythonEncrypt
  rw [hflag, h]
  rfl

/-- and what an entry point accepts is exactly what `encrypt` makes of the caller's own bytes, hence reads back as
them (`fetch_pack_roundtrip`). -/
theorem entry_roundtrip (S : SE B DM) (L : Laws S) (max fuel : Nat) (pre : B → B) (data : B) (e : Entry)
    (dataMapChunk : Chunk B) (chunks : List (Chunk B))
    (h : putEntry S max fuel pre e data = .ok (dataMapChunk, chunks))
    (hcf : NoCollision S (chunks.map (·.value))) :
    ∀ fuel', fuel + 1 ≤ fuel' → ∀ codes : List (List Nat),
      fetchFromDataMapChunk S (storeGet chunks) fuel' codes dataMapChunk.value = .ok data := by
  have hpass : e.passesBytesUnchanged = true := by cases e <;> rfl
  unfold putEntry at h
  rw [hpass] at h
  exact fetch_pack_roundtrip S L max fuel data dataMapChunk chunks h hcf

/-! ### What is uploaded: fetch after put round-trips against what the client itself PUT -/

/-- The private put uploads every produced chunk, the public put every produced chunk and the data-map chunk (the
argument of `upload_chunks_with_retries`, regenerated from the source); with a receipt that covers them, exactly those
are PUT, each under its own address. -/
theorem uploaded_is_everything (dataMapChunk : Chunk B) (chunks : List (Chunk B)) (paid : Nat → Bool)
    (hpaid : ∀ c ∈ chunks ++ [dataMapChunk], paid c.address = true) :
    putRecords paid (uploaded .dataPut dataMapChunk chunks) = chunks ∧
    putRecords paid (uploaded .dataPutPublic dataMapChunk chunks) = chunks ++ [dataMapChunk] := by
  have h1 : chunks.filter (fun c => paid c.address) = chunks :=
    List.filter_eq_self.2 (fun c hc => hpaid c (List.mem_append_left _ hc))
  have h2 : (chunks ++ [dataMapChunk]).filter (fun c => paid c.address) = chunks ++ [dataMapChunk] :=
    List.filter_eq_self.2 hpaid
  constructor
  · simp only [putRecords, uploaded, Gen.SelfEnc.uploadSkipsOnlyUnpaid, Gen.SelfEnc.putRecordIsChunkUnderOwnAddress,
      Gen.SelfEnc.dataPutUploadsChunks, Bool.and_self, ↓reduceIte]
    exact h1
  · simp only [putRecords, uploaded, Gen.SelfEnc.uploadSkipsOnlyUnpaid, Gen.SelfEnc.putRecordIsChunkUnderOwnAddress,
      Gen.SelfEnc.dataPutPublicUploadsChunks, Gen.SelfEnc.dataPutPublicUploadsDataMap, Bool.and_self, ↓reduceIte]
    exact h2

/-- Private put, then `data_get` of the returned data-map chunk against the records the put itself uploaded: the
caller's bytes, for every completion order. (Dropping any produced chunk from the upload — e.g. those of the additional
data-map levels — breaks this proof: `uploaded` is regenerated from the source.) -/
theorem put_then_get_roundtrips (S : SE B DM) (L : Laws S) (max fuel : Nat) (pre : B → B) (data : B)
    (dataMapChunk : Chunk B) (chunks : List (Chunk B)) (paid : Nat → Bool)
    (h : putEntry S max fuel pre .dataPut data = .ok (dataMapChunk, chunks))
    (hpaid : ∀ c ∈ chunks ++ [dataMapChunk], paid c.address = true)
    (hcf : NoCollision S (chunks.map (·.value))) :
    ∀ fuel', fuel + 1 ≤ fuel' → ∀ codes : List (List Nat),
      fetchFromDataMapChunk S (storeGet (putRecords paid (uploaded .dataPut dataMapChunk chunks))) fuel' codes
        dataMapChunk.value = .ok data := by
  rw [(uploaded_is_everything dataMapChunk chunks paid hpaid).1]
  exact entry_roundtrip S L max fuel pre data .dataPut dataMapChunk chunks h hcf

/-- Public put, then `data_get_public` of the returned ADDRESS against the records the put itself uploaded: the data-map
chunk is found under that address (it was uploaded too) and fetching through it returns the caller's bytes. The
collision hypothesis now includes the data-map chunk (it shares the store with the content chunks). -/
theorem put_public_then_get_roundtrips (S : SE B DM) (L : Laws S) (max fuel : Nat) (pre : B → B) (data : B)
    (dataMapChunk : Chunk B) (chunks : List (Chunk B)) (paid : Nat → Bool)
    (h : putEntry S max fuel pre .dataPutPublic data = .ok (dataMapChunk, chunks))
    (hpaid : ∀ c ∈ chunks ++ [dataMapChunk], paid c.address = true)
    (hcf : NoCollision S ((chunks ++ [dataMapChunk]).map (·.value))) :
    ∃ m, storeGet (putRecords paid (uploaded .dataPutPublic dataMapChunk chunks)) dataMapChunk.address = .ok m ∧
      m.value = dataMapChunk.value ∧
      ∀ fuel', fuel + 1 ≤ fuel' → ∀ codes : List (List Nat),
        fetchFromDataMapChunk S (storeGet (putRecords paid (uploaded .dataPutPublic dataMapChunk chunks))) fuel' codes
          m.value = .ok data := by
  rw [(uploaded_is_everything dataMapChunk chunks paid hpaid).2]
  have hpass : Entry.dataPutPublic.passesBytesUnchanged = true := rfl
  unfold putEntry at h
  rw [hpass] at h
  simp only [↓reduceIte] at h
  obtain ⟨hdm, hcs⟩ := chunks_content_addressed_aux S max fuel data dataMapChunk chunks h
  have hwf : WF S (chunks ++ [dataMapChunk]) := by
    intro c hc
    cases List.mem_append.1 hc with
    | inl h1 => exact hcs c h1
    | inr h2 => simp only [List.mem_singleton] at h2; subst h2; exact hdm
  have hin : Chunk.new S dataMapChunk.value ∈ chunks ++ [dataMapChunk] := by
    have : Chunk.new S dataMapChunk.value = dataMapChunk := by
      cases dataMapChunk with
      | mk a v =>
        have : a = S.hash v := hdm
        subst this; rfl
    rw [this]; simp
  obtain ⟨m, hget, hval⟩ := storeGet_hit S _ hwf hcf dataMapChunk.value hin
  refine ⟨m, by rw [hdm]; exact hget, hval, ?_⟩
  rw [hval]
  exact fetch_pack_roundtrip_store S L max fuel data dataMapChunk chunks _ h
    (fun c hc => List.mem_append_left _ hc) hwf hcf

/-- OBSERVATION (not a clause of C14): a chunk the receipt has no entry for is silently skipped ("already paid") and the
put still succeeds — with an empty receipt nothing is stored at all. -/
theorem unpaid_chunks_are_not_uploaded (dataMapChunk : Chunk B) (chunks : List (Chunk B)) (e : Entry) :
    putRecords (fun _ => false) (uploaded e dataMapChunk chunks) = [] := by
  simp [putRecords]

/-- …and only those are rejected at the first level. -/
theorem large_enough_encrypted (S : SE B DM) (L : Laws S) (data : B) (hlarge : 3 ≤ S.len data) :
    ∃ dm cs, S.enc data = some (dm, cs) := by
  cases h : S.enc data with
  | none => have := (L.enc_none_iff_small data).1 h; omega
  | some p => exact ⟨p.1, p.2, rfl⟩

/-! ### encrypt_succeeds -/

/-- Every input large enough to be self-encrypted IS encrypted: `encrypt` returns, the pack loop comes to an end —
provided the crate's data maps shrink from level to level above `floor` bytes (`Shrinks`) and a chunk can hold `floor`
bytes. (With `MAX_CHUNK_SIZE` below the size of a three-chunk data-map level the Rust loop would never return: every
input gives at least three chunks, whose level never fits.) -/
theorem encrypt_succeeds (S : SE B DM) (L : Laws S) (max floor : Nat) (H : Shrinks S floor) (hfl : floor ≤ max)
    (data : B) (hlarge : 3 ≤ S.len data) :
    ∃ fuel r, encrypt S max fuel data = .ok r := by
  obtain ⟨dm, cs, henc⟩ := large_enough_encrypted S L data hlarge
  obtain ⟨r, hr⟩ := pack_terminates S L max floor H hfl (S.len (S.wrap false dm)) (S.wrap false dm) [] (Nat.le_refl _)
  refine ⟨S.len (S.wrap false dm) + 1, (r.1, cs.map (Chunk.new S) ++ r.2), ?_⟩
  unfold encrypt packDataMap
  rw [henc]
  simp only [hr]

/-- …and with it the whole clause without a success hypothesis: a large-enough input encrypts and reads back. -/
theorem large_enough_roundtrips (S : SE B DM) (L : Laws S) (max floor : Nat) (H : Shrinks S floor) (hfl : floor ≤ max)
    (data : B) (hlarge : 3 ≤ S.len data) :
    ∃ fuel dataMapChunk chunks, encrypt S max fuel data = .ok (dataMapChunk, chunks) ∧
      (NoCollision S (chunks.map (·.value)) → ∀ fuel', fuel + 1 ≤ fuel' → ∀ codes : List (List Nat),
        fetchFromDataMapChunk S (storeGet chunks) fuel' codes dataMapChunk.value = .ok data) := by
  obtain ⟨fuel, r, hr⟩ := encrypt_succeeds S L max floor H hfl data hlarge
  exact ⟨fuel, r.1, r.2, hr, fun hcf => fetch_pack_roundtrip S L max fuel data r.1 r.2 hr hcf⟩

/-! ### Non-vacuity: the hypotheses are satisfiable and a two-level pack happens -/

section Examples

/-- lengths of the toy byte strings: by format -/
def toyLen (n : Nat) : Nat := if n % 4 = 0 then 100 else if n % 4 = 1 then 50 else if n % 4 = 2 then 60 else 5

theorem toyLen_ge (n : Nat) : 3 ≤ toyLen n := by
  unfold toyLen; split
  · omega
  · split
    · omega
    · split <;> omega

/-- toy instance: byte strings are numbers, the residue mod 4 is the "format" (0 raw, 1 `First`, 3 `Additional`,
2 serialised chunk), the data map is the data itself; lengths make the first data map too big for `max = 10`. -/
def toy : SE Nat Nat where
  len := toyLen
  hash b := b
  enc b := some (b, [b])
  infos dm := [dm]
  dec dm _ := some dm
  wrap a dm := 4 * dm + (if a then 3 else 1)
  unwrap n := if n % 4 = 1 then some (false, n / 4) else if n % 4 = 3 then some (true, n / 4) else none
  bin b := 4 * b + 2
  unbin n := if n % 4 = 2 then some (n / 4) else none

theorem toy_laws : Laws toy where
  enc_sound := by
    intro b dm cs h
    simp only [toy, Option.some.injEq, Prod.mk.injEq] at h ⊢
    refine ⟨cs, List.Perm.refl _, ?_, h.1.symm ▸ rfl⟩
    rw [← h.2, ← h.1]; rfl
  dec_perm := by intros; rfl
  enc_none_iff_small := by
    intro b
    simp only [toy]
    have := toyLen_ge b
    constructor
    · intro h; cases h
    · intro h; omega
  unwrap_wrap := by
    intro a dm
    simp only [toy]
    cases a
    · have h1 : (4 * dm + 1) % 4 = 1 := by omega
      have h2 : (4 * dm + 1) / 4 = dm := by omega
      simp [h1, h2]
    · have h1 : (4 * dm + 3) % 4 = 3 := by omega
      have h2 : (4 * dm + 3) / 4 = dm := by omega
      simp [h1, h2]
  unbin_bin := by
    intro b
    simp only [toy]
    have h1 : (4 * b + 2) % 4 = 2 := by omega
    have h2 : (4 * b + 2) / 4 = b := by omega
    simp [h1, h2]

/-- `encrypt` of the raw input 28 with `max = 10`: the `First` map (113, 50 bytes) does not fit, its serialised chunk
(454) is self-encrypted and the `Additional` map (1819, 5 bytes) is returned: two levels. -/
example : (encrypt toy 10 5 28).toOption.map (fun r => (r.1.value, r.2.map (·.value))) = some (1819, [28, 454]) := by
  decide

/-- and the fetch loop gets back to 28 through both levels (instance of `fetch_pack_roundtrip`) -/
example : (fetchFromDataMapChunk toy (storeGet [⟨28, 28⟩, ⟨454, 454⟩]) 6 [[0], [0]] 1819).toOption = some 28 := by decide

example (codes : List (List Nat)) :
    fetchFromDataMapChunk toy (storeGet [⟨28, 28⟩, ⟨454, 454⟩]) 6 codes 1819 = .ok 28 :=
  fetch_pack_roundtrip toy toy_laws 10 5 28 ⟨1819, 1819⟩ [⟨28, 28⟩, ⟨454, 454⟩] (by rfl)
    (by intro a ha b hb h; exact h) 6 (by omega) codes

/-- the same instance with a hash that is NOT injective (`b % 4096`: 28 and 4124 collide), as no real hash is: the laws
hold and the round trip applies because the two produced chunks, 28 and 454, do not collide -/
def toyMod : SE Nat Nat := { toy with hash := fun b => b % 4096, infos := fun dm => [dm % 4096] }

theorem toyMod_laws : Laws toyMod where
  enc_sound := by
    intro b dm cs h
    simp only [toyMod, toy, Option.some.injEq, Prod.mk.injEq] at h ⊢
    refine ⟨cs, List.Perm.refl _, ?_, h.1.symm ▸ rfl⟩
    rw [← h.2, ← h.1]; rfl
  dec_perm := by intros; rfl
  enc_none_iff_small := toy_laws.enc_none_iff_small
  unwrap_wrap := toy_laws.unwrap_wrap
  unbin_bin := toy_laws.unbin_bin

example : toyMod.hash 28 = toyMod.hash 4124 ∧ (28 : Nat) ≠ 4124 := by decide

example (codes : List (List Nat)) :
    fetchFromDataMapChunk toyMod (storeGet [⟨28, 28⟩, ⟨454, 454⟩]) 6 codes 1819 = .ok 28 :=
  fetch_pack_roundtrip toyMod toyMod_laws 10 5 28 ⟨1819, 1819⟩ [⟨28, 28⟩, ⟨454, 454⟩] (by rfl)
    (by
      intro a ha b hb h
      simp only [List.map_cons, List.map_nil, List.mem_cons, List.not_mem_nil, or_false] at ha hb
      rcases ha with rfl | rfl <;> rcases hb with rfl | rfl <;> first | rfl | (exact absurd h (by decide)))
    6 (by omega) codes

/-- sizes of the toy instance: everything is at least 5 bytes long and an `Additional` level is 5 bytes -/
theorem toy_shrinks : Shrinks toy 5 where
  two_le := by omega
  packed_large := by intro b _; have := toyLen_ge (packedBytes toy b); exact this
  shrink := by
    intro b dm cs hb _
    have : toy.len (toy.wrap true dm) = 5 := by
      have h1 : (4 * dm + 3) % 4 = 3 := by omega
      simp [toy, toyLen, h1]
    omega

/-- instance of `encrypt_succeeds`: every toy input encrypts with `max = 10` -/
example (data : Nat) : ∃ fuel r, encrypt toy 10 fuel data = .ok r :=
  encrypt_succeeds toy toy_laws 10 5 toy_shrinks (by omega) data (toyLen_ge data)

/-- The clause "every produced chunk is no larger than `MAX_CHUNK_SIZE`" does not follow from what is assumed of the
crate, and fails where the crate pads: in the toy instance a raw input is its own (single) content chunk of 100 bytes;
with `max = 84` its data map fits at once and the content chunk is `max + 16` bytes long — the overhead measured on the
real crate (known finding K-j-chunk-exceeds-max). -/
theorem content_chunk_exceeds_max_witness : ¬ AllChunksBounded toy 84 := by
  intro h
  have := h 5 28 ⟨113, 113⟩ [⟨28, 28⟩] (by rfl) ⟨28, 28⟩ List.mem_cons_self
  exact absurd this (by decide)

/-- the shipped sizes satisfy the side condition of `chunks_bounded_partial`: 1 MiB + 16 + 7 < `MAX_PACKET_SIZE` -/
example : 1048576 + 16 + 7 < Gen.SelfEnc.maxPacketSize := by decide

/-- out of iterations is an error -/
example : (encrypt toy 10 0 28).toOption = none := by decide

end Examples


/-! ### Non-vacuity of the put-then-get theorems (toy instance, input 28: two chunks and a data-map chunk) -/

example : putEntry toy 10 5 id .dataPut 28 = .ok (⟨1819, 1819⟩, [⟨28, 28⟩, ⟨454, 454⟩]) := by rfl
example (codes : List (List Nat)) :
    fetchFromDataMapChunk toy (storeGet (putRecords (fun _ => true) (uploaded .dataPut ⟨1819, 1819⟩ [⟨28, 28⟩, ⟨454, 454⟩]))) 6 codes 1819 = .ok 28 :=
  put_then_get_roundtrips toy toy_laws 10 5 id 28 ⟨1819, 1819⟩ [⟨28, 28⟩, ⟨454, 454⟩] (fun _ => true) (by rfl)
    (by intros; rfl) (by intro a ha b hb h; exact h) 6 (by omega) codes
example : ∃ m, storeGet (putRecords (fun _ => true) (uploaded .dataPutPublic ⟨1819, 1819⟩ [⟨28, 28⟩, ⟨454, 454⟩])) 1819 = .ok m ∧
    m.value = 1819 ∧ ∀ codes, fetchFromDataMapChunk toy
      (storeGet (putRecords (fun _ => true) (uploaded .dataPutPublic ⟨1819, 1819⟩ [⟨28, 28⟩, ⟨454, 454⟩]))) 6 codes m.value = .ok 28 := by
  obtain ⟨m, h1, h2, h3⟩ := put_public_then_get_roundtrips toy toy_laws 10 5 id 28 ⟨1819, 1819⟩ [⟨28, 28⟩, ⟨454, 454⟩]
    (fun _ => true) (by rfl) (by intros; rfl) (by intro a ha b hb h; exact h)
  exact ⟨m, h1, h2, fun codes => h3 6 (by omega) codes⟩
/-- a record source strictly larger than the produced chunks (two unrelated chunks, 7 and 9, besides) -/
example (codes : List (List Nat)) :
    fetchFromDataMapChunk toy (storeGet [⟨7, 7⟩, ⟨28, 28⟩, ⟨9, 9⟩, ⟨454, 454⟩]) 6 codes 1819 = .ok 28 :=
  fetch_pack_roundtrip_store toy toy_laws 10 5 28 ⟨1819, 1819⟩ [⟨28, 28⟩, ⟨454, 454⟩] [⟨7, 7⟩, ⟨28, 28⟩, ⟨9, 9⟩, ⟨454, 454⟩] (by rfl)
    (by intro c hc; simp only [List.mem_cons, List.not_mem_nil, or_false] at hc ⊢; rcases hc with rfl | rfl <;> simp)
    (by intro c hc; simp only [List.mem_cons, List.not_mem_nil, or_false] at hc; rcases hc with rfl | rfl | rfl | rfl <;> rfl)
    (by intro a ha b hb h; exact h) 6 (by omega) codes

end SafeNet.Props.C14

#print axioms SafeNet.Props.C14.fetch_pack_roundtrip
#print axioms SafeNet.Props.C14.datamap_chunk_fits
#print axioms SafeNet.Props.C14.datamap_chunk_bounded
#print axioms SafeNet.Props.C14.chunks_bounded
#print axioms SafeNet.Props.C14.chunks_bounded_partial
#print axioms SafeNet.Props.C14.content_chunk_exceeds_max_witness
#print axioms SafeNet.Props.C14.completion_codes_are_the_permutations
#print axioms SafeNet.Props.C14.encrypt_succeeds
#print axioms SafeNet.Props.C14.large_enough_roundtrips
#print axioms SafeNet.Props.C14.chunks_content_addressed
#print axioms SafeNet.Props.C14.encrypt_deterministic
#print axioms SafeNet.Props.C14.too_small_rejected
#print axioms SafeNet.Props.C14.too_small_rejected_on_every_entry_point
#print axioms SafeNet.Props.C14.entry_roundtrip
#print axioms SafeNet.Props.C14.too_small_rejected_python
#print axioms SafeNet.Props.C14.python_encrypt_bypasses_packing
#print axioms SafeNet.Props.C14.fetch_pack_roundtrip_store
#print axioms SafeNet.Props.C14.uploaded_is_everything
#print axioms SafeNet.Props.C14.put_then_get_roundtrips
#print axioms SafeNet.Props.C14.put_public_then_get_roundtrips
#print axioms SafeNet.Props.C14.unpaid_chunks_are_not_uploaded
#print axioms SafeNet.Props.C14.large_enough_encrypted
#print axioms SafeNet.Props.C14.toy_laws
#print axioms SafeNet.Props.C14.toyMod_laws
#print axioms SafeNet.Props.C14.toy_shrinks
