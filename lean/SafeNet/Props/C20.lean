import SafeNet.Model.Upgrade
import SafeNet.Proofs.ArgTable
import SafeNet.Proofs.ArgParse
import SafeNet.Proofs.ArgFinal
import SafeNet.Proofs.ArgLex
import SafeNet.Proofs.Upgrade
import SafeNet.Proofs.UnitFile
/-!
# C20 — upgraded services keep every setting, and antnode accepts what antctl writes

All statements are about the tables `rs2lean` regenerates from the working tree
(`SafeNet.Gen.Upgrade`) and hold for EVERY option record `σ` (values are arbitrary strings; the
finite part — which options are present — is decided on the tables and lifted by the lemmas of
`SafeNet.Proofs.ArgTable`).
-/
namespace SafeNet.Props.C20
open SafeNet.ArgTable SafeNet.Upgrade SafeNet.Gen.Upgrade

/-! ## The tables with every field traced back to the expressions of `add_node` -/

/-- install table over `add_node`'s expressions -/
def installResolved : List Entry := (installTable.map (Entry.subst viaBuilder)).map (Entry.subst viaAddLocals)

/-- upgrade table over `add_node`'s expressions: through `UpgradeOptions { .. }`, then through `NodeServiceData { .. }` -/
def upgradeResolved : List Entry :=
  ((upgradeTable.map (Entry.subst viaUpgradeOptions)).map (Entry.subst viaData)).map (Entry.subst viaAddLocals)

theorem buildInstall_eq (σ : Valuation) : buildInstall σ = interp evmDisplay installResolved σ := by
  unfold buildInstall builderOf installResolved
  rw [interp_subst, interp_subst]

theorem buildUpgrade_eq (σ : Valuation) : buildUpgrade (recordOf σ) = interp evmDisplay upgradeResolved σ := by
  unfold buildUpgrade recordOf upgradeResolved
  rw [interp_subst, interp_subst, interp_subst]

/-- The finite fact: entry for entry (guard, option name, value source with its case foldings in normal
form, rendering) the upgrade table is a rearrangement of the install table. -/
theorem tables_perm : (upgradeResolved.map Entry.norm).Perm (installResolved.map Entry.norm) := by decide

/-! ## Clause 1: the regenerated definition equals the installed one -/

/-- **upgrade_args_equiv (arguments).** For every option record, the arguments regenerated at upgrade
from the registry entry `add_node` recorded are the same multiset of `(option, value)` items (and
subcommand word) as the arguments written at installation. -/
theorem upgrade_args_equiv (σ : Valuation) : (buildUpgrade (recordOf σ)).Perm (buildInstall σ) := by
  rw [buildInstall_eq, buildUpgrade_eq, ← interp_norm evmDisplay installResolved, ← interp_norm evmDisplay upgradeResolved]
  exact interp_perm evmDisplay σ tables_perm

def installCtxResolved : List (String × Src) :=
  installCtx.map fun kv => (kv.1, ((kv.2.subst viaBuilder).subst viaAddLocals).norm)
def upgradeCtxResolved : List (String × Src) :=
  upgradeCtx.map fun kv => (kv.1, (((kv.2.subst viaUpgradeOptions).subst viaData).subst viaAddLocals).norm)

theorem installSettings_eq (σ : Valuation) :
    installSettings σ = installCtxResolved.map fun kv => (kv.1, evalSrc σ kv.2) := by
  simp [installSettings, ctxOf, installCtxResolved, builderOf, evalSrc_subst, evalSrc_norm, Function.comp_def]

theorem upgradeSettings_eq (σ : Valuation) :
    upgradeSettings (recordOf σ) = upgradeCtxResolved.map fun kv => (kv.1, evalSrc σ kv.2) := by
  simp [upgradeSettings, ctxOf, upgradeCtxResolved, recordOf, evalSrc_subst, evalSrc_norm, Function.comp_def]

theorem ctx_same_except_env :
    upgradeCtxResolved.filter (fun kv => kv.1 != "environment") = installCtxResolved.filter (fun kv => kv.1 != "environment") := by
  decide

theorem ctx_keys : installCtxResolved.map (·.1) = ["autostart", "contents", "environment", "label", "program", "username", "working_directory"] := by
  decide

/-- **upgrade_args_equiv (settings).** Program, user, autostart, label, contents and working directory
of the regenerated definition equal the installed ones, for every option record. (With the
`auto_restart: false` literal this is false: `autostart` is lost — defect F-t, fixed in /repo.) -/
theorem upgrade_settings_equiv (σ : Valuation) :
    (upgradeSettings (recordOf σ)).filter (fun kv => kv.1 != "environment") =
    (installSettings σ).filter (fun kv => kv.1 != "environment") := by
  rw [installSettings_eq, upgradeSettings_eq, List.filter_map, List.filter_map]
  have h := ctx_same_except_env
  simp only [Function.comp_def] at h ⊢
  rw [h]

/-- The environment written at installation is the `--env` of `antctl add`. -/
theorem install_environment (σ : Valuation) :
    (installSettings σ).lookup "environment" = some (σ envPath) := by
  rw [installSettings_eq, lookup_map_snd]
  have : installCtxResolved.lookup "environment" = some (.var envPath) := by decide
  simp [this, evalSrc]

/-- The environment of the regenerated definition is the `--env` given to `antctl upgrade`, else the
registry-wide environment as `add_node` left it when it returned in the way `out` (exact characterisation). -/
theorem upgrade_environment (σ : Valuation) (provided prev : Option AStr) (out : AddOutcome) :
    (upgradeSettings (recordOf (withEnv σ provided prev out))).lookup "environment" =
      some (.opt (envAtUpgrade σ provided prev out)) := by
  rw [upgradeSettings_eq, lookup_map_snd]
  have : upgradeCtxResolved.lookup "environment" = some (.var ["#env"]) := by decide
  simp [this, evalSrc, withEnv]

/-- `add_node` stores the registry-wide environment before the first install, so it is recorded however
the add ends (all installed / some installs failed / a `?` inside the loop returned early). -/
theorem env_stored_whatever_the_outcome (out : AddOutcome) : envStored registryEnvStore out = true := by
  cases out <;> decide

/-- **upgrade_args_equiv (environment).** Without an `--env` on the upgrade command line, every service
that got installed — also by an `add` that failed part-way — keeps the environment it was installed
with, provided the registry-wide environment is this add's one (it was given `--env`, or no earlier
`add` had stored one). -/
theorem upgrade_environment_kept (σ : Valuation) (prev env : Option AStr) (out : AddOutcome)
    (henv : σ envPath = .opt env) (hreg : env.isSome ∨ prev = none) :
    (upgradeSettings (recordOf (withEnv σ none prev out))).lookup "environment" =
      (installSettings σ).lookup "environment" := by
  rw [upgrade_environment, install_environment, henv]
  have hflag := env_stored_whatever_the_outcome out
  cases env with
  | some e => simp [envAtUpgrade, registryEnvAfterInstall, hflag, henv]
  | none =>
    rcases hreg with h | h
    · simp at h
    · simp [envAtUpgrade, registryEnvAfterInstall, hflag, henv, h]

/-- … and an `--env` given to `antctl upgrade` is the explicit change the property allows. -/
theorem upgrade_environment_override (σ : Valuation) (e : AStr) (prev : Option AStr) (out : AddOutcome) :
    (upgradeSettings (recordOf (withEnv σ (some e) prev out))).lookup "environment" = some (.opt (some e)) := by
  rw [upgrade_environment]; rfl

/-- The other path by which the registry-wide environment reaches a service (documented behaviour, not
judged by the property's per-service quantifier): installed without `--env` into a registry that already
holds one, the service inherits it at upgrade. -/
example : ∃ σ : Valuation, σ envPath = .opt none ∧
    (upgradeSettings (recordOf (withEnv σ none (some [.plain "OLD=1"]) .allInstalled))).lookup "environment" ≠
      (installSettings σ).lookup "environment" := by
  refine ⟨fun _ => .opt none, rfl, ?_⟩
  rw [upgrade_environment, install_environment]
  decide

/-! ## Clause 2: every emitted option is declared by antnode under the shipped features -/

def evmSrc : Src := .var ["options", "evm_network"]
def wordEntry : Entry := ⟨.always, none, some (evmSrc, .display)⟩

def installPre : List Entry := installResolved.takeWhile fun e => e.flag.isSome
def installPost : List Entry := (installResolved.dropWhile fun e => e.flag.isSome).drop 1
def upgradePre : List Entry := upgradeResolved.takeWhile fun e => e.flag.isSome
def upgradePost : List Entry := (upgradeResolved.dropWhile fun e => e.flag.isSome).drop 1

theorem install_shape : installResolved = installPre ++ wordEntry :: installPost := by decide
theorem upgrade_shape : upgradeResolved = upgradePre ++ wordEntry :: upgradePost := by decide

def customDecls : List Decl := subDecls activeSubs (lookupD evmDisplay "Custom")

theorem install_pre_declared : installPre.all (entryDeclared activeTop) = true := by decide
theorem upgrade_pre_declared : upgradePre.all (entryDeclared activeTop) = true := by decide
theorem install_post_declared :
    installPost.all (fun e => e.guard == .evmCustom evmSrc && entryDeclared customDecls e) = true := by decide
theorem upgrade_post_declared :
    upgradePost.all (fun e => e.guard == .evmCustom evmSrc && entryDeclared customDecls e) = true := by decide
theorem words_are_subcommands :
    evmDisplay.all (fun kv => (activeSubs.find? (fun x => x.1 == kv.2)).isSome) = true := by decide

/-- The network variant printed as a word selects the subcommand that converts back to the same variant
(`Display for Network` against `impl Into<EvmNetwork> for EvmNetworkCommand`). -/
theorem word_selects_same_network :
    evmDisplay.all (fun kv =>
      match activeSubs.find? (fun x => x.1 == kv.2) with
      | some x => evmCommandInto.lookup x.2.1 == some kv.1
      | none => false) = true := by decide

/-- Every value `LogFormat::as_str` can print is accepted by the `value_parser` of `--log-format`. -/
theorem log_format_values_accepted :
    logFormatAsStr.all (fun kv => (logFormatParse.lookup kv.2).isSome) = true := by decide

/-- **every_flag_declared.** For every option record (whose EVM network is one of the variants `Display`
knows), both argument lists have the form `[top-level options]* word [subcommand options]*` where every
top-level option is a long option antnode declares under the shipped default features, used with the
arity it declares (flag / one value / comma-separated list), the word is a subcommand, and every option
after it is declared by that subcommand. -/
theorem every_flag_declared (σ : Valuation) (v : String)
    (hv : σ ["options", "evm_network"] = .evm v) (hmem : v ∈ evmDisplay.map (·.1)) :
    Accepted activeTop activeSubs (buildInstall σ) ∧ Accepted activeTop activeSubs (buildUpgrade (recordOf σ)) := by
  rw [buildInstall_eq, buildUpgrade_eq]
  exact ⟨accepted_of_shape evmDisplay activeTop activeSubs _ _ _ evmSrc install_shape install_pre_declared
            install_post_declared words_are_subcommands σ v hv hmem,
         accepted_of_shape evmDisplay activeTop activeSubs _ _ _ evmSrc upgrade_shape upgrade_pre_declared
            upgrade_post_declared words_are_subcommands σ v hv hmem⟩

/-! ### conflicts_with -/

/-- pairs of table entries whose declarations exclude each other, as pairs of their guard sources -/
def conflictPairs (T : List Entry) : List (Src × Src) :=
  T.flatMap fun e₁ => T.filterMap fun e₂ =>
    match e₁.flag, e₂.flag with
    | some n₁, some n₂ =>
      match findLong activeTop n₁, findLong activeTop n₂ with
      | some d₁, some d₂ => if d₁.conflicts.contains d₂.id then some (guardSrc e₁.guard, guardSrc e₂.guard) else none
      | _, _ => none
    | _, _ => none

/-- The same exclusions at antctl's side: `PeersArgs` is the same clap struct there, so an option record
antctl can parse never has both members of one of these pairs present. -/
def inputConflictPairs : List (Src × Src) :=
  (topDecls.filter fun d => d.group == "PeersArgs").flatMap fun d =>
    d.conflicts.filterMap fun c =>
      (topDecls.find? fun d' => d'.id == c && d'.group == "PeersArgs").map fun d' =>
        (Src.var ["options", "peers_args", d.field], Src.var ["options", "peers_args", d'.field])

theorem install_conflicts_are_input_conflicts :
    (conflictPairs installPre).all inputConflictPairs.contains = true := by decide
theorem upgrade_conflicts_are_input_conflicts :
    (conflictPairs upgradePre).all inputConflictPairs.contains = true := by decide

/-- The option record respects `PeersArgs`' own `conflicts_with` rules (what antctl's parser enforces). -/
def InputConflictFree (σ : Valuation) : Prop :=
  ∀ p ∈ inputConflictPairs, ¬ (present (evalSrc σ p.1) = true ∧ present (evalSrc σ p.2) = true)

theorem present_of_guard (σ : Valuation) (g : Guard) (h : guardHolds σ g = true) :
    present (evalSrc σ (guardSrc g)) = true := by
  cases g with
  | always => simp [guardSrc, evalSrc, present]
  | isTrue s => simp only [guardHolds, guardSrc] at h ⊢; split at h <;> simp_all [present]
  | isSome s => simp only [guardHolds, guardSrc] at h ⊢; split at h <;> simp_all [present]
  | nonEmpty s => simp only [guardHolds, guardSrc] at h ⊢; split at h <;> simp_all [present]
  | evmCustom s => simp only [guardHolds, guardSrc] at h ⊢; split at h <;> simp_all [present]

/-- No two emitted top-level options exclude each other (`conflicts_with`), stated on table entries:
if both entries fire, their declarations do not conflict. -/
theorem no_conflict_of (T : List Entry) (hT : (conflictPairs T).all inputConflictPairs.contains = true)
    (σ : Valuation) (hσ : InputConflictFree σ)
    (e₁ e₂ : Entry) (h₁ : e₁ ∈ T) (h₂ : e₂ ∈ T)
    (g₁ : guardHolds σ e₁.guard = true) (g₂ : guardHolds σ e₂.guard = true)
    (n₁ n₂ : String) (d₁ d₂ : Decl) (f₁ : e₁.flag = some n₁) (f₂ : e₂.flag = some n₂)
    (l₁ : findLong activeTop n₁ = some d₁) (l₂ : findLong activeTop n₂ = some d₂) :
    d₁.conflicts.contains d₂.id = false := by
  cases hc : d₁.conflicts.contains d₂.id with
  | false => rfl
  | true =>
    exfalso
    have hmem : (guardSrc e₁.guard, guardSrc e₂.guard) ∈ conflictPairs T := by
      simp only [conflictPairs, List.mem_flatMap, List.mem_filterMap]
      have hc' : d₂.id ∈ d₁.conflicts := by simpa using hc
      exact ⟨e₁, h₁, e₂, h₂, by simp [f₁, f₂, l₁, l₂, hc']⟩
    have hin := List.all_eq_true.mp hT _ hmem
    have hin' : (guardSrc e₁.guard, guardSrc e₂.guard) ∈ inputConflictPairs := by simpa using hin
    exact hσ _ hin' ⟨present_of_guard σ _ g₁, present_of_guard σ _ g₂⟩

/-- **every_flag_declared (conflicts).** For option records antctl itself can parse, neither argument
list contains two options of which one declares `conflicts_with` the other. -/
theorem no_conflicting_flags (σ : Valuation) (hσ : InputConflictFree σ) :
    (∀ e₁ ∈ installPre, ∀ e₂ ∈ installPre, guardHolds σ e₁.guard = true → guardHolds σ e₂.guard = true →
      ∀ n₁ n₂ d₁ d₂, e₁.flag = some n₁ → e₂.flag = some n₂ → findLong activeTop n₁ = some d₁ →
        findLong activeTop n₂ = some d₂ → d₁.conflicts.contains d₂.id = false) ∧
    (∀ e₁ ∈ upgradePre, ∀ e₂ ∈ upgradePre, guardHolds σ e₁.guard = true → guardHolds σ e₂.guard = true →
      ∀ n₁ n₂ d₁ d₂, e₁.flag = some n₁ → e₂.flag = some n₂ → findLong activeTop n₁ = some d₁ →
        findLong activeTop n₂ = some d₂ → d₁.conflicts.contains d₂.id = false) :=
  ⟨fun e₁ h₁ e₂ h₂ g₁ g₂ n₁ n₂ d₁ d₂ f₁ f₂ l₁ l₂ =>
      no_conflict_of installPre install_conflicts_are_input_conflicts σ hσ e₁ e₂ h₁ h₂ g₁ g₂ n₁ n₂ d₁ d₂ f₁ f₂ l₁ l₂,
   fun e₁ h₁ e₂ h₂ g₁ g₂ n₁ n₂ d₁ d₂ f₁ f₂ l₁ l₂ =>
      no_conflict_of upgradePre upgrade_conflicts_are_input_conflicts σ hσ e₁ e₂ h₁ h₂ g₁ g₂ n₁ n₂ d₁ d₂ f₁ f₂ l₁ l₂⟩

/-- `antctl add` cannot create the `--first` / `--peer` conflict after its own parser has run: the only
post-parse change of `PeersArgs` (appending the `ANT_PEERS` environment variable to `--peer`) is skipped
for a genesis node, so `InputConflictFree` holds for every record `antctl add` hands to `add_node`. -/
theorem ant_peers_env_respects_first : envPeersSkippedForFirst = true := by decide

/-- Non-vacuity: the conflict rules exist and are the three of `PeersArgs`. -/
example : inputConflictPairs.length = 3 := by decide
example : (conflictPairs installPre).length = 3 := by decide


/-! ## Clause 3: the clap-subset parser maps the written arguments back to the intended settings -/

theorem install_pre_ids_nodup : (installPre.filterMap (entryId activeTop)).Nodup := by decide
theorem upgrade_pre_ids_nodup : (upgradePre.filterMap (entryId activeTop)).Nodup := by decide
theorem install_post_ids_nodup : (installPost.filterMap (entryId customDecls)).Nodup := by decide
theorem upgrade_post_ids_nodup : (upgradePost.filterMap (entryId customDecls)).Nodup := by decide

/-- The specification of what each antctl setting means for antnode: which argument of antnode's `Opt`
(clap id) is given, under which condition, with which value (all in terms of `add_node`'s expressions). -/
def intent : List (Option String × Guard × Option (Src × Render)) := [
  (some "rpc", .always, some (.var ["rpc_socket_addr"], .display)),
  (some "root_dir", .always, some (.var ["service_data_dir_path"], .lossy)),
  (some "log_output_dest", .always, some (.var ["service_log_dir_path"], .lossy)),
  (some "first", .isTrue (.var ["options", "peers_args", "first"]), none),
  (some "local", .isTrue (.var ["options", "peers_args", "local"]), none),
  (some "addrs", .nonEmpty (.var ["options", "peers_args", "addrs"]), some (.var ["options", "peers_args", "addrs"], .joinComma)),
  (some "network_contacts_url", .nonEmpty (.var ["options", "peers_args", "network_contacts_url"]),
    some (.var ["options", "peers_args", "network_contacts_url"], .joinComma)),
  (some "testnet", .isTrue (.var ["options", "peers_args", "disable_mainnet_contacts"]), none),
  (some "ignore_cache", .isTrue (.var ["options", "peers_args", "ignore_cache"]), none),
  (some "bootstrap_cache_dir", .isSome (.var ["options", "peers_args", "bootstrap_cache_dir"]),
    some (.var ["options", "peers_args", "bootstrap_cache_dir"], .lossy)),
  (some "network_id", .isSome (.var ["options", "network_id"]), some (.var ["options", "network_id"], .display)),
  (some "home_network", .isTrue (.var ["options", "home_network"]), none),
  (some "log_format", .isSome (.var ["options", "log_format"]), some (.var ["options", "log_format"], .asStr)),
  (some "upnp", .isTrue (.var ["options", "upnp"]), none),
  (some "ip", .isSome (.var ["options", "node_ip"]), some (.var ["options", "node_ip"], .display)),
  (some "port", .isSome (.var ["node_port"]), some (.var ["node_port"], .display)),
  (some "metrics_server_port", .isSome (.var ["metrics_free_port"]), some (.var ["metrics_free_port"], .display)),
  (some "owner", .isSome (.fold .lower (.var ["options", "owner"])), some (.fold .lower (.var ["options", "owner"]), .display)),
  (some "max_archived_log_files", .isSome (.var ["options", "max_archived_log_files"]),
    some (.var ["options", "max_archived_log_files"], .display)),
  (some "max_log_files", .isSome (.var ["options", "max_log_files"]), some (.var ["options", "max_log_files"], .display)),
  (some "rewards_address", .always, some (.var ["options", "rewards_address"], .display))]

def intentCustom : List (Option String × Guard × Option (Src × Render)) := [
  (some "rpc_url", .evmCustom evmSrc, some (.var ["options", "evm_network", "rpc_url_http"], .display)),
  (some "payment_token_address", .evmCustom evmSrc, some (.var ["options", "evm_network", "payment_token_address"], .display)),
  (some "data_payments_address", .evmCustom evmSrc, some (.var ["options", "evm_network", "data_payments_address"], .display))]

/-- The install table sets exactly the intended antnode arguments, from the intended sources. -/
theorem install_table_is_intent :
    installPre.map (fun e => (entryId activeTop e, e.guard, e.value)) = intent ∧
    installPost.map (fun e => (entryId customDecls e, e.guard, e.value)) = intentCustom := by decide

/-- antnode's top-level arguments as intended by the option record: every setting that is present sets
its argument (per `intent`, see `install_table_is_intent`), everything else stays absent. -/
def intendedTop (σ : Valuation) : Slots := slotsAfter evmDisplay activeTop σ installPre Slots.empty
def intendedSub (σ : Valuation) : Slots := slotsAfter evmDisplay customDecls σ installPost Slots.empty

/-- Lemma form with clap's final checks as hypotheses (`htop`, `hsub`); `parse_build_is_intended` below
derives them from the input-side predicate `InputAccepted`. -/
theorem parse_build_is_intended_of_checks (σ : Valuation) (v : String)
    (hv : σ ["options", "evm_network"] = .evm v) (hmem : v ∈ evmDisplay.map (·.1))
    (htop : finalChecks activeTop (intendedTop σ) = .ok ())
    (hsub : finalChecks (subDecls activeSubs (lookupD evmDisplay v)) (intendedSub σ) = .ok ()) :
    ∃ x, activeSubs.find? (fun x => x.1 == lookupD evmDisplay v) = some x ∧
      parseArgs (buildInstall σ) = .ok ⟨intendedTop σ, some (x.2.1, intendedSub σ)⟩ := by
  rw [buildInstall_eq]
  exact parse_of_shape evmDisplay activeTop activeSubs _ _ _ evmSrc install_shape install_pre_declared
    install_post_declared words_are_subcommands install_pre_ids_nodup install_post_ids_nodup σ v hv hmem htop hsub

/-- Lemma form for the arguments regenerated at upgrade (its own closed form), final checks as hypotheses. -/
theorem parse_upgrade_accepted_of_checks (σ : Valuation) (v : String)
    (hv : σ ["options", "evm_network"] = .evm v) (hmem : v ∈ evmDisplay.map (·.1))
    (htop : finalChecks activeTop (slotsAfter evmDisplay activeTop σ upgradePre Slots.empty) = .ok ())
    (hsub : finalChecks (subDecls activeSubs (lookupD evmDisplay v))
              (slotsAfter evmDisplay customDecls σ upgradePost Slots.empty) = .ok ()) :
    ∃ x, activeSubs.find? (fun x => x.1 == lookupD evmDisplay v) = some x ∧
      parseArgs (buildUpgrade (recordOf σ)) =
        .ok ⟨slotsAfter evmDisplay activeTop σ upgradePre Slots.empty,
             some (x.2.1, slotsAfter evmDisplay customDecls σ upgradePost Slots.empty)⟩ := by
  rw [buildUpgrade_eq]
  exact parse_of_shape evmDisplay activeTop activeSubs _ _ _ evmSrc upgrade_shape upgrade_pre_declared
    upgrade_post_declared words_are_subcommands upgrade_pre_ids_nodup upgrade_post_ids_nodup σ v hv hmem htop hsub

/-! ### The input side: what `antctl add` guarantees about an option record

clap's rejecting checks on the written arguments (`required`, `conflicts_with`, `required_if_eq`) are
DERIVED from two facts about the option record itself: -/

/-- `(source, printed value)`: the option record must not give that source this value, because antnode
declares an argument antctl never writes as `required_if_eq(that argument, value)`. Computed from the
regenerated clap declarations and the install table. -/
def requiredIfTriggers (T : List Entry) : List (Src × String) :=
  activeTop.flatMap fun d => d.requiredIfEq.flatMap fun ov =>
    T.filterMap fun e =>
      if entryId activeTop e = some ov.1 then
        (match e.value with | some (s, _) => some (s, ov.2) | none => none)
      else none

/-- Today there is exactly one: a pinned metrics port printed as `0` (`--metrics-server-port 0` requires
`--enable-metrics-server`, which antctl never writes): K-t. -/
theorem required_if_triggers : requiredIfTriggers installPre = [(.var ["metrics_free_port"], "0")] := by decide

/-- **InputAccepted**: what antctl guarantees about the option record it hands to `add_node`.
* `conflictFree` — `PeersArgs`' own `conflicts_with` rules hold (the same clap struct parsed antctl's
  command line; the one post-parse change, `ANT_PEERS`, respects them: `ant_peers_env_respects_first`);
* `noTrigger` — no setting has the one value that makes antnode demand an argument antctl never writes
  (`required_triggers`: a pinned metrics port is not `0`; K-t is the excluded case).
Nothing else is needed: antnode's top level declares no required argument, and the three required
arguments of `evm-custom` are written whenever the network is `Custom` (`final_checks_sub`). -/
structure InputAccepted (σ : Valuation) : Prop where
  conflictFree : InputConflictFree σ
  noTrigger : ∀ p ∈ requiredIfTriggers installPre, asWord evmDisplay (evalSrc σ p.1) ≠ p.2

theorem top_nothing_required : activeTop.all (fun d => !d.required) = true := by decide

/-- guard sources of the pairs of entries that set two arguments of which one declares
`conflicts_with` the other (by clap id, as `finalChecks` looks at them) -/
def idConflictPairs (T : List Entry) : List (Src × Src) :=
  activeTop.flatMap fun d => d.conflicts.flatMap fun c =>
    T.flatMap fun e₁ => T.filterMap fun e₂ =>
      if entryId activeTop e₁ = some d.id ∧ entryId activeTop e₂ = some c then
        some (guardSrc e₁.guard, guardSrc e₂.guard)
      else none

theorem install_id_conflicts : (idConflictPairs installPre).all inputConflictPairs.contains = true := by decide

/-- **Acceptance, top level.** For every option record antctl can hand to `add_node`, clap's final
checks pass on the intended top-level configuration. -/
theorem final_checks_top (σ : Valuation) (hσ : InputAccepted σ) :
    finalChecks activeTop (intendedTop σ) = .ok () := by
  apply finalChecks_ok
  · intro d hd hreq
    have := List.all_eq_true.mp top_nothing_required d hd
    simp [hreq] at this
  · intro d hd c hc
    by_cases h1 : intendedTop σ d.id = .absent
    · exact Or.inl h1
    by_cases h2 : intendedTop σ c = .absent
    · exact Or.inr h2
    exfalso
    rcases slotsAfter_present_inv evmDisplay activeTop σ d.id installPre Slots.empty h1 with h | ⟨e₁, he₁, hid₁, hg₁⟩
    · exact h rfl
    rcases slotsAfter_present_inv evmDisplay activeTop σ c installPre Slots.empty h2 with h | ⟨e₂, he₂, hid₂, hg₂⟩
    · exact h rfl
    have hmem : (guardSrc e₁.guard, guardSrc e₂.guard) ∈ idConflictPairs installPre := by
      simp only [idConflictPairs, List.mem_flatMap, List.mem_filterMap]
      exact ⟨d, hd, c, hc, e₁, he₁, e₂, he₂, by simp [hid₁, hid₂]⟩
    have hin := List.all_eq_true.mp install_id_conflicts _ hmem
    have hin' : (guardSrc e₁.guard, guardSrc e₂.guard) ∈ inputConflictPairs := by simpa using hin
    exact hσ.conflictFree _ hin' ⟨present_of_guard σ _ hg₁, present_of_guard σ _ hg₂⟩
  · intro d hd p hp hone
    rcases slotsAfter_one_inv evmDisplay activeTop σ p.1 p.2 installPre Slots.empty hone with h | ⟨e, he, hid, src, r, hval, hword⟩
    · simp [Slots.empty] at h
    · have hmem : (src, p.2) ∈ requiredIfTriggers installPre := by
        simp only [requiredIfTriggers, List.mem_flatMap, List.mem_filterMap]
        exact ⟨d, hd, p, hp, e, he, by simp [hid, hval]⟩
      exact hσ.noTrigger _ hmem hword

/-- No subcommand option declares a conflict or a `required_if_eq`; only `evm-custom` has required
options, and each of them is written by an entry of the install table guarded by "the network is Custom". -/
theorem sub_no_conflicts :
    evmDisplay.all (fun kv => (subDecls activeSubs kv.2).all (fun d => d.conflicts.isEmpty && d.requiredIfEq.isEmpty)) = true := by
  decide
theorem sub_required_only_custom :
    evmDisplay.all (fun kv => kv.1 == "Custom" || (subDecls activeSubs kv.2).all (fun d => !d.required)) = true := by decide
theorem custom_required_written :
    customDecls.all (fun d => !d.required ||
      installPost.any (fun e => entryId customDecls e == some d.id && e.guard == .evmCustom evmSrc)) = true := by decide

/-- **Acceptance, subcommand.** For every option record (EVM network one of the known variants), clap's
final checks pass on the intended subcommand configuration: the three required options of `evm-custom`
are written exactly when the network is `Custom`. No hypothesis on the input is needed. -/
theorem final_checks_sub (σ : Valuation) (v : String)
    (hv : σ ["options", "evm_network"] = .evm v) (hmem : v ∈ evmDisplay.map (·.1)) :
    finalChecks (subDecls activeSubs (lookupD evmDisplay v)) (intendedSub σ) = .ok () := by
  obtain ⟨w, hw, hm⟩ := lookupD_of_mem evmDisplay v hmem
  rw [hw]
  have hnc := List.all_eq_true.mp sub_no_conflicts (v, w) hm
  simp only [List.all_eq_true, Bool.and_eq_true, List.isEmpty_iff] at hnc
  apply finalChecks_ok
  · intro d hd hreq
    by_cases hc : v = "Custom"
    · subst hc
      have hds : subDecls activeSubs w = customDecls := by rw [← hw]; rfl
      rw [hds] at hd
      have := List.all_eq_true.mp custom_required_written d hd
      simp only [hreq, Bool.not_true, Bool.false_or, List.any_eq_true, Bool.and_eq_true, beq_iff_eq] at this
      obtain ⟨e, he, hid, hg⟩ := this
      apply slotsAfter_present evmDisplay customDecls σ d.id installPost Slots.empty
      refine Or.inr ⟨e, he, hid, ?_⟩
      rw [hg]
      simp [guardHolds, evmSrc, evalSrc, hv]
    · have := List.all_eq_true.mp sub_required_only_custom (v, w) hm
      simp only [Bool.or_eq_true, beq_iff_eq, hc, false_or, List.all_eq_true, Bool.not_eq_true'] at this
      have := this d hd
      simp [hreq] at this
  · intro d hd c hc
    have := (hnc d hd).1
    rw [this] at hc
    simp at hc
  · intro d hd p hp
    have := (hnc d hd).2
    rw [this] at hp
    simp at hp

/-- **parse_build_is_intended.** For every option record antctl can hand to `add_node` (`InputAccepted`;
EVM network one of the known variants), the clap-subset parser ACCEPTS the arguments written at
installation — required arguments, `conflicts_with` and `required_if_eq` included — and returns exactly
the intended configuration and the subcommand of the record's network. -/
theorem parse_build_is_intended (σ : Valuation) (v : String)
    (hv : σ ["options", "evm_network"] = .evm v) (hmem : v ∈ evmDisplay.map (·.1)) (hσ : InputAccepted σ) :
    ∃ x, activeSubs.find? (fun x => x.1 == lookupD evmDisplay v) = some x ∧
      parseArgs (buildInstall σ) = .ok ⟨intendedTop σ, some (x.2.1, intendedSub σ)⟩ :=
  parse_build_is_intended_of_checks σ v hv hmem (final_checks_top σ hσ) (final_checks_sub σ v hv hmem)

/-! ### The upgrade is interpreted as the same configuration as the install -/

theorem pre_perm : (upgradePre.map Entry.norm).Perm (installPre.map Entry.norm) := by decide
theorem post_perm : (upgradePost.map Entry.norm).Perm (installPost.map Entry.norm) := by decide
theorem upgrade_pre_norm_ids_nodup : ((upgradePre.map Entry.norm).filterMap (entryId activeTop)).Nodup := by decide
theorem upgrade_post_norm_ids_nodup : ((upgradePost.map Entry.norm).filterMap (entryId customDecls)).Nodup := by decide

/-- The closed form of the upgrade arguments IS the intended top-level configuration … -/
theorem upgrade_slots_top (σ : Valuation) :
    slotsAfter evmDisplay activeTop σ upgradePre Slots.empty = intendedTop σ := by
  unfold intendedTop
  rw [← slotsAfter_norm evmDisplay activeTop σ upgradePre, ← slotsAfter_norm evmDisplay activeTop σ installPre]
  exact slotsAfter_perm evmDisplay activeTop σ pre_perm _ upgrade_pre_norm_ids_nodup

/-- … and the intended subcommand configuration. -/
theorem upgrade_slots_sub (σ : Valuation) :
    slotsAfter evmDisplay customDecls σ upgradePost Slots.empty = intendedSub σ := by
  unfold intendedSub
  rw [← slotsAfter_norm evmDisplay customDecls σ upgradePost, ← slotsAfter_norm evmDisplay customDecls σ installPost]
  exact slotsAfter_perm evmDisplay customDecls σ post_perm _ upgrade_post_norm_ids_nodup

/-- **parse_upgrade_accepted.** For every option record antctl can hand to `add_node`, the arguments
regenerated at upgrade from the registry entry `add_node` recorded are accepted — all of clap's checks
included — and parse to the intended configuration. -/
theorem parse_upgrade_accepted (σ : Valuation) (v : String)
    (hv : σ ["options", "evm_network"] = .evm v) (hmem : v ∈ evmDisplay.map (·.1)) (hσ : InputAccepted σ) :
    ∃ x, activeSubs.find? (fun x => x.1 == lookupD evmDisplay v) = some x ∧
      parseArgs (buildUpgrade (recordOf σ)) = .ok ⟨intendedTop σ, some (x.2.1, intendedSub σ)⟩ := by
  have htop := final_checks_top σ hσ
  have hsub := final_checks_sub σ v hv hmem
  rw [← upgrade_slots_top] at htop
  rw [← upgrade_slots_sub] at hsub
  have := parse_upgrade_accepted_of_checks σ v hv hmem htop hsub
  rw [upgrade_slots_top, upgrade_slots_sub] at this
  exact this

/-- `InputAccepted` does not look at `node_port`: it holds for the record with the pinned listener port. -/
theorem input_conflicts_dont_read_port :
    inputConflictPairs.all (fun p => !p.1.reads portPath && !p.2.reads portPath) = true := by decide
theorem triggers_dont_read_port : (requiredIfTriggers installPre).all (fun p => !p.1.reads portPath) = true := by decide

theorem inputAccepted_pin (σ : Valuation) (l : Option AStr) (hσ : InputAccepted σ) : InputAccepted (pin σ l) := by
  have hcongr : ∀ s : Src, s.reads portPath = false → evalSrc (pin σ l) s = evalSrc σ s :=
    fun s hs => evalSrc_congr σ (pin σ l) portPath (fun q hq => pin_off σ l q hq) s hs
  constructor
  · intro p hp
    have := List.all_eq_true.mp input_conflicts_dont_read_port p hp
    simp only [Bool.and_eq_true, Bool.not_eq_true'] at this
    rw [hcongr p.1 this.1, hcongr p.2 this.2]
    exact hσ.conflictFree p hp
  · intro p hp
    have := List.all_eq_true.mp triggers_dont_read_port p hp
    simp only [Bool.not_eq_true'] at this
    rw [hcongr p.1 this]
    exact hσ.noTrigger p hp

/-- The slots of antnode's configuration an upgrade changes ON PURPOSE: the listener port, when the
started node reported one (`on_start` pins it so that the node keeps its port over the restart).
(The other purposeful differences of an upgrade — binary version, an `--env` given to `antctl upgrade` —
are not arguments: `upgrade_settings_equiv`, `upgrade_environment`.) -/
def upgradeChangedSlots : List String := ["port"]

theorem only_port_entry_reads_port :
    installPre.all (fun e => entryId activeTop e == some "port" || !e.reads portPath) = true := by decide
theorem post_dont_read_port : installPost.all (fun e => !e.reads portPath) = true := by decide

def portEntry : Entry := ⟨.isSome (.var ["node_port"]), some "port", some (.var ["node_port"], .display)⟩
theorem port_entry_mem : portEntry ∈ installPre ∧ entryId activeTop portEntry = some "port" := by decide

/-- The intended configuration of the record with the pinned port differs from the installed one in
the slot `port` only, which holds the pinned port. -/
theorem intended_pin (σ : Valuation) (l : Option AStr) :
    (∀ id, id ∉ upgradeChangedSlots → intendedTop (pin σ l) id = intendedTop σ id) ∧
    intendedTop (pin σ l) "port" = (match l with | some x => .one x.show | none => intendedTop σ "port") ∧
    intendedSub (pin σ l) = intendedSub σ := by
  refine ⟨?_, ?_, ?_⟩
  · intro id hid
    have hne : id ≠ "port" := by simpa [upgradeChangedSlots] using hid
    apply slotsAfter_congr_off evmDisplay activeTop σ (pin σ l) portPath (fun q hq => pin_off σ l q hq) "port"
      installPre Slots.empty Slots.empty _ (fun _ _ => rfl) id hne
    intro e he
    have := List.all_eq_true.mp only_port_entry_reads_port e he
    simpa using this
  · cases l with
    | none => rw [pin_none]
    | some x =>
      unfold intendedTop
      rw [slotsAfter_at evmDisplay activeTop (pin σ (some x)) "port" portEntry installPre Slots.empty
        install_pre_ids_nodup port_entry_mem.1 port_entry_mem.2]
      simp [portEntry, evalEntry, guardHolds, evalSrc, pin, ival, asWord, pvalOf]
  · unfold intendedSub
    exact slotsAfter_congr evmDisplay customDecls σ (pin σ l) portPath (fun q hq => pin_off σ l q hq)
      installPost post_dont_read_port Slots.empty

/-- **upgrade_interpreted_as_install.** For every option record antctl can hand to `add_node` and
whatever listener port the started node reported before the upgrade (`listen`; `none` = never started):
antnode accepts the arguments written at installation AND the arguments regenerated at upgrade, selects
the same subcommand with the same subcommand options, and every top-level slot of the parsed
configuration is the same — except exactly the slots of `upgradeChangedSlots` (`port`), which after an
upgrade of a started node hold the pinned listener port. -/
theorem upgrade_interpreted_as_install (σ : Valuation) (v : String)
    (hv : σ ["options", "evm_network"] = .evm v) (hmem : v ∈ evmDisplay.map (·.1)) (hσ : InputAccepted σ)
    (listen : Option AStr) :
    ∃ x topI topU sub,
      parseArgs (buildInstall σ) = .ok ⟨topI, some (x, sub)⟩ ∧
      parseArgs (buildUpgrade (afterStart (recordOf σ) listen)) = .ok ⟨topU, some (x, sub)⟩ ∧
      (∀ id, id ∉ upgradeChangedSlots → topU id = topI id) ∧
      topU "port" = (match listen with | some l => .one l.show | none => topI "port") := by
  obtain ⟨x, hx, hI⟩ := parse_build_is_intended σ v hv hmem hσ
  have hv' : pin σ listen ["options", "evm_network"] = .evm v := by
    rw [pin_off σ listen _ (by decide)]; exact hv
  obtain ⟨x', hx', hU⟩ := parse_upgrade_accepted (pin σ listen) v hv' hmem (inputAccepted_pin σ listen hσ)
  have hxx : x' = x := by rw [hx] at hx'; injection hx' with h; exact h.symm
  subst hxx
  obtain ⟨hoff, hport, hsub⟩ := intended_pin σ listen
  rw [recordOf_pin, hsub] at hU
  exact ⟨x'.2.1, intendedTop σ, intendedTop (pin σ listen), intendedSub σ, hI, hU, hoff, hport⟩

/-- Without a pinned port (the node was never started, or reported the port it was installed with) the
two parses are literally the same. -/
theorem upgrade_parses_like_install (σ : Valuation) (v : String)
    (hv : σ ["options", "evm_network"] = .evm v) (hmem : v ∈ evmDisplay.map (·.1)) (hσ : InputAccepted σ) :
    ∃ p, parseArgs (buildInstall σ) = .ok p ∧ parseArgs (buildUpgrade (recordOf σ)) = .ok p := by
  obtain ⟨x, _, hI⟩ := parse_build_is_intended σ v hv hmem hσ
  obtain ⟨x', hx', hU⟩ := parse_upgrade_accepted σ v hv hmem hσ
  have : x' = x := by rename_i hx; rw [hx] at hx'; injection hx' with h; exact h.symm
  subst this
  exact ⟨_, hI, hU⟩

/-- Non-vacuity: a concrete record (home network, custom EVM network) is parsed back as intended. -/
def exampleRecord : Valuation := fun p =>
  if p = ["options", "evm_network"] then .evm "Custom"
  else if p = ["options", "home_network"] then .bool true
  else if p = ["options", "peers_args", "addrs"] then .list [[.plain "a"], [.plain "b"]]
  else if p = ["options", "owner"] then .opt (some [.uniUp "Ü" "ü", .plain "n", .asciiUp "A" "a", .plain "l"])
  else if p = ["options", "evm_network", "rpc_url_http"] then .opt (some [.plain "http://x/"])
  else if p = ["options", "evm_network", "payment_token_address"] then .opt (some [.plain "0x1"])
  else if p = ["options", "evm_network", "data_payments_address"] then .opt (some [.plain "0x2"])
  else if p = ["rpc_socket_addr"] then .opt (some [.plain "127.0.0.1:1"])
  else .opt none

example : (match parseArgs (buildInstall exampleRecord) with
    | .ok p => (p.top "home_network", p.top "addrs", p.top "first", p.top "owner", p.sub.map (fun s => (s.1, s.2 "rpc_url")))
    | .error _ => (.absent, .absent, .absent, .absent, none)) =
    (.set, .many ["a", "b"], .absent, .one "ünal", some ("EvmCustom", .one "http://x/")) := by decide

/-- The owner is written in lower case (Unicode folding) at installation and at upgrade alike. -/
example : (buildUpgrade (recordOf exampleRecord)).filter (fun it => it.flag == some "owner") = [⟨some "owner", .one "ünal"⟩] ∧
    (buildInstall exampleRecord).filter (fun it => it.flag == some "owner") = [⟨some "owner", .one "ünal"⟩] := by decide

/-- … and the conflicting record `--first` + `--peer` is rejected by the parser (as by clap). -/
example : (match parseArgs (buildInstall (fun p => if p = ["options", "peers_args", "first"] then .bool true else exampleRecord p)) with
    | .ok _ => "ok" | .error (.conflict a b) => a ++ "/" ++ b | .error _ => "other") = "addrs/first" := by decide


/-! ### After parsing: `impl Into<EvmNetwork> for EvmNetworkCommand` (what antnode runs with) -/

/-- For each field of `CustomNetwork`, the source antnode ends up building it from: the field of
`EvmNetworkCommand::EvmCustom` that flows into it (`evmCustomInto`: through `Network::new_custom` and
`CustomNetwork::new`), the long option clap fills that command field from, and the value the argument
table writes under that option. -/
def convertedCustom (T : List Entry) : List (String × Option (Src × Render)) :=
  evmCustomInto.map fun nc =>
    (nc.1, match T.find? (fun e => match e.flag with
        | some l => (match findLong customDecls l with | some d => d.field == nc.2 | none => false)
        | none => false) with
      | some e => e.value
      | none => none)

/-- The intended custom network: every contract setting of the option record in its own field. -/
def intentConverted : List (String × Option (Src × Render)) := [
  ("rpc_url_http", some (.var ["options", "evm_network", "rpc_url_http"], .display)),
  ("payment_token_address", some (.var ["options", "evm_network", "payment_token_address"], .display)),
  ("data_payments_address", some (.var ["options", "evm_network", "data_payments_address"], .display))]

/-- **parse_build_is_intended (after conversion).** The custom EVM network antnode builds from the parsed
subcommand has the RPC URL, the payment-token address and the data-payments address of the option record
each in its own field — at installation and after an upgrade. (A conversion that hands the two addresses
to `new_custom` in the wrong order makes this false although every argument is still accepted.) -/
theorem custom_network_converted_as_intended :
    convertedCustom installPost = intentConverted ∧ convertedCustom upgradePost = intentConverted := by decide

/-! ### Non-vacuity of the input-side predicate; K-t, the excluded case -/

/-- `exampleRecord` is a record antctl can hand to `add_node` … -/
theorem example_input_accepted : InputAccepted exampleRecord := ⟨by unfold InputConflictFree; decide, by decide⟩

/-- the error of a parse, if any (`Parsed` holds functions, so results are compared through this) -/
def errOf (r : Except PErr Parsed) : Option PErr := match r with | .error e => some e | .ok _ => none

/-- … so all of the above applies to it. -/
example : ∃ p, parseArgs (buildInstall exampleRecord) = .ok p ∧ parseArgs (buildUpgrade (recordOf exampleRecord)) = .ok p :=
  upgrade_parses_like_install exampleRecord "Custom" rfl (by decide) example_input_accepted

/-- … and after the node was started and reported port 4242, the upgrade pins exactly that. -/
example : (match parseArgs (buildUpgrade (afterStart (recordOf exampleRecord) (some [.plain "4242"]))) with
    | .ok p => (p.top "port", p.top "owner", p.top "home_network")
    | .error _ => (.absent, .absent, .absent)) = (.one "4242", .one "ünal", .set) := by decide

/-- K-t: the record with the metrics port pinned to `0` is NOT `InputAccepted`, and indeed the written
arguments are rejected (`required_if_eq` of `--enable-metrics-server`). Known finding K-t-metrics-port-zero. -/
def ktRecord : Valuation := fun p =>
  if p = ["metrics_free_port"] then .opt (some [.plain "0"]) else exampleRecord p

theorem kt_metrics_port_zero_rejected :
    ¬ InputAccepted ktRecord ∧
    errOf (parseArgs (buildInstall ktRecord)) = some (.requiredIf "enable_metrics_server") ∧
    errOf (parseArgs (buildUpgrade (recordOf ktRecord))) = some (.requiredIf "enable_metrics_server") := by
  refine ⟨fun h => ?_, by decide, by decide⟩
  exact h.noTrigger (.var ["metrics_free_port"], "0") (by decide) (by decide)

/-! ## The argv level: the strings of `ServiceInstallCtx.args` and clap's re-tokenisation

`argv` (= `flatten`) is what both builders push: `--name`, `value` as separate strings, a list joined by
`,`, the network as a bare word. `lex` is clap's tokeniser on antnode's declarations. The statements so far
were about items; here they are about strings. -/

theorem install_pre_lex_declared : installPre.all (entryLexDeclared activeTop) = true := by decide
theorem upgrade_pre_lex_declared : upgradePre.all (entryLexDeclared activeTop) = true := by decide
theorem install_post_lex_declared :
    installPost.all (fun e => e.guard == .evmCustom evmSrc && entryLexDeclared customDecls e) = true := by decide
theorem upgrade_post_lex_declared :
    upgradePost.all (fun e => e.guard == .evmCustom evmSrc && entryLexDeclared customDecls e) = true := by decide
theorem words_not_options : evmDisplay.all (fun kv => !looksLikeOption kv.2) = true := by decide

/-- Upgrade and install arguments are lex-safe together (same multiset of items). -/
theorem upgrade_values_lex_safe (σ : Valuation) :
    ValuesLexSafe (buildUpgrade (recordOf σ)) = ValuesLexSafe (buildInstall σ) :=
  valuesLexSafe_perm (upgrade_args_equiv σ)

/-- **lex ∘ flatten = id on what the manager writes.** For every option record whose written values are
lex-safe (`ValuesLexSafe`: no value looks like an option — starts with `-` and is not `-` alone —, list
elements contain no `,`, lists are non-empty), clap's tokeniser recovers from the argument STRINGS exactly
the items, at installation and at upgrade. -/
theorem lex_flatten (σ : Valuation) (v : String)
    (hv : σ ["options", "evm_network"] = .evm v) (hmem : v ∈ evmDisplay.map (·.1))
    (hsafe : ValuesLexSafe (buildInstall σ) = true) :
    lex activeTop activeSubs (argv (buildInstall σ)) = some (buildInstall σ) ∧
    lex activeTop activeSubs (argv (buildUpgrade (recordOf σ))) = some (buildUpgrade (recordOf σ)) := by
  have hsafeU : ValuesLexSafe (buildUpgrade (recordOf σ)) = true := by rw [upgrade_values_lex_safe]; exact hsafe
  rw [buildInstall_eq] at hsafe ⊢
  rw [buildUpgrade_eq] at hsafeU ⊢
  exact ⟨lex_argv _ _ _ (lexable_of_shape evmDisplay activeTop activeSubs _ _ _ evmSrc install_shape
            install_pre_lex_declared install_post_lex_declared words_not_options σ v hv hmem hsafe),
         lex_argv _ _ _ (lexable_of_shape evmDisplay activeTop activeSubs _ _ _ evmSrc upgrade_shape
            upgrade_pre_lex_declared upgrade_post_lex_declared words_not_options σ v hv hmem hsafeU)⟩

/-- **argv_build_is_intended.** Tokenising and parsing the argument STRINGS written at installation, and
those regenerated at upgrade, yields the intended configuration — for every option record antctl can hand
to `add_node` whose written values are lex-safe. -/
theorem argv_build_is_intended (σ : Valuation) (v : String)
    (hv : σ ["options", "evm_network"] = .evm v) (hmem : v ∈ evmDisplay.map (·.1)) (hσ : InputAccepted σ)
    (hsafe : ValuesLexSafe (buildInstall σ) = true) :
    ∃ x, activeSubs.find? (fun x => x.1 == lookupD evmDisplay v) = some x ∧
      parseArgStrings (argv (buildInstall σ)) = .ok ⟨intendedTop σ, some (x.2.1, intendedSub σ)⟩ ∧
      parseArgStrings (argv (buildUpgrade (recordOf σ))) = .ok ⟨intendedTop σ, some (x.2.1, intendedSub σ)⟩ := by
  obtain ⟨hlI, hlU⟩ := lex_flatten σ v hv hmem hsafe
  obtain ⟨x, hx, hI⟩ := parse_build_is_intended σ v hv hmem hσ
  obtain ⟨x', hx', hU⟩ := parse_upgrade_accepted σ v hv hmem hσ
  have : x' = x := by rw [hx] at hx'; injection hx' with h; exact h.symm
  subst this
  refine ⟨x', hx, ?_, ?_⟩
  · simp only [parseArgStrings, parseArgv, hlI]; exact hI
  · simp only [parseArgStrings, parseArgv, hlU]; exact hU

/-! ### Which written values are lex-safe by construction, and which are the user's -/

def startsWithDigit (s : String) : Bool :=
  match s.toList with
  | c :: _ => c.isDigit
  | [] => false

theorem not_option_of_digit (s : String) (h : startsWithDigit s = true) : looksLikeOption s = false := by
  unfold startsWithDigit at h
  unfold looksLikeOption
  cases hl : s.toList with
  | nil => rfl
  | cons c r =>
    simp only [hl] at h
    have hc : c ≠ '-' := by intro e; subst e; exact absurd h (by decide)
    cases r with
    | nil => rfl
    | cons c₂ r' => simp [classify, hc]

/-- Settings that antctl prints from a typed value whose `Display` starts with a decimal digit: socket
address (IPv4), network id (`u8`), IPv4 address, ports (`u16`), file counts (`usize`), and the three
`0x…` addresses. -/
def digitSources : List Src := [
  .var ["rpc_socket_addr"], .var ["options", "network_id"], .var ["options", "node_ip"], .var ["node_port"],
  .var ["metrics_free_port"], .var ["options", "max_archived_log_files"], .var ["options", "max_log_files"],
  .var ["options", "rewards_address"], .var ["options", "evm_network", "payment_token_address"],
  .var ["options", "evm_network", "data_payments_address"]]

/-- Settings whose text is the user's: directories (the service directories are `<dir given to antctl>/<service
name>`), the owner, the RPC URL of a custom network, and the two lists (peers, contact URLs). -/
def userSources : List (Src × Render) := [
  (.var ["service_data_dir_path"], .lossy), (.var ["service_log_dir_path"], .lossy),
  (.var ["options", "peers_args", "bootstrap_cache_dir"], .lossy),
  (.fold .lower (.var ["options", "owner"]), .display),
  (.var ["options", "evm_network", "rpc_url_http"], .display),
  (.var ["options", "peers_args", "addrs"], .joinComma),
  (.var ["options", "peers_args", "network_contacts_url"], .joinComma)]

inductive VClass where
  | noValue | digits | logFormat | word | user | unknown
  deriving DecidableEq, Repr

def entryClass (e : Entry) : VClass :=
  match e.value with
  | none => .noValue
  | some (s, r) =>
    if e.flag.isNone then (if s = evmSrc ∧ r = .display then .word else .unknown)
    else if r ≠ .joinComma ∧ s ∈ digitSources then .digits
    else if s = .var ["options", "log_format"] ∧ r = .asStr then .logFormat
    else if (s, r) ∈ userSources then .user
    else .unknown

/-- Every value either builder writes falls in one of the classes … -/
theorem install_values_classified : installResolved.all (fun e => entryClass e != .unknown) = true := by decide
/-- … and the user's strings are exactly these options. -/
theorem user_valued_options :
    (installResolved.filter (fun e => entryClass e == .user)).map (·.flag) =
      [some "root-dir", some "log-output-dest", some "peer", some "network-contacts-url",
       some "bootstrap-cache-dir", some "owner", some "rpc-url"] := by decide

/-- The typed settings have the shape their Rust types print: present-or-absent single values starting
with a digit; the log format one of the words `LogFormat::as_str` prints. -/
structure WellFormatted (σ : Valuation) : Prop where
  digits : ∀ s ∈ digitSources, ∃ o, evalSrc σ s = .opt o ∧ ∀ a, o = some a → startsWithDigit a.show = true
  logFormat : ∃ o, σ ["options", "log_format"] = .opt o ∧ ∀ a, o = some a → a.show ∈ logFormatAsStr.map (·.2)

/-- **The named hypothesis on user-supplied strings**: the directories, the owner (lower-cased), the
custom network's RPC URL, and the peer / contact-URL lists, as written, are lex-safe. (antctl's own clap
parser guarantees the list part — it splits at `,` itself — and guarantees the no-leading-`-` part only
for values given as `--opt value`, not for `--opt=-value`: known finding K-t-hyphen-value.) -/
def UserStringsLexSafe (σ : Valuation) : Prop :=
  ∀ e ∈ installResolved, entryClass e = .user → ∀ it, evalEntry evmDisplay σ e = some it → it.value.lexSafe = true

theorem log_format_words_not_options : logFormatAsStr.all (fun kv => !looksLikeOption kv.2) = true := by decide

/-- **values_lex_safe.** Every value the manager writes is lex-safe, for every option record whose typed
settings print as their types do (`WellFormatted`) and whose user-supplied strings are lex-safe
(`UserStringsLexSafe`). So `ValuesLexSafe` is a hypothesis about the user's strings only. -/
theorem values_lex_safe (σ : Valuation) (v : String)
    (hv : σ ["options", "evm_network"] = .evm v) (hmem : v ∈ evmDisplay.map (·.1))
    (hfmt : WellFormatted σ) (huser : UserStringsLexSafe σ) :
    ValuesLexSafe (buildInstall σ) = true ∧ ValuesLexSafe (buildUpgrade (recordOf σ)) = true := by
  suffices h : ValuesLexSafe (buildInstall σ) = true from ⟨h, by rw [upgrade_values_lex_safe]; exact h⟩
  rw [buildInstall_eq]
  simp only [ValuesLexSafe, List.all_eq_true]
  intro it hit
  simp only [interp, List.mem_filterMap] at hit
  obtain ⟨e, he, hev⟩ := hit
  have hcls := List.all_eq_true.mp install_values_classified e he
  obtain ⟨hg, hitv⟩ := evalEntry_some evmDisplay σ e it hev
  cases hc : entryClass e with
  | unknown => simp [hc] at hcls
  | user => exact huser e he hc it hev
  | noValue =>
    unfold entryClass at hc
    cases hvv : e.value with
    | none => rw [hitv]; simp [hvv, IVal.lexSafe]
    | some sr => obtain ⟨s, r⟩ := sr; simp only [hvv] at hc; split at hc <;> (try split at hc) <;> (try split at hc) <;> (try split at hc) <;> simp at hc
  | word =>
    unfold entryClass at hc
    cases hvv : e.value with
    | none => simp [hvv] at hc
    | some sr =>
      obtain ⟨s, r⟩ := sr
      simp only [hvv] at hc
      split at hc
      · split at hc
        · rename_i hsr
          obtain ⟨hs, hr⟩ := hsr
          subst hs; subst hr
          rw [hitv]; simp only [hvv]
          obtain ⟨w, hw, hm⟩ := lookupD_of_mem evmDisplay v hmem
          have := List.all_eq_true.mp words_not_options (v, w) hm
          simp only [ival, evmSrc, evalSrc, hv, asWord, hw, IVal.lexSafe]
          exact this
        · simp at hc
      · split at hc <;> (try split at hc) <;> (try split at hc) <;> simp at hc
  | digits =>
    unfold entryClass at hc
    cases hvv : e.value with
    | none => simp [hvv] at hc
    | some sr =>
      obtain ⟨s, r⟩ := sr
      simp only [hvv] at hc
      split at hc
      · split at hc <;> simp at hc
      · split at hc
        · rename_i hsr
          obtain ⟨hr, hs⟩ := hsr
          obtain ⟨o, ho, hdig⟩ := hfmt.digits s hs
          rw [hitv]; simp only [hvv]
          have hone : ival evmDisplay (evalSrc σ s) r = .one (asWord evmDisplay (evalSrc σ s)) := by
            cases r <;> simp_all [ival]
          rw [hone, ho]
          simp only [IVal.lexSafe, Bool.not_eq_true', asWord]
          cases o with
          | none => rfl
          | some a => exact not_option_of_digit _ (hdig a rfl)
        · split at hc <;> (try split at hc) <;> simp at hc
  | logFormat =>
    unfold entryClass at hc
    cases hvv : e.value with
    | none => simp [hvv] at hc
    | some sr =>
      obtain ⟨s, r⟩ := sr
      simp only [hvv] at hc
      split at hc
      · split at hc <;> simp at hc
      · split at hc
        · simp at hc
        · split at hc
          · rename_i hsr
            obtain ⟨hs, hr⟩ := hsr
            subst hs; subst hr
            obtain ⟨o, ho, hlf⟩ := hfmt.logFormat
            rw [hitv]; simp only [hvv]
            simp only [ival, evalSrc, ho, IVal.lexSafe, Bool.not_eq_true']
            cases o with
            | none => rfl
            | some a =>
              have hm := hlf a rfl
              obtain ⟨kv, hkv, hkv2⟩ := List.mem_map.mp hm
              have := List.all_eq_true.mp log_format_words_not_options kv hkv
              simp only [asWord, ← hkv2]
              simpa using this
          · split at hc <;> simp at hc

/-- Non-vacuity: the example record is well formatted, its user strings are lex-safe, and its argument
strings tokenise and parse to the intended configuration. -/
example : ValuesLexSafe (buildInstall exampleRecord) = true := by decide
example : (argv (buildInstall exampleRecord)).take 8 =
    ["--rpc", "127.0.0.1:1", "--root-dir", "", "--log-output-dest", "", "--peer", "a,b"] := by decide
example : ∃ x, parseArgStrings (argv (buildUpgrade (recordOf exampleRecord))) =
    .ok ⟨intendedTop exampleRecord, some (x, intendedSub exampleRecord)⟩ := by
  obtain ⟨x, _, _, h⟩ := argv_build_is_intended exampleRecord "Custom" rfl (by decide) example_input_accepted (by decide)
  exact ⟨_, h⟩

/-- **The excluded case at the argv level (known finding K-t-hyphen-value).** An owner given to antctl as
`--owner=-x`: item for item the written arguments are the intended ones (the item-level parser accepts
them), but the STRINGS `--owner`, `-x` are not: clap takes `-x` for an option. `ValuesLexSafe` is exactly
what fails. The real antnode binary rejects these arguments (component `antnode_accepts`, op `lexprobe`). -/
def hyphenOwnerRecord : Valuation := fun p =>
  if p = ["options", "owner"] then .opt (some [.plain "-", .plain "x"]) else exampleRecord p

theorem hyphen_value_rejected :
    InputAccepted hyphenOwnerRecord ∧
    ValuesLexSafe (buildInstall hyphenOwnerRecord) = false ∧
    (∃ p, parseArgs (buildInstall hyphenOwnerRecord) = .ok p ∧ p.top "owner" = .one "-x") ∧
    errOf (parseArgStrings (argv (buildInstall hyphenOwnerRecord))) = some .untokenisable ∧
    errOf (parseArgStrings (argv (buildUpgrade (recordOf hyphenOwnerRecord)))) = some .untokenisable := by
  have hacc : InputAccepted hyphenOwnerRecord := ⟨by unfold InputConflictFree; decide, by decide⟩
  refine ⟨hacc, by decide, ?_, by decide, by decide⟩
  obtain ⟨x, _, h⟩ := parse_build_is_intended hyphenOwnerRecord "Custom" rfl (by decide) hacc
  exact ⟨_, h, (by decide : intendedTop hyphenOwnerRecord "owner" = .one "-x")⟩

/-- What clap does with a delimiter inside a list element (not producible through antctl's own parser,
which splits at `,` first): accepted, but as two elements. -/
example : lex activeTop activeSubs ["--network-contacts-url", "http://h/x?a=1,2", "evm-arbitrum-one"] =
    some [⟨some "network-contacts-url", .joined ["http://h/x?a=1", "2"]⟩, ⟨none, .one "evm-arbitrum-one"⟩] := by decide

/-! ## The service level: system or user (audit C20-3) -/

theorem levels_resolved :
    ((upgradeUninstallLevel.subst viaData).subst viaAddLocals).norm = addInstallLevel.norm ∧
    ((upgradeInstallLevel.subst viaData).subst viaAddLocals).norm = addInstallLevel.norm := by decide

theorem evalSrc_recordOf (σ : Valuation) (s : Src) :
    evalSrc (recordOf σ) s = evalSrc σ ((s.subst viaData).subst viaAddLocals).norm := by
  rw [evalSrc_norm, evalSrc_subst, evalSrc_subst]; rfl

/-- **upgrade_keeps_service_level.** `ServiceManager::upgrade` removes the old definition from, and writes
the regenerated one to, the level (system / user) `add_node` installed the service at — for every option
record. (A literal `false` in either call of `upgrade` makes this false: `levels_resolved` breaks.) -/
theorem upgrade_keeps_service_level (σ : Valuation) :
    upgradeLevels (recordOf σ) = (installLevel σ, installLevel σ) := by
  unfold upgradeLevels installLevel
  rw [evalSrc_recordOf, evalSrc_recordOf, levels_resolved.1, levels_resolved.2, evalSrc_norm]

/-- Non-vacuity: a user-mode add is upgraded at user level, a root add at system level. -/
example : upgradeLevels (recordOf (fun p => if p = ["options", "user_mode"] then .bool true else exampleRecord p)) =
    (.bool true, .bool true) := by decide
example : upgradeLevels (recordOf (fun p => if p = ["options", "user_mode"] then .bool false else exampleRecord p)) =
    (.bool false, .bool false) := by decide

/-! ## The daemon's restart writes service definitions too (audit C20-2)

`rpc::restart_node_service` (antctld): with the peer id retained it uninstalls and re-installs the SAME
service from its registry entry — a regeneration of the definition exactly like an upgrade; without, it
installs a replacement service (new name, directories, ports) from the old entry's settings. -/

/-- the port of the recorded listen address read as the recorded node port -/
def viaListen : Path → Src
  | ["~", "listenport"] => .var ["node_port"]
  | p => .var p

/-- What `on_start` establishes whenever the started node reports a listener: `get_antnode_port()` (the
port of the recorded listen address) is the recorded `node_port`. -/
def ListenPortRecorded (ρ : Valuation) : Prop := ρ ["~", "listenport"] = ρ ["node_port"]

theorem through_viaListen (ρ : Valuation) (h : ListenPortRecorded ρ) : through viaListen ρ = ρ := by
  funext p
  unfold through viaListen
  split
  · simpa [evalSrc] using h.symm
  · rfl

def restartRetainResolved : List Entry :=
  (installTable.map (Entry.subst viaRestartRetain)).map (Entry.subst viaListen)
def upgradeOfEntryResolved : List Entry := upgradeTable.map (Entry.subst viaUpgradeOptions)

theorem restart_tables_perm :
    (restartRetainResolved.map Entry.norm).Perm (upgradeOfEntryResolved.map Entry.norm) := by decide

/-- **restart_args_equiv.** For every registry entry whose recorded listen port is its node port, the
definition the daemon regenerates when it restarts the service with its peer id retained launches the node
with the same arguments as the definition `antctl upgrade` regenerates from that entry (hence, by
`upgrade_args_equiv`, as the one written at installation, up to the pinned listener port). -/
theorem restart_args_equiv (ρ : Valuation) (h : ListenPortRecorded ρ) :
    (buildRestartRetain ρ).Perm (buildUpgrade ρ) := by
  have hR : buildRestartRetain ρ = interp evmDisplay restartRetainResolved ρ := by
    unfold buildRestartRetain restartRetainResolved
    rw [interp_subst, interp_subst, through_viaListen ρ h]
  have hU : buildUpgrade ρ = interp evmDisplay upgradeOfEntryResolved ρ := by
    unfold buildUpgrade upgradeOfEntryResolved
    rw [interp_subst]
  rw [hR, hU, ← interp_norm evmDisplay restartRetainResolved, ← interp_norm evmDisplay upgradeOfEntryResolved]
  exact interp_perm evmDisplay ρ restart_tables_perm

/-- **Where `ListenPortRecorded` comes from.** `on_start` (full refresh) of a node that reports a listener on
port `x` records the listen address AND `node_port = x` (`afterStart`); `get_antnode_port()` then reads `x` back
from the recorded listen address (`withListen _ (some x)`). -/
theorem listen_port_recorded_after_start (d : Valuation) (x : AStr) :
    ListenPortRecorded (withListen (afterStart d (some x)) (some x)) := by
  simp [ListenPortRecorded, withListen, afterStart]

/-- … so for every registry entry of a started service the retained restart and the upgrade regenerate the
same arguments. -/
theorem restart_args_equiv_after_start (d : Valuation) (x : AStr) :
    (buildRestartRetain (withListen (afterStart d (some x)) (some x))).Perm
      (buildUpgrade (withListen (afterStart d (some x)) (some x))) :=
  restart_args_equiv _ (listen_port_recorded_after_start d x)

/-- **Outside `ListenPortRecorded`**: an entry whose `node_port` was pinned at `antctl add --node-port 13001`
but which records no listen address with a port (`listen_addr = None`, or a started node that reported no
listener): `get_antnode_port()` is `None`, the retained restart writes NO `--port` while the registry entry and
every upgrade keep `--port 13001`. (The daemon addresses services by peer id, which is recorded by the same
`on_start` that records the listen address; the case needs a node that answered `node_info` but reported no
listener. Observation, not alarmed.) -/
theorem restart_drops_port_without_listen_addr :
    let ρ := withListen (recordOf (fun q => if q = ["node_port"] then .opt (some [.plain "13001"]) else exampleRecord q)) none
    ¬ ListenPortRecorded ρ ∧
    (buildRestartRetain ρ).all (fun it => it.flag != some "port") = true ∧
    (buildUpgrade ρ).any (fun it => it.flag == some "port" && it.value == .one "13001") = true := by
  refine ⟨by unfold ListenPortRecorded; decide, by decide, by decide⟩

def restartRetainCtxResolved : List (String × Src) :=
  installCtx.map fun kv => (kv.1, (kv.2.subst viaRestartRetain).norm)
def upgradeOfEntryCtxResolved : List (String × Src) :=
  upgradeCtx.map fun kv => (kv.1, (kv.2.subst viaUpgradeOptions).norm)

theorem restart_ctx_same_except_env :
    restartRetainCtxResolved.filter (fun kv => kv.1 != "environment") =
    upgradeOfEntryCtxResolved.filter (fun kv => kv.1 != "environment") := by decide

/-- … with the same program, user, autostart, label; its environment is the registry-wide one (what an
upgrade without `--env` uses). -/
theorem restart_settings_equiv (ρ : Valuation) :
    (restartRetainSettings ρ).filter (fun kv => kv.1 != "environment") =
      (upgradeSettings ρ).filter (fun kv => kv.1 != "environment") ∧
    (restartRetainSettings ρ).lookup "environment" = some (ρ ["~", "regenv"]) := by
  have hR : restartRetainSettings ρ = restartRetainCtxResolved.map fun kv => (kv.1, evalSrc ρ kv.2) := by
    simp [restartRetainSettings, ctxOf, restartRetainCtxResolved, evalSrc_subst, evalSrc_norm, Function.comp_def]
  have hU : upgradeSettings ρ = upgradeOfEntryCtxResolved.map fun kv => (kv.1, evalSrc ρ kv.2) := by
    simp [upgradeSettings, ctxOf, upgradeOfEntryCtxResolved, evalSrc_subst, evalSrc_norm, Function.comp_def]
  refine ⟨?_, ?_⟩
  · rw [hR, hU, List.filter_map, List.filter_map]
    have h := restart_ctx_same_except_env
    simp only [Function.comp_def] at h ⊢
    rw [h]
  · rw [hR, lookup_map_snd]
    have : restartRetainCtxResolved.lookup "environment" = some (.var ["~", "regenv"]) := by decide
    simp [this, evalSrc]

/-- **restart_keeps_service_level.** The retained restart removes and re-installs at the level recorded
for the service (the level `add_node` installed it at: `upgrade_keeps_service_level`). -/
theorem restart_keeps_service_level (ρ : Valuation) : restartRetainLevels ρ = upgradeLevels ρ := by
  have : restartRetainUninstallLevel = upgradeUninstallLevel ∧ restartRetainInstallLevel = upgradeInstallLevel := by decide
  unfold restartRetainLevels upgradeLevels
  rw [this.1, this.2]

/-- The shape of the literal before the repair (`metrics_port: None`, both levels `false`). -/
def oldRetainLiteral : List (String × Src) :=
  restartRetainLiteral.map fun kv => if kv.1 = "metrics_port" then (kv.1, .const "None") else kv

/-- a registry entry as a user-mode `add --metrics-port 13001 --owner bob` leaves it, started (port 4242) -/
def restartWitnessEntry : Valuation :=
  fun p => if p = ["~", "listenport"] then .opt (some [.plain "4242"])
    else afterStart (recordOf (fun q =>
      if q = ["metrics_free_port"] then .opt (some [.plain "13001"])
      else if q = ["options", "user_mode"] then .bool true
      else if q = ["options", "owner"] then .opt (some [.plain "bob"])
      else exampleRecord q)) (some [.plain "4242"]) p

/-- **Witness (the code before the repair).** With `metrics_port: None` in the literal the restarted
service loses `--metrics-server-port` although the registry entry still records 13001 and the next upgrade
writes it again; and with `install(ctx, false)` a user-mode service is re-installed at system level.
Repaired in /repo (the recorded metrics port and level are passed). -/
theorem restart_dropped_metrics_port_before_fix :
    ListenPortRecorded restartWitnessEntry ∧
    (interp evmDisplay installTable (through (viaLiteral oldRetainLiteral) restartWitnessEntry)).all
      (fun it => it.flag != some "metrics-server-port") = true ∧
    (buildUpgrade restartWitnessEntry).any (fun it => it.flag == some "metrics-server-port" && it.value == .one "13001") = true ∧
    evalSrc restartWitnessEntry (.const "false") ≠ restartWitnessEntry ["user_mode"] := by
  refine ⟨by unfold ListenPortRecorded; decide, by decide, by decide, by decide⟩

/-! ### The replacement service (`retain_peer_id = false`) -/

def replaceChanged : List String := ["root-dir", "log-output-dest", "port", "metrics-server-port"]
def keepFlag (f : Option String) : Bool := match f with | some n => !replaceChanged.contains n | none => true
def keepEntry (e : Entry) : Bool := keepFlag e.flag

def restartReplaceResolved : List Entry := installTable.map (Entry.subst viaRestartReplace)

theorem replace_tables_perm :
    ((restartReplaceResolved.filter keepEntry).map Entry.norm).Perm
      ((upgradeOfEntryResolved.filter keepEntry).map Entry.norm) := by decide

/-- **restart_replacement_args_equiv.** The replacement service the daemon installs is launched with the
arguments of the service it replaces, except exactly: the data and log directories (derived from the new
name), the node port and the metrics port (a replacement gets none: the stopped original still owns
them). In particular owner, peers arguments, network, rewards address, NAT flags are carried over. -/
theorem restart_replacement_args_equiv (ρ : Valuation) :
    ((buildRestartReplace ρ).filter fun it => keepFlag it.flag).Perm
    ((buildUpgrade ρ).filter fun it => keepFlag it.flag) := by
  have key : ∀ (T : List Entry), (interp evmDisplay T ρ).filter (fun it => keepFlag it.flag) =
      interp evmDisplay (T.filter keepEntry) ρ := by
    intro T
    induction T with
    | nil => rfl
    | cons e T ih =>
      simp only [interp] at ih ⊢
      rw [List.filterMap_cons, List.filter_cons]
      cases hev : evalEntry evmDisplay ρ e with
      | none =>
        simp only []
        by_cases hk : keepEntry e = true
        · rw [if_pos hk, List.filterMap_cons, hev]; exact ih
        · rw [if_neg hk]; exact ih
      | some it =>
        have hfl : it.flag = e.flag := by
          have := (evalEntry_some evmDisplay ρ e it hev).2
          rw [this]
        simp only []
        rw [List.filter_cons]
        by_cases hk : keepEntry e = true
        · have hk' : keepFlag it.flag = true := by rw [hfl]; exact hk
          rw [if_pos hk, List.filterMap_cons, hev, if_pos hk', ih]
        · have hk' : ¬ keepFlag it.flag = true := by rw [hfl]; exact hk
          rw [if_neg hk, if_neg hk', ih]
  have hR : buildRestartReplace ρ = interp evmDisplay restartReplaceResolved ρ := by
    unfold buildRestartReplace restartReplaceResolved
    rw [interp_subst]
  have hU : buildUpgrade ρ = interp evmDisplay upgradeOfEntryResolved ρ := by
    unfold buildUpgrade upgradeOfEntryResolved
    rw [interp_subst]
  rw [hR, hU, key, key, ← interp_norm evmDisplay (restartReplaceResolved.filter keepEntry),
    ← interp_norm evmDisplay (upgradeOfEntryResolved.filter keepEntry)]
  exact interp_perm evmDisplay ρ replace_tables_perm

/-- … and the registry entry recorded for the replacement regenerates, at ITS next upgrade, the definition
the daemon installed it with (clause 1 for services created by the daemon), at the level it was installed. -/
theorem replacement_upgrade_args_equiv (ρ : Valuation) :
    (buildUpgrade (replaceRecordOf ρ)).Perm (buildRestartReplace ρ) ∧
    upgradeLevels (replaceRecordOf ρ) = (evalSrc ρ restartReplaceInstallLevel, evalSrc ρ restartReplaceInstallLevel) := by
  have hperm : (((upgradeTable.map (Entry.subst viaUpgradeOptions)).map (Entry.subst viaReplaceData)).map Entry.norm).Perm
      (restartReplaceResolved.map Entry.norm) := by decide
  have hU : buildUpgrade (replaceRecordOf ρ) =
      interp evmDisplay ((upgradeTable.map (Entry.subst viaUpgradeOptions)).map (Entry.subst viaReplaceData)) ρ := by
    unfold buildUpgrade replaceRecordOf
    rw [interp_subst, interp_subst]
  have hR : buildRestartReplace ρ = interp evmDisplay restartReplaceResolved ρ := by
    unfold buildRestartReplace restartReplaceResolved
    rw [interp_subst]
  refine ⟨?_, ?_⟩
  · rw [hU, hR, ← interp_norm evmDisplay restartReplaceResolved, ← interp_norm evmDisplay (List.map _ (List.map _ upgradeTable))]
    exact interp_perm evmDisplay ρ hperm
  · have h1 : (upgradeUninstallLevel.subst viaReplaceData).norm = restartReplaceInstallLevel.norm ∧
        (upgradeInstallLevel.subst viaReplaceData).norm = restartReplaceInstallLevel.norm := by decide
    unfold upgradeLevels replaceRecordOf
    rw [← evalSrc_subst, ← evalSrc_subst, ← evalSrc_norm ρ (Src.subst _ upgradeUninstallLevel),
      ← evalSrc_norm ρ (Src.subst _ upgradeInstallLevel), h1.1, h1.2, evalSrc_norm]

/-- The FIFTH uninstall/install call of the manager: the replacement is installed (and recorded) at the level
of the service it replaces. -/
def ReplacementKeepsLevel : Prop :=
  ∀ ρ : Valuation, evalSrc ρ restartReplaceInstallLevel = ρ ["user_mode"] ∧
    evalSrc ρ ((Src.var ["user_mode"]).subst viaReplaceData) = ρ ["user_mode"]

/-- **replacement_level (two-sided).** Either the source passes the recorded level (`current_node_clone.user_mode`
at both sites) and `ReplacementKeepsLevel` holds for every entry; or — today — both sites are the literal `false`
and it fails: the replacement of an entry recorded at user level (`restartWitnessEntry`) is installed and recorded
at SYSTEM level. -/
theorem replacement_level :
    (restartReplaceInstallLevel = .var ["user_mode"] ∧ ReplacementKeepsLevel) ∨
    (restartReplaceInstallLevel = .const "false" ∧ ¬ ReplacementKeepsLevel) := by
  first
  | exact Or.inl ⟨by decide, fun ρ => ⟨by
      have h : restartReplaceInstallLevel = .var ["user_mode"] := by decide
      rw [h]; rfl, by
      have h : (Src.var ["user_mode"]).subst viaReplaceData = .var ["user_mode"] := by decide
      rw [h]; rfl⟩⟩
  | exact Or.inr ⟨by decide, fun h => by
      have := (h restartWitnessEntry).1
      revert this
      decide⟩

/-- **`_partial`: holds for every entry `antctl` can have written.** `antctl add` sets a service user only at
system level (`addServiceUserOnlyAtSystemLevel`, read from `cmd::node::add`), and the replacement branch refuses
an entry without a service user (`The user must be set in the RPC context`) before anything is installed: so a
replacement that does get installed replaces a system-level service, and `false` is its level. -/
theorem replacement_keeps_level_partial (ρ : Valuation) (hsys : ρ ["user_mode"] = .bool false) :
    addServiceUserOnlyAtSystemLevel = true ∧
    evalSrc ρ restartReplaceInstallLevel = ρ ["user_mode"] ∧
    evalSrc ρ ((Src.var ["user_mode"]).subst viaReplaceData) = ρ ["user_mode"] := by
  refine ⟨by decide, ?_, ?_⟩
  · first
    | (have h : restartReplaceInstallLevel = .var ["user_mode"] := by decide
       rw [h]; rfl)
    | (have h : restartReplaceInstallLevel = .const "false" := by decide
       rw [h, hsys]; rfl)
  · first
    | (have h : (Src.var ["user_mode"]).subst viaReplaceData = .var ["user_mode"] := by decide
       rw [h]; rfl)
    | (have h : (Src.var ["user_mode"]).subst viaReplaceData = .const "false" := by decide
       rw [h, hsys]; rfl)

/-! ## `antctl add --bootstrap-cache-dir` (audit C20-4) -/

def cacheEntry : Entry := ⟨.isSome (.var cachePath), some "bootstrap-cache-dir", some (.var cachePath, .lossy)⟩
theorem cache_entry_mem : cacheEntry ∈ installResolved := by decide

/-- **user_bootstrap_cache_dir_is_written.** A `--bootstrap-cache-dir d` given to `antctl add` reaches the
definition written at installation and the one regenerated at upgrade as `--bootstrap-cache-dir d`,
whatever the service user's default directory is. (`intent` is phrased over `add_node`'s options; this is
the step from antctl's command line to those options, read from `cmd::node::add`.) -/
theorem user_bootstrap_cache_dir_is_written (σ : Valuation) (d : AStr) (dflt : Option AStr) :
    (⟨some "bootstrap-cache-dir", .one d.show⟩ : Item) ∈ buildInstall (withCli σ addKeepsUserBootstrapCacheDir (some d) dflt) ∧
    (⟨some "bootstrap-cache-dir", .one d.show⟩ : Item) ∈
      buildUpgrade (recordOf (withCli σ addKeepsUserBootstrapCacheDir (some d) dflt)) := by
  have hk : addKeepsUserBootstrapCacheDir = true := by decide
  have hI : (⟨some "bootstrap-cache-dir", .one d.show⟩ : Item) ∈ buildInstall (withCli σ addKeepsUserBootstrapCacheDir (some d) dflt) := by
    rw [buildInstall_eq]
    simp only [interp, List.mem_filterMap]
    refine ⟨cacheEntry, cache_entry_mem, ?_⟩
    simp [cacheEntry, evalEntry, guardHolds, evalSrc, withCli, cliBootstrapCacheDir, hk, ival, asWord]
  exact ⟨hI, (upgrade_args_equiv _).mem_iff.mpr hI⟩

/-- **Witness (the code before the repair)**: `peers_args.bootstrap_cache_dir = bootstrap_cache_dir`
unconditionally — in user mode (no default) the user's directory never reaches the definition although
antctl accepted the option. Repaired in /repo. -/
theorem user_bootstrap_cache_dir_was_overwritten :
    (buildInstall (withCli exampleRecord false (some [.plain "/srv/cache"]) none)).all
      (fun it => it.flag != some "bootstrap-cache-dir") = true := by decide

/-! ## A LATER add rewrites the environment of EARLIER services (audit C20-5, known finding K-t-env-later-add) -/

theorem withEnvLater_none (σ : Valuation) (provided prev : Option AStr) (out : AddOutcome) :
    withEnvLater σ provided prev out none = withEnv σ provided prev out := rfl

/-- environment of the definition regenerated at upgrade after a later add of OTHER services -/
theorem upgrade_environment_later (σ : Valuation) (provided prev : Option AStr) (out : AddOutcome) (later : Option AStr) :
    (upgradeSettings (recordOf (withEnvLater σ provided prev out later))).lookup "environment" =
      some (.opt (envAtUpgradeLater σ provided prev out later)) := by
  rw [upgradeSettings_eq, lookup_map_snd]
  have : upgradeCtxResolved.lookup "environment" = some (.var ["#env"]) := by decide
  simp [this, evalSrc, withEnvLater]

/-- The full clause for the environment: the regenerated definition has the environment the service was
installed with unless the upgrade is given `--env`. FALSE of the code (registry-wide environment). -/
def UpgradeKeepsInstalledEnvironment : Prop :=
  ∀ (σ : Valuation) (prev later : Option AStr) (out : AddOutcome),
    (upgradeSettings (recordOf (withEnvLater σ none prev out later))).lookup "environment" =
      (installSettings σ).lookup "environment"

/-- **Witness.** `add --env A=1` (service 1), later `add --env B=2` (service 2), `upgrade`: service 1 is
regenerated with `B=2`. -/
theorem later_add_rewrites_earlier_environment : ¬ UpgradeKeepsInstalledEnvironment := by
  intro h
  have := h (fun p => if p = envPath then .opt (some [.plain "A=1"]) else exampleRecord p) none (some [.plain "B=2"]) .allInstalled
  rw [upgrade_environment_later, install_environment] at this
  revert this
  decide

/-- `_partial`: the clause holds when no later add of other services carried `--env` (hypothesis
`later = none`) and the registry-wide environment is this add's one. -/
theorem upgrade_environment_kept_partial (σ : Valuation) (prev env : Option AStr) (out : AddOutcome)
    (henv : σ envPath = .opt env) (hreg : env.isSome ∨ prev = none) :
    (upgradeSettings (recordOf (withEnvLater σ none prev out none))).lookup "environment" =
      (installSettings σ).lookup "environment" := by
  rw [withEnvLater_none]; exact upgrade_environment_kept σ prev env out henv hreg

/-! ## The unit file: what systemd makes of the definition (audit C20-1, known finding K-t-unit-unquoted) -/
open SafeNet.UnitFile

theorem unit_format_pieces :
    fmtPieces unitExecStartFormat = [.lit "ExecStart=", .hole "program", .lit " ", .hole "args"] ∧
    unitArgsSeparator = " " ∧
    fmtPieces unitEnvironmentFormat = [.lit "Environment=\"", .hole "var", .lit "=", .hole "val", .lit "\""] := by decide

/-- **unit_formats_as_modelled.** The unit-file lines rendered FROM the format strings the translator reads
out of the locked `service-manager` crate's `systemd.rs::make_service` (`unitExecStartLine`,
`unitEnvironmentLine`: every `{name}` hole filled, nothing quoted or escaped — the driver prints these and
component `upgrade` compares them with the crate's own output on every record) are, for every program,
argument list, variable and value, exactly the strings the unit-file theorems are about
(`execStartValue`, `environmentLine`). A changed format string or separator breaks this. -/
theorem unit_formats_as_modelled (program : String) (args : List String) (var val : String) :
    unitExecStartLine program args = "ExecStart=" ++ execStartValue program args ∧
    unitEnvironmentLine var val = environmentLine var val := by
  obtain ⟨h1, h2, h3⟩ := unit_format_pieces
  constructor
  · simp [unitExecStartLine, h1, h2, fmtApply, execStartValue, String.append_assoc]
  · simp [unitEnvironmentLine, h3, fmtApply, environmentLine, String.append_assoc]

/-- `ServiceInstallCtx.program` as the unit file shows it (`to_string_lossy`) -/
def programOf (settings : List (String × Val)) : String :=
  match settings.lookup "program" with
  | some v => asWord evmDisplay v
  | none => ""

/-- What systemd starts for a definition rendered by the shipped backend: the executable, and antnode's
reading of the re-tokenised arguments. `none`: the `ExecStart=` value contains a specifier, a variable, an
escape, an unbalanced quote or a lone `;` (outcome not a function of the definition alone). -/
def unitInterpret (program : String) (items : List Item) : Option (String × Except PErr Parsed) :=
  (unitCommand (execStartValue program (argv items))).map fun pa => (pa.1, parseArgStrings pa.2)

theorem program_same (σ : Valuation) : programOf (upgradeSettings (recordOf σ)) = programOf (installSettings σ) := by
  unfold programOf
  rw [installSettings_eq, upgradeSettings_eq, lookup_map_snd, lookup_map_snd]
  have : upgradeCtxResolved.lookup "program" = installCtxResolved.lookup "program" := by decide
  rw [this]

theorem argv_all (P : String → Bool) (items : List Item) :
    (argv items).all P = items.all fun it => it.words.all P := by
  simp [argv, List.all_flatMap]

theorem unitSafe_perm (program : String) {A B : List Item} (h : A.Perm B) :
    UnitSafe program (argv A) = UnitSafe program (argv B) := by
  simp only [UnitSafe, argv_all]
  rw [h.all_eq]

/-- **rendered_unit_interpreted_as_intended.** For every option record antctl can hand to `add_node`
whose written strings are lex-safe and `UnitSafe` (program path and every argument string non-empty,
without white space, quotes, backslash, `%`, `$`, not `;` alone): systemd, reading the unit file the shipped
backend renders (unquoted `ExecStart={program} {args.join(" ")}`), starts exactly the installed program
with arguments antnode interprets as the intended configuration — for the definition written at
installation and for the one regenerated at upgrade. -/
theorem rendered_unit_interpreted_as_intended (σ : Valuation) (v : String)
    (hv : σ ["options", "evm_network"] = .evm v) (hmem : v ∈ evmDisplay.map (·.1)) (hσ : InputAccepted σ)
    (hsafe : ValuesLexSafe (buildInstall σ) = true)
    (hunit : UnitSafe (programOf (installSettings σ)) (argv (buildInstall σ)) = true) :
    ∃ x, activeSubs.find? (fun x => x.1 == lookupD evmDisplay v) = some x ∧
      unitInterpret (programOf (installSettings σ)) (buildInstall σ) =
        some (programOf (installSettings σ), .ok ⟨intendedTop σ, some (x.2.1, intendedSub σ)⟩) ∧
      unitInterpret (programOf (upgradeSettings (recordOf σ))) (buildUpgrade (recordOf σ)) =
        some (programOf (installSettings σ), .ok ⟨intendedTop σ, some (x.2.1, intendedSub σ)⟩) := by
  obtain ⟨x, hx, hI, hU⟩ := argv_build_is_intended σ v hv hmem hσ hsafe
  have hunitU : UnitSafe (programOf (installSettings σ)) (argv (buildUpgrade (recordOf σ))) = true := by
    rw [unitSafe_perm _ (upgrade_args_equiv σ)]; exact hunit
  refine ⟨x, hx, ?_, ?_⟩
  · simp only [unitInterpret, unitCommand_execStart _ _ hunit, Option.map_some, hI]
  · rw [program_same]
    simp only [unitInterpret, unitCommand_execStart _ _ hunitU, Option.map_some, hU]

/-- … and each `Environment=` line is read back as the assignment it was written for, when neither string
contains `"`, `\`, `%`, `$` or a line break. -/
theorem rendered_environment_read_back (var val : String) (hk : envStringSafe var = true) (hv : envStringSafe val = true) :
    environmentRead (environmentLine var val) = some [var ++ "=" ++ val] :=
  environmentRead_line var val hk hv

/-! ### `UnitSafe` reduced to the values, and to the user's strings -/

def ivalUnitSafe : IVal → Bool
  | .none => true
  | .one s => wordSafe s
  | .joined l => wordSafe (",".intercalate l)

def ValuesUnitSafe (items : List Item) : Bool := items.all fun it => ivalUnitSafe it.value

/-- every option name either builder writes is a safe word -/
theorem flags_unit_safe :
    installResolved.all (fun e => match e.flag with | some n => wordSafe ("--" ++ n) | none => true) = true := by decide

/-- The user's strings are unit-safe (named hypothesis; decidable per record): directories, owner, RPC URL,
peer and contact-URL lists as written. -/
def UserStringsUnitSafe (σ : Valuation) : Prop :=
  ∀ e ∈ installResolved, entryClass e = .user → ∀ it, evalEntry evmDisplay σ e = some it → ivalUnitSafe it.value = true

/-- The typed settings and the subcommand word print without white space, quotes, `\`, `%`, `$` (digits,
dots, colons, hex digits, the fixed words): trusted `Display` shapes, checked on every accepted record by
the oracle of component `antnode_accepts`. -/
def TypedValuesPlain (σ : Valuation) : Prop :=
  ∀ e ∈ installResolved, entryClass e ≠ .user → ∀ it, evalEntry evmDisplay σ e = some it → ivalUnitSafe it.value = true

/-- **unit_safe_of_user_strings.** `UnitSafe` follows from THREE hypotheses: the program path is a safe word,
the user's own strings are unit-safe (`UserStringsUnitSafe`), and — NOT derived, a trusted statement about Rust's
`Display` of the typed settings, checked on every accepted record by an oracle clause of component
`antnode_accepts` (`typed-values-print-as-their-types`) — `TypedValuesPlain`. Both value hypotheses are
satisfiable together (`unit_record_hypotheses`). -/
theorem unit_safe_of_user_strings (σ : Valuation) (program : String) (hp : wordSafe program = true)
    (ht : TypedValuesPlain σ) (hu : UserStringsUnitSafe σ) :
    UnitSafe program (argv (buildInstall σ)) = true ∧ UnitSafe program (argv (buildUpgrade (recordOf σ))) = true := by
  suffices h : UnitSafe program (argv (buildInstall σ)) = true from
    ⟨h, by rw [unitSafe_perm _ (upgrade_args_equiv σ)]; exact h⟩
  rw [buildInstall_eq]
  simp only [UnitSafe, hp, Bool.true_and, argv_all, List.all_eq_true]
  intro it hit
  simp only [interp, List.mem_filterMap] at hit
  obtain ⟨e, he, hev⟩ := hit
  have hval : ivalUnitSafe it.value = true := by
    by_cases hc : entryClass e = .user
    · exact hu e he hc it hev
    · exact ht e he hc it hev
  have hflag := List.all_eq_true.mp flags_unit_safe e he
  have hfl : it.flag = e.flag := by rw [(evalEntry_some evmDisplay σ e it hev).2]
  intro w hw
  simp only [Item.words, List.mem_append] at hw
  rcases hw with hw | hw
  · rw [hfl] at hw
    cases hf : e.flag with
    | none => simp [hf] at hw
    | some n =>
      simp only [hf, List.mem_singleton] at hw
      subst hw
      simpa [hf] using hflag
  · cases hiv : it.value with
    | none => simp [hiv, IVal.words] at hw
    | one s => simp only [hiv, IVal.words, List.mem_singleton] at hw; subst hw; simpa [hiv, ivalUnitSafe] using hval
    | joined l => simp only [hiv, IVal.words, List.mem_singleton] at hw; subst hw; simpa [hiv, ivalUnitSafe] using hval

/-- Non-vacuity: a record with ordinary paths is `UnitSafe`, and the theorem applies to it. -/
def unitRecord : Valuation := fun p =>
  if p = ["service_data_dir_path"] then .opt (some [.plain "/var/antctl/services/antnode1"])
  else if p = ["service_log_dir_path"] then .opt (some [.plain "/var/log/antnode/antnode1"])
  else if p = ["service_antnode_path"] then .opt (some [.plain "/var/antctl/services/antnode1/antnode"])
  else if p = ["options", "rewards_address"] then .opt (some [.plain "0x03B770D9cD32077cC0bF330c13C114a87643B124"])
  else if p = ["options", "home_network"] then .bool false
  else if p = ["options", "owner"] then .opt (some [.plain "bob"])
  else exampleRecord p

theorem unit_record_values_safe :
    installResolved.all (fun e => match evalEntry evmDisplay unitRecord e with
      | some it => ivalUnitSafe it.value | none => true) = true := by decide

/-- Non-vacuity of the two value hypotheses of `unit_safe_of_user_strings`. -/
theorem unit_record_hypotheses : TypedValuesPlain unitRecord ∧ UserStringsUnitSafe unitRecord := by
  constructor <;>
  · intro e he _ it hev
    have := List.all_eq_true.mp unit_record_values_safe e he
    simpa [hev] using this

example : UnitSafe "/var/antctl/services/antnode1/antnode" (argv (buildInstall unitRecord)) = true :=
  (unit_safe_of_user_strings unitRecord _ (by decide) unit_record_hypotheses.1 unit_record_hypotheses.2).1

theorem unit_record_safe :
    UnitSafe (programOf (installSettings unitRecord)) (argv (buildInstall unitRecord)) = true ∧
    ValuesLexSafe (buildInstall unitRecord) = true := by decide

example : ∃ x, unitInterpret (programOf (installSettings unitRecord)) (buildInstall unitRecord) =
    some ("/var/antctl/services/antnode1/antnode", .ok ⟨intendedTop unitRecord, some (x, intendedSub unitRecord)⟩) := by
  obtain ⟨x, _, h, _⟩ := rendered_unit_interpreted_as_intended unitRecord "Custom" rfl (by decide)
    ⟨by unfold InputConflictFree; decide, by decide⟩ unit_record_safe.2 unit_record_safe.1
  exact ⟨x.2.1, h⟩

/-! ### Outside `UnitSafe`: the witnesses of K-t-unit-unquoted -/

/-- what `unitInterpret` found: the executable, the error of antnode's parse (if any), the owner and the
home-network switch as parsed -/
def unitOutcome (r : Option (String × Except PErr Parsed)) : Option (String × Option PErr × PVal × PVal) :=
  r.map fun pr => (pr.1, errOf pr.2,
    (match pr.2 with | .ok p => p.top "owner" | .error _ => .absent),
    (match pr.2 with | .ok p => p.top "home_network" | .error _ => .absent))

/-- `antctl add --log-dir-path "/var/log/my logs"`: a directory with a blank -/
def blankLogDirRecord : Valuation := fun p =>
  if p = ["service_log_dir_path"] then .opt (some [.plain "/var/log/my logs/antnode1"]) else unitRecord p

/-- `antctl add --data-dir-path "/mnt/my disk"`: the program path has the blank too -/
def blankDataDirRecord : Valuation := fun p =>
  if p = ["service_data_dir_path"] then .opt (some [.plain "/mnt/my disk/antnode1"])
  else if p = ["service_antnode_path"] then .opt (some [.plain "/mnt/my disk/antnode1/antnode"])
  else unitRecord p

/-- `antctl add --owner "bob --home-network"` -/
def flagInOwnerRecord : Valuation := fun p =>
  if p = ["options", "owner"] then .opt (some [.plain "bob --home-network"]) else unitRecord p

/-- **Witness: a path with a blank is REJECTED.** Item for item (and string for string: `Command::args`)
the arguments are the intended ones and antnode accepts them; rendered into the unit file and read back by
systemd, `logs/antnode1` is a stray word (antnode: `unrecognized subcommand`) — the installed and the
upgraded service never start. With the blank in the data directory systemd is even told to execute
`/mnt/my`. -/
theorem unit_blank_in_path_rejected :
    (∃ x, parseArgStrings (argv (buildInstall blankLogDirRecord)) =
      .ok ⟨intendedTop blankLogDirRecord, some (x, intendedSub blankLogDirRecord)⟩) ∧
    unitOutcome (unitInterpret (programOf (installSettings blankLogDirRecord)) (buildInstall blankLogDirRecord)) =
      some ("/var/antctl/services/antnode1/antnode", some .untokenisable, .absent, .absent) ∧
    unitOutcome (unitInterpret (programOf (upgradeSettings (recordOf blankLogDirRecord))) (buildUpgrade (recordOf blankLogDirRecord))) =
      some ("/var/antctl/services/antnode1/antnode", some .untokenisable, .absent, .absent) ∧
    (unitOutcome (unitInterpret (programOf (installSettings blankDataDirRecord)) (buildInstall blankDataDirRecord))).map (·.1) =
      some "/mnt/my" := by
  refine ⟨?_, by decide +kernel, by decide +kernel, by decide +kernel⟩
  obtain ⟨x, _, h, _⟩ := argv_build_is_intended blankLogDirRecord "Custom" rfl (by decide)
    ⟨by unfold InputConflictFree; decide, by decide⟩ (by decide)
  exact ⟨x.2.1, h⟩

/-- **Witness: an owner with a blank is ACCEPTED AND MISREAD.** Intended: owner `bob --home-network`, no
home-network mode. What the service runs with after systemd has read the unit file: owner `bob`,
home-network mode ON — at installation and after every upgrade. -/
theorem unit_owner_accepted_and_misread :
    intendedTop flagInOwnerRecord "owner" = .one "bob --home-network" ∧
    intendedTop flagInOwnerRecord "home_network" = .absent ∧
    unitOutcome (unitInterpret (programOf (installSettings flagInOwnerRecord)) (buildInstall flagInOwnerRecord)) =
      some ("/var/antctl/services/antnode1/antnode", none, .one "bob", .set) ∧
    unitOutcome (unitInterpret (programOf (upgradeSettings (recordOf flagInOwnerRecord))) (buildUpgrade (recordOf flagInOwnerRecord))) =
      some ("/var/antctl/services/antnode1/antnode", none, .one "bob", .set) := by
  refine ⟨by decide +kernel, by decide +kernel, by decide +kernel, by decide +kernel⟩

#print axioms SafeNet.Props.C20.upgrade_args_equiv
#print axioms SafeNet.Props.C20.upgrade_settings_equiv
#print axioms SafeNet.Props.C20.upgrade_environment
#print axioms SafeNet.Props.C20.env_stored_whatever_the_outcome
#print axioms SafeNet.Props.C20.upgrade_environment_kept
#print axioms SafeNet.Props.C20.upgrade_environment_override
#print axioms SafeNet.Props.C20.every_flag_declared
#print axioms SafeNet.Props.C20.no_conflicting_flags
#print axioms SafeNet.Props.C20.ant_peers_env_respects_first
#print axioms SafeNet.Props.C20.install_table_is_intent
#print axioms SafeNet.Props.C20.parse_build_is_intended
#print axioms SafeNet.Props.C20.parse_upgrade_accepted
#print axioms SafeNet.Props.C20.final_checks_top
#print axioms SafeNet.Props.C20.final_checks_sub
#print axioms SafeNet.Props.C20.upgrade_interpreted_as_install
#print axioms SafeNet.Props.C20.upgrade_parses_like_install
#print axioms SafeNet.Props.C20.kt_metrics_port_zero_rejected
#print axioms SafeNet.Props.C20.lex_flatten
#print axioms SafeNet.Props.C20.argv_build_is_intended
#print axioms SafeNet.Props.C20.values_lex_safe
#print axioms SafeNet.Props.C20.hyphen_value_rejected
#print axioms SafeNet.Props.C20.custom_network_converted_as_intended
#print axioms SafeNet.Props.C20.word_selects_same_network
#print axioms SafeNet.Props.C20.log_format_values_accepted
#print axioms SafeNet.Props.C20.upgrade_keeps_service_level
#print axioms SafeNet.Props.C20.restart_args_equiv
#print axioms SafeNet.Props.C20.restart_settings_equiv
#print axioms SafeNet.Props.C20.restart_keeps_service_level
#print axioms SafeNet.Props.C20.restart_dropped_metrics_port_before_fix
#print axioms SafeNet.Props.C20.restart_args_equiv_after_start
#print axioms SafeNet.Props.C20.restart_drops_port_without_listen_addr
#print axioms SafeNet.Props.C20.restart_replacement_args_equiv
#print axioms SafeNet.Props.C20.replacement_level
#print axioms SafeNet.Props.C20.replacement_keeps_level_partial
#print axioms SafeNet.Props.C20.replacement_upgrade_args_equiv
#print axioms SafeNet.Props.C20.user_bootstrap_cache_dir_is_written
#print axioms SafeNet.Props.C20.user_bootstrap_cache_dir_was_overwritten
#print axioms SafeNet.Props.C20.later_add_rewrites_earlier_environment
#print axioms SafeNet.Props.C20.upgrade_environment_kept_partial
#print axioms SafeNet.Props.C20.unit_formats_as_modelled
#print axioms SafeNet.Props.C20.rendered_unit_interpreted_as_intended
#print axioms SafeNet.Props.C20.rendered_environment_read_back
#print axioms SafeNet.Props.C20.unit_safe_of_user_strings
#print axioms SafeNet.Props.C20.unit_record_hypotheses
#print axioms SafeNet.Props.C20.unit_blank_in_path_rejected
#print axioms SafeNet.Props.C20.unit_owner_accepted_and_misread

end SafeNet.Props.C20
