import SafeNet.Model.Upgrade
import SafeNet.Proofs.ArgTable
import SafeNet.Proofs.ArgParse
/-!
# C20 — upgraded services keep every setting, and antnode accepts what antctl writes

All statements are about the tables `rs2lean` regenerates from the working tree
(`SafeNet.Gen.Upgrade`) and hold for EVERY option record `σ` (values are arbitrary strings; the
finite part — which options are present — is decided on the tables and lifted by the lemmas of
`SafeNet.Proofs.ArgTable`).
-/
namespace SafeNet.Props.C20
open SafeNet.ArgTable SafeNet.Upgrade SafeNet.Gen.Upgrade

/-! ## The tables with every field traced back to the expressions of `add_node` -/

/-- install table over `add_node`'s expressions -/
def installResolved : List Entry := (installTable.map (Entry.subst viaBuilder)).map (Entry.subst viaAddLocals)

/-- upgrade table over `add_node`'s expressions: through `UpgradeOptions { .. }`, then through `NodeServiceData { .. }` -/
def upgradeResolved : List Entry :=
  ((upgradeTable.map (Entry.subst viaUpgradeOptions)).map (Entry.subst viaData)).map (Entry.subst viaAddLocals)

theorem buildInstall_eq (σ : Valuation) : buildInstall σ = interp evmDisplay installResolved σ := by
  unfold buildInstall builderOf installResolved
  rw [interp_subst, interp_subst]

theorem buildUpgrade_eq (σ : Valuation) : buildUpgrade (recordOf σ) = interp evmDisplay upgradeResolved σ := by
  unfold buildUpgrade recordOf upgradeResolved
  rw [interp_subst, interp_subst, interp_subst]

/-- The finite fact: entry for entry (guard, option name, value source with its case foldings in normal
form, rendering) the upgrade table is a rearrangement of the install table. -/
theorem tables_perm : (upgradeResolved.map Entry.norm).Perm (installResolved.map Entry.norm) := by decide

/-! ## Clause 1: the regenerated definition equals the installed one -/

/-- **upgrade_args_equiv (arguments).** For every option record, the arguments regenerated at upgrade
from the registry entry `add_node` recorded are the same multiset of `(option, value)` items (and
subcommand word) as the arguments written at installation. -/
theorem upgrade_args_equiv (σ : Valuation) : (buildUpgrade (recordOf σ)).Perm (buildInstall σ) := by
  rw [buildInstall_eq, buildUpgrade_eq, ← interp_norm evmDisplay installResolved, ← interp_norm evmDisplay upgradeResolved]
  exact interp_perm evmDisplay σ tables_perm

def installCtxResolved : List (String × Src) :=
  installCtx.map fun kv => (kv.1, ((kv.2.subst viaBuilder).subst viaAddLocals).norm)
def upgradeCtxResolved : List (String × Src) :=
  upgradeCtx.map fun kv => (kv.1, (((kv.2.subst viaUpgradeOptions).subst viaData).subst viaAddLocals).norm)

theorem installSettings_eq (σ : Valuation) :
    installSettings σ = installCtxResolved.map fun kv => (kv.1, evalSrc σ kv.2) := by
  simp [installSettings, ctxOf, installCtxResolved, builderOf, evalSrc_subst, evalSrc_norm, Function.comp_def]

theorem upgradeSettings_eq (σ : Valuation) :
    upgradeSettings (recordOf σ) = upgradeCtxResolved.map fun kv => (kv.1, evalSrc σ kv.2) := by
  simp [upgradeSettings, ctxOf, upgradeCtxResolved, recordOf, evalSrc_subst, evalSrc_norm, Function.comp_def]

theorem ctx_same_except_env :
    upgradeCtxResolved.filter (fun kv => kv.1 != "environment") = installCtxResolved.filter (fun kv => kv.1 != "environment") := by
  decide

theorem ctx_keys : installCtxResolved.map (·.1) = ["autostart", "contents", "environment", "label", "program", "username", "working_directory"] := by
  decide

/-- **upgrade_args_equiv (settings).** Program, user, autostart, label, contents and working directory
of the regenerated definition equal the installed ones, for every option record. (With the
`auto_restart: false` literal this is false: `autostart` is lost — defect F-t, fixed in /repo.) -/
theorem upgrade_settings_equiv (σ : Valuation) :
    (upgradeSettings (recordOf σ)).filter (fun kv => kv.1 != "environment") =
    (installSettings σ).filter (fun kv => kv.1 != "environment") := by
  rw [installSettings_eq, upgradeSettings_eq, List.filter_map, List.filter_map]
  have h := ctx_same_except_env
  simp only [Function.comp_def] at h ⊢
  rw [h]

/-- The environment written at installation is the `--env` of `antctl add`. -/
theorem install_environment (σ : Valuation) :
    (installSettings σ).lookup "environment" = some (σ envPath) := by
  rw [installSettings_eq, lookup_map_snd]
  have : installCtxResolved.lookup "environment" = some (.var envPath) := by decide
  simp [this, evalSrc]

/-- The environment of the regenerated definition is the `--env` given to `antctl upgrade`, else the
registry-wide environment as `add_node` left it when it returned in the way `out` (exact characterisation). -/
theorem upgrade_environment (σ : Valuation) (provided prev : Option AStr) (out : AddOutcome) :
    (upgradeSettings (recordOf (withEnv σ provided prev out))).lookup "environment" =
      some (.opt (envAtUpgrade σ provided prev out)) := by
  rw [upgradeSettings_eq, lookup_map_snd]
  have : upgradeCtxResolved.lookup "environment" = some (.var ["#env"]) := by decide
  simp [this, evalSrc, withEnv]

/-- `add_node` stores the registry-wide environment before the first install, so it is recorded however
the add ends (all installed / some installs failed / a `?` inside the loop returned early). -/
theorem env_stored_whatever_the_outcome (out : AddOutcome) : envStored registryEnvStore out = true := by
  cases out <;> decide

/-- **upgrade_args_equiv (environment).** Without an `--env` on the upgrade command line, every service
that got installed — also by an `add` that failed part-way — keeps the environment it was installed
with, provided the registry-wide environment is this add's one (it was given `--env`, or no earlier
`add` had stored one). -/
theorem upgrade_environment_kept (σ : Valuation) (prev env : Option AStr) (out : AddOutcome)
    (henv : σ envPath = .opt env) (hreg : env.isSome ∨ prev = none) :
    (upgradeSettings (recordOf (withEnv σ none prev out))).lookup "environment" =
      (installSettings σ).lookup "environment" := by
  rw [upgrade_environment, install_environment, henv]
  have hflag := env_stored_whatever_the_outcome out
  cases env with
  | some e => simp [envAtUpgrade, registryEnvAfterInstall, hflag, henv]
  | none =>
    rcases hreg with h | h
    · simp at h
    · simp [envAtUpgrade, registryEnvAfterInstall, hflag, henv, h]

/-- … and an `--env` given to `antctl upgrade` is the explicit change the property allows. -/
theorem upgrade_environment_override (σ : Valuation) (e : AStr) (prev : Option AStr) (out : AddOutcome) :
    (upgradeSettings (recordOf (withEnv σ (some e) prev out))).lookup "environment" = some (.opt (some e)) := by
  rw [upgrade_environment]; rfl

/-- The other path by which the registry-wide environment reaches a service (documented behaviour, not
judged by the property's per-service quantifier): installed without `--env` into a registry that already
holds one, the service inherits it at upgrade. -/
example : ∃ σ : Valuation, σ envPath = .opt none ∧
    (upgradeSettings (recordOf (withEnv σ none (some [.plain "OLD=1"]) .allInstalled))).lookup "environment" ≠
      (installSettings σ).lookup "environment" := by
  refine ⟨fun _ => .opt none, rfl, ?_⟩
  rw [upgrade_environment, install_environment]
  decide

/-! ## Clause 2: every emitted option is declared by antnode under the shipped features -/

def evmSrc : Src := .var ["options", "evm_network"]
def wordEntry : Entry := ⟨.always, none, some (evmSrc, .display)⟩

def installPre : List Entry := installResolved.takeWhile fun e => e.flag.isSome
def installPost : List Entry := (installResolved.dropWhile fun e => e.flag.isSome).drop 1
def upgradePre : List Entry := upgradeResolved.takeWhile fun e => e.flag.isSome
def upgradePost : List Entry := (upgradeResolved.dropWhile fun e => e.flag.isSome).drop 1

theorem install_shape : installResolved = installPre ++ wordEntry :: installPost := by decide
theorem upgrade_shape : upgradeResolved = upgradePre ++ wordEntry :: upgradePost := by decide

def customDecls : List Decl := subDecls activeSubs (lookupD evmDisplay "Custom")

theorem install_pre_declared : installPre.all (entryDeclared activeTop) = true := by decide
theorem upgrade_pre_declared : upgradePre.all (entryDeclared activeTop) = true := by decide
theorem install_post_declared :
    installPost.all (fun e => e.guard == .evmCustom evmSrc && entryDeclared customDecls e) = true := by decide
theorem upgrade_post_declared :
    upgradePost.all (fun e => e.guard == .evmCustom evmSrc && entryDeclared customDecls e) = true := by decide
theorem words_are_subcommands :
    evmDisplay.all (fun kv => (activeSubs.find? (fun x => x.1 == kv.2)).isSome) = true := by decide

/-- The network variant printed as a word selects the subcommand that converts back to the same variant
(`Display for Network` against `impl Into<EvmNetwork> for EvmNetworkCommand`). -/
theorem word_selects_same_network :
    evmDisplay.all (fun kv =>
      match activeSubs.find? (fun x => x.1 == kv.2) with
      | some x => evmCommandInto.lookup x.2.1 == some kv.1
      | none => false) = true := by decide

/-- Every value `LogFormat::as_str` can print is accepted by the `value_parser` of `--log-format`. -/
theorem log_format_values_accepted :
    logFormatAsStr.all (fun kv => (logFormatParse.lookup kv.2).isSome) = true := by decide

/-- **every_flag_declared.** For every option record (whose EVM network is one of the variants `Display`
knows), both argument lists have the form `[top-level options]* word [subcommand options]*` where every
top-level option is a long option antnode declares under the shipped default features, used with the
arity it declares (flag / one value / comma-separated list), the word is a subcommand, and every option
after it is declared by that subcommand. -/
theorem every_flag_declared (σ : Valuation) (v : String)
    (hv : σ ["options", "evm_network"] = .evm v) (hmem : v ∈ evmDisplay.map (·.1)) :
    Accepted activeTop activeSubs (buildInstall σ) ∧ Accepted activeTop activeSubs (buildUpgrade (recordOf σ)) := by
  rw [buildInstall_eq, buildUpgrade_eq]
  exact ⟨accepted_of_shape evmDisplay activeTop activeSubs _ _ _ evmSrc install_shape install_pre_declared
            install_post_declared words_are_subcommands σ v hv hmem,
         accepted_of_shape evmDisplay activeTop activeSubs _ _ _ evmSrc upgrade_shape upgrade_pre_declared
            upgrade_post_declared words_are_subcommands σ v hv hmem⟩

/-! ### conflicts_with -/

/-- pairs of table entries whose declarations exclude each other, as pairs of their guard sources -/
def conflictPairs (T : List Entry) : List (Src × Src) :=
  T.flatMap fun e₁ => T.filterMap fun e₂ =>
    match e₁.flag, e₂.flag with
    | some n₁, some n₂ =>
      match findLong activeTop n₁, findLong activeTop n₂ with
      | some d₁, some d₂ => if d₁.conflicts.contains d₂.id then some (guardSrc e₁.guard, guardSrc e₂.guard) else none
      | _, _ => none
    | _, _ => none

/-- The same exclusions at antctl's side: `PeersArgs` is the same clap struct there, so an option record
antctl can parse never has both members of one of these pairs present. -/
def inputConflictPairs : List (Src × Src) :=
  (topDecls.filter fun d => d.group == "PeersArgs").flatMap fun d =>
    d.conflicts.filterMap fun c =>
      (topDecls.find? fun d' => d'.id == c && d'.group == "PeersArgs").map fun d' =>
        (Src.var ["options", "peers_args", d.field], Src.var ["options", "peers_args", d'.field])

theorem install_conflicts_are_input_conflicts :
    (conflictPairs installPre).all inputConflictPairs.contains = true := by decide
theorem upgrade_conflicts_are_input_conflicts :
    (conflictPairs upgradePre).all inputConflictPairs.contains = true := by decide

/-- The option record respects `PeersArgs`' own `conflicts_with` rules (what antctl's parser enforces). -/
def InputConflictFree (σ : Valuation) : Prop :=
  ∀ p ∈ inputConflictPairs, ¬ (present (evalSrc σ p.1) = true ∧ present (evalSrc σ p.2) = true)

theorem present_of_guard (σ : Valuation) (g : Guard) (h : guardHolds σ g = true) :
    present (evalSrc σ (guardSrc g)) = true := by
  cases g with
  | always => simp [guardSrc, evalSrc, present]
  | isTrue s => simp only [guardHolds, guardSrc] at h ⊢; split at h <;> simp_all [present]
  | isSome s => simp only [guardHolds, guardSrc] at h ⊢; split at h <;> simp_all [present]
  | nonEmpty s => simp only [guardHolds, guardSrc] at h ⊢; split at h <;> simp_all [present]
  | evmCustom s => simp only [guardHolds, guardSrc] at h ⊢; split at h <;> simp_all [present]

/-- No two emitted top-level options exclude each other (`conflicts_with`), stated on table entries:
if both entries fire, their declarations do not conflict. -/
theorem no_conflict_of (T : List Entry) (hT : (conflictPairs T).all inputConflictPairs.contains = true)
    (σ : Valuation) (hσ : InputConflictFree σ)
    (e₁ e₂ : Entry) (h₁ : e₁ ∈ T) (h₂ : e₂ ∈ T)
    (g₁ : guardHolds σ e₁.guard = true) (g₂ : guardHolds σ e₂.guard = true)
    (n₁ n₂ : String) (d₁ d₂ : Decl) (f₁ : e₁.flag = some n₁) (f₂ : e₂.flag = some n₂)
    (l₁ : findLong activeTop n₁ = some d₁) (l₂ : findLong activeTop n₂ = some d₂) :
    d₁.conflicts.contains d₂.id = false := by
  cases hc : d₁.conflicts.contains d₂.id with
  | false => rfl
  | true =>
    exfalso
    have hmem : (guardSrc e₁.guard, guardSrc e₂.guard) ∈ conflictPairs T := by
      simp only [conflictPairs, List.mem_flatMap, List.mem_filterMap]
      have hc' : d₂.id ∈ d₁.conflicts := by simpa using hc
      exact ⟨e₁, h₁, e₂, h₂, by simp [f₁, f₂, l₁, l₂, hc']⟩
    have hin := List.all_eq_true.mp hT _ hmem
    have hin' : (guardSrc e₁.guard, guardSrc e₂.guard) ∈ inputConflictPairs := by simpa using hin
    exact hσ _ hin' ⟨present_of_guard σ _ g₁, present_of_guard σ _ g₂⟩

/-- **every_flag_declared (conflicts).** For option records antctl itself can parse, neither argument
list contains two options of which one declares `conflicts_with` the other. -/
theorem no_conflicting_flags (σ : Valuation) (hσ : InputConflictFree σ) :
    (∀ e₁ ∈ installPre, ∀ e₂ ∈ installPre, guardHolds σ e₁.guard = true → guardHolds σ e₂.guard = true →
      ∀ n₁ n₂ d₁ d₂, e₁.flag = some n₁ → e₂.flag = some n₂ → findLong activeTop n₁ = some d₁ →
        findLong activeTop n₂ = some d₂ → d₁.conflicts.contains d₂.id = false) ∧
    (∀ e₁ ∈ upgradePre, ∀ e₂ ∈ upgradePre, guardHolds σ e₁.guard = true → guardHolds σ e₂.guard = true →
      ∀ n₁ n₂ d₁ d₂, e₁.flag = some n₁ → e₂.flag = some n₂ → findLong activeTop n₁ = some d₁ →
        findLong activeTop n₂ = some d₂ → d₁.conflicts.contains d₂.id = false) :=
  ⟨fun e₁ h₁ e₂ h₂ g₁ g₂ n₁ n₂ d₁ d₂ f₁ f₂ l₁ l₂ =>
      no_conflict_of installPre install_conflicts_are_input_conflicts σ hσ e₁ e₂ h₁ h₂ g₁ g₂ n₁ n₂ d₁ d₂ f₁ f₂ l₁ l₂,
   fun e₁ h₁ e₂ h₂ g₁ g₂ n₁ n₂ d₁ d₂ f₁ f₂ l₁ l₂ =>
      no_conflict_of upgradePre upgrade_conflicts_are_input_conflicts σ hσ e₁ e₂ h₁ h₂ g₁ g₂ n₁ n₂ d₁ d₂ f₁ f₂ l₁ l₂⟩

/-- `antctl add` cannot create the `--first` / `--peer` conflict after its own parser has run: the only
post-parse change of `PeersArgs` (appending the `ANT_PEERS` environment variable to `--peer`) is skipped
for a genesis node, so `InputConflictFree` holds for every record `antctl add` hands to `add_node`. -/
theorem ant_peers_env_respects_first : envPeersSkippedForFirst = true := by decide

/-- Non-vacuity: the conflict rules exist and are the three of `PeersArgs`. -/
example : inputConflictPairs.length = 3 := by decide
example : (conflictPairs installPre).length = 3 := by decide


/-! ## Clause 3: the clap-subset parser maps the written arguments back to the intended settings -/

theorem install_pre_ids_nodup : (installPre.filterMap (entryId activeTop)).Nodup := by decide
theorem upgrade_pre_ids_nodup : (upgradePre.filterMap (entryId activeTop)).Nodup := by decide
theorem install_post_ids_nodup : (installPost.filterMap (entryId customDecls)).Nodup := by decide
theorem upgrade_post_ids_nodup : (upgradePost.filterMap (entryId customDecls)).Nodup := by decide

/-- The specification of what each antctl setting means for antnode: which argument of antnode's `Opt`
(clap id) is given, under which condition, with which value (all in terms of `add_node`'s expressions). -/
def intent : List (Option String × Guard × Option (Src × Render)) := [
  (some "rpc", .always, some (.var ["rpc_socket_addr"], .display)),
  (some "root_dir", .always, some (.var ["service_data_dir_path"], .lossy)),
  (some "log_output_dest", .always, some (.var ["service_log_dir_path"], .lossy)),
  (some "first", .isTrue (.var ["options", "peers_args", "first"]), none),
  (some "local", .isTrue (.var ["options", "peers_args", "local"]), none),
  (some "addrs", .nonEmpty (.var ["options", "peers_args", "addrs"]), some (.var ["options", "peers_args", "addrs"], .joinComma)),
  (some "network_contacts_url", .nonEmpty (.var ["options", "peers_args", "network_contacts_url"]),
    some (.var ["options", "peers_args", "network_contacts_url"], .joinComma)),
  (some "testnet", .isTrue (.var ["options", "peers_args", "disable_mainnet_contacts"]), none),
  (some "ignore_cache", .isTrue (.var ["options", "peers_args", "ignore_cache"]), none),
  (some "bootstrap_cache_dir", .isSome (.var ["options", "peers_args", "bootstrap_cache_dir"]),
    some (.var ["options", "peers_args", "bootstrap_cache_dir"], .lossy)),
  (some "network_id", .isSome (.var ["options", "network_id"]), some (.var ["options", "network_id"], .display)),
  (some "home_network", .isTrue (.var ["options", "home_network"]), none),
  (some "log_format", .isSome (.var ["options", "log_format"]), some (.var ["options", "log_format"], .asStr)),
  (some "upnp", .isTrue (.var ["options", "upnp"]), none),
  (some "ip", .isSome (.var ["options", "node_ip"]), some (.var ["options", "node_ip"], .display)),
  (some "port", .isSome (.var ["node_port"]), some (.var ["node_port"], .display)),
  (some "metrics_server_port", .isSome (.var ["metrics_free_port"]), some (.var ["metrics_free_port"], .display)),
  (some "owner", .isSome (.fold .lower (.var ["options", "owner"])), some (.fold .lower (.var ["options", "owner"]), .display)),
  (some "max_archived_log_files", .isSome (.var ["options", "max_archived_log_files"]),
    some (.var ["options", "max_archived_log_files"], .display)),
  (some "max_log_files", .isSome (.var ["options", "max_log_files"]), some (.var ["options", "max_log_files"], .display)),
  (some "rewards_address", .always, some (.var ["options", "rewards_address"], .display))]

def intentCustom : List (Option String × Guard × Option (Src × Render)) := [
  (some "rpc_url", .evmCustom evmSrc, some (.var ["options", "evm_network", "rpc_url_http"], .display)),
  (some "payment_token_address", .evmCustom evmSrc, some (.var ["options", "evm_network", "payment_token_address"], .display)),
  (some "data_payments_address", .evmCustom evmSrc, some (.var ["options", "evm_network", "data_payments_address"], .display))]

/-- The install table sets exactly the intended antnode arguments, from the intended sources. -/
theorem install_table_is_intent :
    installPre.map (fun e => (entryId activeTop e, e.guard, e.value)) = intent ∧
    installPost.map (fun e => (entryId customDecls e, e.guard, e.value)) = intentCustom := by decide

/-- antnode's top-level arguments as intended by the option record: every setting that is present sets
its argument (per `intent`, see `install_table_is_intent`), everything else stays absent. -/
def intendedTop (σ : Valuation) : Slots := slotsAfter evmDisplay activeTop σ installPre Slots.empty
def intendedSub (σ : Valuation) : Slots := slotsAfter evmDisplay customDecls σ installPost Slots.empty

/-- **parse_build_is_intended.** For every option record (EVM network one of the known variants) on which
clap's final checks pass for the intended configuration — required arguments of the subcommand,
`conflicts_with`, `required_if_eq` (hypotheses `htop`, `hsub`; `no_conflicting_flags` discharges the
conflict part for inputs antctl can parse) — the clap-subset parser accepts the arguments written at
installation and returns exactly the intended configuration and the subcommand of the record's network. -/
theorem parse_build_is_intended (σ : Valuation) (v : String)
    (hv : σ ["options", "evm_network"] = .evm v) (hmem : v ∈ evmDisplay.map (·.1))
    (htop : finalChecks activeTop (intendedTop σ) = .ok ())
    (hsub : finalChecks (subDecls activeSubs (lookupD evmDisplay v)) (intendedSub σ) = .ok ()) :
    ∃ x, activeSubs.find? (fun x => x.1 == lookupD evmDisplay v) = some x ∧
      parseArgs (buildInstall σ) = .ok ⟨intendedTop σ, some (x.2.1, intendedSub σ)⟩ := by
  rw [buildInstall_eq]
  exact parse_of_shape evmDisplay activeTop activeSubs _ _ _ evmSrc install_shape install_pre_declared
    install_post_declared words_are_subcommands install_pre_ids_nodup install_post_ids_nodup σ v hv hmem htop hsub

/-- The same for the arguments regenerated at upgrade (its own closed form; the items are a
permutation of the installed ones by `upgrade_args_equiv`). -/
theorem parse_upgrade_accepted (σ : Valuation) (v : String)
    (hv : σ ["options", "evm_network"] = .evm v) (hmem : v ∈ evmDisplay.map (·.1))
    (htop : finalChecks activeTop (slotsAfter evmDisplay activeTop σ upgradePre Slots.empty) = .ok ())
    (hsub : finalChecks (subDecls activeSubs (lookupD evmDisplay v))
              (slotsAfter evmDisplay customDecls σ upgradePost Slots.empty) = .ok ()) :
    ∃ x, activeSubs.find? (fun x => x.1 == lookupD evmDisplay v) = some x ∧
      parseArgs (buildUpgrade (recordOf σ)) =
        .ok ⟨slotsAfter evmDisplay activeTop σ upgradePre Slots.empty,
             some (x.2.1, slotsAfter evmDisplay customDecls σ upgradePost Slots.empty)⟩ := by
  rw [buildUpgrade_eq]
  exact parse_of_shape evmDisplay activeTop activeSubs _ _ _ evmSrc upgrade_shape upgrade_pre_declared
    upgrade_post_declared words_are_subcommands upgrade_pre_ids_nodup upgrade_post_ids_nodup σ v hv hmem htop hsub

/-- Non-vacuity: a concrete record (home network, custom EVM network) is parsed back as intended. -/
def exampleRecord : Valuation := fun p =>
  if p = ["options", "evm_network"] then .evm "Custom"
  else if p = ["options", "home_network"] then .bool true
  else if p = ["options", "peers_args", "addrs"] then .list [[.plain "a"], [.plain "b"]]
  else if p = ["options", "owner"] then .opt (some [.uniUp "Ü" "ü", .plain "n", .asciiUp "A" "a", .plain "l"])
  else if p = ["options", "evm_network", "rpc_url_http"] then .opt (some [.plain "http://x/"])
  else if p = ["options", "evm_network", "payment_token_address"] then .opt (some [.plain "0x1"])
  else if p = ["options", "evm_network", "data_payments_address"] then .opt (some [.plain "0x2"])
  else if p = ["rpc_socket_addr"] then .opt (some [.plain "127.0.0.1:1"])
  else .opt none

example : (match parseArgs (buildInstall exampleRecord) with
    | .ok p => (p.top "home_network", p.top "addrs", p.top "first", p.top "owner", p.sub.map (fun s => (s.1, s.2 "rpc_url")))
    | .error _ => (.absent, .absent, .absent, .absent, none)) =
    (.set, .many ["a", "b"], .absent, .one "ünal", some ("EvmCustom", .one "http://x/")) := by decide

/-- The owner is written in lower case (Unicode folding) at installation and at upgrade alike. -/
example : (buildUpgrade (recordOf exampleRecord)).filter (fun it => it.flag == some "owner") = [⟨some "owner", .one "ünal"⟩] ∧
    (buildInstall exampleRecord).filter (fun it => it.flag == some "owner") = [⟨some "owner", .one "ünal"⟩] := by decide

/-- … and the conflicting record `--first` + `--peer` is rejected by the parser (as by clap). -/
example : (match parseArgs (buildInstall (fun p => if p = ["options", "peers_args", "first"] then .bool true else exampleRecord p)) with
    | .ok _ => "ok" | .error (.conflict a b) => a ++ "/" ++ b | .error _ => "other") = "addrs/first" := by decide


/-! ### After parsing: `impl Into<EvmNetwork> for EvmNetworkCommand` (what antnode runs with) -/

/-- For each field of `CustomNetwork`, the source antnode ends up building it from: the field of
`EvmNetworkCommand::EvmCustom` that flows into it (`evmCustomInto`: through `Network::new_custom` and
`CustomNetwork::new`), the long option clap fills that command field from, and the value the argument
table writes under that option. -/
def convertedCustom (T : List Entry) : List (String × Option (Src × Render)) :=
  evmCustomInto.map fun nc =>
    (nc.1, match T.find? (fun e => match e.flag with
        | some l => (match findLong customDecls l with | some d => d.field == nc.2 | none => false)
        | none => false) with
      | some e => e.value
      | none => none)

/-- The intended custom network: every contract setting of the option record in its own field. -/
def intentConverted : List (String × Option (Src × Render)) := [
  ("rpc_url_http", some (.var ["options", "evm_network", "rpc_url_http"], .display)),
  ("payment_token_address", some (.var ["options", "evm_network", "payment_token_address"], .display)),
  ("data_payments_address", some (.var ["options", "evm_network", "data_payments_address"], .display))]

/-- **parse_build_is_intended (after conversion).** The custom EVM network antnode builds from the parsed
subcommand has the RPC URL, the payment-token address and the data-payments address of the option record
each in its own field — at installation and after an upgrade. (A conversion that hands the two addresses
to `new_custom` in the wrong order makes this false although every argument is still accepted.) -/
theorem custom_network_converted_as_intended :
    convertedCustom installPost = intentConverted ∧ convertedCustom upgradePost = intentConverted := by decide

#print axioms SafeNet.Props.C20.upgrade_args_equiv
#print axioms SafeNet.Props.C20.upgrade_settings_equiv
#print axioms SafeNet.Props.C20.upgrade_environment
#print axioms SafeNet.Props.C20.env_stored_whatever_the_outcome
#print axioms SafeNet.Props.C20.upgrade_environment_kept
#print axioms SafeNet.Props.C20.upgrade_environment_override
#print axioms SafeNet.Props.C20.every_flag_declared
#print axioms SafeNet.Props.C20.no_conflicting_flags
#print axioms SafeNet.Props.C20.ant_peers_env_respects_first
#print axioms SafeNet.Props.C20.install_table_is_intent
#print axioms SafeNet.Props.C20.parse_build_is_intended
#print axioms SafeNet.Props.C20.parse_upgrade_accepted
#print axioms SafeNet.Props.C20.custom_network_converted_as_intended
#print axioms SafeNet.Props.C20.word_selects_same_network
#print axioms SafeNet.Props.C20.log_format_values_accepted

end SafeNet.Props.C20
