import SafeNet.Proofs.Fetcher
import SafeNet.Proofs.FullGlue
/-!
# C08 — replication fetching is bounded, duplicate-free, in-range and makes progress

Theorems over the model `SafeNet.Fetcher` of `ant-networking/src/replication_fetcher.rs`, instantiated with
the constants and comparison operators regenerated from the Rust source (`SafeNet.Gen.Fetcher`).
`dist` (XOR distance key ↔ self) is an arbitrary function; operation lists, choice witnesses, the
`locally_stored_keys` maps and timer advances are universally quantified.
-/
namespace SafeNet.Props.C08
open SafeNet.Fetcher SafeNet.Gen.Fetcher

variable (dist : Nat → Nat)

/-- states reachable from a fresh fetcher by any interleaving of operations (any holders, lists, witnesses) -/
def Reachable (s : State) : Prop := ∃ ops : List Op, s = run dist State.init ops

theorem reachable_inv {s : State} (h : Reachable dist s) : Inv dist s := by
  obtain ⟨ops, rfl⟩ := h
  exact run_inv dist (init_inv dist) ops

/-! ## scheduled_not_held -/

/-- Every pair `add_keys` returns has a key that the `locally_stored_keys` map it was called with does not hold
with the advertised record type — from any state, for any advertisement list and any choice witness. -/
theorem scheduled_not_held (s : State) (h : Nat) (incoming locals : List (Nat × Nat)) (choice : List Entry) :
    ∀ e ∈ (addKeys dist s h incoming locals choice).2.ret, locals.lookup e.key ≠ some e.ty := by
  intro e he
  obtain ⟨X, ill, hx⟩ := addKeys_shape dist s h incoming locals choice
  rw [hx] at he
  rcases List.mem_append.1 he with he | he
  · obtain ⟨p, hp, _, rfl, _⟩ := addCore_fast dist he
    have hmem : p ∈ newOf dist s locals h incoming := by rw [hp]; exact List.mem_singleton.2 rfl
    exact (admits_spec dist (List.mem_filter.1 hmem).2).1
  · obtain ⟨⟨x, hx, hk, ht, _⟩, _, _⟩ := nextKeys_ret_origin dist he
    rw [← hk, ← ht]
    rcases addCore_tbf_origin dist ((pTbf_sub _).subset hx) with ⟨_, hh⟩ | ⟨_, p, hp, _, rfl⟩
    · simpa [heldSame] using hh
    · exact (admits_spec dist (List.mem_filter.1 hp).2).1

/-- A record version purged by `notify_about_new_put` does not resurface: it is neither queued nor scheduled by
that call. -/
theorem scheduled_not_held_after_put (s : State) (k t : Nat) (choice : List Entry) :
    (∀ e ∈ (newPut dist s k t choice).1.tbf, ¬(e.key = k ∧ e.ty = t)) ∧
    (∀ e ∈ (newPut dist s k t choice).2.ret, ¬(e.key = k ∧ e.ty = t)) := by
  have hfil : ∀ x ∈ pTbf { s with tbf := s.tbf.filter (fun e => !sameKT k t e),
                                  ogf := s.ogf.filter (fun e => !(e.key == k)) }, ¬(x.key = k ∧ x.ty = t) := by
    intro x hx
    have := (pTbf_sub _).subset hx
    simp only [List.mem_filter, sameKT, Bool.not_eq_true', Bool.and_eq_false_imp, beq_iff_eq,
      beq_eq_false_iff_ne] at this
    exact fun h => this.2 h.1 h.2
  refine ⟨?_, ?_⟩
  · intro e he
    exact hfil e ((nextKeys_tbf_sub dist _ choice).subset he)
  · intro e he
    obtain ⟨⟨x, hx, hk, ht, _⟩, _, _⟩ := nextKeys_ret_origin dist he
    rw [← hk, ← ht]; exact hfil x hx

/-! ## range_respected -/

/-- With a distance range set, an advertisement of anything but exactly one record — whatever the number of NEW keys in
it — queues or schedules only keys that were already queued or lie within the range. (The fast path, which skips the range
test, is taken by single-record advertisements only: `addCore_fast_single`.) -/
theorem range_respected (s : State) (h : Nat) (incoming locals : List (Nat × Nat)) (choice : List Entry)
    (r : Nat) (hr : s.range = some r)
    (hmulti : incoming.length ≠ 1) :
    ∀ e, e ∈ (addKeys dist s h incoming locals choice).1.tbf ∨
         e ∈ (addKeys dist s h incoming locals choice).2.ret →
      hasKTH s.tbf e.key e.ty e.holder = true ∨ dist e.key ≤ r := by
  have horigin : ∀ x ∈ (addCore dist s h incoming locals).1.tbf,
      hasKTH s.tbf x.key x.ty x.holder = true ∨ dist x.key ≤ r := by
    intro x hx
    rcases addCore_tbf_origin dist hx with ⟨h1, _⟩ | ⟨_, p, _, hp, rfl⟩
    · exact Or.inl ((hasKTH_true_iff _ _ _ _).2 ⟨x, h1, rfl, rfl, rfl⟩)
    · exact Or.inr (hp r hr)
  intro e he
  obtain ⟨X, ill, hx⟩ := addKeys_shape dist s h incoming locals choice
  rw [hx] at he
  rcases he with he | he
  · exact horigin e ((pTbf_sub _).subset ((nextKeys_tbf_sub dist _ X).subset he))
  · rcases List.mem_append.1 he with he | he
    · exact absurd (addCore_fast_single dist (List.ne_nil_of_mem he)) hmulti
    · obtain ⟨⟨x, hx, hk, ht, hh⟩, _, _⟩ := nextKeys_ret_origin dist he
      rw [← hk, ← ht, ← hh]
      exact horigin x ((pTbf_sub _).subset hx)

/-- The clause at full strength — "records taken from periodic MULTI-RECORD advertisements must also lie within its
responsible distance": whatever the number of NEW keys in it, an advertisement of two or more records queues or
schedules only keys that were already queued or lie within the range. `single`: the shape of the fast-path condition
(`true`: `total_incoming_keys == 1 && new_incoming_keys.len() == 1`, `false`: `new_incoming_keys.len() == 1` alone). -/
def RangeRespectedMultiAdvertWith (single : Bool) : Prop :=
  ∀ (dist : Nat → Nat) (s : State) (h : Nat) (incoming locals : List (Nat × Nat)) (choice : List Entry) (r : Nat),
    s.range = some r → 2 ≤ incoming.length →
    (addKeysWith single dist s h incoming locals choice).2.illegal = false →
    ∀ e, e ∈ (addKeysWith single dist s h incoming locals choice).1.tbf ∨
         e ∈ (addKeysWith single dist s h incoming locals choice).2.ret →
      hasKTH s.tbf e.key e.ty e.holder = true ∨ dist e.key ≤ r

/-- the clause about the code as it is (the generated flag) -/
def RangeRespectedMultiAdvert : Prop := RangeRespectedMultiAdvertWith fastPathNeedsSingleAdvert

/-- **The range clause holds at full strength** (repaired: K-x-single-new-skips-range). -/
theorem range_respected_multi_advert : RangeRespectedMultiAdvert := by
  intro dist s h incoming locals choice r hr hlen _ e he
  exact range_respected dist s h incoming locals choice r hr (by omega) e he

/-- It was false of the OLD shape of the fast-path condition (`new_incoming_keys.len() == 1`, counted after the held keys
are filtered out): the fast path was taken when exactly one key of the list is NEW — the steady state of periodic
replication, a list with one record the node lacks — and skips the range test. Range 5, keys 1 and 2 held, the list
[1, 2, 50]: key 50 at distance 50 is fetched at once, and the choice is legal. Reverting the repair in
`replication_fetcher.rs` turns `fastPathNeedsSingleAdvert` to `false`, i.e. `addKeys` into this machine. -/
theorem single_new_key_of_multi_advert_skips_range_witness : ¬ RangeRespectedMultiAdvertWith false := by
  intro hall
  have h := hall (fun k => k) ({ range := some 5 } : State) 7 [(1, 0), (2, 0), (50, 0)] [(1, 0), (2, 0)]
    [⟨50, 0, 7, fetchTimeout⟩] 5 rfl (by decide) (by decide) ⟨50, 0, 7, fetchTimeout⟩ (Or.inr (by decide))
  revert h
  decide

/-- the same list on the repaired machine: key 50 is neither fetched nor queued -/
example : (addKeys (fun k => k) ({ range := some 5 } : State) 7 [(1, 0), (2, 0), (50, 0)] [(1, 0), (2, 0)] []).2.ret = [] ∧
    (addKeys (fun k => k) ({ range := some 5 } : State) 7 [(1, 0), (2, 0), (50, 0)] [(1, 0), (2, 0)] []).2.illegal = false ∧
    (addKeys (fun k => k) ({ range := some 5 } : State) 7 [(1, 0), (2, 0), (50, 0)] [(1, 0), (2, 0)] []).1.tbf = [] := by
  decide

/-! ## full_respected -/

/-- Once `set_farthest_on_full` has fixed a farthest acceptable distance, nothing farther is queued or in flight,
in every reachable state. -/
theorem full_respected (ops : List Op) (f : Nat)
    (hf : (run dist State.init ops).farthest = some f) :
    ∀ e, e ∈ (run dist State.init ops).tbf ∨ e ∈ (run dist State.init ops).ogf → dist e.key ≤ f :=
  (run_inv dist (init_inv dist) ops).full f hf

/-- and the bound is at most the distance of every key ever passed to `set_farthest_on_full` -/
theorem full_bound_shrinks (s : State) (k : Nat) :
    ∃ f, (step dist s (.full (some k))).1.farthest = some f ∧ f ≤ dist k := by
  show ∃ f, (setFull dist s (dist k)).farthest = some f ∧ f ≤ dist k
  unfold setFull
  split
  · rename_i old hold
    split
    · rename_i hu
      exact ⟨old, hold, (unchanged_iff _ _).1 hu⟩
    · exact ⟨dist k, rfl, Nat.le_refl _⟩
  · exact ⟨dist k, rfl, Nat.le_refl _⟩

/-! ## no_dup_inflight -/

/-- Which in-flight entries an operation leaves in flight — stated independently of the model:
a fetch stays unless its deadline has passed (for the calls that prune), its record version is reported held
(`add_keys`), its key was put, its version completed early, or it lies beyond a newly lowered farthest distance. -/
def stays (s : State) : Op → Entry → Bool
  | .add _ _ locals _, o => decide (s.now < o.deadline) && !(locals.lookup o.key == some o.ty)
  | .put k _ _, o => decide (s.now < o.deadline) && !(o.key == k)
  | .early k t _, o => decide (s.now < o.deadline) && !(o.key == k && o.ty == t)
  | .next _, o => decide (s.now < o.deadline)
  | .setRange _, _ => true
  | .age _, _ => true
  | .full none, _ => true
  | .full (some k), o =>
    (match s.farthest with | some old => decide (old ≤ dist k) | none => false) || decide (dist o.key ≤ dist k)

theorem notExpired_eq (now : Nat) (o : Entry) : (!expired now o) = decide (now < o.deadline) := by
  cases h : expired now o with
  | true => have := (expired_iff _ _).1 h; simp; omega
  | false =>
    have : ¬ o.deadline ≤ now := fun hh => by rw [(expired_iff _ _).2 hh] at h; cases h
    simp; omega

theorem pOgf_eq (s : State) : pOgf s = s.ogf.filter (fun o => decide (s.now < o.deadline)) := by
  simp only [pOgf, notExpired_eq]

theorem stays_add (s : State) (h : Nat) (inc loc : List (Nat × Nat)) (c : List Entry) :
    stays dist s (.add h inc loc c) =
      fun o => decide (s.now < o.deadline) && !(loc.lookup o.key == some o.ty) := by funext o; rfl
theorem stays_put (s : State) (k t : Nat) (c : List Entry) :
    stays dist s (.put k t c) = fun o => decide (s.now < o.deadline) && !(o.key == k) := by funext o; rfl
theorem stays_early (s : State) (k t : Nat) (c : List Entry) :
    stays dist s (.early k t c) =
      fun o => decide (s.now < o.deadline) && !(o.key == k && o.ty == t) := by funext o; rfl
theorem stays_next (s : State) (c : List Entry) :
    stays dist s (.next c) = fun o => decide (s.now < o.deadline) := by funext o; rfl
theorem stays_full (s : State) (k : Nat) :
    stays dist s (.full (some k)) = fun o =>
      (match s.farthest with | some old => decide (old ≤ dist k) | none => false) ||
        decide (dist o.key ≤ dist k) := by funext o; rfl

/-- The in-flight set after any operation is exactly the surviving old entries followed by the pairs the call
returned (nothing is silently replaced or re-issued). -/
theorem inflight_exact (s : State) (op : Op) :
    (step dist s op).1.ogf = s.ogf.filter (stays dist s op) ++ (step dist s op).2.ret := by
  cases op with
  | add h inc loc c =>
    obtain ⟨X, ill, hx⟩ := addKeys_shape dist s h inc loc c
    obtain ⟨_, _, hnow, hog⟩ := addCore_fields dist s h inc loc
    show (addKeys dist s h inc loc c).1.ogf = _ ++ (addKeys dist s h inc loc c).2.ret
    rw [hx, nextKeys_ogf_eq, pOgf_eq, hog, hnow, List.filter_append, List.append_assoc, stays_add]
    congr 1
    · simp only [ogf1, List.filter_filter, heldSame]
    · congr 1
      apply List.filter_eq_self.2
      intro e he
      obtain ⟨p, _, _, rfl, _⟩ := addCore_fast dist he
      have := fetchTimeout_pos
      show decide (s.now < s.now + fetchTimeout) = true
      simp only [decide_eq_true_eq]; omega
  | put k t c =>
    show (nextKeys dist _ c).1.ogf = _ ++ (nextKeys dist _ c).2.ret
    rw [nextKeys_ogf_eq, pOgf_eq, stays_put]
    simp only [List.filter_filter]
  | early k t c =>
    show (nextKeys dist _ c).1.ogf = _ ++ (nextKeys dist _ c).2.ret
    rw [nextKeys_ogf_eq, pOgf_eq, stays_early]
    simp only [List.filter_filter, sameKT]
  | next c =>
    show (nextKeys dist s c).1.ogf = _ ++ (nextKeys dist s c).2.ret
    rw [nextKeys_ogf_eq, pOgf_eq, stays_next]
  | setRange r =>
    show s.ogf = s.ogf.filter (fun _ => true) ++ []
    rw [List.append_nil]; exact (List.filter_eq_self.2 (fun _ _ => rfl)).symm
  | age d =>
    show s.ogf = s.ogf.filter (fun _ => true) ++ []
    rw [List.append_nil]; exact (List.filter_eq_self.2 (fun _ _ => rfl)).symm
  | full k =>
    cases k with
    | none =>
      show s.ogf = s.ogf.filter (fun _ => true) ++ []
      rw [List.append_nil]; exact (List.filter_eq_self.2 (fun _ _ => rfl)).symm
    | some k =>
      show (setFull dist s (dist k)).ogf = _ ++ []
      rw [List.append_nil, stays_full]
      unfold setFull
      split
      · rename_i old hold
        split
        · rename_i hu
          have := (unchanged_iff _ _).1 hu
          simp only [hold, this, decide_true, Bool.true_or]
          exact (List.filter_eq_self.2 (fun _ _ => rfl)).symm
        · rename_i hu
          have : ¬ old ≤ dist k := fun h => hu ((unchanged_iff _ _).2 h)
          simp only [hold, this, decide_false, Bool.false_or, farthestKeep]
      · rename_i hnone
        simp only [hnone, Bool.false_or, farthestKeep]

/-- No call returns a `(key, type)` that is (still) in flight: after every operation on a reachable state the
in-flight `(key, type)`s — survivors and newly returned ones together — are pairwise distinct. -/
theorem no_dup_inflight (s : State) (hs : Reachable dist s) (op : Op) :
    ((s.ogf.filter (stays dist s op) ++ (step dist s op).2.ret).map kt).Nodup := by
  rw [← inflight_exact]
  exact (step_inv dist (reachable_inv dist hs) op).ogfNodup

/-! ## batch_cap -/

/-- `next_keys_to_fetch` never raises the number of in-flight fetches above `MAX_PARALLEL_FETCH`: whenever it
returns something the in-flight set is within the limit afterwards, and otherwise it did not grow. -/
theorem batch_cap (s : State) (choice : List Entry) :
    ((nextKeys dist s choice).2.ret ≠ [] → (nextKeys dist s choice).1.ogf.length ≤ maxParallelFetch) ∧
    ((nextKeys dist s choice).1.ogf.length ≤ s.ogf.length ∨
      (nextKeys dist s choice).1.ogf.length ≤ maxParallelFetch) :=
  nextKeys_cap dist s choice

/-- The same for every operation; only the single-key fast path of `add_keys` may add one fetch beyond the limit. -/
theorem batch_cap_all_ops (s : State) (op : Op) :
    (step dist s op).1.ogf.length ≤ s.ogf.length + (match op with | .add .. => 1 | _ => 0) ∨
    (step dist s op).1.ogf.length ≤ maxParallelFetch := by
  have hsub : ∀ (p : Entry → Bool), (s.ogf.filter p).length ≤ s.ogf.length :=
    fun p => List.filter_sublist.length_le
  cases op with
  | add h inc loc c =>
    obtain ⟨X, ill, hx⟩ := addKeys_shape dist s h inc loc c
    obtain ⟨_, _, _, hog⟩ := addCore_fields dist s h inc loc
    show (addKeys dist s h inc loc c).1.ogf.length ≤ _ ∨ (addKeys dist s h inc loc c).1.ogf.length ≤ _
    rw [hx]
    rcases (nextKeys_cap dist (addCore dist s h inc loc).1 X).2 with h1 | h1
    · left
      refine Nat.le_trans h1 ?_
      rw [hog, List.length_append]
      have h2 : (addCore dist s h inc loc).2.length ≤ 1 := by
        rcases addCore_cases dist s h inc loc with ⟨p, _, _, hc⟩ | ⟨p, _, _, hc⟩ | ⟨_, hc⟩ <;> rw [hc] <;> simp
      have := hsub (fun e => !heldSame loc e)
      simp only [ogf1]; omega
    · exact Or.inr h1
  | put k t c =>
    rcases (nextKeys_cap dist _ c).2 with h1 | h1
    · exact Or.inl (Nat.le_trans h1 (hsub _))
    · exact Or.inr h1
  | early k t c =>
    rcases (nextKeys_cap dist _ c).2 with h1 | h1
    · exact Or.inl (Nat.le_trans h1 (hsub _))
    · exact Or.inr h1
  | next c =>
    rcases (nextKeys_cap dist s c).2 with h1 | h1
    · exact Or.inl h1
    · exact Or.inr h1
  | setRange r => exact Or.inl (Nat.le_refl _)
  | age d => exact Or.inl (Nat.le_refl _)
  | full k =>
    cases k with
    | none => exact Or.inl (Nat.le_refl _)
    | some k =>
      have h := inflight_exact dist s (.full (some k))
      have h2 : (step dist s (.full (some k))).2.ret = [] := rfl
      rw [h2, List.append_nil] at h
      left
      show (step dist s (.full (some k))).1.ogf.length ≤ s.ogf.length + 0
      rw [h]; exact hsub _

/-! ## closest_first -/

/-- A batch accepted as the implementation's choice is sorted by distance, and every queued entry that is left
behind although its record version is not in flight is left only because the limit is reached, and is at least as
far as every entry of the batch. -/
theorem closest_first (s : State) (choice : List Entry)
    (hok : (nextKeys dist s choice).2.illegal = false) :
    (nextKeys dist s choice).2.ret.Pairwise (fun a b => dist a.key ≤ dist b.key) ∧
    ∀ e ∈ (nextKeys dist s choice).1.tbf, hasKT (nextKeys dist s choice).1.ogf e.key e.ty = false →
      maxParallelFetch ≤ (nextKeys dist s choice).1.ogf.length ∧
      ∀ r ∈ (nextKeys dist s choice).2.ret, dist r.key ≤ dist e.key :=
  nextKeys_closest dist hok

/-! ## inflight_leaves -/

/-- put: no fetch of that key that was in flight before the notification is in flight afterwards -/
theorem inflight_leaves_put (s : State) (k t : Nat) (choice : List Entry) :
    ∀ o ∈ (newPut dist s k t choice).1.ogf, o.key = k → o ∈ (newPut dist s k t choice).2.ret := by
  intro o ho hk
  have h := inflight_exact dist s (.put k t choice)
  rw [show (step dist s (.put k t choice)) = newPut dist s k t choice from rfl] at h
  rw [h] at ho
  rcases List.mem_append.1 ho with ho | ho
  · simp [stays, hk] at ho
  · exact ho

/-- early completion: that record version is neither in flight nor queued afterwards -/
theorem inflight_leaves_early (s : State) (k t : Nat) (choice : List Entry) :
    (∀ o ∈ (earlyDone dist s k t choice).1.ogf, ¬(o.key = k ∧ o.ty = t)) ∧
    (∀ e ∈ (earlyDone dist s k t choice).1.tbf, ¬(e.key = k ∧ e.ty = t)) := by
  have hfil : ∀ x ∈ pTbf { s with tbf := s.tbf.filter (fun e => !sameKT k t e),
                                  ogf := s.ogf.filter (fun e => !sameKT k t e) }, ¬(x.key = k ∧ x.ty = t) := by
    intro x hx
    have := (pTbf_sub _).subset hx
    simp only [List.mem_filter, sameKT, Bool.not_eq_true', Bool.and_eq_false_imp, beq_iff_eq,
      beq_eq_false_iff_ne] at this
    exact fun h => this.2 h.1 h.2
  refine ⟨?_, fun e he => hfil e ((nextKeys_tbf_sub dist _ choice).subset he)⟩
  intro o ho
  have h := inflight_exact dist s (.early k t choice)
  rw [show (step dist s (.early k t choice)) = earlyDone dist s k t choice from rfl] at h
  rw [h] at ho
  rcases List.mem_append.1 ho with ho | ho
  · simp only [List.mem_filter, stays, Bool.and_eq_true, decide_eq_true_eq, Bool.not_eq_true',
      Bool.and_eq_false_imp, beq_iff_eq, beq_eq_false_iff_ne] at ho
    exact fun hh => ho.2.2 hh.1 hh.2
  · obtain ⟨⟨x, hx, hk, ht, _⟩, _, _⟩ := nextKeys_ret_origin dist ho
    rw [← hk, ← ht]; exact hfil x hx

/-- timeout: after any call that prunes (`add_keys`, both notifications, `next_keys_to_fetch`) no in-flight entry
has a deadline that has passed; in particular an entry whose deadline passed has left. -/
theorem inflight_leaves_timeout (s : State) (op : Op)
    (hop : match op with | .add .. | .put .. | .early .. | .next .. => True | _ => False) :
    ∀ o ∈ (step dist s op).1.ogf, s.now < o.deadline := by
  have hret : ∀ {s1 : State} {c : List Entry} {o : Entry},
      o ∈ (nextKeys dist s1 c).2.ret → s1.now = s.now → s.now < o.deadline := by
    intro s1 c o ho hn
    obtain ⟨_, hd, _⟩ := nextKeys_ret_origin dist ho
    have := fetchTimeout_pos
    omega
  intro o ho
  rw [inflight_exact] at ho
  cases op with
  | add h inc loc c =>
    rcases List.mem_append.1 ho with ho | ho
    · simp only [List.mem_filter, stays, Bool.and_eq_true, decide_eq_true_eq] at ho; exact ho.2.1
    · obtain ⟨X, ill, hx⟩ := addKeys_shape dist s h inc loc c
      rw [show (step dist s (.add h inc loc c)) = addKeys dist s h inc loc c from rfl, hx] at ho
      rcases List.mem_append.1 ho with ho | ho
      · obtain ⟨p, _, _, rfl, _⟩ := addCore_fast dist ho
        have := fetchTimeout_pos
        simp only [fastEntry]; omega
      · exact hret ho (addCore_fields dist s h inc loc).2.2.1
  | put k t c =>
    rcases List.mem_append.1 ho with ho | ho
    · simp only [List.mem_filter, stays, Bool.and_eq_true, decide_eq_true_eq] at ho; exact ho.2.1
    · change o ∈ (nextKeys dist _ c).2.ret at ho
      exact hret ho rfl
  | early k t c =>
    rcases List.mem_append.1 ho with ho | ho
    · simp only [List.mem_filter, stays, Bool.and_eq_true, decide_eq_true_eq] at ho; exact ho.2.1
    · change o ∈ (nextKeys dist _ c).2.ret at ho
      exact hret ho rfl
  | next c =>
    rcases List.mem_append.1 ho with ho | ho
    · simp only [List.mem_filter, stays, decide_eq_true_eq] at ho; exact ho.2
    · have ho' : o ∈ (nextKeys dist s c).2.ret := ho
      exact hret ho' rfl
  | setRange r => cases hop
  | age d => cases hop
  | full k => cases hop

/-- the three ways out of the in-flight set, together -/
theorem inflight_leaves (s : State) (k t : Nat) (choice : List Entry) :
    (∀ o ∈ (newPut dist s k t choice).1.ogf, o.key = k → o ∈ (newPut dist s k t choice).2.ret) ∧
    (∀ o ∈ (earlyDone dist s k t choice).1.ogf, ¬(o.key = k ∧ o.ty = t)) ∧
    (∀ o ∈ s.ogf, o.deadline ≤ s.now → o ∉ (nextKeys dist s choice).1.ogf) := by
  refine ⟨inflight_leaves_put dist s k t choice, (inflight_leaves_early dist s k t choice).1, ?_⟩
  intro o _ hd hmem
  have := inflight_leaves_timeout dist s (.next choice) trivial o hmem
  omega

/-! ## timeout_reports_and_drops -/

/-- `next_keys_to_fetch` reports exactly the holders of the fetches whose deadline has passed, removes those
fetches, and drops every queued entry of a reported holder. -/
theorem timeout_reports_and_drops (s : State) (choice : List Entry) :
    (nextKeys dist s choice).2.failed = (s.ogf.filter (fun o => decide (o.deadline ≤ s.now))).map (·.holder) ∧
    (∀ o ∈ s.ogf, o.deadline ≤ s.now →
      o.holder ∈ (nextKeys dist s choice).2.failed ∧ o ∉ (nextKeys dist s choice).1.ogf) ∧
    (∀ e ∈ (nextKeys dist s choice).1.tbf, e.holder ∉ (nextKeys dist s choice).2.failed) := by
  have hf := (nextKeys_fields dist s choice).2.2.2
  refine ⟨?_, ?_, ?_⟩
  · rw [hf, failedOf]
    congr 1
    apply List.filter_congr
    intro o _
    cases h : expired s.now o with
    | true => have := (expired_iff _ _).1 h; simp [this]
    | false =>
      have : ¬ o.deadline ≤ s.now := fun hh => by rw [(expired_iff _ _).2 hh] at h; cases h
      simp [this]
  · intro o ho hd
    refine ⟨by rw [hf]; exact mem_failedOf ho hd, ?_⟩
    exact (inflight_leaves dist s 0 0 choice).2.2 o ho hd
  · intro e he
    rw [hf]
    exact pTbf_no_failed ((nextKeys_tbf_sub dist s choice).subset he)


/-! ## new versions are fetched (repair F-g) -/

/-- A single advertised record version that is not held *with that type*, not queued for this holder, not beyond the
farthest acceptable distance and not in flight is fetched at once — also when the key is held with another type. -/
theorem new_version_fetched (s : State) (h k t : Nat) (locals : List (Nat × Nat)) (choice : List Entry)
    (hheld : locals.lookup k ≠ some t)
    (hq : hasKTH s.tbf k t h = false)
    (hfar : ∀ f, s.farthest = some f → dist k ≤ f)
    (hfly : hasKT s.ogf k t = false) :
    ∃ e ∈ (addKeys dist s h [(k, t)] locals choice).2.ret, e.key = k ∧ e.ty = t ∧ e.holder = h := by
  have hadm : admits dist s locals h (k, t) = true := by
    simp only [admits, skipHeld, skip_same, if_true, Bool.and_eq_true, Bool.not_eq_true',
      beq_eq_false_iff_ne, ne_eq]
    refine ⟨⟨hheld, hq⟩, ?_⟩
    cases hf : s.farthest with
    | none => rfl
    | some f =>
      have := hfar f hf
      simp only [Bool.not_eq_true']
      cases hb : beyondFarthest (dist k) f with
      | false => rfl
      | true => have := (beyond_iff _ _).1 hb; omega
  have hnew : newOf dist s locals h [(k, t)] = [(k, t)] := by
    simp only [newOf, List.filter_cons, hadm, if_true, List.filter_nil]
  have hog : hasKT (ogf1 s locals) k t = false := by
    rw [hasKT_false_iff] at hfly ⊢
    intro e he
    exact hfly e (List.mem_filter.1 he).1
  obtain ⟨X, ill, hx⟩ := addKeys_shape dist s h [(k, t)] locals choice
  rw [hx]
  rcases addCore_cases dist s h [(k, t)] locals with ⟨p, hp, hk, _⟩ | ⟨p, hp, _, hc⟩ | ⟨hlen, _⟩
  · rw [hnew] at hp
    obtain rfl : (k, t) = p := by simpa using hp
    rw [hog] at hk; cases hk
  · rw [hnew] at hp
    obtain rfl : (k, t) = p := by simpa using hp
    rw [hc]
    exact ⟨fastEntry s h (k, t), List.mem_append_left _ (List.mem_singleton.2 rfl), rfl, rfl, rfl⟩
  · rw [hnew] at hlen; rcases hlen with hlen | hlen <;> exact absurd rfl hlen

/-! ## progress -/

/-- One scheduling round: a queued version whose holder has not timed out is scheduled by the next
`next_keys_to_fetch` whenever the fetches in flight plus the queued entries of *other* versions that are at least as
close fit below the limit (`hroom`). This is the one-call special case of the ranking step `ahead_decreases` below;
the round-based statement is `progress`. -/
theorem progress_partial (s : State) (choice : List Entry) (e : Entry)
    (hok : (nextKeys dist s choice).2.illegal = false)
    (he : e ∈ s.tbf)
    (hresp : e.holder ∉ (nextKeys dist s choice).2.failed)
    (hroom : s.ogf.length +
        (s.tbf.filter (fun x => decide (dist x.key ≤ dist e.key) && !(x.key == e.key && x.ty == e.ty))).length
          < maxParallelFetch) :
    hasKT (nextKeys dist s choice).1.ogf e.key e.ty = true := by
  cases hfly : hasKT (nextKeys dist s choice).1.ogf e.key e.ty with
  | true => rfl
  | false =>
    exfalso
    have hf := (nextKeys_fields dist s choice).2.2.2
    have hep : e ∈ pTbf s := by
      rw [hf] at hresp
      simp only [pTbf, List.mem_filter, Bool.not_eq_true', List.contains_eq_mem, decide_eq_false_iff_not]
      exact ⟨he, hresp⟩
    have hog := nextKeys_ogf_eq dist s choice
    have hnot : hasKT (nextKeys dist s choice).2.ret e.key e.ty = false := by
      rw [hog, hasKT_append] at hfly
      simpa using (Bool.or_eq_false_iff.1 hfly).2
    have hmem : e ∈ (nextKeys dist s choice).1.tbf := by
      rcases nextKeys_keeps_or_schedules dist (c := choice) hep with h | h
      · exact h
      · rw [hnot] at h; cases h
    obtain ⟨hmax, hclose⟩ := (closest_first dist s choice hok).2 e hmem hfly
    -- every returned version is a different, at-least-as-close queued version
    have hsub : (nextKeys dist s choice).2.ret.map kt ⊆
        (s.tbf.filter (fun x => decide (dist x.key ≤ dist e.key) && !(x.key == e.key && x.ty == e.ty))).map kt := by
      intro a ha
      obtain ⟨r, hr, rfl⟩ := List.mem_map.1 ha
      obtain ⟨⟨x, hx, hk, ht, _⟩, _, _⟩ := nextKeys_ret_origin dist hr
      refine List.mem_map.2 ⟨x, List.mem_filter.2 ⟨(pTbf_sub s).subset hx, ?_⟩, by simp [kt, hk, ht]⟩
      have h1 : dist x.key ≤ dist e.key := by rw [hk]; exact hclose r hr
      have h2 : ¬(r.key = e.key ∧ r.ty = e.ty) := (hasKT_false_iff _ _ _).1 hnot r hr
      simp only [Bool.and_eq_true, decide_eq_true_eq, Bool.not_eq_true', Bool.and_eq_false_imp, beq_iff_eq,
        beq_eq_false_iff_ne]
      exact ⟨h1, fun hh => by rw [hk] at hh; rw [ht]; exact fun h3 => h2 ⟨hh, h3⟩⟩
    have hlen := (nextKeys_ret_nodup dist s choice).length_le_of_subset hsub
    simp only [List.length_map] at hlen
    have h3 : (nextKeys dist s choice).1.ogf.length ≤ s.ogf.length + (nextKeys dist s choice).2.ret.length := by
      rw [hog, List.length_append]
      have := (pOgf_sub s).length_le
      omega
    omega

/-- Take-up: every new key of a multi-key advertisement that lies within the range (or when no range is set) is,
after the call, queued for that holder or in flight — unless the holder is reported as timed out by this call. -/
theorem multi_key_takeup (s : State) (h : Nat) (incoming locals : List (Nat × Nat)) (choice : List Entry)
    (p : Nat × Nat) (hp : p ∈ incoming.filter (admits dist s locals h))
    (hmulti : (incoming.filter (admits dist s locals h)).length ≠ 1 ∨ incoming.length ≠ 1)
    (hr : ∀ r, s.range = some r → dist p.1 ≤ r)
    (hresp : h ∉ (addKeys dist s h incoming locals choice).2.failed) :
    hasKTH (addKeys dist s h incoming locals choice).1.tbf p.1 p.2 h = true ∨
    hasKT (addKeys dist s h incoming locals choice).1.ogf p.1 p.2 = true := by
  obtain ⟨X, ill, hx⟩ := addKeys_shape dist s h incoming locals choice
  rw [hx] at hresp ⊢
  have hf := (nextKeys_fields dist (addCore dist s h incoming locals).1 X).2.2.2
  -- the key is queued before the final `next_keys_to_fetch`
  have hq : hasKTH (addCore dist s h incoming locals).1.tbf p.1 p.2 h = true := by
    rcases addCore_cases' dist s h incoming locals with ⟨q, hq, _, _⟩ | ⟨q, hq, _, _⟩ | ⟨_, hc⟩
    · obtain ⟨h1, h2⟩ := (fastKey_some_iff _ _ _).1 hq
      rcases hmulti with hm | hm
      · exact absurd (by rw [show incoming.filter (admits dist s locals h) = [q] from h1]; rfl) hm
      · exact absurd h2 hm
    · obtain ⟨h1, h2⟩ := (fastKey_some_iff _ _ _).1 hq
      rcases hmulti with hm | hm
      · exact absurd (by rw [show incoming.filter (admits dist s locals h) = [q] from h1]; rfl) hm
      · exact absurd h2 hm
    · rw [hc]
      apply insertPending_has
      unfold new3
      split
      · rename_i r hrr
        exact List.mem_filter.2 ⟨hp, (rangeOk_iff _ _).2 (hr r hrr)⟩
      · exact hp
  obtain ⟨e, he, hk, ht, hh⟩ := (hasKTH_true_iff _ _ _ _).1 hq
  have hep : e ∈ pTbf (addCore dist s h incoming locals).1 := by
    simp only [pTbf, List.mem_filter, Bool.not_eq_true', List.contains_eq_mem, decide_eq_false_iff_not]
    refine ⟨he, ?_⟩
    rw [hh]; rw [hf] at hresp; exact hresp
  rcases nextKeys_keeps_or_schedules dist (c := X) hep with h1 | h1
  · exact Or.inl ((hasKTH_true_iff _ _ _ _).2 ⟨e, h1, hk, ht, hh⟩)
  · right
    show hasKT (nextKeys dist (addCore dist s h incoming locals).1 X).1.ogf p.1 p.2 = true
    rw [nextKeys_ogf_eq, hasKT_append, ← hk, ← ht, h1, Bool.or_true]

/-! ## progress (round-based liveness)

Every acknowledgement (`notify_about_new_put`, `notify_fetch_early_completed`) itself calls
`next_keys_to_fetch`. Under the fairness hypothesis of DESIGN §4 C08 — every scheduled fetch, also those scheduled by
the acknowledgements, is acknowledged before the next round — the in-flight set is empty at the end of a round, and
then `closest_first` leaves no queued entry behind: the advertised version is scheduled in the *first* round, which is
stronger than the `⌈closer / MAX_PARALLEL_FETCH⌉ + 1` rounds of the design (`progress` states that bound,
`progress_first_round` the tight one). The ranking function of the design survives as `ahead_decreases`: per call,
as long as the version is not in flight, the limit is reached and the number of queued entries ahead of it drops by
the size of the returned batch. -/

theorem admits_of {s : State} {locals : List (Nat × Nat)} {h k t : Nat}
    (hheld : locals.lookup k ≠ some t) (hq : hasKTH s.tbf k t h = false)
    (hfar : ∀ f, s.farthest = some f → dist k ≤ f) : admits dist s locals h (k, t) = true := by
  simp only [admits, skipHeld, skip_same, if_true, Bool.and_eq_true, Bool.not_eq_true',
    beq_eq_false_iff_ne, ne_eq]
  refine ⟨⟨hheld, hq⟩, ?_⟩
  cases hf : s.farthest with
  | none => rfl
  | some f =>
    have := hfar f hf
    simp only [Bool.not_eq_true']
    cases hb : beyondFarthest (dist k) f with
    | false => rfl
    | true => have := (beyond_iff _ _).1 hb; omega

/-- The advertisement that opens a round: a listed version that is not held with that type, in range, within the
farthest distance and not in flight is queued for the advertising holder or scheduled by that very call. -/
theorem advert_step {s : State} {h k t : Nat} {L loc : List (Nat × Nat)} {c : List Entry}
    (hin : (k, t) ∈ L) (hkeeps : Keeps dist k t h s (.add h L loc c))
    (hfar : ∀ f, s.farthest = some f → dist k ≤ f) (hrange : ∀ r, s.range = some r → dist k ≤ r)
    (hfly : hasKT s.ogf k t = false) :
    hasKTH (step dist s (.add h L loc c)).1.tbf k t h = true ∨
    hasKT (step dist s (.add h L loc c)).2.ret k t = true := by
  cases hq : hasKTH s.tbf k t h with
  | true => exact keeps_step dist hq hkeeps
  | false =>
    obtain ⟨_, hresp, hheld, _⟩ := hkeeps
    have hadm := admits_of dist hheld hq hfar
    have hmem : (k, t) ∈ L.filter (admits dist s loc h) := List.mem_filter.2 ⟨hin, hadm⟩
    have hog : hasKT (ogf1 s loc) k t = false := by
      rw [hasKT_false_iff] at hfly ⊢
      intro e he
      exact hfly e (List.mem_filter.1 he).1
    show hasKTH (addKeys dist s h L loc c).1.tbf k t h = true ∨ hasKT (addKeys dist s h L loc c).2.ret k t = true
    change h ∉ (addKeys dist s h L loc c).2.failed at hresp
    rcases addCore_cases dist s h L loc with ⟨p, hp, hk, _⟩ | ⟨p, hp, _, hc⟩ | ⟨hlen, _⟩
    · have : (k, t) = p := by
        have := hmem; rw [show L.filter (admits dist s loc h) = [p] from hp] at this; simpa using this
      subst this
      rw [hog] at hk; cases hk
    · have : (k, t) = p := by
        have := hmem; rw [show L.filter (admits dist s loc h) = [p] from hp] at this; simpa using this
      subst this
      right
      obtain ⟨X, ill, hx⟩ := addKeys_shape dist s h L loc c
      rw [hx, hc]
      show hasKT ([fastEntry s h (k, t)] ++ _) k t = true
      rw [hasKT_append]
      simp [hasKT, sameKT, fastEntry]
    · rcases multi_key_takeup dist s h L loc c (k, t) hmem hlen hrange hresp with h1 | h1
      · exact Or.inl h1
      · right
        have hex := inflight_exact dist s (.add h L loc c)
        change (addKeys dist s h L loc c).1.ogf = _ ++ (addKeys dist s h L loc c).2.ret at hex
        rw [hex, hasKT_append] at h1
        have h2 : hasKT (s.ogf.filter (stays dist s (.add h L loc c))) k t = false := by
          rw [hasKT_false_iff] at hfly ⊢
          intro e he
          exact hfly e (List.mem_filter.1 he).1
        rw [h2, Bool.false_or] at h1
        exact h1

/-- **Fairness hypotheses of one round** for the version `(k, t)` advertised by holder `h`, from state `s`:
the round is an advertisement by `h` listing the version, followed by any operations (acknowledgements, other
holders' lists, timer advances, range / fullness updates), such that
* the version is not held with that type, is in range, within the farthest distance and not already in flight;
* until the version is scheduled, every choice witness is legal, `h` is not reported as timed out, and no operation
  takes the queued entry away other than by scheduling it (`FairTrace` / `Keeps`);
* the last operation is a scheduling call with a legal choice, and afterwards nothing is in flight:
  every scheduled fetch — also those scheduled by the acknowledgements themselves — has been acknowledged. -/
structure FairRound (k t h : Nat) (s : State) (round : List Op) : Prop where
  advert : ∃ L loc c acks, round = .add h L loc c :: acks ∧ (k, t) ∈ L
  inRange : ∀ r, s.range = some r → dist k ≤ r
  withinFarthest : ∀ f, s.farthest = some f → dist k ≤ f
  notInFlight : hasKT s.ogf k t = false
  fair : FairTrace dist k t h s round
  lastLegal : ∃ pre op, round = pre ++ [op] ∧ op.schedules = true ∧
    (step dist (run dist s pre) op).2.illegal = false
  acked : (run dist s round).ogf = []

/-- **progress, one round.** In a fair round the advertised version is returned by some call of that round — however
many closer versions are queued: every acknowledgement calls `next_keys_to_fetch`, so the queue keeps draining
closest-first until nothing eligible is left. -/
theorem progress_round (k t h : Nat) (s : State) (round : List Op) (hr : FairRound dist k t h s round) :
    ∃ o ∈ outs dist s round, hasKT o.ret k t = true := by
  obtain ⟨L, loc, c, acks, rfl, hin⟩ := hr.advert
  obtain ⟨hkeeps, hrest⟩ := hr.fair
  rcases advert_step dist hin hkeeps hr.withinFarthest hr.inRange hr.notInFlight with hq | hsched
  · rcases hrest with hsched | hfair
    · exact ⟨_, List.mem_cons_self, hsched⟩
    · obtain ⟨pre, op, hsplit, hs, hok⟩ := hr.lastLegal
      have hacked := hr.acked
      cases pre with
      | nil =>
        -- the advertisement is the only operation of the round
        simp only [List.nil_append, List.cons.injEq] at hsplit
        obtain ⟨rfl, rfl⟩ := hsplit
        exfalso
        change (step dist s (.add h L loc c)).2.illegal = false at hok
        obtain ⟨e, he, _, _, _⟩ := (hasKTH_true_iff _ _ _ _).1 hq
        have h0 : (step dist s (.add h L loc c)).1.ogf = [] := hacked
        have := step_closest dist hs hok e he (by rw [h0]; rfl)
        rw [h0] at this
        exact absurd this (by decide)
      | cons p0 pre' =>
        simp only [List.cons_append, List.cons.injEq] at hsplit
        obtain ⟨rfl, rfl⟩ := hsplit
        obtain ⟨o, ho, hso⟩ := progress_trace dist hq hfair hs hok hacked
        exact ⟨o, List.mem_cons_of_mem _ ho, hso⟩
  · exact ⟨_, List.mem_cons_self, hsched⟩

/-- the state at the start of round `i` -/
def startOf (s : State) (rounds : List (List Op)) (i : Nat) : State := run dist s (rounds.take i).flatten

/-- some call of the round returns the version -/
def ScheduledIn (k t : Nat) (s : State) (round : List Op) : Prop :=
  ∃ o ∈ outs dist s round, hasKT o.ret k t = true

/-- **Fairness of a round-based execution**: there is at least one round, and every round is a `FairRound` (from
the state the previous rounds lead to) unless the version has already been scheduled in an earlier round. -/
structure FairRounds (k t h : Nat) (s : State) (rounds : List (List Op)) : Prop where
  nonempty : rounds ≠ []
  fair : ∀ i (hi : i < rounds.length),
    (∃ j, j < i ∧ ∃ hj : j < rounds.length, ScheduledIn dist k t (startOf dist s rounds j) rounds[j]) ∨
    FairRound dist k t h (startOf dist s rounds i) rounds[i]

/-- **progress.** In a fair round-based execution the version is scheduled in the very first round. -/
theorem progress_first_round (k t h : Nat) (s : State) (rounds : List (List Op))
    (hr : FairRounds dist k t h s rounds) :
    ∃ h0 : 0 < rounds.length, ScheduledIn dist k t s rounds[0] := by
  have h0 : 0 < rounds.length := List.length_pos_iff.2 hr.nonempty
  refine ⟨h0, ?_⟩
  rcases hr.fair 0 h0 with ⟨j, hj, _⟩ | hf
  · exact absurd hj (Nat.not_lt_zero _)
  · exact progress_round dist k t h _ _ hf

/-- **progress with the bound of DESIGN §4 C08**: for any count `closer` of queued / in-range unheld keys closer than
`k`, the version is scheduled within `⌈closer / MAX_PARALLEL_FETCH⌉ + 1` rounds. (The bound is not tight: under
the fairness hypothesis "every scheduled fetch is acknowledged before the next round" the first round suffices,
see `progress_first_round`.) -/
theorem progress (k t h : Nat) (s : State) (rounds : List (List Op))
    (hr : FairRounds dist k t h s rounds) (closer : Nat) :
    ∃ i, i < (closer + maxParallelFetch - 1) / maxParallelFetch + 1 ∧
      ∃ hi : i < rounds.length, ScheduledIn dist k t (startOf dist s rounds i) rounds[i] := by
  obtain ⟨h0, hs⟩ := progress_first_round dist k t h s rounds hr
  exact ⟨0, Nat.succ_pos _, h0, hs⟩

/-! ### the ranking function behind `progress` -/

/-- queued entries of *other* versions that are at least as close as key `k` -/
def aheadP (k t : Nat) (x : Entry) : Bool := decide (dist x.key ≤ dist k) && !(x.key == k && x.ty == t)
def ahead (s : State) (k t : Nat) : Nat := (s.tbf.filter (aheadP dist k t)).length

theorem ret_not_queued {s : State} {c : List Entry} {r x : Entry}
    (hr : r ∈ (nextKeys dist s c).2.ret) (hx : x ∈ (nextKeys dist s c).1.tbf) : kth x ≠ kth r := by
  rcases nextKeys_cases dist s c with ⟨_, h⟩ | ⟨_, _, h⟩ | ⟨_, _, h⟩
  · rw [h] at hr; cases hr
  · rw [h] at hr; cases hr
  · rw [h] at hr hx
    obtain ⟨y, hy, hk, ht, hh, _⟩ := mem_sched hr
    have hx2 := (List.mem_filter.1 hx).2
    intro heq
    simp only [kth, Prod.mk.injEq] at heq
    have : hasKTH c x.key x.ty x.holder = true :=
      (hasKTH_true_iff _ _ _ _).2 ⟨y, hy, by rw [heq.1, hk], by rw [heq.2.1, ht], by rw [heq.2.2, hh]⟩
    rw [this] at hx2; cases hx2

/-- **Ranking step.** If, after a `next_keys_to_fetch` with a legal choice, the version `(k, t)` queued for a
responsive holder is still not in flight, then the limit is reached and the number of queued entries ahead of it has
dropped by the size of the returned batch. -/
theorem ahead_decreases (s : State) (hi : Inv dist s) (choice : List Entry) (k t h : Nat)
    (hok : (nextKeys dist s choice).2.illegal = false)
    (hq : hasKTH s.tbf k t h = true) (hresp : h ∉ (nextKeys dist s choice).2.failed)
    (hnot : hasKT (nextKeys dist s choice).1.ogf k t = false) :
    maxParallelFetch ≤ (nextKeys dist s choice).1.ogf.length ∧
    ahead dist (nextKeys dist s choice).1 k t + (nextKeys dist s choice).2.ret.length ≤ ahead dist s k t := by
  have hog := nextKeys_ogf_eq dist s choice
  have hnr : hasKT (nextKeys dist s choice).2.ret k t = false := by
    rw [hog, hasKT_append] at hnot
    exact (Bool.or_eq_false_iff.1 hnot).2
  have hq' : hasKTH (nextKeys dist s choice).1.tbf k t h = true := by
    rcases nextKeys_keepsV dist (c := choice) hq hresp with h1 | h1
    · exact h1
    · rw [hnr] at h1; cases h1
  obtain ⟨e, he, hek, het, _⟩ := (hasKTH_true_iff _ _ _ _).1 hq'
  obtain ⟨hmax, hclose⟩ := (closest_first dist s choice hok).2 e he (by rw [hek, het]; exact hnot)
  refine ⟨hmax, ?_⟩
  have htsub : (nextKeys dist s choice).1.tbf.Sublist s.tbf := (nextKeys_tbf_sub dist s choice).trans (pTbf_sub s)
  -- the entries still ahead and the returned ones have pairwise distinct (key, type, holder) …
  have hnd : (((nextKeys dist s choice).1.tbf.filter (aheadP dist k t)).map kth ++
      (nextKeys dist s choice).2.ret.map kth).Nodup := by
    rw [List.nodup_append]
    refine ⟨nodup_map_sub (List.filter_sublist.trans htsub) hi.tbfNodup, ?_, ?_⟩
    · have h1 := nextKeys_ret_nodup dist s choice
      have h2 : ((nextKeys dist s choice).2.ret.map kth).map (fun p => (p.1, p.2.1)) =
          (nextKeys dist s choice).2.ret.map kt := by
        simp [List.map_map, Function.comp_def, kth, kt]
      rw [← h2] at h1
      exact List.Pairwise.of_map (fun p : Nat × Nat × Nat => (p.1, p.2.1)) (fun a b hne hab => hne (by rw [hab])) h1
    · intro a ha b hb hab
      subst hab
      obtain ⟨x, hx, rfl⟩ := List.mem_map.1 ha
      obtain ⟨r, hr, hrx⟩ := List.mem_map.1 hb
      exact ret_not_queued dist hr (List.mem_filter.1 hx).1 hrx.symm
  -- … and all of them are entries of the old queue that were ahead
  have hsub : ((nextKeys dist s choice).1.tbf.filter (aheadP dist k t)).map kth ++
      (nextKeys dist s choice).2.ret.map kth ⊆ (s.tbf.filter (aheadP dist k t)).map kth := by
    intro a ha
    rcases List.mem_append.1 ha with ha | ha
    · obtain ⟨x, hx, rfl⟩ := List.mem_map.1 ha
      exact List.mem_map.2 ⟨x, List.mem_filter.2 ⟨htsub.subset (List.mem_filter.1 hx).1, (List.mem_filter.1 hx).2⟩, rfl⟩
    · obtain ⟨r, hr, rfl⟩ := List.mem_map.1 ha
      obtain ⟨⟨y, hy, hk, ht, hh⟩, _, _⟩ := nextKeys_ret_origin dist hr
      refine List.mem_map.2 ⟨y, List.mem_filter.2 ⟨(pTbf_sub s).subset hy, ?_⟩, by simp [kth, hk, ht, hh]⟩
      have h1 : dist y.key ≤ dist k := by rw [hk, ← hek]; exact hclose r hr
      have h2 : ¬(r.key = k ∧ r.ty = t) := (hasKT_false_iff _ _ _).1 hnr r hr
      simp only [aheadP, Bool.and_eq_true, decide_eq_true_eq, Bool.not_eq_true', Bool.and_eq_false_imp,
        beq_iff_eq, beq_eq_false_iff_ne]
      exact ⟨h1, fun hh1 => by rw [hk] at hh1; rw [ht]; exact fun h3 => h2 ⟨hh1, h3⟩⟩
  have hlen := hnd.length_le_of_subset hsub
  simp only [List.length_append, List.length_map] at hlen
  exact hlen

/-! ### non-vacuity of the fairness hypotheses: an executable check and a concrete three-round run -/

def keepsB (k t h : Nat) (s : State) (op : Op) : Bool :=
  !(step dist s op).2.illegal && !(step dist s op).2.failed.contains h &&
  (match op with
   | .add _ _ locals _ => !(locals.lookup k == some t) &&
       s.tbf.all (fun x => !(x.key == k && x.ty == t && x.holder == h) || decide (s.now < x.deadline))
   | .put k' t' _ => !(k == k' && t == t')
   | .early k' t' _ => !(k == k' && t == t')
   | .full (some k') => decide (dist k ≤ dist k')
   | _ => true)

theorem keepsB_sound {k t h : Nat} {s : State} {op : Op} (hb : keepsB dist k t h s op = true) :
    Keeps dist k t h s op := by
  simp only [keepsB, Bool.and_eq_true, Bool.not_eq_true', List.contains_eq_mem, decide_eq_false_iff_not] at hb
  obtain ⟨⟨h1, h2⟩, h3⟩ := hb
  refine ⟨h1, h2, ?_⟩
  cases op with
  | add h' inc loc c =>
    simp only [Bool.and_eq_true, Bool.not_eq_true', beq_eq_false_iff_ne, ne_eq, List.all_eq_true,
      Bool.or_eq_true, decide_eq_true_eq, Bool.and_eq_false_imp, beq_iff_eq] at h3
    refine ⟨h3.1, ?_⟩
    intro x hx hk ht hh
    rcases h3.2 x hx with h4 | h4
    · exact absurd hh (h4 ⟨hk, ht⟩)
    · exact h4
  | put k' t' c =>
    simp only [Bool.not_eq_true', Bool.and_eq_false_imp, beq_iff_eq, beq_eq_false_iff_ne] at h3
    exact fun hh => h3 hh.1 hh.2
  | early k' t' c =>
    simp only [Bool.not_eq_true', Bool.and_eq_false_imp, beq_iff_eq, beq_eq_false_iff_ne] at h3
    exact fun hh => h3 hh.1 hh.2
  | next c => trivial
  | setRange r => trivial
  | age d => trivial
  | full k' =>
    cases k' with
    | none => trivial
    | some k' => simpa using h3

def fairTraceB (k t h : Nat) : State → List Op → Bool
  | _, [] => true
  | s, op :: ops => keepsB dist k t h s op &&
      (hasKT (step dist s op).2.ret k t || fairTraceB k t h (step dist s op).1 ops)

theorem fairTraceB_sound {k t h : Nat} {s : State} {ops : List Op}
    (hb : fairTraceB dist k t h s ops = true) : FairTrace dist k t h s ops := by
  induction ops generalizing s with
  | nil => trivial
  | cons op ops ih =>
    simp only [fairTraceB, Bool.and_eq_true, Bool.or_eq_true] at hb
    exact ⟨keepsB_sound dist hb.1, hb.2.imp id ih⟩

namespace Example
/-- distance = key id; 25 keys closer than the target key 30; one holder (0) advertising all 26 every round -/
def d : Nat → Nat := fun k => k
def L : List (Nat × Nat) := ((List.range 25).map fun i => (i + 1, 0)) ++ [(30, 0)]
def pick (ks : List Nat) : List Entry := ks.map fun k => ⟨k, 0, 0, 0⟩
/-- round 1: the list (the 20 closest are scheduled), then one put per fetch; each put frees a slot and the next
closest is scheduled: 21 … 25 and then the target 30 -/
def round1pre : List Op :=
  [.add 0 L [] (pick ((List.range 20).map (· + 1)))] ++
  [.put 1 0 (pick [21]), .put 2 0 (pick [22]), .put 3 0 (pick [23]), .put 4 0 (pick [24]),
   .put 5 0 (pick [25]), .put 6 0 (pick [30])] ++
  ((List.range 19).map fun i => .put (i + 7) 0 [])
def round1 : List Op := round1pre ++ [.put 30 0 []]
/-- rounds 2 and 3: everything is held now, the same list schedules nothing -/
def round23 : List Op := [.add 0 L L []]
def rounds : List (List Op) := [round1, round23, round23]

theorem scheduled_round1 : ScheduledIn d 30 0 State.init round1 := by
  show ∃ o ∈ outs d State.init round1, hasKT o.ret 30 0 = true
  decide

set_option maxRecDepth 10000 in
theorem fair_round1 : FairRound d 30 0 0 State.init round1 where
  advert := ⟨L, [], pick ((List.range 20).map (· + 1)), _, rfl, by decide⟩
  inRange := fun r hr => by cases hr
  withinFarthest := fun f hf => by cases hf
  notInFlight := rfl
  fair := fairTraceB_sound d (by decide)
  lastLegal := ⟨round1pre, .put 30 0 [], rfl, rfl, by decide⟩
  acked := by decide

/-- the three-round run satisfies `FairRounds`; nothing is in flight at any round boundary -/
theorem fair_rounds : FairRounds d 30 0 0 State.init rounds where
  nonempty := by decide
  fair := by
    intro i hi
    match i, hi with
    | 0, _ => exact Or.inr fair_round1
    | 1, _ => exact Or.inl ⟨0, by decide, by decide, scheduled_round1⟩
    | 2, _ => exact Or.inl ⟨0, by decide, by decide, scheduled_round1⟩

set_option maxRecDepth 10000 in
example : (run d State.init rounds.flatten).ogf = [] ∧ (run d State.init rounds.flatten).tbf = [] ∧
    (outs d State.init rounds.flatten).all (fun o => !o.illegal) = true := by decide

/-- the sixth acknowledgement of round 1 is the call that schedules the target -/
example : ((outs d State.init round1)[6]?).map (fun o => o.ret.map (·.key)) = some [30] := by decide

/-! Why `FairRound.acked` asks for *every* scheduled fetch to be acknowledged: with the weaker reading (only the
fetches in flight when the round starts are acknowledged during it) 40 closer versions that the holder keeps
advertising and that complete early (older versions of held keys, type 1 against held type 0) occupy all 20 slots in
every round, and the target (key 50) is never scheduled although every other fairness obligation holds. -/
def stale (ks : List Nat) : List Entry := ks.map fun k => ⟨k, 1, 0, 0⟩
def Lw : List (Nat × Nat) := ((List.range 40).map fun i => (i + 1, 1)) ++ [(50, 0)]
def held : List (Nat × Nat) := (List.range 40).map fun i => (i + 1, 0)
/-- acknowledge keys `a+1 … a+20` (early completion); each frees a slot that goes to key `b+i` -/
def acksW (a b : Nat) : List Op := (List.range 20).map fun i => .early (a + i + 1) 1 (stale [b + i + 1])
def w1 : List Op := [.add 0 Lw held (stale ((List.range 20).map (· + 1)))] ++ acksW 0 20
def w2 : List Op := [.add 0 Lw held []] ++ acksW 20 0
def w3 : List Op := [.add 0 Lw held []] ++ acksW 0 20

set_option maxRecDepth 20000 in
/-- every fairness obligation of `FairTrace` holds along the three rounds … -/
theorem weak_fair_trace : fairTraceB d 50 0 0 State.init (w1 ++ w2 ++ w3) = true := by decide

set_option maxRecDepth 20000 in
/-- … all choices are legal and no call ever returns the target … -/
theorem weak_never_scheduled :
    (outs d State.init (w1 ++ w2 ++ w3)).all (fun o => !o.illegal && !hasKT o.ret 50 0) = true := by decide

set_option maxRecDepth 20000 in
/-- … which is still queued at the end, behind a full in-flight set, although the fetches in flight at the start
of rounds 2 and 3 have all been acknowledged by the end of that round. -/
theorem weak_fairness_starves :
    hasKTH (run d State.init (w1 ++ w2 ++ w3)).tbf 50 0 0 = true ∧
    (run d State.init (w1 ++ w2 ++ w3)).ogf.length = maxParallelFetch ∧
    ((run d State.init w1).ogf.all fun o => !hasKT (run d State.init (w1 ++ w2)).ogf o.key o.ty) = true ∧
    ((run d State.init (w1 ++ w2)).ogf.all fun o =>
      !hasKT (run d State.init (w1 ++ w2 ++ w3)).ogf o.key o.ty) = true := by decide
end Example
/-! ## the node-full glue: store and fetcher inside `SwarmDriver::handle_local_cmd` (cmd.rs)

`full_respected` above is the fetcher's half of "once the node is full nothing farther than its farthest held record is
fetched": nothing beyond what was passed to `set_farthest_on_full`. The other half is the handler of
`LocalSwarmCmd::PutLocalRecord`, which tells the fetcher that the node is full. The theorems below are about the
composed machine `SafeNet.FullGlue` (store model × fetcher model, both unchanged), whose handlers are the step lists
regenerated from cmd.rs in source order (`SafeNet.Gen.FullGlue`): moving `set_farthest_on_full` behind
`notify_about_new_put`, dropping it, or reading the farthest record before `put_verified` changes the term these
theorems are about. -/
section Glue
open SafeNet.FullGlue (maxHeld pending atCapacity NoLoss)

variable (cfg : Store.Cfg)

/-- states of the composed machine reachable from a freshly started node by any history of handler calls,
advertisements, task completions and notifications (any witnesses) -/
def GReachable (s : FullGlue.St) : Prop := ∃ ops : List FullGlue.Op, s = FullGlue.run cfg dist ops

theorem greachable_good {s : FullGlue.St} (h : GReachable dist cfg s) : FullGlue.Good dist s := by
  obtain ⟨ops, rfl⟩ := h
  exact FullGlue.run_good cfg dist ops

/-- **A full node fetches nothing farther.** In every reachable state, when `put_verified` refuses the record of a
`PutLocalRecord` with `MaxRecords` (which it does only at capacity, and leaves the held set as it was): every pair
the handler sends up in `KeysToFetchForReplication`, and every fetch queued or in flight when the handler returns,
is no farther from the node than the farthest record it holds at that moment. -/
theorem full_node_fetches_nothing_farther (s : FullGlue.St) (hs : GReachable dist cfg s) (k v : Nat)
    (c : List Entry) (hm : (FullGlue.step cfg dist s (.put k v c)).2.res = .maxRecords) :
    atCapacity cfg s.store = true ∧
    (FullGlue.step cfg dist s (.put k v c)).1.store.index = s.store.index ∧
    (∀ e ∈ (FullGlue.step cfg dist s (.put k v c)).2.emitted,
      dist e.key ≤ maxHeld dist (FullGlue.step cfg dist s (.put k v c)).1.store.index) ∧
    (∀ e ∈ pending (FullGlue.step cfg dist s (.put k v c)).1.fetcher,
      dist e.key ≤ maxHeld dist (FullGlue.step cfg dist s (.put k v c)).1.store.index) := by
  have hg := greachable_good dist cfg hs
  obtain ⟨hidx, hcap, f, fd, b, _, _, hheld, _, hb, hle⟩ := FullGlue.refusal_sets_bound cfg dist hg k v c hm
  have hg' := FullGlue.step_good cfg dist hg (.put k v c)
  have hpend : ∀ e ∈ pending (FullGlue.step cfg dist s (.put k v c)).1.fetcher,
      dist e.key ≤ maxHeld dist (FullGlue.step cfg dist s (.put k v c)).1.store.index := by
    intro e he
    rw [hidx]
    exact Nat.le_trans (hg'.inv.full b hb e (FullGlue.mem_pending.1 he))
      (Nat.le_trans hle (FullGlue.le_maxHeld dist hheld))
  refine ⟨by simpa [atCapacity] using hcap, hidx, ?_, hpend⟩
  intro e he
  exact hpend e (FullGlue.mem_pending.2 (Or.inr (FullGlue.emitted_inflight cfg dist s _ e he)))

/-- the same one level down: the refusal leaves the fetcher with a bound that is at most the distance of the store's
`farthest_record`, which is a held key and closer than the refused record -/
theorem refusal_bounds_fetcher (s : FullGlue.St) (hs : GReachable dist cfg s) (k v : Nat) (c : List Entry)
    (hm : (FullGlue.step cfg dist s (.put k v c)).2.res = .maxRecords) :
    ∃ f fd b, (FullGlue.step cfg dist s (.put k v c)).1.store.farthest = some (f, fd) ∧
      f ∈ Store.keys (FullGlue.step cfg dist s (.put k v c)).1.store.index ∧ fd < dist k ∧
      (FullGlue.step cfg dist s (.put k v c)).1.fetcher.farthest = some b ∧ b ≤ dist f := by
  obtain ⟨hidx, _, f, fd, b, _, hf, hheld, hlt, hb, hle⟩ :=
    FullGlue.refusal_sets_bound cfg dist (greachable_good dist cfg hs) k v c hm
  exact ⟨f, fd, b, hf, by rw [hidx]; exact hheld, hlt, hb, hle⟩

/-- every pair sent up in `KeysToFetchForReplication` by any handler is in flight when the handler returns -/
theorem emitted_is_inflight (s : FullGlue.St) (op : FullGlue.Op) :
    ∀ e ∈ (FullGlue.step cfg dist s op).2.emitted, e ∈ (FullGlue.step cfg dist s op).1.fetcher.ogf :=
  FullGlue.emitted_inflight cfg dist s op

/-- **The bound is only ever set by a refusal**: an operation after which the fetcher's farthest acceptable distance
differs is a `PutLocalRecord` refused with `MaxRecords` — no other handler, no advertisement, no removal, no clean-up
sets, moves or clears it. -/
theorem bound_set_only_by_refusal (s : FullGlue.St) (op : FullGlue.Op)
    (hne : (FullGlue.step cfg dist s op).1.fetcher.farthest ≠ s.fetcher.farthest) :
    ∃ k v c, op = .put k v c ∧ (FullGlue.step cfg dist s op).2.res = .maxRecords :=
  FullGlue.step_farthest_changes cfg dist s op hne

/-- **… and only ever tightened**: once set, it is never cleared and never grows, whatever happens to the store. -/
theorem bound_never_widens (s : FullGlue.St) (op : FullGlue.Op) (b : Nat) (hb : s.fetcher.farthest = some b) :
    ∃ b', (FullGlue.step cfg dist s op).1.fetcher.farthest = some b' ∧ b' ≤ b :=
  FullGlue.step_farthest_mono cfg dist s op b hb

/-- The full history-level reading of the clause: **at every moment at which the store is at capacity, nothing farther
than the farthest record held at that moment is queued or in flight.** False of the code (witnesses below): the fetcher
learns that the node is full only from a refusal, and its bound is not tightened when an accepted record evicts the
farthest one. -/
def FullNodeNeverFetchesFarther : Prop :=
  ∀ (cfg : Store.Cfg) (dist : Nat → Nat) (ops : List FullGlue.Op),
    atCapacity cfg (FullGlue.run cfg dist ops).store = true →
    ∀ e ∈ pending (FullGlue.run cfg dist ops).fetcher,
      dist e.key ≤ maxHeld dist (FullGlue.run cfg dist ops).store.index

/-- **What does hold along a history** (`FullNodeNeverFetchesFarther` under the hypothesis it lacks): from a refusal
on, for as long as no operation takes a record out of the held set (`NoLoss`: no accepted put that evicts, no
`RemoveFailedLocalRecord`, no clean-up that removes something — further refusals, advertisements, completions,
notifications and range updates are all allowed), at every moment nothing queued or in flight is farther than the
farthest record held at that moment. -/
theorem full_history_partial (s : FullGlue.St) (hs : GReachable dist cfg s) (k v : Nat) (c : List Entry)
    (hm : (FullGlue.step cfg dist s (.put k v c)).2.res = .maxRecords) (post : List FullGlue.Op)
    (hn : NoLoss cfg dist (FullGlue.step cfg dist s (.put k v c)).1 post) (n : Nat) :
    ∀ e ∈ pending (FullGlue.runFrom cfg dist (FullGlue.step cfg dist s (.put k v c)).1 (post.take n)).fetcher,
      dist e.key ≤
        maxHeld dist (FullGlue.runFrom cfg dist (FullGlue.step cfg dist s (.put k v c)).1 (post.take n)).store.index := by
  have hg := greachable_good dist cfg hs
  obtain ⟨hidx, _, f, fd, b, _, _, hheld, _, hb, hle⟩ := FullGlue.refusal_sets_bound cfg dist hg k v c hm
  have hg' := FullGlue.step_good cfg dist hg (.put k v c)
  have hb0 : FullGlue.Bounded dist (FullGlue.step cfg dist s (.put k v c)).1 :=
    ⟨b, hb, Nat.le_trans hle (by rw [hidx]; exact FullGlue.le_maxHeld dist hheld)⟩
  exact FullGlue.bounded_pending dist (FullGlue.runFrom_good cfg dist hg' _)
    (FullGlue.bounded_runFrom cfg dist hb0 _ (FullGlue.noLoss_take cfg dist hn n))

namespace GlueExample
/-- distance = key id -/
def d : Nat → Nat := fun k => k
def cfg1 : Store.Cfg := Store.Cfg.shipped 1 2
def cfg2 : Store.Cfg := Store.Cfg.shipped 2 2

/-- capacity 1, record 1 held (the node is full but has refused nothing yet); a neighbour advertises key 5 -/
def beforeRefusal : List FullGlue.Op :=
  [.put 1 0 [], .run 1, .deliver 1, .advert 0 [(5, 0)] [⟨5, 0, 0, 0⟩]]

/-- **witness 1**: a full node that has not refused anything yet fetches a farther record -/
theorem full_node_fetches_farther_before_first_refusal_witness :
    atCapacity cfg1 (FullGlue.run cfg1 d beforeRefusal).store = true ∧
    (FullGlue.run cfg1 d beforeRefusal).store.index.map (·.1) = [1] ∧
    (FullGlue.run cfg1 d beforeRefusal).fetcher.ogf.map (·.key) = [5] ∧
    (FullGlue.run cfg1 d beforeRefusal).fetcher.farthest = none := by decide

/-- capacity 2, records 10 and 20 held; record 40 is refused (bound 20); key 15 is advertised and fetched; record 5 is
accepted and evicts record 20: the farthest held record is now 10, the bound is still 20 and key 15 still in flight -/
def afterEviction : List FullGlue.Op :=
  [.put 10 0 [], .run 1, .deliver 1, .put 20 3 [], .run 2, .deliver 2,
   .put 40 6 [], .advert 0 [(15, 0)] [⟨15, 0, 0, 0⟩],
   .put 5 9 [], .run 3, .run 4, .deliver 4]

/-- **witness 2**: the bound is tightened only by refusals — after an eviction a full node has a farther fetch in flight -/
theorem full_node_fetches_farther_after_eviction_witness :
    ((FullGlue.outs cfg2 d (FullGlue.init cfg2 d) afterEviction).map (·.res)) =
      [.ok, .ok, .ok, .ok, .ok, .ok, .maxRecords, .ok, .ok, .ok, .ok, .ok] ∧
    atCapacity cfg2 (FullGlue.run cfg2 d afterEviction).store = true ∧
    maxHeld d (FullGlue.run cfg2 d afterEviction).store.index = 10 ∧
    (FullGlue.run cfg2 d afterEviction).fetcher.ogf.map (·.key) = [15] ∧
    (FullGlue.run cfg2 d afterEviction).fetcher.farthest = some 20 := by decide

theorem fullNodeNeverFetchesFarther_false : ¬ FullNodeNeverFetchesFarther := by
  intro h
  have h1 := h cfg1 d beforeRefusal (by decide) ⟨5, 0, 0, 20⟩ (by decide)
  exact absurd h1 (by decide)

/-- the bound outlives the fullness: record 40 refused (bound 20), then record 20 is removed after a failed write; the
node has room again, no range is set, and the advertised key 30 is neither fetched nor queued -/
def afterRemoval : List FullGlue.Op :=
  [.put 10 0 [], .run 1, .deliver 1, .put 20 3 [], .run 2, .deliver 2,
   .put 40 6 [], .removeFailed 20, .advert 0 [(30, 0)] []]

theorem bound_outlives_fullness_witness :
    atCapacity cfg2 (FullGlue.run cfg2 d afterRemoval).store = false ∧
    (FullGlue.run cfg2 d afterRemoval).fetcher.farthest = some 20 ∧
    ((FullGlue.outs cfg2 d (FullGlue.init cfg2 d) afterRemoval).map (·.illegal)).all (! ·) = true ∧
    pending (FullGlue.run cfg2 d afterRemoval).fetcher = [] := by decide

/-- non-vacuity of `full_node_fetches_nothing_farther`: records 10 and 20 held at capacity 2, keys 15, 30 and 35 are
being fetched; the arrival of record 30 is refused — 30 and 35 leave the fetcher, 15 stays, nothing is emitted -/
example :
    let pre : List FullGlue.Op :=
      [.put 10 0 [], .run 1, .deliver 1, .put 20 3 [], .run 2, .deliver 2,
       .advert 0 [(15, 0), (30, 0), (35, 0)] [⟨15, 0, 0, 0⟩, ⟨30, 0, 0, 0⟩, ⟨35, 0, 0, 0⟩]]
    let r := FullGlue.step cfg2 d (FullGlue.run cfg2 d pre) (.put 30 6 [])
    (FullGlue.run cfg2 d pre).fetcher.ogf.map (·.key) = [15, 30, 35] ∧
    r.2.res = .maxRecords ∧ r.2.illegal = false ∧ r.2.emitted = [] ∧
    (pending r.1.fetcher).map (·.key) = [15] ∧ r.1.fetcher.farthest = some 20 := by decide

/-- The order of the calls is what the theorem rests on. Records 10 and 20 held at capacity 2; key 30 is in flight from
holder 1 and queued for holder 2; record 30 arrives as another version (scratchpad) and is refused. With the handler's
steps as generated, nothing is emitted; with `set_farthest_on_full` moved behind `notify_about_new_put` (steps
`[0, 1, 3, 4, 2, 5, 6]`) the queued entry is scheduled and `(2, 30)` is sent up — farther than record 20 — before the
bound removes it from the in-flight set again. -/
example :
    let pre : List FullGlue.Op :=
      [.put 10 0 [], .run 1, .deliver 1, .put 20 3 [], .run 2, .deliver 2,
       .advert 1 [(30, 0)] [⟨30, 0, 1, 0⟩], .advert 2 [(30, 0), (31, 0)] [⟨31, 0, 2, 0⟩]]
    let s := FullGlue.run cfg2 d pre
    let good := FullGlue.runHandler cfg2 d Gen.FullGlue.putLocalSteps { k := 30, v := 7, choice := [] } s
    let bad := FullGlue.runHandler cfg2 d [0, 1, 3, 4, 2, 5, 6] { k := 30, v := 7, choice := [⟨30, 0, 2, 0⟩] } s
    s.fetcher.tbf.map (·.key) = [30] ∧
    good.2.res = .maxRecords ∧ good.2.illegal = false ∧ good.2.emitted = [] ∧ pending good.1.fetcher = [] ∧
    bad.2.res = .maxRecords ∧ bad.2.illegal = false ∧ bad.2.emitted.map (fun e => (e.holder, e.key)) = [(2, 30)] ∧
    pending bad.1.fetcher = [] := by decide
end GlueExample
end Glue

/-! ## non-vacuity: the hypotheses are satisfiable and the operations do schedule -/

/-- two holders, a multi-key list, a legal batch in distance order, then the same version from another holder is
queued but not scheduled again -/
example :
    let d : Nat → Nat := fun k => 10 - k
    let s1 := step d State.init (.add 0 [(1, 0), (2, 0)] [] [⟨2, 0, 0, 0⟩, ⟨1, 0, 0, 0⟩])
    let s2 := step d s1.1 (.add 1 [(1, 0), (3, 0)] [] [⟨3, 0, 1, 0⟩])
    s1.2.illegal = false ∧ s1.2.ret.length = 2 ∧ s2.2.illegal = false ∧ s2.2.ret.length = 1 ∧
      s2.1.tbf.length = 1 ∧ s2.1.ogf.length = 3 := by decide

/-- a batch that is not closest-first is rejected as an illegal choice -/
example :
    (step (fun k => 10 - k) State.init (.add 0 [(1, 0), (2, 0)] [] [⟨1, 0, 0, 0⟩, ⟨2, 0, 0, 0⟩])).2.illegal = true := by
  decide

/-- a timed-out holder is reported and the fetch leaves the in-flight set -/
example :
    let d : Nat → Nat := fun k => k
    let s1 := step d State.init (.add 7 [(1, 0)] [] [⟨1, 0, 7, 0⟩])
    let s2 := step d s1.1 (.age 20)
    let s3 := step d s2.1 (.next [])
    s1.1.ogf.length = 1 ∧ s3.2.failed = [7] ∧ s3.1.ogf = [] := by decide

/-- `Reachable` and `progress_partial`'s hypotheses hold for a concrete state -/
example : Reachable (fun k => k) (run (fun k => k) State.init [.age 3]) := ⟨[.age 3], rfl⟩

#print axioms SafeNet.Props.C08.scheduled_not_held
#print axioms SafeNet.Props.C08.scheduled_not_held_after_put
#print axioms SafeNet.Props.C08.range_respected
#print axioms SafeNet.Props.C08.range_respected_multi_advert
#print axioms SafeNet.Props.C08.single_new_key_of_multi_advert_skips_range_witness
#print axioms SafeNet.Props.C08.full_respected
#print axioms SafeNet.Props.C08.full_bound_shrinks
#print axioms SafeNet.Props.C08.inflight_exact
#print axioms SafeNet.Props.C08.no_dup_inflight
#print axioms SafeNet.Props.C08.batch_cap
#print axioms SafeNet.Props.C08.batch_cap_all_ops
#print axioms SafeNet.Props.C08.closest_first
#print axioms SafeNet.Props.C08.inflight_leaves
#print axioms SafeNet.Props.C08.inflight_leaves_early
#print axioms SafeNet.Props.C08.inflight_leaves_timeout
#print axioms SafeNet.Props.C08.timeout_reports_and_drops
#print axioms SafeNet.Props.C08.new_version_fetched
#print axioms SafeNet.Props.C08.multi_key_takeup
#print axioms SafeNet.Props.C08.progress_partial
#print axioms SafeNet.Props.C08.advert_step
#print axioms SafeNet.Props.C08.progress_round
#print axioms SafeNet.Props.C08.progress_first_round
#print axioms SafeNet.Props.C08.progress
#print axioms SafeNet.Props.C08.ahead_decreases
#print axioms SafeNet.Props.C08.Example.fair_rounds
#print axioms SafeNet.Props.C08.Example.weak_fair_trace
#print axioms SafeNet.Props.C08.Example.weak_never_scheduled
#print axioms SafeNet.Props.C08.Example.weak_fairness_starves
#print axioms SafeNet.Props.C08.full_node_fetches_nothing_farther
#print axioms SafeNet.Props.C08.refusal_bounds_fetcher
#print axioms SafeNet.Props.C08.emitted_is_inflight
#print axioms SafeNet.Props.C08.bound_set_only_by_refusal
#print axioms SafeNet.Props.C08.bound_never_widens
#print axioms SafeNet.Props.C08.full_history_partial
#print axioms SafeNet.Props.C08.GlueExample.full_node_fetches_farther_before_first_refusal_witness
#print axioms SafeNet.Props.C08.GlueExample.full_node_fetches_farther_after_eviction_witness
#print axioms SafeNet.Props.C08.GlueExample.fullNodeNeverFetchesFarther_false
#print axioms SafeNet.Props.C08.GlueExample.bound_outlives_fullness_witness

end SafeNet.Props.C08
