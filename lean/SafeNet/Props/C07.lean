import SafeNet.Proofs.ValidateData
/-!
# C07 — mutable records never regress and hold only owner-signed content

Same model as C03/C04.  Sequential theorems are about `validate d s` / `deliverSeq` / `runSerial`
(each delivery fully processed before the next); the concurrent semantics is `World.run`, where every
read of the local store is a scheduler step (`Act.ans` serves the read from the store as it is *then*,
`Act.run` resumes the validation, whose put is applied when it is emitted).

The full-strength statement over arbitrary schedules is false of the code (K-f): two validations of one key
may both read the local copy before either writes. It is kept as `NeverRegressesUnderAnySchedule` /
`NoTransactionLostUnderAnySchedule`, refuted by witnesses, and proved under per-key serialisation
(`serial_*_partial`).
-/
namespace SafeNet.Props.C07
open SafeNet.Validate SafeNet.Gen.Validate

/-- `BTreeSet<Transaction>` is a set of whole transactions: `Transaction`'s ordering and equality are the derived
ones (read off the source); the union theorems below depend on it. -/
@[simp] theorem tx_set_is_by_value : txOrdDerived = true := by decide

/-! ## `written` and the per-kind observations -/

theorem written_pad {d : Delivery} {a : Ans} {b : Bool} {n : Nat} {v : Bool}
    (h : written d a b = .pad n v) : ∃ o, d.content = .pad o n v := by
  unfold written at h
  cases hc : d.content with
  | bad => simp [hc] at h
  | chunk id => simp [hc] at h
  | pad o n' v' => simp [hc] at h; exact ⟨o, by rw [h.1, h.2]⟩
  | txs l => simp [hc] at h
  | reg id base ops =>
    simp only [hc] at h
    split at h
    · split at h <;> simp at h
    · simp at h

theorem written_txs {d : Delivery} {a : Ans} {b : Bool} {l' : List Nat}
    (h : written d a b = .txs l') :
    l' = union ((txValid d).map (·.t))
      (match a.g.getD none with | some (.txs l) => if txMergesLocal then l else [] | _ => []) := by
  unfold written at h
  cases hc : d.content with
  | bad => simp [hc] at h
  | chunk id => simp [hc] at h
  | pad o n' v' => simp [hc] at h
  | txs l =>
    have e : txOrdDerived = true := by decide
    simp [hc, e] at h; exact h.symm
  | reg id base ops =>
    simp only [hc] at h
    split at h
    · split at h <;> simp at h
    · simp at h

theorem parse_fam {d : Delivery} (h : parseOk d = true) : contentFam d.content = some (kindFam d.kind) := by
  unfold parseOk at h
  simp only [Bool.and_eq_true, beq_iff_eq] at h
  exact h.1.1

theorem obs_pad {d : Delivery} {a : Ans} {o n : Nat} {v : Bool} (hc : d.content = .pad o n v) :
    (obsOfAns d a).cB = v ∧
    ∀ m vm, a.g = some (some (.pad m vm)) →
      (obsOfAns d a).lSome = true ∧
      (obsOfAns d a).cA = (if padRejectsEqualCounter then decide (n ≤ m) else decide (n < m)) := by
  obtain ⟨client, kind, rk, content, pay⟩ := d
  simp only at hc
  subst hc
  refine ⟨rfl, ?_⟩
  intro m vm hg
  simp [obsOfAns, hg]

/-- a put over a held key is of the same kind as the held content -/
theorem lOk_same_kind {d : Delivery} {a : Ans} {c0 : Content} (hg : a.g = some (some c0))
    (h : (obsOfAns d a).lOk = true) :
    (∃ o n v m vm, d.content = .pad o n v ∧ c0 = .pad m vm) ∨
    (∃ l l0, d.content = .txs l ∧ c0 = .txs l0) ∨
    (∃ id b ops alt l0, d.content = .reg id b ops ∧ c0 = .reg alt l0) := by
  obtain ⟨client, kind, rk, content, pay⟩ := d
  cases content with
  | bad => simp [obsOfAns] at h
  | chunk id => simp [obsOfAns] at h
  | pad o n v =>
    cases c0 <;> simp [obsOfAns, hg] at h
    exact Or.inl ⟨o, n, v, _, _, rfl, rfl⟩
  | txs l =>
    cases c0 <;> simp [obsOfAns, hg] at h
    exact Or.inr (Or.inl ⟨l, _, rfl, rfl⟩)
  | reg id b ops =>
    cases c0 <;> simp [obsOfAns, hg] at h
    exact Or.inr (Or.inr ⟨id, b, ops, _, _, rfl, rfl⟩)

theorem seq_g (d : Delivery) (s : Store) : (seqAns d s).g = some (s.get (rwKey d)) := rfl

/-! ## Scratchpads (sequential) -/

/-- **An update is applied only if its counter is strictly higher than the stored one.** -/
theorem scratchpad_counter_strictly_increases (d : Delivery) (s : Store) (k n m : Nat) (v vm : Bool)
    (hheld : s.get k = some (.pad m vm))
    (hW : Tok.W k (.pad n v) ∈ (validate d s).2) : m < n := by
  rw [validate_trace] at hW
  obtain ⟨hk, hw, hwr⟩ := W_mem_inv hW
  subst hk
  have hkey := imp_of_bool (tbl_put_needs_key_match d.client d.kind (obsOfAns d (seqAns d s))) hw
  simp only [Bool.and_eq_true] at hkey
  have hparse := hkey.2
  rw [obs_parse] at hparse
  obtain ⟨o, hc⟩ : ∃ o, d.content = .pad o n v := by
    rcases hwr with ⟨_, h⟩ | ⟨_, h⟩ <;> exact written_pad h.symm
  have hfam : kindFam d.kind = 1 := by
    have := parse_fam hparse
    rw [hc] at this
    simpa [contentFam] using this.symm
  have hp := imp_of_bool (tbl_pad_put d.client d.kind (obsOfAns d (seqAns d s)))
    (and2 hw (by rw [hfam]; rfl))
  obtain ⟨_, hobs⟩ := obs_pad (a := seqAns d s) hc
  obtain ⟨hl, hcA⟩ := hobs m vm (by rw [seq_g, hheld])
  have e : padRejectsEqualCounter = true := by decide
  simp only [hl, hcA, e, if_true, Bool.true_and, Bool.and_eq_true, Bool.not_eq_eq_eq_not,
    Bool.not_true, decide_eq_false_iff_not] at hp
  omega

/-- **A stored scratchpad always carries a valid owner signature and sits under its owner's key.** -/
theorem stored_scratchpad_valid (d : Delivery) (s : Store) (k n : Nat) (v : Bool)
    (hW : Tok.W k (.pad n v) ∈ (validate d s).2) :
    v = true ∧ ∃ o, d.content = .pad o n true ∧ k = 3 * o + 1 ∧ k = d.rk := by
  rw [validate_trace] at hW
  obtain ⟨hk, hw, hwr⟩ := W_mem_inv hW
  have hkey := imp_of_bool (tbl_put_needs_key_match d.client d.kind (obsOfAns d (seqAns d s))) hw
  simp only [Bool.and_eq_true] at hkey
  have hparse := hkey.2
  rw [obs_parse] at hparse
  obtain ⟨o, hc⟩ : ∃ o, d.content = .pad o n v := by
    rcases hwr with ⟨_, h⟩ | ⟨_, h⟩ <;> exact written_pad h.symm
  have hfam : kindFam d.kind = 1 := by
    have := parse_fam hparse
    rw [hc] at this
    simpa [contentFam] using this.symm
  have hp := imp_of_bool (tbl_pad_put d.client d.kind (obsOfAns d (seqAns d s)))
    (and2 hw (by rw [hfam]; rfl))
  have hcB := (obs_pad (a := seqAns d s) hc).1
  simp only [Bool.and_eq_true] at hp
  have hv : v = true := by rw [← hcB]; exact hp.1.2
  subst hv
  have hnv : ¬ (d.client = false ∧ d.kind = .tx) := by
    rintro ⟨_, hk2⟩; rw [hk2] at hfam; simp [kindFam] at hfam
  have hkm : (obsOfAns d (seqAns d s)).km = true := by
    rcases Bool.or_eq_true _ _ |>.mp hkey.1 with h1 | h1
    · exact h1
    · simp only [Bool.and_eq_true, Bool.not_eq_eq_eq_not, Bool.not_true, beq_iff_eq] at h1
      exact absurd h1 hnv
  obtain ⟨hd, hr⟩ := km_true_key hkm hnv
  refine ⟨rfl, o, hc, ?_, by rw [hk, hr]⟩
  rw [hc] at hd
  simp [derivedKey] at hd
  rw [hk, hr, hd]

/-! ## Sets (sequential) -/

theorem mem_insertSorted (x y : Nat) (l : List Nat) : y ∈ insertSorted x l ↔ y = x ∨ y ∈ l := by
  induction l with
  | nil => simp [insertSorted]
  | cons z zs ih =>
    unfold insertSorted
    split
    · simp
    · split
      · rename_i h; subst h; simp
      · simp [ih]; constructor
        · rintro (h | h | h) <;> simp [h]
        · rintro (h | h | h) <;> simp [h]

theorem mem_foldl_insert (a acc : List Nat) (y : Nat) :
    y ∈ a.foldl (fun acc x => insertSorted x acc) acc ↔ y ∈ a ∨ y ∈ acc := by
  induction a generalizing acc with
  | nil => simp
  | cons x xs ih =>
    simp only [List.foldl_cons, ih, mem_insertSorted, List.mem_cons]
    constructor
    · rintro (h | h | h) <;> simp [h]
    · rintro ((h | h) | h) <;> simp [h]

/-- `union` is set union (order and duplication of the arguments do not matter) -/
theorem mem_union (a b : List Nat) (y : Nat) : y ∈ union a b ↔ y ∈ a ∨ y ∈ b := by
  unfold union
  rw [mem_foldl_insert, mem_foldl_insert]
  simp

/-- ids of the local transaction set at `k` -/
def localTxs (s : Store) (k : Nat) : List Nat :=
  match s.get k with
  | some (.txs l) => l
  | _ => []

/-- **A stored transaction set only grows: it is the union of the local set and the validly signed
delivered transactions for that key** (membership, hence independent of order and duplication). -/
theorem transactions_grow (d : Delivery) (s : Store) (k : Nat) (l' : List Nat)
    (hW : Tok.W k (.txs l') ∈ (validate d s).2) :
    ∀ x, x ∈ l' ↔ (x ∈ localTxs s k ∨ x ∈ (txValid d).map (·.t)) := by
  rw [validate_trace] at hW
  obtain ⟨hk, _, hwr⟩ := W_mem_inv hW
  subst hk
  have hl : l' = union ((txValid d).map (·.t))
      (match (seqAns d s).g.getD none with | some (.txs l) => if txMergesLocal then l else [] | _ => []) := by
    rcases hwr with ⟨_, h⟩ | ⟨_, h⟩ <;> exact written_txs h.symm
  intro x
  have e : txMergesLocal = true := by decide
  rw [hl, mem_union, seq_g]
  simp only [Option.getD_some, e, if_true, localTxs]
  constructor
  · rintro (h | h)
    · exact Or.inr h
    · exact Or.inl h
  · rintro (h | h)
    · exact Or.inr h
    · exact Or.inl h

/-- **Entries with invalid signatures or belonging to another address are never stored**: every member of a
stored transaction set was already held or is a delivered transaction that verifies and whose owner key is
the key it is stored under. -/
theorem invalid_or_foreign_never_stored (d : Delivery) (s : Store) (k : Nat) (l' : List Nat)
    (hW : Tok.W k (.txs l') ∈ (validate d s).2) :
    ∀ x ∈ l', x ∈ localTxs s k ∨
      ∃ l t, d.content = .txs l ∧ t ∈ l ∧ t.valid = true ∧ 3 * t.owner + 1 = k ∧ t.t = x := by
  intro x hx
  have hk : k = rwKey d := by
    rw [validate_trace] at hW
    exact (W_mem_inv hW).1
  rcases (transactions_grow d s k l' hW x).mp hx with h | h
  · exact Or.inl h
  · right
    rw [List.mem_map] at h
    obtain ⟨t, ht, rfl⟩ := h
    simp only [txValid, txForKey, txFiltersInvalid, txFiltersForeign, if_true] at ht
    cases hc : d.content <;> simp only [hc] at ht
    all_goals simp at ht
    rename_i l
    refine ⟨l, t, rfl, ?_, ht.2.1, by rw [hk]; exact ht.2.2, rfl⟩
    have := ht.1
    split at this
    · exact List.mem_of_mem_take this
    · exact this

/-- ops of the delivered register -/
def deliveredOps : DContent → List Nat
  | .reg _ _ ops => ops.map (·.id)
  | _ => []

/-- **A stored register only grows** (union of the local ops and the delivered ops, same base register), **and
only a register whose base signature and every op verify is ever stored.** -/
theorem register_grows (d : Delivery) (s : Store) (k : Nat) (alt alt' : Bool) (l l' : List Nat)
    (hheld : s.get k = some (.reg alt l))
    (hW : Tok.W k (.reg alt' l') ∈ (validate d s).2) :
    alt' = alt ∧ (∀ x, x ∈ l' ↔ (x ∈ l ∨ x ∈ deliveredOps d.content)) ∧
    ∃ id b ops, d.content = .reg id b ops ∧ b ≠ .bad ∧ ∀ o ∈ ops, opValid (regAlt b) o.cls = true := by
  rw [validate_trace] at hW
  obtain ⟨hk, hw, hwr⟩ := W_mem_inv hW
  subst hk
  have hkey := imp_of_bool (tbl_put_needs_key_match d.client d.kind (obsOfAns d (seqAns d s))) hw
  simp only [Bool.and_eq_true] at hkey
  have hparse := hkey.2
  rw [obs_parse] at hparse
  -- the delivered content is a register
  have hreg : ∃ id b ops, d.content = .reg id b ops := by
    have hh := imp_of_bool (tbl_put_over_held_same_kind d.client d.kind (obsOfAns d (seqAns d s)))
      (and2 hw (held_seq hheld))
    simp only [Bool.and_eq_true] at hh
    rcases lOk_same_kind (by rw [seq_g, hheld]) hh.2 with ⟨_, _, _, _, _, _, h⟩ | ⟨_, _, _, h⟩ | ⟨id, b, ops, _, _, h, _⟩
    · cases h
    · cases h
    · exact ⟨id, b, ops, h⟩
  obtain ⟨id, b, ops, hc⟩ := hreg
  have hfam : kindFam d.kind = 3 := by
    have := parse_fam hparse
    rw [hc] at this
    simpa [contentFam] using this.symm
  have hp := imp_of_bool (tbl_reg_put d.client d.kind (obsOfAns d (seqAns d s)))
    (and2 hw (by rw [hfam]; rfl))
  have hh2 : (obsOfAns d (seqAns d s)).h2 = true := by rw [obs_h2_seq, hheld]; rfl
  simp only [hh2, if_true, Bool.and_eq_true, Bool.not_eq_eq_eq_not, Bool.not_true] at hp
  obtain ⟨hcA, ⟨⟨⟨⟨_, _⟩, _⟩, hWm⟩, hWd⟩⟩ := hp
  have hwritten : Content.reg alt' l' = written d (seqAns d s) true := by
    rcases hwr with ⟨h, _⟩ | ⟨_, h⟩
    · have : (tr d.client d.kind (obsOfAns d (seqAns d s))).contains Tk.Wd = true := by
        simpa using h
      rw [this] at hWd; cases hWd
    · exact h
  have hw2 : written d (seqAns d s) true = .reg alt (union (ops.map (·.id)) l) := by
    simp [written, hc, seq_g, hheld]
  rw [hw2] at hwritten
  injection hwritten with ha hl
  subst ha hl
  refine ⟨rfl, ?_, id, b, ops, hc, ?_⟩
  · intro x
    rw [mem_union, hc]
    simp only [deliveredOps]
    constructor
    · rintro (h | h)
      · exact Or.inr h
      · exact Or.inl h
    · rintro (h | h)
      · exact Or.inr h
      · exact Or.inl h
  · have e : regVerifies = true := by decide
    have hA : (obsOfAns d (seqAns d s)).cA = (decide (b ≠ .bad) && ops.all (fun o => opValid (regAlt b) o.cls)) := by
      obtain ⟨client, kind, rk, content, pay⟩ := d
      simp only at hc
      subst hc
      rfl
    rw [hA] at hcA
    simp only [Bool.and_eq_true, decide_eq_true_eq, List.all_eq_true] at hcA
    exact hcA

/-! ## Serial histories: the `_partial` theorems (hypothesis: per-key serialisation) -/

theorem get_put_same (s : Store) (k : Nat) (c : Content) : (s.put k c).get k = some c := by
  induction s with
  | nil => simp [Store.put, Store.get]
  | cons e rest ih =>
    obtain ⟨k', c'⟩ := e
    unfold Store.put
    split
    · simp [Store.get]
    · rename_i h; simp [Store.get, h, ih]

theorem get_put_ne (s : Store) (k k' : Nat) (c : Content) (h : k' ≠ k) : (s.put k' c).get k = s.get k := by
  induction s with
  | nil => simp [Store.put, Store.get, h]
  | cons e rest ih =>
    obtain ⟨k2, c2⟩ := e
    unfold Store.put
    split
    · rename_i h2; subst h2; simp [Store.get, h]
    · simp [Store.get, ih]

/-- after applying a trace, a key holds what it held before or the content of some put for it in the trace -/
theorem applyToks_get (toks : List Tok) (s : Store) (k : Nat) :
    (applyToks s toks).get k = s.get k ∨ ∃ c, Tok.W k c ∈ toks ∧ (applyToks s toks).get k = some c := by
  induction toks generalizing s with
  | nil => exact Or.inl rfl
  | cons t rest ih =>
    cases t with
    | W k' c' =>
      simp only [applyToks]
      rcases ih (s.put k' c') with h | ⟨c, hm, hg⟩
      · by_cases hk : k' = k
        · subst hk
          right
          exact ⟨c', by simp, by rw [h, get_put_same]⟩
        · left; rw [h, get_put_ne _ _ _ _ hk]
      · right; exact ⟨c, by simp [hm], hg⟩
    | H _ | G _ | K | V | P _ | F _ _ | R _ _ =>
      simp only [applyToks]
      rcases ih s with h | ⟨c, hm, hg⟩
      · exact Or.inl h
      · exact Or.inr ⟨c, by simp [hm], hg⟩

/-- a put over a held scratchpad is a valid scratchpad with a strictly higher counter -/
theorem put_over_pad (d : Delivery) (s : Store) (k m : Nat) (vm : Bool) (c : Content)
    (hheld : s.get k = some (.pad m vm)) (hW : Tok.W k c ∈ (validate d s).2) :
    ∃ n, c = .pad n true ∧ m < n := by
  have hW' := hW
  rw [validate_trace] at hW
  obtain ⟨hk, hw, hwr⟩ := W_mem_inv hW
  subst hk
  have hh := imp_of_bool (tbl_put_over_held_same_kind d.client d.kind (obsOfAns d (seqAns d s)))
    (and2 hw (held_seq hheld))
  simp only [Bool.and_eq_true] at hh
  rcases lOk_same_kind (by rw [seq_g, hheld]) hh.2 with ⟨o, n, v, _, _, hc, _⟩ | ⟨_, _, _, h⟩ | ⟨_, _, _, _, _, _, h⟩
  · have hcw : c = .pad n v := by
      rcases hwr with ⟨_, h⟩ | ⟨_, h⟩ <;> simp [h, written, hc]
    subst hcw
    have hv := (stored_scratchpad_valid d s _ n v hW').1
    subst hv
    exact ⟨n, rfl, scratchpad_counter_strictly_increases d s _ n m true vm hheld hW'⟩
  · cases h
  · cases h

/-- one delivery processed alone never lowers a stored scratchpad counter and keeps it validly signed -/
theorem deliverSeq_monotone (d : Delivery) (s : Store) (k m : Nat)
    (hheld : s.get k = some (.pad m true)) :
    ∃ m', m ≤ m' ∧ (deliverSeq s d).get k = some (.pad m' true) := by
  unfold deliverSeq
  rcases applyToks_get (validate d s).2 s k with h | ⟨c, hm, hg⟩
  · exact ⟨m, Nat.le_refl _, by rw [h, hheld]⟩
  · obtain ⟨n, rfl, hlt⟩ := put_over_pad d s k m true c hheld hm
    exact ⟨n, Nat.le_of_lt hlt, hg⟩

/-- **Under per-key serialisation a stored scratchpad never regresses and stays validly signed**, for any
sequence of paid uploads, unpaid updates and replicated copies of any kinds. -/
theorem serial_scratchpad_never_regresses_partial (ds : List Delivery) (s : Store) (k m : Nat)
    (hheld : s.get k = some (.pad m true)) :
    ∃ m', m ≤ m' ∧ (runSerial s ds).get k = some (.pad m' true) := by
  induction ds generalizing s m with
  | nil => exact ⟨m, Nat.le_refl _, hheld⟩
  | cons d rest ih =>
    obtain ⟨m1, h1, hg1⟩ := deliverSeq_monotone d s k m hheld
    obtain ⟨m2, h2, hg2⟩ := ih (deliverSeq s d) m1 hg1
    exact ⟨m2, Nat.le_trans h1 h2, hg2⟩

/-- a replicated validly signed scratchpad for its own key, processed alone, is reflected: afterwards the
store holds a validly signed version with a counter at least as high -/
theorem replicated_valid_pad_applied (s : Store) (o n : Nat) (m : Nat)
    (hheld : s.get (3 * o + 1) = some (.pad m true)) :
    ∃ m', n ≤ m' ∧ m ≤ m' ∧
      (deliverSeq s ⟨false, .pad, 3 * o + 1, .pad o n true, none⟩).get (3 * o + 1) = some (.pad m' true) := by
  have e1 : padRejectsEqualCounter = true := by decide
  have e2 : padChecksSignature = true := by decide
  have e3 : padChecksKey = true := by decide
  by_cases h : n ≤ m
  · refine ⟨m, h, Nat.le_refl _, ?_⟩
    simp [deliverSeq, validate, seqAns, rwKey, route, replRoute, derivedKey, hheld, obsOfAns, parseOk,
      contentFam, kindFam, isPaid, skel, storePad, rej, Out.trace, e1, e2, e3, h, applyToks, inst]
  · refine ⟨n, Nat.le_refl _, by omega, ?_⟩
    simp [deliverSeq, validate, seqAns, rwKey, route, replRoute, derivedKey, hheld, obsOfAns, parseOk,
      contentFam, kindFam, isPaid, skel, storePad, rej, Out.trace, e1, e2, e3, h, applyToks, inst,
      written, get_put_same]

/-- **Under per-key serialisation the stored scratchpad is validly signed and carries a counter at least as
high as every validly signed version delivered by replication for that key** (and at least the initial one). -/
theorem stored_scratchpad_valid_and_max (ds : List Delivery) (s : Store) (o m : Nat)
    (hheld : s.get (3 * o + 1) = some (.pad m true)) :
    ∃ M, (runSerial s ds).get (3 * o + 1) = some (.pad M true) ∧ m ≤ M ∧
      ∀ n, (⟨false, .pad, 3 * o + 1, .pad o n true, none⟩ : Delivery) ∈ ds → n ≤ M := by
  induction ds generalizing s m with
  | nil => exact ⟨m, hheld, Nat.le_refl _, by simp⟩
  | cons d rest ih =>
    obtain ⟨m1, h1, hg1⟩ := deliverSeq_monotone d s _ m hheld
    obtain ⟨M, hM, hle, hall⟩ := ih (deliverSeq s d) m1 hg1
    refine ⟨M, hM, Nat.le_trans h1 hle, ?_⟩
    intro n hn
    rcases List.mem_cons.mp hn with rfl | hn
    · obtain ⟨m', hn', _, hg'⟩ := replicated_valid_pad_applied s o n m hheld
      rw [hg1] at hg'
      injection hg' with hg'
      injection hg' with hg' _
      omega
    · exact hall n hn

/-- a put over a held transaction set is a transaction set containing it -/
theorem put_over_txs (d : Delivery) (s : Store) (k : Nat) (l : List Nat) (c : Content)
    (hheld : s.get k = some (.txs l)) (hW : Tok.W k c ∈ (validate d s).2) :
    ∃ l', c = .txs l' ∧ ∀ x ∈ l, x ∈ l' := by
  have hW' := hW
  rw [validate_trace] at hW
  obtain ⟨hk, hw, hwr⟩ := W_mem_inv hW
  subst hk
  have hh := imp_of_bool (tbl_put_over_held_same_kind d.client d.kind (obsOfAns d (seqAns d s)))
    (and2 hw (held_seq hheld))
  simp only [Bool.and_eq_true] at hh
  rcases lOk_same_kind (by rw [seq_g, hheld]) hh.2 with ⟨_, _, _, _, _, _, h⟩ | ⟨lt, _, hc, _⟩ | ⟨_, _, _, _, _, _, h⟩
  · cases h
  · have hcw : ∃ l', c = .txs l' := by
      rcases hwr with ⟨_, h⟩ | ⟨_, h⟩ <;> (rw [h]; simp only [written, hc]; exact ⟨_, rfl⟩)
    obtain ⟨l', rfl⟩ := hcw
    refine ⟨l', rfl, ?_⟩
    intro x hx
    exact (transactions_grow d s _ l' hW' x).mpr (Or.inl (by simp [localTxs, hheld, hx]))
  · cases h

theorem deliverSeq_txs_monotone (d : Delivery) (s : Store) (k : Nat) (l : List Nat)
    (hheld : s.get k = some (.txs l)) :
    ∃ l', (deliverSeq s d).get k = some (.txs l') ∧ ∀ x ∈ l, x ∈ l' := by
  unfold deliverSeq
  rcases applyToks_get (validate d s).2 s k with h | ⟨c, hm, hg⟩
  · exact ⟨l, by rw [h, hheld], fun x hx => hx⟩
  · obtain ⟨l', rfl, hsub⟩ := put_over_txs d s k l c hheld hm
    exact ⟨l', hg, hsub⟩

/-- **Under per-key serialisation a stored transaction is never lost**, whatever else is delivered. -/
theorem serial_transactions_never_lost_partial (ds : List Delivery) (s : Store) (k : Nat) (l : List Nat)
    (hheld : s.get k = some (.txs l)) :
    ∃ l', (runSerial s ds).get k = some (.txs l') ∧ ∀ x ∈ l, x ∈ l' := by
  induction ds generalizing s l with
  | nil => exact ⟨l, hheld, fun x hx => hx⟩
  | cons d rest ih =>
    obtain ⟨l1, hg1, h1⟩ := deliverSeq_txs_monotone d s k l hheld
    obtain ⟨l2, hg2, h2⟩ := ih (deliverSeq s d) l1 hg1
    exact ⟨l2, hg2, fun x hx => h2 x (h1 x hx)⟩

/-- 0 chunk, 1 scratchpad, 2 transaction set, 3 register -/
def fam : Content → Nat
  | .chunk => 0
  | .pad .. => 1
  | .txs _ => 2
  | .reg .. => 3

/-- **A held record is never replaced by a record of another kind** — in particular a held scratchpad is
never overwritten by the transaction set of the same owner (they share the key `H(owner)`), nor a held
transaction set by a scratchpad. -/
theorem cross_kind_never_overwrites (d : Delivery) (s : Store) (k : Nat) (c0 c : Content)
    (hheld : s.get k = some c0) (hW : Tok.W k c ∈ (validate d s).2) : fam c = fam c0 := by
  rw [validate_trace] at hW
  obtain ⟨hk, hw, hwr⟩ := W_mem_inv hW
  subst hk
  have hh := imp_of_bool (tbl_put_over_held_same_kind d.client d.kind (obsOfAns d (seqAns d s)))
    (and2 hw (held_seq hheld))
  simp only [Bool.and_eq_true] at hh
  rcases lOk_same_kind (by rw [seq_g, hheld]) hh.2 with
    ⟨o, n, v, m, vm, hc, rfl⟩ | ⟨lt, l0, hc, rfl⟩ | ⟨id, b, ops, alt, l0, hc, rfl⟩
  · rcases hwr with ⟨_, h⟩ | ⟨_, h⟩ <;> simp [h, written, hc, fam]
  · rcases hwr with ⟨_, h⟩ | ⟨_, h⟩ <;> simp [h, written, hc, fam]
  · rcases hwr with ⟨_, h⟩ | ⟨_, h⟩ <;> simp [h, written, hc, fam, seq_g, hheld]

theorem deliverSeq_kind_preserved (d : Delivery) (s : Store) (k : Nat) (c0 : Content)
    (hheld : s.get k = some c0) : ∃ c, (deliverSeq s d).get k = some c ∧ fam c = fam c0 := by
  unfold deliverSeq
  rcases applyToks_get (validate d s).2 s k with h | ⟨c, hm, hg⟩
  · exact ⟨c0, by rw [h, hheld], rfl⟩
  · exact ⟨c, hg, cross_kind_never_overwrites d s k c0 c hheld hm⟩

/-- **Under per-key serialisation whatever is held under a key keeps its kind**, for any sequence of
deliveries of any kinds on any path. -/
theorem serial_kind_preserved_partial (ds : List Delivery) (s : Store) (k : Nat) (c0 : Content)
    (hheld : s.get k = some c0) : ∃ c, (runSerial s ds).get k = some c ∧ fam c = fam c0 := by
  induction ds generalizing s c0 with
  | nil => exact ⟨c0, hheld, rfl⟩
  | cons d rest ih =>
    obtain ⟨c1, hg1, h1⟩ := deliverSeq_kind_preserved d s k c0 hheld
    obtain ⟨c2, hg2, h2⟩ := ih (deliverSeq s d) c1 hg1
    exact ⟨c2, hg2, by rw [h2, h1]⟩

/-- a replicated transaction vector presented under key `k` -/
def txVec (k : Nat) (l : List TxD) : Delivery := ⟨false, .tx, k, .txs l, none⟩

/-- the validly signed entries of a vector that are for key `k` -/
def validFor (k : Nat) (l : List TxD) : List Nat :=
  ((l.filter (fun t => 3 * t.owner + 1 == k)).filter (·.valid)).map (·.t)

theorem txValid_txVec (k : Nat) (l : List TxD) : (txValid (txVec k l)).map (·.t) = validFor k l := by
  simp [txValid, txForKey, txVec, validFor, rwKey, route, replRoute, txFiltersInvalid, txFiltersForeign]

theorem replicated_txs_applied (s : Store) (k : Nat) (l : List TxD) (l0 : List Nat)
    (hheld : s.get k = some (.txs l0)) :
    ∃ l1, (deliverSeq s (txVec k l)).get k = some (.txs l1) ∧
      ∀ x, x ∈ l1 ↔ (x ∈ l0 ∨ x ∈ validFor k l) := by
  have e1 : txFiltersInvalid = true := by decide
  have e2 : txFiltersForeign = true := by decide
  have e3 : txMergesLocal = true := by decide
  by_cases hv : ((l.filter (fun t => 3 * t.owner + 1 == k)).filter (·.valid)) = []
  · refine ⟨l0, ?_, ?_⟩
    · by_cases hf : (l.filter (fun t => 3 * t.owner + 1 == k)) = []
      · simp [deliverSeq, validate, seqAns, txVec, rwKey, route, replRoute, hheld, obsOfAns, parseOk,
          contentFam, kindFam, isPaid, skel, storeTx, rej, Out.trace, e1, e2, e3, applyToks, inst,
          txValid, txForKey, hv, hf]
      · simp [deliverSeq, validate, seqAns, txVec, rwKey, route, replRoute, hheld, obsOfAns, parseOk,
          contentFam, kindFam, isPaid, skel, storeTx, rej, Out.trace, e1, e2, e3, applyToks, inst,
          txValid, txForKey, hv, hf]
    · intro x; simp [validFor, hv]
  · have hf : (l.filter (fun t => 3 * t.owner + 1 == k)) ≠ [] := by
      intro h; rw [h] at hv; simp at hv
    have hv' : ¬ ∀ (a : TxD), a ∈ l → a.valid = true → ¬3 * a.owner + 1 = k := by
      intro h
      apply hv
      simp only [List.filter_eq_nil_iff, List.mem_filter, beq_iff_eq, and_imp]
      intro a ha hk hval
      exact h a ha hval hk
    refine ⟨union (validFor k l) l0, ?_, ?_⟩
    · simp [hv', deliverSeq, validate, seqAns, txVec, rwKey, route, replRoute, hheld, obsOfAns, parseOk,
        contentFam, kindFam, isPaid, skel, storeTx, rej, Out.trace, e1, e2, e3, applyToks, inst,
        txValid, txForKey, hv, hf, written, get_put_same, validFor]
    · intro x; rw [mem_union]; constructor <;> (rintro (h | h) <;> simp [h])


/-- **Under per-key serialisation the stored transaction set is the union of what was held and all validly
signed transactions delivered for that key** — a statement about membership only, hence independent of
delivery order and duplication. -/
theorem transactions_union_serial (vecs : List (List TxD)) (s : Store) (k : Nat) (l0 : List Nat)
    (hheld : s.get k = some (.txs l0)) :
    ∃ l1, (runSerial s (vecs.map (txVec k))).get k = some (.txs l1) ∧
      ∀ x, x ∈ l1 ↔ (x ∈ l0 ∨ ∃ l ∈ vecs, x ∈ validFor k l) := by
  induction vecs generalizing s l0 with
  | nil => exact ⟨l0, hheld, by simp⟩
  | cons v rest ih =>
    obtain ⟨l1, hg1, hm1⟩ := replicated_txs_applied s k v l0 hheld
    obtain ⟨l2, hg2, hm2⟩ := ih (deliverSeq s (txVec k v)) l1 hg1
    refine ⟨l2, hg2, ?_⟩
    intro x
    rw [hm2, hm1]
    simp only [List.mem_cons, exists_eq_or_imp]
    constructor
    · rintro ((h | h) | h)
      · exact Or.inl h
      · exact Or.inr (Or.inl h)
      · exact Or.inr (Or.inr h)
    · rintro (h | h | h)
      · exact Or.inl (Or.inl h)
      · exact Or.inl (Or.inr h)
      · exact Or.inr h

/-- two serial histories delivering the same vectors in any order, any number of times, end with the same set -/
theorem transactions_order_independent (v1 v2 : List (List TxD)) (s : Store) (k : Nat) (l0 : List Nat)
    (hheld : s.get k = some (.txs l0)) (hsame : ∀ l, l ∈ v1 ↔ l ∈ v2) :
    ∃ a b, (runSerial s (v1.map (txVec k))).get k = some (.txs a) ∧
           (runSerial s (v2.map (txVec k))).get k = some (.txs b) ∧ ∀ x, x ∈ a ↔ x ∈ b := by
  obtain ⟨a, ha, hma⟩ := transactions_union_serial v1 s k l0 hheld
  obtain ⟨b, hb, hmb⟩ := transactions_union_serial v2 s k l0 hheld
  refine ⟨a, b, ha, hb, ?_⟩
  intro x
  rw [hma, hmb]
  constructor
  · rintro (h | ⟨l, hl, hx⟩)
    · exact Or.inl h
    · exact Or.inr ⟨l, (hsame l).mp hl, hx⟩
  · rintro (h | ⟨l, hl, hx⟩)
    · exact Or.inl h
    · exact Or.inr ⟨l, (hsame l).mpr hl, hx⟩

/-! ## Concurrency: the full statement is false of the code (K-f) -/

/-- no schedule ever lowers a scratchpad counter that was stored -/
def NeverRegressesUnderAnySchedule : Prop :=
  ∀ (s : Store) (pre post : List Act) (k m : Nat),
    (World.run ⟨s, []⟩ pre).store.get k = some (.pad m true) →
    ∃ m', m ≤ m' ∧ (World.run ⟨s, []⟩ (pre ++ post)).store.get k = some (.pad m' true)

/-- no schedule ever drops a transaction that was stored -/
def NoTransactionLostUnderAnySchedule : Prop :=
  ∀ (s : Store) (pre post : List Act) (k x : Nat),
    x ∈ localTxs (World.run ⟨s, []⟩ pre).store k → x ∈ localTxs (World.run ⟨s, []⟩ (pre ++ post)).store k

def upd (n : Nat) : Delivery := ⟨false, .pad, 1, .pad 0 n true, none⟩

/-- local counter 3; updates 7 and 5 both read 3 before either writes; 5 is written last -/
def kfPre : List Act := [.begin 0 (upd 7), .begin 1 (upd 5), .ans 0, .ans 1, .run 0]
def kfPost : List Act := [.run 1]

theorem concurrent_regress_witness :
    (World.run ⟨[(1, .pad 3 true)], []⟩ kfPre).store.get 1 = some (.pad 7 true) ∧
    (World.run ⟨[(1, .pad 3 true)], []⟩ (kfPre ++ kfPost)).store.get 1 = some (.pad 5 true) := by
  decide

theorem never_regresses_is_false : ¬ NeverRegressesUnderAnySchedule := by
  intro h
  obtain ⟨m', hle, hg⟩ := h [(1, .pad 3 true)] kfPre kfPost 1 7 concurrent_regress_witness.1
  rw [concurrent_regress_witness.2] at hg
  injection hg with hg
  injection hg with hg _
  omega

def txd (t : Nat) : Delivery := ⟨false, .tx, 1, .txs [⟨0, t, true⟩], none⟩
def txPre : List Act := [.begin 0 (txd 2), .begin 1 (txd 3), .ans 0, .ans 1, .run 0]

/-- local set {1}; transactions 2 and 3 both read {1}; {1,3} is written last and 2 is lost -/
theorem concurrent_tx_loss_witness :
    (World.run ⟨[(1, .txs [1])], []⟩ txPre).store.get 1 = some (.txs [1, 2]) ∧
    (World.run ⟨[(1, .txs [1])], []⟩ (txPre ++ [.run 1])).store.get 1 = some (.txs [1, 3]) := by
  decide

theorem no_transaction_lost_is_false : ¬ NoTransactionLostUnderAnySchedule := by
  intro h
  have := h [(1, .txs [1])] txPre [.run 1] 1 2
    (by rw [localTxs, concurrent_tx_loss_witness.1]; simp)
  rw [localTxs, concurrent_tx_loss_witness.2] at this
  simp at this

/-! Non-vacuity -/
example : validate (upd 7) [(1, .pad 3 true)] = (.ok, [.G 1, .W 1 (.pad 7 true)]) := by decide
example : validate (upd 3) [(1, .pad 3 true)] = (.outdated, [.G 1]) := by decide
example : (validate ⟨false, .pad, 1, .pad 0 9 false, none⟩ [(1, .pad 3 true)]).1 = .invalidSig := by decide
example : runSerial [(1, .pad 3 true)] [upd 7, upd 5] = [(1, .pad 7 true)] := by decide
/-- a transaction replicated to a key holding the owner's scratchpad is refused, and vice versa -/
example : validate (txd 2) [(1, .pad 3 true)] = (.kindMismatch, [.G 1]) := by decide
example : validate (upd 7) [(1, .txs [1])] = (.parse, [.G 1]) := by decide
example : (validate ⟨false, .reg, 2, .reg 0 .good [⟨2, .v⟩, ⟨3, .u⟩], none⟩ [(2, .reg false [1])]).1 = .regInvalid := by decide

end SafeNet.Props.C07

#print axioms SafeNet.Props.C07.scratchpad_counter_strictly_increases
#print axioms SafeNet.Props.C07.stored_scratchpad_valid
#print axioms SafeNet.Props.C07.stored_scratchpad_valid_and_max
#print axioms SafeNet.Props.C07.tx_set_is_by_value
#print axioms SafeNet.Props.C07.transactions_grow
#print axioms SafeNet.Props.C07.transactions_union_serial
#print axioms SafeNet.Props.C07.transactions_order_independent
#print axioms SafeNet.Props.C07.register_grows
#print axioms SafeNet.Props.C07.invalid_or_foreign_never_stored
#print axioms SafeNet.Props.C07.serial_scratchpad_never_regresses_partial
#print axioms SafeNet.Props.C07.serial_transactions_never_lost_partial
#print axioms SafeNet.Props.C07.cross_kind_never_overwrites
#print axioms SafeNet.Props.C07.serial_kind_preserved_partial
#print axioms SafeNet.Props.C07.concurrent_regress_witness
#print axioms SafeNet.Props.C07.never_regresses_is_false
#print axioms SafeNet.Props.C07.concurrent_tx_loss_witness
#print axioms SafeNet.Props.C07.no_transaction_lost_is_false
