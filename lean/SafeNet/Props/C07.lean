import SafeNet.Proofs.ValidateData
import SafeNet.Proofs.ValidateStore
import SafeNet.Proofs.ValidateWorld
/-!
# C07 — mutable records never regress and hold only owner-signed content

Same model as C03/C04.  Sequential theorems are about `validate d s` / `deliverSeq` / `runSerial`
(each delivery fully processed before the next); the concurrent semantics is `World.run`, where every
read of the local store is a scheduler step (`Act.ans` serves the read from the store as it is *then*,
`Act.run` resumes the validation, whose put is applied when it is emitted).

The full-strength statement over arbitrary schedules is false of the code (K-f): two validations of one key
may both read the local copy before either writes. It is kept as `NeverRegressesUnderAnySchedule` /
`NoTransactionLostUnderAnySchedule`, refuted by witnesses, and proved under per-key serialisation
(`serial_*_partial`).
-/
namespace SafeNet.Props.C07
open SafeNet.Validate SafeNet.Gen.Validate

/-- `BTreeSet<Transaction>` is a set of whole transactions: `Transaction`'s ordering and equality are the derived
ones (read off the source); the union theorems below depend on it. -/
@[simp] theorem tx_set_is_by_value : txOrdDerived = true := by decide

/-! ## `written` and the per-kind observations -/

theorem written_pad {d : Delivery} {a : Ans} {b : Bool} {n : Nat} {v : Bool}
    (h : written d a b = .pad n v) : ∃ o, d.content = .pad o n v := by
  unfold written at h
  cases hc : d.content with
  | bad => simp [hc] at h
  | chunk id => simp [hc] at h
  | chunkPre pre => simp [hc] at h
  | pad o n' v' => simp [hc] at h; exact ⟨o, by rw [h.1, h.2]⟩
  | txs l => simp [hc] at h
  | reg id base ops =>
    simp only [hc] at h
    split at h
    · split at h <;> simp at h
    · simp at h

theorem written_txs {d : Delivery} {a : Ans} {b : Bool} {l' : List Nat}
    (h : written d a b = .txs l') :
    l' = union ((txValid d).map (·.t))
      (match a.g.getD none with | some (.txs l) => if txMergesLocal then l else [] | _ => []) := by
  unfold written at h
  cases hc : d.content with
  | bad => simp [hc] at h
  | chunk id => simp [hc] at h
  | chunkPre pre => simp [hc] at h
  | pad o n' v' => simp [hc] at h
  | txs l =>
    have e : txOrdDerived = true := by decide
    simp [hc, e] at h; exact h.symm
  | reg id base ops =>
    simp only [hc] at h
    split at h
    · split at h <;> simp at h
    · simp at h

theorem parse_fam {d : Delivery} (h : parseOk d = true) : contentFam d.content = some (kindFam d.kind) := by
  unfold parseOk at h
  simp only [Bool.and_eq_true, beq_iff_eq] at h
  exact h.1.1

theorem obs_pad {d : Delivery} {a : Ans} {o n : Nat} {v : Bool} (hc : d.content = .pad o n v) :
    (obsOfAns d a).cB = v ∧
    ∀ m vm, a.g = some (some (.pad m vm)) →
      (obsOfAns d a).lSome = true ∧
      (obsOfAns d a).cA = (if padRejectsEqualCounter then decide (n ≤ m) else decide (n < m)) := by
  obtain ⟨client, kind, rk, content, pay⟩ := d
  simp only at hc
  subst hc
  refine ⟨rfl, ?_⟩
  intro m vm hg
  simp [obsOfAns, hg]

/-- a put over a held key is of the same kind as the held content -/
theorem lOk_same_kind {d : Delivery} {a : Ans} {c0 : Content} (hg : a.g = some (some c0))
    (h : (obsOfAns d a).lOk = true) :
    (∃ o n v m vm, d.content = .pad o n v ∧ c0 = .pad m vm) ∨
    (∃ l l0, d.content = .txs l ∧ c0 = .txs l0) ∨
    (∃ id b ops alt l0, d.content = .reg id b ops ∧ c0 = .reg alt l0) := by
  obtain ⟨client, kind, rk, content, pay⟩ := d
  cases content with
  | bad => simp [obsOfAns] at h
  | chunk id => simp [obsOfAns] at h
  | chunkPre pre => simp [obsOfAns] at h
  | pad o n v =>
    cases c0 <;> simp [obsOfAns, hg] at h
    exact Or.inl ⟨o, n, v, _, _, rfl, rfl⟩
  | txs l =>
    cases c0 <;> simp [obsOfAns, hg] at h
    exact Or.inr (Or.inl ⟨l, _, rfl, rfl⟩)
  | reg id b ops =>
    cases c0 <;> simp [obsOfAns, hg] at h
    exact Or.inr (Or.inr ⟨id, b, ops, _, _, rfl, rfl⟩)

theorem seq_g (d : Delivery) (s : Store) : (seqAns d s).g = some (s.get (rwKey d)) := rfl

/-! ## Scratchpads (sequential) -/

/-- **An update is applied only if its counter is strictly higher than the stored one.** -/
theorem scratchpad_counter_strictly_increases (d : Delivery) (s : Store) (k n m : Nat) (v vm : Bool)
    (hheld : s.get k = some (.pad m vm))
    (hW : Tok.W k (.pad n v) ∈ (validate d s).2) : m < n := by
  rw [validate_trace] at hW
  obtain ⟨hk, hw, hwr⟩ := W_mem_inv hW
  subst hk
  have hkey := imp_of_bool (tbl_put_needs_key_match d.client d.kind (obsOfAns d (seqAns d s))) hw
  simp only [Bool.and_eq_true] at hkey
  have hparse := hkey.2
  rw [obs_parse] at hparse
  obtain ⟨o, hc⟩ : ∃ o, d.content = .pad o n v := by
    rcases hwr with ⟨_, h⟩ | ⟨_, h⟩ <;> exact written_pad h.symm
  have hfam : kindFam d.kind = 1 := by
    have := parse_fam hparse
    rw [hc] at this
    simpa [contentFam] using this.symm
  have hp := imp_of_bool (tbl_pad_put d.client d.kind (obsOfAns d (seqAns d s)))
    (and2 hw (by rw [hfam]; rfl))
  obtain ⟨_, hobs⟩ := obs_pad (a := seqAns d s) hc
  obtain ⟨hl, hcA⟩ := hobs m vm (by rw [seq_g, hheld])
  have e : padRejectsEqualCounter = true := by decide
  simp only [hl, hcA, e, if_true, Bool.true_and, Bool.and_eq_true, Bool.not_eq_eq_eq_not,
    Bool.not_true, decide_eq_false_iff_not] at hp
  omega

/-- **A stored scratchpad always carries a valid owner signature and sits under its owner's key.** -/
theorem stored_scratchpad_valid (d : Delivery) (s : Store) (k n : Nat) (v : Bool)
    (hW : Tok.W k (.pad n v) ∈ (validate d s).2) :
    v = true ∧ ∃ o, d.content = .pad o n true ∧ k = 3 * o + 1 ∧ k = d.rk := by
  rw [validate_trace] at hW
  obtain ⟨hk, hw, hwr⟩ := W_mem_inv hW
  have hkey := imp_of_bool (tbl_put_needs_key_match d.client d.kind (obsOfAns d (seqAns d s))) hw
  simp only [Bool.and_eq_true] at hkey
  have hparse := hkey.2
  rw [obs_parse] at hparse
  obtain ⟨o, hc⟩ : ∃ o, d.content = .pad o n v := by
    rcases hwr with ⟨_, h⟩ | ⟨_, h⟩ <;> exact written_pad h.symm
  have hfam : kindFam d.kind = 1 := by
    have := parse_fam hparse
    rw [hc] at this
    simpa [contentFam] using this.symm
  have hp := imp_of_bool (tbl_pad_put d.client d.kind (obsOfAns d (seqAns d s)))
    (and2 hw (by rw [hfam]; rfl))
  have hcB := (obs_pad (a := seqAns d s) hc).1
  simp only [Bool.and_eq_true] at hp
  have hv : v = true := by rw [← hcB]; exact hp.1.2
  subst hv
  have hnv : ¬ (d.client = false ∧ d.kind = .tx) := by
    rintro ⟨_, hk2⟩; rw [hk2] at hfam; simp [kindFam] at hfam
  have hkm : (obsOfAns d (seqAns d s)).km = true := by
    rcases Bool.or_eq_true _ _ |>.mp hkey.1 with h1 | h1
    · exact h1
    · simp only [Bool.and_eq_true, Bool.not_eq_eq_eq_not, Bool.not_true, beq_iff_eq] at h1
      exact absurd h1 hnv
  obtain ⟨hd, hr⟩ := km_true_key hkm hnv
  refine ⟨rfl, o, hc, ?_, by rw [hk, hr]⟩
  rw [hc] at hd
  simp [derivedKey] at hd
  rw [hk, hr, hd]

/-! ## Sets (sequential) -/

theorem mem_insertSorted (x y : Nat) (l : List Nat) : y ∈ insertSorted x l ↔ y = x ∨ y ∈ l := by
  induction l with
  | nil => simp [insertSorted]
  | cons z zs ih =>
    unfold insertSorted
    split
    · simp
    · split
      · rename_i h; subst h; simp
      · simp [ih]; constructor
        · rintro (h | h | h) <;> simp [h]
        · rintro (h | h | h) <;> simp [h]

theorem mem_foldl_insert (a acc : List Nat) (y : Nat) :
    y ∈ a.foldl (fun acc x => insertSorted x acc) acc ↔ y ∈ a ∨ y ∈ acc := by
  induction a generalizing acc with
  | nil => simp
  | cons x xs ih =>
    simp only [List.foldl_cons, ih, mem_insertSorted, List.mem_cons]
    constructor
    · rintro (h | h | h) <;> simp [h]
    · rintro ((h | h) | h) <;> simp [h]

/-- `union` is set union (order and duplication of the arguments do not matter) -/
theorem mem_union (a b : List Nat) (y : Nat) : y ∈ union a b ↔ y ∈ a ∨ y ∈ b := by
  unfold union
  rw [mem_foldl_insert, mem_foldl_insert]
  simp

/-- ids of the local transaction set at `k` -/
def localTxs (s : Store) (k : Nat) : List Nat :=
  match s.get k with
  | some (.txs l) => l
  | _ => []

/-- **A stored transaction set only grows: it is the union of the local set and the validly signed
delivered transactions for that key** (membership, hence independent of order and duplication). -/
theorem transactions_grow (d : Delivery) (s : Store) (k : Nat) (l' : List Nat)
    (hW : Tok.W k (.txs l') ∈ (validate d s).2) :
    ∀ x, x ∈ l' ↔ (x ∈ localTxs s k ∨ x ∈ (txValid d).map (·.t)) := by
  rw [validate_trace] at hW
  obtain ⟨hk, _, hwr⟩ := W_mem_inv hW
  subst hk
  have hl : l' = union ((txValid d).map (·.t))
      (match (seqAns d s).g.getD none with | some (.txs l) => if txMergesLocal then l else [] | _ => []) := by
    rcases hwr with ⟨_, h⟩ | ⟨_, h⟩ <;> exact written_txs h.symm
  intro x
  have e : txMergesLocal = true := by decide
  rw [hl, mem_union, seq_g]
  simp only [Option.getD_some, e, if_true, localTxs]
  constructor
  · rintro (h | h)
    · exact Or.inr h
    · exact Or.inl h
  · rintro (h | h)
    · exact Or.inr h
    · exact Or.inl h

/-- **Entries with invalid signatures or belonging to another address are never stored**: every member of a
stored transaction set was already held or is a delivered transaction that verifies and whose owner key is
the key it is stored under. -/
theorem invalid_or_foreign_never_stored (d : Delivery) (s : Store) (k : Nat) (l' : List Nat)
    (hW : Tok.W k (.txs l') ∈ (validate d s).2) :
    ∀ x ∈ l', x ∈ localTxs s k ∨
      ∃ l t, d.content = .txs l ∧ t ∈ l ∧ t.valid = true ∧ 3 * t.owner + 1 = k ∧ t.t = x := by
  intro x hx
  have hk : k = rwKey d := by
    rw [validate_trace] at hW
    exact (W_mem_inv hW).1
  rcases (transactions_grow d s k l' hW x).mp hx with h | h
  · exact Or.inl h
  · right
    rw [List.mem_map] at h
    obtain ⟨t, ht, rfl⟩ := h
    simp only [txValid, txForKey, txFiltersInvalid, txFiltersForeign, if_true] at ht
    cases hc : d.content <;> simp only [hc] at ht
    all_goals simp at ht
    rename_i l
    refine ⟨l, t, rfl, ?_, ht.2.1, by rw [hk]; exact ht.2.2, rfl⟩
    have := ht.1
    split at this
    · exact List.mem_of_mem_take this
    · exact this

/-- ops of the delivered register -/
def deliveredOps : DContent → List Nat
  | .reg _ _ ops => ops.map (·.id)
  | _ => []

/-- **A stored register only grows** (union of the local ops and the delivered ops, same base register), **and
only a register whose base signature and every op verify is ever stored.** -/
theorem register_grows (d : Delivery) (s : Store) (k : Nat) (alt alt' : Bool) (l l' : List Nat)
    (hheld : s.get k = some (.reg alt l))
    (hW : Tok.W k (.reg alt' l') ∈ (validate d s).2) :
    alt' = alt ∧ (∀ x, x ∈ l' ↔ (x ∈ l ∨ x ∈ deliveredOps d.content)) ∧
    ∃ id b ops, d.content = .reg id b ops ∧ b ≠ .bad ∧ ∀ o ∈ ops, opValid (regAlt b) o.cls = true := by
  rw [validate_trace] at hW
  obtain ⟨hk, hw, hwr⟩ := W_mem_inv hW
  subst hk
  have hkey := imp_of_bool (tbl_put_needs_key_match d.client d.kind (obsOfAns d (seqAns d s))) hw
  simp only [Bool.and_eq_true] at hkey
  have hparse := hkey.2
  rw [obs_parse] at hparse
  -- the delivered content is a register
  have hreg : ∃ id b ops, d.content = .reg id b ops := by
    have hh := imp_of_bool (tbl_put_over_held_same_kind d.client d.kind (obsOfAns d (seqAns d s)))
      (and2 hw (held_seq hheld))
    simp only [Bool.and_eq_true] at hh
    rcases lOk_same_kind (by rw [seq_g, hheld]) hh.2 with ⟨_, _, _, _, _, _, h⟩ | ⟨_, _, _, h⟩ | ⟨id, b, ops, _, _, h, _⟩
    · cases h
    · cases h
    · exact ⟨id, b, ops, h⟩
  obtain ⟨id, b, ops, hc⟩ := hreg
  have hfam : kindFam d.kind = 3 := by
    have := parse_fam hparse
    rw [hc] at this
    simpa [contentFam] using this.symm
  have hp := imp_of_bool (tbl_reg_put d.client d.kind (obsOfAns d (seqAns d s)))
    (and2 hw (by rw [hfam]; rfl))
  have hh2 : (obsOfAns d (seqAns d s)).h2 = true := by rw [obs_h2_seq, hheld]; rfl
  simp only [hh2, if_true, Bool.and_eq_true, Bool.not_eq_eq_eq_not, Bool.not_true] at hp
  obtain ⟨hcA, ⟨⟨⟨⟨_, _⟩, _⟩, hWm⟩, hWd⟩⟩ := hp
  have hwritten : Content.reg alt' l' = written d (seqAns d s) true := by
    rcases hwr with ⟨h, _⟩ | ⟨_, h⟩
    · have : (tr d.client d.kind (obsOfAns d (seqAns d s))).contains Tk.Wd = true := by
        simpa using h
      rw [this] at hWd; cases hWd
    · exact h
  have hw2 : written d (seqAns d s) true = .reg alt (union (ops.map (·.id)) l) := by
    simp [written, hc, seq_g, hheld]
  rw [hw2] at hwritten
  injection hwritten with ha hl
  subst ha hl
  refine ⟨rfl, ?_, id, b, ops, hc, ?_⟩
  · intro x
    rw [mem_union, hc]
    simp only [deliveredOps]
    constructor
    · rintro (h | h)
      · exact Or.inr h
      · exact Or.inl h
    · rintro (h | h)
      · exact Or.inr h
      · exact Or.inl h
  · have e : regVerifies = true := by decide
    have hA : (obsOfAns d (seqAns d s)).cA = (decide (b ≠ .bad) && ops.all (fun o => opValid (regAlt b) o.cls)) := by
      obtain ⟨client, kind, rk, content, pay⟩ := d
      simp only at hc
      subst hc
      rfl
    rw [hA] at hcA
    simp only [Bool.and_eq_true, decide_eq_true_eq, List.all_eq_true] at hcA
    exact hcA

/-! ## Serial histories: the `_partial` theorems (hypothesis: per-key serialisation) -/

theorem get_put_same (s : Store) (k : Nat) (c : Content) : (s.put k c).get k = some c :=
  ValidateStore.get_put_same s k c

theorem get_put_ne (s : Store) (k k' : Nat) (c : Content) (h : k' ≠ k) : (s.put k' c).get k = s.get k :=
  ValidateStore.get_put_ne s k k' c h

/-- after applying a trace, a key holds what it held before or the content of some put for it in the trace -/
theorem applyToks_get (toks : List Tok) (s : Store) (k : Nat) :
    (applyToks s toks).get k = s.get k ∨ ∃ c, Tok.W k c ∈ toks ∧ (applyToks s toks).get k = some c := by
  induction toks generalizing s with
  | nil => exact Or.inl rfl
  | cons t rest ih =>
    cases t with
    | W k' c' =>
      simp only [applyToks]
      rcases ih (s.put k' c') with h | ⟨c, hm, hg⟩
      · by_cases hk : k' = k
        · subst hk
          right
          exact ⟨c', by simp, by rw [h, get_put_same]⟩
        · left; rw [h, get_put_ne _ _ _ _ hk]
      · right; exact ⟨c, by simp [hm], hg⟩
    | H _ | G _ | K | V | P _ | F _ _ | R _ _ =>
      simp only [applyToks]
      rcases ih s with h | ⟨c, hm, hg⟩
      · exact Or.inl h
      · exact Or.inr ⟨c, by simp [hm], hg⟩

/-- a put over a held scratchpad is a valid scratchpad with a strictly higher counter -/
theorem put_over_pad (d : Delivery) (s : Store) (k m : Nat) (vm : Bool) (c : Content)
    (hheld : s.get k = some (.pad m vm)) (hW : Tok.W k c ∈ (validate d s).2) :
    ∃ n, c = .pad n true ∧ m < n := by
  have hW' := hW
  rw [validate_trace] at hW
  obtain ⟨hk, hw, hwr⟩ := W_mem_inv hW
  subst hk
  have hh := imp_of_bool (tbl_put_over_held_same_kind d.client d.kind (obsOfAns d (seqAns d s)))
    (and2 hw (held_seq hheld))
  simp only [Bool.and_eq_true] at hh
  rcases lOk_same_kind (by rw [seq_g, hheld]) hh.2 with ⟨o, n, v, _, _, hc, _⟩ | ⟨_, _, _, h⟩ | ⟨_, _, _, _, _, _, h⟩
  · have hcw : c = .pad n v := by
      rcases hwr with ⟨_, h⟩ | ⟨_, h⟩ <;> simp [h, written, hc]
    subst hcw
    have hv := (stored_scratchpad_valid d s _ n v hW').1
    subst hv
    exact ⟨n, rfl, scratchpad_counter_strictly_increases d s _ n m true vm hheld hW'⟩
  · cases h
  · cases h

/-- one delivery processed alone never lowers a stored scratchpad counter and keeps it validly signed -/
theorem deliverSeq_monotone (d : Delivery) (s : Store) (k m : Nat)
    (hheld : s.get k = some (.pad m true)) :
    ∃ m', m ≤ m' ∧ (deliverSeq s d).get k = some (.pad m' true) := by
  unfold deliverSeq
  rcases applyToks_get (validate d s).2 s k with h | ⟨c, hm, hg⟩
  · exact ⟨m, Nat.le_refl _, by rw [h, hheld]⟩
  · obtain ⟨n, rfl, hlt⟩ := put_over_pad d s k m true c hheld hm
    exact ⟨n, Nat.le_of_lt hlt, hg⟩

/-- **Under per-key serialisation a stored scratchpad never regresses and stays validly signed**, for any
sequence of paid uploads, unpaid updates and replicated copies of any kinds. -/
theorem serial_scratchpad_never_regresses_partial (ds : List Delivery) (s : Store) (k m : Nat)
    (hheld : s.get k = some (.pad m true)) :
    ∃ m', m ≤ m' ∧ (runSerial s ds).get k = some (.pad m' true) := by
  induction ds generalizing s m with
  | nil => exact ⟨m, Nat.le_refl _, hheld⟩
  | cons d rest ih =>
    obtain ⟨m1, h1, hg1⟩ := deliverSeq_monotone d s k m hheld
    obtain ⟨m2, h2, hg2⟩ := ih (deliverSeq s d) m1 hg1
    exact ⟨m2, Nat.le_trans h1 h2, hg2⟩

/-- a replicated validly signed scratchpad for its own key, processed alone, is reflected: afterwards the
store holds a validly signed version with a counter at least as high -/
theorem replicated_valid_pad_applied (s : Store) (o n : Nat) (m : Nat)
    (hheld : s.get (3 * o + 1) = some (.pad m true)) :
    ∃ m', n ≤ m' ∧ m ≤ m' ∧
      (deliverSeq s ⟨false, .pad, 3 * o + 1, .pad o n true, none⟩).get (3 * o + 1) = some (.pad m' true) := by
  have e1 : padRejectsEqualCounter = true := by decide
  have e2 : padChecksSignature = true := by decide
  have e3 : padChecksKey = true := by decide
  by_cases h : n ≤ m
  · refine ⟨m, h, Nat.le_refl _, ?_⟩
    simp [deliverSeq, validate, seqAns, rwKey, route, replRoute, derivedKey, hheld, obsOfAns, parseOk,
      contentFam, kindFam, isPaid, skel, storePad, rej, Out.trace, e1, e2, e3, h, applyToks, inst]
  · refine ⟨n, Nat.le_refl _, by omega, ?_⟩
    simp [deliverSeq, validate, seqAns, rwKey, route, replRoute, derivedKey, hheld, obsOfAns, parseOk,
      contentFam, kindFam, isPaid, skel, storePad, rej, Out.trace, e1, e2, e3, h, applyToks, inst,
      written, get_put_same]

/-- **Under per-key serialisation the stored scratchpad is validly signed and carries a counter at least as
high as every validly signed version delivered by replication for that key** (and at least the initial one). -/
theorem stored_scratchpad_valid_and_max (ds : List Delivery) (s : Store) (o m : Nat)
    (hheld : s.get (3 * o + 1) = some (.pad m true)) :
    ∃ M, (runSerial s ds).get (3 * o + 1) = some (.pad M true) ∧ m ≤ M ∧
      ∀ n, (⟨false, .pad, 3 * o + 1, .pad o n true, none⟩ : Delivery) ∈ ds → n ≤ M := by
  induction ds generalizing s m with
  | nil => exact ⟨m, hheld, Nat.le_refl _, by simp⟩
  | cons d rest ih =>
    obtain ⟨m1, h1, hg1⟩ := deliverSeq_monotone d s _ m hheld
    obtain ⟨M, hM, hle, hall⟩ := ih (deliverSeq s d) m1 hg1
    refine ⟨M, hM, Nat.le_trans h1 hle, ?_⟩
    intro n hn
    rcases List.mem_cons.mp hn with rfl | hn
    · obtain ⟨m', hn', _, hg'⟩ := replicated_valid_pad_applied s o n m hheld
      rw [hg1] at hg'
      injection hg' with hg'
      injection hg' with hg' _
      omega
    · exact hall n hn

/-- a put over a held transaction set is a transaction set containing it -/
theorem put_over_txs (d : Delivery) (s : Store) (k : Nat) (l : List Nat) (c : Content)
    (hheld : s.get k = some (.txs l)) (hW : Tok.W k c ∈ (validate d s).2) :
    ∃ l', c = .txs l' ∧ ∀ x ∈ l, x ∈ l' := by
  have hW' := hW
  rw [validate_trace] at hW
  obtain ⟨hk, hw, hwr⟩ := W_mem_inv hW
  subst hk
  have hh := imp_of_bool (tbl_put_over_held_same_kind d.client d.kind (obsOfAns d (seqAns d s)))
    (and2 hw (held_seq hheld))
  simp only [Bool.and_eq_true] at hh
  rcases lOk_same_kind (by rw [seq_g, hheld]) hh.2 with ⟨_, _, _, _, _, _, h⟩ | ⟨lt, _, hc, _⟩ | ⟨_, _, _, _, _, _, h⟩
  · cases h
  · have hcw : ∃ l', c = .txs l' := by
      rcases hwr with ⟨_, h⟩ | ⟨_, h⟩ <;> (rw [h]; simp only [written, hc]; exact ⟨_, rfl⟩)
    obtain ⟨l', rfl⟩ := hcw
    refine ⟨l', rfl, ?_⟩
    intro x hx
    exact (transactions_grow d s _ l' hW' x).mpr (Or.inl (by simp [localTxs, hheld, hx]))
  · cases h

theorem deliverSeq_txs_monotone (d : Delivery) (s : Store) (k : Nat) (l : List Nat)
    (hheld : s.get k = some (.txs l)) :
    ∃ l', (deliverSeq s d).get k = some (.txs l') ∧ ∀ x ∈ l, x ∈ l' := by
  unfold deliverSeq
  rcases applyToks_get (validate d s).2 s k with h | ⟨c, hm, hg⟩
  · exact ⟨l, by rw [h, hheld], fun x hx => hx⟩
  · obtain ⟨l', rfl, hsub⟩ := put_over_txs d s k l c hheld hm
    exact ⟨l', hg, hsub⟩

/-- **Under per-key serialisation a stored transaction is never lost**, whatever else is delivered. -/
theorem serial_transactions_never_lost_partial (ds : List Delivery) (s : Store) (k : Nat) (l : List Nat)
    (hheld : s.get k = some (.txs l)) :
    ∃ l', (runSerial s ds).get k = some (.txs l') ∧ ∀ x ∈ l, x ∈ l' := by
  induction ds generalizing s l with
  | nil => exact ⟨l, hheld, fun x hx => hx⟩
  | cons d rest ih =>
    obtain ⟨l1, hg1, h1⟩ := deliverSeq_txs_monotone d s k l hheld
    obtain ⟨l2, hg2, h2⟩ := ih (deliverSeq s d) l1 hg1
    exact ⟨l2, hg2, fun x hx => h2 x (h1 x hx)⟩

/-- 0 chunk, 1 scratchpad, 2 transaction set, 3 register -/
def fam : Content → Nat
  | .chunk => 0
  | .pad .. => 1
  | .txs _ => 2
  | .reg .. => 3

/-- **A held record is never replaced by a record of another kind** — in particular a held scratchpad is
never overwritten by the transaction set of the same owner (they share the key `H(owner)`), nor a held
transaction set by a scratchpad. -/
theorem cross_kind_never_overwrites (d : Delivery) (s : Store) (k : Nat) (c0 c : Content)
    (hheld : s.get k = some c0) (hW : Tok.W k c ∈ (validate d s).2) : fam c = fam c0 := by
  rw [validate_trace] at hW
  obtain ⟨hk, hw, hwr⟩ := W_mem_inv hW
  subst hk
  have hh := imp_of_bool (tbl_put_over_held_same_kind d.client d.kind (obsOfAns d (seqAns d s)))
    (and2 hw (held_seq hheld))
  simp only [Bool.and_eq_true] at hh
  rcases lOk_same_kind (by rw [seq_g, hheld]) hh.2 with
    ⟨o, n, v, m, vm, hc, rfl⟩ | ⟨lt, l0, hc, rfl⟩ | ⟨id, b, ops, alt, l0, hc, rfl⟩
  · rcases hwr with ⟨_, h⟩ | ⟨_, h⟩ <;> simp [h, written, hc, fam]
  · rcases hwr with ⟨_, h⟩ | ⟨_, h⟩ <;> simp [h, written, hc, fam]
  · rcases hwr with ⟨_, h⟩ | ⟨_, h⟩ <;> simp [h, written, hc, fam, seq_g, hheld]

theorem deliverSeq_kind_preserved (d : Delivery) (s : Store) (k : Nat) (c0 : Content)
    (hheld : s.get k = some c0) : ∃ c, (deliverSeq s d).get k = some c ∧ fam c = fam c0 := by
  unfold deliverSeq
  rcases applyToks_get (validate d s).2 s k with h | ⟨c, hm, hg⟩
  · exact ⟨c0, by rw [h, hheld], rfl⟩
  · exact ⟨c, hg, cross_kind_never_overwrites d s k c0 c hheld hm⟩

/-- **Under per-key serialisation whatever is held under a key keeps its kind**, for any sequence of
deliveries of any kinds on any path. -/
theorem serial_kind_preserved_partial (ds : List Delivery) (s : Store) (k : Nat) (c0 : Content)
    (hheld : s.get k = some c0) : ∃ c, (runSerial s ds).get k = some c ∧ fam c = fam c0 := by
  induction ds generalizing s c0 with
  | nil => exact ⟨c0, hheld, rfl⟩
  | cons d rest ih =>
    obtain ⟨c1, hg1, h1⟩ := deliverSeq_kind_preserved d s k c0 hheld
    obtain ⟨c2, hg2, h2⟩ := ih (deliverSeq s d) c1 hg1
    exact ⟨c2, hg2, by rw [h2, h1]⟩

/-- a replicated transaction vector presented under key `k` -/
def txVec (k : Nat) (l : List TxD) : Delivery := ⟨false, .tx, k, .txs l, none⟩

/-- the validly signed entries of a vector that are for key `k` -/
def validFor (k : Nat) (l : List TxD) : List Nat :=
  ((l.filter (fun t => 3 * t.owner + 1 == k)).filter (·.valid)).map (·.t)

theorem txValid_txVec (k : Nat) (l : List TxD) : (txValid (txVec k l)).map (·.t) = validFor k l := by
  simp [txValid, txForKey, txVec, validFor, rwKey, route, replRoute, txFiltersInvalid, txFiltersForeign]

theorem replicated_txs_applied (s : Store) (k : Nat) (l : List TxD) (l0 : List Nat)
    (hheld : s.get k = some (.txs l0)) :
    ∃ l1, (deliverSeq s (txVec k l)).get k = some (.txs l1) ∧
      ∀ x, x ∈ l1 ↔ (x ∈ l0 ∨ x ∈ validFor k l) := by
  have e1 : txFiltersInvalid = true := by decide
  have e2 : txFiltersForeign = true := by decide
  have e3 : txMergesLocal = true := by decide
  by_cases hv : ((l.filter (fun t => 3 * t.owner + 1 == k)).filter (·.valid)) = []
  · refine ⟨l0, ?_, ?_⟩
    · by_cases hf : (l.filter (fun t => 3 * t.owner + 1 == k)) = []
      · simp [deliverSeq, validate, seqAns, txVec, rwKey, route, replRoute, hheld, obsOfAns, parseOk,
          contentFam, kindFam, isPaid, skel, storeTx, rej, Out.trace, e1, e2, e3, applyToks, inst,
          txValid, txForKey, hv, hf]
      · simp [deliverSeq, validate, seqAns, txVec, rwKey, route, replRoute, hheld, obsOfAns, parseOk,
          contentFam, kindFam, isPaid, skel, storeTx, rej, Out.trace, e1, e2, e3, applyToks, inst,
          txValid, txForKey, hv, hf]
    · intro x; simp [validFor, hv]
  · have hf : (l.filter (fun t => 3 * t.owner + 1 == k)) ≠ [] := by
      intro h; rw [h] at hv; simp at hv
    have hv' : ¬ ∀ (a : TxD), a ∈ l → a.valid = true → ¬3 * a.owner + 1 = k := by
      intro h
      apply hv
      simp only [List.filter_eq_nil_iff, List.mem_filter, beq_iff_eq, and_imp]
      intro a ha hk hval
      exact h a ha hval hk
    refine ⟨union (validFor k l) l0, ?_, ?_⟩
    · simp [hv', deliverSeq, validate, seqAns, txVec, rwKey, route, replRoute, hheld, obsOfAns, parseOk,
        contentFam, kindFam, isPaid, skel, storeTx, rej, Out.trace, e1, e2, e3, applyToks, inst,
        txValid, txForKey, hv, hf, written, get_put_same, validFor]
    · intro x; rw [mem_union]; constructor <;> (rintro (h | h) <;> simp [h])


/-- **Under per-key serialisation the stored transaction set is the union of what was held and all validly
signed transactions delivered for that key** — a statement about membership only, hence independent of
delivery order and duplication. -/
theorem transactions_union_serial (vecs : List (List TxD)) (s : Store) (k : Nat) (l0 : List Nat)
    (hheld : s.get k = some (.txs l0)) :
    ∃ l1, (runSerial s (vecs.map (txVec k))).get k = some (.txs l1) ∧
      ∀ x, x ∈ l1 ↔ (x ∈ l0 ∨ ∃ l ∈ vecs, x ∈ validFor k l) := by
  induction vecs generalizing s l0 with
  | nil => exact ⟨l0, hheld, by simp⟩
  | cons v rest ih =>
    obtain ⟨l1, hg1, hm1⟩ := replicated_txs_applied s k v l0 hheld
    obtain ⟨l2, hg2, hm2⟩ := ih (deliverSeq s (txVec k v)) l1 hg1
    refine ⟨l2, hg2, ?_⟩
    intro x
    rw [hm2, hm1]
    simp only [List.mem_cons, exists_eq_or_imp]
    constructor
    · rintro ((h | h) | h)
      · exact Or.inl h
      · exact Or.inr (Or.inl h)
      · exact Or.inr (Or.inr h)
    · rintro (h | h | h)
      · exact Or.inl (Or.inl h)
      · exact Or.inl (Or.inr h)
      · exact Or.inr h

/-- two serial histories delivering the same vectors in any order, any number of times, end with the same set -/
theorem transactions_order_independent (v1 v2 : List (List TxD)) (s : Store) (k : Nat) (l0 : List Nat)
    (hheld : s.get k = some (.txs l0)) (hsame : ∀ l, l ∈ v1 ↔ l ∈ v2) :
    ∃ a b, (runSerial s (v1.map (txVec k))).get k = some (.txs a) ∧
           (runSerial s (v2.map (txVec k))).get k = some (.txs b) ∧ ∀ x, x ∈ a ↔ x ∈ b := by
  obtain ⟨a, ha, hma⟩ := transactions_union_serial v1 s k l0 hheld
  obtain ⟨b, hb, hmb⟩ := transactions_union_serial v2 s k l0 hheld
  refine ⟨a, b, ha, hb, ?_⟩
  intro x
  rw [hma, hmb]
  constructor
  · rintro (h | ⟨l, hl, hx⟩)
    · exact Or.inl h
    · exact Or.inr ⟨l, (hsame l).mp hl, hx⟩
  · rintro (h | ⟨l, hl, hx⟩)
    · exact Or.inl h
    · exact Or.inr ⟨l, (hsame l).mpr hl, hx⟩

/-! ## Concurrency: the full statement is false of the code (K-f) -/

/-- no schedule ever lowers a scratchpad counter that was stored -/
def NeverRegressesUnderAnySchedule : Prop :=
  ∀ (s : Store) (pre post : List Act) (k m : Nat),
    (World.run ⟨s, []⟩ pre).store.get k = some (.pad m true) →
    ∃ m', m ≤ m' ∧ (World.run ⟨s, []⟩ (pre ++ post)).store.get k = some (.pad m' true)

/-- no schedule ever drops a transaction that was stored -/
def NoTransactionLostUnderAnySchedule : Prop :=
  ∀ (s : Store) (pre post : List Act) (k x : Nat),
    x ∈ localTxs (World.run ⟨s, []⟩ pre).store k → x ∈ localTxs (World.run ⟨s, []⟩ (pre ++ post)).store k

def upd (n : Nat) : Delivery := ⟨false, .pad, 1, .pad 0 n true, none⟩

/-- local counter 3; updates 7 and 5 both read 3 before either writes; 5 is written last -/
def kfPre : List Act := [.begin 0 (upd 7), .begin 1 (upd 5), .ans 0, .ans 1, .run 0]
def kfPost : List Act := [.run 1]

theorem concurrent_regress_witness :
    (World.run ⟨[(1, .pad 3 true)], []⟩ kfPre).store.get 1 = some (.pad 7 true) ∧
    (World.run ⟨[(1, .pad 3 true)], []⟩ (kfPre ++ kfPost)).store.get 1 = some (.pad 5 true) := by
  decide

theorem never_regresses_is_false : ¬ NeverRegressesUnderAnySchedule := by
  intro h
  obtain ⟨m', hle, hg⟩ := h [(1, .pad 3 true)] kfPre kfPost 1 7 concurrent_regress_witness.1
  rw [concurrent_regress_witness.2] at hg
  injection hg with hg
  injection hg with hg _
  omega

def txd (t : Nat) : Delivery := ⟨false, .tx, 1, .txs [⟨0, t, true⟩], none⟩
def txPre : List Act := [.begin 0 (txd 2), .begin 1 (txd 3), .ans 0, .ans 1, .run 0]

/-- local set {1}; transactions 2 and 3 both read {1}; {1,3} is written last and 2 is lost -/
theorem concurrent_tx_loss_witness :
    (World.run ⟨[(1, .txs [1])], []⟩ txPre).store.get 1 = some (.txs [1, 2]) ∧
    (World.run ⟨[(1, .txs [1])], []⟩ (txPre ++ [.run 1])).store.get 1 = some (.txs [1, 3]) := by
  decide

theorem no_transaction_lost_is_false : ¬ NoTransactionLostUnderAnySchedule := by
  intro h
  have := h [(1, .txs [1])] txPre [.run 1] 1 2
    (by rw [localTxs, concurrent_tx_loss_witness.1]; simp)
  rw [localTxs, concurrent_tx_loss_witness.2] at this
  simp at this

/-! ## Registers and scratchpads: the history-level statements (sequential) -/

/-- a put over a held register is a register of the same base containing every held op -/
theorem put_over_reg (d : Delivery) (s : Store) (k : Nat) (alt : Bool) (l : List Nat) (c : Content)
    (hheld : s.get k = some (.reg alt l)) (hW : Tok.W k c ∈ (validate d s).2) :
    ∃ l', c = .reg alt l' ∧ ∀ x ∈ l, x ∈ l' := by
  have hW' := hW
  rw [validate_trace] at hW
  obtain ⟨hk, hw, hwr⟩ := W_mem_inv hW
  subst hk
  have hh := imp_of_bool (tbl_put_over_held_same_kind d.client d.kind (obsOfAns d (seqAns d s)))
    (and2 hw (held_seq hheld))
  simp only [Bool.and_eq_true] at hh
  rcases lOk_same_kind (by rw [seq_g, hheld]) hh.2 with ⟨_, _, _, _, _, _, h⟩ | ⟨_, _, _, h⟩ | ⟨id, b, ops, _, _, hc, _⟩
  · cases h
  · cases h
  · have hcw : ∃ a' l', c = .reg a' l' := by
      rcases hwr with ⟨_, h⟩ | ⟨_, h⟩
      · rw [h]; simp only [written, hc]; exact ⟨_, _, rfl⟩
      · rw [h]; simp only [written, hc, seq_g, hheld, Option.getD_some]; exact ⟨_, _, rfl⟩
    obtain ⟨a', l', rfl⟩ := hcw
    obtain ⟨ha, hm, _⟩ := register_grows d s _ alt a' l l' hheld hW'
    subst ha
    exact ⟨l', rfl, fun x hx => (hm x).mpr (Or.inl hx)⟩

theorem deliverSeq_reg_monotone (d : Delivery) (s : Store) (k : Nat) (alt : Bool) (l : List Nat)
    (hheld : s.get k = some (.reg alt l)) :
    ∃ l', (deliverSeq s d).get k = some (.reg alt l') ∧ ∀ x ∈ l, x ∈ l' := by
  unfold deliverSeq
  rcases applyToks_get (validate d s).2 s k with h | ⟨c, hm, hg⟩
  · exact ⟨l, by rw [h, hheld], fun x hx => hx⟩
  · obtain ⟨l', rfl, hsub⟩ := put_over_reg d s k alt l c hheld hm
    exact ⟨l', hg, hsub⟩

/-- **Under per-key serialisation a stored register operation is never lost and the base register never
changes**, whatever else is delivered (any kinds, any paths, valid or not). -/
theorem serial_register_never_lost_partial (ds : List Delivery) (s : Store) (k : Nat) (alt : Bool) (l : List Nat)
    (hheld : s.get k = some (.reg alt l)) :
    ∃ l', (runSerial s ds).get k = some (.reg alt l') ∧ ∀ x ∈ l, x ∈ l' := by
  induction ds generalizing s l with
  | nil => exact ⟨l, hheld, fun x hx => hx⟩
  | cons d rest ih =>
    obtain ⟨l1, hg1, h1⟩ := deliverSeq_reg_monotone d s k alt l hheld
    obtain ⟨l2, hg2, h2⟩ := ih (deliverSeq s d) l1 hg1
    exact ⟨l2, hg2, fun x hx => h2 x (h1 x hx)⟩

/-- a replicated copy of register `id` with base `b` and operations `ops` -/
def regVec (id : Nat) (b : RegBase) (ops : List OpD) : Delivery := ⟨false, .reg, 3 * id + 2, .reg id b ops, none⟩

/-- does a delivered copy verify against a held register of base `alt`: owner signature on the base register,
every operation permitted, same base register -/
def accepts (alt : Bool) (b : RegBase) (ops : List OpD) : Bool :=
  decide (b ≠ .bad) && ops.all (fun o => opValid (regAlt b) o.cls) && (alt == regAlt b)

/-- the operations a delivered register contributes to a held register of base `alt`: all of them if it verifies,
none otherwise — a register is accepted as a whole or not at all -/
def accOps (alt : Bool) (b : RegBase) (ops : List OpD) : List Nat :=
  if accepts alt b ops then ops.map (·.id) else []

theorem any_new_false_iff (a l : List Nat) : (a.any fun x => !l.contains x) = false ↔ ∀ x ∈ a, x ∈ l := by
  simp [List.any_eq_false]

theorem obs_reg {d : Delivery} {a : Ans} {id : Nat} {b : RegBase} {ops : List OpD} (hc : d.content = .reg id b ops)
    {alt : Bool} {l0 : List Nat} (hg : a.g = some (some (.reg alt l0))) :
    (obsOfAns d a).lSome = true ∧ (obsOfAns d a).lOk = true ∧
    (obsOfAns d a).cA = (decide (b ≠ .bad) && ops.all (fun o => opValid (regAlt b) o.cls)) ∧
    (obsOfAns d a).cB = (alt == regAlt b) ∧
    (obsOfAns d a).cC = ops.any (fun o => !l0.contains o.id) := by
  obtain ⟨client, kind, rk, content, pay⟩ := d
  simp only at hc
  subst hc
  simp [obsOfAns, hg]

theorem rwKey_regVec (id : Nat) (b : RegBase) (ops : List OpD) : rwKey (regVec id b ops) = 3 * id + 2 := by
  simp [rwKey, regVec, route, replRoute, derivedKey]

/-- the decision on a replicated register copy for a held register, from the facts it depends on -/
theorem skel_regRepl_held (o : Obs) (hp : o.parse = true) (hkm : o.km = true) (hh2 : o.h2 = true)
    (hl : o.lSome = true) (hlo : o.lOk = true) :
    skel .regRepl o =
      if o.cA && o.cB then (if o.cC then ⟨.ok, [.H, .G, .Wm], []⟩ else ⟨.ok, [.H, .G], []⟩)
      else if !o.cA then rej .regInvalid [.H] else rej .regDifferentBase [.H, .G] := by
  have e1 : regVerifies = true := by decide
  have e2 : regVerifiedMerge = true := by decide
  have e3 : regReplChecksKey = true := by decide
  cases hA : o.cA <;> cases hB : o.cB <;> cases hC : o.cC <;>
    simp [skel, storeReg, rej, hp, hkm, hh2, hl, hlo, hA, hB, hC, e1, e2, e3]

theorem replicated_reg_applied (s : Store) (id : Nat) (b : RegBase) (ops : List OpD) (alt : Bool) (l0 : List Nat)
    (hheld : s.get (3 * id + 2) = some (.reg alt l0)) :
    ∃ l1, (deliverSeq s (regVec id b ops)).get (3 * id + 2) = some (.reg alt l1) ∧
      ∀ x, x ∈ l1 ↔ (x ∈ l0 ∨ x ∈ accOps alt b ops) := by
  have hrw := rwKey_regVec id b ops
  have hheld' : s.get (rwKey (regVec id b ops)) = some (.reg alt l0) := by rw [hrw]; exact hheld
  have hg : (seqAns (regVec id b ops) s).g = some (some (.reg alt l0)) := by rw [seq_g, hheld']
  obtain ⟨hl, hlo, hcA, hcB, hcC⟩ := obs_reg (d := regVec id b ops) (a := seqAns (regVec id b ops) s) rfl hg
  have hp : (obsOfAns (regVec id b ops) (seqAns (regVec id b ops) s)).parse = true := by rw [obs_parse]; rfl
  have hkm : (obsOfAns (regVec id b ops) (seqAns (regVec id b ops) s)).km = true := by
    rw [obs_km]; simp [regVec, route, replRoute, derivedKey]
  have hh2 : (obsOfAns (regVec id b ops) (seqAns (regVec id b ops) s)).h2 = true := by
    rw [obs_h2_seq, hheld']; rfl
  have hsk := skel_regRepl_held _ hp hkm hh2 hl hlo
  have hroute : route (regVec id b ops).client (regVec id b ops).kind = .regRepl := rfl
  have hacc : accepts alt b ops =
      ((obsOfAns (regVec id b ops) (seqAns (regVec id b ops) s)).cA &&
        (obsOfAns (regVec id b ops) (seqAns (regVec id b ops) s)).cB) := by
    rw [hcA, hcB]; rfl
  have hval : (validate (regVec id b ops) s).2 =
      (skel .regRepl (obsOfAns (regVec id b ops) (seqAns (regVec id b ops) s))).trace.map
        (inst (regVec id b ops) (seqAns (regVec id b ops) s)) := by
    simp only [validate, hroute]
  cases hA : accepts alt b ops
  · -- rejected: nothing is put
    rw [hA] at hacc
    refine ⟨l0, ?_, by intro x; simp [accOps, hA]⟩
    have : (validate (regVec id b ops) s).2 = [.H (3 * id + 2)] ∨
        (validate (regVec id b ops) s).2 = [.H (3 * id + 2), .G (3 * id + 2)] := by
      rw [hval, hsk, ← hacc]
      simp only [Bool.false_eq_true, ↓reduceIte]
      split
      · left; simp [rej, Out.trace, inst, hrw]
      · right; simp [rej, Out.trace, inst, hrw]
    rcases this with h | h <;> simp [deliverSeq, h, applyToks, hheld]
  · rw [hA] at hacc
    cases hC : (obsOfAns (regVec id b ops) (seqAns (regVec id b ops) s)).cC
    · -- nothing new: no put
      refine ⟨l0, ?_, ?_⟩
      · have : (validate (regVec id b ops) s).2 = [.H (3 * id + 2), .G (3 * id + 2)] := by
          rw [hval, hsk, ← hacc, hC]
          simp [Out.trace, inst, hrw]
        simp [deliverSeq, this, applyToks, hheld]
      · intro x
        rw [hcC] at hC
        have hsub : ∀ y ∈ ops.map (·.id), y ∈ l0 :=
          (any_new_false_iff (ops.map (·.id)) l0).mp (by simpa [List.any_map] using hC)
        simp only [accOps, hA, ↓reduceIte]
        constructor
        · intro h; exact Or.inl h
        · rintro (h | h)
          · exact h
          · exact hsub x h
    · refine ⟨union (ops.map (·.id)) l0, ?_, ?_⟩
      · have : (validate (regVec id b ops) s).2 =
            [.H (3 * id + 2), .G (3 * id + 2), .W (3 * id + 2) (.reg alt (union (ops.map (·.id)) l0))] := by
          have hc : (regVec id b ops).content = .reg id b ops := rfl
          have hwr : written (regVec id b ops) (seqAns (regVec id b ops) s) true =
              .reg alt (union (ops.map (·.id)) l0) := by
            simp [written, hc, hg]
          rw [hval, hsk, ← hacc, hC]
          simp [Out.trace, inst, hrw, hwr]
        simp [deliverSeq, this, applyToks, get_put_same]
      · intro x
        simp only [accOps, hA, ↓reduceIte]
        rw [mem_union]; constructor <;> (rintro (h | h) <;> simp [h])

/-- **Under per-key serialisation the stored register is the union of what was held and the operations of every
delivered copy that verifies (owner signature, same base register, every operation permitted)** — membership
only, hence independent of delivery order and duplication. -/
theorem register_union_serial (regs : List (RegBase × List OpD)) (s : Store) (id : Nat) (alt : Bool) (l0 : List Nat)
    (hheld : s.get (3 * id + 2) = some (.reg alt l0)) :
    ∃ l1, (runSerial s (regs.map fun r => regVec id r.1 r.2)).get (3 * id + 2) = some (.reg alt l1) ∧
      ∀ x, x ∈ l1 ↔ (x ∈ l0 ∨ ∃ r ∈ regs, x ∈ accOps alt r.1 r.2) := by
  induction regs generalizing s l0 with
  | nil => exact ⟨l0, hheld, by simp⟩
  | cons r rest ih =>
    obtain ⟨l1, hg1, hm1⟩ := replicated_reg_applied s id r.1 r.2 alt l0 hheld
    obtain ⟨l2, hg2, hm2⟩ := ih (deliverSeq s (regVec id r.1 r.2)) l1 hg1
    refine ⟨l2, hg2, ?_⟩
    intro x
    rw [hm2, hm1]
    simp only [List.mem_cons, exists_eq_or_imp]
    constructor
    · rintro ((h | h) | h)
      · exact Or.inl h
      · exact Or.inr (Or.inl h)
      · exact Or.inr (Or.inr h)
    · rintro (h | h | h)
      · exact Or.inl (Or.inl h)
      · exact Or.inl (Or.inr h)
      · exact Or.inr h

/-- two serial histories delivering the same register copies in any order, any number of times, end with the same
set of operations -/
theorem register_order_independent (r1 r2 : List (RegBase × List OpD)) (s : Store) (id : Nat) (alt : Bool)
    (l0 : List Nat) (hheld : s.get (3 * id + 2) = some (.reg alt l0)) (hsame : ∀ r, r ∈ r1 ↔ r ∈ r2) :
    ∃ a b, (runSerial s (r1.map fun r => regVec id r.1 r.2)).get (3 * id + 2) = some (.reg alt a) ∧
           (runSerial s (r2.map fun r => regVec id r.1 r.2)).get (3 * id + 2) = some (.reg alt b) ∧
           ∀ x, x ∈ a ↔ x ∈ b := by
  obtain ⟨a, ha, hma⟩ := register_union_serial r1 s id alt l0 hheld
  obtain ⟨b, hb, hmb⟩ := register_union_serial r2 s id alt l0 hheld
  refine ⟨a, b, ha, hb, ?_⟩
  intro x
  rw [hma, hmb]
  constructor
  · rintro (h | ⟨r, hr, hx⟩)
    · exact Or.inl h
    · exact Or.inr ⟨r, (hsame r).mp hr, hx⟩
  · rintro (h | ⟨r, hr, hx⟩)
    · exact Or.inl h
    · exact Or.inr ⟨r, (hsame r).mpr hr, hx⟩

/-! ## Scratchpads: every path, and keys not held initially -/

/-- a validly signed scratchpad of owner `o`, counter `n`, presented under its own key, on a path that stores it:
replicated, unpaid client update (accepted only for a key the node holds), or paid client upload whose payment
passes all six conditions -/
inductive PadArrives (o n : Nat) : Delivery → Type
  | repl : PadArrives o n ⟨false, .pad, 3 * o + 1, .pad o n true, none⟩
  | update : PadArrives o n ⟨true, .pad, 3 * o + 1, .pad o n true, none⟩
  | paid (p : PayD) (h : (vecOf p).all = true) : PadArrives o n ⟨true, .padp, 3 * o + 1, .pad o n true, some p⟩

/-- … and is stored even when the key is not held: replicated or fully paid -/
def PadArrives.fresh {o n : Nat} {d : Delivery} : PadArrives o n d → Bool
  | .repl => true
  | .update => false
  | .paid _ _ => true

/-- the put does happen: a scratchpad delivery that parses, whose key matches, whose signature verifies, whose
counter is not blocked by the local copy (a scratchpad, or none), on a path entitled to store it -/
theorem tbl_pad_applied : ∀ client k o,
    (!(kindFam k == 1 && o.parse && o.km && (!o.lSome || o.lOk) && !(o.lSome && o.cA) && o.cB &&
        (if client then (if isPaid k then o.pay == .ok else (o.h1 && o.lSome)) else !isPaid k))
      || hasW (tr client k o)) = true :=
  allTable_spec (by decide +kernel)

/-- the last put for a key in a trace is what the key holds afterwards -/
theorem applyToks_last (toks : List Tok) (s : Store) (k : Nat) (c : Content) (h : Tok.W k c ∈ toks) :
    ∃ c', Tok.W k c' ∈ toks ∧ (applyToks s toks).get k = some c' := by
  induction toks generalizing s c with
  | nil => cases h
  | cons t rest ih =>
    by_cases hr : ∃ c2, Tok.W k c2 ∈ rest
    · obtain ⟨c2, h2⟩ := hr
      cases t with
      | W k' c' =>
        obtain ⟨c3, hm, hg⟩ := ih (s.put k' c') c2 h2
        exact ⟨c3, List.mem_cons_of_mem _ hm, by simpa [applyToks] using hg⟩
      | H _ | G _ | K | V | P _ | F _ _ | R _ _ =>
        obtain ⟨c3, hm, hg⟩ := ih s c2 h2
        exact ⟨c3, List.mem_cons_of_mem _ hm, by simpa [applyToks] using hg⟩
    · have ht : t = .W k c := by
        rcases List.mem_cons.mp h with h | h
        · exact h.symm
        · exact absurd ⟨c, h⟩ hr
      subst ht
      simp only [applyToks]
      rcases applyToks_get rest (s.put k c) k with hg | ⟨c2, hm2, _⟩
      · exact ⟨c, List.mem_cons_self .., by rw [hg, get_put_same]⟩
      · exact absurd ⟨c2, hm2⟩ hr

theorem obs_pad_lOk {d : Delivery} {a : Ans} {o n : Nat} {v : Bool} (hc : d.content = .pad o n v) {m : Nat} {vm : Bool}
    (hg : a.g = some (some (.pad m vm))) : (obsOfAns d a).lOk = true := by
  obtain ⟨client, kind, rk, content, pay⟩ := d
  simp only at hc
  subst hc
  simp [obsOfAns, hg]

theorem pad_arrives_facts {o n : Nat} {d : Delivery} (ha : PadArrives o n d) :
    d.content = .pad o n true ∧ rwKey d = 3 * o + 1 ∧ parseOk d = true ∧ kindFam d.kind = 1 ∧
    (∀ a, (obsOfAns d a).km = true) ∧
    (if d.client then (if isPaid d.kind then (∀ a, (obsOfAns d a).pay = .ok) else True) else isPaid d.kind = false) := by
  cases ha with
  | repl =>
    refine ⟨rfl, by simp [rwKey, route, replRoute, derivedKey], rfl, rfl, ?_, by simp [isPaid]⟩
    intro a; rw [obs_km]; simp [route, replRoute, derivedKey]
  | update =>
    refine ⟨rfl, by simp [rwKey, route, clientRoute, derivedKey], rfl, rfl, ?_, by simp [isPaid]⟩
    intro a; rw [obs_km]; simp [route, clientRoute, derivedKey]
  | paid p h =>
    refine ⟨rfl, by simp [rwKey, route, clientRoute, derivedKey], rfl, rfl, ?_, ?_⟩
    · intro a; rw [obs_km]; simp [route, clientRoute, derivedKey]
    · simp only [isPaid, ↓reduceIte]
      intro a
      rw [obs_pay]
      have := payCheck_ok_iff_all (vecOf p)
      rw [h] at this
      simpa using this

/-- **A validly signed scratchpad arriving on a storing path is stored** when the key holds a validly signed
scratchpad with a lower counter, or — replicated or fully paid — when the key is not held. -/
theorem pad_arrives_applied {o n : Nat} {d : Delivery} (ha : PadArrives o n d) (s : Store)
    (hloc : (s.get (3 * o + 1) = none ∧ ha.fresh = true) ∨ ∃ m vm, s.get (3 * o + 1) = some (.pad m vm) ∧ m < n) :
    (deliverSeq s d).get (3 * o + 1) = some (.pad n true) := by
  obtain ⟨hc, hrw, hparse, hfam, hkm, hpath⟩ := pad_arrives_facts ha
  have hcB := (obs_pad (a := seqAns d s) hc).1
  have hcond : (kindFam d.kind == 1 && (obsOfAns d (seqAns d s)).parse && (obsOfAns d (seqAns d s)).km &&
      (!(obsOfAns d (seqAns d s)).lSome || (obsOfAns d (seqAns d s)).lOk) &&
      !((obsOfAns d (seqAns d s)).lSome && (obsOfAns d (seqAns d s)).cA) && (obsOfAns d (seqAns d s)).cB &&
      (if d.client then (if isPaid d.kind then (obsOfAns d (seqAns d s)).pay == .ok
        else ((obsOfAns d (seqAns d s)).h1 && (obsOfAns d (seqAns d s)).lSome)) else !isPaid d.kind)) = true := by
    rw [obs_parse, hparse, hkm, hcB, hfam]
    rcases hloc with ⟨hnone, hfresh⟩ | ⟨m, vm, hheld, hlt⟩
    · have hl : (obsOfAns d (seqAns d s)).lSome = false := by rw [obs_lSome_seq, hrw, hnone]; rfl
      rw [hl]
      cases ha with
      | repl => simp [isPaid]
      | update => simp [PadArrives.fresh] at hfresh
      | paid p h =>
        simp only [isPaid, ↓reduceIte] at hpath ⊢
        simp [hpath]
    · have hg : (seqAns d s).g = some (some (.pad m vm)) := by rw [seq_g, hrw, hheld]
      obtain ⟨hl, hcA⟩ := (obs_pad (a := seqAns d s) hc).2 m vm hg
      have hlo := obs_pad_lOk (a := seqAns d s) hc hg
      have e : padRejectsEqualCounter = true := by decide
      have hcA' : (obsOfAns d (seqAns d s)).cA = false := by
        rw [hcA]; simp only [e, if_true, decide_eq_false_iff_not]; omega
      have hh1 : (obsOfAns d (seqAns d s)).h1 = true := by rw [obs_h1_seq, hrw, hheld]; rfl
      rw [hl, hlo, hcA', hh1]
      cases ha with
      | repl => simp [isPaid]
      | update => simp [isPaid]
      | paid p h =>
        simp only [isPaid, ↓reduceIte] at hpath ⊢
        simp [hpath]
  have hW := imp_of_bool (tbl_pad_applied d.client d.kind (obsOfAns d (seqAns d s))) hcond
  -- some put is in the trace; every put of this validation carries the delivered scratchpad
  have hwritten : ∀ b, written d (seqAns d s) b = .pad n true := by intro b; simp [written, hc]
  obtain ⟨c, hm⟩ : ∃ c, Tok.W (3 * o + 1) c ∈ (validate d s).2 := by
    rw [validate_trace]
    simp only [hasW, List.any_eq_true] at hW
    obtain ⟨tk, htk, hw⟩ := hW
    cases tk <;> simp [isW] at hw
    · exact ⟨written d (seqAns d s) false, List.mem_map.mpr ⟨_, htk, by simp [inst, hrw]⟩⟩
    · exact ⟨written d (seqAns d s) true, List.mem_map.mpr ⟨_, htk, by simp [inst, hrw]⟩⟩
  obtain ⟨c', hm', hg'⟩ := applyToks_last _ s _ c hm
  unfold deliverSeq
  rw [hg']
  rw [validate_trace] at hm'
  obtain ⟨_, _, hwr⟩ := W_mem_inv hm'
  rcases hwr with ⟨_, h⟩ | ⟨_, h⟩ <;> rw [h, hwritten]

/-- **Under per-key serialisation the stored scratchpad is validly signed and carries a counter at least as
high as every validly signed version that arrived on ANY storing path** — replicated, unpaid update, paid upload. -/
theorem stored_scratchpad_valid_and_max_all_paths (ds : List Delivery) (s : Store) (o m : Nat)
    (hheld : s.get (3 * o + 1) = some (.pad m true)) :
    ∃ M, (runSerial s ds).get (3 * o + 1) = some (.pad M true) ∧ m ≤ M ∧
      ∀ n d, d ∈ ds → PadArrives o n d → n ≤ M := by
  induction ds generalizing s m with
  | nil => exact ⟨m, hheld, Nat.le_refl _, by simp⟩
  | cons d rest ih =>
    obtain ⟨m1, h1, hg1⟩ := deliverSeq_monotone d s _ m hheld
    obtain ⟨M, hM, hle, hall⟩ := ih (deliverSeq s d) m1 hg1
    refine ⟨M, hM, Nat.le_trans h1 hle, ?_⟩
    intro n d' hn ha
    rcases List.mem_cons.mp hn with rfl | hn
    · by_cases hlt : m < n
      · have := pad_arrives_applied ha s (Or.inr ⟨m, true, hheld, hlt⟩)
        rw [hg1] at this
        injection this with this
        injection this with this _
        omega
      · omega
    · exact hall n d' hn ha

/-- **A key not held initially**: if it ends up holding a scratchpad, that scratchpad is validly signed and at
least as high as every validly signed version that arrived replicated or fully paid.  (It may instead end up
holding the owner's transaction set — the two kinds share the key — which then refuses every scratchpad.) -/
theorem first_arrival_scratchpad_valid_and_max (ds : List Delivery) (s : Store) (o M : Nat) (v : Bool)
    (hnone : s.get (3 * o + 1) = none) (hfin : (runSerial s ds).get (3 * o + 1) = some (.pad M v)) :
    v = true ∧ ∀ n d (ha : PadArrives o n d), d ∈ ds → ha.fresh = true → n ≤ M := by
  induction ds generalizing s with
  | nil => simp only [runSerial, List.foldl_nil] at hfin; rw [hnone] at hfin; cases hfin
  | cons d rest ih =>
    have hfin' : (runSerial (deliverSeq s d) rest).get (3 * o + 1) = some (.pad M v) := hfin
    cases hg : (deliverSeq s d).get (3 * o + 1) with
    | none =>
      obtain ⟨hv, hall⟩ := ih (deliverSeq s d) hg hfin'
      refine ⟨hv, ?_⟩
      intro n d' ha hn hf
      rcases List.mem_cons.mp hn with rfl | hn
      · have := pad_arrives_applied ha s (Or.inl ⟨hnone, hf⟩)
        rw [hg] at this; cases this
      · exact hall n d' ha hn hf
    | some c =>
      -- whatever arrived first fixes the kind
      obtain ⟨cf, hcf, hfam⟩ := serial_kind_preserved_partial rest (deliverSeq s d) _ c hg
      rw [hfin'] at hcf
      injection hcf with hcf
      subst hcf
      cases c with
      | pad m' v' =>
        -- it was put by this validation: validly signed
        have hv' : v' = true := by
          have hgd := hg
          unfold deliverSeq at hgd
          rcases applyToks_get (validate d s).2 s (3 * o + 1) with h | ⟨c2, hm, h2⟩
          · rw [h, hnone] at hgd; cases hgd
          · rw [h2] at hgd
            injection hgd with hgd
            subst hgd
            exact (stored_scratchpad_valid d s _ m' v' hm).1
        subst hv'
        obtain ⟨M', hM', hle, hall⟩ := stored_scratchpad_valid_and_max_all_paths rest (deliverSeq s d) o m' hg
        rw [hfin'] at hM'
        injection hM' with hM'
        injection hM' with hM1 hM2
        subst hM1 hM2
        refine ⟨rfl, ?_⟩
        intro n d' ha hn hf
        rcases List.mem_cons.mp hn with rfl | hn
        · have := pad_arrives_applied ha s (Or.inl ⟨hnone, hf⟩)
          rw [hg] at this
          injection this with this
          injection this with this _
          omega
        · exact hall n d' hn ha
      | chunk => simp [fam] at hfam
      | txs l => simp [fam] at hfam
      | reg a l => simp [fam] at hfam

/-! ## Over the record store as it is (`Validate ∘ Store`): validations never overlap, writes complete asynchronously

`ValidateStore.runOps (ValidateStore.fresh cache) ops`: a node store on an empty directory (shipped constants, FIFO
cache of `cache` entries); each `deliver` is one validation processed to completion — reads answered by
`Store.contains` / `Store.get`, its put handed to `Store.putVerified`; `run n` / `ack n` complete the `n`-th disk
write / handle its `AddLocalRecordAsStored`.  `ValidateStore.view` is what `GetLocalRecord` returns.

The full-strength statements are FALSE of the code (known finding K-f3): `get` serves the cache, then — only for a
key already in the `records` index — the record file, so while an accepted write is in flight a validation of the
same key can read an older copy (the cache entry evicted by puts of other keys) or nothing (`RecordStoreHasKey`
before the first acknowledgement), and validates against that. -/

section OverStore
open SafeNet.ValidateStore (Op DX runOps fresh view settled Disciplined deliveriesOf)
open SafeNet.Store (KeyQuiet)

/-- **Full strength**: in every history in which validations never overlap, a scratchpad counter the store has
shown never decreases -/
def StoredCounterNeverDecreasesOverStore : Prop :=
  ∀ (cache : Nat) (pre post : List Op) (k m : Nat), 0 < cache →
    view (runOps (fresh cache) pre) k = some (.pad m true) →
    ∃ m', m ≤ m' ∧ view (runOps (fresh cache) (pre ++ post)) k = some (.pad m' true)

/-- **Full strength**: … a transaction the store has shown is never lost -/
def NoTransactionLostOverStore : Prop :=
  ∀ (cache : Nat) (pre post : List Op) (k x : Nat) (l : List Nat), 0 < cache →
    view (runOps (fresh cache) pre) k = some (.txs l) → x ∈ l →
    ∃ l', view (runOps (fresh cache) (pre ++ post)) k = some (.txs l') ∧ x ∈ l'

/-- **Full strength**: … a register operation the store has shown is never lost -/
def NoRegisterOpLostOverStore : Prop :=
  ∀ (cache : Nat) (pre post : List Op) (k x : Nat) (alt : Bool) (l : List Nat), 0 < cache →
    view (runOps (fresh cache) pre) k = some (.reg alt l) → x ∈ l →
    ∃ l', view (runOps (fresh cache) (pre ++ post)) k = some (.reg alt l') ∧ x ∈ l'

/-- a replicated validly signed scratchpad of owner `o`, counter `n`, presented under key `k` -/
def sPad (k o n : Nat) : Op := .deliver (.plain ⟨false, .pad, k, .pad o n true, none⟩)
def sTx (k o t : Nat) : Op := .deliver (.plain ⟨false, .tx, k, .txs [⟨o, t, true⟩], none⟩)
def sReg (id : Nat) (ops : List Nat) : Op :=
  .deliver (.plain ⟨false, .reg, 3 * id + 2, .reg id .good (ops.map fun i => ⟨i, .v⟩), none⟩)

/-- cache size 1: counter 3 stored and acknowledged; 7 accepted (cached, write in flight) -/
def staleOpsPre : List Op := [sPad 1 0 3, .run 0, .ack 0, sPad 1 0 7]
/-- a put of another key evicts 7 from the cache; the validation of 5 reads the file (3) and is accepted; the
writes complete in order: the store settles on 5 -/
def staleOpsPost : List Op := [sPad 4 1 1, sPad 1 0 5, .run 1, .run 3, .ack 1, .ack 3, .run 2, .ack 2]

/-- K-f3: 3 → 7 → (7 evicted, still in flight) → 5 accepted; everything settled: 5 -/
theorem stale_read_regress_witness :
    view (runOps (fresh 1) staleOpsPre) 1 = some (.pad 7 true) ∧
    view (runOps (fresh 1) (staleOpsPre ++ [sPad 4 1 1])) 1 = some (.pad 3 true) ∧
    view (runOps (fresh 1) (staleOpsPre ++ staleOpsPost)) 1 = some (.pad 5 true) ∧
    settled (runOps (fresh 1) (staleOpsPre ++ staleOpsPost)) = true := by decide +kernel

theorem storedCounterNeverDecreasesOverStore_false : ¬ StoredCounterNeverDecreasesOverStore := by
  intro h
  obtain ⟨m', hle, hg⟩ := h 1 staleOpsPre staleOpsPost 1 7 (by decide) stale_read_regress_witness.1
  rw [stale_read_regress_witness.2.2.1] at hg
  injection hg with hg
  injection hg with hg _
  omega

/-- the same with the DEFAULT cache size (`MAX_RECORDS_CACHE_SIZE`): that many puts of other keys between the two
updates of key 1 -/
def otherPuts : Nat → List Op
  | 0 => []
  | n + 1 => otherPuts n ++ [.deliver (.plain ⟨false, .chunk, 3 * n, .chunk n, none⟩)]

theorem stale_read_regress_default_cache_witness :
    view (runOps (fresh Gen.Store.maxRecordsCacheSize)
      ([sPad 1 0 3, .run 0, .ack 0, sPad 1 0 7] ++ otherPuts Gen.Store.maxRecordsCacheSize)) 1 = some (.pad 3 true) ∧
    view (runOps (fresh Gen.Store.maxRecordsCacheSize)
      ([sPad 1 0 3, .run 0, .ack 0, sPad 1 0 7] ++ otherPuts Gen.Store.maxRecordsCacheSize ++ [sPad 1 0 5, .run 1, .ack 1])) 1
      = some (.pad 5 true) := by decide +kernel

def staleTxPre : List Op := [sTx 1 0 1, .run 0, .ack 0, sTx 1 0 2]
def staleTxPost : List Op := [sPad 4 1 1, sTx 1 0 3, .run 1, .run 3, .ack 1, .ack 3, .run 2, .ack 2]

/-- K-f3: {1} → {1,2} → (evicted, in flight) → 3 merged with the stale {1}; settled: {1,3}, transaction 2 is lost -/
theorem stale_read_tx_loss_witness :
    view (runOps (fresh 1) staleTxPre) 1 = some (.txs [1, 2]) ∧
    view (runOps (fresh 1) (staleTxPre ++ staleTxPost)) 1 = some (.txs [1, 3]) ∧
    settled (runOps (fresh 1) (staleTxPre ++ staleTxPost)) = true := by decide +kernel

theorem noTransactionLostOverStore_false : ¬ NoTransactionLostOverStore := by
  intro h
  obtain ⟨l', hg, hx⟩ := h 1 staleTxPre staleTxPost 1 2 [1, 2] (by decide) stale_read_tx_loss_witness.1 (by decide)
  rw [stale_read_tx_loss_witness.2.1] at hg
  injection hg with hg
  injection hg with hg
  subst hg
  simp at hx

/-- K-f3 with the DEFAULT cache size and no eviction at all: the first copy of a register is accepted (cached,
readable) but not yet acknowledged, `RecordStoreHasKey` says "not held", the second copy replaces it instead of
being merged: operation 1 is lost -/
theorem unacked_register_overwritten_witness :
    view (runOps (fresh Gen.Store.maxRecordsCacheSize) [sReg 0 [1]]) 2 = some (.reg false [1]) ∧
    view (runOps (fresh Gen.Store.maxRecordsCacheSize) ([sReg 0 [1]] ++ [sReg 0 [2], .run 0, .run 1, .ack 0, .ack 1])) 2
      = some (.reg false [2]) ∧
    settled (runOps (fresh Gen.Store.maxRecordsCacheSize) ([sReg 0 [1]] ++ [sReg 0 [2], .run 0, .run 1, .ack 0, .ack 1])) = true := by
  decide +kernel

/-- **K-f5 over the store, DEFAULT cache, validations never overlap**: the owner's scratchpad 3 is accepted and cached
but not yet acknowledged — not in the index `RecordStoreHasKey` reads — so the chunk whose bytes are the owner's public
key (same record key: addresses carry no kind tag) is stored as new and REPLACES it; the owner's version 5 is then
refused, the store settles on the chunk. -/
theorem unacked_pad_replaced_by_chunk_witness :
    view (runOps (fresh 25) [sPad 1 0 3]) 1 = some (.pad 3 true) ∧
    view (runOps (fresh 25) [sPad 1 0 3, .deliver (.plain ⟨false, .chunk, 1, .chunkPre 1, none⟩),
      .run 0, .run 1, .ack 0, .ack 1, sPad 1 0 5]) 1 = some .chunk := by
  decide +kernel

theorem noRegisterOpLostOverStore_false : ¬ NoRegisterOpLostOverStore := by
  intro h
  obtain ⟨l', hg, hx⟩ := h Gen.Store.maxRecordsCacheSize [sReg 0 [1]] [sReg 0 [2], .run 0, .run 1, .ack 0, .ack 1] 2 1 false [1]
    (by decide) unacked_register_overwritten_witness.1 (by decide)
  rw [unacked_register_overwritten_witness.2.1] at hg
  injection hg with hg
  injection hg with _ hg
  subst hg
  simp at hx

theorem runSerial_append (s : Store) (a b : List Delivery) : runSerial s (a ++ b) = runSerial (runSerial s a) b := by
  simp [runSerial, List.foldl_append]

/-- **Refinement (`_partial`, hypothesis `Disciplined`: every validation starts when every accepted write of its
key has completed and been acknowledged, and the store is below capacity).**  After any such history from an
empty node store, a key with nothing in flight reads as — and is listed iff — the serial plain-map run of the
deliveries holds it: every theorem about `runSerial` is a theorem about the store. -/
theorem store_refines_serial_partial (cache : Nat) (ops : List Op) (hd : Disciplined (fresh cache) ops) (k : Nat)
    (hq : KeyQuiet (runOps (fresh cache) ops).st k) :
    view (runOps (fresh cache) ops) k = (runSerial [] (deliveriesOf ops)).get k ∧
    ValidateStore.has (runOps (fresh cache) ops) k = ((runSerial [] (deliveriesOf ops)).get k).isSome :=
  ValidateStore.view_after cache ops hd k hq

/-- **Under `Disciplined` the stored scratchpad counter never decreases and the signature stays valid** (observed
at points where nothing of the key is in flight). -/
theorem store_scratchpad_never_regresses_partial (cache : Nat) (pre post : List Op) (k m : Nat)
    (hd : Disciplined (fresh cache) (pre ++ post))
    (hq1 : KeyQuiet (runOps (fresh cache) pre).st k) (hq2 : KeyQuiet (runOps (fresh cache) (pre ++ post)).st k)
    (hv : view (runOps (fresh cache) pre) k = some (.pad m true)) :
    ∃ m', m ≤ m' ∧ view (runOps (fresh cache) (pre ++ post)) k = some (.pad m' true) := by
  have hd1 := (ValidateStore.Disciplined_append hd).1
  rw [(ValidateStore.view_after cache pre hd1 k hq1).1] at hv
  rw [(ValidateStore.view_after cache (pre ++ post) hd k hq2).1, ValidateStore.deliveriesOf_append, runSerial_append]
  exact serial_scratchpad_never_regresses_partial _ _ k m hv

/-- **Under `Disciplined` a stored transaction is never lost.** -/
theorem store_transactions_never_lost_partial (cache : Nat) (pre post : List Op) (k : Nat) (l : List Nat)
    (hd : Disciplined (fresh cache) (pre ++ post))
    (hq1 : KeyQuiet (runOps (fresh cache) pre).st k) (hq2 : KeyQuiet (runOps (fresh cache) (pre ++ post)).st k)
    (hv : view (runOps (fresh cache) pre) k = some (.txs l)) :
    ∃ l', view (runOps (fresh cache) (pre ++ post)) k = some (.txs l') ∧ ∀ x ∈ l, x ∈ l' := by
  have hd1 := (ValidateStore.Disciplined_append hd).1
  rw [(ValidateStore.view_after cache pre hd1 k hq1).1] at hv
  rw [(ValidateStore.view_after cache (pre ++ post) hd k hq2).1, ValidateStore.deliveriesOf_append, runSerial_append]
  exact serial_transactions_never_lost_partial _ _ k l hv

/-- **Under `Disciplined` a stored register operation is never lost and the base register never changes.** -/
theorem store_register_never_lost_partial (cache : Nat) (pre post : List Op) (k : Nat) (alt : Bool) (l : List Nat)
    (hd : Disciplined (fresh cache) (pre ++ post))
    (hq1 : KeyQuiet (runOps (fresh cache) pre).st k) (hq2 : KeyQuiet (runOps (fresh cache) (pre ++ post)).st k)
    (hv : view (runOps (fresh cache) pre) k = some (.reg alt l)) :
    ∃ l', view (runOps (fresh cache) (pre ++ post)) k = some (.reg alt l') ∧ ∀ x ∈ l, x ∈ l' := by
  have hd1 := (ValidateStore.Disciplined_append hd).1
  rw [(ValidateStore.view_after cache pre hd1 k hq1).1] at hv
  rw [(ValidateStore.view_after cache (pre ++ post) hd k hq2).1, ValidateStore.deliveriesOf_append, runSerial_append]
  exact serial_register_never_lost_partial _ _ k alt l hv

/-- the hypothesis is satisfiable on the histories of the witnesses once every write is acknowledged before the
next validation of the key: the same deliveries, disciplined, end with 7 -/
example : view (runOps (fresh 1) [sPad 1 0 3, .run 0, .ack 0, sPad 1 0 7, sPad 4 1 1, .run 1, .ack 1, sPad 1 0 5, .run 2, .ack 2]) 1
    = some (.pad 7 true) := by decide +kernel

end OverStore

/-! ## "Hold only owner-signed content": which fields of a stored scratchpad the owner's signature covers

`Scratchpad::is_valid` verifies the owner's signature over `counter ‖ hash(encrypted_data)`; the list of fields it
looks at is regenerated from the source (`Gen.PadSig`).  `data_encoding` is serialised, stored and served but not
among them (known finding K-f4). -/

/-- what the validation model's `valid` bit stands for: the signature by the owner key of the address over the
counter and the (hash of the) data — read off `is_valid` -/
theorem pad_signature_covers_counter_data_owner :
    Gen.PadSig.sigCoversCounter = true ∧ Gen.PadSig.sigCoversData = true ∧ Gen.PadSig.sigKeyFromAddress = true := by
  decide

/-- whatever answers a validation got (`a`): a scratchpad put carries a verifying signature, is the delivered
scratchpad, goes to the validation's own key, and if the local read returned a scratchpad its counter is
strictly lower -/
theorem pad_put_any {d : Delivery} {a : Ans} {k n : Nat} {v : Bool}
    (hW : Tok.W k (.pad n v) ∈ (tr d.client d.kind (obsOfAns d a)).map (inst d a)) :
    k = rwKey d ∧ v = true ∧ (∃ o, d.content = .pad o n true) ∧
      ∀ m vm, a.g = some (some (.pad m vm)) → m < n := by
  obtain ⟨hk, hw, hwr⟩ := W_mem_inv hW
  have hkey := imp_of_bool (tbl_put_needs_key_match d.client d.kind (obsOfAns d a)) hw
  simp only [Bool.and_eq_true] at hkey
  have hparse := hkey.2
  rw [obs_parse] at hparse
  obtain ⟨o, hc⟩ : ∃ o, d.content = .pad o n v := by
    rcases hwr with ⟨_, h⟩ | ⟨_, h⟩ <;> exact written_pad h.symm
  have hfam : kindFam d.kind = 1 := by
    have := parse_fam hparse
    rw [hc] at this
    simpa [contentFam] using this.symm
  have hp := imp_of_bool (tbl_pad_put d.client d.kind (obsOfAns d a)) (and2 hw (by rw [hfam]; rfl))
  obtain ⟨hcB, hobs⟩ := obs_pad (a := a) hc
  simp only [Bool.and_eq_true] at hp
  have hv : v = true := by rw [← hcB]; exact hp.1.2
  subst hv
  refine ⟨hk, rfl, ⟨o, hc⟩, ?_⟩
  intro m vm hg
  obtain ⟨hl, hcA⟩ := hobs m vm hg
  have e : padRejectsEqualCounter = true := by decide
  have h1 := hp.1.1
  simp only [hl, hcA, e, if_true, Bool.true_and, Bool.not_eq_eq_eq_not, Bool.not_true,
    decide_eq_false_iff_not] at h1
  omega

section SignedFields
open SafeNet.ValidateStore (Op DX SVal runOps fresh viewS ownerEnc)

/-- **Full strength**: every field of a stored, validly signed scratchpad is what its owner signed — in
particular `data_encoding` is the owner's.  (Deliveries are arbitrary but for the ideal-signature condition
`DX.wf`.) -/
def EveryStoredPadFieldOwnerSigned : Prop :=
  ∀ (cache : Nat) (ops : List Op) (k : Nat) (x : SVal) (n : Nat), 0 < cache →
    (∀ dx, Op.deliver dx ∈ ops → dx.wf = true) →
    viewS (runOps (fresh cache) ops) k = some x → x.c = .pad n true → x.enc = ownerEnc

/-- the owner-signed version 5 of owner 0's scratchpad with `data_encoding` changed from 7 to 8: the signature
verifies, the record is accepted, stored and served -/
def encTampered : DX := ⟨⟨false, .pad, 1, .pad 0 5 true, none⟩, 8, 0⟩

/-- K-f4 -/
theorem unsigned_data_encoding_witness :
    encTampered.wf = true ∧
    viewS (runOps (fresh Gen.Store.maxRecordsCacheSize) [.deliver encTampered, .run 0, .ack 0]) 1 = some ⟨.pad 5 true, 8, 0⟩ := by
  decide +kernel

theorem everyStoredPadFieldOwnerSigned_false : ¬ EveryStoredPadFieldOwnerSigned := by
  intro h
  have := h Gen.Store.maxRecordsCacheSize [.deliver encTampered, .run 0, .ack 0] 1 ⟨.pad 5 true, 8, 0⟩ 5 (by decide)
    (by
      intro dx hm
      simp only [List.mem_cons, Op.deliver.injEq, reduceCtorEq, List.not_mem_nil, or_false] at hm
      subst hm
      exact unsigned_data_encoding_witness.1)
    unsigned_data_encoding_witness.2 rfl
  revert this
  decide

/-- the value table holds no validly signed scratchpad with a foreign `data_encoding` -/
def TblOk (vs : ValidateStore.VS) : Prop := ∀ x ∈ vs.tbl, ∀ n, x.c = .pad n true → x.enc = ownerEnc

theorem mem_intern {t : List SVal} {x y : SVal} (h : y ∈ (ValidateStore.intern t x).2) : y ∈ t ∨ y = x := by
  unfold ValidateStore.intern at h
  split at h
  · exact Or.inl h
  · simpa using h

theorem putRec_tbl (vs : ValidateStore.VS) (k : Nat) (x : SVal) :
    ∀ y ∈ (ValidateStore.putRec vs k x).1.tbl, y ∈ vs.tbl ∨ y = x := by
  intro y hy
  obtain ⟨_, _, htbl, _, _⟩ := ValidateStore.putRec_fields vs k x
  rw [htbl] at hy
  exact mem_intern hy

theorem applyToksS_tblOk (dx : DX) (toks : List Tok) (vs : ValidateStore.VS) (h : TblOk vs)
    (hp : ∀ k n, Tok.W k (.pad n true) ∈ toks → dx.enc = ownerEnc) : TblOk (ValidateStore.applyToksS vs dx toks).1 := by
  induction toks generalizing vs with
  | nil => exact h
  | cons t rest ih =>
    cases t with
    | W k c =>
      simp only [ValidateStore.applyToksS]
      apply ih
      · intro y hy n hn
        rcases putRec_tbl vs k _ y hy with hy | rfl
        · exact h y hy n hn
        · cases c with
          | pad m v =>
            simp only [ValidateStore.svalOf] at hn ⊢
            injection hn with h1 h2
            subst h1 h2
            exact hp k m (List.mem_cons_self ..)
          | chunk => simp only [ValidateStore.svalOf] at hn; cases hn
          | txs l => simp only [ValidateStore.svalOf] at hn; cases hn
          | reg a l => simp only [ValidateStore.svalOf] at hn; cases hn
      · intro k' n hm; exact hp k' n (by simp [hm])
    | H _ | G _ | K | V | P _ | F _ _ | R _ _ =>
      simp only [ValidateStore.applyToksS]
      exact ih vs h (fun k n hm => hp k n (by simp [hm]))

theorem step_tblOk (vs : ValidateStore.VS) (op : Op) (h : TblOk vs)
    (henc : ∀ dx, op = .deliver dx → dx.encAsSigned = true) : TblOk (ValidateStore.step vs op) := by
  cases op with
  | deliver dx =>
    simp only [ValidateStore.step, ValidateStore.deliver]
    apply applyToksS_tblOk dx _ vs h
    intro k n hW
    obtain ⟨_, _, ⟨o, hc⟩, _⟩ := pad_put_any (d := dx.d) (a := ValidateStore.ansOf vs dx.d) hW
    have := henc dx rfl
    simp only [DX.encAsSigned, hc, beq_iff_eq] at this
    exact this
  | run n =>
    simp only [ValidateStore.step]
    cases vs.wids[n]? <;> exact h
  | ack n =>
    simp only [ValidateStore.step]
    cases vs.wids[n]? <;> exact h

/-- **`_partial` (hypothesis: every delivered scratchpad whose signature verifies carries the `data_encoding` its
owner signed it with): every stored validly signed scratchpad carries the owner's `data_encoding`.**  Together
with `stored_scratchpad_valid` (owner key, counter and data are covered by the verified signature) every field
of a stored scratchpad is then the owner's. -/
theorem stored_pad_fields_owner_signed_partial (cache : Nat) (ops : List Op) (k : Nat) (x : SVal) (n : Nat)
    (henc : ∀ dx, Op.deliver dx ∈ ops → dx.encAsSigned = true)
    (hv : viewS (runOps (fresh cache) ops) k = some x) (hx : x.c = .pad n true) : x.enc = ownerEnc := by
  have hall : ∀ (ops : List Op) (vs : ValidateStore.VS), TblOk vs →
      (∀ dx, Op.deliver dx ∈ ops → dx.encAsSigned = true) → TblOk (runOps vs ops) := by
    intro ops
    induction ops with
    | nil => intro vs h _; exact h
    | cons op rest ih =>
      intro vs h he
      simp only [ValidateStore.runOps, List.foldl_cons]
      apply ih
      · exact step_tblOk vs op h (fun dx hd => he dx (by simp [hd]))
      · intro dx hm; exact he dx (by simp [hm])
  have hok := hall ops (fresh cache) (by intro x hx; cases hx) henc
  unfold ValidateStore.viewS at hv
  split at hv
  · rename_i v _
    simp only [ValidateStore.valAt] at hv
    exact hok x (List.mem_of_getElem? hv) n hx
  · cases hv

end SignedFields

/-! ### Scratchpads and transaction sets: "still cached" suffices

Their decisions read only the record (`GetLocalRecord`), and `get` serves the FIFO cache first — so a validation
reads the last accepted copy as long as the key is still cached, even before the acknowledgement.  (Registers
also ask `RecordStoreHasKey`, which reads the index: for them only the acknowledgement will do, see
`unacked_register_overwritten_witness`.) -/

section Cached
open SafeNet.ValidateStore (Op DX runOps fresh view ReadsLastWrite Readable)

/-- a put, whatever the answers: the delivery parsed as the kind it claims, and the key is the validation's own -/
theorem put_any_key {d : Delivery} {a : Ans} {k : Nat} {c : Content}
    (hW : Tok.W k c ∈ (tr d.client d.kind (obsOfAns d a)).map (inst d a)) :
    k = rwKey d ∧ contentFam d.content = some (kindFam d.kind) ∧ hasW (tr d.client d.kind (obsOfAns d a)) = true ∧
      (c = written d a false ∨ c = written d a true) := by
  obtain ⟨hk, hw, hwr⟩ := W_mem_inv hW
  have hkey := imp_of_bool (tbl_put_needs_key_match d.client d.kind (obsOfAns d a)) hw
  simp only [Bool.and_eq_true] at hkey
  have hparse := hkey.2
  rw [obs_parse] at hparse
  refine ⟨hk, parse_fam hparse, hw, ?_⟩
  rcases hwr with ⟨_, h⟩ | ⟨_, h⟩
  · exact Or.inl h
  · exact Or.inr h

/-- **The named hypothesis of K-f5 (chunk side)**: no delivery is a chunk whose BYTES are address preimage `k` —
for `k = 3·o + 1` the 48 public-key bytes of owner `o`, for `k = 3·r + 2` register `r`'s `meta ‖ pk`.  Such a chunk
has the very record key of that owner's scratchpad / transaction set / register: addresses carry no kind tag. -/
def NoChunkSquat (k : Nat) (ds : List Delivery) : Prop := ∀ d ∈ ds, d.content ≠ .chunkPre k

/-- registers never go to an owner key (`3·o + 1`), and chunks only when their bytes are that owner's public key -/
theorem rwKey_chunk_reg {d : Delivery} (hf : contentFam d.content = some (kindFam d.kind))
    (h03 : kindFam d.kind = 0 ∨ kindFam d.kind = 3) (o : Nat) (hns : d.content ≠ .chunkPre (3 * o + 1)) :
    rwKey d ≠ 3 * o + 1 := by
  obtain ⟨client, kind, rk, content, pay⟩ := d
  simp only at hf h03
  cases content with
  | bad => simp [contentFam] at hf
  | chunk id =>
    simp only [contentFam, Option.some.injEq] at hf
    have hk : kind = .chunk ∨ kind = .chunkp := by cases kind <;> simp [kindFam] at hf <;> simp
    rcases hk with rfl | rfl <;> cases client <;> simp [rwKey, route, clientRoute, replRoute, derivedKey] <;> omega
  | chunkPre pre =>
    simp only [contentFam, Option.some.injEq] at hf
    have hk : kind = .chunk ∨ kind = .chunkp := by cases kind <;> simp [kindFam] at hf <;> simp
    have hp : pre ≠ 3 * o + 1 := by intro h; subst h; exact hns rfl
    rcases hk with rfl | rfl <;> cases client <;> simpa [rwKey, route, clientRoute, replRoute, derivedKey] using hp
  | pad o' n v =>
    simp only [contentFam, Option.some.injEq] at hf
    rcases h03 with h | h <;> omega
  | txs l =>
    simp only [contentFam, Option.some.injEq] at hf
    rcases h03 with h | h <;> omega
  | reg id b ops =>
    simp only [contentFam, Option.some.injEq] at hf
    have hk : kind = .reg ∨ kind = .regp := by cases kind <;> simp [kindFam] at hf <;> simp
    rcases hk with rfl | rfl <;> cases client <;> simp [rwKey, route, clientRoute, replRoute, derivedKey] <;> omega

theorem kindFam_cases (k : Kind) : kindFam k = 0 ∨ kindFam k = 1 ∨ kindFam k = 2 ∨ kindFam k = 3 := by
  cases k <;> simp [kindFam]

theorem obs_tx_lOk {d : Delivery} {a : Ans} {l : List TxD} (hc : d.content = .txs l) :
    (obsOfAns d a).lOk = (match a.g.getD none with | some (.txs _) => true | _ => false) := by
  obtain ⟨client, kind, rk, content, pay⟩ := d
  simp only at hc
  subst hc
  rfl

/-- whatever `RecordStoreHasKey` said: a put over an owner key whose local read returned a scratchpad is a validly
signed scratchpad with a strictly higher counter -/
theorem put_over_pad_any {d : Delivery} {a : Ans} {o m : Nat} {vm : Bool} {c : Content}
    (hns : d.content ≠ .chunkPre (3 * o + 1))
    (hW : Tok.W (3 * o + 1) c ∈ (tr d.client d.kind (obsOfAns d a)).map (inst d a))
    (hg : a.g = some (some (.pad m vm))) : ∃ n, c = .pad n true ∧ m < n := by
  obtain ⟨hk, hf, hw, hwr⟩ := put_any_key hW
  rcases kindFam_cases d.kind with h | h | h | h
  · exact absurd hk.symm (rwKey_chunk_reg hf (Or.inl h) o hns)
  · -- a scratchpad delivery
    have hc : ∃ o' n v, d.content = .pad o' n v := by
      rw [h] at hf
      cases hcc : d.content <;> simp [hcc, contentFam] at hf
      exact ⟨_, _, _, rfl⟩
    obtain ⟨o', n, v, hc⟩ := hc
    have hcw : c = .pad n v := by rcases hwr with h | h <;> simp [h, written, hc]
    subst hcw
    obtain ⟨_, hv, _, hlt⟩ := pad_put_any hW
    subst hv
    exact ⟨n, rfl, hlt m vm hg⟩
  · -- a transaction delivery: refused, the local copy is not a transaction set
    exfalso
    have hc : ∃ l, d.content = .txs l := by
      rw [h] at hf
      cases hcc : d.content <;> simp [hcc, contentFam] at hf
      exact ⟨_, rfl⟩
    obtain ⟨l, hc⟩ := hc
    have hp := imp_of_bool (tbl_tx_put d.client d.kind (obsOfAns d a)) (and2 hw (by rw [h]; rfl))
    simp only [Bool.and_eq_true, Bool.or_eq_true, Bool.not_eq_eq_eq_not, Bool.not_true] at hp
    have hl : (obsOfAns d a).lSome = true := by rw [obs_lSome, hg]; rfl
    have hlo : (obsOfAns d a).lOk = false := by rw [obs_tx_lOk hc, hg]; rfl
    rcases hp.1.2 with h1 | h1
    · rw [hl] at h1; cases h1
    · rw [hlo] at h1; cases h1
  · exact absurd hk.symm (rwKey_chunk_reg hf (Or.inr h) o hns)

/-- whatever `RecordStoreHasKey` said: a put over an owner key whose local read returned a transaction set is a
transaction set containing it -/
theorem put_over_txs_any {d : Delivery} {a : Ans} {o : Nat} {l : List Nat} {c : Content}
    (hns : d.content ≠ .chunkPre (3 * o + 1))
    (hW : Tok.W (3 * o + 1) c ∈ (tr d.client d.kind (obsOfAns d a)).map (inst d a))
    (hg : a.g = some (some (.txs l))) : ∃ l', c = .txs l' ∧ ∀ x ∈ l, x ∈ l' := by
  obtain ⟨hk, hf, hw, hwr⟩ := put_any_key hW
  rcases kindFam_cases d.kind with h | h | h | h
  · exact absurd hk.symm (rwKey_chunk_reg hf (Or.inl h) o hns)
  · -- a scratchpad delivery: refused, the local copy is not a scratchpad
    exfalso
    have hc : ∃ o' n v, d.content = .pad o' n v := by
      rw [h] at hf
      cases hcc : d.content <;> simp [hcc, contentFam] at hf
      exact ⟨_, _, _, rfl⟩
    obtain ⟨o', n, v, hc⟩ := hc
    have hp := imp_of_bool (tbl_pad_put d.client d.kind (obsOfAns d a)) (and2 hw (by rw [h]; rfl))
    simp only [Bool.and_eq_true, Bool.or_eq_true, Bool.not_eq_eq_eq_not, Bool.not_true] at hp
    have hl : (obsOfAns d a).lSome = true := by rw [obs_lSome, hg]; rfl
    have hlo : (obsOfAns d a).lOk = false := by
      obtain ⟨client, kind, rk, content, pay⟩ := d
      simp only at hc
      subst hc
      simp [obsOfAns, hg]
    rcases hp.2 with h1 | h1
    · rw [hl] at h1; cases h1
    · rw [hlo] at h1; cases h1
  · have hc : ∃ lt, d.content = .txs lt := by
      rw [h] at hf
      cases hcc : d.content <;> simp [hcc, contentFam] at hf
      exact ⟨_, rfl⟩
    obtain ⟨lt, hc⟩ := hc
    have hcw : ∃ l', c = .txs l' := by
      rcases hwr with h | h <;> (rw [h]; simp only [written, hc]; split <;> exact ⟨_, rfl⟩)
    obtain ⟨l', rfl⟩ := hcw
    refine ⟨l', rfl, ?_⟩
    have hl' : l' = union ((txValid d).map (·.t))
        (match a.g.getD none with | some (.txs l) => if txMergesLocal then l else [] | _ => []) := by
      rcases hwr with h | h <;> exact written_txs h.symm
    intro x hx
    have e : txMergesLocal = true := by decide
    rw [hl', mem_union, hg]
    simp only [Option.getD_some, e, if_true]
    exact Or.inr hx
  · exact absurd hk.symm (rwKey_chunk_reg hf (Or.inr h) o hns)

/-- **`_partial` under the weaker hypothesis `ReadsLastWrite` (every validation starts when its key is still
cached or has nothing in flight; below capacity) and `NoChunkSquat`: the stored scratchpad counter never decreases
and the signature stays valid**, observed at points where the key is readable in that sense.  `NoChunkSquat` is
needed: `RecordStoreHasKey` reads the index, so a cached, not yet acknowledged scratchpad is REPLACED by a chunk
whose bytes are the owner's public key (`unacked_pad_replaced_by_chunk_witness`). -/
theorem store_scratchpad_never_regresses_cached_partial (cache : Nat) (pre post : List Op) (o m : Nat)
    (hd : ReadsLastWrite (fresh cache) (pre ++ post))
    (hns : NoChunkSquat (3 * o + 1) (ValidateStore.deliveriesOf post))
    (hr1 : Readable (runOps (fresh cache) pre) (3 * o + 1))
    (hr2 : Readable (runOps (fresh cache) (pre ++ post)) (3 * o + 1))
    (hv : view (runOps (fresh cache) pre) (3 * o + 1) = some (.pad m true)) :
    ∃ m', m ≤ m' ∧ view (runOps (fresh cache) (pre ++ post)) (3 * o + 1) = some (.pad m' true) := by
  obtain ⟨hd1, hd2⟩ := ValidateStore.ReadsLastWrite_append hd
  obtain ⟨w1, s1, hrel1, _⟩ := ValidateStore.runOps_inv (fun _ => True) (fun _ _ _ _ _ => trivial) pre
    (ValidateStore.rel_fresh cache) hd1 trivial
  rw [ValidateStore.view_of_readable hrel1 _ hr1] at hv
  obtain ⟨w2, s2, hrel2, m', hle, hg⟩ := ValidateStore.runOps_invQ (fun d => d.content ≠ .chunkPre (3 * o + 1))
    (fun s => ∃ m', m ≤ m' ∧ s.get (3 * o + 1) = some (.pad m' true))
    (by
      intro vs s dx hq ⟨m1, hle1, hg1⟩ hview
      rcases applyToks_get (ValidateStore.validateS vs dx.d).2 s (3 * o + 1) with h | ⟨c, hm, hgc⟩
      · exact ⟨m1, hle1, by rw [h, hg1]⟩
      · have hk : 3 * o + 1 = rwKey dx.d := (W_mem_inv hm).1
        have hga : (ValidateStore.ansOf vs dx.d).g = some (some (.pad m1 true)) := by
          simp only [ValidateStore.ansOf]; rw [hview, ← hk, hg1]
        obtain ⟨n, rfl, hlt⟩ := put_over_pad_any hq hm hga
        exact ⟨n, by omega, hgc⟩)
    post hrel1 hd2 hns ⟨m, Nat.le_refl _, hv⟩
  rw [ValidateStore.runOps_append, ValidateStore.view_of_readable hrel2 _ (by rw [← ValidateStore.runOps_append]; exact hr2)]
  exact ⟨m', hle, hg⟩

/-- **… and a stored transaction is never lost.** -/
theorem store_transactions_never_lost_cached_partial (cache : Nat) (pre post : List Op) (o : Nat) (l : List Nat)
    (hd : ReadsLastWrite (fresh cache) (pre ++ post))
    (hns : NoChunkSquat (3 * o + 1) (ValidateStore.deliveriesOf post))
    (hr1 : Readable (runOps (fresh cache) pre) (3 * o + 1))
    (hr2 : Readable (runOps (fresh cache) (pre ++ post)) (3 * o + 1))
    (hv : view (runOps (fresh cache) pre) (3 * o + 1) = some (.txs l)) :
    ∃ l', view (runOps (fresh cache) (pre ++ post)) (3 * o + 1) = some (.txs l') ∧ ∀ x ∈ l, x ∈ l' := by
  obtain ⟨hd1, hd2⟩ := ValidateStore.ReadsLastWrite_append hd
  obtain ⟨w1, s1, hrel1, _⟩ := ValidateStore.runOps_inv (fun _ => True) (fun _ _ _ _ _ => trivial) pre
    (ValidateStore.rel_fresh cache) hd1 trivial
  rw [ValidateStore.view_of_readable hrel1 _ hr1] at hv
  obtain ⟨w2, s2, hrel2, l', hg, hsub⟩ := ValidateStore.runOps_invQ (fun d => d.content ≠ .chunkPre (3 * o + 1))
    (fun s => ∃ l', s.get (3 * o + 1) = some (.txs l') ∧ ∀ x ∈ l, x ∈ l')
    (by
      intro vs s dx hq ⟨l1, hg1, hs1⟩ hview
      rcases applyToks_get (ValidateStore.validateS vs dx.d).2 s (3 * o + 1) with h | ⟨c, hm, hgc⟩
      · exact ⟨l1, by rw [h, hg1], hs1⟩
      · have hk : 3 * o + 1 = rwKey dx.d := (W_mem_inv hm).1
        have hga : (ValidateStore.ansOf vs dx.d).g = some (some (.txs l1)) := by
          simp only [ValidateStore.ansOf]; rw [hview, ← hk, hg1]
        obtain ⟨l2, rfl, hs2⟩ := put_over_txs_any hq hm hga
        exact ⟨l2, hgc, fun x hx => hs2 x (hs1 x hx)⟩)
    post hrel1 hd2 hns ⟨l, hv, fun x hx => hx⟩
  rw [ValidateStore.runOps_append, ValidateStore.view_of_readable hrel2 _ (by rw [← ValidateStore.runOps_append]; exact hr2)]
  exact ⟨l', hg, hsub⟩

end Cached


/-! ## K-f5: record keys carry no kind tag — a Chunk can take an owner-derived key

`NetworkAddress::to_record_key` maps a chunk address (SHA3-256 of the chunk's bytes), a scratchpad and a transaction
address (SHA3-256 of the 48 owner public-key bytes) and a register address (SHA3-256 of `meta ‖ pk`) to the same bare
32 bytes.  A PAID chunk whose value is exactly an owner's public key (public: it is in the outputs of every parent
transaction) — or a register's `meta ‖ pk` — is therefore accepted and stored under that owner's scratchpad /
transaction (register) key, as `RecordType::Chunk`; so is the same chunk arriving by replication.  From then on the
local read of every validation of that key returns the chunk: a scratchpad and a register fail to decode it (`parse`),
a transaction set meets the wrong header kind (`kindMismatch`) — on the paid, unpaid and replication paths alike, the
payment of a paid upload being taken first.  The owner's validly signed records are never stored on that node.

C04 is not affected: every record still sits under the key its own content determines (the chunk under the hash of
its bytes).  What fails is C07's "the stored version is the highest validly signed version delivered" / "the union of
all validly signed transactions (operations) delivered", for keys the node did not hold.  Full statements below,
refuted on concrete histories (replayed on the real node by `./check`), each proved under `NoCrossKindSquat`
(`highest_valid_pad_kept_partial`, `valid_transactions_kept_partial`, `valid_register_kept_partial` — the register one
additionally under `SameBaseRegister`: an owner-signed base register with other permissions has the same address and
is refused / refuses as `DifferentBaseRegister`).  The same
exception was known for the scratchpad / transaction pair of one owner (which share a key by design); the theorems
now name the general cause.  Repair = domain-separated addresses (a kind tag under the hash): wire format, not small. -/
section CrossKindSquat

def goodPay : PayD :=
  ⟨[⟨0, 0, true, true, true, true, 5⟩, ⟨1, 1, true, true, true, true, 2⟩, ⟨2, 2, true, true, true, true, 3⟩], [0, 1, 2]⟩

/-- a fully PAID client upload of the chunk whose bytes are address preimage `k` -/
def squat (k : Nat) : Delivery := ⟨true, .chunkp, k, .chunkPre k, some goodPay⟩
/-- the same chunk arriving by replication -/
def squatRepl (k : Nat) : Delivery := ⟨false, .chunk, k, .chunkPre k, none⟩

/-- **The named hypothesis of K-f5**: every delivery of the history that reads and writes key `k` and whose content
decodes at all carries content of family `fam` (1 scratchpad, 2 transaction set, 3 register).  This is MORE than "no
squatting chunk": it excludes (a) a chunk whose bytes are that key's preimage (`chunkPre k`), (b) for an owner key
`3·o+1` the OTHER owner-keyed kind of the same owner — with `fam = 1` every transaction delivery of owner `o` (paid
upload or a replicated vector presented under that key), with `fam = 2` every scratchpad of `o`: the two kinds share
the key and whichever arrives first keeps it — and (c) any content of another family presented under `k` whose own
derived key is `k`.  Undecodable content (`.bad`, no family) is allowed: it never parses, hence never writes.
Deliveries that read and write other keys are unconstrained. -/
def NoCrossKindSquat (k fam : Nat) (ds : List Delivery) : Prop :=
  ∀ d ∈ ds, rwKey d = k → ∀ f, contentFam d.content = some f → f = fam

/-- **Full strength** (C07, scratchpads, a key not held): after any serial history the owner's key holds a validly
signed scratchpad at least as high as every validly signed version that arrived replicated or fully paid -/
def HighestValidPadKept : Prop :=
  ∀ (s : Store) (ds : List Delivery) (o n : Nat) (d : Delivery) (ha : PadArrives o n d),
    s.get (3 * o + 1) = none → d ∈ ds → ha.fresh = true →
    ∃ M, (runSerial s ds).get (3 * o + 1) = some (.pad M true) ∧ n ≤ M

/-- **Full strength** (transactions, a key not held): a validly signed transaction replicated for its owner's key is
in the stored set afterwards -/
def ValidTransactionsKept : Prop :=
  ∀ (s : Store) (ds : List Delivery) (o t : Nat),
    s.get (3 * o + 1) = none → txVec (3 * o + 1) [⟨o, t, true⟩] ∈ ds → t ∈ localTxs (runSerial s ds) (3 * o + 1)

/-- **Full strength** (registers, a key not held): a permitted operation of a replicated register that verifies is
in the stored register afterwards -/
def ValidRegisterKept : Prop :=
  ∀ (s : Store) (ds : List Delivery) (id x : Nat),
    s.get (3 * id + 2) = none → regVec id .good [⟨x, .v⟩] ∈ ds →
    ∃ alt l, (runSerial s ds).get (3 * id + 2) = some (.reg alt l) ∧ x ∈ l

/-- **Witness (scratchpad / transaction key)**: nothing held; a paid chunk whose bytes are owner 0's public key is
stored at key 1; then the owner's scratchpad is refused on the paid (payment taken: `P 5`), unpaid and replication
paths, and so are the owner's transactions; the store keeps the chunk. -/
theorem chunk_squats_owner_key_witness :
    validate (squat 1) [] = (.ok, [.H 1, .K, .V, .P 5, .W 1 .chunk, .F 1 .c, .R 1 .c]) ∧
    validate ⟨true, .padp, 1, .pad 0 3 true, some goodPay⟩ [(1, .chunk)] = (.parse, [.H 1, .K, .V, .P 5, .G 1]) ∧
    validate ⟨true, .pad, 1, .pad 0 3 true, none⟩ [(1, .chunk)] = (.parse, [.H 1, .G 1]) ∧
    validate (upd 3) [(1, .chunk)] = (.parse, [.G 1]) ∧
    validate ⟨true, .txp, 1, .txs [⟨0, 1, true⟩], some goodPay⟩ [(1, .chunk)] = (.kindMismatch, [.H 1, .K, .V, .P 5, .G 1]) ∧
    validate (txd 1) [(1, .chunk)] = (.kindMismatch, [.G 1]) ∧
    runSerial [] [squat 1, ⟨true, .padp, 1, .pad 0 3 true, some goodPay⟩, upd 3, txd 1] = [(1, .chunk)] ∧
    runSerial [] [squatRepl 1, upd 3, txd 1] = [(1, .chunk)] := by
  decide

/-- **Witness (register key)**: the chunk whose bytes are register 0's `meta ‖ pk` takes key 2; the register is
refused on every path. -/
theorem chunk_squats_register_key_witness :
    validate (squat 2) [] = (.ok, [.H 2, .K, .V, .P 5, .W 2 .chunk, .F 2 .c, .R 2 .c]) ∧
    validate ⟨true, .regp, 2, .reg 0 .good [⟨1, .v⟩], some goodPay⟩ [(2, .chunk)] = (.parse, [.H 2, .K, .V, .P 5, .H 2, .G 2]) ∧
    validate ⟨true, .reg, 2, .reg 0 .good [⟨1, .v⟩], none⟩ [(2, .chunk)] = (.parse, [.H 2, .H 2, .G 2]) ∧
    validate (regVec 0 .good [⟨1, .v⟩]) [(2, .chunk)] = (.parse, [.H 2, .G 2]) ∧
    runSerial [] [squat 2, regVec 0 .good [⟨1, .v⟩]] = [(2, .chunk)] := by
  decide

/-- **The reverse**: the owner's scratchpad is held; the chunk whose bytes are the owner's key is "already there" —
`ok`, the payment taken, nothing stored (C04 intact: the pad is never replaced), and the key is announced for
replication as a Chunk although a scratchpad is held. -/
theorem chunk_upload_at_held_pad_witness :
    validate (squat 1) [(1, .pad 3 true)] = (.ok, [.H 1, .K, .V, .P 5, .F 1 .c, .R 1 .c]) ∧
    validate (squatRepl 1) [(1, .pad 3 true)] = (.ok, [.H 1]) ∧
    validate (squatRepl 1) [(1, .txs [1])] = (.ok, [.H 1]) ∧
    validate (squatRepl 2) [(2, .reg false [1])] = (.ok, [.H 2]) := by
  decide

theorem highestValidPadKept_false : ¬ HighestValidPadKept := by
  intro h
  obtain ⟨M, hM, _⟩ := h [] [squat 1, upd 3] 0 3 (upd 3) .repl rfl (by simp) rfl
  have hc : (runSerial [] [squat 1, upd 3]).get (3 * 0 + 1) = some .chunk := by decide
  rw [hc] at hM
  cases hM

theorem validTransactionsKept_false : ¬ ValidTransactionsKept := by
  intro h
  have := h [] [squat 1, txVec (3 * 0 + 1) [⟨0, 1, true⟩]] 0 1 rfl (by simp)
  revert this
  decide

theorem validRegisterKept_false : ¬ ValidRegisterKept := by
  intro h
  obtain ⟨alt, l, hg, _⟩ := h [] [squat 2, regVec 0 .good [⟨1, .v⟩]] 0 1 rfl (by simp)
  have hc : (runSerial [] [squat 2, regVec 0 .good [⟨1, .v⟩]]).get (3 * 0 + 2) = some .chunk := by decide
  rw [hc] at hg
  cases hg

/-- under the hypothesis, a put at `k` carries content of the family the key is reserved for -/
theorem squat_free_put {d : Delivery} {s : Store} {k fam : Nat} {c : Content}
    (hns : rwKey d = k → ∀ f, contentFam d.content = some f → f = fam) (hW : Tok.W k c ∈ (validate d s).2) :
    c.fam = fam ∧ contentFam d.content = some fam := by
  rw [validate_trace] at hW
  obtain ⟨hk, hf0, _, hwr⟩ := put_any_key hW
  have hf := hns hk.symm _ hf0
  rw [hf] at hf0
  refine ⟨?_, hf0⟩
  rcases hwr with h | h <;> rw [h] <;> exact written_fam d _ _ fam hf0

theorem squat_free_step_pad {d : Delivery} {s : Store} {o : Nat}
    (hns : rwKey d = 3 * o + 1 → ∀ f, contentFam d.content = some f → f = 1)
    (hinv : s.get (3 * o + 1) = none ∨ ∃ m, s.get (3 * o + 1) = some (.pad m true)) :
    (deliverSeq s d).get (3 * o + 1) = none ∨ ∃ m, (deliverSeq s d).get (3 * o + 1) = some (.pad m true) := by
  unfold deliverSeq
  rcases applyToks_get (validate d s).2 s (3 * o + 1) with h | ⟨c, hm, hg⟩
  · rw [h]; exact hinv
  · right
    have hf := (squat_free_put hns hm).1
    cases c with
    | pad n v =>
      obtain ⟨hv, _⟩ := stored_scratchpad_valid d s _ n v hm
      subst hv
      exact ⟨n, hg⟩
    | chunk => simp [Content.fam] at hf
    | txs l => simp [Content.fam] at hf
    | reg a l => simp [Content.fam] at hf

/-- **`_partial` (scratchpads), named hypothesis `NoCrossKindSquat`**: per-key serialisation, the owner's key not
held (or holding a validly signed scratchpad), and nothing but scratchpads delivered for that key — then the key ends
up holding a validly signed scratchpad at least as high as every validly signed version that arrived replicated or
fully paid. -/
theorem highest_valid_pad_kept_partial (ds : List Delivery) (s : Store) (o n : Nat) (d : Delivery)
    (ha : PadArrives o n d)
    (hinv : s.get (3 * o + 1) = none ∨ ∃ m, s.get (3 * o + 1) = some (.pad m true))
    (hns : NoCrossKindSquat (3 * o + 1) 1 ds) (hd : d ∈ ds) (hf : ha.fresh = true) :
    ∃ M, (runSerial s ds).get (3 * o + 1) = some (.pad M true) ∧ n ≤ M := by
  induction ds generalizing s with
  | nil => cases hd
  | cons d0 rest ih =>
    have hns0 := hns d0 (List.mem_cons_self ..)
    have hnsr : NoCrossKindSquat (3 * o + 1) 1 rest := fun d' h' => hns d' (List.mem_cons_of_mem _ h')
    have hinv' := squat_free_step_pad hns0 hinv
    rcases List.mem_cons.mp hd with rfl | hd
    · have hnow : ∃ m1, n ≤ m1 ∧ (deliverSeq s d).get (3 * o + 1) = some (.pad m1 true) := by
        rcases hinv with hnone | ⟨m, hm⟩
        · exact ⟨n, Nat.le_refl _, pad_arrives_applied ha s (Or.inl ⟨hnone, hf⟩)⟩
        · by_cases hlt : m < n
          · exact ⟨n, Nat.le_refl _, pad_arrives_applied ha s (Or.inr ⟨m, true, hm, hlt⟩)⟩
          · obtain ⟨m1, h1, hg1⟩ := deliverSeq_monotone d s _ m hm
            exact ⟨m1, by omega, hg1⟩
      obtain ⟨m1, hle, hg1⟩ := hnow
      obtain ⟨M, hle2, hg⟩ := serial_scratchpad_never_regresses_partial rest (deliverSeq s d) _ m1 hg1
      exact ⟨M, hg, by omega⟩
    · exact ih (deliverSeq s d0) hinv' hnsr hd

theorem squat_free_step_txs {d : Delivery} {s : Store} {k : Nat}
    (hns : rwKey d = k → ∀ f, contentFam d.content = some f → f = 2)
    (hinv : s.get k = none ∨ ∃ l, s.get k = some (.txs l)) :
    (deliverSeq s d).get k = none ∨ ∃ l, (deliverSeq s d).get k = some (.txs l) := by
  unfold deliverSeq
  rcases applyToks_get (validate d s).2 s k with h | ⟨c, hm, hg⟩
  · rw [h]; exact hinv
  · right
    have hf := (squat_free_put hns hm).1
    cases c with
    | txs l => exact ⟨l, hg⟩
    | chunk => simp [Content.fam] at hf
    | pad n v => simp [Content.fam] at hf
    | reg a l => simp [Content.fam] at hf

/-- a validly signed transaction replicated to its owner's key, not held: stored -/
theorem replicated_tx_applied_fresh (s : Store) (o t : Nat) (hnone : s.get (3 * o + 1) = none) :
    (deliverSeq s (txVec (3 * o + 1) [⟨o, t, true⟩])).get (3 * o + 1) = some (.txs [t]) := by
  have e1 : txFiltersInvalid = true := by decide
  have e2 : txFiltersForeign = true := by decide
  have e3 : txMergesLocal = true := by decide
  simp [deliverSeq, validate, seqAns, txVec, rwKey, route, replRoute, hnone, obsOfAns, parseOk,
    contentFam, kindFam, isPaid, skel, storeTx, rej, Out.trace, e1, e2, e3, applyToks, inst,
    txValid, txForKey, written, get_put_same, union, insertSorted]

/-- **`_partial` (transactions), named hypothesis `NoCrossKindSquat`** -/
theorem valid_transactions_kept_partial (ds : List Delivery) (s : Store) (o t : Nat)
    (hinv : s.get (3 * o + 1) = none ∨ ∃ l, s.get (3 * o + 1) = some (.txs l))
    (hns : NoCrossKindSquat (3 * o + 1) 2 ds) (hd : txVec (3 * o + 1) [⟨o, t, true⟩] ∈ ds) :
    t ∈ localTxs (runSerial s ds) (3 * o + 1) := by
  induction ds generalizing s with
  | nil => cases hd
  | cons d0 rest ih =>
    have hns0 := hns d0 (List.mem_cons_self ..)
    have hnsr : NoCrossKindSquat (3 * o + 1) 2 rest := fun d' h' => hns d' (List.mem_cons_of_mem _ h')
    have hinv' := squat_free_step_txs hns0 hinv
    rcases List.mem_cons.mp hd with rfl | hd
    · have hnow : ∃ l1, (deliverSeq s (txVec (3 * o + 1) [⟨o, t, true⟩])).get (3 * o + 1) = some (.txs l1) ∧ t ∈ l1 := by
        rcases hinv with hnone | ⟨l, hl⟩
        · exact ⟨[t], replicated_tx_applied_fresh s o t hnone, by simp⟩
        · obtain ⟨l1, hg1, hm1⟩ := replicated_txs_applied s (3 * o + 1) [⟨o, t, true⟩] l hl
          exact ⟨l1, hg1, (hm1 t).mpr (Or.inr (by simp [validFor]))⟩
      obtain ⟨l1, hg1, ht⟩ := hnow
      obtain ⟨l2, hg2, hsub⟩ := serial_transactions_never_lost_partial rest _ _ l1 hg1
      show t ∈ localTxs (runSerial (deliverSeq s (txVec (3 * o + 1) [⟨o, t, true⟩])) rest) (3 * o + 1)
      rw [localTxs, hg2]
      exact hsub t ht
    · exact ih (deliverSeq s d0) hinv' hnsr hd

/-- non-vacuity of the two `_partial` theorems: the hypotheses are met by histories that contain a squatting chunk on
ANOTHER key (and end as the theorems say) -/
example : ∃ M, (runSerial [] [upd 3, squat 2, upd 7]).get (3 * 0 + 1) = some (.pad M true) ∧ 7 ≤ M :=
  highest_valid_pad_kept_partial [upd 3, squat 2, upd 7] [] 0 7 (upd 7) .repl (Or.inl rfl)
    (by intro d hd; simp only [List.mem_cons, List.not_mem_nil, or_false] at hd; rcases hd with rfl | rfl | rfl <;> decide)
    (by simp) rfl
example : (runSerial [] [upd 3, squat 2, upd 7]).get 1 = some (.pad 7 true) := by decide
example : 2 ∈ localTxs (runSerial [] [txd 1, squat 2, txVec (3 * 0 + 1) [⟨0, 2, true⟩]]) (3 * 0 + 1) :=
  valid_transactions_kept_partial [txd 1, squat 2, txVec (3 * 0 + 1) [⟨0, 2, true⟩]] [] 0 2 (Or.inl rfl)
    (by intro d hd; simp only [List.mem_cons, List.not_mem_nil, or_false] at hd; rcases hd with rfl | rfl | rfl <;> decide)
    (by simp)
example : localTxs (runSerial [] [txd 1, squat 2, txVec 1 [⟨0, 2, true⟩]]) 1 = [1, 2] := by decide

/-! ### Registers -/

/-- every register delivered for key `k` has the base register with owner-only permissions (`regAlt = false`): the
base register (permissions included) is owner-signed but NOT part of the address, so the owner can sign two base
registers for one address; the node keeps whichever arrived first and refuses the other (`DifferentBaseRegister`) -/
def SameBaseRegister (k : Nat) (ds : List Delivery) : Prop :=
  ∀ d ∈ ds, rwKey d = k → ∀ id b ops, d.content = .reg id b ops → regAlt b = false

theorem squat_free_step_reg {d : Delivery} {s : Store} {k : Nat}
    (hns : rwKey d = k → ∀ f, contentFam d.content = some f → f = 3)
    (hb : rwKey d = k → ∀ id b ops, d.content = .reg id b ops → regAlt b = false)
    (hinv : s.get k = none ∨ ∃ l, s.get k = some (.reg false l)) :
    (deliverSeq s d).get k = none ∨ ∃ l, (deliverSeq s d).get k = some (.reg false l) := by
  unfold deliverSeq
  rcases applyToks_get (validate d s).2 s k with h | ⟨c, hm, hg⟩
  · rw [h]; exact hinv
  · right
    have hf := (squat_free_put hns hm).2
    rw [validate_trace] at hm
    obtain ⟨hk, _, _, hwr⟩ := put_any_key hm
    obtain ⟨id, b, ops, hc⟩ : ∃ id b ops, d.content = .reg id b ops := by
      cases hcc : d.content <;> simp [hcc, contentFam] at hf
      exact ⟨_, _, _, rfl⟩
    have hbf := hb hk.symm id b ops hc
    have hgk : (seqAns d s).g = some (s.get k) := by rw [seq_g, ← hk]
    have hcw : ∃ l, c = .reg false l := by
      rcases hinv with hn | ⟨l, hl⟩
      · rw [hn] at hgk
        rcases hwr with h | h <;> (rw [h]; simp only [written, hc, hgk, hbf]; exact ⟨_, rfl⟩)
      · rw [hl] at hgk
        rcases hwr with h | h <;> (rw [h]; simp only [written, hc, hgk, hbf]; exact ⟨_, rfl⟩)
    obtain ⟨l, rfl⟩ := hcw
    exact ⟨l, hg⟩

/-- a replicated register copy that verifies, for a key not held: stored as it is -/
theorem replicated_reg_applied_fresh (s : Store) (id x : Nat) (hnone : s.get (3 * id + 2) = none) :
    (deliverSeq s (regVec id .good [⟨x, .v⟩])).get (3 * id + 2) = some (.reg false [x]) := by
  have e1 : regVerifies = true := by decide
  have e2 : regReplChecksKey = true := by decide
  simp [deliverSeq, validate, seqAns, regVec, rwKey, route, replRoute, derivedKey, hnone, obsOfAns, parseOk,
    contentFam, kindFam, isPaid, skel, storeReg, rej, Out.trace, e1, e2, applyToks, inst, written, get_put_same,
    union, insertSorted, regAlt, opValid]

/-- **`_partial` (registers), named hypotheses `NoCrossKindSquat` and `SameBaseRegister`**: per-key serialisation,
the register's key not held (or holding that register), nothing but copies of that base register delivered for the
key — then a permitted operation of a replicated copy that verifies is in the stored register afterwards. -/
theorem valid_register_kept_partial (ds : List Delivery) (s : Store) (id x : Nat)
    (hinv : s.get (3 * id + 2) = none ∨ ∃ l, s.get (3 * id + 2) = some (.reg false l))
    (hns : NoCrossKindSquat (3 * id + 2) 3 ds) (hb : SameBaseRegister (3 * id + 2) ds)
    (hd : regVec id .good [⟨x, .v⟩] ∈ ds) :
    ∃ l, (runSerial s ds).get (3 * id + 2) = some (.reg false l) ∧ x ∈ l := by
  induction ds generalizing s with
  | nil => cases hd
  | cons d0 rest ih =>
    have hns0 := hns d0 (List.mem_cons_self ..)
    have hb0 := hb d0 (List.mem_cons_self ..)
    have hnsr : NoCrossKindSquat (3 * id + 2) 3 rest := fun d' h' => hns d' (List.mem_cons_of_mem _ h')
    have hbr : SameBaseRegister (3 * id + 2) rest := fun d' h' => hb d' (List.mem_cons_of_mem _ h')
    have hinv' := squat_free_step_reg hns0 hb0 hinv
    rcases List.mem_cons.mp hd with rfl | hd
    · have hnow : ∃ l1, (deliverSeq s (regVec id .good [⟨x, .v⟩])).get (3 * id + 2) = some (.reg false l1) ∧ x ∈ l1 := by
        rcases hinv with hnone | ⟨l, hl⟩
        · exact ⟨[x], replicated_reg_applied_fresh s id x hnone, by simp⟩
        · obtain ⟨l1, hg1, hm1⟩ := replicated_reg_applied s id .good [⟨x, .v⟩] false l hl
          exact ⟨l1, hg1, (hm1 x).mpr (Or.inr (by simp [accOps, accepts, opValid, regAlt]))⟩
      obtain ⟨l1, hg1, hx⟩ := hnow
      obtain ⟨l2, hg2, hsub⟩ := serial_register_never_lost_partial rest _ _ false l1 hg1
      exact ⟨l2, hg2, hsub x hx⟩
    · exact ih (deliverSeq s d0) hinv' hnsr hbr hd

example : ∃ l, (runSerial [] [regVec 0 .good [⟨1, .v⟩], squat 1, regVec 0 .good [⟨2, .v⟩]]).get (3 * 0 + 2) = some (.reg false l) ∧ 2 ∈ l :=
  valid_register_kept_partial [regVec 0 .good [⟨1, .v⟩], squat 1, regVec 0 .good [⟨2, .v⟩]] [] 0 2 (Or.inl rfl)
    (by intro d hd; simp only [List.mem_cons, List.not_mem_nil, or_false] at hd; rcases hd with rfl | rfl | rfl <;> decide)
    (by
      intro d hd
      simp only [List.mem_cons, List.not_mem_nil, or_false] at hd
      rcases hd with rfl | rfl | rfl <;> intro _ id b ops hc <;> simp only [regVec, squat] at hc <;>
        first | (cases hc; rfl) | cases hc)
    (by simp)
example : (runSerial [] [regVec 0 .good [⟨1, .v⟩], squat 1, regVec 0 .good [⟨2, .v⟩]]).get 2 = some (.reg false [1, 2]) := by decide
/-- the other base register first: the owner-only copy is refused from then on (why `SameBaseRegister` is needed) -/
example : (runSerial [] [regVec 0 .alt [⟨1, .v⟩], regVec 0 .good [⟨2, .v⟩]]).get 2 = some (.reg true [1]) := by decide

end CrossKindSquat

/-! ## Removal of a held record (capacity prune, `cleanup_irrelevant_records`, `RemoveFailedLocalRecord`)

The node keeps no memory of a key it dropped.  A history is a list of deliveries, each processed alone, and removals
of keys placed anywhere between them.  Reading taken of C07: "for any sequence of updates reaching a node … the stored
version is the highest validly signed version delivered" is a statement about the whole sequence, and it is FALSE
across a removal: scratchpad 7 held, pruned, then 5 replicated in from a lagging peer is stored as a first arrival
(K-f6).  Under `NoRemoval k` every sequential theorem above carries over unchanged. -/
section Removal

inductive HOp
  | deliver (d : Delivery)
  | evict (k : Nat)
deriving DecidableEq, Repr

def stepH (s : Store) : HOp → Store
  | .deliver d => deliverSeq s d
  | .evict k => s.remove k

def runHist (s : Store) (ops : List HOp) : Store := ops.foldl stepH s

/-- **The named hypothesis**: the history never drops key `k` -/
def NoRemoval (k : Nat) (ops : List HOp) : Prop := ∀ op ∈ ops, op ≠ .evict k

/-- **Full strength**: in every history of non-overlapping validations and removals, a scratchpad counter the store
has shown is never undercut by a later stored version -/
def StoredCounterNeverDecreasesAcrossRemoval : Prop :=
  ∀ (s : Store) (pre post : List HOp) (k m m' : Nat) (v : Bool),
    (runHist s pre).get k = some (.pad m true) → (runHist s (pre ++ post)).get k = some (.pad m' v) → m ≤ m'

/-- **Witness**: 7 held; the record is dropped; 5 arrives by replication and is stored -/
theorem evicted_then_lower_accepted_witness :
    (runHist [(1, .pad 3 true)] [.deliver (upd 7)]).get 1 = some (.pad 7 true) ∧
    (runHist [(1, .pad 3 true)] [.deliver (upd 7), .evict 1, .deliver (upd 5)]).get 1 = some (.pad 5 true) ∧
    validate (upd 5) [] = (.ok, [.G 1, .W 1 (.pad 5 true)]) := by
  decide

theorem storedCounterNeverDecreasesAcrossRemoval_false : ¬ StoredCounterNeverDecreasesAcrossRemoval := by
  intro h
  have := h [(1, .pad 3 true)] [.deliver (upd 7)] [.evict 1, .deliver (upd 5)] 1 7 5 true
    evicted_then_lower_accepted_witness.1 evicted_then_lower_accepted_witness.2.1
  omega

/-- the same for a transaction set: {1,2} held, dropped, {3} replicated in: 1 and 2 are gone -/
theorem evicted_then_set_restarts_witness :
    (runHist [(1, .txs [1, 2])] [.evict 1, .deliver (txd 3)]).get 1 = some (.txs [3]) := by
  decide

theorem runHist_append (s : Store) (a b : List HOp) : runHist s (a ++ b) = runHist (runHist s a) b := by
  simp [runHist, List.foldl_append]

/-- **`_partial`, named hypothesis `NoRemoval k`**: removals of OTHER keys anywhere, key `k` never dropped — a
stored scratchpad never regresses and stays validly signed -/
theorem hist_scratchpad_never_regresses_partial (pre post : List HOp) (s : Store) (k m : Nat)
    (hnr : NoRemoval k post) (hheld : (runHist s pre).get k = some (.pad m true)) :
    ∃ m', m ≤ m' ∧ (runHist s (pre ++ post)).get k = some (.pad m' true) := by
  rw [runHist_append]
  generalize runHist s pre = s1 at hheld
  induction post generalizing s1 m with
  | nil => exact ⟨m, Nat.le_refl _, hheld⟩
  | cons op rest ih =>
    have hnr' : NoRemoval k rest := fun op' h' => hnr op' (List.mem_cons_of_mem _ h')
    cases op with
    | deliver d =>
      obtain ⟨m1, h1, hg1⟩ := deliverSeq_monotone d s1 k m hheld
      obtain ⟨m2, h2, hg2⟩ := ih (hnr := hnr') (hheld := hg1)
      exact ⟨m2, Nat.le_trans h1 h2, hg2⟩
    | evict k' =>
      have hne : k ≠ k' := by
        intro he; subst he; exact hnr (.evict k) (List.mem_cons_self ..) rfl
      have hg1 : (s1.remove k').get k = some (.pad m true) := by rw [Store.get_remove, if_neg hne]; exact hheld
      exact ih (hnr := hnr') (hheld := hg1)

/-- … and a stored transaction is never lost -/
theorem hist_transactions_never_lost_partial (pre post : List HOp) (s : Store) (k : Nat) (l : List Nat)
    (hnr : NoRemoval k post) (hheld : (runHist s pre).get k = some (.txs l)) :
    ∃ l', (runHist s (pre ++ post)).get k = some (.txs l') ∧ ∀ x ∈ l, x ∈ l' := by
  rw [runHist_append]
  generalize runHist s pre = s1 at hheld
  induction post generalizing s1 l with
  | nil => exact ⟨l, hheld, fun x hx => hx⟩
  | cons op rest ih =>
    have hnr' : NoRemoval k rest := fun op' h' => hnr op' (List.mem_cons_of_mem _ h')
    cases op with
    | deliver d =>
      obtain ⟨l1, hg1, h1⟩ := deliverSeq_txs_monotone d s1 k l hheld
      obtain ⟨l2, hg2, h2⟩ := ih (hnr := hnr') (hheld := hg1)
      exact ⟨l2, hg2, fun x hx => h2 x (h1 x hx)⟩
    | evict k' =>
      have hne : k ≠ k' := by
        intro he; subst he; exact hnr (.evict k) (List.mem_cons_self ..) rfl
      have hg1 : (s1.remove k').get k = some (.txs l) := by rw [Store.get_remove, if_neg hne]; exact hheld
      exact ih (hnr := hnr') (hheld := hg1)

/-- … and a stored register operation is never lost -/
theorem hist_register_never_lost_partial (pre post : List HOp) (s : Store) (k : Nat) (alt : Bool) (l : List Nat)
    (hnr : NoRemoval k post) (hheld : (runHist s pre).get k = some (.reg alt l)) :
    ∃ l', (runHist s (pre ++ post)).get k = some (.reg alt l') ∧ ∀ x ∈ l, x ∈ l' := by
  rw [runHist_append]
  generalize runHist s pre = s1 at hheld
  induction post generalizing s1 l with
  | nil => exact ⟨l, hheld, fun x hx => hx⟩
  | cons op rest ih =>
    have hnr' : NoRemoval k rest := fun op' h' => hnr op' (List.mem_cons_of_mem _ h')
    cases op with
    | deliver d =>
      obtain ⟨l1, hg1, h1⟩ := deliverSeq_reg_monotone d s1 k alt l hheld
      obtain ⟨l2, hg2, h2⟩ := ih (hnr := hnr') (hheld := hg1)
      exact ⟨l2, hg2, fun x hx => h2 x (h1 x hx)⟩
    | evict k' =>
      have hne : k ≠ k' := by
        intro he; subst he; exact hnr (.evict k) (List.mem_cons_self ..) rfl
      have hg1 : (s1.remove k').get k = some (.reg alt l) := by rw [Store.get_remove, if_neg hne]; exact hheld
      exact ih (hnr := hnr') (hheld := hg1)

/-- a history without removals is a serial run: every `runSerial` theorem is a theorem about it -/
theorem runHist_deliveries (s : Store) (ds : List Delivery) : runHist s (ds.map .deliver) = runSerial s ds := by
  induction ds generalizing s with
  | nil => rfl
  | cons d rest ih => simp only [List.map_cons, runHist, List.foldl_cons, runSerial] at ih ⊢; exact ih _

end Removal


/-! Non-vacuity -/
example : validate (upd 7) [(1, .pad 3 true)] = (.ok, [.G 1, .W 1 (.pad 7 true)]) := by decide
example : validate (upd 3) [(1, .pad 3 true)] = (.outdated, [.G 1]) := by decide
example : (validate ⟨false, .pad, 1, .pad 0 9 false, none⟩ [(1, .pad 3 true)]).1 = .invalidSig := by decide
example : runSerial [(1, .pad 3 true)] [upd 7, upd 5] = [(1, .pad 7 true)] := by decide
/-- a transaction replicated to a key holding the owner's scratchpad is refused, and vice versa -/
example : validate (txd 2) [(1, .pad 3 true)] = (.kindMismatch, [.G 1]) := by decide
example : validate (upd 7) [(1, .txs [1])] = (.parse, [.G 1]) := by decide
example : (validate ⟨false, .reg, 2, .reg 0 .good [⟨2, .v⟩, ⟨3, .u⟩], none⟩ [(2, .reg false [1])]).1 = .regInvalid := by decide

/-- registers: copies that verify are merged, a copy with an unpermitted op is refused as a whole -/
example : (runSerial [(2, .reg false [1])]
    [regVec 0 .good [⟨2, .v⟩], regVec 0 .good [⟨3, .u⟩], regVec 0 .good [⟨1, .v⟩, ⟨4, .v⟩]]).get 2 = some (.reg false [1, 2, 4]) := by
  decide
example : accOps false .good [⟨3, .u⟩] = [] ∧ accOps false .good [⟨1, .v⟩, ⟨4, .v⟩] = [1, 4] ∧ accOps true .good [⟨1, .v⟩] = [] := by decide
/-- first arrival: a replicated scratchpad is stored on a key not held, an unpaid client upload is not -/
example : (deliverSeq [] ⟨false, .pad, 1, .pad 0 4 true, none⟩).get 1 = some (.pad 4 true) := by decide
example : (deliverSeq [] ⟨true, .pad, 1, .pad 0 4 true, none⟩).get 1 = none := by decide
/-- the owner's transaction set took the shared key first: every scratchpad is refused from then on -/
example : (runSerial [] [txd 2, upd 7]).get 1 = some (.txs [2]) := by decide
/-- over the store: acknowledged ⇒ the register copies are merged; not acknowledged ⇒ overwritten -/
example : ValidateStore.view (ValidateStore.runOps (ValidateStore.fresh 25) [sReg 0 [1], .run 0, .ack 0, sReg 0 [2]]) 2
    = some (.reg false [1, 2]) := by decide +kernel

end SafeNet.Props.C07

#print axioms SafeNet.Props.C07.scratchpad_counter_strictly_increases
#print axioms SafeNet.Props.C07.stored_scratchpad_valid
#print axioms SafeNet.Props.C07.stored_scratchpad_valid_and_max
#print axioms SafeNet.Props.C07.tx_set_is_by_value
#print axioms SafeNet.Props.C07.transactions_grow
#print axioms SafeNet.Props.C07.transactions_union_serial
#print axioms SafeNet.Props.C07.transactions_order_independent
#print axioms SafeNet.Props.C07.register_grows
#print axioms SafeNet.Props.C07.invalid_or_foreign_never_stored
#print axioms SafeNet.Props.C07.serial_scratchpad_never_regresses_partial
#print axioms SafeNet.Props.C07.serial_transactions_never_lost_partial
#print axioms SafeNet.Props.C07.cross_kind_never_overwrites
#print axioms SafeNet.Props.C07.serial_kind_preserved_partial
#print axioms SafeNet.Props.C07.concurrent_regress_witness
#print axioms SafeNet.Props.C07.never_regresses_is_false
#print axioms SafeNet.Props.C07.concurrent_tx_loss_witness
#print axioms SafeNet.Props.C07.no_transaction_lost_is_false
#print axioms SafeNet.Props.C07.serial_register_never_lost_partial
#print axioms SafeNet.Props.C07.register_union_serial
#print axioms SafeNet.Props.C07.register_order_independent
#print axioms SafeNet.Props.C07.stale_read_regress_witness
#print axioms SafeNet.Props.C07.storedCounterNeverDecreasesOverStore_false
#print axioms SafeNet.Props.C07.stale_read_regress_default_cache_witness
#print axioms SafeNet.Props.C07.stale_read_tx_loss_witness
#print axioms SafeNet.Props.C07.noTransactionLostOverStore_false
#print axioms SafeNet.Props.C07.unacked_register_overwritten_witness
#print axioms SafeNet.Props.C07.noRegisterOpLostOverStore_false
#print axioms SafeNet.Props.C07.store_refines_serial_partial
#print axioms SafeNet.Props.C07.store_scratchpad_never_regresses_partial
#print axioms SafeNet.Props.C07.store_transactions_never_lost_partial
#print axioms SafeNet.Props.C07.store_register_never_lost_partial
#print axioms SafeNet.Props.C07.pad_signature_covers_counter_data_owner
#print axioms SafeNet.Props.C07.unsigned_data_encoding_witness
#print axioms SafeNet.Props.C07.everyStoredPadFieldOwnerSigned_false
#print axioms SafeNet.Props.C07.stored_pad_fields_owner_signed_partial
#print axioms SafeNet.Props.C07.pad_arrives_applied
#print axioms SafeNet.Props.C07.stored_scratchpad_valid_and_max_all_paths
#print axioms SafeNet.Props.C07.first_arrival_scratchpad_valid_and_max
#print axioms SafeNet.Props.C07.store_scratchpad_never_regresses_cached_partial
#print axioms SafeNet.Props.C07.store_transactions_never_lost_cached_partial
#print axioms SafeNet.Props.C07.chunk_squats_owner_key_witness
#print axioms SafeNet.Props.C07.chunk_squats_register_key_witness
#print axioms SafeNet.Props.C07.chunk_upload_at_held_pad_witness
#print axioms SafeNet.Props.C07.highestValidPadKept_false
#print axioms SafeNet.Props.C07.validTransactionsKept_false
#print axioms SafeNet.Props.C07.validRegisterKept_false
#print axioms SafeNet.Props.C07.highest_valid_pad_kept_partial
#print axioms SafeNet.Props.C07.valid_transactions_kept_partial
#print axioms SafeNet.Props.C07.evicted_then_lower_accepted_witness
#print axioms SafeNet.Props.C07.storedCounterNeverDecreasesAcrossRemoval_false
#print axioms SafeNet.Props.C07.evicted_then_set_restarts_witness
#print axioms SafeNet.Props.C07.hist_scratchpad_never_regresses_partial
#print axioms SafeNet.Props.C07.hist_transactions_never_lost_partial
#print axioms SafeNet.Props.C07.hist_register_never_lost_partial

#print axioms SafeNet.Props.C07.unacked_pad_replaced_by_chunk_witness
#print axioms SafeNet.Props.C07.valid_register_kept_partial
