import SafeNet.Proofs.Wire
/-!
# C12 — record and message encodings round-trip and stay wire-stable

Statements over `SafeNet.Base.MsgPack` (the MessagePack subset `rmp`/`rmp_serde` emit), `SafeNet.Model.Wire`
(serde-tree ↔ MessagePack embedding, record header, records, chunks) and the tables `rs2lean` regenerates from
`ant-protocol/src/storage/{header,chunks}.rs` (`SafeNet.Gen.Wire`: `serTag`, `deTag`, `headerSize`, …).
Helper lemmas live in `SafeNet.Proofs.MsgPack` and `SafeNet.Proofs.Wire`.
-/
namespace SafeNet.Props.C12
open SafeNet.MsgPack SafeNet.Wire SafeNet.Gen.Wire

/-- **decode_encode** (centre-piece): decoding the shortest-form encoding of any well-formed value gives the
value back together with exactly the bytes that followed it. -/
theorem decode_encode (v : Val) (rest : List Nat) (hw : WellFormed v) :
    decode (encode v ++ rest) = some (v, rest) :=
  SafeNet.MsgPack.decode_encode v rest hw

/-- **Typed round trip, every type at once**: a value `t` of the type described by schema `s`, serialised as
`rmp_serde` does and decoded, reads back as `t` (for well-formed schemas and values whose sizes fit the format). -/
theorem value_roundtrip (s : Schema) (t : Tree) (rest : List Nat) (hs : schemaOk s = true) (hc : conforms s t = true)
    (hw : treeWf t = true) :
    (decode (encode (toVal t) ++ rest)).bind (fun p => ofVal s p.1) = some t := by
  rw [SafeNet.MsgPack.decode_encode _ _ (toVal_wf t hw)]
  exact ofVal_toVal s t hs hc

/-- **header_two_bytes**: every kind's header is exactly `RecordHeader::SIZE` bytes: `0x91` and the tag. -/
theorem header_two_bytes (k : RecordKind) :
    headerBytes k = [0x91, serTag k] ∧ (headerBytes k).length = headerSize := by
  cases k <;> exact ⟨rfl, rfl⟩

/-- **tag_values**: the tags are the fixed assignment 0…7, the two directions of the table agree, nothing else is a tag. -/
theorem tag_values :
    (serTag .ChunkWithPayment = 0 ∧ serTag .Chunk = 1 ∧ serTag .Transaction = 2 ∧ serTag .Register = 3 ∧
     serTag .RegisterWithPayment = 4 ∧ serTag .Scratchpad = 5 ∧ serTag .ScratchpadWithPayment = 6 ∧
     serTag .TransactionWithPayment = 7) ∧
    (∀ k, deTag (serTag k) = some k) ∧
    (∀ n k, deTag n = some k → n = serTag k) ∧
    (∀ k k', serTag k = serTag k' → k = k') ∧
    (∀ n, (deTag n).isSome = true ↔ n < 8) := by
  refine ⟨by decide, by intro k; cases k <;> rfl, ?_, by intro k k' h; cases k <;> cases k' <;> first | rfl | (exact absurd h (by decide)), ?_⟩
  · intro n k h
    match n with
    | 0 | 1 | 2 | 3 | 4 | 5 | 6 | 7 => simp only [deTag, Option.some.injEq] at h; subst h; rfl
    | n + 8 => simp [deTag] at h
  · intro n
    match n with
    | 0 | 1 | 2 | 3 | 4 | 5 | 6 | 7 => simp [deTag]
    | n + 8 => simp [deTag]

/-- the header decoder accepts the canonical header of every kind, whatever follows -/
theorem from_record_canonical (k : RecordKind) (b : Nat) (rest : List Nat) :
    fromRecord (headerBytes k ++ b :: rest) = some k := by
  cases k <;> simp [fromRecord, headerBytes, encode, encodeList, encodeHead, headerWindow, headerSize, headerFromWindow,
    tagKind, deTagBound, deTag, serTag]

/-- **record_roundtrip**: for every kind (with and without payment) and every well-formed value,
`try_deserialize_record (try_serialize_record v kind)` gives `v` back and the header gives the kind. -/
theorem record_roundtrip (k : RecordKind) (v : Val) (hw : WellFormed v) :
    fromRecord (trySerializeRecord v k) = some k ∧ tryDeserializeRecord (trySerializeRecord v k) = some v := by
  have hpos : 0 < (encode v).length := by
    cases v <;> simp only [encode, List.length_append] <;>
      first
        | exact encodeHead_length_pos _
        | (have := encodeHead_length_pos (.str (by assumption : List Nat).length); omega)
        | skip
    all_goals (rename_i x; first
      | (have := encodeHead_length_pos (.str x.length); have := encodeHead_length_pos (.bin x.length); omega)
      | (have := encodeHead_length_pos (.arr x.length); omega)
      | (have := encodeHead_length_pos (.map x.length); omega))
  constructor
  · cases he : encode v with
    | nil => simp [he] at hpos
    | cons b rest => unfold trySerializeRecord; rw [he]; exact from_record_canonical k b rest
  · unfold tryDeserializeRecord trySerializeRecord
    have h2 := (header_two_bytes k).2
    rw [if_pos (by rw [List.length_append]; omega)]
    rw [List.drop_append_of_le_length (by omega), List.drop_of_length_le (by omega), List.nil_append]
    have := SafeNet.MsgPack.decode_encode v [] hw
    rw [List.append_nil] at this
    rw [this]; rfl

/-- typed form of `record_roundtrip`: any value of any described type, under any kind -/
theorem record_roundtrip_typed (k : RecordKind) (s : Schema) (t : Tree) (hs : schemaOk s = true)
    (hc : conforms s t = true) (hw : treeWf t = true) :
    fromRecord (trySerializeRecord (toVal t) k) = some k ∧
    (tryDeserializeRecord (trySerializeRecord (toVal t) k)).bind (ofVal s) = some t := by
  obtain ⟨h1, h2⟩ := record_roundtrip k (toVal t) (toVal_wf t hw)
  exact ⟨h1, by rw [h2]; exact ofVal_toVal s t hs hc⟩

/-- **chunk_addr_recomputed**: whatever address a chunk carried when it was serialised (even a forged one),
the deserialised chunk's address is the content hash of its bytes. -/
theorem chunk_addr_recomputed (H : List Nat → List Nat) (c : Chunk)
    (hv : c.value.length < 4294967296 ∧ isBytes c.value = true) :
    (tryDeserializeRecord (trySerializeRecord c.toVal .Chunk)).bind (Chunk.ofVal H) =
      some { address := H c.value, value := c.value } := by
  have hw : WellFormed c.toVal := by
    simp only [WellFormed, Chunk.toVal, wf, Bool.and_eq_true, decide_eq_true_eq]; exact hv
  rw [(record_roundtrip .Chunk c.toVal hw).2]
  rfl

/-- **decode_total / errors instead of crashes** (model half; the implementation half is the correspondence run
under `catch_unwind`): the decoders are total functions, and truncated or unknown-kind input is an error:
fewer than `SIZE + 1` bytes have no header, an unknown tag is rejected, a record of at most `SIZE` bytes has no value. -/
theorem decode_total :
    (∀ bs : List Nat, bs.length < headerSize + 1 → fromRecord bs = none) ∧
    (∀ tag b rest, 8 ≤ tag → tag < 128 → fromRecord (0x91 :: tag :: b :: rest) = none) ∧
    (∀ bs : List Nat, bs.length ≤ headerSize → tryDeserializeRecord bs = none) ∧
    (∀ bs : List Nat, decode bs = none ∨ ∃ v rest, decode bs = some (v, rest)) := by
  refine ⟨?_, ?_, ?_, ?_⟩
  · intro bs h
    have h' : bs.length < headerWindow := h
    unfold fromRecord
    rw [if_pos h']
  · intro tag b rest h8 h128
    have hd : deTag tag = none := by
      match tag with
      | 0 | 1 | 2 | 3 | 4 | 5 | 6 | 7 => omega
      | n + 8 => simp [deTag]
    simp [fromRecord, headerWindow, headerSize, headerFromWindow, tagKind, hd]
    omega
  · intro bs h
    simp only [tryDeserializeRecord]
    rw [if_neg (by omega)]
  · intro bs
    cases h : decode bs with
    | none => exact Or.inl rfl
    | some p => exact Or.inr ⟨p.1, p.2, rfl⟩

/-! ## non-vacuity -/

example : headerBytes .Chunk = [0x91, 1] := rfl
example : fromRecord [0x91, 0xcc, 5] = some .Scratchpad := by decide
example : fromRecord [0x91, 8, 0] = none := by decide
example : encode (toVal (.nvar (nm "NonChunk") (.tup [.u 200, .u 1]))) =
    [0x81, 0xa8, 78, 111, 110, 67, 104, 117, 110, 107, 0x92, 0xcc, 200, 1] := by decide
example : conforms recordType (.uvar (nm "Chunk")) = true := by decide
example : schemaOk recordType = true := by decide

end SafeNet.Props.C12

#print axioms SafeNet.Props.C12.decode_encode
#print axioms SafeNet.Props.C12.value_roundtrip
#print axioms SafeNet.Props.C12.header_two_bytes
#print axioms SafeNet.Props.C12.tag_values
#print axioms SafeNet.Props.C12.from_record_canonical
#print axioms SafeNet.Props.C12.record_roundtrip
#print axioms SafeNet.Props.C12.record_roundtrip_typed
#print axioms SafeNet.Props.C12.chunk_addr_recomputed
#print axioms SafeNet.Props.C12.decode_total
