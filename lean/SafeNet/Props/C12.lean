import SafeNet.Base.Sha3
import SafeNet.Proofs.Wire
/-!
# C12 — record and message encodings round-trip and stay wire-stable

Statements over `SafeNet.Base.MsgPack` (the MessagePack subset `rmp`/`rmp_serde` emit), `SafeNet.Model.Wire`
(serde-tree ↔ MessagePack embedding, record header, records, chunks) and the tables `rs2lean` regenerates from
`ant-protocol/src/storage/{header,chunks}.rs` (`SafeNet.Gen.Wire`: `serTag`, `deTag`, `headerSize`, …).
Helper lemmas live in `SafeNet.Proofs.MsgPack` and `SafeNet.Proofs.Wire`.
-/
namespace SafeNet.Props.C12
open SafeNet.MsgPack SafeNet.Wire SafeNet.Gen.Wire

/-- **decode_encode** (centre-piece): decoding the shortest-form encoding of any well-formed value gives the
value back together with exactly the bytes that followed it. -/
theorem decode_encode (v : Val) (rest : List Nat) (hw : WellFormed v) :
    decode (encode v ++ rest) = some (v, rest) :=
  SafeNet.MsgPack.decode_encode v rest hw

/-- **Typed round trip, every type at once**: a value `t` of the type described by schema `s`, serialised as
`rmp_serde` does and decoded, reads back as `t` (for well-formed schemas and values whose sizes fit the format). -/
theorem value_roundtrip (s : Schema) (t : Tree) (rest : List Nat) (hs : schemaOk s = true) (hc : conforms s t = true)
    (hw : treeWf t = true) :
    (decode (encode (toVal t) ++ rest)).bind (fun p => ofVal s p.1) = some t := by
  rw [SafeNet.MsgPack.decode_encode _ _ (toVal_wf t hw)]
  exact ofVal_toVal s t hs hc

/-- **header_two_bytes**: every kind's header is exactly `RecordHeader::SIZE` bytes: `0x91` and the tag. -/
theorem header_two_bytes (k : RecordKind) :
    headerBytes k = [0x91, serTag k] ∧ (headerBytes k).length = headerSize := by
  cases k <;> exact ⟨rfl, rfl⟩

/-- **tag_values**: the tags are the fixed assignment 0…7, the two directions of the table agree, nothing else is a tag. -/
theorem tag_values :
    (serTag .ChunkWithPayment = 0 ∧ serTag .Chunk = 1 ∧ serTag .Transaction = 2 ∧ serTag .Register = 3 ∧
     serTag .RegisterWithPayment = 4 ∧ serTag .Scratchpad = 5 ∧ serTag .ScratchpadWithPayment = 6 ∧
     serTag .TransactionWithPayment = 7) ∧
    (∀ k, deTag (serTag k) = some k) ∧
    (∀ n k, deTag n = some k → n = serTag k) ∧
    (∀ k k', serTag k = serTag k' → k = k') ∧
    (∀ n, (deTag n).isSome = true ↔ n < 8) := by
  refine ⟨by decide, by intro k; cases k <;> rfl, ?_, by intro k k' h; cases k <;> cases k' <;> first | rfl | (exact absurd h (by decide)), ?_⟩
  · intro n k h
    match n with
    | 0 | 1 | 2 | 3 | 4 | 5 | 6 | 7 => simp only [deTag, Option.some.injEq] at h; subst h; rfl
    | n + 8 => simp [deTag] at h
  · intro n
    match n with
    | 0 | 1 | 2 | 3 | 4 | 5 | 6 | 7 => simp [deTag]
    | n + 8 => simp [deTag]

/-- the header decoder accepts the canonical header of every kind, whatever follows -/
theorem from_record_canonical (k : RecordKind) (b : Nat) (rest : List Nat) :
    fromRecord (headerBytes k ++ b :: rest) = some k := by
  cases k <;> simp [fromRecord, headerBytes, encode, encodeList, encodeHead, headerWindow, headerSize, headerFromWindow,
    tagKind, deTagBound, deTag, serTag]

/-- **record_roundtrip**: for every kind (with and without payment) and every well-formed value,
`try_deserialize_record (try_serialize_record v kind)` gives `v` back and the header gives the kind. -/
theorem record_roundtrip (k : RecordKind) (v : Val) (hw : WellFormed v) :
    fromRecord (trySerializeRecord v k) = some k ∧ tryDeserializeRecord (trySerializeRecord v k) = some v := by
  have hpos : 0 < (encode v).length := by
    cases v <;> simp only [encode, List.length_append] <;>
      first
        | exact encodeHead_length_pos _
        | (have := encodeHead_length_pos (.str (by assumption : List Nat).length); omega)
        | skip
    all_goals (rename_i x; first
      | (have := encodeHead_length_pos (.str x.length); have := encodeHead_length_pos (.bin x.length); omega)
      | (have := encodeHead_length_pos (.arr x.length); omega)
      | (have := encodeHead_length_pos (.map x.length); omega))
  constructor
  · cases he : encode v with
    | nil => simp [he] at hpos
    | cons b rest => unfold trySerializeRecord; rw [he]; exact from_record_canonical k b rest
  · unfold tryDeserializeRecord trySerializeRecord
    have h2 := (header_two_bytes k).2
    rw [if_pos (by rw [List.length_append]; omega)]
    rw [List.drop_append_of_le_length (by omega), List.drop_of_length_le (by omega), List.nil_append]
    have := SafeNet.MsgPack.decode_encode v [] hw
    rw [List.append_nil] at this
    rw [this]; rfl

/-- typed form of `record_roundtrip`: any value of any described type, under any kind -/
theorem record_roundtrip_typed (k : RecordKind) (s : Schema) (t : Tree) (hs : schemaOk s = true)
    (hc : conforms s t = true) (hw : treeWf t = true) :
    fromRecord (trySerializeRecord (toVal t) k) = some k ∧
    (tryDeserializeRecord (trySerializeRecord (toVal t) k)).bind (ofVal s) = some t := by
  obtain ⟨h1, h2⟩ := record_roundtrip k (toVal t) (toVal_wf t hw)
  exact ⟨h1, by rw [h2]; exact ofVal_toVal s t hs hc⟩

/-- **chunk_addr_recomputed**: whatever address a chunk carried when it was serialised (even a forged one),
the deserialised chunk's address is the content hash of its bytes. -/
theorem chunk_addr_recomputed (H : List Nat → List Nat) (c : Chunk)
    (hv : c.value.length < 4294967296 ∧ isBytes c.value = true) :
    (tryDeserializeRecord (trySerializeRecord c.toVal .Chunk)).bind (Chunk.ofVal H) =
      some { address := H c.value, value := c.value } := by
  have hw : WellFormed c.toVal := by
    simp only [WellFormed, Chunk.toVal, wf, Bool.and_eq_true, decide_eq_true_eq]; exact hv
  rw [(record_roundtrip .Chunk c.toVal hw).2]
  rfl

/-- The same with the content hash the code uses, SHA3-256 as defined in `Base/Sha3` (FIPS 202): the decoded chunk's
address is the 32-byte SHA3-256 digest of its bytes, whatever address was put on the wire. -/
theorem chunk_addr_is_sha3 (c : Chunk) (hv : c.value.length < 4294967296 ∧ isBytes c.value = true) :
    ∃ d, (tryDeserializeRecord (trySerializeRecord c.toVal .Chunk)).bind (Chunk.ofVal SafeNet.Sha3.hashBytes) = some d ∧
      d.address = SafeNet.Sha3.hashBytes c.value ∧ d.address.length = 32 ∧ d.value = c.value :=
  ⟨_, chunk_addr_recomputed _ c hv, rfl, SafeNet.Sha3.hashBytes_length _, rfl⟩

/-- **decode_total / errors instead of crashes** (model half; the implementation half is the correspondence run
under `catch_unwind`): the decoders are total functions, and truncated or unknown-kind input is an error:
fewer than `SIZE + 1` bytes have no header, an unknown tag is rejected, a record of at most `SIZE` bytes has no value. -/
theorem decode_total :
    (∀ bs : List Nat, bs.length < headerSize + 1 → fromRecord bs = none) ∧
    (∀ tag b rest, 8 ≤ tag → tag < 128 → fromRecord (0x91 :: tag :: b :: rest) = none) ∧
    (∀ bs : List Nat, bs.length ≤ headerSize → tryDeserializeRecord bs = none) ∧
    (∀ bs : List Nat, decode bs = none ∨ ∃ v rest, decode bs = some (v, rest)) := by
  refine ⟨?_, ?_, ?_, ?_⟩
  · intro bs h
    have h' : bs.length < headerWindow := h
    unfold fromRecord
    rw [if_pos h']
  · intro tag b rest h8 h128
    have hd : deTag tag = none := by
      match tag with
      | 0 | 1 | 2 | 3 | 4 | 5 | 6 | 7 => omega
      | n + 8 => simp [deTag]
    simp [fromRecord, headerWindow, headerSize, headerFromWindow, tagKind, hd]
    omega
  · intro bs h
    simp only [tryDeserializeRecord]
    rw [if_neg (by omega)]
  · intro bs
    cases h : decode bs with
    | none => exact Or.inl rfl
    | some p => exact Or.inr ⟨p.1, p.2, rfl⟩

/-! ## truncation, injectivity, canonical forms, wire stability -/

/-- **prefix_rejected**: MessagePack is prefix-free on well-formed values — no strict prefix of `encode v` decodes
(not even to some other value), so a short read can never be mistaken for a complete value. -/
theorem prefix_rejected (v : Val) (hw : WellFormed v) (n : Nat) (hn : n < (encode v).length) :
    decode ((encode v).take n) = none :=
  SafeNet.MsgPack.prefix_rejected v hw n hn

/-- **truncated records are errors**: every strict prefix of `try_serialize_record x kind` is rejected by
`try_deserialize_record` (which skips `RecordHeader::SIZE` bytes and decodes the rest, ignoring trailing bytes). -/
theorem truncated_record_rejected (k : RecordKind) (v : Val) (hw : WellFormed v) (n : Nat)
    (hn : n < (trySerializeRecord v k).length) :
    tryDeserializeRecord ((trySerializeRecord v k).take n) = none := by
  have h2 := (header_two_bytes k).2
  unfold trySerializeRecord at hn ⊢
  rw [List.length_append] at hn
  unfold tryDeserializeRecord
  by_cases hle : n ≤ headerSize
  · rw [if_neg (by rw [List.length_take]; omega)]
  · rw [if_pos (by rw [List.length_take, List.length_append]; omega)]
    rw [List.take_append, List.take_of_length_le (by omega), List.drop_append_of_le_length (by omega),
      List.drop_of_length_le (by omega), List.nil_append, h2,
      SafeNet.MsgPack.prefix_rejected v hw (n - headerSize) (by omega)]
    rfl

/-- typed form: a truncated record of any value of any described type is rejected -/
theorem truncated_record_rejected_typed (k : RecordKind) (t : Tree) (hw : treeWf t = true) (n : Nat)
    (hn : n < (trySerializeRecord (toVal t) k).length) :
    tryDeserializeRecord ((trySerializeRecord (toVal t) k).take n) = none :=
  truncated_record_rejected k (toVal t) (toVal_wf t hw) n hn

/-- **encode_injective**: different well-formed values never share an encoding — even when followed by other bytes. -/
theorem encode_injective (v w : Val) (hv : WellFormed v) (hw : WellFormed w) (h : encode v = encode w) : v = w :=
  SafeNet.MsgPack.encode_injective v w hv hw h

theorem encode_append_injective (v w : Val) (r s : List Nat) (hv : WellFormed v) (hw : WellFormed w)
    (h : encode v ++ r = encode w ++ s) : v = w ∧ r = s :=
  SafeNet.MsgPack.encode_append_injective v w r s hv hw h

/-- the typed embedding is injective too: two values of one type with the same record bytes are equal -/
theorem record_bytes_injective (k : RecordKind) (s : Schema) (t t' : Tree) (hs : schemaOk s = true)
    (hc : conforms s t = true) (hc' : conforms s t' = true) (hw : treeWf t = true) (hw' : treeWf t' = true)
    (h : trySerializeRecord (toVal t) k = trySerializeRecord (toVal t') k) : t = t' := by
  have e : toVal t = toVal t' :=
    SafeNet.MsgPack.encode_injective _ _ (toVal_wf t hw) (toVal_wf t' hw') (List.append_cancel_left h)
  have a := ofVal_toVal s t hs hc
  rw [e, ofVal_toVal s t' hs hc'] at a
  exact (Option.some.inj a).symm

/-- The full converse "whatever decodes to `v` with nothing left is `encode v`" — stated, and FALSE of this decoder
(as of `rmp`): every integer and length width is accepted and normalised. -/
def DecodeOnlyCanonical : Prop := ∀ (bs : List Nat) (v : Val), decode bs = some (v, []) → bs = encode v

/-- witness: `[0xcc, 5]` (5 as a `u8`) decodes to the same value as the canonical `[5]` -/
theorem decode_accepts_noncanonical :
    decode [0xcc, 5] = some (.uint 5, []) ∧ encode (.uint 5) = [5] ∧ ¬ DecodeOnlyCanonical := by
  refine ⟨rfl, by decide, ?_⟩
  intro h
  have := h [0xcc, 5] (.uint 5) rfl
  simp [encode, encodeHead] at this

/-- what does hold in the converse direction: an accepted input whose value re-encodes to it IS the canonical
encoding — the acceptance rule the correspondence run applies on both sides -/
theorem canonical_iff (bs : List Nat) (v : Val) (rest : List Nat) (hw : WellFormed v) :
    (decode bs = some (v, rest) ∧ encode v ++ rest = bs) ↔ bs = encode v ++ rest := by
  constructor
  · rintro ⟨_, h⟩; exact h.symm
  · rintro rfl; exact ⟨SafeNet.MsgPack.decode_encode v rest hw, rfl⟩

/-- **decode_wf**: whatever the decoder accepts from a byte string is a well-formed value — `WellFormed` is exactly
the decoder's range, so the hypothesis of `decode_encode` loses nothing on the decoding side. -/
theorem decode_wf (bs : List Nat) (hb : isBytes bs = true) (v : Val) (r : List Nat) (h : decode bs = some (v, r)) :
    WellFormed v ∧ isBytes r = true :=
  SafeNet.MsgPack.decode_wf bs hb v r h

/-- **decode_normalises** (the true converse): every accepted input, canonical or not, denotes the same value as the
canonical encoding of what it decodes to, followed by the same rest. -/
theorem decode_normalises (bs : List Nat) (hb : isBytes bs = true) (v : Val) (r : List Nat)
    (h : decode bs = some (v, r)) : decode (encode v ++ r) = some (v, r) :=
  SafeNet.MsgPack.decode_normalises bs hb v r h

/-- the header decoder likewise admits non-minimal windows for every kind (found by the exhaustive comparison with
`RecordHeader::from_record`): tag as `u8`, as non-negative `i8`, a 1-byte `bin`, and the struct as a map keyed by index -/
theorem header_noncanonical_windows (k : RecordKind) (b : Nat) :
    fromRecord [0x91, 0xcc, serTag k] = some k ∧ fromRecord [0x91, 0xd0, serTag k] = some k ∧
    fromRecord [0xc4, 1, serTag k] = some k ∧ fromRecord [0x81, 0, serTag k] = some k ∧
    fromRecord [0x91, serTag k, b] = some k := by
  cases k <;> simp [fromRecord, headerWindow, headerSize, headerFromWindow, tagKind, deTagBound, deTag, serTag]

/-- **is_chunk_spec**: `RecordHeader::is_record_of_type_chunk` errs exactly when the header decoder errs, is `true`
exactly for the chunk kind, and any `Ok(b)` is the kind test of an accepted header — arbitrary, truncated or
unknown-kind bytes are an error, never "not a chunk". -/
theorem is_chunk_spec (bs : List Nat) :
    (isChunk bs = none ↔ fromRecord bs = none) ∧
    (isChunk bs = some true ↔ fromRecord bs = some .Chunk) ∧
    (∀ b, isChunk bs = some b → ∃ k, fromRecord bs = some k ∧ b = (k == .Chunk)) :=
  SafeNet.Wire.is_chunk_spec bs

theorem is_chunk_unknown_or_short_errs :
    (∀ tag b rest, 8 ≤ tag → tag < 128 → isChunk (0x91 :: tag :: b :: rest) = none) ∧
    (∀ bs : List Nat, bs.length < headerSize + 1 → isChunk bs = none) :=
  ⟨fun tag b rest h8 h128 => ((is_chunk_spec _).1).mpr (decode_total.2.1 tag b rest h8 h128),
   fun bs h => ((is_chunk_spec _).1).mpr (decode_total.1 bs h)⟩

/-- `from_record` is `try_deserialize` on the first `SIZE + 1` bytes: the window model used everywhere above is the
general slice decoder (tag in any integer width, 1-arrays and 1-bins in every length width) cut to three bytes. -/
theorem from_record_is_try_deserialize_window (bs : List Nat) :
    fromRecord bs = if bs.length < headerWindow then none else
      match bs.take headerWindow with
      | [b0, b1, b2] => headerTryDeserialize [b0, b1, b2]
      | _ => none := by
  unfold fromRecord
  split
  · rfl
  · split
    · rename_i h; rw [h, tryDeserialize_window]
    · rename_i hne
      match hm : bs.take headerWindow with
      | [b0, b1, b2] => exact absurd hm (hne b0 b1 b2)
      | [] | [_] | [_, _] | _ :: _ :: _ :: _ :: _ => simp [headerFromWindow]

/-- the slice decoder reads the tag in ANY unsigned width (and the signed widths normalise to it): the canonical
1-array followed by whichever spelling of `n` the encoder table would choose for a 64-bit value -/
theorem try_deserialize_any_width (n : Nat) (hn : n < 18446744073709551616) (rest : List Nat) :
    headerTryDeserialize (0x91 :: (encodeHead (.uint n) ++ rest)) = tagKind n := by
  simp only [headerTryDeserialize]
  rw [decodeHead_encodeHead (.uint n) rest (by simpa [wfHead] using hn)]

/-- **wire_stable**: for EVERY payload the record starts with exactly `[0x91, tag kind]` (the regenerated table)
and continues with the payload's own encoding; with `tag_values` the first two bytes of every record are fixed. -/
theorem wire_stable (k : RecordKind) (v : Val) :
    (trySerializeRecord v k).take headerSize = [0x91, serTag k] ∧
    (trySerializeRecord v k).drop headerSize = encode v := by
  have h := header_two_bytes k
  unfold trySerializeRecord
  rw [List.take_append_of_le_length (by omega), List.take_of_length_le (by omega),
    List.drop_append_of_le_length (by omega), List.drop_of_length_le (by omega)]
  exact ⟨h.1, rfl⟩

/-- all eight prefixes, spelled out over the generated table -/
theorem wire_prefixes (v : Val) :
    (trySerializeRecord v .ChunkWithPayment).take 2 = [0x91, 0] ∧ (trySerializeRecord v .Chunk).take 2 = [0x91, 1] ∧
    (trySerializeRecord v .Transaction).take 2 = [0x91, 2] ∧ (trySerializeRecord v .Register).take 2 = [0x91, 3] ∧
    (trySerializeRecord v .RegisterWithPayment).take 2 = [0x91, 4] ∧ (trySerializeRecord v .Scratchpad).take 2 = [0x91, 5] ∧
    (trySerializeRecord v .ScratchpadWithPayment).take 2 = [0x91, 6] ∧
    (trySerializeRecord v .TransactionWithPayment).take 2 = [0x91, 7] :=
  ⟨(wire_stable _ v).1, (wire_stable _ v).1, (wire_stable _ v).1, (wire_stable _ v).1, (wire_stable _ v).1,
   (wire_stable _ v).1, (wire_stable _ v).1, (wire_stable _ v).1⟩

/-! ## the schemas are the source's types: variant names, payload shapes, field counts and names -/

section Shapes
open SafeNet.Gen.WireShape

/-- **schemas_tied**: every enum schema has exactly the variants of the Rust enum (by NAME — the wire representation of
a variant in both rmp_serde and the CBOR codec), each with the payload shape serde derives (unit / newtype / n fields),
and every struct schema has one position per field; all read from the current source by `rs2lean`. -/
theorem schemas_tied :
    enumTied enum_NetworkAddress networkAddress = true ∧ enumTied enum_RecordType recordType = true ∧
    enumTied enum_Request request = true ∧ enumTied enum_Response response = true ∧
    enumTied enum_Cmd cmd = true ∧ enumTied enum_Query query = true ∧
    enumTied enum_QueryResponse queryResponse = true ∧ enumTied enum_CmdResponse cmdResponse = true ∧
    enumTied enum_Error protocolError = true ∧
    structTied struct_RecordHeader recordHeader = true ∧ structTied struct_PaymentQuote paymentQuote = true ∧
    structTied struct_ProofOfPayment proofOfPayment = true ∧ structTied struct_QuotingMetrics quotingMetrics = true ∧
    structTied struct_Scratchpad scratchpad = true ∧ structTied struct_Transaction transaction = true ∧
    structTied struct_RegisterAddress registerAddress = true ∧ structTied struct_ScratchpadAddress scratchpadAddress = true := by
  refine ⟨?_, ?_, ?_, ?_, ?_, ?_, ?_, ?_, ?_, ?_, ?_, ?_, ?_, ?_, ?_, ?_, ?_⟩ <;> decide

/-- **wire_names_fixed**: the names that travel on the wire are the ones nodes use today — variant names of the address
and message enums (any declaration order), field names of the struct variants and of the structs that travel inside
messages (the CBOR codec writes struct fields by name), and the field ORDER of every struct (MessagePack records are
positional). -/
theorem wire_names_fixed :
    sameVariants enum_NetworkAddress [("PeerId", .newtype), ("ChunkAddress", .newtype), ("TransactionAddress", .newtype),
      ("RegisterAddress", .newtype), ("RecordKey", .newtype), ("ScratchpadAddress", .newtype)] = true ∧
    sameVariants enum_RecordType [("Chunk", .unit), ("Scratchpad", .unit), ("NonChunk", .newtype)] = true ∧
    sameVariants enum_Request [("Cmd", .newtype), ("Query", .newtype)] = true ∧
    sameVariants enum_Response [("Cmd", .newtype), ("Query", .newtype)] = true ∧
    sameVariants enum_Cmd [("Replicate", .fields ["holder", "keys"]),
      ("PeerConsideredAsBad", .fields ["detected_by", "bad_peer", "bad_behaviour"])] = true ∧
    sameVariants enum_Query [("GetStoreQuote", .fields ["key", "nonce", "difficulty"]),
      ("GetReplicatedRecord", .fields ["requester", "key"]), ("GetRegisterRecord", .fields ["requester", "key"]),
      ("GetChunkExistenceProof", .fields ["key", "nonce", "difficulty"]), ("CheckNodeInProblem", .newtype),
      ("GetClosestPeers", .fields ["key", "num_of_peers", "range", "sign_result"])] = true ∧
    sameVariants enum_QueryResponse [("GetStoreQuote", .fields ["quote", "peer_address", "storage_proofs"]),
      ("CheckNodeInProblem", .fields ["reporter_address", "target_address", "is_in_trouble"]),
      ("GetReplicatedRecord", .newtype), ("GetRegisterRecord", .newtype), ("GetChunkExistenceProof", .newtype),
      ("GetClosestPeers", .fields ["target", "peers", "signature"])] = true ∧
    sameVariants enum_CmdResponse [("Replicate", .newtype), ("PeerConsideredAsBad", .newtype)] = true ∧
    struct_PaymentQuote = ["content", "timestamp", "quoting_metrics", "rewards_address", "pub_key", "signature"] ∧
    struct_QuotingMetrics = ["close_records_stored", "max_records", "received_payment_count", "live_time",
      "network_density", "network_size"] ∧
    struct_RegisterAddress = ["meta", "owner"] ∧ struct_ScratchpadAddress = ["owner"] ∧
    struct_Scratchpad = ["address", "data_encoding", "encrypted_data", "counter", "signature"] ∧
    struct_Transaction = ["owner", "parents", "content", "outputs", "signature"] ∧
    struct_ProofOfPayment = ["peer_quotes"] ∧ struct_RecordHeader = ["kind"] := by
  refine ⟨?_, ?_, ?_, ?_, ?_, ?_, ?_, ?_, ?_, ?_, ?_, ?_, ?_, ?_, ?_, ?_⟩ <;> decide

end Shapes

/-- **variant_wire_form**: for EVERY payload, a variant with payload is the one-entry map `{name: payload}` and a unit
variant is the bare name string — the enum analogue of `wire_stable`. -/
theorem variant_wire_form (name : List Nat) (t : Tree) :
    encode (toVal (.nvar name t)) = 0x81 :: (encode (.str name) ++ encode (toVal t)) ∧
    encode (toVal (.uvar name)) = encode (.str name) := by
  constructor
  · simp [toVal, encode, encodePairs, encodeHead]
  · rfl

/-- two variants with different (well-formed) names never share an encoding, whatever their payloads -/
theorem variant_names_separate (n n' : List Nat) (t t' : Tree) (hn : nameOk n = true) (hn' : nameOk n' = true)
    (ht : treeWf t = true) (ht' : treeWf t' = true)
    (h : encode (toVal (.nvar n t)) = encode (toVal (.nvar n' t'))) : n = n' ∧ toVal t = toVal t' := by
  have hw : treeWf (.nvar n t) = true := by simp [treeWf, hn, ht]
  have hw' : treeWf (.nvar n' t') = true := by simp [treeWf, hn', ht']
  have e := SafeNet.MsgPack.encode_injective _ _ (toVal_wf _ hw) (toVal_wf _ hw') h
  simp only [toVal, Val.map.injEq, List.cons.injEq, Prod.mk.injEq, Val.str.injEq, and_true] at e
  exact e

/-! ## non-vacuity -/

example : enumTied SafeNet.Gen.WireShape.enum_RecordType (.enum [(nm "Chunk", .absent), (nm "NonChunk", xorName)]) = false := by decide
example : enumTied SafeNet.Gen.WireShape.enum_RecordType (.enum [(nm "Chunk", .absent), (nm "Scratchpad", xorName), (nm "NonChunk", xorName)]) = false := by decide
example : structTied SafeNet.Gen.WireShape.struct_PaymentQuote (.tup [xorName, systemTime]) = false := by decide
example : registerHexShapeOk [] = false := by decide

example : isChunk [0x91, 1, 0xc4] = some true := by decide
example : isChunk [0x91, 5, 0xc4] = some false := by decide
example : isChunk [0x91, 8, 0xc4] = none := by decide
example : headerTryDeserialize [0x91, 0xcf, 0, 0, 0, 0, 0, 0, 0, 5] = some .Scratchpad := by decide
example : headerTryDeserialize [0xdc, 0, 1, 0xd1, 0, 7, 9] = some .TransactionWithPayment := by decide
example : headerTryDeserialize [0x91, 0xd0, 0xff] = none := by decide

example : decode ((encode (.arr [.uint 300, .str [104, 105]])).take 5) = none := by decide
example : decode [0x92, 0xcd, 0, 7, 0xd9, 1, 65, 9] = some (.arr [.uint 7, .str [65]], [9]) := rfl
example : encode (.arr [.uint 7, .str [65]]) = [0x92, 7, 0xa1, 65] := by decide
example : (encode (.arr [.uint 300, .str [104, 105]])).length = 7 := by decide
example : tryDeserializeRecord ((trySerializeRecord (.bin [1, 2, 3]) .Chunk).take 6) = none := by decide
example : tryDeserializeRecord (trySerializeRecord (.bin [1, 2, 3]) .Chunk) = some (.bin [1, 2, 3]) := rfl

example : headerBytes .Chunk = [0x91, 1] := rfl
example : fromRecord [0x91, 0xcc, 5] = some .Scratchpad := by decide
example : fromRecord [0x91, 8, 0] = none := by decide
example : encode (toVal (.nvar (nm "NonChunk") (.tup [.u 200, .u 1]))) =
    [0x81, 0xa8, 78, 111, 110, 67, 104, 117, 110, 107, 0x92, 0xcc, 200, 1] := by decide
example : conforms recordType (.uvar (nm "Chunk")) = true := by decide
example : schemaOk recordType = true := by decide

end SafeNet.Props.C12

#print axioms SafeNet.Props.C12.decode_encode
#print axioms SafeNet.Props.C12.value_roundtrip
#print axioms SafeNet.Props.C12.header_two_bytes
#print axioms SafeNet.Props.C12.tag_values
#print axioms SafeNet.Props.C12.from_record_canonical
#print axioms SafeNet.Props.C12.record_roundtrip
#print axioms SafeNet.Props.C12.record_roundtrip_typed
#print axioms SafeNet.Props.C12.chunk_addr_recomputed
#print axioms SafeNet.Props.C12.chunk_addr_is_sha3
#print axioms SafeNet.Props.C12.decode_total
#print axioms SafeNet.Props.C12.prefix_rejected
#print axioms SafeNet.Props.C12.truncated_record_rejected
#print axioms SafeNet.Props.C12.truncated_record_rejected_typed
#print axioms SafeNet.Props.C12.encode_injective
#print axioms SafeNet.Props.C12.encode_append_injective
#print axioms SafeNet.Props.C12.record_bytes_injective
#print axioms SafeNet.Props.C12.decode_accepts_noncanonical
#print axioms SafeNet.Props.C12.canonical_iff
#print axioms SafeNet.Props.C12.decode_wf
#print axioms SafeNet.Props.C12.decode_normalises
#print axioms SafeNet.Props.C12.header_noncanonical_windows
#print axioms SafeNet.Props.C12.is_chunk_spec
#print axioms SafeNet.Props.C12.is_chunk_unknown_or_short_errs
#print axioms SafeNet.Props.C12.from_record_is_try_deserialize_window
#print axioms SafeNet.Props.C12.try_deserialize_any_width
#print axioms SafeNet.Props.C12.schemas_tied
#print axioms SafeNet.Props.C12.wire_names_fixed
#print axioms SafeNet.Props.C12.variant_wire_form
#print axioms SafeNet.Props.C12.variant_names_separate
#print axioms SafeNet.Props.C12.wire_stable
#print axioms SafeNet.Props.C12.wire_prefixes
