import SafeNet.Base.Sha3
import SafeNet.Proofs.Wire
import SafeNet.Proofs.WireCbor
import SafeNet.Proofs.WireSize
/-!
# C12 — record and message encodings round-trip and stay wire-stable

Statements over `SafeNet.Base.MsgPack` (the MessagePack subset `rmp`/`rmp_serde` emit), `SafeNet.Model.Wire`
(serde-tree ↔ MessagePack embedding, record header, records, chunks) and the tables `rs2lean` regenerates from
`ant-protocol/src/storage/{header,chunks}.rs` (`SafeNet.Gen.Wire`: `serTag`, `deTag`, `headerSize`, …).
Helper lemmas live in `SafeNet.Proofs.MsgPack` and `SafeNet.Proofs.Wire`.

Network MESSAGES (`Request` / `Response`) do not travel as MessagePack but through libp2p `request_response::cbor`
(`cbor4ii`): their real wire format is modelled in `SafeNet.Base.Cbor` + `SafeNet.Model.WireCbor` and the statements about
it are in the section "messages travel as CBOR" below (helper lemmas: `SafeNet.Proofs.Cbor`, `SafeNet.Proofs.WireCbor`;
generated constants: `SafeNet.Gen.WireCodec`, `SafeNet.Gen.WireShape`).
-/
namespace SafeNet.Props.C12
open SafeNet.MsgPack SafeNet.Wire SafeNet.Gen.Wire

/-- **decode_encode** (centre-piece): decoding the shortest-form encoding of any well-formed value gives the
value back together with exactly the bytes that followed it. -/
theorem decode_encode (v : Val) (rest : List Nat) (hw : WellFormed v) :
    decode (encode v ++ rest) = some (v, rest) :=
  SafeNet.MsgPack.decode_encode v rest hw

/-- **Typed round trip, every type at once**: a value `t` of the type described by schema `s`, serialised as
`rmp_serde` does and decoded, reads back as `t` (for well-formed schemas and values whose sizes fit the format). -/
theorem value_roundtrip (s : Schema) (t : Tree) (rest : List Nat) (hs : schemaOk s = true) (hc : conforms s t = true)
    (hw : treeWf t = true) :
    (decode (encode (toVal t) ++ rest)).bind (fun p => ofVal s p.1) = some t := by
  rw [SafeNet.MsgPack.decode_encode _ _ (toVal_wf t hw)]
  exact ofVal_toVal s t hs hc

/-- **header_two_bytes**: every kind's header is exactly `RecordHeader::SIZE` bytes: `0x91` and the tag. -/
theorem header_two_bytes (k : RecordKind) :
    headerBytes k = [0x91, serTag k] ∧ (headerBytes k).length = headerSize := by
  cases k <;> exact ⟨rfl, rfl⟩

/-- **tag_values**: the tags are the fixed assignment 0…7, the two directions of the table agree, nothing else is a tag. -/
theorem tag_values :
    (serTag .ChunkWithPayment = 0 ∧ serTag .Chunk = 1 ∧ serTag .Transaction = 2 ∧ serTag .Register = 3 ∧
     serTag .RegisterWithPayment = 4 ∧ serTag .Scratchpad = 5 ∧ serTag .ScratchpadWithPayment = 6 ∧
     serTag .TransactionWithPayment = 7) ∧
    (∀ k, deTag (serTag k) = some k) ∧
    (∀ n k, deTag n = some k → n = serTag k) ∧
    (∀ k k', serTag k = serTag k' → k = k') ∧
    (∀ n, (deTag n).isSome = true ↔ n < 8) := by
  refine ⟨by decide, by intro k; cases k <;> rfl, ?_, by intro k k' h; cases k <;> cases k' <;> first | rfl | (exact absurd h (by decide)), ?_⟩
  · intro n k h
    match n with
    | 0 | 1 | 2 | 3 | 4 | 5 | 6 | 7 => simp only [deTag, Option.some.injEq] at h; subst h; rfl
    | n + 8 => simp [deTag] at h
  · intro n
    match n with
    | 0 | 1 | 2 | 3 | 4 | 5 | 6 | 7 => simp [deTag]
    | n + 8 => simp [deTag]

/-- the header decoder accepts the canonical header of every kind, whatever follows -/
theorem from_record_canonical (k : RecordKind) (b : Nat) (rest : List Nat) :
    fromRecord (headerBytes k ++ b :: rest) = some k := by
  cases k <;> simp [fromRecord, headerBytes, encode, encodeList, encodeHead, headerWindow, headerSize, headerFromWindow,
    tagKind, deTagBound, deTag, serTag]

/-- **record_roundtrip**: for every kind (with and without payment) and every well-formed value,
`try_deserialize_record (try_serialize_record v kind)` gives `v` back and the header gives the kind. -/
theorem record_roundtrip (k : RecordKind) (v : Val) (hw : WellFormed v) :
    fromRecord (trySerializeRecord v k) = some k ∧ tryDeserializeRecord (trySerializeRecord v k) = some v := by
  have hpos : 0 < (encode v).length := by
    cases v <;> simp only [encode, List.length_append] <;>
      first
        | exact encodeHead_length_pos _
        | (have := encodeHead_length_pos (.str (by assumption : List Nat).length); omega)
        | skip
    all_goals (rename_i x; first
      | (have := encodeHead_length_pos (.str x.length); have := encodeHead_length_pos (.bin x.length); omega)
      | (have := encodeHead_length_pos (.arr x.length); omega)
      | (have := encodeHead_length_pos (.map x.length); omega))
  constructor
  · cases he : encode v with
    | nil => simp [he] at hpos
    | cons b rest => unfold trySerializeRecord; rw [he]; exact from_record_canonical k b rest
  · unfold tryDeserializeRecord trySerializeRecord
    have h2 := (header_two_bytes k).2
    rw [if_pos (by rw [List.length_append]; omega)]
    rw [List.drop_append_of_le_length (by omega), List.drop_of_length_le (by omega), List.nil_append]
    have := SafeNet.MsgPack.decode_encode v [] hw
    rw [List.append_nil] at this
    rw [this]; rfl

/-- typed form of `record_roundtrip`: any value of any described type, under any kind -/
theorem record_roundtrip_typed (k : RecordKind) (s : Schema) (t : Tree) (hs : schemaOk s = true)
    (hc : conforms s t = true) (hw : treeWf t = true) :
    fromRecord (trySerializeRecord (toVal t) k) = some k ∧
    (tryDeserializeRecord (trySerializeRecord (toVal t) k)).bind (ofVal s) = some t := by
  obtain ⟨h1, h2⟩ := record_roundtrip k (toVal t) (toVal_wf t hw)
  exact ⟨h1, by rw [h2]; exact ofVal_toVal s t hs hc⟩

/-- **chunk_addr_recomputed**: whatever address a chunk carried when it was serialised (even a forged one),
the deserialised chunk's address is the content hash of its bytes. -/
theorem chunk_addr_recomputed (H : List Nat → List Nat) (c : Chunk)
    (hv : c.value.length < 4294967296 ∧ isBytes c.value = true) :
    (tryDeserializeRecord (trySerializeRecord c.toVal .Chunk)).bind (Chunk.ofVal H) =
      some { address := H c.value, value := c.value } := by
  have hw : WellFormed c.toVal := by
    simp only [WellFormed, Chunk.toVal, wf, Bool.and_eq_true, decide_eq_true_eq]; exact hv
  rw [(record_roundtrip .Chunk c.toVal hw).2]
  rfl

/-- The same with the content hash the code uses, SHA3-256 as defined in `Base/Sha3` (FIPS 202): the decoded chunk's
address is the 32-byte SHA3-256 digest of its bytes, whatever address was put on the wire. -/
theorem chunk_addr_is_sha3 (c : Chunk) (hv : c.value.length < 4294967296 ∧ isBytes c.value = true) :
    ∃ d, (tryDeserializeRecord (trySerializeRecord c.toVal .Chunk)).bind (Chunk.ofVal SafeNet.Sha3.hashBytes) = some d ∧
      d.address = SafeNet.Sha3.hashBytes c.value ∧ d.address.length = 32 ∧ d.value = c.value :=
  ⟨_, chunk_addr_recomputed _ c hv, rfl, SafeNet.Sha3.hashBytes_length _, rfl⟩

/-- **decode_total / errors instead of crashes**.  What is PROVED here concerns the model: truncated or unknown-kind input is
an error of the model decoders — fewer than `SIZE + 1` bytes have no header, an unknown tag (in the canonical fixint
spelling; every other spelling the window admits is `unknown_tag_every_spelling`) is rejected, a record of at most `SIZE`
bytes has no value.  The 4th conjunct is only the MODEL HALF of "never crashes": `decode` is a total Lean function, so it
says nothing about the Rust by itself.  The implementation half — the real decoders return `Err` and do not panic on the
same inputs — is not a theorem: it is the correspondence run (every `dec` / `recdec` / `hdrdec` / `hdrtry` / `ischunk` line
executed under `catch_unwind`, a panic being printed as `panic` and never matched by the model). -/
theorem decode_total :
    (∀ bs : List Nat, bs.length < headerSize + 1 → fromRecord bs = none) ∧
    (∀ tag b rest, 8 ≤ tag → tag < 128 → fromRecord (0x91 :: tag :: b :: rest) = none) ∧
    (∀ bs : List Nat, bs.length ≤ headerSize → tryDeserializeRecord bs = none) ∧
    (∀ bs : List Nat, decode bs = none ∨ ∃ v rest, decode bs = some (v, rest)) := by
  refine ⟨?_, ?_, ?_, ?_⟩
  · intro bs h
    have h' : bs.length < headerWindow := h
    unfold fromRecord
    rw [if_pos h']
  · intro tag b rest h8 h128
    have hd : deTag tag = none := by
      match tag with
      | 0 | 1 | 2 | 3 | 4 | 5 | 6 | 7 => omega
      | n + 8 => simp [deTag]
    simp [fromRecord, headerWindow, headerSize, headerFromWindow, tagKind, hd]
    omega
  · intro bs h
    simp only [tryDeserializeRecord]
    rw [if_neg (by omega)]
  · intro bs
    cases h : decode bs with
    | none => exact Or.inl rfl
    | some p => exact Or.inr ⟨p.1, p.2, rfl⟩

/-- **unknown_tag_every_spelling** (completes `decode_total`'s 2nd conjunct): an unknown tag is rejected in EVERY spelling
the 3-byte window admits, not only as a fixint — as a `u8` (`0x91 0xcc tag`), as an `i8` (`0x91 0xd0 tag`, where values
`≥ 0x80` are negative and rejected whatever they are), as a 1-byte `bin` (`0xc4 0x01 tag`) and in the map form
(`0x81 0x00 tag`); the chunk test errs on all of them. -/
theorem unknown_tag_every_spelling (tag : Nat) (rest : List Nat) (h8 : 8 ≤ tag) (h : tag < 256) :
    fromRecord (0x91 :: 0xcc :: tag :: rest) = none ∧ fromRecord (0x91 :: 0xd0 :: tag :: rest) = none ∧
    fromRecord (0xc4 :: 1 :: tag :: rest) = none ∧ fromRecord (0x81 :: 0 :: tag :: rest) = none ∧
    isChunk (0x91 :: 0xcc :: tag :: rest) = none ∧ isChunk (0x91 :: 0xd0 :: tag :: rest) = none := by
  have hd : deTag tag = none := by
    match tag with
    | 0 | 1 | 2 | 3 | 4 | 5 | 6 | 7 => omega
    | n + 8 => simp [deTag]
  have a : fromRecord (0x91 :: 0xcc :: tag :: rest) = none := by
    simp [fromRecord, headerWindow, headerSize, headerFromWindow, tagKind, hd]
  have b : fromRecord (0x91 :: 0xd0 :: tag :: rest) = none := by
    simp [fromRecord, headerWindow, headerSize, headerFromWindow, tagKind, hd]
  refine ⟨a, b, ?_, ?_, ((is_chunk_spec _).1).mpr a, ((is_chunk_spec _).1).mpr b⟩
  · simp [fromRecord, headerWindow, headerSize, headerFromWindow, tagKind, hd]
  · simp [fromRecord, headerWindow, headerSize, headerFromWindow, tagKind, hd]

/-- **record_schemas_ok**: every schema of a record payload — the type stored under each of the eight kinds, its parts, the
header — is a well-formed schema (no `Option` around a type that can itself serialise to nil), so the typed round trip
applies to all of them. -/
theorem record_schemas_ok :
    (∀ k, schemaOk (payloadSchema k) = true) ∧
    schemaOk recordHeader = true ∧ schemaOk chunk = true ∧ schemaOk scratchpad = true ∧ schemaOk transaction = true ∧
    schemaOk signedRegister = true ∧ schemaOk register = true ∧ schemaOk registerOp = true ∧ schemaOk permissions = true ∧
    schemaOk proofOfPayment = true ∧ schemaOk paymentQuote = true ∧ schemaOk quotingMetrics = true ∧
    schemaOk networkAddress = true ∧ schemaOk recordType = true := by
  refine ⟨fun k => by cases k <;> decide +kernel, ?_, ?_, ?_, ?_, ?_, ?_, ?_, ?_, ?_, ?_, ?_, ?_, ?_⟩ <;> decide +kernel

/-- **record_roundtrip_every_kind**: for EVERY record kind — including `Register` and `RegisterWithPayment`, whose payload
is a `SignedRegister` (base register, owner signature, set of signed ops over Merkle-register nodes) — a value of the type
the node stores under that kind, serialised with the kind's tag and deserialised, yields the same value and the same kind. -/
theorem record_roundtrip_every_kind (k : RecordKind) (t : Tree) (hc : conforms (payloadSchema k) t = true)
    (hw : treeWf t = true) :
    fromRecord (trySerializeRecord (toVal t) k) = some k ∧
    (tryDeserializeRecord (trySerializeRecord (toVal t) k)).bind (ofVal (payloadSchema k)) = some t :=
  record_roundtrip_typed k (payloadSchema k) t (record_schemas_ok.1 k) hc hw

/-! ## truncation, injectivity, canonical forms, wire stability -/

/-- **prefix_rejected**: MessagePack is prefix-free on well-formed values — no strict prefix of `encode v` decodes
(not even to some other value), so a short read can never be mistaken for a complete value. -/
theorem prefix_rejected (v : Val) (hw : WellFormed v) (n : Nat) (hn : n < (encode v).length) :
    decode ((encode v).take n) = none :=
  SafeNet.MsgPack.prefix_rejected v hw n hn

/-- **truncated records are errors**: every strict prefix of `try_serialize_record x kind` is rejected by
`try_deserialize_record` (which skips `RecordHeader::SIZE` bytes and decodes the rest, ignoring trailing bytes). -/
theorem truncated_record_rejected (k : RecordKind) (v : Val) (hw : WellFormed v) (n : Nat)
    (hn : n < (trySerializeRecord v k).length) :
    tryDeserializeRecord ((trySerializeRecord v k).take n) = none := by
  have h2 := (header_two_bytes k).2
  unfold trySerializeRecord at hn ⊢
  rw [List.length_append] at hn
  unfold tryDeserializeRecord
  by_cases hle : n ≤ headerSize
  · rw [if_neg (by rw [List.length_take]; omega)]
  · rw [if_pos (by rw [List.length_take, List.length_append]; omega)]
    rw [List.take_append, List.take_of_length_le (by omega), List.drop_append_of_le_length (by omega),
      List.drop_of_length_le (by omega), List.nil_append, h2,
      SafeNet.MsgPack.prefix_rejected v hw (n - headerSize) (by omega)]
    rfl

/-- typed form: a truncated record of any value of any described type is rejected -/
theorem truncated_record_rejected_typed (k : RecordKind) (t : Tree) (hw : treeWf t = true) (n : Nat)
    (hn : n < (trySerializeRecord (toVal t) k).length) :
    tryDeserializeRecord ((trySerializeRecord (toVal t) k).take n) = none :=
  truncated_record_rejected k (toVal t) (toVal_wf t hw) n hn

/-- **encode_injective**: different well-formed values never share an encoding — even when followed by other bytes. -/
theorem encode_injective (v w : Val) (hv : WellFormed v) (hw : WellFormed w) (h : encode v = encode w) : v = w :=
  SafeNet.MsgPack.encode_injective v w hv hw h

theorem encode_append_injective (v w : Val) (r s : List Nat) (hv : WellFormed v) (hw : WellFormed w)
    (h : encode v ++ r = encode w ++ s) : v = w ∧ r = s :=
  SafeNet.MsgPack.encode_append_injective v w r s hv hw h

/-- the typed embedding is injective too: two values of one type with the same record bytes are equal -/
theorem record_bytes_injective (k : RecordKind) (s : Schema) (t t' : Tree) (hs : schemaOk s = true)
    (hc : conforms s t = true) (hc' : conforms s t' = true) (hw : treeWf t = true) (hw' : treeWf t' = true)
    (h : trySerializeRecord (toVal t) k = trySerializeRecord (toVal t') k) : t = t' := by
  have e : toVal t = toVal t' :=
    SafeNet.MsgPack.encode_injective _ _ (toVal_wf t hw) (toVal_wf t' hw') (List.append_cancel_left h)
  have a := ofVal_toVal s t hs hc
  rw [e, ofVal_toVal s t' hs hc'] at a
  exact (Option.some.inj a).symm

/-- The full converse "whatever decodes to `v` with nothing left is `encode v`" — stated, and FALSE of this decoder
(as of `rmp`): every integer and length width is accepted and normalised. -/
def DecodeOnlyCanonical : Prop := ∀ (bs : List Nat) (v : Val), decode bs = some (v, []) → bs = encode v

/-- witness: `[0xcc, 5]` (5 as a `u8`) decodes to the same value as the canonical `[5]` -/
theorem decode_accepts_noncanonical :
    decode [0xcc, 5] = some (.uint 5, []) ∧ encode (.uint 5) = [5] ∧ ¬ DecodeOnlyCanonical := by
  refine ⟨rfl, by decide, ?_⟩
  intro h
  have := h [0xcc, 5] (.uint 5) rfl
  simp [encode, encodeHead] at this

/-- what does hold in the converse direction: an accepted input whose value re-encodes to it IS the canonical
encoding — the acceptance rule the correspondence run applies on both sides -/
theorem canonical_iff (bs : List Nat) (v : Val) (rest : List Nat) (hw : WellFormed v) :
    (decode bs = some (v, rest) ∧ encode v ++ rest = bs) ↔ bs = encode v ++ rest := by
  constructor
  · rintro ⟨_, h⟩; exact h.symm
  · rintro rfl; exact ⟨SafeNet.MsgPack.decode_encode v rest hw, rfl⟩

/-- **decode_wf**: whatever the decoder accepts from a byte string is a well-formed value — `WellFormed` is exactly
the decoder's range, so the hypothesis of `decode_encode` loses nothing on the decoding side. -/
theorem decode_wf (bs : List Nat) (hb : isBytes bs = true) (v : Val) (r : List Nat) (h : decode bs = some (v, r)) :
    WellFormed v ∧ isBytes r = true :=
  SafeNet.MsgPack.decode_wf bs hb v r h

/-- **decode_normalises** (the true converse): every accepted input, canonical or not, denotes the same value as the
canonical encoding of what it decodes to, followed by the same rest. -/
theorem decode_normalises (bs : List Nat) (hb : isBytes bs = true) (v : Val) (r : List Nat)
    (h : decode bs = some (v, r)) : decode (encode v ++ r) = some (v, r) :=
  SafeNet.MsgPack.decode_normalises bs hb v r h

/-- the header decoder likewise admits non-minimal windows for every kind (found by the exhaustive comparison with
`RecordHeader::from_record`): tag as `u8`, as non-negative `i8`, a 1-byte `bin`, and the struct as a map keyed by index -/
theorem header_noncanonical_windows (k : RecordKind) (b : Nat) :
    fromRecord [0x91, 0xcc, serTag k] = some k ∧ fromRecord [0x91, 0xd0, serTag k] = some k ∧
    fromRecord [0xc4, 1, serTag k] = some k ∧ fromRecord [0x81, 0, serTag k] = some k ∧
    fromRecord [0x91, serTag k, b] = some k := by
  cases k <;> simp [fromRecord, headerWindow, headerSize, headerFromWindow, tagKind, deTagBound, deTag, serTag]

/-- **is_chunk_spec**: `RecordHeader::is_record_of_type_chunk` errs exactly when the header decoder errs, is `true`
exactly for the chunk kind, and any `Ok(b)` is the kind test of an accepted header — arbitrary, truncated or
unknown-kind bytes are an error, never "not a chunk". -/
theorem is_chunk_spec (bs : List Nat) :
    (isChunk bs = none ↔ fromRecord bs = none) ∧
    (isChunk bs = some true ↔ fromRecord bs = some .Chunk) ∧
    (∀ b, isChunk bs = some b → ∃ k, fromRecord bs = some k ∧ b = (k == .Chunk)) :=
  SafeNet.Wire.is_chunk_spec bs

theorem is_chunk_unknown_or_short_errs :
    (∀ tag b rest, 8 ≤ tag → tag < 128 → isChunk (0x91 :: tag :: b :: rest) = none) ∧
    (∀ bs : List Nat, bs.length < headerSize + 1 → isChunk bs = none) :=
  ⟨fun tag b rest h8 h128 => ((is_chunk_spec _).1).mpr (decode_total.2.1 tag b rest h8 h128),
   fun bs h => ((is_chunk_spec _).1).mpr (decode_total.1 bs h)⟩

/-- `from_record` is `try_deserialize` on the first `SIZE + 1` bytes: the window model used everywhere above is the
general slice decoder (tag in any integer width, 1-arrays and 1-bins in every length width) cut to three bytes. -/
theorem from_record_is_try_deserialize_window (bs : List Nat) :
    fromRecord bs = if bs.length < headerWindow then none else
      match bs.take headerWindow with
      | [b0, b1, b2] => headerTryDeserialize [b0, b1, b2]
      | _ => none := by
  unfold fromRecord
  split
  · rfl
  · split
    · rename_i h; rw [h, tryDeserialize_window]
    · rename_i hne
      match hm : bs.take headerWindow with
      | [b0, b1, b2] => exact absurd hm (hne b0 b1 b2)
      | [] | [_] | [_, _] | _ :: _ :: _ :: _ :: _ => simp [headerFromWindow]

/-- the slice decoder reads the tag in ANY unsigned width (and the signed widths normalise to it): the canonical
1-array followed by whichever spelling of `n` the encoder table would choose for a 64-bit value -/
theorem try_deserialize_any_width (n : Nat) (hn : n < 18446744073709551616) (rest : List Nat) :
    headerTryDeserialize (0x91 :: (encodeHead (.uint n) ++ rest)) = tagKind n := by
  simp only [headerTryDeserialize]
  rw [decodeHead_encodeHead (.uint n) rest (by simpa [wfHead] using hn)]

/-- **wire_stable**: for EVERY payload the record starts with exactly `[0x91, tag kind]` (the regenerated table)
and continues with the payload's own encoding; with `tag_values` the first two bytes of every record are fixed. -/
theorem wire_stable (k : RecordKind) (v : Val) :
    (trySerializeRecord v k).take headerSize = [0x91, serTag k] ∧
    (trySerializeRecord v k).drop headerSize = encode v := by
  have h := header_two_bytes k
  unfold trySerializeRecord
  rw [List.take_append_of_le_length (by omega), List.take_of_length_le (by omega),
    List.drop_append_of_le_length (by omega), List.drop_of_length_le (by omega)]
  exact ⟨h.1, rfl⟩

/-- all eight prefixes, spelled out over the generated table -/
theorem wire_prefixes (v : Val) :
    (trySerializeRecord v .ChunkWithPayment).take 2 = [0x91, 0] ∧ (trySerializeRecord v .Chunk).take 2 = [0x91, 1] ∧
    (trySerializeRecord v .Transaction).take 2 = [0x91, 2] ∧ (trySerializeRecord v .Register).take 2 = [0x91, 3] ∧
    (trySerializeRecord v .RegisterWithPayment).take 2 = [0x91, 4] ∧ (trySerializeRecord v .Scratchpad).take 2 = [0x91, 5] ∧
    (trySerializeRecord v .ScratchpadWithPayment).take 2 = [0x91, 6] ∧
    (trySerializeRecord v .TransactionWithPayment).take 2 = [0x91, 7] :=
  ⟨(wire_stable _ v).1, (wire_stable _ v).1, (wire_stable _ v).1, (wire_stable _ v).1, (wire_stable _ v).1,
   (wire_stable _ v).1, (wire_stable _ v).1, (wire_stable _ v).1⟩

/-! ## the schemas are the source's types: variant names, payload shapes, field counts and names -/

section Shapes
open SafeNet.Gen.WireShape

/-- **schemas_tied**: every enum schema has exactly the variants of the Rust enum (by NAME — the wire representation of
a variant in both rmp_serde and the CBOR codec), each with the payload shape serde derives (unit / newtype / n fields),
and every struct schema has one position per field; all read from the current source by `rs2lean`. -/
theorem schemas_tied :
    enumTied enum_NetworkAddress networkAddress = true ∧ enumTied enum_RecordType recordType = true ∧
    enumTied enum_Request request = true ∧ enumTied enum_Response response = true ∧
    enumTied enum_Cmd cmd = true ∧ enumTied enum_Query query = true ∧
    enumTied enum_QueryResponse queryResponse = true ∧ enumTied enum_CmdResponse cmdResponse = true ∧
    enumTied enum_Error protocolError = true ∧
    structTied struct_RecordHeader recordHeader = true ∧ structTied struct_PaymentQuote paymentQuote = true ∧
    structTied struct_ProofOfPayment proofOfPayment = true ∧ structTied struct_QuotingMetrics quotingMetrics = true ∧
    structTied struct_Scratchpad scratchpad = true ∧ structTied struct_Transaction transaction = true ∧
    structTied struct_RegisterAddress registerAddress = true ∧ structTied struct_ScratchpadAddress scratchpadAddress = true ∧
    enumTied enum_Permissions permissions = true ∧ structTied struct_Register register = true ∧
    structTied struct_SignedRegister signedRegister = true ∧ structTied struct_RegisterOp registerOp = true := by
  refine ⟨?_, ?_, ?_, ?_, ?_, ?_, ?_, ?_, ?_, ?_, ?_, ?_, ?_, ?_, ?_, ?_, ?_, ?_, ?_, ?_, ?_⟩ <;> decide

/-- **wire_names_fixed**: the names that travel on the wire are the ones nodes use today — variant names of the address
and message enums (any declaration order), field names of the struct variants and of the structs that travel inside
messages (the CBOR codec writes struct fields by name), and the field ORDER of every struct (MessagePack records are
positional). -/
theorem wire_names_fixed :
    sameVariants enum_NetworkAddress [("PeerId", .newtype), ("ChunkAddress", .newtype), ("TransactionAddress", .newtype),
      ("RegisterAddress", .newtype), ("RecordKey", .newtype), ("ScratchpadAddress", .newtype)] = true ∧
    sameVariants enum_RecordType [("Chunk", .unit), ("Scratchpad", .unit), ("NonChunk", .newtype)] = true ∧
    sameVariants enum_Request [("Cmd", .newtype), ("Query", .newtype)] = true ∧
    sameVariants enum_Response [("Cmd", .newtype), ("Query", .newtype)] = true ∧
    sameVariants enum_Cmd [("Replicate", .fields ["holder", "keys"]),
      ("PeerConsideredAsBad", .fields ["detected_by", "bad_peer", "bad_behaviour"])] = true ∧
    sameVariants enum_Query [("GetStoreQuote", .fields ["key", "nonce", "difficulty"]),
      ("GetReplicatedRecord", .fields ["requester", "key"]), ("GetRegisterRecord", .fields ["requester", "key"]),
      ("GetChunkExistenceProof", .fields ["key", "nonce", "difficulty"]), ("CheckNodeInProblem", .newtype),
      ("GetClosestPeers", .fields ["key", "num_of_peers", "range", "sign_result"])] = true ∧
    sameVariants enum_QueryResponse [("GetStoreQuote", .fields ["quote", "peer_address", "storage_proofs"]),
      ("CheckNodeInProblem", .fields ["reporter_address", "target_address", "is_in_trouble"]),
      ("GetReplicatedRecord", .newtype), ("GetRegisterRecord", .newtype), ("GetChunkExistenceProof", .newtype),
      ("GetClosestPeers", .fields ["target", "peers", "signature"])] = true ∧
    sameVariants enum_CmdResponse [("Replicate", .newtype), ("PeerConsideredAsBad", .newtype)] = true ∧
    struct_PaymentQuote = ["content", "timestamp", "quoting_metrics", "rewards_address", "pub_key", "signature"] ∧
    struct_QuotingMetrics = ["close_records_stored", "max_records", "received_payment_count", "live_time",
      "network_density", "network_size"] ∧
    struct_RegisterAddress = ["meta", "owner"] ∧ struct_ScratchpadAddress = ["owner"] ∧
    struct_Scratchpad = ["address", "data_encoding", "encrypted_data", "counter", "signature"] ∧
    struct_Transaction = ["owner", "parents", "content", "outputs", "signature"] ∧
    struct_ProofOfPayment = ["peer_quotes"] ∧ struct_RecordHeader = ["kind"] ∧
    sameVariants enum_Permissions [("AnyoneCanWrite", .unit), ("Writers", .newtype)] = true ∧
    struct_Register = ["address", "permissions"] ∧ struct_SignedRegister = ["register", "signature", "ops"] ∧
    struct_RegisterOp = ["address", "crdt_op", "source", "signature"] := by
  refine ⟨?_, ?_, ?_, ?_, ?_, ?_, ?_, ?_, ?_, ?_, ?_, ?_, ?_, ?_, ?_, ?_, ?_, ?_, ?_, ?_⟩ <;> decide

end Shapes

/-- **variant_wire_form**: for EVERY payload, a variant with payload is the one-entry map `{name: payload}` and a unit
variant is the bare name string — the enum analogue of `wire_stable`. -/
theorem variant_wire_form (name : List Nat) (t : Tree) :
    encode (toVal (.nvar name t)) = 0x81 :: (encode (.str name) ++ encode (toVal t)) ∧
    encode (toVal (.uvar name)) = encode (.str name) := by
  constructor
  · simp [toVal, encode, encodePairs, encodeHead]
  · rfl

/-- two variants with different (well-formed) names never share an encoding, whatever their payloads -/
theorem variant_names_separate (n n' : List Nat) (t t' : Tree) (hn : nameOk n = true) (hn' : nameOk n' = true)
    (ht : treeWf t = true) (ht' : treeWf t' = true)
    (h : encode (toVal (.nvar n t)) = encode (toVal (.nvar n' t'))) : n = n' ∧ toVal t = toVal t' := by
  have hw : treeWf (.nvar n t) = true := by simp [treeWf, hn, ht]
  have hw' : treeWf (.nvar n' t') = true := by simp [treeWf, hn', ht']
  have e := SafeNet.MsgPack.encode_injective _ _ (toVal_wf _ hw) (toVal_wf _ hw') h
  simp only [toVal, Val.map.injEq, List.cons.injEq, Prod.mk.injEq, Val.str.injEq, and_true] at e
  exact e

/-! ## messages travel as CBOR (libp2p `request_response::cbor` = `cbor4ii::serde`) -/

section Messages
open SafeNet.WireCbor SafeNet.Gen.WireCodec SafeNet.Gen.WireShape

/-- **cbor_decode_encode**: decoding the shortest-form CBOR encoding of any well-formed item gives the item back together
with exactly the bytes that followed it (`cbor4ii::serde::from_slice` does not look past the value). -/
theorem cbor_decode_encode (v : SafeNet.Cbor.Val) (rest : List Nat) (hw : SafeNet.Cbor.WellFormed v) :
    SafeNet.Cbor.decode (SafeNet.Cbor.encode v ++ rest) = some (v, rest) :=
  SafeNet.Cbor.decode_encode v rest hw

/-- **cbor_prefix_rejected**: this CBOR subset is prefix-free on well-formed items — no strict prefix of an encoding decodes. -/
theorem cbor_prefix_rejected (v : SafeNet.Cbor.Val) (hw : SafeNet.Cbor.WellFormed v) (n : Nat)
    (hn : n < (SafeNet.Cbor.encode v).length) : SafeNet.Cbor.decode ((SafeNet.Cbor.encode v).take n) = none :=
  SafeNet.Cbor.prefix_rejected v hw n hn

theorem cbor_encode_injective (v w : SafeNet.Cbor.Val) (hv : SafeNet.Cbor.WellFormed v) (hw : SafeNet.Cbor.WellFormed w)
    (h : SafeNet.Cbor.encode v = SafeNet.Cbor.encode w) : v = w :=
  SafeNet.Cbor.encode_injective v w hv hw h

theorem cbor_encode_append_injective (v w : SafeNet.Cbor.Val) (r s : List Nat) (hv : SafeNet.Cbor.WellFormed v)
    (hw : SafeNet.Cbor.WellFormed w) (h : SafeNet.Cbor.encode v ++ r = SafeNet.Cbor.encode w ++ s) : v = w ∧ r = s :=
  SafeNet.Cbor.encode_append_injective v w r s hv hw h

/-- **cbor_shortest_argument**: the argument (an integer's value, a length) always takes the shortest of the five widths —
immediate below 24, then 1, 2, 4, 8 bytes — as `cbor4ii`'s `TypeNum<u64>::encode` chooses it; the initial byte is
`major << 5 | info`. -/
theorem cbor_shortest_argument (major n : Nat) :
    (SafeNet.Cbor.encodeArg major n).length =
      (if n < 24 then 1 else if n < 256 then 2 else if n < 65536 then 3 else if n < 4294967296 then 5 else 9) ∧
    (SafeNet.Cbor.encodeArg major n).head? = some (major * 32 + SafeNet.Cbor.argInfo n) := by
  refine ⟨?_, rfl⟩
  simp only [SafeNet.Cbor.encodeArg, List.length_cons, SafeNet.Cbor.argBytes_length, SafeNet.Cbor.argLen]
  repeat' split
  all_goals rfl

/-- tags, floats, `undefined`, `break`, the reserved additional-information values and indefinite lengths — none of which
the encoder writes — are errors of the model decoder, whatever follows -/
theorem cbor_unsupported_rejected (b : Nat) (rest : List Nat)
    (h : (b < 192 ∧ 28 ≤ b % 32) ∨ (192 ≤ b ∧ b ≠ 0xf4 ∧ b ≠ 0xf5 ∧ b ≠ 0xf6)) :
    SafeNet.Cbor.decode (b :: rest) = none := by
  have hd : SafeNet.Cbor.decodeHead (b :: rest) = none := by
    simp only [SafeNet.Cbor.decodeHead]
    rcases h with ⟨h1, h2⟩ | ⟨h1, h2, h3, h4⟩
    · rw [if_neg (by omega), if_neg (by omega), if_neg (by omega), if_pos h1]
      simp only [SafeNet.Cbor.readArg]
      rw [if_neg (by omega), if_neg (by omega), if_neg (by omega), if_neg (by omega), if_neg (by omega)]
      rfl
    · rw [if_neg h2, if_neg h3, if_neg h4, if_neg (by omega)]
  unfold SafeNet.Cbor.decode
  simp only [List.length_cons]
  exact SafeNet.Cbor.decodeF_head_none _ _ hd

/-- the codec the swarm is built with (`NodeBehaviour::request_response` in `ant-networking/src/driver.rs`, read by
`rs2lean`) is the CBOR one: the byte-level model below is the model of what is on the wire -/
theorem message_codec_is_cbor : messageCodec = .cbor := by decide

/-- `PrettyPrintRecordKey` (inside `Error::RecordExists`) has hand-written serde impls: what `Serialize` writes and what
`Deserialize` reads are the same data-model kind, and it is today's one — a sequence of `u8` (a CBOR array of small
integers, NOT a byte string: `cbor4ii`, unlike `rmp_serde`, does not read one for the other). -/
theorem pretty_key_kinds_agree : ppkSerKind = ppkDeKind ∧ ppkSerKind = .seq ∧ prettyKeyW = SafeNet.WireCbor.vecU8 ∧ prettyKeyR = prettyKeyW := by
  refine ⟨by decide, by decide, rfl, rfl⟩

theorem message_schemas_ok :
    schemaOkC request = true ∧ schemaOkC (response prettyKeyW) = true ∧ schemaOkC cmd = true ∧ schemaOkC query = true ∧
    schemaOkC (cmdResponse prettyKeyW) = true ∧ schemaOkC (queryResponse prettyKeyW) = true ∧
    schemaOkC (protocolError prettyKeyW) = true ∧ schemaOkC networkAddress = true ∧ schemaOkC paymentQuote = true := by
  refine ⟨?_, ?_, ?_, ?_, ?_, ?_, ?_, ?_, ?_⟩ <;> decide +kernel

/-- **value_roundtrip_cbor**: a value `t` of the type described by schema `s`, written as `cbor4ii` does and read back, is `t`,
and the bytes that followed are untouched -/
theorem value_roundtrip_cbor (s : CSchema) (t : CTree) (rest : List Nat) (hs : schemaOkC s = true)
    (hc : conformsC s t = true) (hw : treeWfC t = true) : readMsg s (writeMsg t ++ rest) = some (t, rest) :=
  readMsg_writeMsg s t rest hs hc hw

/-- **message_roundtrip_cbor**: every well-formed `Request` and every well-formed `Response` — all variants, with every
payload the schemas admit: `GetStoreQuote { quote: Err(RecordExists(key)) }`, `GetReplicatedRecord`, `CheckNodeInProblem`,
`Replicate { holder, keys }`, `PeerConsideredAsBad`, … — is read back as itself from its CBOR bytes by the reader's schema
(which for `PrettyPrintRecordKey` is what its `Deserialize` impl expects), with trailing bytes preserved. -/
theorem message_roundtrip_cbor :
    (∀ t rest, conformsC request t = true → treeWfC t = true → readMsg request (writeMsg t ++ rest) = some (t, rest)) ∧
    (∀ t rest, conformsC (response prettyKeyW) t = true → treeWfC t = true →
      readMsg (response prettyKeyR) (writeMsg t ++ rest) = some (t, rest)) := by
  constructor
  · intro t rest hc hw; exact readMsg_writeMsg _ t rest message_schemas_ok.1 hc hw
  · intro t rest hc hw
    rw [pretty_key_kinds_agree.2.2.2]
    exact readMsg_writeMsg _ t rest message_schemas_ok.2.1 hc hw

/-- **message_truncated_rejected**: a proper prefix of a written message never reads as a complete value — of ANY type -/
theorem message_truncated_rejected (s : CSchema) (t : CTree) (hw : treeWfC t = true) (n : Nat)
    (hn : n < (writeMsg t).length) : readMsg s ((writeMsg t).take n) = none :=
  readMsg_prefix_none s t hw n hn

/-- the codec's reader cuts the stream at its size limit first (`io.take(REQUEST_SIZE_MAXIMUM)`): a message longer than the
limit is an error (never a shorter message), a message within it is read whatever the limit is -/
theorem oversize_message_rejected (cap : Nat) (s : CSchema) (t : CTree) (rest : List Nat) (hw : treeWfC t = true) :
    (cap < (writeMsg t).length → readCapped cap s (writeMsg t ++ rest) = none) ∧
    ((writeMsg t).length ≤ cap → schemaOkC s = true → conformsC s t = true →
      ∃ r, readCapped cap s (writeMsg t ++ rest) = some (t, r)) := by
  constructor
  · intro h
    unfold readCapped
    rw [List.take_append_of_le_length (by omega)]
    exact readMsg_prefix_none s t hw cap h
  · intro h hs hc
    unfold readCapped
    rw [List.take_append, List.take_of_length_le h]
    exact ⟨_, readMsg_writeMsg s t _ hs hc hw⟩

/-- **message_decode_total**: the empty input and an unknown variant name (as a map key or as a bare string) are errors of
the model reader.  The 1st conjunct is only the MODEL HALF of "never crashes" (the reader is a total Lean function: error
or value); that the real codec returns `Err` and does not panic on arbitrary, truncated and unknown-kind bytes is
established by the correspondence run (`cdec` lines under `catch_unwind`), not by this theorem. -/
theorem message_decode_total :
    (∀ s bs, readMsg s bs = none ∨ ∃ t r, readMsg s bs = some (t, r)) ∧
    (∀ s, readMsg s [] = none) ∧
    (∀ name payload, name ≠ nm "Cmd" → name ≠ nm "Query" →
      ofC request (.map [(.text name, payload)]) = none ∧ ofC (response prettyKeyR) (.map [(.text name, payload)]) = none ∧
      ofC request (.text name) = none) := by
  refine ⟨?_, ?_, ?_⟩
  · intro s bs
    cases h : readMsg s bs with
    | none => exact Or.inl rfl
    | some p => exact Or.inr ⟨p.1, p.2, rfl⟩
  · intro s; rfl
  · intro name payload h1 h2
    have e1 : (nm "Cmd" == name) = false := by
      cases h : (nm "Cmd" == name) with
      | false => rfl
      | true => exact absurd (eq_of_beq h).symm h1
    have e2 : (nm "Query" == name) = false := by
      cases h : (nm "Query" == name) with
      | false => rfl
      | true => exact absurd (eq_of_beq h).symm h2
    refine ⟨?_, ?_, ?_⟩
    · simp [SafeNet.WireCbor.request, ofC, ofCVariant, e1, e2]
    · simp [SafeNet.WireCbor.response, ofC, ofCVariant, e1, e2]
    · simp [SafeNet.WireCbor.request, ofC, SafeNet.WireCbor.isUnitVariant, e1, e2]

/-- two messages of one type with the same bytes are the same message -/
theorem message_bytes_injective (s : CSchema) (t t' : CTree) (hs : schemaOkC s = true) (hc : conformsC s t = true)
    (hc' : conformsC s t' = true) (hw : treeWfC t = true) (hw' : treeWfC t' = true) (h : writeMsg t = writeMsg t') :
    t = t' := by
  have e : toC t = toC t' := SafeNet.Cbor.encode_injective _ _ (toC_wf t hw) (toC_wf t' hw') h
  have a := ofC_toC s t hs hc
  rw [e, ofC_toC s t' hs hc'] at a
  exact (Option.some.inj a).symm

/-- **message_schemas_tied**: every enum schema of the CBOR model has exactly the variants of the Rust enum by NAME, each
with the payload shape serde derives — struct variants with exactly the Rust FIELD NAMES in declaration order, which are
the map keys on the wire — and every struct schema has exactly the struct's field names in order; all read from the
current source by `rs2lean` (which refuses any `#[serde(..)]` attribute or hand-written impl on these types).  The newtype
structs inside messages are one-field tuple structs, hence transparent. -/
theorem message_schemas_tied :
    enumTiedC enum_Request request = true ∧ enumTiedC enum_Response (response prettyKeyW) = true ∧
    enumTiedC enum_Cmd cmd = true ∧ enumTiedC enum_Query query = true ∧
    enumTiedC enum_CmdResponse (cmdResponse prettyKeyW) = true ∧
    enumTiedC enum_QueryResponse (queryResponse prettyKeyW) = true ∧
    enumTiedC enum_Error (protocolError prettyKeyW) = true ∧
    enumTiedC enum_NetworkAddress networkAddress = true ∧ enumTiedC enum_RecordType recordType = true ∧
    structTiedC struct_PaymentQuote paymentQuote = true ∧ structTiedC struct_QuotingMetrics quotingMetrics = true ∧
    structTiedC struct_RegisterAddress registerAddress = true ∧ structTiedC struct_ScratchpadAddress scratchpadAddress = true ∧
    struct_ChunkAddress.length = 1 ∧ struct_TransactionAddress.length = 1 ∧ struct_ChunkProof.length = 1 := by
  refine ⟨?_, ?_, ?_, ?_, ?_, ?_, ?_, ?_, ?_, ?_, ?_, ?_, ?_, ?_, ?_, ?_⟩ <;> decide +kernel

set_option maxRecDepth 8192 in
/-- **message_wire_names_fixed**: the complete vocabulary of text strings a `Request` / a `Response` can carry as a variant
name or a map key is the fixed one nodes use today (order of first appearance in the schema). -/
theorem message_wire_names_fixed :
    wireNames request = ["Cmd", "Replicate", "holder", "PeerId", "ChunkAddress", "TransactionAddress", "RegisterAddress",
      "meta", "owner", "RecordKey", "ScratchpadAddress", "keys", "Chunk", "Scratchpad", "NonChunk", "PeerConsideredAsBad",
      "detected_by", "bad_peer", "bad_behaviour", "Query", "GetStoreQuote", "key", "nonce", "difficulty",
      "GetReplicatedRecord", "requester", "GetRegisterRecord", "GetChunkExistenceProof", "CheckNodeInProblem",
      "GetClosestPeers", "num_of_peers", "range", "sign_result"] ∧
    wireNames (response prettyKeyW) = ["Cmd", "Replicate", "Ok", "Err", "UserDataDirectoryNotObtainable",
      "CouldNotObtainPortFromMultiAddr", "ParseRetryStrategyError", "CouldNotObtainDataDir", "ChunkDoesNotExist", "PeerId",
      "ChunkAddress", "TransactionAddress", "RegisterAddress", "meta", "owner", "RecordKey", "ScratchpadAddress",
      "RegisterNotFound", "RegisterAlreadyClaimed", "RegisterRecordNotFound", "holder", "key",
      "ScratchpadHexDeserializeFailed", "ScratchpadCipherTextFailed", "ScratchpadCipherTextInvalid", "GetStoreQuoteFailed",
      "QuoteGenerationFailed", "ReplicatedRecordNotFound", "RecordHeaderParsingFailed", "RecordParsingFailed",
      "RecordExists", "PeerConsideredAsBad", "Query", "GetStoreQuote", "quote", "content", "timestamp", "secs_since_epoch",
      "nanos_since_epoch", "quoting_metrics", "close_records_stored", "max_records", "received_payment_count", "live_time",
      "network_density", "network_size", "rewards_address", "pub_key", "signature", "peer_address", "storage_proofs",
      "CheckNodeInProblem", "reporter_address", "target_address", "is_in_trouble", "GetReplicatedRecord",
      "GetRegisterRecord", "GetChunkExistenceProof", "GetClosestPeers", "target", "peers"] := by
  constructor <;> decide +kernel

/-- **message_wire_form**: for EVERY payload, a variant with payload is the one-entry map `{name: payload}` (`0xa1`, the
name as a text string, the payload), a unit variant is the bare name, the unit value is the empty array `0x80`, `None` is
`null` (`0xf6`), `Some(x)` is `x`, and a struct body opens with a map header counting its fields. -/
theorem message_wire_form (name : List Nat) (t : CTree) (fs : List (List Nat × CTree)) :
    writeMsg (.nvar name t) = 0xa1 :: (SafeNet.Cbor.encode (.text name) ++ writeMsg t) ∧
    writeMsg (.uvar name) = SafeNet.Cbor.encode (.text name) ∧
    writeMsg .unit = [0x80] ∧ writeMsg .none = [0xf6] ∧ writeMsg (.some t) = writeMsg t ∧
    writeMsg (.bool true) = [0xf5] ∧ writeMsg (.bool false) = [0xf4] ∧
    (writeMsg (.record fs)).take (SafeNet.Cbor.encodeArg 5 fs.length).length = SafeNet.Cbor.encodeArg 5 fs.length := by
  refine ⟨?_, rfl, rfl, rfl, rfl, rfl, rfl, ?_⟩
  · simp [writeMsg, toC, SafeNet.Cbor.encode, SafeNet.Cbor.encodePairs, SafeNet.Cbor.encodeHead, SafeNet.Cbor.encodeArg,
      SafeNet.Cbor.argInfo, SafeNet.Cbor.argBytes]
  · simp only [writeMsg, toC, SafeNet.Cbor.encode, SafeNet.Cbor.encodeHead, toCFields_length]
    rw [List.take_append_of_le_length (Nat.le_refl _), List.take_length]

/-- **message_opens_with_kind**: every `Request` and every `Response` starts with the bytes `a1 63 "Cmd"` or
`a1 65 "Query"` — the message analogue of the record header's fixed prefix. -/
theorem message_opens_with_kind (t : CTree)
    (h : conformsC request t = true ∨ conformsC (response prettyKeyW) t = true) :
    (∃ p, t = .nvar (nm "Cmd") p ∧ writeMsg t = [0xa1, 0x63, 67, 109, 100] ++ writeMsg p) ∨
    (∃ p, t = .nvar (nm "Query") p ∧ writeMsg t = [0xa1, 0x65, 81, 117, 101, 114, 121] ++ writeMsg p) := by
  have key : ∀ (a b : CSchema), (match a with | .absent => false | _ => true) = true →
      (match b with | .absent => false | _ => true) = true →
      conformsC (.enum [(nm "Cmd", a), (nm "Query", b)]) t = true →
      (∃ p, t = .nvar (nm "Cmd") p) ∨ (∃ p, t = .nvar (nm "Query") p) := by
    intro a b ha hb hc
    cases t with
    | nvar name p =>
      simp only [conformsC, conformsCVariant] at hc
      cases h1 : (nm "Cmd" == name) with
      | true => exact Or.inl ⟨p, by rw [← eq_of_beq h1]⟩
      | false =>
        rw [h1] at hc
        simp only at hc
        cases h2 : (nm "Query" == name) with
        | true => exact Or.inr ⟨p, by rw [← eq_of_beq h2]⟩
        | false => rw [h2] at hc; simp at hc
    | uvar name =>
      exfalso
      cases a <;> cases b <;> simp [conformsC, SafeNet.WireCbor.isUnitVariant] at hc ha hb
    | _ => simp [conformsC] at hc
  have cases2 : (∃ p, t = .nvar (nm "Cmd") p) ∨ (∃ p, t = .nvar (nm "Query") p) := by
    rcases h with h | h
    · exact key cmd query rfl rfl h
    · exact key (cmdResponse prettyKeyW) (queryResponse prettyKeyW) rfl rfl h
  rcases cases2 with ⟨p, rfl⟩ | ⟨p, rfl⟩
  · exact Or.inl ⟨p, rfl, by rw [(message_wire_form _ p []).1]; rfl⟩
  · exact Or.inr ⟨p, rfl, by rw [(message_wire_form _ p []).1]; rfl⟩

/-! ### the codec's size limits against the messages honest nodes send -/

/-- the limits are those of the libp2p-request-response version locked in Cargo.lock (regenerated from its source: the readers
`io.take(..)` them, the writers check nothing), a node holds up to `MAX_RECORDS_COUNT` records, and the largest worst-case
advertisement that still fits the request limit is far smaller than that -/
theorem codec_limits :
    requestCap = 1048576 ∧ responseCap = 10485760 ∧ maxRecordsCount = 16384 ∧ replicateFits = 8594 ∧
    replicateFits < maxRecordsCount := by decide

/-- **replicate_size_closed_form**: the written size of the honest `Cmd::Replicate` advertising `n` records (32-byte record
keys as the record store keeps them, `NonChunk` content hashes, every byte `b`) is `77 + |array header of n| + n · entrySize b`,
`entrySize` being 122 for bytes `≥ 24` and 90 below (by induction, not by evaluating the encoder) -/
theorem replicate_size_closed_form (n b : Nat) (hb : b < 256) :
    (writeMsg (fillReplicate n b)).length = replicateRequestSize n b ∧
    replicateRequestSize n b = 77 + (if n < 24 then 1 else if n < 256 then 2 else if n < 65536 then 3 else if n < 4294967296 then 5 else 9)
      + n * (if b < 24 then 90 else 122) := by
  refine ⟨SafeNet.WireCbor.replicate_size_closed_form n b hb, ?_⟩
  simp only [replicateRequestSize, encodeArg_length, SafeNet.Cbor.argLen, entrySize]
  repeat' split
  all_goals omega

/-- **honest_replicate_fits_iff**: the worst-case honest advertisement of `n` NON-CHUNK records is read back by its receiver (through the
codec's `REQUEST_SIZE_MAXIMUM`) exactly when `n ≤ replicateFits` (= 8594 for today's constants); above that EVERY receiver's
reader errs — and `MAX_RECORDS_COUNT` is 16384 (`codec_limits`) -/
theorem honest_replicate_fits_iff (n b : Nat) (hb : 24 ≤ b) (hb' : b < 256) (hn : n < 18446744073709551616) :
    readCapped requestCap request (writeMsg (fillReplicate n b)) = some (fillReplicate n b, []) ↔ n ≤ replicateFits := by
  obtain ⟨hfit, hover⟩ := replicate_read n b hb' hn
  have hsz := (replicate_size_closed_form n b hb').2
  obtain ⟨c1, _, _, c4, _⟩ := codec_limits
  rw [c4]
  have hb24 : ¬ b < 24 := by omega
  simp only [hb24, if_false] at hsz
  constructor
  · intro h
    by_cases hle : n ≤ 8594
    · exact hle
    · exfalso
      have : requestCap < replicateRequestSize n b := by
        rw [c1, hsz]; repeat' split
        all_goals omega
      rw [hover this] at h; cases h
  · intro h
    apply hfit
    rw [c1, hsz]; repeat' split
    all_goals omega

/-- the full statement: every honest advertisement of at most `MAX_RECORDS_COUNT` records — `c` chunks (52 bytes each) and `n`
non-chunk records (90 … 122 bytes each), any bytes — round-trips.  FALSE today (known finding
K-r-replicate-exceeds-request-cap; also a C09 matter: a node that cannot get its list decoded advertises nothing).
It fails for nodes holding many NON-CHUNK records; a node full of chunks only is fine (`chunk_only_full_node_fits`). -/
def HonestReplicateRoundTrips : Prop :=
  ∀ c n b, c + n ≤ maxRecordsCount → b < 256 →
    readCapped requestCap request (writeMsg (mixedReplicate c n b)) = some (mixedReplicate c n b, [])

/-- **honest_replicate_mixed_fits_iff**: the exact bound for a node holding `c` chunks and `n` non-chunk records whose hash
bytes are all `≥ 24` (the worst case per entry): its advertisement is read back iff
`77 + |array header of c+n| + 52·c + 122·n ≤ REQUEST_SIZE_MAXIMUM` -/
theorem honest_replicate_mixed_fits_iff (c n b : Nat) (hb : 24 ≤ b) (hb' : b < 256) (hn : c + n < 18446744073709551616) :
    readCapped requestCap request (writeMsg (mixedReplicate c n b)) = some (mixedReplicate c n b, []) ↔
      77 + (if c + n < 24 then 1 else if c + n < 256 then 2 else if c + n < 65536 then 3 else if c + n < 4294967296 then 5 else 9)
        + 52 * c + 122 * n ≤ requestCap := by
  obtain ⟨hfit, hover⟩ := mixed_read c n b hb' hn
  have hsz : mixedRequestSize c n b =
      77 + (if c + n < 24 then 1 else if c + n < 256 then 2 else if c + n < 65536 then 3 else if c + n < 4294967296 then 5 else 9)
        + 52 * c + 122 * n := by
    have hb24 : ¬ b < 24 := by omega
    simp only [mixedRequestSize, encodeArg_length, SafeNet.Cbor.argLen, entrySize, chunkEntrySize, hb24, if_false]
    repeat' split
    all_goals omega
  rw [← hsz]
  constructor
  · intro h
    by_cases hle : mixedRequestSize c n b ≤ requestCap
    · exact hle
    · rw [hover (by omega)] at h; cases h
  · exact hfit

/-- a node FULL of chunks only (16384 of them, 852,048 bytes) is read back whatever the bytes are: the finding is about
non-chunk records -/
theorem chunk_only_full_node_fits (b : Nat) (hb : b < 256) :
    readCapped requestCap request (writeMsg (mixedReplicate maxRecordsCount 0 b)) = some (mixedReplicate maxRecordsCount 0 b, []) := by
  obtain ⟨c1, _, c3, _, _⟩ := codec_limits
  apply (mixed_read maxRecordsCount 0 b hb (by rw [c3]; omega)).1
  simp only [mixedRequestSize, encodeArg_length, SafeNet.Cbor.argLen, chunkEntrySize, c1, c3, Nat.zero_mul]
  decide

/-- witness: 8595 NON-CHUNK records with hash bytes `0xff` are already undecodable, and the list of a node FULL OF NON-CHUNK
records is undecodable whatever the bytes are (even in the best case, every hash byte below 24: 90 bytes per entry).
(Chunk entries take 52 bytes: see `chunk_only_full_node_fits`, `honest_replicate_mixed_fits_iff`.) -/
theorem honest_replicate_exceeds_cap_witness :
    ¬ HonestReplicateRoundTrips ∧
    readCapped requestCap request (writeMsg (fillReplicate 8595 255)) = none ∧
    (∀ b, b < 256 → readCapped requestCap request (writeMsg (fillReplicate maxRecordsCount b)) = none) := by
  obtain ⟨c1, _, c3, _, _⟩ := codec_limits
  have full : ∀ b, b < 256 → readCapped requestCap request (writeMsg (fillReplicate maxRecordsCount b)) = none := by
    intro b hb
    apply (replicate_read maxRecordsCount b hb (by rw [c3]; omega)).2
    rw [(replicate_size_closed_form maxRecordsCount b hb).2, c1, c3]
    repeat' split
    all_goals omega
  refine ⟨?_, ?_, full⟩
  · intro h
    have := h 0 maxRecordsCount 0 (by omega) (by omega)
    rw [mixed_zero_chunks, full 0 (by omega)] at this; cases this
  · apply (replicate_read 8595 255 (by omega) (by omega)).2
    rw [(replicate_size_closed_form 8595 255 (by omega)).2, c1]
    decide

/-- what does hold: up to `replicateFits` NON-CHUNK records (no chunks) the advertisement round-trips, whatever its bytes;
for mixed lists the exact bound is `honest_replicate_mixed_fits_iff` -/
theorem honest_replicate_roundtrips_partial (n b : Nat) (hb : b < 256) (hn : n ≤ replicateFits) :
    readCapped requestCap request (writeMsg (fillReplicate n b)) = some (fillReplicate n b, []) := by
  obtain ⟨c1, _, _, c4, _⟩ := codec_limits
  rw [c4] at hn
  apply (replicate_read n b hb (by omega)).1
  rw [(replicate_size_closed_form n b hb).2, c1]
  repeat' split
  all_goals omega

/-- **response_cap_boundary**: a `GetReplicatedRecord` response carrying an `n`-byte record UNDER THE EMPTY RECORD KEY
(`fillResponse` / the harness's `cresp` put `NetworkAddress::RecordKey("")` into the reply; a real reply names its holder by
a 38-byte peer-id address, which moves the bound down by the length of that address's encoding) is read back through the codec's
`RESPONSE_SIZE_MAXIMUM` exactly up to `n = 10485710` (the 10 MiB limit minus the 50 bytes around the payload); a longer one
is an error of the reader -/
theorem response_cap_boundary (n b : Nat) (hb : b < 256) (hn : n < 18446744073709551616) :
    (writeMsg (fillResponse n b)).length = fillResponseSize n ∧
    (readCapped responseCap (response prettyKeyR) (writeMsg (fillResponse n b)) = some (fillResponse n b, []) ↔ n ≤ 10485710) := by
  obtain ⟨hfit, hover⟩ := response_read n b hb hn
  obtain ⟨_, c2, _, _, _⟩ := codec_limits
  have hsz : fillResponseSize n = 45 + (if n < 24 then 1 else if n < 256 then 2 else if n < 65536 then 3 else if n < 4294967296 then 5 else 9) + n := by
    simp only [fillResponseSize, encodeArg_length, SafeNet.Cbor.argLen]
    repeat' split
    all_goals omega
  refine ⟨fillResponse_size n b, ?_, ?_⟩
  · intro h
    by_cases hle : n ≤ 10485710
    · exact hle
    · exfalso
      have : responseCap < fillResponseSize n := by
        rw [c2, hsz]; repeat' split
        all_goals omega
      rw [hover this] at h; cases h
  · intro h
    apply hfit
    rw [c2, hsz]; repeat' split
    all_goals omega

end Messages

/-! ### the type stored under each kind is the type the code deserialises -/

/-- **payload_types_tied**: `payloadSchema k` is the schema of the Rust type named `payloadTypeName k`; these eight names are
EXACTLY the type arguments of the `try_deserialize_record` calls in the node's and the networking layer's record paths
(regenerated by rs2lean: a new call with another type, or a kind's type no longer deserialised anywhere, breaks this); and the
newtype wrappers on the wire (`EncodedPeerId`, `ChunkAddress`, `TransactionAddress`, `ChunkProof`) are single-field tuple
structs with derived serde impls (rs2lean refuses attributes / hand-written impls), i.e. transparent.  Which call site sits
under which kind's match arm is NOT read from the source (tied by the `rec` / `recdec` correspondence only). -/
theorem payload_types_tied :
    (∀ k, schemaOfRust (payloadTypeName k) = some (payloadSchema k)) ∧
    RecordKind.all.all (fun k => SafeNet.Gen.WireShape.deserializeRecordTypes.contains (payloadTypeName k)) = true ∧
    SafeNet.Gen.WireShape.deserializeRecordTypes.all (fun t => RecordKind.all.any (fun k => payloadTypeName k == t)) = true ∧
    SafeNet.Gen.WireShape.struct_EncodedPeerId = ["0"] ∧ SafeNet.Gen.WireShape.struct_ChunkAddress = ["0"] ∧
    SafeNet.Gen.WireShape.struct_TransactionAddress = ["0"] ∧ SafeNet.Gen.WireShape.struct_ChunkProof = ["0"] := by
  refine ⟨?_, by decide, by decide, by decide, by decide, by decide, by decide⟩
  intro k; cases k <;> rfl

/-! ### a paid chunk's address cannot be forged either -/

/-- **paid_chunk_addr_recomputed**: a `(ProofOfPayment, Chunk)` record (kind `ChunkWithPayment`), whatever address its chunk
carried when it was serialised and whatever the proof is, deserialises to the same proof and a chunk whose address is the
content hash of its bytes -/
theorem paid_chunk_addr_recomputed (H : List Nat → List Nat) (p : Tree) (c : Chunk)
    (hp : conforms proofOfPayment p = true) (hpw : treeWf p = true)
    (hv : c.value.length < 4294967296 ∧ isBytes c.value = true) :
    fromRecord (trySerializeRecord (.arr [toVal p, c.toVal]) .ChunkWithPayment) = some .ChunkWithPayment ∧
    (tryDeserializeRecord (trySerializeRecord (.arr [toVal p, c.toVal]) .ChunkWithPayment)).bind
        (paidChunkOfVal (ofVal proofOfPayment) H) = some (p, { address := H c.value, value := c.value }) := by
  have hw : WellFormed (.arr [toVal p, c.toVal]) := by
    have h1 : wf (toVal p) = true := toVal_wf p hpw
    simp only [WellFormed, Chunk.toVal, wf, wfList, h1, Bool.and_eq_true, decide_eq_true_eq, List.length_cons, List.length_nil]
    exact ⟨by omega, trivial, ⟨hv.1, hv.2⟩, trivial⟩
  obtain ⟨h1, h2⟩ := record_roundtrip .ChunkWithPayment _ hw
  refine ⟨h1, ?_⟩
  rw [h2]
  simp only [Option.bind, paidChunkOfVal, Chunk.toVal, ofVal_toVal proofOfPayment p (by decide) hp]
  rfl

/-! ## non-vacuity -/

example : enumTied SafeNet.Gen.WireShape.enum_RecordType (.enum [(nm "Chunk", .absent), (nm "NonChunk", xorName)]) = false := by decide
example : enumTied SafeNet.Gen.WireShape.enum_RecordType (.enum [(nm "Chunk", .absent), (nm "Scratchpad", xorName), (nm "NonChunk", xorName)]) = false := by decide
example : structTied SafeNet.Gen.WireShape.struct_PaymentQuote (.tup [xorName, systemTime]) = false := by decide
example : registerHexShapeOk [] = false := by decide

example : isChunk [0x91, 1, 0xc4] = some true := by decide
example : isChunk [0x91, 5, 0xc4] = some false := by decide
example : isChunk [0x91, 8, 0xc4] = none := by decide
example : headerTryDeserialize [0x91, 0xcf, 0, 0, 0, 0, 0, 0, 0, 5] = some .Scratchpad := by decide
example : headerTryDeserialize [0xdc, 0, 1, 0xd1, 0, 7, 9] = some .TransactionWithPayment := by decide
example : headerTryDeserialize [0x91, 0xd0, 0xff] = none := by decide

example : decode ((encode (.arr [.uint 300, .str [104, 105]])).take 5) = none := by decide
example : decode [0x92, 0xcd, 0, 7, 0xd9, 1, 65, 9] = some (.arr [.uint 7, .str [65]], [9]) := rfl
example : encode (.arr [.uint 7, .str [65]]) = [0x92, 7, 0xa1, 65] := by decide
example : (encode (.arr [.uint 300, .str [104, 105]])).length = 7 := by decide
example : tryDeserializeRecord ((trySerializeRecord (.bin [1, 2, 3]) .Chunk).take 6) = none := by decide
example : tryDeserializeRecord (trySerializeRecord (.bin [1, 2, 3]) .Chunk) = some (.bin [1, 2, 3]) := rfl

example : headerBytes .Chunk = [0x91, 1] := rfl
example : fromRecord [0x91, 0xcc, 5] = some .Scratchpad := by decide
example : fromRecord [0x91, 8, 0] = none := by decide
example : encode (toVal (.nvar (nm "NonChunk") (.tup [.u 200, .u 1]))) =
    [0x81, 0xa8, 78, 111, 110, 67, 104, 117, 110, 107, 0x92, 0xcc, 200, 1] := by decide
example : conforms recordType (.uvar (nm "Chunk")) = true := by decide
example : conforms permissions (.nvar (nm "Writers") (.seq [])) = true := by decide
example : conforms merkleNode (.tup [.seq [], .seq [.u 1, .u 2]]) = true := by decide
example : conforms merkleNode (.tup [.seq [], .bytes [1, 2]]) = false := by decide
example : payloadSchema .RegisterWithPayment = .tup [proofOfPayment, signedRegister] := rfl
example : schemaOk recordType = true := by decide

section MessageExamples
open SafeNet.WireCbor

/-- `Response::Cmd(CmdResponse::Replicate(Ok(())))` — the bytes the real codec writes (golden vector of the harness) -/
example : writeMsg (.nvar (nm "Cmd") (.nvar (nm "Replicate") (.nvar (nm "Ok") .unit))) =
    [0xa1, 0x63, 67, 109, 100, 0xa1, 0x69, 82, 101, 112, 108, 105, 99, 97, 116, 101, 0xa1, 0x62, 79, 107, 0x80] := by decide
example : conformsC (response prettyKeyW) (.nvar (nm "Cmd") (.nvar (nm "Replicate") (.nvar (nm "Ok") .unit))) = true := by decide
example : readMsg (response prettyKeyR)
    [0xa1, 0x63, 67, 109, 100, 0xa1, 0x69, 82, 101, 112, 108, 105, 99, 97, 116, 101, 0xa1, 0x62, 79, 107, 0x80, 7] =
    some (.nvar (nm "Cmd") (.nvar (nm "Replicate") (.nvar (nm "Ok") .unit)), [7]) := rfl
example : readMsg (response prettyKeyR)
    [0xa1, 0x63, 67, 109, 100, 0xa1, 0x69, 82, 101, 112, 108, 105, 99, 97, 116, 101, 0xa1, 0x62, 79, 107] = none := by decide
/-- `Request::Query(Query::GetStoreQuote { key: RecordKey(b""), nonce: Some(24), difficulty: 256 })` -/
example : writeMsg (.nvar (nm "Query") (.nvar (nm "GetStoreQuote") (.record [(nm "key", .nvar (nm "RecordKey") (.bytes [])),
      (nm "nonce", .some (.u 24)), (nm "difficulty", .u 256)]))) =
    [0xa1, 0x65, 81, 117, 101, 114, 121, 0xa1, 0x6d, 71, 101, 116, 83, 116, 111, 114, 101, 81, 117, 111, 116, 101, 0xa3,
     0x63, 107, 101, 121, 0xa1, 0x69, 82, 101, 99, 111, 114, 100, 75, 101, 121, 0x40,
     0x65, 110, 111, 110, 99, 101, 0x18, 24, 0x6a, 100, 105, 102, 102, 105, 99, 117, 108, 116, 121, 0x19, 1, 0] := by decide
example : conformsC request (.nvar (nm "Query") (.nvar (nm "GetStoreQuote") (.record [(nm "key", .nvar (nm "RecordKey") (.bytes [])),
      (nm "nonce", .some (.u 24)), (nm "difficulty", .u 256)]))) = true := by decide
/-- a field under another name, fields in another order and an unknown variant are not values of the type -/
example : conformsC request (.nvar (nm "Query") (.nvar (nm "GetStoreQuote") (.record [(nm "key", .nvar (nm "RecordKey") (.bytes [])),
      (nm "n", .none), (nm "difficulty", .u 0)]))) = false := by decide
example : conformsC request (.nvar (nm "Query") (.nvar (nm "GetStoreQuote") (.record [(nm "nonce", .none),
      (nm "key", .nvar (nm "RecordKey") (.bytes [])), (nm "difficulty", .u 0)]))) = false := by decide
example : conformsC request (.nvar (nm "Query") (.nvar (nm "GetQuote") .unit)) = false := by decide
/-- `Error::RecordExists(key)`: the key travels as an array of small integers, and a byte string is not read for it -/
example : writeMsg (.nvar (nm "RecordExists") (.seq [.u 1, .u 0x18, .u 0xff])) =
    [0xa1, 0x6c, 82, 101, 99, 111, 114, 100, 69, 120, 105, 115, 116, 115, 0x83, 1, 0x18, 0x18, 0x18, 0xff] := by decide
example : ofC (protocolError prettyKeyR) (.map [(.text (nm "RecordExists"), .bytes [1, 2])]) = none := by decide
example : SafeNet.Cbor.decode [0x9f, 0xff] = none := by decide
example : SafeNet.Cbor.decode [0xc1, 0] = none := by decide
example : SafeNet.Cbor.decode [0x19, 0, 5, 9] = some (.uint 5, [9]) := rfl
example : SafeNet.Cbor.encode (.uint 5) = [5] := by decide
-- sizes against the codec's limits
example : replicateRequestSize 8594 255 = 1048548 ∧ replicateRequestSize 8595 255 = 1048670 ∧
    replicateRequestSize 16384 0 = 1474640 := by decide
example : (writeMsg (fillReplicate 1 255)).length = 200 := rfl
example : (writeMsg (fillReplicate 1 23)).length = 168 := rfl
example : conformsC request (fillReplicate 3 7) = true := by decide
example : fillResponseSize 10485710 = 10485760 := by decide
example : writeMsg (fillResponse 2 7) = responsePrefix ++ [0x42, 7, 7] := by decide
example : paidChunkOfVal (ofVal proofOfPayment) (fun s => 1 :: s) (.arr [.arr [.arr []], .bin [5]]) =
    some (.tup [.seq []], { address := [1, 5], value := [5] }) := rfl
example : paidChunkOfVal (ofVal proofOfPayment) (fun s => s) (.arr [.nil, .bin [5]]) = none := rfl

end MessageExamples

end SafeNet.Props.C12

#print axioms SafeNet.Props.C12.decode_encode
#print axioms SafeNet.Props.C12.value_roundtrip
#print axioms SafeNet.Props.C12.header_two_bytes
#print axioms SafeNet.Props.C12.tag_values
#print axioms SafeNet.Props.C12.from_record_canonical
#print axioms SafeNet.Props.C12.record_roundtrip
#print axioms SafeNet.Props.C12.record_roundtrip_typed
#print axioms SafeNet.Props.C12.chunk_addr_recomputed
#print axioms SafeNet.Props.C12.chunk_addr_is_sha3
#print axioms SafeNet.Props.C12.decode_total
#print axioms SafeNet.Props.C12.prefix_rejected
#print axioms SafeNet.Props.C12.truncated_record_rejected
#print axioms SafeNet.Props.C12.truncated_record_rejected_typed
#print axioms SafeNet.Props.C12.encode_injective
#print axioms SafeNet.Props.C12.encode_append_injective
#print axioms SafeNet.Props.C12.record_bytes_injective
#print axioms SafeNet.Props.C12.decode_accepts_noncanonical
#print axioms SafeNet.Props.C12.canonical_iff
#print axioms SafeNet.Props.C12.decode_wf
#print axioms SafeNet.Props.C12.decode_normalises
#print axioms SafeNet.Props.C12.header_noncanonical_windows
#print axioms SafeNet.Props.C12.is_chunk_spec
#print axioms SafeNet.Props.C12.is_chunk_unknown_or_short_errs
#print axioms SafeNet.Props.C12.from_record_is_try_deserialize_window
#print axioms SafeNet.Props.C12.try_deserialize_any_width
#print axioms SafeNet.Props.C12.schemas_tied
#print axioms SafeNet.Props.C12.wire_names_fixed
#print axioms SafeNet.Props.C12.variant_wire_form
#print axioms SafeNet.Props.C12.variant_names_separate
#print axioms SafeNet.Props.C12.wire_stable
#print axioms SafeNet.Props.C12.wire_prefixes
#print axioms SafeNet.Props.C12.unknown_tag_every_spelling
#print axioms SafeNet.Props.C12.record_schemas_ok
#print axioms SafeNet.Props.C12.record_roundtrip_every_kind
#print axioms SafeNet.Props.C12.cbor_decode_encode
#print axioms SafeNet.Props.C12.cbor_prefix_rejected
#print axioms SafeNet.Props.C12.cbor_encode_injective
#print axioms SafeNet.Props.C12.cbor_encode_append_injective
#print axioms SafeNet.Props.C12.cbor_shortest_argument
#print axioms SafeNet.Props.C12.cbor_unsupported_rejected
#print axioms SafeNet.Props.C12.message_codec_is_cbor
#print axioms SafeNet.Props.C12.pretty_key_kinds_agree
#print axioms SafeNet.Props.C12.message_schemas_ok
#print axioms SafeNet.Props.C12.value_roundtrip_cbor
#print axioms SafeNet.Props.C12.message_roundtrip_cbor
#print axioms SafeNet.Props.C12.message_truncated_rejected
#print axioms SafeNet.Props.C12.oversize_message_rejected
#print axioms SafeNet.Props.C12.message_decode_total
#print axioms SafeNet.Props.C12.message_bytes_injective
#print axioms SafeNet.Props.C12.message_schemas_tied
#print axioms SafeNet.Props.C12.message_wire_names_fixed
#print axioms SafeNet.Props.C12.message_wire_form
#print axioms SafeNet.Props.C12.message_opens_with_kind
#print axioms SafeNet.Props.C12.codec_limits
#print axioms SafeNet.Props.C12.replicate_size_closed_form
#print axioms SafeNet.Props.C12.honest_replicate_fits_iff
#print axioms SafeNet.Props.C12.honest_replicate_exceeds_cap_witness
#print axioms SafeNet.Props.C12.honest_replicate_mixed_fits_iff
#print axioms SafeNet.Props.C12.chunk_only_full_node_fits
#print axioms SafeNet.Props.C12.honest_replicate_roundtrips_partial
#print axioms SafeNet.Props.C12.response_cap_boundary
#print axioms SafeNet.Props.C12.paid_chunk_addr_recomputed
#print axioms SafeNet.Props.C12.payload_types_tied
