import SafeNet.Model.Quote
/-!
Model of the use site of `historical_verify`: `SwarmDriver::verify_peer_quote` and the
`LocalSwarmCmd::QuoteVerification` arm of `handle_local_cmd` (`ant-networking/src/cmd.rs`).

Per peer the driver remembers one quote (`quotes_history`) and a list of issues (`bad_nodes`).  An arriving quote
is run through the checks of `Gen.Quote.historyChecks` *in source order* against the remembered quote:
`verify` — `!history.historical_verify(quote)` ⇒ record `NodeIssue::BadQuoting`, keep the history, stop;
`newer`  — `history.is_newer_than(quote)` ⇒ stop.  If no check stops, the arriving quote replaces the history.

`record_node_issue` pushes an issue only if the previous one is older than 10 s and declares a node bad after
three equal issues; within one delivered batch (milliseconds) the observable is therefore "a `BadQuoting` issue is
recorded for the peer" (`flagged`), which is what the model tracks.  The clock is a parameter.
-/
namespace SafeNet.QuoteHist
open SafeNet.Quote SafeNet.Gen.Quote

structure PeerState where
  history : Option Hist
  flagged : Bool
  deriving DecidableEq, Repr

def PeerState.empty : PeerState := ⟨none, false⟩

inductive Verdict | flag | ignore | store
  deriving DecidableEq, Repr

/-- run the checks in order against the remembered quote `h` -/
def runChecks (h q : Hist) (now : Nat) : List HistCheck → Verdict
  | [] => .store
  | .verify :: rest => if historicalVerify h q now then runChecks h q now rest else .flag
  | .newer :: rest => if isNewerThan h.ts q.ts then .ignore else runChecks h q now rest

/-- `verify_peer_quote` for one peer, at clock reading `now` -/
def deliver (s : PeerState) (q : Hist) (now : Nat) : PeerState :=
  match s.history with
  | none => { s with history := some q }
  | some h =>
    match runChecks h q now historyChecks with
    | .flag => { s with flagged := true }
    | .ignore => s
    | .store => { s with history := some q }

/-- a batch of deliveries for one peer, each with its own clock reading -/
def run (s : PeerState) : List (Hist × Nat) → PeerState
  | [] => s
  | (q, now) :: rest => run (deliver s q now) rest

/-- all peers: association list keyed by peer id -/
abbrev State := List (Nat × PeerState)

def State.get (st : State) (p : Nat) : PeerState :=
  match st.find? (·.1 == p) with
  | some e => e.2
  | none => .empty

def State.set (st : State) (p : Nat) (s : PeerState) : State :=
  (p, s) :: st.filter (·.1 != p)

/-- `QuoteVerification { quotes }`: each `(peer, quote)` in order -/
def deliverAll (st : State) (now : Nat) : List (Nat × Hist) → State
  | [] => st
  | (p, q) :: rest => deliverAll (st.set p (deliver (st.get p) q now)) now rest

end SafeNet.QuoteHist
