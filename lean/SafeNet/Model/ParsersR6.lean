import SafeNet.Model.ParsersExt
/-!
C17, audit round 6: the CONSUMERS of accepted values.  A stored or typed value that its parser accepts goes on
into arithmetic, indexing or an `unwrap`: the data map (decoded from a chunk anyone can store) into
`self_encryption::decrypt_full_set`, the highest service number of the registry file and `--count` into the `u16`
numbering of `add_node`, the metrics URL of a node log into `build_prometheus_config`, the log-file limits
(command line / registry) into `fmt_layer`, a faucet entry without pid into `kill_network`, a registry without
services into the `debug!` of `antctl upgrade`.

Every model takes the shape flag as an explicit first argument (`…With`), so that the repaired shape and the
shape before the repair are both terms; the un-suffixed definition instantiates it with the flag `rs2lean`
re-reads from the source (`SafeNet.Gen.Parsers`).
-/
namespace SafeNet.Parsers
open SafeNet.Panic SafeNet.Gen.Parsers

/-! ### the data map: `fetch_from_data_map_chunk` → `fetch_from_data_map` → `self_encryption::decrypt_full_set` -/

/-- self_encryption `get_n_1_n_2(chunk_index, total_num_chunks)` in `usize`:
`match chunk_index { 0 => (total - 1, total - 2), 1 => (0, total - 1), n => (n - 1, n - 2) }` -/
def seN1N2 (i total : Nat) : Except Panic (Nat × Nat) :=
  match i with
  | 0 =>
    match usub total 1, usub total 2 with
    | .ok a, .ok b => .ok (a, b)
    | .error e, _ => .error e
    | _, .error e => .error e
  | 1 =>
    match usub total 1 with
    | .ok a => .ok (0, a)
    | .error e => .error e
  | n + 2 => .ok (n + 1, n)

/-- self_encryption `get_pad_key_and_iv(chunk_index, chunk_hashes)`: `chunk_hashes[chunk_index]`, `[n_1]`, `[n_2]`
on a list of `total` hashes -/
def sePadKeyIv (total i : Nat) : Except Panic Unit :=
  match seN1N2 i total with
  | .error e => .error e
  | .ok (a, b) => if i < total && a < total && b < total then .ok () else .error .sliceIndex

/-- the panic sites of `decrypt_full_set` on a data map whose chunk infos carry the stored indices `idxs`
(one `decrypt_chunk(c.index, …, &src_hashes)` per fetched chunk, `src_hashes.len() = idxs.length`);
rayon re-raises a panic of any of them -/
def seDecryptSitesGo (total : Nat) : List Nat → Except Panic Unit
  | [] => .ok ()
  | i :: rest =>
    match sePadKeyIv total i with
    | .error e => .error e
    | .ok _ => seDecryptSitesGo total rest

def seDecryptSites (idxs : List Nat) : Except Panic Unit :=
  if sePadIndexUnchecked then seDecryptSitesGo idxs.length idxs else .ok ()

/-- the check `fetch_from_data_map` makes before fetching: at least `dataMapMinChunks` chunks, every stored index
below the chunk count -/
def dataMapWellFormed (idxs : List Nat) : Bool :=
  decide (dataMapMinChunks ≤ idxs.length) && idxs.all (fun i => decide (i < idxs.length))

/-- one level as the third parties see it: `First`/`Additional`, the stored chunk indices, whether every named chunk
could be fetched, what the cryptography (AES, Brotli: abstract, total) says once no index site has fired -/
structure MapLevel where
  additional : Bool
  idxs : List Nat
  fetched : Bool
  decryptOk : Bool

/-- `fetch_from_data_map_chunk`: `levels` = `rmp_serde`'s verdict on the bytes of each successive level
(`none`: not a data map level — also when the text runs out) -/
def dataMapFetchWith (guarded : Bool) : List (Option MapLevel) → Res Unit Unit
  | [] => .err ()
  | none :: _ => .err ()
  | some l :: rest =>
    if guarded && !dataMapWellFormed l.idxs then .err () else
    if !l.fetched then .err () else
    match seDecryptSites l.idxs with
    | .error p => .panic p
    | .ok _ =>
      if !l.decryptOk then .err () else
      if l.additional then dataMapFetchWith guarded rest else .ok ()

def dataMapFetch (levels : List (Option MapLevel)) : Res Unit Unit := dataMapFetchWith dataMapGuarded levels

/-! ### `add_node`: numbering new services in `u16` -/

/-- `while node_number <= target { …; node_number += 1 }`: the numbers handed out, or the overflow of the `+= 1`
(`fuel` ≥ the number of iterations) -/
def numberLoop (w : Nat) : Nat → Nat → Nat → Except Panic (List Nat)
  | 0, _, _ => .ok []
  | fuel + 1, n, target =>
    if n ≤ target then
      match uadd w n 1 with
      | .error e => .error e
      | .ok n' =>
        match numberLoop w fuel n' target with
        | .error e => .error e
        | .ok ns => .ok (n :: ns)
    else .ok []

/-- the numbering of `add_node`: `current` = highest number recorded in the registry (0: none), `count` = `--count`
(default 1); value: the numbers given to the new services -/
def addNumberingWith (guarded : Bool) (current count : Nat) : Res Unit (List Nat) :=
  let w := nodeNumberWidth
  if guarded && ((checkedAdd w current count).bind fun t => checkedAdd w t 1).isNone then .err () else
  match uadd w current count with
  | .error e => .panic e
  | .ok target =>
    match uadd w current 1 with
    | .error e => .panic e
    | .ok first =>
      match numberLoop w (count + 1) first target with
      | .error e => .panic e
      | .ok ns => .ok ns

def addNumbering (current count : Nat) : Res Unit (List Nat) := addNumberingWith addNumberingGuarded current count

/-! ### the metrics tool: the port of an accepted URL -/

/-- what the `url` crate says about the text after "Metrics server on" -/
inductive UrlPort
  | bad        -- does not parse
  | explicit   -- `port()` is `Some`
  | dflt       -- only `port_or_known_default()` is `Some` (`http://host:80/…`, `http://host/…`)
  | absent     -- no port at all (`foo://host/`)
deriving DecidableEq, Repr

/-- `get_metric_servers` on a log with a node-id line and one metrics-server line, then `build_prometheus_config`;
value: number of scrape targets -/
def promConfigWith (checked : Bool) (u : UrlPort) : Res Unit Nat :=
  match metricServers [(true, none), (false, some (u != .bad))] with
  | .panic p => .panic p
  | .err e => .err e
  | .ok n =>
    if n = 0 then .ok 0 else
    match u with
    | .bad => .ok 0
    | .explicit => .ok 1
    | .dflt => if checked then .ok 1 else .panic .unwrap
    | .absent => if checked then .ok 0 else .panic .unwrap

def promConfig (u : UrlPort) : Res Unit Nat := promConfigWith promPortChecked u

/-! ### ant-logging: total number of log files (`usize` = 64 bits) -/

/-- `fmt_layer`: `(uncompressed, total)` handed to the file rotater -/
def logFileLimitsWith (saturating : Bool) (maxUncompressed maxCompressed : Option Nat) : Except Panic (Nat × Nat) :=
  let unc := maxUncompressed.getD logMaxUncompressedDefault
  match maxCompressed with
  | some c =>
    if saturating then .ok (unc, saturatingAdd 64 c unc)
    else match uadd 64 c unc with
      | .error e => .error e
      | .ok t => .ok (unc, t)
  | none => .ok (unc, max unc logMaxFilesDefault)

def logFileLimits (u c : Option Nat) : Except Panic (Nat × Nat) := logFileLimitsWith logFilesAddSaturating u c

/-! ### `antctl local kill`, `antctl upgrade` -/

/-- `kill_network` on a registry without nodes: `faucet` = the faucet entry's `pid` field, if there is an entry.
The pids driven are never those of a process. -/
def killFaucetWith (checked : Bool) (faucet : Option (Option Nat)) : Res Unit Unit :=
  match faucet with
  | none => .ok ()
  | some (some _) => .ok ()
  | some none => if checked then .ok () else .panic .unwrap

def killFaucet (f : Option (Option Nat)) : Res Unit Unit := killFaucetWith faucetPidChecked f

/-- the `debug!` of `cmd::node::upgrade` after the registry refresh (evaluated whenever a subscriber is installed):
`nodes[0]` / `nodes.first()` on a registry of `n` services -/
def upgradeFirstNodeWith (checked : Bool) (n : Nat) : Res Unit Unit :=
  if checked then .ok () else if n = 0 then .panic .sliceIndex else .ok ()

def upgradeFirstNode (n : Nat) : Res Unit Unit := upgradeFirstNodeWith upgradeFirstNodeChecked n

/-- `get_services_for_ops`: every index pushed is `nodes.iter().position(p)` for some predicate `p` (service name / peer id
and "not removed"); with no names given a service without a match is skipped (`skipMissing`), with names it is an error -/
def servicesForOps {α : Type} (nodes : List α) (skipMissing : Bool) : List (α → Bool) → Option (List Nat)
  | [] => some []
  | p :: rest =>
    match nodes.findIdx? p, servicesForOps nodes skipMissing rest with
    | _, none => none
    | some i, some is => some (i :: is)
    | none, some is => if skipMissing then some is else none

/-- `for &index in &service_indices { let node = &mut node_registry.nodes[index]; … }` -/
def upgradeIndexSites (len : Nat) : List Nat → Except Panic Unit
  | [] => .ok ()
  | i :: rest => if i < len then upgradeIndexSites len rest else .error .sliceIndex

/-- `upgrade` after the `debug!`: the services selected, then one `nodes[index]` per selected service -/
def upgradeSelect {α : Type} (nodes : List α) (skipMissing : Bool) (preds : List (α → Bool)) : Res Unit Unit :=
  match servicesForOps nodes skipMissing preds with
  | none => .err ()
  | some idxs =>
    match upgradeIndexSites nodes.length idxs with
    | .error p => .panic p
    | .ok _ => .ok ()

/-! ### `LogOutputDest`: `Display` next to `parse_from_str` (the round-trip clause) -/

inductive LogDest
  | stderr | stdout
  | path (p : Bytes)   -- a path that is valid UTF-8 (`to_string_lossy` is then the identity)
deriving DecidableEq, Repr

/-- `impl Display for LogOutputDest` -/
def logDestDisplay : LogDest → Bytes
  | .stderr => logDestDisplayStderr
  | .stdout => logDestDisplayStdout
  | .path p => p

/-- `LogOutputDest::parse_from_str` as a value: `none` = the time-stamped directory of `data-dir` -/
def logDestParseValue (s : Bytes) : Option LogDest :=
  match logDestKeywordBytes.find? (fun k => k.1 == s) with
  | some (_, kind) => if kind = 0 then some .stdout else if kind = 2 then some .stderr else none
  | none => some (.path s)

/-- parse the formatter's output -/
def logDestRoundTrip (d : LogDest) : Option LogDest := logDestParseValue (logDestDisplay d)

end SafeNet.Parsers
