import SafeNet.Model.Quote
/-!
Model of the node side of quoting (`ant-node/src/quote.rs`):
`Node::create_quote_for_storecost`, `verify_quote_for_storecost` and `quotes_verification`.

The node holds one key `selfKey`; `keyBytes` is the protobuf encoding it puts into the quote (`Network::get_pub_key`).
`quotes_verification` looks for the quote listed under the node's own peer id, checks it with
`verify_quote_for_storecost` (content address, expiry, signature by the node's own key — the quote's key field is not
consulted) and, if that passes, hands on the quotes of OTHER peers that are for the same content, dated within
`quotesTimeGapNs` of the node's own quote and signed by the peer they are listed under.
The 10 s window is hand-modelled (tied by the correspondence run).
-/
namespace SafeNet.QuoteDuty
open SafeNet.Quote

def quotesTimeGapNs : Nat := 10 * nsPerSec

/-- `is_around_same_time` (both branches of the source): strictly less than the gap apart -/
def aroundSameTime (q self : Nat) : Bool :=
  if q > self then decide (self + quotesTimeGapNs > q) else decide (q + quotesTimeGapNs > self)

structure Entry (Peer : Type) where
  claimed : Peer
  quote : Quote

section
variable {Key Peer : Type} [DecidableEq Peer] (S : SigScheme Key) (I : Ids Key Peer)

/-- `Node::create_quote_for_storecost`: the node's key signs `bytes_for_signing` of exactly the given fields -/
def createQuote (selfKey : Key) (keyBytes : List Nat) (content : List Nat) (secs nanos : Nat) (m : Metrics)
    (rewards : List Nat) : Quote :=
  { content := content, secs := secs, nanos := nanos, metrics := m, rewards := rewards, pubKey := keyBytes,
    signature := S.sign selfKey (bytesForSigning content secs m rewards) }

/-- `verify_quote_for_storecost(network, quote, address)` with `address`'s name `addr` -/
def verifyForStorecost (selfKey : Key) (q : Quote) (addr : List Nat) (now : Nat) : Bool :=
  if addr ≠ q.content then false
  else if hasExpired q.ts now then false
  else S.verify selfKey q.sigBytes q.signature

/-- `quotes_verification`: `none` = nothing is sent to the swarm driver, `some l` = `l` is handed on -/
def quotesVerification (self : Peer) (selfKey : Key) (now : Nat) (quotes : List (Entry Peer)) : Option (List (Entry Peer)) :=
  match quotes.find? (fun e => decide (e.claimed = self)) with
  | none => none
  | some me =>
    if verifyForStorecost S selfKey me.quote me.quote.content now then
      some (quotes.filter fun e =>
        decide (e.quote.content = me.quote.content) && decide (e.claimed ≠ self) &&
        aroundSameTime e.quote.ts me.quote.ts && checkSigned S I e.quote e.claimed)
    else none

/-- what the swarm driver answers to `GetLocalQuotingMetrics` -/
inductive MetricsAnswer where
  | metrics (m : Metrics) (alreadyStored : Bool)
  | dropped
  deriving Repr

/-- the `quote` field of the `QueryResponse::GetStoreQuote` a node returns (`peer_address` is always its own) -/
inductive QuoteReply where
  | quote (q : Quote)
  | recordExists
  | failed
  deriving Repr

/-- `XorName::default()` -/
def zeroName : List Nat := List.replicate 32 0

/-- the `Query::GetStoreQuote` arm of `Node::handle_query` (nonce `None`): `name` is `key.as_xorname()` — `some` for
chunk, register, scratchpad and transaction addresses, `none` for a peer id or a raw record key, in which case
`create_quote_for_storecost` falls back to `unwrap_or_default()`, the all-zero name -/
def getStoreQuote (selfKey : Key) (keyBytes : List Nat) (name : Option (List Nat)) (ans : MetricsAnswer)
    (secs nanos : Nat) (rewards : List Nat) : QuoteReply :=
  match ans with
  | .dropped => .failed
  | .metrics _ true => .recordExists
  | .metrics m false => .quote (createQuote S selfKey keyBytes (name.getD zeroName) secs nanos m rewards)

end
end SafeNet.QuoteDuty
