import SafeNet.Gen.Replication
import SafeNet.Model.Fetcher
import SafeNet.Model.Validate
import SafeNet.Model.Distance
/-!
# Model of record replication between neighbouring nodes (property C09)

Two or three nodes, each `{record store (key ↦ content, the index's record type is derived from the content),
replication fetcher, clock, replication throttle}`, connected by a wire of messages:
`Replicate{holder, keys}` → closeness check and `ReplicationFetcher::add_keys` against the local index →
`GetReplicatedRecord` per scheduled key → the holder's reply → `store_replicated_in_record` → `PutLocalRecord`
(index update, `notify_about_new_put`). One transition per timer / message delivery; the transport may
deliver in any order, duplicate advertisements and drop anything.

Composition of existing models: the fetcher is `SafeNet.Fetcher` (C08), the decision of
`store_replicated_in_record` is `SafeNet.Validate.validate` on the replication route (C03/C04/C07).
Written here: `try_interval_replication` / `get_replicate_candidates` (cmd.rs), the `Cmd::Replicate` handler
(`add_keys_to_replication_fetcher`), `get_closest_k_value_local_peers`, the `PutLocalRecord` handler's
replication part, `handle_query(GetReplicatedRecord)` and `fetch_replication_keys_without_wait`.

Peers are naturals (`< n`: nodes; others: strangers that only occur in routing tables and as forged
senders). A `Replicate` request carries two identities: the peer it was *sent by* (`src`, what libp2p authenticates) and
the `holder` *field* of the message; `forge` sends lists whose field names the sender, `spoof` lists whose field names
somebody else. Key number `3*id + space` as in the validation model. Topology and metric are static data (`World`).
Time per node is the fetcher's `now` (whole seconds, half-tick comparisons as in the fetcher model).
-/
namespace SafeNet.Replication
open SafeNet.Gen.Replication
open SafeNet.Validate (Content Store)
open SafeNet.Fetcher (Entry)

/-! ## Record types (ideal hash: an injective code of the content) -/

/-- injective code of a list of naturals: `[] ↦ 0`, `x :: xs ↦ (2·code xs + 1)·2^x` -/
def encList : List Nat → Nat
  | [] => 0
  | x :: xs => (2 * encList xs + 1) * 2 ^ x

/-- `RecordType` of held content in the fetcher model's numbering: `0` chunk, `1` scratchpad (no version!),
`n + 2` = `NonChunk(content hash #n)` -/
def tyOf : Content → Nat
  | .chunk => 0
  | .pad _ _ => 1
  | .txs ids => 2 + 4 * encList ids
  | .reg alt ops => 2 + 4 * encList ops + (if alt then 3 else 1)

/-- the local index as `add_keys` sees it: key ↦ record type -/
def indexOf (s : Store) : List (Nat × Nat) := s.map (fun p => (p.1, tyOf p.2))

/-! ## Static data -/

structure World where
  n : Nat
  /-- routing table of each node: known peers, ascending by distance to the node -/
  rt : Nat → List Nat
  /-- distance node ↔ peer -/
  pdist : Nat → Nat → Nat
  /-- distance node ↔ key -/
  kdist : Nat → Nat → Nat

/-- `get_closest_k_value_local_peers`: self, then the nearest known peers, `K_VALUE` in total -/
def closestK (w : World) (i : Nat) : List Nat := (i :: w.rt i).take kValue

/-- guard of `add_keys_to_replication_fetcher` -/
def heard (w : World) (i h : Nat) : Bool :=
  (!replicateChecksCloseness || (closestK w i).contains h) && (!replicateRejectsSelf || h != i)

/-! ## State -/

structure NodeSt where
  store : Store := []
  fetcher : Fetcher.State := {}
  /-- the record store's responsible distance range -/
  range : Option Nat := none
  lastRepl : Option Nat := none
  /-- recently served replication targets with the time their entry lapses -/
  targets : List (Nat × Nat) := []

inductive Msg
  | rep (src dst holder : Nat) (keys : List (Nat × Nat))
  | get (src dst key : Nat)
  | rsp (src dst key : Nat) (content : Option Content)
deriving Repr

structure Sys where
  nodes : List NodeSt := []
  wire : List (Nat × Msg) := []
  nextId : Nat := 1

def Sys.node (s : Sys) (i : Nat) : NodeSt := s.nodes.getD i {}
def Sys.setNode (s : Sys) (i : Nat) (nd : NodeSt) : Sys := { s with nodes := s.nodes.set i nd }
def Sys.msg (s : Sys) (m : Nat) : Option Msg := s.wire.lookup m
def Sys.unwire (s : Sys) (m : Nat) : Sys := { s with wire := s.wire.filter (fun p => p.1 != m) }

/-- append messages with consecutive ids; returns the ids -/
def Sys.send (s : Sys) (ms : List Msg) : Sys × List Nat :=
  let ids := List.range' s.nextId ms.length
  ({ s with wire := s.wire ++ ids.zip ms, nextId := s.nextId + ms.length }, ids)

def init (n : Nat) : Sys := { nodes := List.replicate n {} }

/-- what a transition shows -/
structure Out where
  sched : List Entry := []
  failed : List Nat := []
  illegal : Bool := false
  writes : List (Nat × Content) := []
  netget : Option Nat := none
  rsp : Option (Option Content) := none
  targets : List Nat := []
  keys : List (Nat × Nat) := []
  newMsgs : List Nat := []
  bad : Bool := false

/-! ## `PutLocalRecord` -/

/-- the handler's replication part: the index now holds `k ↦ c`; `notify_about_new_put(k, type)`; the fetcher's
range follows the store's. Returns the `(holder, key)` list of the `KeysToFetchForReplication` event. -/
def putLocal (w : World) (i : Nat) (nd : NodeSt) (k : Nat) (c : Content) (choice : List Entry) :
    NodeSt × Fetcher.Out :=
  let (f, o) := Fetcher.newPut (w.kdist i) nd.fetcher k (tyOf c) choice
  let f := match nd.range with
    | some r => { f with range := some r }
    | none => f
  ({ nd with store := nd.store.put k c, fetcher := f }, o)

/-- `fetch_replication_keys_without_wait`: one `GetReplicatedRecord` per scheduled pair -/
def fetchMsgs (i : Nat) (ret : List Entry) : List Msg := ret.map (fun e => .get i e.holder e.key)

/-! ## `store_replicated_in_record` through the validation model -/

def dcontentOf (k : Nat) : Content → Validate.DContent
  | .chunk => .chunk (k / 3)
  | .pad n valid => .pad (k / 3) n valid
  | .txs ids => .txs (ids.map (fun t => ⟨k / 3, t, true⟩))
  | .reg alt ops => .reg (k / 3) (if alt then .alt else .good) (ops.map (fun o => ⟨o, .v⟩))

def kindOf : Content → SafeNet.Gen.Validate.Kind
  | .chunk => .chunk
  | .pad .. => .pad
  | .txs _ => .tx
  | .reg .. => .reg

/-- the record a holder serves for `(k, c)`, as a replication delivery -/
def replDelivery (k : Nat) (c : Content) : Validate.Delivery := ⟨false, kindOf c, k, dcontentOf k c, none⟩

def writesOf : List Validate.Tok → List (Nat × Content)
  | [] => []
  | .W k c :: rest => (k, c) :: writesOf rest
  | _ :: rest => writesOf rest

/-- local puts `store_replicated_in_record` issues for a fetched `(k, c)` against store `s` -/
def replWrites (s : Store) (k : Nat) (c : Content) : List (Nat × Content) :=
  writesOf (Validate.validate (replDelivery k c) s).2

/-! ## `try_interval_replication` -/

/-- `get_replicate_candidates(self)`: the selection step is the distance model's (`SafeNet.Distance.replicateCandidates`,
C11) applied to all known peers, closest first, paired with their distance to this node -/
def candidates (w : World) (i : Nat) (nd : NodeSt) : List Nat :=
  (SafeNet.Distance.replicateCandidates ((w.rt i).map (fun p => (p, w.pdist i p))) nd.range).map (·.1)

def throttled (nd : NodeSt) : Bool :=
  match nd.lastRepl with
  | some t => replTooSoon (2 * (nd.fetcher.now - t) + 1) (2 * minReplicationInterval)
  | none => false

def freshTargets (nd : NodeSt) : List (Nat × Nat) :=
  nd.targets.filter (fun p => targetStillFresh (2 * p.2) (2 * nd.fetcher.now + 1))

def setTarget (l : List (Nat × Nat)) (p ts : Nat) : List (Nat × Nat) := (p, ts) :: l.filter (fun q => q.1 != p)

/-- node state after the call, the targets and the advertised list -/
def interval (w : World) (i : Nat) (nd : NodeSt) : NodeSt × List Nat × List (Nat × Nat) :=
  if throttled nd then (nd, [], [])
  else
    let now := nd.fetcher.now
    let nd := { nd with lastRepl := some now }
    let fresh := freshTargets nd
    let nd := { nd with targets := fresh }
    let tg := (candidates w i nd).filter (fun p => !(fresh.any (fun q => q.1 == p)))
    if tg.isEmpty then (nd, [], [])
    else
      let all := indexOf nd.store
      if intervalSkipsEmptyIndex && all.isEmpty then (nd, [], [])
      else
        ({ nd with targets := tg.foldl (fun l p => setTarget l p (now + replicationTimeout)) fresh }, tg, all)

/-! ## Transitions -/

inductive Op
  | seed (i k : Nat) (c : Content) (choice : List Entry)
  | range (i d : Nat)
  | tick (i d : Nat)
  | interval (i : Nat)
  | forge (src dst : Nat) (keys : List (Nat × Nat))
  /-- `src` sends a list whose `holder` field claims another peer -/
  | spoof (src holder dst : Nat) (keys : List (Nat × Nat))
  | deliver (m : Nat) (choice : List Entry)
  | drop (m : Nat)
  | dup (m : Nat)

def isNode (w : World) (i : Nat) : Bool := decide (i < w.n)

/-- node-level effect of `Cmd::Replicate{holder, keys}` arriving at node `i` (`add_keys_to_replication_fetcher`):
unless the holder is heard nothing happens; otherwise `add_keys` against the whole local index -/
def nodeRep (w : World) (i : Nat) (nd : NodeSt) (holder : Nat) (keys : List (Nat × Nat)) (choice : List Entry) :
    NodeSt × Fetcher.Out :=
  if !(replicateArmPassesOn && heard w i holder) then (nd, { illegal := !choice.isEmpty })
  else
    let (f, o) := Fetcher.addKeys (w.kdist i) nd.fetcher holder keys (indexOf nd.store) choice
    ({ nd with fetcher := f }, if replicateEmitsFetchEvent then o else { o with ret := [] })

/-- `handle_query(GetReplicatedRecord{key})` at a holder -/
def serve (nd : NodeSt) (key : Nat) : Option Content := nd.store.get key

/-- result class of `store_replicated_in_record` for a fetched `(k, c)` against store `s`: `Ok(())` or an error -/
def replOk (s : Store) (k : Nat) (c : Content) : Bool :=
  decide ((Validate.validate (replDelivery k c) s).1 = Validate.Res.ok)

/-- A reply can make the fetcher run `next_keys_to_fetch` twice: in the `PutLocalRecord` handler (`notify_about_new_put`)
and in the `FetchCompleted` handler (`notify_fetch_early_completed`). The choice witness of the step lists both batches;
the entries of the batch returned by the `FetchCompleted` handler *after a put* are marked by a non-zero `deadline` field
(which a choice witness does not otherwise use). -/
def choicePut (c : List Entry) : List Entry := c.filter (fun e => e.deadline == 0)
def choiceDone (c : List Entry) : List Entry := c.filter (fun e => e.deadline != 0)

/-- node-level effect of a fetched record `(key, c)` arriving at the requester `i`: `store_replicated_in_record`,
then the `PutLocalRecord` handler for what it decided to write, then — when the validation returned Ok and the fetch task
reports completion (`nt`) — the `FetchCompleted` handler for `(key, record type of the fetched bytes)`:
`notify_fetch_early_completed`. An error result is only logged: the in-flight entry stays until FETCH_TIMEOUT.
(The `PutLocalRecord` handler's copy of the store's range into the fetcher comes before the `FetchCompleted` command in
the code; `notify_fetch_early_completed` neither reads nor writes the range, so it is applied last here.) -/
def nodeRspWith (nt : Bool) (w : World) (i : Nat) (nd : NodeSt) (key : Nat) (c : Content) (choice : List Entry) :
    NodeSt × Fetcher.Out × List (Nat × Content) :=
  let notify := nt && replOk nd.store key c
  match replWrites nd.store key c with
  | [] =>
    if notify then
      let r := Fetcher.earlyDone (w.kdist i) nd.fetcher key (tyOf c) choice
      ({ nd with fetcher := r.1 }, r.2, [])
    else (nd, { illegal := !choice.isEmpty }, [])
  | (k, c') :: _ =>
    if notify then
      let r1 := Fetcher.newPut (w.kdist i) nd.fetcher k (tyOf c') (choicePut choice)
      let r2 := Fetcher.earlyDone (w.kdist i) r1.1 key (tyOf c) (choiceDone choice)
      let f := match nd.range with
        | some r => { r2.1 with range := some r }
        | none => r2.1
      ({ nd with store := nd.store.put k c', fetcher := f },
       { ret := r1.2.ret ++ r2.2.ret, failed := r1.2.failed ++ r2.2.failed, illegal := r1.2.illegal || r2.2.illegal },
       [(k, c')])
    else
      let (nd, o) := putLocal w i nd k c' choice
      (nd, o, [(k, c')])

def nodeRsp (w : World) (i : Nat) (nd : NodeSt) (key : Nat) (c : Content) (choice : List Entry) :
    NodeSt × Fetcher.Out × List (Nat × Content) :=
  nodeRspWith fetchTaskNotifiesCompletion w i nd key c choice

/-- the guard of the `Cmd::Replicate` arm of `handle_req_resp_events`, as read from the source: with `chk` the list is
handed to `add_keys_to_replication_fetcher` only `if holder.as_peer_id() == Some(peer)` (`eq`; `!=` otherwise), `peer`
being the authenticated sender of the request; without it the call is unconditional -/
def armActsWith (chk eq : Bool) (src holder : Nat) : Bool := !chk || (if eq then holder == src else holder != src)

def armActs (src holder : Nat) : Bool := armActsWith replicateChecksSender replicateSenderMustEqual src holder

/-- `Cmd::Replicate{holder, keys}` arrives at node `i`; `acts` = the arm hands it on (the `Ok` response is sent either way
and is not modelled) -/
def deliverRepWith (acts : Bool) (w : World) (s : Sys) (i holder : Nat) (keys : List (Nat × Nat)) (choice : List Entry) :
    Sys × Out :=
  if !acts then (s, { illegal := !choice.isEmpty })
  else
    let (nd, o) := nodeRep w i (s.node i) holder keys choice
    let s := s.setNode i nd
    let (s, ids) := s.send (fetchMsgs i o.ret)
    (s, { sched := o.ret, failed := o.failed, illegal := o.illegal, newMsgs := ids })

/-- `Cmd::Replicate{holder, keys}` sent by `src` arrives at node `i` -/
def deliverRep (w : World) (s : Sys) (src i holder : Nat) (keys : List (Nat × Nat)) (choice : List Entry) : Sys × Out :=
  deliverRepWith (armActs src holder) w s i holder keys choice

/-- `GetReplicatedRecord{key}` arrives at holder `h`, asked by `src` -/
def deliverGet (s : Sys) (src h key : Nat) : Sys × Out :=
  let c := serve (s.node h) key
  let (s, ids) := s.send [.rsp h src key c]
  (s, { rsp := some c, newMsgs := ids })

/-- the holder's reply arrives at the requester `i` (no record: the fallback network get finds nothing) -/
def deliverRsp (w : World) (s : Sys) (i key : Nat) (content : Option Content) (choice : List Entry) : Sys × Out :=
  match content with
  | none => (s, { netget := some key, illegal := !choice.isEmpty })
  | some c =>
    let (nd, o, ws) := nodeRsp w i (s.node i) key c choice
    let s := s.setNode i nd
    let (s, ids) := s.send (fetchMsgs i o.ret)
    (s, { sched := o.ret, failed := o.failed, illegal := o.illegal, writes := ws, newMsgs := ids })

def step (w : World) (s : Sys) : Op → Sys × Out
  | .seed i k c choice =>
    if !isNode w i then (s, { bad := true }) else
    let (nd, o) := putLocal w i (s.node i) k c choice
    let s := s.setNode i nd
    let (s, ids) := s.send (fetchMsgs i o.ret)
    (s, { sched := o.ret, failed := o.failed, illegal := o.illegal, writes := [(k, c)], newMsgs := ids })
  | .range i d =>
    if !isNode w i then (s, { bad := true }) else
    let nd := s.node i
    (s.setNode i { nd with range := some d, fetcher := { nd.fetcher with range := some d } }, {})
  | .tick i d =>
    if !isNode w i then (s, { bad := true }) else
    let nd := s.node i
    (s.setNode i { nd with fetcher := { nd.fetcher with now := nd.fetcher.now + d } }, {})
  | .interval i =>
    if !isNode w i then (s, { bad := true }) else
    let (nd, tg, keys) := interval w i (s.node i)
    let s := s.setNode i nd
    let (s, ids) := s.send ((tg.filter (isNode w)).map (fun p => Msg.rep i p i keys))
    (s, { targets := tg, keys := keys, newMsgs := ids })
  | .forge src dst keys =>
    if !isNode w dst then (s, { bad := true }) else
    let (s, ids) := s.send [.rep src dst src keys]
    (s, { newMsgs := ids })
  | .spoof src holder dst keys =>
    if !isNode w dst then (s, { bad := true }) else
    let (s, ids) := s.send [.rep src dst holder keys]
    (s, { newMsgs := ids })
  | .dup m =>
    match s.msg m with
    | some (.rep a b h ks) =>
      let (s, ids) := s.send [.rep a b h ks]
      (s, { newMsgs := ids })
    | _ => (s, { bad := true })
  | .drop m =>
    match s.msg m with
    | some (.rep ..) => (s.unwire m, {})
    | some (.get _ _ key) => (s.unwire m, { netget := some key })
    | some (.rsp _ _ key _) => (s.unwire m, { netget := some key })
    | none => (s, { bad := true })
  | .deliver m choice =>
    match s.msg m with
    | some (.rep src dst holder keys) => deliverRep w (s.unwire m) src dst holder keys choice
    | some (.get src dst key) =>
      if isNode w dst then deliverGet (s.unwire m) src dst key else (s, { bad := true })
    | some (.rsp _ dst key c) => deliverRsp w (s.unwire m) dst key c choice
    | none => (s, { bad := true })

def run (w : World) (s : Sys) (ops : List Op) : Sys := ops.foldl (fun s op => (step w s op).1) s

end SafeNet.Replication
