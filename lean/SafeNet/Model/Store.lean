import SafeNet.Gen.Store
/-!
# Model of `ant-networking/src/record_store.rs` (`NodeRecordStore`) — shared by C01, C02, C10

A state machine that reproduces what the Rust code does today, quirks included.

* keys, values, task ids are natural numbers (the harness maps them to real `RecordKey`s / bytes);
* `dist : Nat → Nat` (distance of a key to the node) is *data*: the harness computes it with
  sha2 + XOR independently of the code under test;
* `HashMap`s are association lists observed through lookups / sorted dumps; `BTreeMap<U256, Key>`
  (`records_by_distance`) is an association list keyed by distance, sorted when iterated;
* every `spawn` in the Rust code becomes a pending `Task` that runs as one atomic step when the
  schedule says so (`Op.run id`); the `LocalSwarmCmd::AddLocalRecordAsStored` sent by a finished write
  becomes a pending `Note` delivered by `Op.deliver id` (`mark_as_stored`);
* `fs::write` under crash leaves a strict prefix of the ciphertext (`File.torn`); `Op.crash` stops the
  node (tearing the listed in-flight writes) and reopens the store on the same directory.

The value id encodes the 3-byte record header the harness gives the value: `v % 3 = 0` chunk header,
`1` another valid header, `2` no valid header.
-/
namespace SafeNet.Store

/-! ## Association lists -/

def lookup {α : Type} (k : Nat) : List (Nat × α) → Option α
  | [] => none
  | (k', a) :: rest => if k' = k then some a else lookup k rest

def erase {α : Type} (k : Nat) (l : List (Nat × α)) : List (Nat × α) :=
  l.filter (fun e => e.1 != k)

def insert {α : Type} (k : Nat) (a : α) (l : List (Nat × α)) : List (Nat × α) :=
  (k, a) :: erase k l

def keys {α : Type} (l : List (Nat × α)) : List Nat := l.map (·.1)

/-! ## Data -/

/-- What a read returns: the whole value `v`, or (only without encryption) the first `n` bytes of it. -/
inductive Read where
  | whole (v : Nat)
  | part (v n : Nat)
  deriving DecidableEq, Repr

/-- `RecordType`; `NonChunk` carries the content hash, represented by the content it is the hash of. -/
inductive RType where
  | chunk
  | scratchpad
  | nonChunk (c : Read)
  deriving DecidableEq, Repr

inductive Hdr where
  | chunk | other | bad
  deriving DecidableEq, Repr


/-- Length in bytes of the value the harness uses for id `v` (header included): ids from 1000 on carry their
length, `(v - 1000) / 3`; smaller ids get a fixed pseudo-random length. -/
def valLen (v : Nat) : Nat :=
  if 1000 ≤ v then (v - 1000) / 3
  else if v = 2 then 0 else if v = 5 then 1 else if v = 8 then 2
  else if v % 7 = 0 then 10 + v % 8
  else if v % 7 = 5 then 200 + (v * 13) % 200
  else if v % 7 = 6 then 1000 + (v * 131) % 3000
  else 10 + (v * 37) % 110

/-- length of the AES-GCM-SIV tag appended to the value in a record file -/
def tagLen : Nat := 16

/-- Header class of the bytes the harness uses for value `v` (fewer than 3 bytes never parse). -/
def hdrClass (v : Nat) : Hdr :=
  if valLen v < 3 then .bad else if v % 3 = 0 then .chunk else if v % 3 = 1 then .other else .bad

/-- A record file: complete ciphertext of `v`, or its first `n` bytes (`n <` full length). -/
inductive File where
  | full (v : Nat)
  | torn (v n : Nat)
  deriving DecidableEq, Repr

inductive Task where
  | write (k v : Nat) (rt : RType)
  | delete (k : Nat)
  | flush (n : Nat)
  deriving DecidableEq, Repr

structure Note where
  k : Nat
  rt : RType
  deriving DecidableEq, Repr

structure Cfg where
  maxRecords : Nat
  cacheSize : Nat
  /-- `MAX_RECORDS_COUNT / 10` in `cleanup_irrelevant_records` (a constant, not the configured capacity) -/
  cleanupMin : Nat
  /-- feature `encrypt-records` -/
  encrypt : Bool
  /-- `max_value_bytes` (`MAX_PACKET_SIZE` for a node) -/
  maxValueBytes : Nat
  deriving Repr

/-- The configuration as shipped: constants and the feature flag regenerated from the Rust source. -/
def Cfg.shippedV (maxRecords cacheSize maxValueBytes : Nat) : Cfg :=
  { maxRecords, cacheSize, maxValueBytes,
    cleanupMin := Gen.Store.cleanupMin,
    encrypt := Gen.Store.shippedEncrypt }

/-- as shipped, with the node's `max_value_bytes = MAX_PACKET_SIZE` -/
def Cfg.shipped (maxRecords cacheSize : Nat) : Cfg :=
  Cfg.shippedV maxRecords cacheSize Gen.Store.maxPacketSize

/-- `NodeRecordStoreConfig::default()` capacities. -/
def Cfg.default : Cfg := Cfg.shipped Gen.Store.maxRecordsCount Gen.Store.maxRecordsCacheSize

structure St where
  /-- `records : HashMap<Key, (NetworkAddress, RecordType)>` -/
  index : List (Nat × RType)
  /-- `records_by_distance : BTreeMap<U256, Key>` as (distance, key) -/
  byDist : List (Nat × Nat)
  /-- `farthest_record : Option<(Key, Distance)>` -/
  farthest : Option (Nat × Nat)
  /-- `records_cache`: (key, (value, time stamp)) -/
  cache : List (Nat × Nat × Nat)
  /-- logical `SystemTime::now()` -/
  clock : Nat
  /-- record files under `storage_dir` -/
  disk : List (Nat × File)
  /-- `historic_quoting_metrics` file: the persisted payment count -/
  hist : Option Nat
  /-- spawned, not yet run, in spawn order -/
  tasks : List (Nat × Task)
  /-- `AddLocalRecordAsStored` commands sent, not yet handled; the id is the id of the write task -/
  notes : List (Nat × Note)
  nextId : Nat
  /-- `received_payment_count` -/
  payments : Nat
  /-- `responsible_distance_range` -/
  range : Option Nat
  deriving Repr

/-! ## FIFO cache (`RecordCache`) -/

def minStamp : List (Nat × Nat × Nat) → Option Nat
  | [] => none
  | (_, _, t) :: rest =>
    match minStamp rest with
    | none => some t
    | some m => some (if t < m then t else m)

/-- `remove_oldest_entry`: drops *every* entry carrying the minimum stamp. -/
def removeOldest (c : List (Nat × Nat × Nat)) : List (Nat × Nat × Nat) :=
  match minStamp c with
  | none => c
  | some m => c.filter (fun e => e.2.2 != m)

/-- `free_up_space`: `while len >= cache_size { remove_oldest_entry() }` (fuel = number of entries + 1;
the Rust loop does not terminate for `cache_size = 0`, the model stops with an empty cache). -/
def freeUp (size : Nat) : Nat → List (Nat × Nat × Nat) → List (Nat × Nat × Nat)
  | 0, c => c
  | fuel + 1, c => if size ≤ c.length then freeUp size fuel (removeOldest c) else c

/-- `push_back` -/
def pushBack (size : Nat) (c : List (Nat × Nat × Nat)) (now k v : Nat) : List (Nat × Nat × Nat) :=
  insert k (v, now) (freeUp size (c.length + 1) c)

/-! ## Store operations -/

/-- the refuse test of `prune_records_if_needed` (operator regenerated from the source) -/
def refuses (fd dk : Nat) : Bool := if Gen.Store.pruneRefuseStrict then fd < dk else fd ≤ dk
/-- the farthest-update test of `mark_as_stored` -/
def farther (fd dk : Nat) : Bool := if Gen.Store.farthestUpdateStrict then fd < dk else fd ≤ dk
/-- membership in the range counted by `get_records_within_distance_range` -/
def within (d r : Nat) : Bool := if Gen.Store.withinRangeExclusive then d < r else d ≤ r
/-- membership in the range removed by `cleanup_irrelevant_records` -/
def beyond (d r : Nat) : Bool := if Gen.Store.cleanupFromInclusive then r ≤ d else r < d

/-- `calculate_farthest` (ties cannot occur for distinct keys under an injective `dist`). -/
def calcFarthest (dist : Nat → Nat) : List (Nat × RType) → Option (Nat × Nat)
  | [] => none
  | (k, _) :: rest =>
    match calcFarthest dist rest with
    | none => some (k, dist k)
    | some (f, fd) => if fd < dist k then some (k, dist k) else some (f, fd)

/-- `RecordStore::remove` -/
def removeKey (dist : Nat → Nat) (s : St) (k : Nat) : St :=
  let index' := erase k s.index
  let byDist' := match lookup k s.index with
    | some _ => erase (dist k) s.byDist
    | none => s.byDist
  let farthest' := match s.farthest with
    | some (f, fd) => if f = k then calcFarthest dist index' else some (f, fd)
    | none => none
  { s with index := index', byDist := byDist', cache := erase k s.cache, farthest := farthest',
           tasks := s.tasks ++ [(s.nextId, .delete k)], nextId := s.nextId + 1 }

/-- `mark_as_stored` -/
def markAsStored (dist : Nat → Nat) (s : St) (k : Nat) (rt : RType) : St :=
  { s with index := insert k rt s.index, byDist := insert (dist k) k s.byDist,
           farthest := match s.farthest with
             | some (f, fd) => if farther fd (dist k) then some (k, dist k) else some (f, fd)
             | none => some (k, dist k) }

/-- `prune_records_if_needed`: `none` = `Err(MaxRecords)` -/
def prune (cfg : Cfg) (dist : Nat → Nat) (s : St) (k : Nat) : Option St :=
  if s.index.length < cfg.maxRecords then some s
  else match s.farthest with
    | none => some s
    | some (f, fd) => if refuses fd (dist k) then none else some (removeKey dist s f)

inductive PutRes where
  | ok        -- `Ok(())`, a write task was spawned
  | dedup     -- `Ok(())` by the early return on a byte-equal cached record: nothing stored
  | maxRecords
  deriving DecidableEq, Repr

/-- `put_verified` -/
def putVerified (cfg : Cfg) (dist : Nat → Nat) (s : St) (k v : Nat) (rt : RType) : St × PutRes :=
  let c1 := erase k s.cache
  if (lookup k s.cache).map (·.1) = some v then
    ({ s with cache := pushBack cfg.cacheSize c1 s.clock k v, clock := s.clock + 1 }, .dedup)
  else
    let s1 := { s with cache := pushBack cfg.cacheSize c1 s.clock k v, clock := s.clock + 1 }
    match prune cfg dist s1 k with
    | none => ({ s1 with cache := erase k s1.cache }, .maxRecords)   -- a refused record leaves the cache again
    | some s2 =>
      ({ s2 with tasks := s2.tasks ++ [(s2.nextId, .write k v rt)], nextId := s2.nextId + 1 }, .ok)

def taskKey : Task → Option Nat
  | .write k _ _ => some k
  | .delete k => some k
  | .flush _ => none

/-- id of the oldest pending task of key `k` -/
def firstTaskOf (k : Nat) : List (Nat × Task) → Option Nat
  | [] => none
  | (i, t) :: rest => if taskKey t = some k then some i else firstTaskOf k rest

/-- A task may run when it is the oldest pending task of its key (completion orders of tasks for
*different* keys are unconstrained; flush tasks are unconstrained). -/
def legalRun (tasks : List (Nat × Task)) (id : Nat) (t : Task) : Bool :=
  match taskKey t with
  | none => true
  | some k => firstTaskOf k tasks == some id

def firstNoteOf (k : Nat) : List (Nat × Note) → Option Nat
  | [] => none
  | (i, n) :: rest => if n.k = k then some i else firstNoteOf k rest

def legalDeliver (notes : List (Nat × Note)) (id : Nat) (n : Note) : Bool :=
  firstNoteOf n.k notes == some id

inductive RunRes where
  | ran | ranAdd | illegal | noTask
  deriving DecidableEq, Repr

/-- one spawned task runs to completion -/
def runTask (s : St) (id : Nat) : St × RunRes :=
  match lookup id s.tasks with
  | none => (s, .noTask)
  | some t =>
    if legalRun s.tasks id t then
      let s' := { s with tasks := erase id s.tasks }
      match t with
      | .write k v rt =>
        ({ s' with disk := insert k (.full v) s'.disk, notes := s'.notes ++ [(id, ⟨k, rt⟩)] }, .ranAdd)
      | .delete k => ({ s' with disk := erase k s'.disk }, .ran)
      | .flush n => ({ s' with hist := some n }, .ran)
    else (s, .illegal)

inductive DeliverRes where
  | ok | illegal | noNote
  deriving DecidableEq, Repr

/-- `handle_local_cmd(AddLocalRecordAsStored)` -/
def deliver (dist : Nat → Nat) (s : St) (id : Nat) : St × DeliverRes :=
  match lookup id s.notes with
  | none => (s, .noNote)
  | some n =>
    if legalDeliver s.notes id n then
      (markAsStored dist { s with notes := erase id s.notes } n.k n.rt, .ok)
    else (s, .illegal)

/-- insertion sort by the first component (iteration order of the `BTreeMap`) -/
def insertSorted (e : Nat × Nat) : List (Nat × Nat) → List (Nat × Nat)
  | [] => [e]
  | x :: xs => if e.1 ≤ x.1 then e :: x :: xs else x :: insertSorted e xs

def sortByFst : List (Nat × Nat) → List (Nat × Nat)
  | [] => []
  | x :: xs => insertSorted x (sortByFst xs)

/-- `cleanup_irrelevant_records` -/
def cleanup (cfg : Cfg) (dist : Nat → Nat) (s : St) : St :=
  if s.index.length < cfg.cleanupMin then s
  else match s.range with
    | none => s
    | some r =>
      ((sortByFst (s.byDist.filter (fun e => beyond e.1 r))).map (·.2)).foldl (removeKey dist) s

/-- `payment_received` when `flush_historic_quoting_metrics` writes in place: the metrics file holds the new count when the
call returns. Nothing is spawned; the call still takes one id (ids label store calls that may spawn). -/
def paymentSync (s : St) : St :=
  { s with payments := s.payments + 1, hist := some (s.payments + 1), nextId := s.nextId + 1 }

/-- `payment_received` when the flush is a spawned task carrying the count captured at spawn time -/
def paymentSpawned (s : St) : St :=
  { s with payments := s.payments + 1,
           tasks := s.tasks ++ [(s.nextId, .flush (s.payments + 1))], nextId := s.nextId + 1 }

/-- `payment_received` (which of the two, regenerated from `flush_historic_quoting_metrics`) -/
def payment (s : St) : St :=
  if Gen.Store.flushSynchronous then paymentSync s else paymentSpawned s

/-! ## Reads -/

/-- `get_record_from_bytes`. With encryption a strict prefix of a ciphertext never authenticates (derived from the
laws of an ideal AEAD in `Proofs/StoreCipher`), and a decryption failure yields no record (regenerated flag
`decryptFailureSkips`; were the raw bytes handed back instead, a torn file would be served in part). -/
def readFile (encrypt : Bool) : File → Option Read
  | .full v => some (.whole v)
  | .torn v n => if encrypt && Gen.Store.decryptFailureSkips then none else some (.part v n)

def hdrOf : Read → Hdr
  | .whole v => hdrClass v
  | .part v n => if n < 3 then .bad else hdrClass v

/-- `RecordStore::get` -/
def get (cfg : Cfg) (s : St) (k : Nat) : Option Read :=
  match lookup k s.cache with
  | some (v, _) => some (.whole v)
  | none =>
    match lookup k s.index with
    | none => none
    | some _ => (lookup k s.disk).bind (readFile cfg.encrypt)

def contains (s : St) (k : Nat) : Bool := (lookup k s.index).isSome

structure Metrics where
  close : Nat
  max : Nat
  paid : Nat
  stored : Bool
  density : Option Nat
  deriving DecidableEq, Repr

/-- `quoting_metrics` (without the clock-dependent `live_time` and the pass-through `network_size`) -/
def metrics (cfg : Cfg) (s : St) (k : Nat) : Metrics :=
  { close := match s.range with
      | some r => (s.byDist.filter (fun e => within e.1 r)).length
      | none => s.index.length,
    max := cfg.maxRecords, paid := s.payments, stored := contains s k, density := s.range }

/-! ## Crash and restart -/

/-- length of a record file -/
def fileLen (encrypt : Bool) : File → Nat
  | .full v => valLen v + (if encrypt then tagLen else 0)
  | .torn _ n => n

def readLen : Read → Nat
  | .whole v => valLen v
  | .part _ n => n

/-- the size test of the start-up scan, as far as the source has one (regenerated flags): what it measures
(file length or decrypted value length) and the comparison with `max_value_bytes` -/
def oversized (cfg : Cfg) (f : File) : Bool :=
  Gen.Store.scanDropsOversized &&
    (let n := if Gen.Store.scanSizeOnFile then fileLen cfg.encrypt f
              else match readFile cfg.encrypt f with
                | some r => readLen r
                | none => 0
     if Gen.Store.scanSizeStrict then decide (cfg.maxValueBytes < n) else decide (cfg.maxValueBytes ≤ n))

/-- does the start-up scan keep this file? (passes the size test if any, decrypts, and the 3-byte header parses) -/
def scanType (cfg : Cfg) (f : File) : Option RType :=
  if oversized cfg f then none else
  match readFile cfg.encrypt f with
  | none => none
  | some r =>
    match hdrOf r with
    | .chunk => some .chunk
    | .other => some (.nonChunk r)
    | .bad => none

/-- Does the scan take the file name of key `k` for a record key? `get_data_from_filename` is `hex::decode` of
the whole name with no filter (regenerated flag) — every key, of any length, comes back. Keys are ids here,
so a filter on the name (should one appear in the source) cannot be modelled key by key: the flag turns
false and the theorems about restarts no longer check. A file whose name is not taken is skipped, not deleted. -/
def nameKept (_k : Nat) : Bool := Gen.Store.scanAcceptsEveryHexName && Gen.Store.fileNameIsFullHex

/-- what the start-up scan makes of the file of key `k` -/
def scanEntry (cfg : Cfg) (k : Nat) (f : File) : Option RType :=
  if nameKept k then scanType cfg f else none

def scanIndex (cfg : Cfg) : List (Nat × File) → List (Nat × RType)
  | [] => []
  | (k, f) :: rest =>
    match scanEntry cfg k f with
    | some rt => (k, rt) :: scanIndex cfg rest
    | none => scanIndex cfg rest

/-- wire tag of the record kind in the header of value `v`: the harness gives chunk-class values the tag of
`Chunk` (1) and values with `v % 3 = 1` the tags 2, 3, 5, 0, 4, 6, 7 by `(v / 3) % 7` -/
def kindTag (v : Nat) : Nat :=
  if v % 3 = 0 then 1 else [2, 3, 5, 0, 4, 6, 7].getD ((v / 3) % 7) 0

/-- The record type `LocalSwarmCmd::PutLocalRecord`'s handler (cmd.rs) derives from the header of value `v`
before it calls `put_verified`, by the table regenerated from its `match` on the record kind
(`Gen.Store.localPutTable`: Chunk ↦ `Chunk`, Scratchpad ↦ `Scratchpad`, Transaction / Register ↦
`NonChunk(content hash)`, kinds with payment refused); an unparsable header is refused (`none`). -/
def putLocalRecordType (v : Nat) : Option RType :=
  match hdrClass v with
  | .bad => none
  | _ =>
    match (Gen.Store.localPutTable.lookup (kindTag v)).join with
    | some 0 => some .chunk
    | some 1 => some .scratchpad
    | some 2 => some (.nonChunk (.whole v))
    | _ => none

/-- `RecordStore::put` (the unverified kad path) answers `ValueTooLarge`; `put_verified` has no size test -/
def kadPutTooLarge (cfg : Cfg) (v : Nat) : Bool :=
  if Gen.Store.putSizeInclusive then decide (cfg.maxValueBytes ≤ valLen v) else decide (cfg.maxValueBytes < valLen v)

/-- `with_config` on an existing directory: `update_records_from_an_existing_store` (files that fail
are deleted), distance index and farthest rebuilt, payment count restored and flushed (in place: the metrics file
holds it when `with_config` returns, no task; or, with a spawned flush, one pending flush task). -/
def restart (cfg : Cfg) (dist : Nat → Nat) (disk : List (Nat × File)) (hist : Option Nat) (nextId : Nat) : St :=
  let index := scanIndex cfg disk
  { index := index,
    byDist := index.foldr (fun e acc => insert (dist e.1) e.1 acc) [],
    farthest := calcFarthest dist index,
    cache := [], clock := 0,
    disk := disk.filter (fun e => (scanEntry cfg e.1 e.2).isSome || !nameKept e.1),
    hist := if Gen.Store.flushSynchronous then some (hist.getD 0) else hist,
    tasks := if Gen.Store.flushSynchronous then [] else [(nextId, .flush (hist.getD 0))], notes := [], nextId := nextId + 1,
    payments := hist.getD 0, range := none }

/-- a fresh store on an empty directory -/
def init (cfg : Cfg) (dist : Nat → Nat) : St := restart cfg dist [] none 0

/-- is `(id, n)` a tear of a pending write that could be executing (oldest task of its key)? -/
def tearOk (s : St) (t : Nat × Nat) : Bool :=
  match lookup t.1 s.tasks with
  | some (.write k v rt) => legalRun s.tasks t.1 (.write k v rt)
  | _ => false

/-- the directory left behind when the node stops: every listed in-flight write has written `n` bytes -/
def crashDisk (s : St) (torn : List (Nat × Nat)) : List (Nat × File) :=
  torn.foldl (fun d t =>
    match lookup t.1 s.tasks with
    | some (.write k v _) => insert k (.torn v t.2) d
    | _ => d) s.disk

inductive Op where
  | put (k v : Nat) (rt : RType)
  | remove (k : Nat)
  | run (id : Nat)
  | deliver (id : Nat)
  | setRange (r : Nat)
  | cleanup
  | payment
  /-- stop (tearing the listed `(task id, bytes written)`), then reopen on the same directory -/
  | crash (torn : List (Nat × Nat))
  deriving DecidableEq, Repr

inductive Out where
  | put (r : PutRes)
  | run (r : RunRes)
  | deliver (r : DeliverRes)
  | ok
  | illegal
  deriving DecidableEq, Repr

def step (cfg : Cfg) (dist : Nat → Nat) (s : St) : Op → St × Out
  | .put k v rt => let r := putVerified cfg dist s k v rt; (r.1, .put r.2)
  | .remove k => (removeKey dist s k, .ok)
  | .run id => let r := runTask s id; (r.1, .run r.2)
  | .deliver id => let r := deliver dist s id; (r.1, .deliver r.2)
  | .setRange r => ({ s with range := some r }, .ok)
  | .cleanup => (cleanup cfg dist s, .ok)
  | .payment => (payment s, .ok)
  | .crash torn =>
    if torn.all (tearOk s) then (restart cfg dist (crashDisk s torn) s.hist s.nextId, .ok)
    else (s, .illegal)

/-- the state after a history -/
def runFrom (cfg : Cfg) (dist : Nat → Nat) (s : St) : List Op → St
  | [] => s
  | op :: ops => runFrom cfg dist (step cfg dist s op).1 ops

def run (cfg : Cfg) (dist : Nat → Nat) (ops : List Op) : St := runFrom cfg dist (init cfg dist) ops

end SafeNet.Store
