import SafeNet.Model.Store
import SafeNet.Gen.Startup
/-!
# The start-up step outside the record store: `check_and_wipe_storage_dir_if_necessary` (driver.rs)

`NetworkBuilder::build_node` runs it at every start, before the record store is opened: it reads
`<root>/network_key_version` (creating an empty file when it cannot be opened), compares the content with the current
network id and, on mismatch, removes the record-store directory and rewrites the file (truncate, then write).

The step is modelled as the list of file-system effects it performs, in order (`startupEffects`); which effects, and in
which order, follows the two flags regenerated from the source (`Gen.Startup`). A start can be interrupted after any
number of effects; an interrupted write leaves a prefix of the new content, exactly like a record file in the crash
model, and an interrupted wipe leaves some of the record files.

`Node` puts the version file next to the store state: `NOp.start cur intr` stops the node if it is running (pending
tasks are forgotten), runs the step for network id text `cur` — to completion and then opens the store (`restart`), or
up to the interruption `intr`, after which the node is down.
-/
namespace SafeNet.Store

/-- content of a text file, as bytes -/
abbrev Text := List Nat

/-- `format!("{}", id)`: the decimal digits of a network id -/
def idText (n : Nat) : Text := (Nat.toDigits 10 n).map Char.toNat

inductive FsEff where
  /-- `fs::File::create(version_file)` after a failed open: an empty file -/
  | createEmpty
  /-- `fs::remove_dir_all(storage_dir)` -/
  | wipe
  /-- the version file is opened with `truncate(true)` -/
  | truncate
  /-- `write_all(cur)` -/
  | write (t : Text)
  deriving DecidableEq, Repr

/-- the effects of one start for network id text `cur` on a version file `vf` (`none`: absent), in order, for a source
that rewrites the version file only on a mismatch (`onlyOnMismatch`; otherwise at every start) and wipes before it
rewrites (`wipeFirst`; otherwise after) -/
def startupEffectsWith (onlyOnMismatch wipeFirst : Bool) (vf : Option Text) (cur : Text) : List FsEff :=
  let pre : List FsEff := match vf with
    | none => [.createEmpty]
    | some _ => []
  let mismatch := cur != vf.getD []
  let rewrite : List FsEff := [.truncate, .write cur]
  let wipe : List FsEff := if mismatch then [.wipe] else []
  let wr : List FsEff := if onlyOnMismatch then (if mismatch then rewrite else []) else rewrite
  pre ++ (if wipeFirst then wipe ++ wr else wr ++ wipe)

/-- the effects of one start, as the current source has them (flags regenerated from driver.rs) -/
def startupEffects (vf : Option Text) (cur : Text) : List FsEff :=
  startupEffectsWith Gen.Startup.versionWrittenOnlyOnMismatch Gen.Startup.wipeBeforeVersionWrite vf cur

/-- what the step reads and writes: the version file and the record files -/
structure Dir where
  vfile : Option Text
  disk : List (Nat × File)
  deriving DecidableEq, Repr

def applyEff (d : Dir) : FsEff → Dir
  | .createEmpty => { d with vfile := some [] }
  | .wipe => { d with disk := [] }
  | .truncate => { d with vfile := some [] }
  | .write t => { d with vfile := some t }

/-- where a start is interrupted: `done` effects completed; of the next effect, if it is the write, `bytes` bytes
reached the file; if it is the wipe, the record files of the keys `gone` are already removed -/
structure Intr where
  done : Nat
  bytes : Nat
  gone : List Nat
  deriving DecidableEq, Repr

def partialEff (d : Dir) (i : Intr) : FsEff → Dir
  | .write t => if i.bytes = 0 then d else { d with vfile := some (t.take i.bytes) }
  | .wipe => { d with disk := d.disk.filter (fun e => !i.gone.contains e.1) }
  | _ => d

/-- the directory a completed start leaves (before the store is opened) -/
def completeStart (d : Dir) (cur : Text) : Dir := (startupEffects d.vfile cur).foldl applyEff d

/-- the directory a start interrupted at `i` leaves -/
def interruptedStart (d : Dir) (cur : Text) (i : Intr) : Dir :=
  let effs := startupEffects d.vfile cur
  let d1 := (effs.take i.done).foldl applyEff d
  match effs.drop i.done with
  | [] => d1
  | e :: _ => partialEff d1 i e

/-- does a completed start wipe the record store? -/
def startWipes (vf : Option Text) (cur : Text) : Bool := (startupEffects vf cur).contains .wipe

/-! ## the node: version file + store -/

structure Node where
  up : Bool
  vfile : Option Text
  st : St
  deriving Repr

/-- a stopped node: only the directory (record files, metrics file) and the id counter mean anything -/
def downSt (disk : List (Nat × File)) (hist : Option Nat) (nextId : Nat) : St :=
  { index := [], byDist := [], farthest := none, cache := [], clock := 0, disk := disk, hist := hist,
    tasks := [], notes := [], nextId := nextId, payments := hist.getD 0, range := none }

inductive NOp where
  /-- a store operation of a running node -/
  | store (op : Op)
  /-- the node stops if it is running (no write is torn), then starts for network id text `cur`; `intr`: the start is
  interrupted there and the node stays down -/
  | start (cur : Text) (intr : Option Intr)
  deriving DecidableEq, Repr

inductive NOut where
  | store (o : Out)
  | started
  | interrupted
  | down
  deriving DecidableEq, Repr

def nstep (cfg : Cfg) (dist : Nat → Nat) (n : Node) : NOp → Node × NOut
  | .store op =>
    if n.up then
      let r := step cfg dist n.st op
      ({ n with st := r.1 }, .store r.2)
    else (n, .down)
  | .start cur none =>
    let d := completeStart ⟨n.vfile, n.st.disk⟩ cur
    ({ up := true, vfile := d.vfile, st := restart cfg dist d.disk n.st.hist n.st.nextId }, .started)
  | .start cur (some i) =>
    let d := interruptedStart ⟨n.vfile, n.st.disk⟩ cur i
    ({ up := false, vfile := d.vfile, st := downSt d.disk n.st.hist n.st.nextId }, .interrupted)

def nrunFrom (cfg : Cfg) (dist : Nat → Nat) (n : Node) : List NOp → Node
  | [] => n
  | op :: ops => nrunFrom cfg dist (nstep cfg dist n op).1 ops

/-- a fresh root directory with a store opened on it (no version file yet) -/
def ninit (cfg : Cfg) (dist : Nat → Nat) : Node := { up := true, vfile := none, st := init cfg dist }

def nrun (cfg : Cfg) (dist : Nat → Nat) (ops : List NOp) : Node := nrunFrom cfg dist (ninit cfg dist) ops


/-! ## "the same identity": the directory and the seed a start hands the record store

`NetworkBuilder::build_node` (driver.rs) — regenerated into `Gen/Startup`:
`storage_dir = root_dir.join("record_store")`, `historic_quote_dir = root_dir`,
`encryption_seed = PeerId::from(self.keypair.public()).to_bytes()[..16]`; `with_config` derives the cipher from that seed
alone. `amb` stands for everything that differs between two starts of the same node (time, process id, randomness):
when a regenerated flag says an expression draws on such a thing, the definition below depends on `amb`. -/

structure StoreOpening where
  /-- `NodeRecordStoreConfig.storage_dir` -/
  storageDir : String
  /-- `NodeRecordStoreConfig.historic_quote_dir` -/
  quoteDir : String
  /-- `NodeRecordStoreConfig.encryption_seed` -/
  seed : List Nat
  /-- what the record cipher and the per-key nonce prefix are derived from -/
  cipherInput : List Nat
  deriving DecidableEq, Repr

/-- what `build_node` opens the store with: node root directory `root`, peer id bytes `peer`, ambient `amb` -/
def storeOpening (root : String) (peer : List Nat) (amb : Nat) : StoreOpening :=
  let seed := if Gen.Startup.seedFromPeerId then peer.take Gen.Startup.seedBytes else [amb]
  { storageDir := if Gen.Startup.storageDirStable then root ++ "/" ++ Gen.Startup.storageDirName else root ++ "/" ++ toString amb,
    quoteDir := if Gen.Startup.quoteDirIsRoot then root else root ++ "/" ++ toString amb,
    seed := seed,
    cipherInput := if Gen.Startup.cipherFromSeedOnly then seed else amb :: seed }

end SafeNet.Store
