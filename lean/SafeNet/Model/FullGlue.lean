import SafeNet.Model.Store
import SafeNet.Model.Fetcher
import SafeNet.Gen.FullGlue
/-!
# The glue between the record store and the replication fetcher (`ant-networking/src/cmd.rs`), property C08

A node's `SwarmDriver` owns a `NodeRecordStore` (model `SafeNet.Store`) and a `ReplicationFetcher` (model
`SafeNet.Fetcher`). The only places where the two meet are a few arms of `SwarmDriver::handle_local_cmd`, the
`Cmd::Replicate` request handler (`add_keys_to_replication_fetcher`) and one branch of the run loop. This file composes
the two existing models, unchanged, into one machine.

* Every handler arm is a LIST OF STEP CODES regenerated from cmd.rs in source order (`SafeNet.Gen.FullGlue`) and
  interpreted literally by `stepCode` — the presence and the order of `put_verified`,
  `set_farthest_on_full(store.get_farthest())`, `notify_about_new_put` and the emission of
  `NetworkEvent::KeysToFetchForReplication` are data, not something this file assumes.
* Record types: the store model's `RType` is mapped to the fetcher model's type codes by `tyCode`
  (`0` chunk, `1` scratchpad, `v + 2` the `NonChunk` whose content hash is that of value `#v`).
* `dist` is the one XOR distance key ↔ node both components compute (`NetworkAddress::distance`).
* The machine has no crash operation, so `RType.nonChunk (.part ..)` never enters the index.
* Time does not advance in this machine (`Fetcher.State.now` stays `0`): fetch time-outs are the fetcher component's subject.
-/
namespace SafeNet.FullGlue
open SafeNet

/-- store record type ↦ fetcher type code -/
def tyCode : Store.RType → Nat
  | .chunk => 0
  | .scratchpad => 1
  | .nonChunk (.whole v) => v + 2
  | .nonChunk (.part v _) => v + 2

/-- `record_addresses_ref()` as the `locally_stored_keys` argument of `add_keys` -/
def locals (s : Store.St) : List (Nat × Nat) := s.index.map fun e => (e.1, tyCode e.2)

structure St where
  store : Store.St
  fetcher : Fetcher.State

/-- what a handler returns / what the harness observes of it -/
inductive HRes where
  | ok            -- `Ok(())`
  | maxRecords    -- `Err(NetworkError::from(StoreError::MaxRecords))`
  | badHeader     -- `Err(NetworkError::InCorrectRecordHeader)`
  | illegal       -- the schedule witness on the op line is not a legal one (store model)
  | noNote        -- no such pending notification (store model)
  deriving DecidableEq, Repr

structure HOut where
  res : HRes := .ok
  /-- the `(holder, key)` pairs sent up in `NetworkEvent::KeysToFetchForReplication`, with the record type -/
  emitted : List Fetcher.Entry := []
  /-- holders reported through `FailedToFetchHolders` -/
  failed : List Nat := []
  illegal : Bool := false
  /-- a step needed a value no earlier step produced (cannot happen for code that compiles) -/
  stuck : Bool := false
  deriving Repr

/-- inputs of a handler: the command's fields and the implementation's choice witness -/
structure In where
  k : Nat := 0
  v : Nat := 0
  t : Nat := 0
  id : Nat := 0
  choice : List Fetcher.Entry := []

/-- locals of a handler arm while it runs -/
structure Ctx where
  store : Store.St
  fetcher : Fetcher.State
  /-- `record_type` -/
  rt : Option Store.RType := none
  /-- `result` of `put_verified` -/
  putRes : Option Store.PutRes := none
  /-- `new_keys_to_fetch` -/
  newKeys : Option (List Fetcher.Entry) := none
  emitted : List Fetcher.Entry := []
  failed : List Nat := []
  illegal : Bool := false
  /-- the arm has returned -/
  ret : Option HRes := none
  stuck : Bool := false

/-- one effective statement of a handler arm (codes as in `Gen.FullGlue`) -/
def stepCode (cfg : Store.Cfg) (dist : Nat → Nat) (i : In) (c : Ctx) (code : Nat) : Ctx :=
  if c.ret.isSome then c else
  match code with
  | 0 =>
    match Store.putLocalRecordType i.v with
    | none => { c with ret := some .badHeader }
    | some rt => { c with rt := some rt }
  | 1 =>
    match c.rt with
    | none => { c with stuck := true }
    | some rt =>
      let r := Store.putVerified cfg dist c.store i.k i.v rt
      { c with store := r.1, putRes := some r.2 }
  | 2 =>
    match c.putRes with
    | none => { c with stuck := true }
    | some .maxRecords =>
      -- `set_farthest_on_full(store.get_farthest())`: the key of `farthest_record`, read after `put_verified`
      { c with fetcher := (Fetcher.step dist c.fetcher (.full (c.store.farthest.map (·.1)))).1 }
    | some _ => c
  | 3 =>
    match c.rt with
    | none => { c with stuck := true }
    | some rt =>
      let r := Fetcher.step dist c.fetcher (.put i.k (tyCode rt) i.choice)
      { c with fetcher := r.1, newKeys := some r.2.ret, failed := c.failed ++ r.2.failed,
               illegal := c.illegal || r.2.illegal }
  | 4 =>
    match c.newKeys with
    | none => { c with stuck := true }
    | some l => { c with emitted := c.emitted ++ l }
  | 5 =>
    match c.store.range with
    | some r => { c with fetcher := (Fetcher.step dist c.fetcher (.setRange r)).1 }
    | none => c
  | 6 =>
    match c.putRes with
    | none => { c with stuck := true }
    | some .maxRecords => { c with ret := some .maxRecords }
    | some _ => c
  | 10 =>
    let r := Store.deliver dist c.store i.id
    { c with store := r.1,
             ret := match r.2 with
               | .ok => none
               | .illegal => some .illegal
               | .noNote => some .noNote }
  | 11 => { c with store := Store.removeKey dist c.store i.k }
  | 12 =>
    let r := Fetcher.step dist c.fetcher (.early i.k i.t i.choice)
    { c with fetcher := r.1, newKeys := some r.2.ret, failed := c.failed ++ r.2.failed,
             illegal := c.illegal || r.2.illegal }
  | 13 => { c with store := Store.cleanup cfg dist c.store }
  | 14 => c
  | _ => { c with stuck := true }

def runHandler (cfg : Store.Cfg) (dist : Nat → Nat) (steps : List Nat) (i : In) (s : St) : St × HOut :=
  let c := steps.foldl (stepCode cfg dist i) { store := s.store, fetcher := s.fetcher }
  ({ store := c.store, fetcher := c.fetcher },
   { res := c.ret.getD .ok, emitted := c.emitted, failed := c.failed, illegal := c.illegal, stuck := c.stuck })

inductive Op where
  /-- `LocalSwarmCmd::PutLocalRecord { record }`, record = (key `k`, value `#v`) -/
  | put (k v : Nat) (choice : List Fetcher.Entry)
  /-- `Cmd::Replicate { holder, keys }` past its closest-K guard: `add_keys(holder, keys, record_addresses_ref())`,
  the returned list emitted as `KeysToFetchForReplication` -/
  | advert (h : Nat) (incoming : List (Nat × Nat)) (choice : List Fetcher.Entry)
  /-- `LocalSwarmCmd::FetchCompleted((key, type))` -/
  | early (k t : Nat) (choice : List Fetcher.Entry)
  /-- a task the store spawned (disk write / delete / flush) runs -/
  | run (id : Nat)
  /-- `LocalSwarmCmd::AddLocalRecordAsStored` sent by write task `id` is handled -/
  | deliver (id : Nat)
  /-- `LocalSwarmCmd::RemoveFailedLocalRecord { key }` -/
  | removeFailed (k : Nat)
  /-- the run loop's `set_farthest_record_interval` branch: store and fetcher get the same distance range -/
  | setRange (r : Nat)
  /-- `LocalSwarmCmd::TriggerIrrelevantRecordCleanup` -/
  | cleanup
  deriving Repr

def step (cfg : Store.Cfg) (dist : Nat → Nat) (s : St) : Op → St × HOut
  | .put k v c => runHandler cfg dist Gen.FullGlue.putLocalSteps { k := k, v := v, choice := c } s
  | .advert h inc c =>
    let r := Fetcher.step dist s.fetcher (.add h inc (locals s.store) c)
    ({ s with fetcher := r.1 }, { emitted := r.2.ret, failed := r.2.failed, illegal := r.2.illegal })
  | .early k t c => runHandler cfg dist Gen.FullGlue.fetchCompletedSteps { k := k, t := t, choice := c } s
  | .run id =>
    let r := Store.runTask s.store id
    ({ s with store := r.1 },
     { res := match r.2 with
         | .illegal => .illegal
         | .noTask => .noNote
         | _ => .ok })
  | .deliver id => runHandler cfg dist Gen.FullGlue.addStoredSteps { id := id } s
  | .removeFailed k => runHandler cfg dist Gen.FullGlue.removeFailedSteps { k := k } s
  | .setRange r =>
    ({ store := { s.store with range := some r }, fetcher := (Fetcher.step dist s.fetcher (.setRange r)).1 }, {})
  | .cleanup => runHandler cfg dist Gen.FullGlue.cleanupSteps {} s

def init (cfg : Store.Cfg) (dist : Nat → Nat) : St :=
  { store := Store.init cfg dist, fetcher := Fetcher.State.init }

def runFrom (cfg : Store.Cfg) (dist : Nat → Nat) (s : St) (ops : List Op) : St :=
  ops.foldl (fun s op => (step cfg dist s op).1) s

def run (cfg : Store.Cfg) (dist : Nat → Nat) (ops : List Op) : St := runFrom cfg dist (init cfg dist) ops

/-- the outputs along a history, oldest first -/
def outs (cfg : Store.Cfg) (dist : Nat → Nat) : St → List Op → List HOut
  | _, [] => []
  | s, op :: ops => (step cfg dist s op).2 :: outs cfg dist (step cfg dist s op).1 ops

/-- distance of the farthest record in the index (`0` for an empty index) -/
def maxHeld (dist : Nat → Nat) : List (Nat × Store.RType) → Nat
  | [] => 0
  | (k, _) :: rest => max (dist k) (maxHeld dist rest)

/-- the store is at capacity: `prune_records_if_needed` no longer lets a record in without an eviction -/
def atCapacity (cfg : Store.Cfg) (s : Store.St) : Bool := decide (cfg.maxRecords ≤ s.index.length)

/-- everything the fetcher has queued or in flight -/
def pending (f : Fetcher.State) : List Fetcher.Entry := f.tbf ++ f.ogf

end SafeNet.FullGlue
