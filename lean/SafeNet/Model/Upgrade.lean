import SafeNet.Model.ArgTable
import SafeNet.Gen.Upgrade
import SafeNet.Model.UnitFile
/-!
# C20 model: install-time and upgrade-time service definitions of an antnode service

Everything here interprets the tables `rs2lean` regenerates from the Rust source
(`SafeNet.Gen.Upgrade`). The option record `σ` assigns a value to every expression of `add_node`
that the two struct literals (`InstallNodeServiceCtxBuilder { .. }`, `NodeServiceData { .. }`) read:
`options.*`, and the derived locals `service_name`, `service_data_dir_path`, `service_log_dir_path`,
`service_antnode_path`, `rpc_socket_addr`, `metrics_free_port`, `node_port`, `owner`, `node_number`.
-/
namespace SafeNet.Upgrade
open SafeNet.ArgTable SafeNet.Gen.Upgrade

/-- `InstallNodeServiceCtxBuilder { .. }` of `add_node` as a substitution. -/
def viaBuilder : Path → Src := viaLiteral builderLiteral

/-- `NodeServiceData { .. }` of `add_node` as a substitution; `#env` / `#cli.x` are not registry
fields (environment in force at upgrade time, locals of `antctl upgrade`) and pass through; so does `~.x`
(circumstances of a daemon restart: `~.regenv`, `~.listenport`, `~.new.x`). -/
def viaData : Path → Src
  | "#env" :: rest => .var ("#env" :: rest)
  | "#cli" :: rest => .var ("#cli" :: rest)
  | "~" :: rest => .var ("~" :: rest)
  | p => viaLiteral dataLiteral p

/-- What `build_upgrade_install_context` reads: registry fields as they are, `#upgrade.x` through
the `UpgradeOptions { .. }` literal of `antctl upgrade`. -/
def viaUpgradeOptions : Path → Src
  | "#upgrade" :: f :: rest =>
    match upgradeLiteral.lookup f with
    | some (.var q) => .var (q ++ rest)
    | some (.const t) => .const t
    | some (.fold g s) => if rest = [] then .fold g s else .var ("?field-of-folded" :: "#upgrade" :: f :: rest)
    | none => .var ("?unmapped" :: "#upgrade" :: f :: rest)
  | p => .var p

/-- Locals of `add_node` computed from the options (`owner`) as a substitution. -/
def viaAddLocals : Path → Src := viaLocals localsLiteral

/-- The builder record `add_node` fills in. -/
def builderOf (σ : Valuation) : Valuation := through viaBuilder (through viaAddLocals σ)

/-- The registry entry `add_node` records (install → registry copy). -/
def recordOf (σ : Valuation) : Valuation := through viaData (through viaAddLocals σ)

/-- Arguments written at installation. -/
def buildInstall (σ : Valuation) : List Item := interp evmDisplay installTable (builderOf σ)

/-- Arguments regenerated at upgrade from a registry entry. -/
def buildUpgrade (data : Valuation) : List Item :=
  interp evmDisplay upgradeTable (through viaUpgradeOptions data)

def ctxOf (tbl : List (String × Src)) (ρ : Valuation) : List (String × Val) :=
  tbl.map fun kv => (kv.1, evalSrc ρ kv.2)

/-- program / user / autostart / environment / label written at installation. -/
def installSettings (σ : Valuation) : List (String × Val) := ctxOf installCtx (builderOf σ)

/-- … and regenerated at upgrade. -/
def upgradeSettings (data : Valuation) : List (String × Val) :=
  ctxOf upgradeCtx (through viaUpgradeOptions data)

/-! ### Environment: registry-wide, possibly overridden on the `upgrade` command line -/

def envPath : Path := ["options", "env_variables"]

/-- `node_registry.environment_variables` after `add_node` returned in the way `out` (previous value
`prev`): stored only if the storing statement was reached. -/
def registryEnvAfterInstall (σ : Valuation) (prev : Option AStr) (out : AddOutcome) : Option AStr :=
  if envStored registryEnvStore out then
    match σ envPath with
    | .opt (some e) => some e
    | _ => prev
  else prev

/-- `env_variables` of `antctl upgrade`: the `--env` given there, else the registry-wide one. -/
def envAtUpgrade (σ : Valuation) (provided prev : Option AStr) (out : AddOutcome) : Option AStr :=
  match provided with
  | some e => some e
  | none => registryEnvAfterInstall σ prev out

/-- The option record extended with the environment in force at upgrade time (`#env`). -/
def withEnv (σ : Valuation) (provided prev : Option AStr) (out : AddOutcome) : Valuation :=
  fun p => if p = ["#env"] then .opt (envAtUpgrade σ provided prev out) else σ p

/-! ### `NodeService::on_start` (full refresh) stores the port the node listens on -/

def afterStart (data : Valuation) (listen : Option AStr) : Valuation :=
  fun p => if p = ["node_port"] then (match listen with | some x => .opt (some x) | none => data p) else data p

/-! ### antnode's command line under the shipped features -/

def activeTop : List Decl := topDecls.filter (Decl.active defaultFeatures)

def activeSubs : List (String × String × List Decl) :=
  subcommands.map fun x => (x.1, x.2.1, x.2.2.filter (Decl.active defaultFeatures))

def parseArgs (items : List Item) : Except PErr Parsed := parse activeTop activeSubs items

/-- antnode on the strings of `ServiceInstallCtx.args`: tokenise as clap does, then parse. -/
def parseArgStrings (args : List String) : Except PErr Parsed := parseArgv activeTop activeSubs args

/-- The option record of the same `add` with the listener port the started node reported as its
`node_port` (what `on_start` makes of the registry entry, seen from `add_node`'s expressions). -/
def pin (σ : Valuation) (listen : Option AStr) : Valuation :=
  fun p => if p = ["node_port"] then (match listen with | some x => .opt (some x) | none => σ p) else σ p

/-! ### A later `antctl add --env` of OTHER services rewrites the registry-wide environment -/

def registryEnvAfterLater (reg later : Option AStr) : Option AStr :=
  match later with
  | some l => some l
  | none => reg

/-- `envAtUpgrade` with a later add of other services (`later` = its `--env`) between this add and the upgrade. -/
def envAtUpgradeLater (σ : Valuation) (provided prev : Option AStr) (out : AddOutcome) (later : Option AStr) : Option AStr :=
  match provided with
  | some e => some e
  | none => registryEnvAfterLater (registryEnvAfterInstall σ prev out) later

def withEnvLater (σ : Valuation) (provided prev : Option AStr) (out : AddOutcome) (later : Option AStr) : Valuation :=
  fun p => if p = ["#env"] then .opt (envAtUpgradeLater σ provided prev out later) else σ p

/-! ### `cmd::node::add`: the bootstrap cache directory handed to `add_node` -/

def cachePath : Path := ["options", "peers_args", "bootstrap_cache_dir"]

/-- From the `--bootstrap-cache-dir` given on antctl's command line (`given`) and the service user's default
directory (`dflt`; `None` in user mode), as the source does it (`addKeepsUserBootstrapCacheDir`). -/
def cliBootstrapCacheDir (keeps : Bool) (given dflt : Option AStr) : Option AStr :=
  if keeps then (match given with | some d => some d | none => dflt) else dflt

def withCli (σ : Valuation) (keeps : Bool) (given dflt : Option AStr) : Valuation :=
  fun p => if p = cachePath then .opt (cliBootstrapCacheDir keeps given dflt) else σ p

/-! ### Service level (system / user) handed to the service manager -/

/-- level `add_node` installs at (over `add_node`'s expressions) -/
def installLevel (σ : Valuation) : Val := evalSrc σ addInstallLevel

/-- (uninstall, install) levels of `ServiceManager::upgrade` for a registry entry -/
def upgradeLevels (data : Valuation) : Val × Val :=
  (evalSrc data upgradeUninstallLevel, evalSrc data upgradeInstallLevel)

/-! ### The daemon's restart (`rpc::restart_node_service`): two more service definitions

Both go through `InstallNodeServiceCtxBuilder::build` (the install table); the builder is filled from the
registry entry being restarted. `~.regenv` = registry-wide environment, `~.listenport` = `get_antnode_port()`
(the port of the recorded listen address), `~.new.x` = locals derived from the replacement's name. -/

def viaRestartRetain : Path → Src := viaLiteral restartRetainLiteral
def viaRestartReplace : Path → Src := viaLiteral restartReplaceLiteral

def buildRestartRetain (data : Valuation) : List Item := interp evmDisplay installTable (through viaRestartRetain data)
def restartRetainSettings (data : Valuation) : List (String × Val) := ctxOf installCtx (through viaRestartRetain data)
def restartRetainLevels (data : Valuation) : Val × Val :=
  (evalSrc data restartRetainUninstallLevel, evalSrc data restartRetainInstallLevel)

def buildRestartReplace (data : Valuation) : List Item := interp evmDisplay installTable (through viaRestartReplace data)
def restartReplaceSettings (data : Valuation) : List (String × Val) := ctxOf installCtx (through viaRestartReplace data)

/-- the registry entry recorded for the replacement service -/
def viaReplaceData : Path → Src
  | "#env" :: rest => .var ("#env" :: rest)
  | "#cli" :: rest => .var ("#cli" :: rest)
  | "~" :: rest => .var ("~" :: rest)
  | p => viaLiteral restartReplaceData p

def replaceRecordOf (data : Valuation) : Valuation := through viaReplaceData data

/-- the registry entry with the port of its recorded listen address (`get_antnode_port()`) made explicit -/
def withListen (data : Valuation) (x : Option AStr) : Valuation :=
  fun p => if p = ["~", "listenport"] then .opt x else data p

/-! ### The unit file lines, rendered FROM the format strings read out of the locked `service-manager` crate -/

/-- `writeln!(service, "ExecStart={program} {args}")` with `args = <strings>.join(" ")` -/
def unitExecStartLine (program : String) (args : List String) : String :=
  UnitFile.fmtApply (UnitFile.fmtPieces unitExecStartFormat) fun h =>
    if h = "program" then program else if h = "args" then unitArgsSeparator.intercalate args else "{" ++ h ++ "}"

/-- `writeln!(service, "Environment=\"{var}={val}\"")` -/
def unitEnvironmentLine (var val : String) : String :=
  UnitFile.fmtApply (UnitFile.fmtPieces unitEnvironmentFormat) fun h =>
    if h = "var" then var else if h = "val" then val else "{" ++ h ++ "}"

end SafeNet.Upgrade
