import SafeNet.Base.MsgPack
import SafeNet.Gen.Wire
/-!
Model of the wire encodings (C12).

* `Tree` — a value in serde's data model as `rmp_serde` (default config) sees it: structs and tuples are
  positional (`tup`), newtype structs are transparent, enums are `uvar name` / `nvar name payload`
  (tuple and struct variants carry a `tup`).  `toVal` is `rmp_serde::Serializer`: struct → array,
  unit variant → string, variant with payload → `{name: payload}`, `None`/`()` → nil, `Bytes` → bin.
* `Schema` — the shape of a Rust type; `ofVal` is the type-directed reading of a MessagePack value,
  `conforms` says a tree is a value of the type.  The schemas of the repo's types are at the end; each is
  compared with the real serialiser by the correspondence run.
* record header: `headerBytes`, the exact model of `RecordHeader::from_record` on its 3-byte window
  (including every non-minimal form `rmp_serde` admits), `trySerializeRecord` / `tryDeserializeRecord`.
-/
namespace SafeNet.Wire
open SafeNet.MsgPack SafeNet.Gen.Wire

inductive Tree where
  | unit
  | bool (b : Bool)
  | u (n : Nat)
  | i (m : Nat)
  | str (s : List Nat)
  | bytes (s : List Nat)
  | none
  | some (t : Tree)
  | seq (ts : List Tree)
  | tup (ts : List Tree)
  | uvar (name : List Nat)
  | nvar (name : List Nat) (t : Tree)
  deriving Repr, Inhabited

mutual
/-- `rmp_serde::Serializer` (struct-as-array, variants as strings / one-entry maps) -/
def toVal : Tree → Val
  | .unit => .nil
  | .bool b => .bool b
  | .u n => .uint n
  | .i m => .nint m
  | .str s => .str s
  | .bytes s => .bin s
  | .none => .nil
  | .some t => toVal t
  | .seq ts => .arr (toVals ts)
  | .tup ts => .arr (toVals ts)
  | .uvar n => .str n
  | .nvar n t => .map [(.str n, toVal t)]
def toVals : List Tree → List Val
  | [] => []
  | t :: ts => toVal t :: toVals ts
end

inductive Schema where
  | unit
  | bool
  | uint (bound : Nat)
  | str
  | bytes
  | bytesN (n : Nat)
  | opt (s : Schema)
  | seq (s : Schema)
  | tup (ss : List Schema)
  | enum (vs : List (List Nat × Schema))
  /-- payload marker of a unit variant -/
  | absent
  deriving Repr, Inhabited

/-- Rust's `str::from_utf8`: well-formed UTF-8 (no overlong forms, no surrogates, ≤ U+10FFFF). -/
def validUtf8 : List Nat → Bool
  | [] => true
  | b0 :: rest =>
    let cont (b : Nat) : Bool := 0x80 ≤ b && b ≤ 0xBF
    if b0 < 0x80 then validUtf8 rest
    else if 0xC2 ≤ b0 && b0 ≤ 0xDF then
      match rest with
      | b1 :: r => cont b1 && validUtf8 r
      | _ => false
    else if 0xE0 ≤ b0 && b0 ≤ 0xEF then
      match rest with
      | b1 :: b2 :: r =>
        (if b0 = 0xE0 then 0xA0 ≤ b1 && b1 ≤ 0xBF else if b0 = 0xED then 0x80 ≤ b1 && b1 ≤ 0x9F else cont b1)
          && cont b2 && validUtf8 r
      | _ => false
    else if 0xF0 ≤ b0 && b0 ≤ 0xF4 then
      match rest with
      | b1 :: b2 :: b3 :: r =>
        (if b0 = 0xF0 then 0x90 ≤ b1 && b1 ≤ 0xBF else if b0 = 0xF4 then 0x80 ≤ b1 && b1 ≤ 0x8F else cont b1)
          && cont b2 && cont b3 && validUtf8 r
      | _ => false
    else false

def isUnitVariant (vs : List (List Nat × Schema)) (name : List Nat) : Bool :=
  vs.any fun v => v.1 == name && (match v.2 with | .absent => true | _ => false)

mutual
/-- type-directed reading of a MessagePack value -/
def ofVal : Schema → Val → Option Tree
  | .unit, .nil => some .unit
  | .bool, .bool b => some (.bool b)
  | .uint bound, .uint n => if n < bound then some (.u n) else none
  | .str, .str s => if validUtf8 s then some (.str s) else none
  | .bytes, .bin s => some (.bytes s)
  | .bytesN n, .bin s => if s.length = n then some (.bytes s) else none
  | .opt _, .nil => some .none
  | .opt s, v => (ofVal s v).map .some
  | .seq s, .arr xs => (xs.mapM (ofVal s)).map .seq
  | .tup ss, .arr xs => (ofValTup ss xs).map .tup
  | .enum vs, .str name => if isUnitVariant vs name then some (.uvar name) else none
  | .enum vs, .map [(.str name, payload)] => ofValVariant vs name payload
  | _, _ => none
def ofValTup : List Schema → List Val → Option (List Tree)
  | [], [] => some []
  | s :: ss, x :: xs =>
    match ofVal s x with
    | none => none
    | some t => (ofValTup ss xs).map (t :: ·)
  | _, _ => none
def ofValVariant : List (List Nat × Schema) → List Nat → Val → Option Tree
  | [], _, _ => none
  | (n, p) :: rest, name, payload =>
    match n == name with
    | true => (ofVal p payload).map (.nvar name)
    | false => ofValVariant rest name payload
end

mutual
/-- `t` is a value of the type described by the schema -/
def conforms : Schema → Tree → Bool
  | .unit, .unit => true
  | .bool, .bool _ => true
  | .uint bound, .u n => n < bound
  | .str, .str s => validUtf8 s
  | .bytes, .bytes _ => true
  | .bytesN n, .bytes s => s.length = n
  | .opt _, .none => true
  | .opt s, .some t => conforms s t
  | .seq s, .seq ts => ts.all (conforms s)
  | .tup ss, .tup ts => conformsTup ss ts
  | .enum vs, .uvar name => isUnitVariant vs name
  | .enum vs, .nvar name t => conformsVariant vs name t
  | _, _ => false
def conformsTup : List Schema → List Tree → Bool
  | [], [] => true
  | s :: ss, t :: ts => conforms s t && conformsTup ss ts
  | _, _ => false
def conformsVariant : List (List Nat × Schema) → List Nat → Tree → Bool
  | [], _, _ => false
  | (n, p) :: rest, name, t =>
    match n == name with
    | true => conforms p t
    | false => conformsVariant rest name t
end

/-! ## record header and records -/

/-- `RecordHeader { kind }.try_serialize()`: the one-field struct as a 1-array holding the tag. -/
def headerBytes (k : RecordKind) : List Nat := encode (.arr [.uint (serTag k)])

def tagKind (n : Nat) : Option RecordKind := if n < deTagBound then deTag n else none

/-- Exact model of `rmp_serde::from_slice::<RecordHeader>` on a 3-byte window.  Besides the canonical
`[0x91, tag]` (third byte ignored) `rmp_serde` admits: the tag as `u8` (`0xcc`) or non-negative `i8` (`0xd0`),
a 1-byte `bin` fed to the struct visitor as a sequence (`[0xc4, 1, tag]`), and the struct as a map keyed by
field index (`[0x81, 0, tag]`). -/
def headerFromWindow : List Nat → Option RecordKind
  | [b0, b1, b2] =>
    if b0 = 0x91 then
      if b1 < 0x80 then tagKind b1
      else if b1 = 0xcc then tagKind b2
      else if b1 = 0xd0 then (if b2 < 0x80 then tagKind b2 else none)
      else none
    else if b0 = 0xc4 then (if b1 = 1 then tagKind b2 else none)
    else if b0 = 0x81 then (if b1 = 0 ∧ b2 < 0x80 then tagKind b2 else none)
    else none
  | _ => none

/-- `RecordHeader::from_record` -/
def fromRecord (bs : List Nat) : Option RecordKind :=
  if bs.length < headerWindow then none else headerFromWindow (bs.take headerWindow)

/-- `RecordHeader::is_record_of_type_chunk`: the header decoder's verdict, then the kind test
(`none` = `Err(RecordHeaderParsingFailed)`). -/
def isChunk (bs : List Nat) : Option Bool :=
  if isChunkViaFromRecord then (fromRecord bs).map (· == .Chunk) else none

/-- `RecordHeader::try_deserialize` on a slice of any length (what `rmp_serde::from_slice::<RecordHeader>` accepts;
trailing bytes are ignored): a 1-array (`0x91`, `0xdc 00 01`, `0xdd 00 00 00 01`) holding the tag as an unsigned or
non-negative signed integer of ANY width, a `bin` of length one (`0xc4 01`, `0xc5 00 01`, `0xc6 00 00 00 01`), or the
3-byte map `{0: tag}`.  Maps longer than three bytes (string keys, ignored extra keys) are not modelled: such inputs
are only compared under the canonical-acceptance rule (`dec RecordHeader`). -/
def headerTryDeserialize (bs : List Nat) : Option RecordKind :=
  let elem (rest : List Nat) : Option RecordKind :=
    match decodeHead rest with
    | some (.uint n, _) => tagKind n
    | _ => none
  match bs with
  | 0x91 :: rest => elem rest
  | 0xdc :: 0 :: 1 :: rest => elem rest
  | 0xdd :: 0 :: 0 :: 0 :: 1 :: rest => elem rest
  | 0xc4 :: 1 :: t :: _ => tagKind t
  | 0xc5 :: 0 :: 1 :: t :: _ => tagKind t
  | 0xc6 :: 0 :: 0 :: 0 :: 1 :: t :: _ => tagKind t
  | [0x81, 0, t] => if t < 0x80 then tagKind t else none
  | _ => none

/-- `try_serialize_record` -/
def trySerializeRecord (v : Val) (k : RecordKind) : List Nat := headerBytes k ++ encode v

/-- `try_deserialize_record` (the value part; trailing bytes are ignored as `rmp_serde::from_slice` does) -/
def tryDeserializeRecord (bs : List Nat) : Option Val :=
  if bs.length > headerSize then (decode (bs.drop headerSize)).map (·.1) else none

/-! ## hex text form of a register address (carried in user input; `RegisterAddress::from_hex`) -/

def isHexChar (c : Nat) : Bool := (48 ≤ c && c ≤ 57) || (97 ≤ c && c ≤ 102) || (65 ≤ c && c ≤ 70)

/-- `RegisterAddress::from_hex` up to the validity of the 48 key bytes (opaque here): the text must be hex of even
length decoding to exactly `XOR_NAME_LEN + PK_SIZE = 80` bytes; everything else is `Err(HexDeserializeFailed)`. -/
def registerHexShapeOk (text : List Nat) : Bool :=
  text.all isHexChar && text.length % 2 == 0 && text.length / 2 == 80

/-! ## chunks -/

structure Chunk where
  address : List Nat
  value : List Nat
  deriving DecidableEq, Repr

/-- `Serialize for Chunk`: the value only -/
def Chunk.toVal (c : Chunk) : Val := .bin c.value

/-- `Deserialize for Chunk` with content hash `H` (`XorName::from_content`) -/
def Chunk.ofVal (H : List Nat → List Nat) : Val → Option Chunk
  | .bin s => some { address := if chunkDeUsesNew && chunkNewHashesValue then H s else [], value := s }
  | _ => none

/-- `try_deserialize_record::<(ProofOfPayment, Chunk)>` on the decoded value: the pair as a 2-array, the proof read
by `readProof` (its schema, below), the chunk by `Deserialize for Chunk` -/
def paidChunkOfVal (readProof : Val → Option Tree) (H : List Nat → List Nat) : Val → Option (Tree × Chunk)
  | .arr [pv, cv] =>
    match readProof pv, Chunk.ofVal H cv with
    | some p, some c => some (p, c)
    | _, _ => none
  | _ => none

/-! ## schemas of the repo's types -/

def nm (s : String) : List Nat := s.toList.map Char.toNat

def u8 : Schema := .uint 256
def u64 : Schema := .uint 18446744073709551616
def xorName : Schema := .tup (List.replicate 32 u8)
def blsPublicKey : Schema := .tup (List.replicate 48 u8)
def blsSignature : Schema := .tup (List.replicate 96 u8)
def vecU8 : Schema := .seq u8

def recordHeader : Schema := .tup [.uint deTagBound]
def chunk : Schema := .bytes
def recordType : Schema := .enum [(nm "Chunk", .absent), (nm "Scratchpad", .absent), (nm "NonChunk", xorName)]
def registerAddress : Schema := .tup [xorName, blsPublicKey]
def scratchpadAddress : Schema := .tup [blsPublicKey]
def networkAddress : Schema :=
  .enum [(nm "PeerId", .bytes), (nm "ChunkAddress", xorName), (nm "TransactionAddress", xorName),
    (nm "RegisterAddress", registerAddress), (nm "RecordKey", .bytes), (nm "ScratchpadAddress", scratchpadAddress)]
def quotingMetrics : Schema := .tup [u64, u64, u64, u64, .opt xorName, .opt u64]
/-- `SystemTime`: `[secs_since_epoch, nanos_since_epoch]`; seconds must fit the platform's `i64`, nanos `< 10⁹` -/
def systemTime : Schema := .tup [.uint 9223372036854775808, .uint 1000000000]
def paymentQuote : Schema := .tup [xorName, systemTime, quotingMetrics, .bytesN 20, vecU8, vecU8]
def proofOfPayment : Schema := .tup [.seq (.tup [vecU8, paymentQuote])]
def scratchpad : Schema := .tup [scratchpadAddress, u64, .bytes, u64, .opt blsSignature]
def transaction : Schema := .tup [blsPublicKey, .seq blsPublicKey, xorName, .seq (.tup [blsPublicKey, xorName]), blsSignature]

/-- `ant_registers::Permissions` -/
def permissions : Schema := .enum [(nm "AnyoneCanWrite", .absent), (nm "Writers", .seq blsPublicKey)]
/-- `ant_registers::Register { address, permissions }` — the base register the owner signs -/
def register : Schema := .tup [registerAddress, permissions]
/-- `crdts::merkle_reg::Node<Entry> { children: BTreeSet<[u8; 32]>, value: Vec<u8> }` -/
def merkleNode : Schema := .tup [.seq xorName, vecU8]
/-- `ant_registers::RegisterOp { address, crdt_op, source, signature }` -/
def registerOp : Schema := .tup [registerAddress, merkleNode, blsPublicKey, blsSignature]
/-- `ant_registers::SignedRegister { register, signature, ops: BTreeSet<RegisterOp> }` — the payload of the two register kinds -/
def signedRegister : Schema := .tup [register, blsSignature, .seq registerOp]

def protocolError : Schema :=
  .enum [(nm "UserDataDirectoryNotObtainable", .absent), (nm "CouldNotObtainPortFromMultiAddr", .absent),
    (nm "ParseRetryStrategyError", .absent), (nm "CouldNotObtainDataDir", .absent),
    (nm "ChunkDoesNotExist", networkAddress), (nm "RegisterNotFound", registerAddress),
    (nm "RegisterAlreadyClaimed", blsPublicKey), (nm "RegisterRecordNotFound", .tup [networkAddress, networkAddress]),
    (nm "ScratchpadHexDeserializeFailed", .absent), (nm "ScratchpadCipherTextFailed", .absent),
    (nm "ScratchpadCipherTextInvalid", .absent), (nm "GetStoreQuoteFailed", .absent),
    (nm "QuoteGenerationFailed", .absent), (nm "ReplicatedRecordNotFound", .tup [networkAddress, networkAddress]),
    (nm "RecordHeaderParsingFailed", .absent), (nm "RecordParsingFailed", .absent), (nm "RecordExists", vecU8)]
def result (ok : Schema) : Schema := .enum [(nm "Ok", ok), (nm "Err", protocolError)]

def cmd : Schema :=
  .enum [(nm "Replicate", .tup [networkAddress, .seq (.tup [networkAddress, recordType])]),
    (nm "PeerConsideredAsBad", .tup [networkAddress, networkAddress, .str])]
def query : Schema :=
  .enum [(nm "GetStoreQuote", .tup [networkAddress, .opt u64, u64]),
    (nm "GetReplicatedRecord", .tup [networkAddress, networkAddress]),
    (nm "GetRegisterRecord", .tup [networkAddress, networkAddress]),
    (nm "GetChunkExistenceProof", .tup [networkAddress, u64, u64]),
    (nm "CheckNodeInProblem", networkAddress),
    (nm "GetClosestPeers", .tup [networkAddress, .opt u64, .opt xorName, .bool])]
def request : Schema := .enum [(nm "Cmd", cmd), (nm "Query", query)]
def cmdResponse : Schema := .enum [(nm "Replicate", result .unit), (nm "PeerConsideredAsBad", result .unit)]
def storageProofs : Schema := .seq (.tup [networkAddress, result xorName])
def queryResponse : Schema :=
  .enum [(nm "GetStoreQuote", .tup [result paymentQuote, networkAddress, storageProofs]),
    (nm "CheckNodeInProblem", .tup [networkAddress, networkAddress, .bool]),
    (nm "GetReplicatedRecord", result (.tup [networkAddress, .bytes])),
    (nm "GetRegisterRecord", result (.tup [networkAddress, .bytes])),
    (nm "GetChunkExistenceProof", storageProofs),
    (nm "GetClosestPeers", .tup [networkAddress, .seq (.tup [networkAddress, .seq .bytes]), .opt vecU8])]
def response : Schema := .enum [(nm "Cmd", cmdResponse), (nm "Query", queryResponse)]

/-- the type stored under each record kind (what `ant-node/src/put_validation.rs` passes to `try_deserialize_record`) -/
def payloadSchema : RecordKind → Schema
  | .Chunk => chunk
  | .ChunkWithPayment => .tup [proofOfPayment, chunk]
  | .Transaction => .seq transaction
  | .TransactionWithPayment => .tup [proofOfPayment, transaction]
  | .Register => signedRegister
  | .RegisterWithPayment => .tup [proofOfPayment, signedRegister]
  | .Scratchpad => scratchpad
  | .ScratchpadWithPayment => .tup [proofOfPayment, scratchpad]

/-- the Rust type stored under each kind, spelled as at the `try_deserialize_record::<T>` call sites (spaces removed) -/
def payloadTypeName : RecordKind → String
  | .Chunk => "Chunk"
  | .ChunkWithPayment => "(ProofOfPayment,Chunk)"
  | .Transaction => "Vec<Transaction>"
  | .TransactionWithPayment => "(ProofOfPayment,Transaction)"
  | .Register => "SignedRegister"
  | .RegisterWithPayment => "(ProofOfPayment,SignedRegister)"
  | .Scratchpad => "Scratchpad"
  | .ScratchpadWithPayment => "(ProofOfPayment,Scratchpad)"

/-- the schema of a Rust type spelled that way (`Vec<T>` a sequence, `(A,B)` a 2-tuple) -/
def schemaOfRust : String → Option Schema
  | "Chunk" => some chunk
  | "Scratchpad" => some scratchpad
  | "SignedRegister" => some signedRegister
  | "Vec<Transaction>" => some (.seq transaction)
  | "(ProofOfPayment,Chunk)" => some (.tup [proofOfPayment, chunk])
  | "(ProofOfPayment,Scratchpad)" => some (.tup [proofOfPayment, scratchpad])
  | "(ProofOfPayment,Transaction)" => some (.tup [proofOfPayment, transaction])
  | "(ProofOfPayment,SignedRegister)" => some (.tup [proofOfPayment, signedRegister])
  | _ => none

/-- the type names used on the op lines of the correspondence run -/
def schemaOf : String → Option Schema
  | "RecordHeader" => some recordHeader
  | "Chunk" => some chunk
  | "RecordType" => some recordType
  | "NetworkAddress" => some networkAddress
  | "QuotingMetrics" => some quotingMetrics
  | "PaymentQuote" => some paymentQuote
  | "ProofOfPayment" => some proofOfPayment
  | "PaidChunk" => some (.tup [proofOfPayment, chunk])
  | "Scratchpad" => some scratchpad
  | "PaidScratchpad" => some (.tup [proofOfPayment, scratchpad])
  | "Transactions" => some (.seq transaction)
  | "PaidTransaction" => some (.tup [proofOfPayment, transaction])
  | "SignedRegister" => some signedRegister
  | "PaidRegister" => some (.tup [proofOfPayment, signedRegister])
  | "ProtocolError" => some protocolError
  | "Cmd" => some cmd
  | "Query" => some query
  | "Request" => some request
  | "CmdResponse" => some cmdResponse
  | "QueryResponse" => some queryResponse
  | "Response" => some response
  | _ => none

end SafeNet.Wire
