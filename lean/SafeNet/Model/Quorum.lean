import SafeNet.Gen.Quorum
/-!
# Model of the GetRecord accumulation in `ant-networking` (property C05)

Hand-written model of
* `SwarmDriver::handle_network_cmd(NetworkSwarmCmd::GetNetworkRecord)` (cmd.rs): a request for a key that
  already has an in-flight query only pushes its sender onto that query (the joiner's cfg is dropped),
* `accumulate_get_record_found`, `handle_get_record_finished`, `handle_get_record_error`,
  `send_record_after_checking_target` (event/kad.rs),
* `GetRecordCfg::does_target_match` (driver.rs),
* `Network::handle_split_record_error` (lib.rs).

The quorum table, the "responders are a set" flag, the completion comparison and the target check are taken
from `SafeNet.Gen.Quorum` (regenerated from the Rust source by rs2lean).

Identities are small naturals.  `Content` abstracts the *bytes* of a record value: two contents are equal iff
the harness produced byte-identical values (the code keys versions by `XorName::from_content`; injectivity of
that hash on the values of one run is an assumption).

The state carries history variables that never influence a delivery (`asked`, `returned`, `keys`, `delivered`);
they exist so that the theorems can speak about the past.
-/
namespace SafeNet.Quorum
open SafeNet.Gen.Quorum

/-- Record kinds as far as `handle_split_record_error` distinguishes them (`paid` = any `…WithPayment`). -/
inductive Kind where
  | chunk | txn | reg | pad | paid
  deriving DecidableEq, Repr

/-- Op ids `≥ strangerOpsFrom` denote register ops signed by a key without write permission. -/
def strangerOpsFrom : Nat := 6

/-- A record value. -/
inductive Content where
  /-- bytes without a decodable `RecordHeader` -/
  | junk (n : Nat)
  /-- a valid header of kind `k` followed by a body that does not deserialise (for `chunk`: any body) -/
  | hdr (k : Kind) (n : Nat)
  /-- `RecordKind::Transaction` + `Vec<Transaction>` (ids in serialisation order) -/
  | txs (l : List Nat)
  /-- `RecordKind::Register` + `SignedRegister { base, signature ok?, ops }` (ops ascending) -/
  | reg (base : Nat) (sigOk : Bool) (ops : List Nat)
  /-- `RecordKind::Scratchpad` + `Scratchpad { owner, counter, data variant, signature valid? }` -/
  | pad (owner counter variant : Nat) (valid : Bool)
  deriving DecidableEq, Repr

structure Cfg where
  quorum : Quorum
  target : Option Content
  isReg : Bool
  /-- `expected_holders`: the peers the caller names as holders of the record. `accumulate_get_record_found` removes
  each answering peer from the set kept with the pending query (kad.rs, `cfg.expected_holders.remove(&peer_id)`) and the
  handlers mention what is left in log lines only (read in the source); nothing a caller observes depends on it — in
  particular not the number of copies required, which is `get_quorum_value(&cfg.get_quorum)` at every site (the
  translator refuses any other expression). The field is part of the cfg the theorems quantify over. -/
  expected : List Nat := []
  deriving DecidableEq, Repr

/-- `Quorum::N` carries a `NonZeroUsize`. -/
def cfgWf (cfg : Cfg) : Bool :=
  match cfg.quorum with
  | .n v => decide (1 ≤ v)
  | _ => true

/-- One entry of `pending_get_record`. -/
structure Query where
  qid : Nat
  key : Nat
  senders : List Nat
  /-- `GetRecordResultMap`: version ↦ responders (insertion order; observed only sorted) -/
  results : List (Content × List Nat)
  cfg : Cfg
  deriving DecidableEq, Repr

/-- What a caller finds on its oneshot receiver. -/
inductive Outcome where
  | ok (c : Content)
  | split (m : List (Content × List Nat))
  | notEnough (c : Content) (expected got : Nat)
  | mismatch (c : Content)
  | notFound
  | timeout
  /-- the sender was dropped without a value (a later `send` failed and the handler returned early) -/
  | closed
  deriving DecidableEq, Repr

/-- Return value of the handler: `Ok(())`, `ReceivedKademliaEventDropped`, `InternalMsgChannelDropped`. -/
inductive Ret where
  | ok | dropped | chan | bad
  deriving DecidableEq, Repr

structure State where
  pending : List Query := []
  nextQid : Nat := 0
  nextCaller : Nat := 0
  /-- callers whose receiver has been dropped -/
  hung : List Nat := []
  /-- history: accepted `get`s as (caller, key, cfg) -/
  asked : List (Nat × Nat × Cfg) := []
  /-- history: replies accepted into a pending query as (qid, peer, content) -/
  returned : List (Nat × Nat × Content) := []
  /-- history: the same replies with the key their record carried, as (qid, peer, content, record key).
  (`accumulate_get_record_found` drops a reply carrying another key iff `Gen.foundChecksKey`.) -/
  keys : List (Nat × Nat × Content × Nat) := []
  /-- history: everything put on (or dropped from) a caller's channel -/
  delivered : List (Nat × Outcome) := []
  deriving Repr

inductive Op where
  | get (key caller : Nat) (cfg : Cfg)
  /-- `fk = some k`: the record of the reply carries key `k` (a foreign key when `k` is not the query's key);
  `none`: it carries the key of the query -/
  | found (qid peer : Nat) (c : Content) (fk : Option Nat)
  | finished (qid : Nat)
  | notFound (qid : Nat)
  | quorumFailed (qid : Nat)
  | timeout (qid : Nat)
  | hangup (caller : Nat)
  deriving DecidableEq, Repr

structure Out where
  ret : Ret := .ok
  /-- for `get`: (joined an in-flight query?, query id) -/
  info : Option (Bool × Nat) := none
  deliveries : List (Nat × Outcome) := []
  deriving Repr

/-! ## Pieces -/

def quorumOf (cfg : Cfg) : Nat := getQuorumValue cfg.quorum

/-- `responded_peers >= expected_answers` (operator regenerated from the source). -/
def reached (n q : Nat) : Bool := if thresholdIsGe then decide (q ≤ n) else decide (q < n)

/-- the comparison of the two registers' op sets used by `does_target_match` (regenerated from the source;
ops lists are ascending and duplicate-free, so list equality is set equality) -/
def opsMatch (target fetched : List Nat) : Bool :=
  match regTargetOpsCmp with
  | .eq => target == fetched
  | .targetSubsetOfFetched => target.all (fun o => fetched.contains o)
  | .fetchedSubsetOfTarget => fetched.all (fun o => target.contains o)

/-- `GetRecordCfg::does_target_match`, literally:
* no target: matches;
* `is_register`: both the fetched and the target record must deserialise as `SignedRegister` (anything else,
  even byte-identical records, does not match); then base registers equal and ops compared by `opsMatch`
  (the owner signature of the register is *not* compared);
* otherwise: the records are equal. -/
def targetMatch (cfg : Cfg) (c : Content) : Bool :=
  match cfg.target with
  | none => true
  | some t =>
    if cfg.isReg then
      match c, t with
      | .reg b _ ops, .reg b' _ ops' => b == b' && opsMatch ops' ops
      | _, _ => false
    else c == t

/-- `send_record_after_checking_target`. -/
def sendChecked (cfg : Cfg) (c : Content) : Outcome :=
  if targetChecked then (if targetMatch cfg c then .ok c else .mismatch c) else .ok c

/-- `send_record_after_checking_target` for a reply whose record key is / is not the key of the target record
(the harness builds targets with the requested key): the plain comparison `target_record == record` is on whole
records, so a foreign key never equals a plain target; the `is_register` comparison ignores the key. -/
def sendCheckedK (cfg : Cfg) (c : Content) (keyOk : Bool) : Outcome :=
  if keyOk || cfg.isReg || cfg.target.isNone then sendChecked cfg c
  else if targetChecked then .mismatch c else .ok c

/-- Insert the responder of version `c`; returns the new map and `responded_peers`. -/
def addPeer (rs : List (Content × List Nat)) (c : Content) (p : Nat) : List (Content × List Nat) × Nat :=
  match rs with
  | [] => ([(c, [p])], 1)
  | (c', ps) :: rest =>
    if c' = c then
      let ps' := if respondersAreSet && ps.contains p then ps else ps ++ [p]
      ((c', ps') :: rest, ps'.length)
    else
      let r := addPeer rest c p
      ((c', ps) :: r.1, r.2)

/-- sorted duplicate-free insertion (`BTreeSet::insert`) -/
def insertSorted (x : Nat) : List Nat → List Nat
  | [] => [x]
  | y :: ys => if x < y then x :: y :: ys else if x = y then y :: ys else y :: insertSorted x ys

def unionInto (acc : List Nat) (l : List Nat) : List Nat := l.foldl (fun a x => insertSorted x a) acc

/-- `get_transactions_from_record` -/
def txsOf : Content → Option (List Nat)
  | .txs l => some l
  | _ => none

/-! Transaction ids: `2*b` and `2*b+1` are two transactions with identical owner, parents, content and outputs
(base `b`) that differ only in the signature (the harness numbers them in `Ord` order). -/

/-- `BTreeSet<Transaction>::insert`: ordered by the derived `Ord` over all fields, or — with a hand-written `Ord`
that leaves the signature out (`Gen.txOrdComparesAllFields = false`) — an element that compares equal to a present
one (same base) is not inserted. -/
def txInsert (x : Nat) (acc : List Nat) : List Nat :=
  if txOrdComparesAllFields then insertSorted x acc
  else if acc.any (fun y => y / 2 == x / 2) then acc else insertSorted x acc

def txUnionInto (acc : List Nat) (l : List Nat) : List Nat := l.foldl (fun a x => txInsert x a) acc

/-- `accumulate_get_record_found`, split branch: `accumulated_transactions.extend(transactions)` on a `BTreeSet` -/
def txAdd (acc : List Nat) (c : Content) : List Nat :=
  match txsOf c with
  | some l => txUnionInto acc l
  | none => acc

def txUnion (cs : List Content) : List Nat := cs.foldl txAdd []

/-- `handle_split_record_error`: the same on a `HashSet<Transaction>` (derived `Eq`/`Hash` over all fields; the
result is observed sorted) -/
def txAddH (acc : List Nat) (c : Content) : List Nat :=
  match txsOf c with
  | some l => unionInto acc l
  | none => acc

def txUnionH (cs : List Content) : List Nat := cs.foldl txAddH []

/-- Send `o` to the senders in order (`send_to_all`). With `Gen.sendServesAllCallers` a dropped receiver is only
remembered (the handler returns `InternalMsgChannelDropped` after every sender was served); without it (`?` on the
result of `send` inside the loop) the first dropped receiver makes the handler return early, which drops the
remaining senders (their live receivers observe `closed`). -/
def deliver (hung : List Nat) : List Nat → Outcome → List (Nat × Outcome) × Bool
  | [], _ => ([], true)
  | c :: cs, o =>
    if hung.contains c then
      if sendServesAllCallers then ((deliver hung cs o).1, false)
      else ((cs.filter (fun x => !hung.contains x)).map (fun x => (x, Outcome.closed)), false)
    else
      let r := deliver hung cs o
      ((c, o) :: r.1, r.2)

def findQ (qid : Nat) (l : List Query) : Option Query := l.find? (fun q => q.qid == qid)
def removeQ (qid : Nat) (l : List Query) : List Query := l.filter (fun q => q.qid != qid)

/-- The entry is removed from `pending_get_record` and every waiting sender is answered. -/
def terminate (s : State) (q : Query) (o : Outcome) : State × Out :=
  let d := deliver s.hung q.senders o
  ({ s with pending := removeQ q.qid s.pending, delivered := s.delivered ++ d.1 },
   { ret := if d.2 then .ok else .chan, deliveries := d.1 })

/-- Outcome of `handle_get_record_finished` for a removed entry. -/
def finishedOutcome (q : Query) : Outcome :=
  match q.results with
  | [] => .notFound
  | [(c, ps)] => if quorumOf q.cfg ≤ ps.length then .ok c else .notEnough c (quorumOf q.cfg) ps.length
  | _ => .split q.results

/-- Outcome of the `Timeout` arm of `handle_get_record_error` for a removed entry. -/
def timeoutOutcome (q : Query) : Outcome :=
  match q.results with
  | [(c, ps)] => if quorumOf q.cfg ≤ ps.length then sendChecked q.cfg c else .timeout
  | _ => .timeout

/-- every version decodes as transactions (`get_transactions_from_record` is `Ok` for each) -/
def allTx (cs : List Content) : Bool := cs.all (fun c => (txsOf c).isSome)

/-- Outcome of `accumulate_get_record_found` once a version reached the quorum; `rs` is the updated map and
`c` the record that just arrived. With several versions: the transaction union, provided it is not empty and — with
`needAll` (`Gen.accMergeNeedsAllTx`: `all_versions_are_transactions`) — every version held is a transaction record;
else `SplitRecord` with the whole map. (`needAll = false` is the code before the repair: versions that are no
transactions were left out of an `Ok(union)`.) -/
def completedOutcomeWith (needAll : Bool) (cfg : Cfg) (rs : List (Content × List Nat)) (c : Content) (keyOk : Bool) : Outcome :=
  if rs.length == 1 then sendCheckedK cfg c keyOk
  else
    let u := txUnion (rs.map (·.1))
    if u.isEmpty || (needAll && !allTx (rs.map (·.1))) then .split rs else .ok (.txs u)

def completedOutcome (cfg : Cfg) (rs : List (Content × List Nat)) (c : Content) (keyOk : Bool) : Outcome :=
  completedOutcomeWith accMergeNeedsAllTx cfg rs c keyOk

def step (s : State) : Op → State × Out
  | .get key caller cfg =>
    if caller != s.nextCaller || !cfgWf cfg then (s, { ret := .bad })
    else
      let s1 := { s with nextCaller := s.nextCaller + 1, asked := s.asked ++ [(caller, key, cfg)] }
      match s.pending.find? (fun q => q.key == key) with
      | some q =>
        ({ s1 with pending := s.pending.map (fun x => if x.key == key then { x with senders := x.senders ++ [caller] } else x) },
         { info := some (true, q.qid) })
      | none =>
        ({ s1 with pending := s.pending ++ [{ qid := s.nextQid, key := key, senders := [caller], results := [], cfg := cfg }],
                   nextQid := s.nextQid + 1 },
         { info := some (false, s.nextQid) })
  | .found qid p c fk =>
    match findQ qid s.pending with
    | none => (s, { ret := .dropped })
    | some q =>
      -- `if peer_record.record.key != *key { return Ok(()) }`: a reply carrying another key is dropped before any use
      if foundChecksKey && (fk.getD q.key != q.key) then (s, {}) else
      let r := addPeer q.results c p
      let s1 := { s with returned := s.returned ++ [(qid, p, c)], keys := s.keys ++ [(qid, p, c, fk.getD q.key)] }
      if reached r.2 (quorumOf q.cfg) then
        terminate s1 q (completedOutcome q.cfg r.1 c (fk.getD q.key == q.key))
      else
        ({ s1 with pending := s.pending.map (fun x => if x.qid == qid then { x with results := r.1 } else x) }, {})
  | .finished qid =>
    match findQ qid s.pending with
    | none => (s, {})
    | some q => terminate s q (finishedOutcome q)
  | .notFound qid =>
    match findQ qid s.pending with
    | none => (s, { ret := .dropped })
    | some q => terminate s q .notFound
  | .quorumFailed qid =>
    match findQ qid s.pending with
    | none => (s, { ret := .dropped })
    | some q => terminate s q .notFound
  | .timeout qid =>
    match findQ qid s.pending with
    | none => (s, { ret := .dropped })
    | some q => terminate s q (timeoutOutcome q)
  | .hangup caller =>
    if s.nextCaller ≤ caller then (s, { ret := .bad })
    else ({ s with hung := caller :: s.hung }, {})

/-- key of the record stored for version `c` of query `qid`: the key carried by the first reply with that content
(`result_map.insert` happens only for a new content hash) -/
def storedKey (keys : List (Nat × Nat × Content × Nat)) (qid : Nat) (c : Content) (dflt : Nat) : Nat :=
  match keys.find? (fun r => r.1 == qid && r.2.2.1 == c) with
  | some r => r.2.2.2
  | none => dflt

/-- key of the record a step hands to the callers of `q` together with a record-carrying outcome: the reply that
completed the quorum hands over *its* record (`peer_record.record`, also for the transaction merge), a finished
query the stored one -/
def deliveredKey (s : State) (q : Query) (op : Op) (c : Content) : Nat :=
  match op with
  | .found _ _ _ fk => fk.getD q.key
  | _ => storedKey s.keys q.qid c q.key

def run (ops : List Op) : State := ops.foldl (fun s op => (step s op).1) {}

/-! ## `Network::handle_split_record_error`

`order` is the order in which the versions are visited (see `visitOrder` at the end of this file: ascending
content hash with `Gen.splitVisitsInKeyOrder`, else the iteration order of `result_map.values()`). -/

def kindOf : Content → Option Kind
  | .junk _ => none
  | .hdr k _ => some k
  | .txs _ => some .txn
  | .reg _ _ _ => some .reg
  | .pad _ _ _ _ => some .pad

/-- `SignedRegister::verify`: owner signature on the base register and every op from a permitted writer. -/
def regVerified : Content → Bool
  | .reg _ sigOk ops => sigOk && ops.all (fun o => decide (o < strangerOpsFrom))
  | _ => false

/-- the address (meta, owner) of base register `b`: bases `0` and `2` are two different base registers (different
permissions, both signed by the owner) at one address, base `1` lives at another address -/
def regAddr (b : Nat) : Nat := b % 2

/-- the `merge` op reads the record key of register address 0 (when the versions are registers) -/
def mergeKeyRegAddr : Nat := 0

/-- a register the split handling collects: it lives at the record key being read (the address check of the `Register`
arm, `Gen.splitRegChecksKey`; a register of another address is skipped like an unverifiable one) and `verify()`s -/
def regValid : Content → Bool
  | .reg b sigOk ops => (!splitRegChecksKey || regAddr b == mergeKeyRegAddr) && regVerified (.reg b sigOk ops)
  | _ => false

def regBase : Content → Nat
  | .reg b _ _ => b
  | _ => 0

def regOps : Content → List Nat
  | .reg _ _ ops => ops
  | _ => []

/-- the `merge` op reads the record key of the scratchpad of pad owner 0 -/
def mergeKeyOwner : Nat := 0

/-- a scratchpad the split handling considers: `is_valid()` and — with the address check of the `Scratchpad` arm
(`splitPadChecksKey`) — living at the record key being read, i.e. owned by `mergeKeyOwner`; a validly signed pad of
another owner is skipped like an unsigned one -/
def padValid : Content → Bool
  | .pad o _ _ v => v && (!splitPadChecksKey || o == mergeKeyOwner)
  | _ => false

def padCount : Content → Nat
  | .pad _ c _ _ => c
  | _ => 0

/-- keep the first valid scratchpad (of the key being read) with the highest counter (`old.count() >= new.count()` keeps `old`) -/
def padStep (best : Option Content) (c : Content) : Option Content :=
  if padValid c then
    match best with
    | none => some c
    | some old => if padCount c ≤ padCount old then some old else some c
  else best

def bestPad (cs : List Content) : Option Content := cs.foldl padStep none

def mergeSplit (order : List Content) : Option Content :=
  if order.length ≤ 1 then none else
  match order.filterMap kindOf with
  | [] => none
  | k :: _ =>
    let same := order.filter (fun c => kindOf c == some k)
    match k with
    | .chunk => none
    | .paid => none
    | .txn =>
      let u := txUnionH same
      if 1 < u.length then some (.txs u) else none
    | .reg =>
      match same.filter regValid with
      | [] => none
      | r0 :: rest =>
        let mergeable := (r0 :: rest).filter (fun r => regBase r == regBase r0)
        some (.reg (regBase r0) true (mergeable.foldl (fun acc r => unionInto acc (regOps r)) []))
    | .pad => bestPad same

/-- The `Register` arm and the fold over `collected_registers` as they were before the address check: every register
that `verify()`s is collected, whatever its address; the first one visited dictates the base. -/
def mergeRegsUnchecked (same : List Content) : Option Content :=
  match same.filter regVerified with
  | [] => none
  | r0 :: rest =>
    let mergeable := (r0 :: rest).filter (fun r => regBase r == regBase r0)
    some (.reg (regBase r0) true (mergeable.foldl (fun acc r => unionInto acc (regOps r)) []))

/-! ### The result map and the order in which it is visited

A result map is a list of `(content hash, version)` entries in the `HashMap`'s own (arbitrary) iteration order; the
hashes are natural numbers and — being the keys of a map — pairwise distinct. -/

/-- insertion into a list sorted by key -/
def insertByKey (x : Nat × Content) : List (Nat × Content) → List (Nat × Content)
  | [] => [x]
  | y :: ys => if x.1 ≤ y.1 then x :: y :: ys else y :: insertByKey x ys

/-- `versions.sort_by_key(|(content_hash, _)| **content_hash)` -/
def sortByKey (m : List (Nat × Content)) : List (Nat × Content) := m.foldr insertByKey []

/-- the order in which `handle_split_record_error` visits the versions of the result map `m` -/
def visitOrder (m : List (Nat × Content)) : List Content :=
  (if splitVisitsInKeyOrder then sortByKey m else m).map (·.2)

/-- `handle_split_record_error` on a result map -/
def mergeSplitMap (m : List (Nat × Content)) : Option Content := mergeSplit (visitOrder m)

/-! ## `Network::get_record_from_network`: the retry loop around one `GetNetworkRecord` per attempt

One attempt = a fresh `GetNetworkRecord` (the caller is the query's only and first caller), the replies of the
holders and the terminating kad event; what the attempt puts on the caller's channel is computed by `step`. -/

inductive Term where
  | finished | notFound | quorumFailed | timeout
  deriving DecidableEq, Repr

structure Attempt where
  replies : List (Nat × Content)
  term : Term
  deriving Repr

def Term.op : Term → Op
  | .finished => .finished 0
  | .notFound => .notFound 0
  | .quorumFailed => .quorumFailed 0
  | .timeout => .timeout 0

def Attempt.ops (cfg : Cfg) (a : Attempt) : List Op :=
  .get 0 0 cfg :: (a.replies.map (fun r => Op.found 0 r.1 r.2 none) ++ [a.term.op])

/-- what the attempt puts on the caller's oneshot channel -/
def attemptOutcome (cfg : Cfg) (a : Attempt) : Option Outcome :=
  ((run (a.ops cfg)).delivered.find? (fun d => d.1 == 0)).map (·.2)

/-- result of `get_record_from_network` -/
inductive NetOut where
  | ok (c : Content)
  /-- `Err(err.into())` with the last attempt's error -/
  | err (o : Outcome)
  /-- the channel was dropped: `InternalMsgChannelDropped`, no retry -/
  | chan
  deriving DecidableEq, Repr

/-- position of `c` in `ord` (the content-hash order of the versions, a choice witness) -/
def posIn (ord : List Content) (c : Content) : Nat :=
  match ord with
  | [] => 0
  | x :: xs => if x = c then 0 else posIn xs c + 1

/-- the result map of a `SplitRecord` as `handle_split_record_error` sees it: keyed by content hash -/
def hashMapOf (ord : List Content) (m : List (Content × List Nat)) : List (Nat × Content) :=
  m.map (fun e => (posIn ord e.1, e.1))

/-- the attempt the holders answer next (an attempt not listed finds nothing) -/
def firstAttempt (atts : List Attempt) : Attempt := atts.headD { replies := [], term := .notFound }

/-- what `get_record_from_network` does with what it finds on the channel: `inl` = return, `inr` = log and retry -/
def netTryOf (ord : List Content) (o : Outcome) : NetOut ⊕ Outcome :=
  match o with
  | .ok c => .inl (.ok c)
  | .closed => .inl .chan
  | .split m =>
    match mergeSplitMap (hashMapOf ord m) with
    | some r => .inl (.ok r)
    | none => .inr o
  | _ => .inr o

def netTry (ord : List Content) (cfg : Cfg) (atts : List Attempt) : NetOut ⊕ Outcome :=
  netTryOf ord ((attemptOutcome cfg (firstAttempt atts)).getD .closed)

/-- `get_record_from_network`: `retries` = number of back-off intervals left (`RetryStrategy::attempts() - 1`),
`atts` = what the holders do in the successive attempts (an attempt not listed finds nothing). `Ok(record)` of an
attempt is returned as it is; a `SplitRecord` that `handle_split_record_error` merges is returned as `Ok(merged)` —
`does_target_match` is not consulted; every other error is retried while the back-off lasts. -/
def netLoop (ord : List Content) (cfg : Cfg) : Nat → List Attempt → NetOut
  | 0, atts =>
    match netTry ord cfg atts with
    | .inl r => r
    | .inr o => .err o
  | n + 1, atts =>
    match netTry ord cfg atts with
    | .inl r => r
    | .inr _ => netLoop ord cfg n atts.tail

/-- (Free-standing: not used by `step`, `completedOutcome`, `netTry` or `netLoop`, which carry no record metadata; K-d6 rests
on the oracle-only component `quorum-net`.) `does_target_match` on whole `Record`s: a plain target is compared with `target_record == record`, i.e. value, key,
publisher and expiry; `recMeta` = the record handed over (the completing reply's) carries a publisher / an expiry, which
the caller's target never does. The `is_register` comparison looks at the value only. -/
def sendCheckedM (cfg : Cfg) (c : Content) (recMeta : Bool) : Outcome :=
  if recMeta && !cfg.isReg && cfg.target.isSome then (if targetChecked then .mismatch c else .ok c)
  else sendChecked cfg c

end SafeNet.Quorum
