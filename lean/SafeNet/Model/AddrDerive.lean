import SafeNet.Base.Sha3
/-!
How record keys are derived from content / owner (C04: "a chunk under the hash of its bytes, a register under the name
derived from its signed owner and label, a scratchpad or transaction under the name derived from its owner key").
`XorName::from_content` is SHA3-256 (`Base/Sha3`).  Anchors: `Chunk::new` (ant-protocol/src/storage/chunks.rs),
`ScratchpadAddress::xorname`, `TransactionAddress::from_owner` (ant-protocol/src/storage/address/*.rs),
`RegisterAddress::xorname` (ant-registers/src/address.rs), `NetworkAddress::to_record_key` (the 32 name bytes),
`RecordType::NonChunk(XorName::from_content(&record.value))` (content hash of a mutable record).
-/
namespace SafeNet.AddrDerive
open SafeNet.Sha3

/-- `XorName::from_content` -/
def fromContent (bs : List Nat) : List Nat := hashBytes bs

/-- `Chunk::new(value).address().xorname()` -/
def chunkName (value : List Nat) : List Nat := fromContent value
/-- `ScratchpadAddress::new(owner).xorname()`; `owner` = the 48 public-key bytes -/
def scratchpadName (owner : List Nat) : List Nat := fromContent owner
/-- `TransactionAddress::from_owner(owner).xorname()` -/
def transactionName (owner : List Nat) : List Nat := fromContent owner
/-- `RegisterAddress::new(meta, owner).xorname()`: label (32 bytes) followed by the owner key -/
def registerName (label owner : List Nat) : List Nat := fromContent (label ++ owner)
/-- `NetworkAddress::to_record_key()` of a typed address: the name bytes themselves -/
def recordKey (name : List Nat) : List Nat := name

end SafeNet.AddrDerive
