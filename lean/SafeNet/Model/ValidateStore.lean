import SafeNet.Model.Validate
import SafeNet.Model.Store
import SafeNet.Gen.PadSig
/-!
# Put validation over the record store as it is (`Validate ∘ Store`)

The validation model (`SafeNet.Validate`: `skel` / `obsOfAns` / `inst` / `written`) answered by the record-store
model (`SafeNet.Store`) instead of a plain map:

* `RecordStoreHasKey`  = `Store.contains` — the `records` index, which an accepted record enters only when its
  `AddLocalRecordAsStored` is handled;
* `GetLocalRecord`     = `Store.get` — FIFO cache first, then (only for indexed keys) the record file;
* `PutLocalRecord`     = `Store.putVerified` with the record type the handler derives from the record kind
  (table regenerated from `cmd.rs`): cache entry at once, a write task, the index untouched;
* completion of a write task (`run`) and handling of its `AddLocalRecordAsStored` (`ack`) are operations of the
  history, scheduled between validations.

Validations never overlap here: each `deliver` is processed to completion (all its reads, then its put) before
the next operation.  Values in the store model are numbers; `tbl` interns the stored contents (value id = index).

A stored record carries, next to the content the validation looks at (`Content`), what no check looks at: for a
scratchpad the `data_encoding` field (`enc`) — `Scratchpad::is_valid` verifies the owner's signature over
`counter ‖ hash(encrypted_data)` only — and which of two data blobs it holds (`dat`; `Content.pad` abstracts the
data to "the signature over it verifies").
-/
namespace SafeNet.ValidateStore
open SafeNet.Validate

/-- a stored record value: the validated content and the rest of the record (scratchpads: `data_encoding`,
data variant; 0 0 for the other kinds) -/
structure SVal where
  c : Content
  enc : Nat
  dat : Nat
deriving DecidableEq, Repr

/-- the `data_encoding` the owners of the harness universe have in the scratchpads they sign -/
def ownerEnc : Nat := 7

/-- a delivery together with the unchecked part of a delivered scratchpad -/
structure DX where
  d : Delivery
  enc : Nat
  dat : Nat
deriving DecidableEq, Repr

def DX.plain (d : Delivery) : DX := ⟨d, ownerEnc, 0⟩

/-- Signatures are ideal: a delivered scratchpad whose signature verifies (`valid`) is, in every field the validity
check covers, the scratchpad its owner signed.  The owner signed one whose `data_encoding` is `ownerEnc`: if the
check covered that field (`sigCoversEncoding`, regenerated from `Scratchpad::is_valid`), a copy carrying another
value would not verify. -/
def DX.wf (dx : DX) : Bool :=
  match dx.d.content with
  | .pad _ _ true => !Gen.PadSig.sigCoversEncoding || dx.enc == ownerEnc
  | _ => true

/-- the delivered scratchpad (if it is one whose signature verifies) carries the `data_encoding` its owner signed it with -/
def DX.encAsSigned (dx : DX) : Bool :=
  match dx.d.content with
  | .pad _ _ true => dx.enc == ownerEnc
  | _ => true

def idxOf (x : SVal) : List SVal → Nat → Option Nat
  | [], _ => none
  | y :: ys, i => if y = x then some i else idxOf x ys (i + 1)

/-- value id of `x` (byte-equal records get the same id: `put_verified` compares record values) -/
def intern (t : List SVal) (x : SVal) : Nat × List SVal :=
  match idxOf x t 0 with
  | some i => (i, t)
  | none => (t.length, t ++ [x])

structure VS where
  cfg : Store.Cfg
  st : Store.St
  tbl : List SVal
  /-- task ids of the accepted writes, in spawn order: histories name a write by its position here -/
  wids : List Nat
deriving Repr

/-- distance of a key to the node: irrelevant below capacity (no eviction, no range) -/
def dist (k : Nat) : Nat := k

/-- a node store on an empty directory with the shipped constants and the given cache size -/
def fresh (cache : Nat) : VS :=
  let cfg := Store.Cfg.shipped Gen.Store.maxRecordsCount cache
  ⟨cfg, Store.init cfg dist, [], []⟩

def valAt (vs : VS) (v : Nat) : Option SVal := vs.tbl[v]?

/-- what `GetLocalRecord` returns -/
def viewS (vs : VS) (k : Nat) : Option SVal :=
  match Store.get vs.cfg vs.st k with
  | some (.whole v) => valAt vs v
  | _ => none

def view (vs : VS) (k : Nat) : Option Content := (viewS vs k).map (·.c)

/-- what `RecordStoreHasKey` returns -/
def has (vs : VS) (k : Nat) : Bool := Store.contains vs.st k

/-- the answers one validation gets when it runs to completion with nothing else in between -/
def ansOf (vs : VS) (d : Delivery) : Ans :=
  ⟨[has vs (rwKey d), has vs (rwKey d)], some (view vs (rwKey d))⟩

/-- wire tag of the record kind a content is stored under -/
def wireTag : Content → Nat
  | .chunk => 1
  | .txs _ => 2
  | .reg .. => 3
  | .pad .. => 5

/-- the record type `PutLocalRecord`'s handler derives (`none`: it refuses the record) -/
def rtOf (v : Nat) (c : Content) : Option Store.RType :=
  match (Gen.Store.localPutTable.lookup (wireTag c)).join with
  | some 0 => some .chunk
  | some 1 => some .scratchpad
  | some 2 => some (.nonChunk (.whole v))
  | _ => none

/-- `task n`: a write task was spawned, the `n`-th (from 0) of the history -/
inductive PutOut
  | task (n : Nat) | dedup | max | refused
deriving DecidableEq, Repr

/-- `PutLocalRecord` -/
def putRec (vs : VS) (k : Nat) (x : SVal) : VS × PutOut :=
  let iv := intern vs.tbl x
  match rtOf iv.1 x.c with
  | none => (vs, .refused)
  | some rt =>
    let r := Store.putVerified vs.cfg dist vs.st k iv.1 rt
    match r.2 with
    | .ok => ({ vs with st := r.1, tbl := iv.2, wids := vs.wids ++ [r.1.nextId - 1] }, .task vs.wids.length)
    | .dedup => ({ vs with st := r.1, tbl := iv.2 }, .dedup)
    | .maxRecords => ({ vs with st := r.1, tbl := iv.2 }, .max)

def svalOf (dx : DX) (c : Content) : SVal :=
  match c with
  | .pad .. => ⟨c, dx.enc, dx.dat⟩
  | _ => ⟨c, 0, 0⟩

def applyToksS (vs : VS) (dx : DX) : List Tok → VS × List PutOut
  | [] => (vs, [])
  | .W k c :: rest =>
    let r := putRec vs k (svalOf dx c)
    let r2 := applyToksS r.1 dx rest
    (r2.1, r.2 :: r2.2)
  | _ :: rest => applyToksS vs dx rest

/-- result class and command trace of one validation answered by the store as it is -/
def validateS (vs : VS) (d : Delivery) : Res × List Tok :=
  let a := ansOf vs d
  let o := skel (route d.client d.kind) (obsOfAns d a)
  (o.res, o.trace.map (inst d a))

def deliver (vs : VS) (dx : DX) : VS := (applyToksS vs dx (validateS vs dx.d).2).1

inductive Op
  | deliver (dx : DX)
  /-- the `n`-th write task (from 0, in spawn order) completes: the record file is written,
  `AddLocalRecordAsStored` is sent -/
  | run (n : Nat)
  /-- the `AddLocalRecordAsStored` sent by the `n`-th write task is handled -/
  | ack (n : Nat)
deriving DecidableEq, Repr

def step (vs : VS) : Op → VS
  | .deliver dx => deliver vs dx
  | .run n =>
    match vs.wids[n]? with
    | some id => { vs with st := (Store.runTask vs.st id).1 }
    | none => vs
  | .ack n =>
    match vs.wids[n]? with
    | some id => { vs with st := (Store.deliver dist vs.st id).1 }
    | none => vs

def runOps (vs : VS) (ops : List Op) : VS := ops.foldl step vs

/-- the deliveries of a history, in order -/
def deliveriesOf : List Op → List Delivery
  | [] => []
  | .deliver dx :: rest => dx.d :: deliveriesOf rest
  | _ :: rest => deliveriesOf rest

/-- nothing is in flight at all -/
def settled (vs : VS) : Bool := vs.st.tasks.all (fun t => (Store.taskKey t.2).isNone) && vs.st.notes.isEmpty

end SafeNet.ValidateStore
