import SafeNet.Model.Store
/-!
# The disk-write ERROR path of `put_verified` and same-key completion orders (extension of `Model/Store`)

`record_store.rs`, inside the task `put_verified` spawns:

```
if let Some(bytes) = Self::prepare_record_bytes(r, encryption_details) {      // None: nothing is sent at all
    let cmd = match fs::write(&file_path, bytes) {
        Ok(_)  => LocalSwarmCmd::AddLocalRecordAsStored { key, record_type },
        Err(_) => LocalSwarmCmd::RemoveFailedLocalRecord { key },
    };
    send_local_swarm_cmd(cloned_cmd_sender, cmd);
}
```
and `cmd.rs`: `RemoveFailedLocalRecord { key } => store_mut().remove(&key)` (plus a counter of disk errors in a row).

`Model/Store.runTask` has only the `Ok` arm. This file adds, without touching the definitions other models import:

* `Fault` — how a write fails, with the file state MEASURED on the real code (harness op `runfail`):
  `openFail` (`fs::write`'s open fails — the process is out of descriptors: nothing is created or truncated, a previous
  complete file stays), `full b` (the open truncates, `b` bytes reach the file, the rest fails — a full disk / quota: the
  file is the `b`-byte prefix of the new ciphertext, a previous complete version is destroyed), `encryptFail`
  (`prepare_record_bytes` returns `None`: no file access and NO command);
* `FSt` — the store state plus which of the pending notifications are `RemoveFailedLocalRecord` commands. There is one
  local command channel: both kinds sit in `St.notes` in arrival order, `failed` lists the ids that are failures (the
  record type stored with such a note is not used);
* `fstep` — every `Op` of the base model (delivery of a failure note = the `RemoveFailedLocalRecord` handler =
  `RecordStore::remove`), plus `runFail id f`.

Second part: `runTaskAny` — a spawned task runs although an OLDER task of the same key is still pending
(`RelaxedOp.runAny`). `legalRun` (per-key FIFO) is what every theorem of C01/C02/C10 assumes about tokio; the shipped
multi-thread runtime does not guarantee it (a task spawned from a worker goes into the worker's LIFO slot: of two tasks
spawned back to back the second runs first). `lifoOrder` is that order for the tasks spawned by one burst of calls.
-/
namespace SafeNet.Store

inductive Fault where
  | openFail
  | full (b : Nat)
  | encryptFail
  deriving DecidableEq, Repr

structure FSt where
  s : St
  /-- ids of the notes in `s.notes` that are `RemoveFailedLocalRecord` commands -/
  failed : List Nat
  deriving Repr

inductive FRunRes where
  | ranAdd      -- the fault did not bite (`full b` with `b` at least the file length): the write succeeded
  | ranFail     -- `RemoveFailedLocalRecord` sent
  | ranSilent   -- nothing sent (`prepare_record_bytes` gave `None`)
  | illegal | noTask
  deriving DecidableEq, Repr

/-- the spawned write task `id` runs with fault `f` in force -/
def runFail (cfg : Cfg) (fs : FSt) (id : Nat) (f : Fault) : FSt × FRunRes :=
  match lookup id fs.s.tasks with
  | none => (fs, .noTask)
  | some (.write k v rt) =>
    if legalRun fs.s.tasks id (.write k v rt) then
      let s' := { fs.s with tasks := erase id fs.s.tasks }
      match f with
      | .encryptFail => ({ fs with s := s' }, .ranSilent)
      | .openFail =>
        ({ s := { s' with notes := s'.notes ++ [(id, ⟨k, rt⟩)] }, failed := fs.failed ++ [id] }, .ranFail)
      | .full b =>
        if b < fileLen cfg.encrypt (.full v) then
          ({ s := { s' with disk := insert k (.torn v b) s'.disk, notes := s'.notes ++ [(id, ⟨k, rt⟩)] },
             failed := fs.failed ++ [id] }, .ranFail)
        else ({ fs with s := (runTask fs.s id).1 }, .ranAdd)
    else (fs, .illegal)
  | some _ => (fs, .illegal)

/-- `handle_local_cmd` on the next notification `id`: `AddLocalRecordAsStored` ⇒ `mark_as_stored`,
`RemoveFailedLocalRecord` ⇒ `RecordStore::remove` (index, distance index, cache entry, farthest; spawns the file delete) -/
def fdeliver (dist : Nat → Nat) (fs : FSt) (id : Nat) : FSt × DeliverRes :=
  if id ∈ fs.failed then
    match lookup id fs.s.notes with
    | none => (fs, .noNote)
    | some n =>
      if legalDeliver fs.s.notes id n then
        ({ s := removeKey dist { fs.s with notes := erase id fs.s.notes } n.k, failed := fs.failed.erase id }, .ok)
      else (fs, .illegal)
  else
    let r := deliver dist fs.s id
    ({ fs with s := r.1 }, r.2)

inductive FOp where
  | base (op : Op)
  | runFail (id : Nat) (f : Fault)
  deriving DecidableEq, Repr

inductive FOut where
  | base (o : Out)
  | run (r : FRunRes)
  deriving DecidableEq, Repr

def fstep (cfg : Cfg) (dist : Nat → Nat) (fs : FSt) : FOp → FSt × FOut
  | .runFail id f => let r := runFail cfg fs id f; (r.1, .run r.2)
  | .base op =>
    match op with
    | .deliver id => let r := fdeliver dist fs id; (r.1, .base (.deliver r.2))
    | .crash torn =>
      -- the node stops: nothing pending survives, failure notes included
      let r := step cfg dist fs.s (.crash torn)
      (if r.2 = .ok then { s := r.1, failed := [] } else fs, .base r.2)
    | op => let r := step cfg dist fs.s op; ({ fs with s := r.1 }, .base r.2)

def frunFrom (cfg : Cfg) (dist : Nat → Nat) (fs : FSt) : List FOp → FSt
  | [] => fs
  | op :: ops => frunFrom cfg dist (fstep cfg dist fs op).1 ops

def finit (cfg : Cfg) (dist : Nat → Nat) : FSt := { s := init cfg dist, failed := [] }

def frun (cfg : Cfg) (dist : Nat → Nat) (ops : List FOp) : FSt := frunFrom cfg dist (finit cfg dist) ops

/-! ## same-key completion orders -/

/-- `runTask` without the per-key FIFO test: the task runs whatever else is pending -/
def runTaskAny (s : St) (id : Nat) : St × RunRes :=
  match lookup id s.tasks with
  | none => (s, .noTask)
  | some t =>
    let s' := { s with tasks := erase id s.tasks }
    match t with
    | .write k v rt =>
      ({ s' with disk := insert k (.full v) s'.disk, notes := s'.notes ++ [(id, ⟨k, rt⟩)] }, .ranAdd)
    | .delete k => ({ s' with disk := erase k s'.disk }, .ran)
    | .flush n => ({ s' with hist := some n }, .ran)

/-- histories under the RELAXED legality: everything of the base model, plus `runAny` -/
inductive RelaxedOp where
  | base (op : Op)
  | runAny (id : Nat)
  deriving DecidableEq, Repr

def rstep (cfg : Cfg) (dist : Nat → Nat) (s : St) : RelaxedOp → St
  | .base op => (step cfg dist s op).1
  | .runAny id => (runTaskAny s id).1

def rrunFrom (cfg : Cfg) (dist : Nat → Nat) (s : St) : List RelaxedOp → St
  | [] => s
  | op :: ops => rrunFrom cfg dist (rstep cfg dist s op) ops

def rrun (cfg : Cfg) (dist : Nat → Nat) (ops : List RelaxedOp) : St := rrunFrom cfg dist (init cfg dist) ops

/-- The order in which a tokio multi-thread worker runs the tasks `ids` (in spawn order) that the task it is running
spawned back to back: each spawn takes the worker's LIFO slot and pushes the previous occupant to the back of the local
queue — the LAST spawned runs first, then the others in spawn order. -/
def lifoOrder (ids : List Nat) : List Nat :=
  match ids.getLast? with
  | none => []
  | some l => l :: ids.dropLast

/-- ids of the tasks pending in `s'` that were not pending in `s` (spawn order) -/
def spawnedIds (s s' : St) : List Nat := (s'.tasks.map (·.1)).filter (fun i => s.nextId ≤ i)

end SafeNet.Store
