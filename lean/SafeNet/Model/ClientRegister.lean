import SafeNet.Model.Register
import SafeNet.Model.MerkleReg
/-!
Model of the client-side register of `autonomi/src/client/registers.rs`: `Register { signed_reg, crdt_reg }`,
`Register::new`, `Register::write_atop` (the only production caller of `SignedRegister::add_op`), `values()`
(reads the CRDT half) and the construction `register_get` performs after a fetch (every op of the verified
signed register applied to a fresh CRDT). Whether `write_atop` propagates `add_op`'s refusal is regenerated
from the source (`Gen.Register.clientWritePropagates`).
-/
namespace SafeNet.ClientRegister
open SafeNet.Register SafeNet.MerkleReg SafeNet.Gen.Register

/-- the CRDT node a register op carries (`RegisterOp::crdt_op`) -/
def opNode (op : Op) : Node := { hash := op.node, children := op.children }

structure CReg where
  signed : SReg
  crdt : MReg
deriving Repr

/-- `BaseRegister::new(owner, name, permissions)`: the owner is added to a restricted writer set -/
def newBase (addr owner : Nat) (p : Perms) : Base :=
  { addr := addr, owner := owner, perms := match p with | .anyone => .anyone | .writers ws => .writers (owner :: ws) }

/-- `Register::new` before the optional initial write: owner-signed base, no ops, empty CRDT -/
def CReg.empty (b : Base) : CReg := { signed := { base := b, ownerSigOk := true, ops := [] }, crdt := {} }

/-- the op `write_atop` builds: a new node atop everything `crdt_reg.read()` returns, for this register,
signed by the key handed in -/
def mkOp (c : CReg) (id size key : Nat) : Op :=
  { addr := c.signed.base.addr, node := id, children := read c.crdt, size := size, source := key, sig := 0, sigOk := true }

/-- `write_atop` on an op. `propagates = true` (repaired shape): the entry reaches the CRDT half only when
`add_op` accepted the op, a refusal is returned and changes nothing. `propagates = false` (old shape): the entry
is applied to the CRDT half in place, `add_op`'s result is dropped (`let _ =`) and `Ok(())` is returned. -/
def writeOpWith (propagates : Bool) (c : CReg) (op : Op) : CReg × Except Err Unit :=
  match addOp c.signed op with
  | .ok s' => ({ signed := s', crdt := apply c.crdt (opNode op) }, .ok ())
  | .error e =>
    if propagates then (c, .error e)
    else ({ c with crdt := apply c.crdt (opNode op) }, .ok ())

/-- `Register::write_atop(entry, key)` as the code stands -/
def writeAtop (c : CReg) (id size key : Nat) : CReg × Except Err Unit :=
  writeOpWith clientWritePropagates c (mkOp c id size key)

/-- `register_get`: the fetched (verified) signed register with every op applied to a fresh CRDT -/
def ofSigned (s : SReg) : CReg := { signed := s, crdt := (s.ops.map opNode).foldl apply {} }

end SafeNet.ClientRegister
