import SafeNet.Model.Parsers
import SafeNet.Model.Amount
/-!
Models of the parsing routines added by the C17 coverage audit (round 2): text of other programs
(`get_bin_version`), the environment (`parse_environment_variables`, `get_logging_targets`, `ANT_PEERS`,
the custom EVM network variables / CSV file, the register signing key), config and user-data files
(the launchpad's key bindings and styles, ant-cli's local user data, wallet export), HTTP responses
(`try_parse_response`), log files (`get_metric_servers`), paths (`get_relative_file_path_…`).

Same conventions as `SafeNet.Model.Parsers`: strings are lists of byte values, every model returns
`Res ε α = ok v | err e | panic p`, third-party functions (UTF-8 validation, the multiaddr / URL /
address / BLS key / serde / rmp_serde parsers, `std::path`'s component parser, regex matching) are
parameters whose verdict the harness supplies per case.  Constants, tables, slice offsets and the
checked-ness flags come from `SafeNet.Gen.Parsers` (re-read from the Rust source on every run).
-/
namespace SafeNet.Parsers
open SafeNet.Panic SafeNet.Gen.Parsers

/-! ### byte-string helpers (what `str` offers, on UTF-8 bytes) -/

/-- UTF-8 continuation byte -/
def isCont (b : Nat) : Bool := 128 ≤ b && b < 192

/-- `str::is_char_boundary(i)` for `i ≤ len` -/
def isBoundary (s : Bytes) (i : Nat) : Bool :=
  match s[i]? with
  | none => i == s.length
  | some b => !isCont b

/-- `&s[i..]` on a `str`: panics past the end or inside a character. -/
def strSliceFrom (s : Bytes) (i : Nat) : Except Panic Bytes :=
  if i ≤ s.length && isBoundary s i then .ok (s.drop i) else .error .sliceIndex

/-- `str::split_at(i)` -/
def strSplitAt (s : Bytes) (i : Nat) : Except Panic (Bytes × Bytes) :=
  if i ≤ s.length && isBoundary s i then .ok (s.take i, s.drop i) else .error .sliceIndex

/-- byte index of the first occurrence of `c` -/
def findByte (c : Nat) : Bytes → Option Nat
  | [] => none
  | b :: rest => if b = c then some 0 else (findByte c rest).map (· + 1)

/-- `str::find(pat)` (byte index of the first match) for a non-empty pattern -/
def findSub (pat : Bytes) : Bytes → Option Nat
  | [] => if pat.isEmpty then some 0 else none
  | b :: rest => if isPrefix pat (b :: rest) then some 0 else (findSub pat rest).map (· + 1)

def containsSub (pat s : Bytes) : Bool := (findSub pat s).isSome

/-- `str::replace(pat, rep)` for a non-empty pattern: non-overlapping matches, left to right. -/
def replaceAllFuel (pat rep : Bytes) : Nat → Bytes → Bytes
  | 0, s => s
  | _, [] => []
  | fuel + 1, c :: cs =>
    if isPrefix pat (c :: cs) then rep ++ replaceAllFuel pat rep fuel ((c :: cs).drop pat.length)
    else c :: replaceAllFuel pat rep fuel cs

def replaceAll (pat rep s : Bytes) : Bytes := replaceAllFuel pat rep (s.length + 1) s

/-- `str::trim_start_matches(pat)`: strip the prefix as often as it matches (non-empty pattern). -/
def trimStartMatchesFuel (pat : Bytes) : Nat → Bytes → Bytes
  | 0, s => s
  | fuel + 1, s => if !pat.isEmpty && isPrefix pat s then trimStartMatchesFuel pat fuel (s.drop pat.length) else s

def trimStartMatches (pat s : Bytes) : Bytes := trimStartMatchesFuel pat (s.length + 1) s

def asciiLower (b : Nat) : Nat := if 65 ≤ b && b ≤ 90 then b + 32 else b
def asciiUpper (b : Nat) : Nat := if 97 ≤ b && b ≤ 122 then b - 32 else b

/-- Length in bytes of the Unicode `White_Space` character at the head of `s` (0 if there is none):
U+0009–000D, 0020, 0085, 00A0, 1680, 2000–200A, 2028, 2029, 202F, 205F, 3000. -/
def wsLen : Bytes → Nat
  | b :: rest =>
    if (9 ≤ b && b ≤ 13) || b = 32 then 1
    else match b, rest with
      | 0xC2, c :: _ => if c = 0x85 || c = 0xA0 then 2 else 0
      | 0xE1, 0x9A :: 0x80 :: _ => 3
      | 0xE2, 0x80 :: c :: _ => if (0x80 ≤ c && c ≤ 0x8A) || c = 0xA8 || c = 0xA9 || c = 0xAF then 3 else 0
      | 0xE2, 0x81 :: 0x9F :: _ => 3
      | 0xE3, 0x80 :: 0x80 :: _ => 3
      | _, _ => 0
  | [] => 0

/-- `str::split_whitespace()`: the maximal runs of non-whitespace. -/
def splitWsGo : Nat → Bytes → Bytes → List Bytes
  | _, cur, [] => if cur.isEmpty then [] else [cur.reverse]
  | skip + 1, cur, _ :: rest => splitWsGo skip cur rest
  | 0, cur, b :: rest =>
    if wsLen (b :: rest) > 0 then
      (if cur.isEmpty then [] else [cur.reverse]) ++ splitWsGo (wsLen (b :: rest) - 1) [] rest
    else splitWsGo 0 (b :: cur) rest

def splitWs (s : Bytes) : List Bytes := splitWsGo 0 [] s

/-- `str::trim_start()` -/
def trimStartFuel : Nat → Bytes → Bytes
  | 0, s => s
  | fuel + 1, s => if wsLen s > 0 then trimStartFuel fuel (s.drop (wsLen s)) else s

def trimStart (s : Bytes) : Bytes := trimStartFuel s.length s

/-- does `s` end with a whitespace character, and how long is it? (whitespace characters are 1–3 bytes) -/
def wsLenEnd (s : Bytes) : Nat :=
  let n := s.length
  if n ≥ 1 ∧ wsLen (s.drop (n - 1)) = 1 then 1
  else if n ≥ 2 ∧ wsLen (s.drop (n - 2)) = 2 then 2
  else if n ≥ 3 ∧ wsLen (s.drop (n - 3)) = 3 then 3
  else 0

def trimEndFuel : Nat → Bytes → Bytes
  | 0, s => s
  | fuel + 1, s => if wsLenEnd s > 0 then trimEndFuel fuel (s.take (s.length - wsLenEnd s)) else s

def trimEnd (s : Bytes) : Bytes := trimEndFuel s.length s

/-- `str::splitn(n, c)` (ASCII `c`): at most `n` parts, the last one holding the rest. -/
def splitN : Nat → Nat → Bytes → List Bytes
  | 0, _, _ => []
  | 1, _, s => [s]
  | n + 2, c, s =>
    match findByte c s with
    | none => [s]
    | some i => s.take i :: splitN (n + 1) c (s.drop (i + 1))

/-- `str::split(pat)` for a non-empty pattern. -/
def splitOnSubFuel (pat : Bytes) : Nat → Bytes → Bytes → List Bytes
  | 0, cur, s => [cur.reverse ++ s]
  | _, cur, [] => [cur.reverse]
  | fuel + 1, cur, c :: cs =>
    if !pat.isEmpty && isPrefix pat (c :: cs) then cur.reverse :: splitOnSubFuel pat fuel [] ((c :: cs).drop pat.length)
    else splitOnSubFuel pat fuel (c :: cur) cs

def splitOnSub (pat s : Bytes) : List Bytes := splitOnSubFuel pat (s.length + 1) [] s

/-- `str::strip_prefix(c)` / `strip_suffix(c)` for one ASCII char -/
def stripPrefixByte (c : Nat) : Bytes → Option Bytes
  | b :: rest => if b = c then some rest else none
  | [] => none

def stripSuffixByte (c : Nat) (s : Bytes) : Option Bytes :=
  match s.getLast? with
  | some b => if b = c then some s.dropLast else none
  | none => none

/-! ### `get_bin_version` (ant-node-manager/src/helpers.rs) -/

/-- `str::lines().next()`: nothing for the empty string; the text up to the first `\n`, minus a `\r`
right before that `\n`. -/
def firstLine (s : Bytes) : Option Bytes :=
  if s.isEmpty then none else
  match findByte 10 s with
  | none => some s
  | some i =>
    let l := s.take i
    match stripSuffixByte 13 l with
    | some l' => some l'
    | none => some l

/-- `get_bin_version` on the bytes the program printed: `utf8` is `read_to_string`'s verdict. -/
def binVersion (out : Bytes) (utf8 : Bool) : Res Unit Bytes :=
  if !utf8 then .err () else
  match firstLine out with
  | none => .err ()
  | some line =>
    match findByte versionFindChar line with
    | some p =>
      match strSliceFrom line (p + versionSliceSkip) with
      | .error e => .panic e
      | .ok rest =>
        match (splitWs rest).head? with
        | some v => .ok v
        | none => .err ()
    | none =>
      match (splitWs line).getLast? with
      | some v => .ok v
      | none => .err ()

/-! ### `parse_environment_variables` (antctl `--env`) -/

def parseEnvVar (s : Bytes) : Res Unit (Bytes × Bytes) :=
  let parts := splitN envSplitN envSplitChar s
  if envPartsReject.1.holds parts.length envPartsReject.2 then .err () else
  match parts[envPartIndexes.getD 0 0]?, parts[envPartIndexes.getD 1 1]? with
  | some k, some v => .ok (k, v)
  | _, _ => .panic .sliceIndex

/-! ### `get_logging_targets` (ant-logging: `ANT_LOG`, the node RPC's log-level text) -/

/-- one comma-separated item: a keyword, or `target[=level[=ignored…]]`; value: (target, level) -/
def logItem (item : Bytes) : Res Unit (Option (Bytes × Bytes)) :=
  if logKeywords.any (fun k => k == item) then .ok none else
  let parts := splitOn logLevelSplitChar item
  let name := parts.headD []
  let level := match parts with
    | _ :: l :: _ => l
    | _ => logDefaultLevel
  match logLevelNames.find? (fun n => n == level.map asciiLower) with
  | some n => .ok (some (name, n))
  | none => .err ()

def logItems : List Bytes → Res Unit (List (Bytes × Bytes))
  | [] => .ok []
  | i :: rest =>
    match logItem i with
    | .panic p => .panic p
    | .err e => .err e
    | .ok t =>
      match logItems rest with
      | .panic p => .panic p
      | .err e => .err e
      | .ok ts => .ok (t.toList ++ ts)

def loggingTargets (s : Bytes) : Res Unit (List (Bytes × Bytes)) := logItems (splitOn logItemSplitChar s)

/-! ### the launchpad's key bindings (`parse_key_sequence`, `parse_key_event`) -/

/-- a parsed key: canonical key code (`esc`, `f5`, `c113`, …) and modifier bits (SHIFT 1, CONTROL 2, ALT 4) -/
abbrev Key := String × Nat

/-- `extract_modifiers`: strip known prefixes as long as one matches; the slice after `starts_with` uses the
offset written in the source. -/
def extractModifiersFuel : Nat → Bytes → Nat → Except Panic (Bytes × Nat)
  | 0, s, m => .ok (s, m)
  | fuel + 1, s, m =>
    match keyModPrefixes.find? (fun p => isPrefix p.1 s) with
    | none => .ok (s, m)
    | some (_, off, bit) =>
      match strSliceFrom s off with
      | .error e => .error e
      | .ok rest => extractModifiersFuel fuel rest (m ||| bit)

def extractModifiers (s : Bytes) : Except Panic (Bytes × Nat) := extractModifiersFuel (s.length + 1) s 0

/-- `parse_key_code_with_modifiers` -/
def parseKeyCode (raw : Bytes) (mods : Nat) : Res Unit Key :=
  match keyTable.find? (fun e => e.1 == raw) with
  | some (_, code, addsShift) => .ok (code, if addsShift then mods ||| 1 else mods)
  | none =>
    match raw with
    | [c] =>
      if !keyCharUnwrapGuarded then .panic .unwrap else
      .ok (s!"c{if mods &&& 1 = 1 then asciiUpper c else c}", mods)
    | _ => .err ()

/-- `parse_key_event`: ASCII lower-case, modifiers, key code. -/
def parseKeyEvent (raw : Bytes) : Res Unit Key :=
  match extractModifiers (raw.map asciiLower) with
  | .error e => .panic e
  | .ok (rest, mods) => parseKeyCode rest mods

def parseKeyEvents : List Bytes → Res Unit (List Key)
  | [] => .ok []
  | s :: rest =>
    match parseKeyEvent s with
    | .panic p => .panic p
    | .err e => .err e
    | .ok k =>
      match parseKeyEvents rest with
      | .panic p => .panic p
      | .err e => .err e
      | .ok ks => .ok (k :: ks)

/-- `parse_key_sequence` -/
def parseKeySequence (raw : Bytes) : Res Unit (List Key) :=
  if (raw.filter (· == 62)).length ≠ (raw.filter (· == 60)).length then .err () else
  let raw1 :=
    if !containsSub [62, 60] raw then
      let a := (stripPrefixByte 60 raw).getD raw
      (stripPrefixByte 62 a).getD a
    else raw
  let seqs := (splitOnSub [62, 60] raw1).map fun seq =>
    match stripPrefixByte 60 seq with
    | some s => s
    | none =>
      match stripSuffixByte 62 seq with
      | some s => s
      | none => seq
  parseKeyEvents seqs

/-! ### the launchpad's styles (`parse_style`, `process_color_string`, `parse_color`) -/

/-- the string literals of the three routines, as UTF-8 bytes -/
def sBrightColor : Bytes := [98, 114, 105, 103, 104, 116, 32, 99, 111, 108, 111, 114]  -- "bright color"
def sColor : Bytes := [99, 111, 108, 111, 114]  -- "color"
def sBright : Bytes := [98, 114, 105, 103, 104, 116, 32]  -- "bright "
def sGray : Bytes := [103, 114, 97, 121]  -- "gray"
def sGrey : Bytes := [103, 114, 101, 121]  -- "grey"
def sRgb : Bytes := [114, 103, 98]  -- "rgb"
def sInverseSp : Bytes := [105, 110, 118, 101, 114, 115, 101, 32]  -- "inverse "
def sUnderlineSp : Bytes := [117, 110, 100, 101, 114, 108, 105, 110, 101, 32]  -- "underline "
def sBoldSp : Bytes := [98, 111, 108, 100, 32]  -- "bold "
def sUnderline : Bytes := [117, 110, 100, 101, 114, 108, 105, 110, 101]  -- "underline"
def sBold : Bytes := [98, 111, 108, 100]  -- "bold"
def sInverse : Bytes := [105, 110, 118, 101, 114, 115, 101]  -- "inverse"
def sOn : Bytes := [111, 110, 32]  -- "on "


/-- `(b as char).to_digit(10)` for a byte, or 0 -/
def digitOrZero (b : Nat) : Nat := if isDigit b then b - 48 else 0

/-- `<u8>::from_str(..).unwrap_or_default()` -/
def u8OrZero (s : Bytes) : Nat := (uFromStr 8 s).getD 0

/-- the digit of an `rgbRGB` colour at byte index `i`: `get(i)` (missing = 0) or plain indexing -/
def rgbDigit (s : Bytes) (i : Nat) : Except Panic Nat :=
  match s[i]? with
  | some b => .ok (digitOrZero b)
  | none => if rgbIndexChecked then .ok 0 else .error .sliceIndex

/-- `16 + red * 36 + green * 6 + blue` in `u8`: `None` on overflow when checked, a panic otherwise -/
def rgbIndex (r g b : Nat) : Except Panic (Option Nat) :=
  if rgbArithChecked then
    .ok (match checkedAdd 8 16 (r * 36) with
      | some x => if r * 36 < 256 then
          (match checkedAdd 8 x (g * 6) with
            | some y => if g * 6 < 256 then checkedAdd 8 y b else none
            | none => none)
        else none
      | none => none)
  else
    match umul 8 r 36 with
    | .error e => .error e
    | .ok rr =>
      match uadd 8 16 rr with
      | .error e => .error e
      | .ok x =>
        match umul 8 g 6 with
        | .error e => .error e
        | .ok gg =>
          match uadd 8 x gg with
          | .error e => .error e
          | .ok y =>
            match uadd 8 y b with
            | .error e => .error e
            | .ok z => .ok (some z)

/-- `parse_color`: value = the indexed colour, if any -/
def parseColor (s0 : Bytes) : Except Panic (Option Nat) :=
  let s := trimEnd (trimStart s0)
  if containsSub sBrightColor s then
    .ok (some (u8OrZero (trimStartMatches sColor (trimStartMatches sBright s))))
  else if containsSub sColor s then
    .ok (some (u8OrZero (trimStartMatches sColor s)))
  else if containsSub sGray s then
    let n := u8OrZero (trimStartMatches sGray s)
    if grayAddChecked then .ok (checkedAdd 8 grayBase n)
    else match uadd 8 grayBase n with
      | .error e => .error e
      | .ok c => .ok (some c)
  else if containsSub sRgb s then
    match rgbDigit s 3, rgbDigit s 4, rgbDigit s 5 with
    | .ok r, .ok g, .ok b => rgbIndex r g b
    | .error e, _, _ => .error e
    | _, .error e, _ => .error e
    | _, _, .error e => .error e
  else .ok ((namedColors.find? (fun c => c.1 == s)).map (·.2))

/-- `process_color_string`: (cleaned colour text, modifier bits BOLD 1, UNDERLINED 8, REVERSED 64) -/
def processColorString (s : Bytes) : Bytes × Nat :=
  let color := replaceAll sInverseSp [] (replaceAll sUnderlineSp []
    (replaceAll sBoldSp [] (replaceAll sBright [] (replaceAll sGrey sGray s))))
  let m := (if containsSub sUnderline s then 8 else 0) |||
    (if containsSub sBold s then 1 else 0) ||| (if containsSub sInverse s then 64 else 0)
  (color, m)

/-- `parse_style`: (foreground, background, modifier bits) -/
def parseStyle (line : Bytes) : Res Unit (Option Nat × Option Nat × Nat) :=
  let idx := (findSub sOn (line.map asciiLower)).getD line.length
  match strSplitAt line idx with
  | .error e => .panic e
  | .ok (fgs, bgs) =>
    let fg := processColorString fgs
    let bg := processColorString (replaceAll sOn [] bgs)
    match parseColor fg.1, parseColor bg.1 with
    | .ok f, .ok b => .ok (f, b, fg.2 ||| bg.2)
    | .error e, _ => .panic e
    | _, .error e => .panic e

def parseStyles : List Bytes → Res Unit Unit
  | [] => .ok ()
  | s :: rest =>
    match parseStyle s with
    | .panic p => .panic p
    | .err e => .err e
    | .ok _ => parseStyles rest

/-- `KeyBindings::deserialize` on the key strings of the file: every one must parse -/
def keyBindingsOf : List Bytes → Res Unit Unit
  | [] => .ok ()
  | k :: rest =>
    match parseKeySequence k with
    | .panic p => .panic p
    | .err _ => if keyBindingsChecked then .err () else .panic .unwrap
    | .ok _ => keyBindingsOf rest

/-- `Config::new()`: `parsed` is what the `config` crate hands to the two deserialisers (abstract):
the key-binding strings and the style strings. -/
def launchpadConfig (parsed : Option (List Bytes × List Bytes)) : Res Unit Unit :=
  match parsed with
  | none => .err ()
  | some (keys, styles) =>
    match keyBindingsOf keys with
    | .panic p => .panic p
    | .err e => .err e
    | .ok _ => parseStyles styles

/-- `AppData::load`: a missing file is the default; otherwise UTF-8 + serde_json (abstract). -/
def appDataLoad (exists_ : Bool) (parsedOk : Bool) : Res Unit Unit :=
  if !exists_ then .ok () else if parsedOk then .ok () else .err ()

/-! ### `ANT_PEERS`, network contacts (ant-bootstrap) -/

def protoTag : Proto → String
  | .ip4 => "ip4" | .udp => "udp" | .tcp => "tcp" | .quic => "quic" | .ws => "ws" | .p2p => "p2p" | .other => "other"

/-- the crafted address of one item, as the tags of the protocols kept -/
def craftTags (parsed : Option (List Proto)) (ignorePeerId : Bool) : Option (List String) :=
  match parsed with
  | none => none
  | some ps => (craft ps ignorePeerId).map fun idx => idx.map fun i => protoTag (ps.getD i .other)

/-- `read_bootstrap_addr_from_env`: `items` = the multiaddr parser's verdict for every comma-separated
item of the variable (`none` for the whole list when the variable is not valid Unicode). -/
def antPeers (items : Option (List (Option (List Proto)))) : List (List String) :=
  match items with
  | none => []
  | some is => is.filterMap fun p => craftTags p false

/-- `try_parse_response`: the body is either a cache JSON (`json vm peers`: network version matches,
per peer the (success, failure) counters of its addresses) or plain text (per line the parser's verdict). -/
inductive ContactsBody
  | json (versionMatches : Bool) (peers : List (List (Nat × Nat)))
  | lines (ls : List (Option (List Proto)))

def countLeastFaulty : List (List (Nat × Nat)) → Res Unit Nat
  | [] => .ok 0
  | p :: rest =>
    match leastFaulty p with
    | .panic e => .panic e
    | .err e => .err e
    | .ok r =>
      match countLeastFaulty rest with
      | .panic e => .panic e
      | .err e => .err e
      | .ok n => .ok (if r.isSome then n + 1 else n)

def contactsParse (body : ContactsBody) (ignorePeerId : Bool) : Res Unit Nat :=
  match body with
  | .json vm peers => if !vm then .ok 0 else countLeastFaulty peers
  | .lines ls => .ok (ls.filter fun p => (craftFromStr p ignorePeerId).isSome).length

/-! ### the custom EVM network (evmlib) -/

/-- building a `CustomNetwork` from three texts whose validity (URL, address, address) is third-party:
`checked` = through `try_new` (an error), otherwise through `new` (an `expect`). -/
def customNetwork (checked : Bool) (urlOk tokOk payOk : Bool) : Res Unit Unit :=
  if urlOk && tokOk && payOk then .ok () else if checked then .err () else .panic .unwrap

/-- `get_evm_network_from_env` with the three variables set and `EVM_NETWORK` unset -/
def evmFromEnv (urlOk tokOk payOk : Bool) : Res Unit Unit := customNetwork evmEnvChecked urlOk tokOk payOk

/-- `local_evm_network_from_csv`: `parts` = per comma-separated part (valid URL, valid address) -/
def evmFromCsv (utf8 : Bool) (parts : List (Bool × Bool)) : Res Unit Unit :=
  if !utf8 then .err () else
  if parts.length ≠ evmCsvParts then .err () else
  match parts with
  | a :: b :: c :: _ => customNetwork evmCsvChecked a.1 b.2 c.2
  | _ => .err ()

/-- `Network::new_custom` (the `evm-custom` sub-command of antnode / antctl) -/
def evmNewCustom (urlOk tokOk payOk : Bool) : Res Unit Unit := customNetwork newCustomChecked urlOk tokOk payOk

/-- `evmlib::utils::get_evm_network` (called by the wasm bindings with values typed on a web page) -/
def evmGetNetwork (urlOk tokOk payOk : Bool) : Res Unit Unit := customNetwork getEvmNetworkChecked urlOk tokOk payOk

/-! ### nat-detection's server address, the metrics tool's log scan -/

/-- `parse_peer_addr`: a socket address, else a multiaddr, else an error (both parsers abstract) -/
def natPeerAddr (sockOk maOk : Bool) : Res Unit Unit := if sockOk || maOk then .ok () else .err ()

/-- one log line as the two regular expressions see it: node-id line?, metrics-server line with a
parsable URL (`some true`) / an unparsable one (`some false`)? -/
abbrev LogLine := Bool × Option Bool

/-- `get_metric_servers` on one log file: value = number of (node, URL) pairs found (0 or 1) -/
def metricsScan : List LogLine → Bool → Bool → Res Unit Nat
  | [], peer, url => .ok (if peer && url then 1 else 0)
  | (n, u) :: rest, peer, url =>
    if peer && url then .ok 1 else
    match u with
    | some false => if metricsUrlChecked then .err () else .panic .unwrap
    | some true => metricsScan rest (peer || n) true
    | none => metricsScan rest (peer || n) url

def metricServers (ls : List LogLine) : Res Unit Nat := metricsScan ls false false

/-! ### ant-cli: register signing key, local user data, wallet export -/

/-- `get_register_signing_key`: `src` = the text found (environment variable first, else the key file),
`utf8` its validity, `keyOk` the BLS secret-key parser's verdict (abstract) -/
def registerSigningKey (src : Option Bytes) (utf8 keyOk : Bool) : Res Unit Unit :=
  match src with
  | none => .err ()
  | some _ => if utf8 && keyOk then .ok () else .err ()

/-- `get_local_registers`: every file name of the folder must be a register address; per name: the raw
bytes, UTF-8 validity (a lossily converted name holds U+FFFD and is not hex), the BLS key verdict -/
def localRegisters (names : List (Bytes × Bool × Bool)) : Res Unit Nat :=
  if names.any fun n => n.2.1 && (regFromHex (fun _ => n.2.2) n.1).isPanic then .panic .sliceIndex
  else if names.all fun n => n.2.1 && (regFromHex (fun _ => n.2.2) n.1).isOk then .ok names.length
  else .err ()

/-- `get_local_public_file_archives`: every file name must be a 32-byte hex address -/
def localPublicArchives (names : List (Bytes × Bool)) : Res Unit Nat :=
  if names.all fun n => n.2 && (strToAddr n.1).isOk then .ok names.length else .err ()

/-- `get_local_private_archive_access`: `secretAccess` = serde_json's view of the file (abstract) -/
def localPrivateAccess (secretAccess : Option Bytes) : Res Unit Bytes :=
  match secretAccess with
  | none => .err ()
  | some s => dataMapFromHex s

def privateAccessAll : List (Option Bytes) → Res Unit (List Bytes)
  | [] => .ok []
  | f :: rest =>
    match localPrivateAccess f with
    | .panic p => .panic p
    | .err e => .err e
    | .ok a =>
      match privateAccessAll rest with
      | .panic p => .panic p
      | .err e => .err e
      | .ok as => .ok (a :: as)

/-- `get_local_private_file_archives`: value = number of distinct accesses (a map keyed by the access) -/
def localPrivateArchives (files : List (Option Bytes)) : Res Unit Nat :=
  match privateAccessAll files with
  | .panic p => .panic p
  | .err e => .err e
  | .ok as => .ok as.eraseDups.length

/-- `wallet export`: the key of the (only) wallet file, then `Wallet::new_from_private_key` (abstract) -/
def walletExport (plainExists encExists : Bool) (content : Bytes) (utf8 : Bool)
    (decrypt : Bytes → Res Unit Bytes) (keyOk : Bytes → Bool) : Res Unit Unit :=
  match loadPrivateKey plainExists encExists content utf8 decrypt with
  | .panic p => .panic p
  | .err e => .err e
  | .ok key => if keyOk key then .ok () else if walletExportKeyChecked then .err () else .panic .unwrap

/-! ### autonomi: path of a file relative to the uploaded folder -/

/-- a component of a path as `std::path::Path::components` yields it -/
inductive Comp
  | root | cur | parent
  | normal (name : Bytes)
deriving DecidableEq, Repr

/-- `Path::parent()` on components: everything but the last one, unless that is the root -/
def pathParent (p : List Comp) : Option (List Comp) :=
  match p.getLast? with
  | none => none
  | some .root => none
  | some _ => some p.dropLast

/-- `Path::strip_prefix` on components -/
def stripPrefixComps : List Comp → List Comp → Option (List Comp)
  | [], f => some f
  | _ :: _, [] => none
  | a :: as, b :: bs => if a = b then stripPrefixComps as bs else none

/-- `get_relative_file_path_from_abs_file_and_folder_path` -/
def relativeFilePath (file folder : List Comp) (folderIsFile : Bool) : Res Unit (List Comp) :=
  let named := match folder.getLast? with
    | some (.normal _) => true
    | _ => false
  -- before the repair the folder's `file_name()` was `expect`ed up front, whatever the folder is
  if !relPathFileNameChecked && !named then .panic .unwrap else
  if folderIsFile then
    match folder.getLast? with
    | some (.normal n) => .ok [.normal n]
    | _ => .ok folder
  else
    match stripPrefixComps ((pathParent folder).getD []) file with
    | some rest => .ok rest
    | none => .panic .unwrap

/-! ### token amounts (`AttoTokens::from_str`, ant-evm/src/amount.rs) with every overflow made explicit -/

/-- `units * TOKEN_TO_RAW_CONVERSION`: `checked_mul` gives `none` (→ `ExcessiveValue`) out of range; a plain `*` on
`ruint` integers would wrap silently, shown here as an overflow. -/
def attoUnits (units : Nat) : Except Panic (Option Nat) :=
  if Gen.Amount.unitsMulChecked then
    .ok (if units * Gen.Amount.rawConv < Amount.U256 then some (units * Gen.Amount.rawConv) else none)
  else (umul 256 units Gen.Amount.rawConv).map some

/-- `parsed_remainder * 10.pow(18 - len)`: neither the power nor the product is checked in the source (`ruint`'s `*`
and `pow` wrap silently): an out-of-range value shows as an overflow. -/
def attoScale (pr len : Nat) : Except Panic Nat :=
  if 10 ^ (Gen.Amount.powConv - len) < Amount.U256 then umul 256 pr (10 ^ (Gen.Amount.powConv - len))
  else .error .overflow

/-- `converted_units.checked_add(remainder)` (or a wrapping `+`) -/
def attoSum (conv rem : Nat) : Res Amount.PErr Nat :=
  if Gen.Amount.finalAddChecked then
    (if conv + rem < Amount.U256 then .ok (conv + rem) else .err .excessive)
  else match uadd 256 conv rem with
    | .error p => .panic p
    | .ok v => .ok v

/-- the end of `from_str`: the scaled remainder (or an overflow while scaling it) is added to the units -/
def attoFinish (conv : Nat) (scaled : Except Panic Nat) : Res Amount.PErr Nat :=
  match scaled with
  | .error p => .panic p
  | .ok rem => attoSum conv rem

/-- `from_str` after the units: `f` is the text after the dot, if any -/
def attoRemainder (convUnits : Except Panic (Option Nat)) (f : Option Bytes) : Res Amount.PErr Nat :=
  match convUnits with
  | .error p => .panic p
  | .ok none => .err .excessive
  | .ok (some conv) =>
    let fs := f.getD []
    if !Amount.isDecimal fs then .err .remainder else
    -- the fraction AS WRITTEN is limited to `powConv` digits (guard regenerated as `fracLenCheckedUntrimmed`, C16)
    if Gen.Amount.fracLenCheckedUntrimmed && Gen.Amount.powConv < fs.length then .err .lossOfPrecision else
    let r := Amount.trimEnd0 fs
    if r.isEmpty then .ok conv else
    match Amount.uintFromStr r with
    | none => .err .remainder
    | some pr =>
      if Gen.Amount.powConv < r.length then .err .lossOfPrecision else
      attoFinish conv (attoScale pr r.length)

/-- `AttoTokens::from_str` as `SafeNet.Amount.parse` models it (C16), but in the overflow-checking style of this
file: the checked operations return the error the source returns, the unchecked ones are evaluated with overflow
detection, so that an out-of-range intermediate value shows as `panic .overflow` instead of wrapping. -/
def attoFromStr (s : Bytes) : Res Amount.PErr Nat :=
  let (u, f) := Amount.splitDot s
  if !(Amount.isDecimal u && !u.isEmpty) then .err .units else
  match Amount.uintFromStr u with
  | none => .err .units
  | some units => attoRemainder (attoUnits units) f

/-! ### MessagePack decoders (rmp_serde only) -/

def mpDecode (decodedOk : Bool) : Res Unit Unit := if decodedOk then .ok () else .err ()

end SafeNet.Parsers
