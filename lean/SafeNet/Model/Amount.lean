import SafeNet.Base.Dec
import SafeNet.Gen.Amount
/-!
Model of `ant-evm/src/amount.rs`: `Display`/`FromStr` for `AttoTokens`, and checked add/sub.
Strings are lists of byte values (`List Nat`); `ruint`'s `Uint::from_str` is modelled literally
(radix prefixes, `_` separators, letter digits, overflow) from ruint-1.12.3/src/string.rs.
Constants, pad width and the checked/unchecked status of the arithmetic come from `Gen.Amount`.
-/
namespace SafeNet.Amount
open SafeNet.Dec SafeNet.Gen.Amount

def U256 : Nat := 2 ^ 256

inductive PErr | units | remainder | lossOfPrecision | excessive
deriving DecidableEq, Repr

/-- ruint `from_str_radix`, radix ≤ 36: `none` = invalid character, `some none` = ignored (`_`). -/
def classify (c : Nat) : Option (Option Nat) :=
  if 48 ≤ c ∧ c ≤ 57 then some (some (c - 48))
  else if 97 ≤ c ∧ c ≤ 122 then some (some (c - 97 + 10))
  else if 65 ≤ c ∧ c ≤ 90 then some (some (c - 65 + 10))
  else if c = 95 then some none
  else none

def fromStrRadixGo (radix : Nat) : List Nat → Nat → Option Nat
  | [], acc => some acc
  | c :: cs, acc =>
    match classify c with
    | none => none
    | some none => fromStrRadixGo radix cs acc
    | some (some d) =>
      if d ≥ radix then none
      else if acc * radix + d ≥ U256 then none
      else fromStrRadixGo radix cs (acc * radix + d)

def fromStrRadix (s : List Nat) (radix : Nat) : Option Nat := fromStrRadixGo radix s 0

/-- `<Uint as FromStr>::from_str`. -/
def uintFromStr (s : List Nat) : Option Nat :=
  match s with
  | 48 :: p :: rest =>
    if p = 120 ∨ p = 88 then fromStrRadix rest 16
    else if p = 111 ∨ p = 79 then fromStrRadix rest 8
    else if p = 98 ∨ p = 66 then fromStrRadix rest 2
    else fromStrRadix s 10
  | _ => fromStrRadix s 10

/-- `splitn(2, '.')`: part before the first dot, and the rest if there is a dot. -/
def splitDot : List Nat → List Nat × Option (List Nat)
  | [] => ([], none)
  | c :: cs =>
    if c = 46 then ([], some cs)
    else let (u, f) := splitDot cs; (c :: u, f)

def isDecimal (s : List Nat) : Bool := s.all (fun c => 48 ≤ c && c ≤ 57)

/-- `trim_end_matches('0')`. -/
def trimEnd0 (s : List Nat) : List Nat := (s.reverse.dropWhile (· == 48)).reverse

/-- `AttoTokens::from_str`. `lenUntrimmed` = the fraction AS WRITTEN (trailing zeros included) is limited to
`powConv` digits before `trim_end_matches('0')` (the guard regenerated as `Gen.Amount.fracLenCheckedUntrimmed`);
without it only the trimmed fraction is measured, so `"1.0000000000000000000"` (19 fractional digits) parses. -/
def parseWith (lenUntrimmed : Bool) (s : List Nat) : Except PErr Nat :=
  let (u, f) := splitDot s
  if !(isDecimal u && !u.isEmpty) then .error .units else
  match uintFromStr u with
  | none => .error .units
  | some units =>
    if unitsMulChecked && units * rawConv ≥ U256 then .error .excessive else
    let conv := (units * rawConv) % U256
    let fs := f.getD []
    if !isDecimal fs then .error .remainder else
    if lenUntrimmed && powConv < fs.length then .error .lossOfPrecision else
    let r := trimEnd0 fs
    if r.isEmpty then .ok conv else
    match uintFromStr r with
    | none => .error .remainder
    | some pr =>
      if powConv < r.length then .error .lossOfPrecision else
      let rem := (pr * 10 ^ (powConv - r.length)) % U256
      if finalAddChecked && conv + rem ≥ U256 then .error .excessive
      else .ok ((conv + rem) % U256)

/-- The code as it stands: the guard is whatever the translator read from `from_str`. -/
def parse (s : List Nat) : Except PErr Nat := parseWith fracLenCheckedUntrimmed s

def toChars (ds : List Nat) : List Nat := ds.map (· + 48)

def display (n : Nat) : List Nat :=
  toChars (toDigits (n / rawConv)) ++ [46] ++ toChars (padLeft displayPad (toDigits (n % rawConv)))

def checkedAdd (a b : Nat) : Option Nat :=
  if addIsChecked then (if a + b < U256 then some (a + b) else none) else some ((a + b) % U256)

def checkedSub (a b : Nat) : Option Nat :=
  if subIsChecked then (if b ≤ a then some (a - b) else none) else some ((a + U256 - b) % U256)

/-- `ant-cli/src/utils.rs::collect_upload_summary`: the events consumed by the `select!` loop before the
completion signal wins, then the events drained afterwards. Each consumed event either adds to the running
total (`+=`, wrapping at 2^256 like every `Amount` `+`) or — if an arm assigns — replaces it. -/
def cliSummary (loopEvents drainEvents : List Nat) : Nat :=
  let step := fun (acc x : Nat) => if cliSummaryAccumulates then (acc + x) % U256 else x % U256
  drainEvents.foldl step (loopEvents.foldl step 0)

/-- The CLI total as a result that may report overflow: `checked = false` is the code as it stands (`tokens_spent +=`,
ruint's wrapping `AddAssign`: always a value, `cliSummary`), `checked = true` a `checked_add` accumulation that
reports an unrepresentable total instead of a value. -/
def cliSummaryWith (checked : Bool) (loopEvents drainEvents : List Nat) : Option Nat :=
  if checked then
    (if (loopEvents ++ drainEvents).sum < U256 then some (loopEvents ++ drainEvents).sum else none)
  else some (cliSummary loopEvents drainEvents)

/-- A cost sum as the client computes it (`QuoteForAddress::price`, `StoreQuote::price`, `data_cost`, `vault_cost`,
`register_cost`, `file_cost`): `checked = false` is ruint's `Sum` / `AddAssign` (`wrapping_add` from zero),
`checked = true` a `checked_add` fold that reports overflow. -/
def costSumWith (checked : Bool) (xs : List Nat) : Option Nat :=
  if checked then (if xs.sum < U256 then some xs.sum else none)
  else some (xs.foldl (fun a x => (a + x) % U256) 0)

/-- the sums as the code stands (`Gen.Amount.costSumsChecked`) -/
def costSum (xs : List Nat) : Option Nat := costSumWith costSumsChecked xs

/-- the number an ant-cli cost line shows: the raw atto integer (`Amount`'s `Display`) or `AttoTokens`' `Display` -/
def printedCost : CostKind → Nat → List Nat
  | .atto, n => toChars (toDigits n)
  | .tokens, n => display n

def fromChars (s : List Nat) : List Nat := s.map (· - 48)

/-- reading a printed decimal number: (all digits as one integer, number of fractional digits) -/
def readNumber (s : List Nat) : Option (Nat × Nat) :=
  let (u, f) := splitDot s
  let fs := f.getD []
  if isDecimal u && !u.isEmpty && isDecimal fs then
    some (ofDigits (fromChars u) * 10 ^ fs.length + ofDigits (fromChars fs), fs.length)
  else none

/-- the printed number, read in the unit the line states ("AttoTokens" if labelled, whole tokens otherwise),
is exactly `n` atto -/
def lineDenotes (labelledAtto : Bool) (s : List Nat) (n : Nat) : Bool :=
  match readNumber s with
  | some (num, k) => if labelledAtto then num == n * 10 ^ k else num * 10 ^ 18 == n * 10 ^ k
  | none => false

end SafeNet.Amount
