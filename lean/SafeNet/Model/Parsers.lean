import SafeNet.Base.Panic
import SafeNet.Base.Hex
import SafeNet.Base.Dec
import SafeNet.Gen.Parsers
/-!
Models of the routines that parse untrusted text and bytes (C17).  Every model returns
`Res ε α = ok v | err e | panic p`.  Strings and byte strings are lists of byte values.

What is read from the Rust source on every run (`SafeNet.Gen.Parsers`): the length guards and slice
expressions of `RegisterAddress::from_hex`, `decrypt_private_key`, `RecordHeader::from_record`,
`try_deserialize_record` (as `List Step`, interpreted by `Panic.runSteps`), the integer expressions of
`PortRange::validate` and `BootstrapAddr::failure_rate` (as `AExp`, evaluated with overflow checks),
whether `increment_port_option` uses `checked_add`, the checks of `PortRange::parse`, the constants.

Third-party functions are parameters (abstract, total): the BLS public-key validity check (`pkOk`),
PBKDF2 + ChaCha20-Poly1305 (`aead`), UTF-8 validation, the multiaddr parser, serde_json/rmp_serde
decoders for the cache file, the node registry and record payloads.  `rmp_serde` on the 3-byte
`RecordHeader` window is modelled from its behaviour on the complete 2^24 space (`decodeHeader3`).
-/
namespace SafeNet.Parsers
open SafeNet.Panic SafeNet.Gen.Parsers

abbrev Bytes := List Nat

/-! ### hex addresses -/

/-- `RegisterAddress::from_hex`: value = (meta, owner key bytes). -/
def regFromHex (pkOk : Bytes → Bool) (s : Bytes) : Res Unit (Bytes × Bytes) :=
  match Hex.decode s with
  | none => .err ()
  | some bytes =>
    match runSteps bytes regFromHexSteps with
    | .panic p => .panic p
    | .err e => .err e
    | .ok [m, owner] => if pkOk owner then .ok (m, owner) else .err ()
    | .ok _ => .err ()

/-- `RegisterAddress::to_hex`. -/
def regToHex (m owner : Bytes) : Bytes := Hex.encode (m ++ owner)

/-- `ScratchpadAddress::from_hex` = `PublicKey::from_hex`: decode, exactly `PK_SIZE` bytes, valid key. -/
def scratchFromHex (pkOk : Bytes → Bool) (s : Bytes) : Res Unit Bytes :=
  match Hex.decode s with
  | none => .err ()
  | some bytes => if bytes.length ≠ pkSize then .err () else if pkOk bytes then .ok bytes else .err ()

def scratchToHex (owner : Bytes) : Bytes := Hex.encode owner

/-- `DataMapChunk::from_hex` / `to_hex`. -/
def dataMapFromHex (s : Bytes) : Res Unit Bytes :=
  match Hex.decode s with
  | none => .err ()
  | some bytes => .ok bytes

def dataMapToHex (b : Bytes) : Bytes := Hex.encode b

/-- `str_to_addr` / `addr_to_str`. -/
def strToAddr (s : Bytes) : Res Unit Bytes :=
  match Hex.decode s with
  | none => .err ()
  | some bytes => if bytes.length ≠ xorNameLen then .err () else .ok bytes

def addrToStr (x : Bytes) : Bytes := Hex.encode x

/-! ### encrypted wallet key -/

/-- `decrypt_private_key`, framing level: `aead salt nonce ciphertext password` is PBKDF2 +
ChaCha20-Poly1305 `open_in_place` (abstract), `utf8` is `String::from_utf8(..).is_ok()`. -/
def decryptKey (aead : Bytes → Bytes → Bytes → Bytes → Option Bytes) (utf8 : Bytes → Bool)
    (s pw : Bytes) : Res Unit Bytes :=
  match Hex.decode s with
  | none => .err ()
  | some bytes =>
    match runSteps bytes decryptSteps with
    | .panic p => .panic p
    | .err e => .err e
    | .ok [salt, nonce, ct] =>
      match aead salt nonce ct pw with
      | none => .err ()
      | some pt => if utf8 pt then .ok pt else if decryptUtf8Checked then .err () else .panic .unwrap
    | .ok _ => .err ()

/-- `encrypt_private_key`, framing level: hex (salt ‖ nonce ‖ sealed). -/
def encryptKey (sealFn : Bytes → Bytes → Bytes → Bytes → Bytes) (salt nonce key pw : Bytes) : Bytes :=
  Hex.encode (salt ++ nonce ++ sealFn salt nonce key pw)

/-! ### record header -/

def tagOk (t : Nat) : Option Nat := if recordKindTags.any (·.1 == t) then some t else none

/-- `rmp_serde::from_slice::<RecordHeader>` on a 3-byte window (the complete accepted set):
`[0x91, fixint, _]`, `[0x91, 0xcc|0xd0, n]`, `[0x81, 0x00, n]` (map keyed by field index),
`[0xc4, 0x01, n]` (bin8 of one byte read as a sequence). -/
def decodeHeader3 (w : Bytes) : Option Nat :=
  match w with
  | [b0, b1, b2] =>
    if b0 = 0x91 then
      if b1 ≤ 0x7f then tagOk b1
      else if b1 = 0xcc ∨ b1 = 0xd0 then tagOk b2
      else none
    else if b0 = 0x81 ∧ b1 = 0 then tagOk b2
    else if b0 = 0xc4 ∧ b1 = 1 then tagOk b2
    else none
  | _ => none

/-- `RecordHeader::from_record`: value = the kind's integer tag. -/
def fromRecord (value : Bytes) : Res Unit Nat :=
  match runSteps value fromRecordSteps with
  | .panic p => .panic p
  | .err e => .err e
  | .ok [w] => match decodeHeader3 w with
    | some t => .ok t
    | none => .err ()
  | .ok _ => .err ()

/-- `try_deserialize_record::<T>`: prefix handling, then the payload decoder `dec` (abstract). -/
def deserializeRecord {α : Type} (dec : Bytes → Option α) (value : Bytes) : Res Unit α :=
  match runSteps value deserializeRecordSteps with
  | .panic p => .panic p
  | .err e => .err e
  | .ok [rest] => match dec rest with
    | some v => .ok v
    | none => .err ()
  | .ok _ => .err ()

/-! ### ports -/

def isDigit (c : Nat) : Bool := 48 ≤ c && c ≤ 57

/-- a single leading `+` is allowed -/
def stripPlus : Bytes → Bytes
  | 43 :: rest => rest
  | s => s

/-- `<uN as FromStr>::from_str`: optional single `+`, at least one digit, digits only, value `< 2^w`. -/
def uFromStr (w : Nat) (s : Bytes) : Option Nat :=
  if (stripPlus s).isEmpty then none
  else if !(stripPlus s).all isDigit then none
  else if Dec.ofDigits ((stripPlus s).map (· - 48)) < 2 ^ w then some (Dec.ofDigits ((stripPlus s).map (· - 48)))
  else none

/-- `str::split(c)` on bytes (`c` ASCII). -/
def splitOn (c : Nat) : Bytes → List Bytes
  | [] => [[]]
  | x :: xs =>
    match splitOn c xs with
    | [] => [[]]
    | p :: ps => if x = c then [] :: p :: ps else (x :: p) :: ps

inductive PortRange
  | single (p : Nat)
  | range (a b : Nat)
deriving DecidableEq, Repr

/-- `PortRange::parse`. -/
def portRangeParse (s : Bytes) : Res Unit PortRange :=
  match uFromStr portWidth s with
  | some p => .ok (.single p)
  | none =>
    let parts := splitOn parseSplitChar s
    if parsePartsReject.1.holds parts.length parsePartsReject.2 then .err () else
    match parts[parsePartIndexes.getD 0 0]? with
    | none => .panic .sliceIndex
    | some p0 =>
      match uFromStr portWidth p0 with
      | none => .err ()
      | some a =>
        match parts[parsePartIndexes.getD 1 1]? with
        | none => .panic .sliceIndex
        | some p1 =>
          match uFromStr portWidth p1 with
          | none => .err ()
          | some b => if parseOrderReject.holds a b then .err () else .ok (.range a b)

/-- `PortRange::validate(count)`. -/
def portRangeValidate (r : PortRange) (count : Nat) : Res Unit Unit :=
  match r with
  | .single _ => if count ≠ 1 then .err () else .ok ()
  | .range a b =>
    match validateCountExpr.eval [a, b] with
    | .error p => .panic p
    | .ok portCount => if count ≠ portCount then .err () else .ok ()

/-- `increment_port_option`. -/
def incrementPort (p : Option Nat) : Res Unit (Option Nat) :=
  match p with
  | none => .ok none
  | some p =>
    if incrementChecked then .ok (checkedAdd incrementWidth p 1)
    else match uadd incrementWidth p 1 with
      | .ok v => .ok (some v)
      | .error e => .panic e

/-- `get_start_port_if_applicable`. -/
def startPort : Option PortRange → Option Nat
  | none => none
  | some (.single p) => some p
  | some (.range a _) => some a

/-! ### bootstrap addresses and cache -/

/-- The integer part of `BootstrapAddr::failure_rate`: the sum of the two counters as the source
computes it (may overflow); the rate is `failure / total` in `f64`. -/
def failureTotal (s f : Nat) : Except Panic Nat := failureSumExpr.eval [s, f]

/-- `failure_rate() as u64`, the sort key used everywhere: 0 unless every attempt failed. -/
def failureKey (s f : Nat) : Except Panic Nat :=
  match failureTotal s f with
  | .error p => .error p
  | .ok total => .ok (if total = 0 then 0 else f / total)

def isReliable (s f : Nat) : Bool := reliableCmp.holds s f

def mapKeys : List (Nat × Nat) → Except Panic (List Nat)
  | [] => .ok []
  | (s, f) :: rest =>
    match failureKey s f with
    | .error p => .error p
    | .ok k =>
      match mapKeys rest with
      | .error p => .error p
      | .ok ks => .ok (k :: ks)

/-- index of the first minimum (what `Iterator::min_by_key` returns) -/
def firstMinIdx : List Nat → Option Nat
  | [] => none
  | k :: ks =>
    match firstMinIdx ks with
    | none => some 0
    | some j => if ks.getD j 0 < k then some (j + 1) else some 0

/-- `BootstrapAddresses::get_least_faulty`: index of the chosen address. -/
def leastFaulty (addrs : List (Nat × Nat)) : Res Unit (Option Nat) :=
  match mapKeys addrs with
  | .error p => .panic p
  | .ok ks => .ok (firstMinIdx ks)

/-- One peer in `perform_cleanup` (no-crash aspects only): keep the reliable, unexpired addresses;
if more than `k` remain they are sorted by `failure_rate` (every key is computed when there are at
least two).  Result: whether the peer survives (had an address left before truncation). -/
def cleanupPeer (k : Nat) (addrs : List (Nat × Nat × Bool)) : Except Panic Bool :=
  let kept := addrs.filter (fun a => isReliable a.1 a.2.1 && !a.2.2)
  if cleanupSortsByFailureRate && kept.length > k && kept.length ≥ 2 then
    match mapKeys (kept.map fun a => (a.1, a.2.1)) with
    | .error p => .error p
    | .ok _ => .ok true
  else .ok (!kept.isEmpty)

def cleanupAll (k : Nat) : List (List (Nat × Nat × Bool)) → Except Panic Nat
  | [] => .ok 0
  | p :: ps =>
    match cleanupPeer k p with
    | .error e => .error e
    | .ok alive =>
      match cleanupAll k ps with
      | .error e => .error e
      | .ok n => .ok (if alive then n + 1 else n)

/-- `BootstrapCacheStore::load_cache_data`: `parsed` is what reading + UTF-8 validation + serde_json
produce (abstract): per peer the list of (success, failure, expired).  Value: number of peers. -/
def loadCache (k m : Nat) (parsed : Option (List (List (Nat × Nat × Bool)))) : Res Unit Nat :=
  match parsed with
  | none => .err ()
  | some peers =>
    match cleanupAll k peers with
    | .error p => .panic p
    | .ok n => .ok (min n m)

/-! ### multiaddr -/

inductive Proto | ip4 | udp | tcp | quic | ws | p2p | other
deriving DecidableEq, Repr

def findIdx (ps : List Proto) (p : Proto) : Option Nat :=
  let i := ps.findIdx (· == p)
  if i < ps.length then some i else none

/-- `craft_valid_multiaddr`: positions (in the parsed address) of the protocols kept, in output order. -/
def craft (ps : List Proto) (ignorePeerId : Bool) : Option (List Nat) :=
  match findIdx ps .ip4 with
  | none => none
  | some ip =>
    let transport : Option (List Nat) :=
      match findIdx ps .udp with
      | some u => some (u :: (findIdx ps .quic).toList)
      | none =>
        match findIdx ps .tcp with
        | some t => some (t :: (findIdx ps .ws).toList)
        | none => none
    match transport with
    | none => none
    | some tr =>
      match findIdx ps .p2p with
      | some p => some (ip :: tr ++ [p])
      | none => if ignorePeerId then some (ip :: tr) else none

/-- `craft_valid_multiaddr_from_str`: `parsed` is the multiaddr parser's result (abstract). -/
def craftFromStr (parsed : Option (List Proto)) (ignorePeerId : Bool) : Option (List Nat) :=
  match parsed with
  | none => none
  | some ps => craft ps ignorePeerId

/-! ### node registry -/

/-- `NodeRegistry::load`: `file = none` when the path does not exist; `utf8` is `read_to_string`'s
verdict; `parsed` is serde_json's result (number of nodes).  Value: number of nodes. -/
def registryLoad (file : Option Bytes) (utf8 : Bool) (parsed : Option Nat) : Res Unit Nat :=
  match file with
  | none => if registryMissingIsDefault then .ok 0 else .err ()
  | some b =>
    if !utf8 then .err ()
    else if b.isEmpty && registryEmptyIsDefault then .ok 0
    else match parsed with
      | some n => .ok n
      | none => .err ()

/-! ### log format / destination (ant-logging) -/

def bytesOf (s : String) : Bytes := s.toUTF8.toList.map UInt8.toNat

/-- `LogFormat::parse_from_str`: exactly the literals of the `match`. -/
def logFormatParse (s : Bytes) : Option String :=
  (logFormatLiterals.find? fun l => bytesOf l == s)

/-- `LogOutputDest::parse_from_str`: a literal of the `match`, otherwise a path (never an error for a
literal; `data-dir` depends on the platform data directory only). -/
def logDestParse (s : Bytes) : String :=
  match logDestLiterals.find? fun l => bytesOf l == s with
  | some l => l
  | none => "path"

/-! ### wallets folder (ant-cli wallet/fs.rs) -/

def isPrefix : Bytes → Bytes → Bool
  | [], _ => true
  | _ :: _, [] => false
  | p :: ps, c :: cs => p == c && isPrefix ps cs

/-- `str::replace(pat, "")` for a non-empty pattern: remove the non-overlapping matches, left to right. -/
def removeAllFuel (pat : Bytes) : Nat → Bytes → Bytes
  | 0, s => s
  | _, [] => []
  | fuel + 1, c :: cs =>
    if isPrefix pat (c :: cs) then removeAllFuel pat fuel ((c :: cs).drop pat.length)
    else c :: removeAllFuel pat fuel cs

def removeAll (pat s : Bytes) : Bytes := removeAllFuel pat (s.length + 1) s

/-- `filter_wallet_file_extension`. -/
def filterWalletExt (name : Bytes) : Bytes := removeAll walletExt name

/-- `RewardsAddress::from_hex` (const-hex into 20 bytes): optional `0x`, then exactly 40 hex digits. -/
def isAddressHex (s : Bytes) : Bool :=
  let h := match s with
    | 48 :: 120 :: rest => rest
    | _ => s
  h.length == 40 && h.all (fun c => (Hex.hexVal c).isSome)

/-- Is a (UTF-8) directory entry listed by `get_wallet_files`? -/
def walletListed (name : Bytes) : Bool := isAddressHex (filterWalletExt name)

/-- `get_wallet_files`: positions of the entries listed; `names` pairs each raw name with
`OsString::into_string().is_ok()`. -/
def walletFiles (names : List (Bytes × Bool)) : List Nat :=
  (List.range names.length).filter fun i =>
    match names[i]? with
    | some (n, utf8) => utf8 && walletListed n
    | none => false

/-- `get_wallet_selection`: `input` is what was typed at the prompt. -/
def walletSelection (input : Bytes) (files : List Bytes) : Res Unit Bytes :=
  match uFromStr 64 input with
  | none => .err ()
  | some idx =>
    if selectLowReject.1.holds idx selectLowReject.2 || selectHighReject.holds idx files.length then .err () else
    match selectIndexExpr.eval [idx] with
    | .error p => .panic p
    | .ok i =>
      match files[i]? with
      | none => .panic .sliceIndex
      | some f => .ok (filterWalletExt f)

/-- `load_private_key`: which of `<address>` / `<address>.encrypted` exist, the content of the file
that is read, UTF-8 validity of that content, and `decrypt_private_key` for the encrypted file. -/
def loadPrivateKey (plainExists encExists : Bool) (content : Bytes) (utf8 : Bool)
    (decrypt : Bytes → Res Unit Bytes) : Res Unit Bytes :=
  let isEncrypted := encExists && !plainExists
  if !(plainExists || isEncrypted) then .err ()
  else if !utf8 then .err ()
  else if isEncrypted then decrypt content else .ok content

/-- `load_wallet_from_address` (with an EVM network configured): `load_private_key`, then
`Wallet::new_from_private_key` (abstract: `keyOk` gives the wallet's address for a valid key). -/
def loadWallet (plainExists encExists : Bool) (content : Bytes) (utf8 : Bool)
    (decrypt : Bytes → Res Unit Bytes) (keyOk : Bytes → Option Bytes) : Res Unit Bytes :=
  match loadPrivateKey plainExists encExists content utf8 decrypt with
  | .panic p => .panic p
  | .err e => .err e
  | .ok key =>
    match keyOk key with
    | some addr => .ok addr
    | none => if loadWalletKeyChecked then .err () else .panic .unwrap

/-- File content after `NodeRegistry::save` writes `new` over a file holding `old`: the whole content is
replaced when the file is emptied first; otherwise the tail of a longer old content survives. -/
def saveFile (old new : Bytes) : Bytes :=
  if registrySaveTruncates then new else new ++ old.drop new.length

/-- `save(A) ; save(B) ; load` on one path, at the level of lengths: `lenA`/`lenB` are the lengths of the
two JSON texts (serde_json's `to_string`, abstract), `nodesB` what parsing B's text gives.  A file that
is B's text followed by a rest of A's text does not parse ("trailing characters").
Value: (length of the file, number of nodes loaded). -/
def saveSaveLoad (lenA lenB nodesB : Nat) : Nat × Res Unit Nat :=
  let fileLen := (saveFile (saveFile [] (List.replicate lenA 0)) (List.replicate lenB 1)).length
  (fileLen, if fileLen = lenB then registryLoad (some (List.replicate lenB 1)) true (some nodesB) else .err ())

end SafeNet.Parsers
