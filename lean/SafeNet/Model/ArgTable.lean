/-!
# Argument tables (C20)

Types of the tables `rs2lean` reads out of the argument builders of the node manager, their
interpretation over an abstract option record, and a small clap-subset parser over the option
declarations read out of antnode's `clap` structs. Import-free (the driver links against it).

An *option record* is a valuation `σ : Path → Val`: for every source expression of `add_node`
(`options.home_network`, `metrics_free_port`, `owner`, …) its value. Values are abstract strings
and lists of strings; only their presence pattern (`true/false`, `Some/None`, empty/non-empty,
which EVM network variant) is inspected by the builders.
-/
namespace SafeNet.ArgTable

abbrev Path := List String

/-- Case folding applied to a string value: `str::to_lowercase` (Unicode) / `str::to_ascii_lowercase`. -/
inductive Fold where
  | lower | asciiLower
  deriving DecidableEq, Repr

/-- A source expression: a (dotted) variable path, a constant written in the Rust source, or a case
folding of another source expression. -/
inductive Src where
  | var (p : Path)
  | const (t : String)
  | fold (f : Fold) (s : Src)
  deriving DecidableEq, Repr, Inhabited

/-- One character of an abstract string value, with what the two case foldings make of it:
`plain` is unaffected by both (lower-case letters, digits, punctuation, uncased scripts);
`asciiUp u l` is an ASCII capital `u` with lower-case form `l`; `uniUp u l` a non-ASCII capital
(only `to_lowercase` maps it; `l` may be several code points). -/
inductive ACh where
  | plain (c : String)
  | asciiUp (u l : String)
  | uniUp (u l : String)
  deriving DecidableEq, Repr

/-- Abstract string value. -/
abbrev AStr := List ACh

def Fold.app : Fold → ACh → ACh
  | _, .plain c => .plain c
  | _, .asciiUp _ l => .plain l
  | .lower, .uniUp _ l => .plain l
  | .asciiLower, .uniUp u l => .uniUp u l

def ACh.show : ACh → String
  | .plain c => c
  | .asciiUp u _ => u
  | .uniUp u _ => u

def AStr.show (a : AStr) : String := String.join (a.map ACh.show)

/-- Two foldings in a row are one folding. -/
def Fold.join : Fold → Fold → Fold
  | .asciiLower, .asciiLower => .asciiLower
  | _, _ => .lower

inductive Render where
  | display | lossy | asStr | joinComma
  deriving DecidableEq, Repr

inductive Guard where
  | always
  | isTrue (s : Src)
  | isSome (s : Src)
  | nonEmpty (s : Src)
  | evmCustom (s : Src)
  deriving DecidableEq, Repr

/-- `flag = none` is a positional word (the EVM network subcommand). -/
structure Entry where
  guard : Guard
  flag : Option String
  value : Option (Src × Render)
  deriving DecidableEq, Repr

inductive Val where
  | bool (b : Bool)
  | opt (o : Option AStr)
  | list (l : List AStr)
  | evm (variant : String)
  deriving DecidableEq, Repr, Inhabited

def Val.fold (f : Fold) : Val → Val
  | .opt o => .opt (o.map fun a => a.map f.app)
  | .list l => .list (l.map fun a => a.map f.app)
  | v => v

abbrev Valuation := Path → Val

/-- Value of a source expression. Constants of the Rust source: `None`, `true`, `false`, anything else is an opaque word. -/
def evalSrc (σ : Valuation) : Src → Val
  | .var p => σ p
  | .const t =>
    if t = "None" then .opt none
    else if t = "true" then .bool true
    else if t = "false" then .bool false
    else .opt (some [.plain t])
  | .fold f s => (evalSrc σ s).fold f

def guardSrc : Guard → Src
  | .always => .const "true"
  | .isTrue s => s
  | .isSome s => s
  | .nonEmpty s => s
  | .evmCustom s => s

/-- The value is "given" in clap's sense (explicitly present on a command line that mirrors it). -/
def present : Val → Bool
  | .bool b => b
  | .opt o => o.isSome
  | .list l => !l.isEmpty
  | .evm _ => true

def guardHolds (σ : Valuation) : Guard → Bool
  | .always => true
  | .isTrue s => match evalSrc σ s with | .bool b => b | _ => false
  | .isSome s => match evalSrc σ s with | .opt (some _) => true | _ => false
  | .nonEmpty s => match evalSrc σ s with | .list (_ :: _) => true | _ => false
  | .evmCustom s => match evalSrc σ s with | .evm v => v == "Custom" | _ => false

/-- Value part of one emitted argument. A `joinComma` value stays a list in the model; the printed
word is its elements joined by `,` (clap's `value_delimiter = ','` splits it again). -/
inductive IVal where
  | none
  | one (s : String)
  | joined (l : List String)
  deriving DecidableEq, Repr

structure Item where
  flag : Option String
  value : IVal
  deriving DecidableEq, Repr

def lookupD (tbl : List (String × String)) (k : String) : String :=
  match tbl.lookup k with | some v => v | none => "?" ++ k

def asWord (disp : List (String × String)) : Val → String
  | .bool b => if b then "true" else "false"
  | .opt (some s) => s.show
  | .opt none => ""
  | .list l => ",".intercalate (l.map AStr.show)
  | .evm v => lookupD disp v

def asList : Val → List String
  | .list l => l.map AStr.show
  | .opt (some s) => [s.show]
  | _ => []

def ival (disp : List (String × String)) (v : Val) : Render → IVal
  | .joinComma => .joined (asList v)
  | _ => .one (asWord disp v)

def evalEntry (disp : List (String × String)) (σ : Valuation) (e : Entry) : Option Item :=
  if guardHolds σ e.guard then
    some ⟨e.flag, match e.value with | none => .none | some (s, r) => ival disp (evalSrc σ s) r⟩
  else none

/-- The ordered argument list a table produces for an option record. -/
def interp (disp : List (String × String)) (T : List Entry) (σ : Valuation) : List Item :=
  T.filterMap (evalEntry disp σ)

/-! ## Substitution (struct literals copy values between records) -/

def Src.subst (f : Path → Src) : Src → Src
  | .var p => f p
  | .const t => .const t
  | .fold g s => .fold g (s.subst f)

/-- Normal form of case foldings: a chain of foldings is one folding. -/
def Src.norm : Src → Src
  | .var p => .var p
  | .const t => .const t
  | .fold f s =>
    match s.norm with
    | .fold g t => .fold (f.join g) t
    | t => .fold f t

def Guard.norm : Guard → Guard
  | .always => .always
  | .isTrue s => .isTrue s.norm
  | .isSome s => .isSome s.norm
  | .nonEmpty s => .nonEmpty s.norm
  | .evmCustom s => .evmCustom s.norm

def Guard.subst (f : Path → Src) : Guard → Guard
  | .always => .always
  | .isTrue s => .isTrue (s.subst f)
  | .isSome s => .isSome (s.subst f)
  | .nonEmpty s => .nonEmpty (s.subst f)
  | .evmCustom s => .evmCustom (s.subst f)

def Entry.subst (f : Path → Src) (e : Entry) : Entry :=
  ⟨e.guard.subst f, e.flag, match e.value with | none => none | some (s, r) => some (s.subst f, r)⟩

def Entry.norm (e : Entry) : Entry :=
  ⟨e.guard.norm, e.flag, match e.value with | none => none | some (s, r) => some (s.norm, r)⟩

/-- A struct literal `{ field: expr, .. }` read as a substitution: the head component of a path is a
field of the literal, the rest is a sub-field of its value. Unknown fields are marked. -/
def viaLiteral (lit : List (String × Src)) : Path → Src
  | [] => .var ["?empty"]
  | h :: rest =>
    match lit.lookup h with
    | some (.var q) => .var (q ++ rest)
    | some (.const t) => .const t
    | some (.fold f s) => if rest = [] then .fold f s else .var ("?field-of-folded" :: h :: rest)
    | none => .var ("?unmapped" :: h :: rest)

/-- Derived locals (`let owner = … options.owner.to_lowercase() …`) read as a substitution: only the
listed single-component paths are rewritten. -/
def viaLocals (lit : List (String × Src)) : Path → Src
  | [h] => match lit.lookup h with | some s => s | none => .var [h]
  | p => .var p

/-- The valuation of the target record given the valuation of the source record. -/
def through (f : Path → Src) (σ : Valuation) : Valuation := fun p => evalSrc σ (f p)

/-! ## Where `add_node` stores the registry-wide environment, and how an `add` can end -/

/-- Position of the statement that copies `options.env_variables` into the registry, relative to the
install loop and to the `return Err(..)` taken when some installs failed. -/
inductive EnvStorePos where
  | beforeInstalls | afterLoop | afterFailureReturn | never
  deriving DecidableEq, Repr

/-- How `add_node` returned: every service installed; the loop finished but some installs failed
(`Err` after the loop); a `?` inside the loop returned early. In the last two cases the services
installed so far stay installed and recorded. -/
inductive AddOutcome where
  | allInstalled | someFailed | aborted
  deriving DecidableEq, Repr

def envStored : EnvStorePos → AddOutcome → Bool
  | .beforeInstalls, _ => true
  | .afterLoop, .aborted => false
  | .afterLoop, _ => true
  | .afterFailureReturn, .allInstalled => true
  | .afterFailureReturn, _ => false
  | .never, _ => false

/-! ## The clap surface -/

inductive Arity where
  | flag | one | many
  deriving DecidableEq, Repr

structure Decl where
  id : String
  field : String
  long : String
  arity : Arity
  required : Bool
  delimiter : Bool
  conflicts : List String
  requiredIfEq : List (String × String)
  feature : Option (Bool × String)
  group : String
  deriving DecidableEq, Repr

/-- Is the declaration compiled in under the given feature set? -/
def Decl.active (feats : List String) (d : Decl) : Bool :=
  match d.feature with
  | none => true
  | some (true, f) => feats.contains f
  | some (false, f) => !feats.contains f

/-- The value shape of an emitted item fits the declared arity. -/
def arityFits (d : Decl) : IVal → Bool
  | .none => d.arity == .flag
  | .one _ => d.arity == .one || d.arity == .many
  | .joined _ => d.arity == .many && d.delimiter

def findLong (ds : List Decl) (n : String) : Option Decl := ds.find? (fun d => d.long == n)

/-- Parsed value of one declared argument. -/
inductive PVal where
  | absent
  | set
  | one (s : String)
  | many (l : List String)
  deriving DecidableEq, Repr

def pvalOf : IVal → PVal
  | .none => .set
  | .one s => .one s
  | .joined l => .many l

abbrev Slots := String → PVal

def Slots.empty : Slots := fun _ => .absent
def Slots.put (s : Slots) (id : String) (v : PVal) : Slots := fun x => if x = id then v else s x

inductive PErr where
  | unknown (n : String)
  | arity (n : String)
  | duplicate (n : String)
  | positional
  | unknownSubcommand (w : String)
  | missing (id : String)
  | conflict (a b : String)
  | requiredIf (id : String)
  | untokenisable
  deriving DecidableEq, Repr

/-- Options only (no positional): every option must be declared, fit its arity and occur once. -/
def parseOpts (ds : List Decl) : List Item → Slots → Except PErr Slots
  | [], s => .ok s
  | it :: rest, s =>
    match it.flag with
    | none => .error .positional
    | some n =>
      match findLong ds n with
      | none => .error (.unknown n)
      | some d =>
        if arityFits d it.value then
          if s d.id = .absent then parseOpts ds rest (s.put d.id (pvalOf it.value))
          else .error (.duplicate n)
        else .error (.arity n)

def firstMissing (ds : List Decl) (s : Slots) : Option String :=
  (ds.find? (fun d => d.required && s d.id == .absent)).map (·.id)

def firstConflict (ds : List Decl) (s : Slots) : Option (String × String) :=
  ds.findSome? fun d =>
    if s d.id == .absent then none
    else (d.conflicts.find? (fun c => s c != .absent)).map (fun c => (d.id, c))

def firstRequiredIf (ds : List Decl) (s : Slots) : Option String :=
  ds.findSome? fun d =>
    if s d.id != .absent then none
    else if d.requiredIfEq.any (fun (o, v) => s o == .one v) then some d.id else none

def finalChecks (ds : List Decl) (s : Slots) : Except PErr Unit :=
  match firstMissing ds s with
  | some id => .error (.missing id)
  | none =>
    match firstConflict ds s with
    | some (a, b) => .error (.conflict a b)
    | none =>
      match firstRequiredIf ds s with
      | some id => .error (.requiredIf id)
      | none => .ok ()

structure Parsed where
  top : Slots
  sub : Option (String × Slots)

def splitAtPositional : List Item → List Item × Option (String × List Item)
  | [] => ([], none)
  | it :: rest =>
    match it.flag, it.value with
    | none, .one w => ([], some (w, rest))
    | none, _ => ([], some ("", rest))
    | some _, _ =>
      let (pre, r) := splitAtPositional rest
      (it :: pre, r)

/-- The clap subset: `[top-level options]* [subcommand [its options]*]`. Options after the
subcommand word belong to the subcommand (clap does not look them up at the top level). -/
def parse (top : List Decl) (subs : List (String × String × List Decl)) (items : List Item) : Except PErr Parsed :=
  let (pre, r) := splitAtPositional items
  match parseOpts top pre Slots.empty with
  | .error e => .error e
  | .ok st =>
    match finalChecks top st with
    | .error e => .error e
    | .ok () =>
      match r with
      | none => .ok ⟨st, none⟩
      | some (w, post) =>
        match subs.find? (fun x => x.1 == w) with
        | none => .error (.unknownSubcommand w)
        | some (_, variant, ds) =>
          match parseOpts ds post Slots.empty with
          | .error e => .error e
          | .ok ss =>
            match finalChecks ds ss with
            | .error e => .error e
            | .ok () => .ok ⟨st, some (variant, ss)⟩

/-! ## The argv level: what `ServiceInstallCtx.args` holds, and clap's tokeniser (subset)

Both argument builders push every option as two separate strings `--name`, `value` (never
`--name=value`), a list as ONE string of its elements joined by `,`, a flag as `--name`, the EVM
network as one bare word. `argv` is that flattening (the correspondence run of component `upgrade`
compares it string by string with the real `ServiceInstallCtx.args`). `lex` is what clap 4 makes of
such a string list before it looks at the declarations' checks: which strings are options, which are
values, where the subcommand starts. -/

def IVal.words : IVal → List String
  | .none => []
  | .one s => [s]
  | .joined l => [",".intercalate l]

def Item.words (it : Item) : List String :=
  (match it.flag with | some n => ["--" ++ n] | none => []) ++ it.value.words

/-- `flatten`: the strings of `ServiceInstallCtx.args`. -/
def argv (items : List Item) : List String := items.flatMap Item.words

/-- The declarations of the subcommand selected by the word `w` (none if it is no subcommand). -/
def subDecls (subs : List (String × String × List Decl)) (w : String) : List Decl :=
  match subs.find? (fun x => x.1 == w) with
  | some x => x.2.2
  | none => []

/-- clap_lex's view of one string: `--` alone (escape), `--body` (long option, possibly `name=value`),
`-x…` (short options — antnode declares none), anything else (incl. `-` alone and the empty string)
is a value or a positional word. -/
inductive Tok where
  | long (body : List Char)
  | escape
  | short
  | word
  deriving DecidableEq, Repr

def classify : List Char → Tok
  | c₁ :: c₂ :: r =>
    if c₁ = '-' then (if c₂ = '-' then (if r = [] then .escape else .long r) else .short) else .word
  | _ => .word

/-- A string clap never takes as the value of an option written before it (no antnode argument sets
`allow_hyphen_values` / `allow_negative_numbers`): it starts with `-` and is not `-` alone. -/
def looksLikeOption (s : String) : Bool :=
  match classify s.toList with
  | .word => false
  | _ => true

/-- `str::split(c)`: always at least one piece. -/
def splitOnChar (c : Char) : List Char → List (List Char)
  | [] => [[]]
  | x :: xs =>
    if x = c then [] :: splitOnChar c xs
    else match splitOnChar c xs with
      | p :: ps => (x :: p) :: ps
      | [] => [[x]]

/-- Split at the first `c` (`--name=value`). -/
def splitFirst (c : Char) : List Char → List Char × Option (List Char)
  | [] => ([], none)
  | x :: xs => if x = c then ([], some xs) else (x :: (splitFirst c xs).1, (splitFirst c xs).2)

/-- The value string of an option as clap stores it: `value_delimiter = ','` splits it. -/
def lexValue (d : Decl) (v : String) : IVal :=
  if d.delimiter then .joined ((splitOnChar ',' v.toList).map String.ofList) else .one v

/-- clap's tokeniser on the subset antnode declares (long options only, one optional level of
subcommands, no positional arguments). State: the declarations in scope, whether the subcommand word
has been seen, and the option still waiting for its value (clap's `ParseState::Opt`).
`none` = clap rejects the command line at this level (unknown option, `a value is required`, `--`,
a short option, a second bare word), whatever the later checks would say. -/
def lexGo (subs : List (String × String × List Decl)) :
    List Decl → Bool → Option (String × Decl) → List String → Option (List Item)
  | _, _, none, [] => some []
  | _, _, some _, [] => none
  | ds, inSub, some (n, d), a :: rest =>
    if looksLikeOption a then none
    else (lexGo subs ds inSub none rest).map (⟨some n, lexValue d a⟩ :: ·)
  | ds, inSub, none, a :: rest =>
    match classify a.toList with
    | .escape => none
    | .short => none
    | .long body =>
      let n := String.ofList (splitFirst '=' body).1
      match findLong ds n with
      | none => none
      | some d =>
        match (splitFirst '=' body).2 with
        | some v =>
          if d.arity == .flag then none
          else (lexGo subs ds inSub none rest).map (⟨some n, lexValue d (String.ofList v)⟩ :: ·)
        | none =>
          if d.arity == .flag then (lexGo subs ds inSub none rest).map (⟨some n, .none⟩ :: ·)
          else lexGo subs ds inSub (some (n, d)) rest
    | .word =>
      if inSub then none
      else (lexGo subs (subDecls subs a) true none rest).map (⟨none, .one a⟩ :: ·)

def lex (top : List Decl) (subs : List (String × String × List Decl)) (args : List String) : Option (List Item) :=
  lexGo subs top false none args

/-- Tokenise, then parse. -/
def parseArgv (top : List Decl) (subs : List (String × String × List Decl)) (args : List String) : Except PErr Parsed :=
  match lex top subs args with
  | none => .error .untokenisable
  | some items => parse top subs items

/-! ### The side condition under which `lex (argv items) = items` (proved in `Proofs/ArgLex.lean`) -/

/-- The value part of an item survives flattening and re-tokenisation: a single value does not look
like an option; a list is non-empty, none of its elements contains the delimiter, and the joined
string does not look like an option. -/
def IVal.lexSafe : IVal → Bool
  | .none => true
  | .one s => !looksLikeOption s
  | .joined l => !l.isEmpty && l.all (fun s => !s.toList.contains ',') && !looksLikeOption (",".intercalate l)

/-- **ValuesLexSafe**: every value of the argument list survives flattening and re-tokenisation. -/
def ValuesLexSafe (items : List Item) : Bool := items.all fun it => it.value.lexSafe

end SafeNet.ArgTable
