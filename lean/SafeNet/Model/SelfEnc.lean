/-
C14 model: `autonomi/src/self_encryption.rs` (`encrypt`, `pack_data_map`, `wrap_data_map`, `DataMapLevel`) and the
fetch side in `autonomi/src/client/utils.rs` (`fetch_from_data_map`, `fetch_from_data_map_chunk`,
`process_tasks_with_max_concurrency`), written over a structure parameter `SE` that stands for everything that is
NOT repo code: the third-party `self_encryption` crate (`enc`, `infos`, `dec`), `XorName::from_content` (`hash`)
and the `rmp_serde` codec of `DataMapLevel` (`wrap`/`unwrap`) and of `Chunk` (`bin`/`unbin`: a chunk serialises as
its value wrapped in a msgpack `bin`).  Byte strings `B` and data maps `DM` are abstract types, so the same
functions run in the compiled driver over a symbolic instance.  Import-free apart from the generated flags.
-/
import SafeNet.Gen.SelfEnc
namespace SafeNet.Model.SelfEnc

/-- Everything the repo code calls but does not define. -/
structure SE (B DM : Type) where
  /-- `Bytes::len` -/
  len : B → Nat
  /-- `XorName::from_content` (sha3-256) -/
  hash : B → Nat
  /-- `self_encryption::encrypt`: data map and the encrypted chunk contents (the crate returns them in no particular
  order; the repo's `encrypt` drops their indices); `none` = `Err` -/
  enc : B → Option (DM × List B)
  /-- `DataMap::infos().dst_hash`, in index order -/
  infos : DM → List Nat
  /-- `self_encryption::decrypt_full_set(data_map, chunks)` on `(index, content)` pairs in the order handed over -/
  dec : DM → List (Nat × B) → Option B
  /-- `wrap_data_map(&DataMapLevel::First(dm))` (`false`) / `Additional(dm)` (`true`) -/
  wrap : Bool → DM → B
  /-- `rmp_serde::from_slice::<DataMapLevel>` -/
  unwrap : B → Option (Bool × DM)
  /-- rmp serialisation of a `Chunk` with this value (`Chunk`'s `Serialize` writes only the value, as msgpack `bin`) -/
  bin : B → B
  /-- `rmp_serde::from_slice::<Chunk>(..).value` -/
  unbin : B → Option B

/-- `ant_protocol::storage::Chunk`: the address is never an input, `Chunk::new` derives it from the content. -/
structure Chunk (B : Type) where
  address : Nat
  value : B

variable {B DM : Type}

/-- `Chunk::new(value)` -/
def Chunk.new (S : SE B DM) (value : B) : Chunk B := ⟨S.hash value, value⟩

inductive EncErr where
  | selfEncryption
  | outOfFuel
  deriving DecidableEq, Repr

/-- `GetError` as far as the read path distinguishes; `other` carries the class of a `chunk_get` failure. -/
inductive GetErr where
  | invalidDataMap
  | decryption
  | outOfFuel
  | other (cls : String)
  deriving DecidableEq, Repr

/-! ## Completion orders

`process_tasks_with_max_concurrency` returns the results in completion order. A completion order of `n` tasks is
given by a Lehmer-style code: `permute (p :: ps) (x :: xs)` inserts `x` at position `p` into the arrangement of the
remaining tasks. Every code denotes a permutation (`Proofs.SelfEnc.permute_perm`) and every permutation has a code
(`Proofs.SelfEnc.permute_surj`; together `Props.C14.completion_codes_are_the_permutations`). -/

def insertAt {α : Type} (p : Nat) (x : α) : List α → List α
  | [] => [x]
  | y :: ys => match p with
    | 0 => x :: y :: ys
    | p + 1 => y :: insertAt p x ys

def permute {α : Type} : List Nat → List α → List α
  | _, [] => []
  | [], x :: xs => x :: xs
  | p :: ps, x :: xs => insertAt p x (permute ps xs)

/-- `.into_iter().collect::<Result<Vec<_>, _>>()`: the first error in list order, else all values. -/
def collect {ε α : Type} : List (Except ε α) → Except ε (List α)
  | [] => .ok []
  | .error e :: _ => .error e
  | .ok a :: rest => match collect rest with
    | .error e => .error e
    | .ok as => .ok (a :: as)

/-! ## Packing (`self_encryption.rs`) -/

/-- what `pack_data_map` hands to `self_encryption::encrypt` for a chunk that is too big -/
def packedBytes (S : SE B DM) (content : B) : B :=
  if Gen.SelfEnc.packSerialisesChunk then S.bin content else content

/-- The `loop` of `pack_data_map`; `fuel` bounds the number of iterations (the Rust loop has no bound). -/
def packLoop (S : SE B DM) (max : Nat) : Nat → B → List (Chunk B) → Except EncErr (Chunk B × List (Chunk B))
  | 0, _, _ => .error .outOfFuel
  | fuel + 1, chunkContent, chunks =>
    let chunk := Chunk.new S chunkContent
    if Gen.SelfEnc.packFits max (S.len chunk.value) then
      .ok (chunk, if Gen.SelfEnc.chunksReversedOnReturn then chunks.reverse else chunks)
    else
      match S.enc (packedBytes S chunk.value) with
      | none => .error .selfEncryption
      | some (dataMap, nextEncryptedChunks) =>
        let next := nextEncryptedChunks.map (Chunk.new S)
        let chunks' := if Gen.SelfEnc.nextChunksPrepended then next ++ chunks else chunks ++ next
        packLoop S max fuel (S.wrap true dataMap) chunks'

/-- `pack_data_map` -/
def packDataMap (S : SE B DM) (max fuel : Nat) (dataMap : DM) : Except EncErr (Chunk B × List (Chunk B)) :=
  packLoop S max fuel (S.wrap false dataMap) []

/-- `autonomi::self_encryption::encrypt`: (data-map chunk, content chunks followed by the additional ones) -/
def encrypt (S : SE B DM) (max fuel : Nat) (data : B) : Except EncErr (Chunk B × List (Chunk B)) :=
  match S.enc data with
  | none => .error .selfEncryption
  | some (dataMap, chunks) =>
    match packDataMap S max fuel dataMap with
    | .error e => .error e
    | .ok (dataMapChunk, additional) => .ok (dataMapChunk, chunks.map (Chunk.new S) ++ additional)

/-! ## The client entry points that take the caller's bytes to self-encryption (`client/data/mod.rs`, `data/public.rs`) -/

/-- `Client::data_put` (private), `Client::data_put_public`, `Client::data_cost`, `external_signer::encrypt_data` (also
behind the wasm binding `encryptData`), `Client::file_cost` (the direct `encrypt` of the file's bytes for the archive's
map address). These are ALL the callers of the repo's `encrypt` in autonomi/src (`Gen.SelfEnc.encryptCallSites`: the
translation fails on an unlisted one), apart from python.rs, which calls the third-party crate directly
(`pythonEncrypt` below). -/
inductive Entry where
  | dataPut
  | dataPutPublic
  | dataCost
  | externalSigner
  | fileCost
  deriving DecidableEq, Repr

/-- does this entry point hand the caller's bytes to `encrypt` unchanged (read from the source by rs2lean)? -/
def Entry.passesBytesUnchanged : Entry → Bool
  | .dataPut => Gen.SelfEnc.dataPutEncryptsCallerBytes
  | .dataPutPublic => Gen.SelfEnc.dataPutPublicEncryptsCallerBytes
  | .dataCost => Gen.SelfEnc.dataCostEncryptsCallerBytes
  | .externalSigner => Gen.SelfEnc.externalSignerEncryptsCallerBytes
  | .fileCost => Gen.SelfEnc.fileCostEncryptsFileBytes

/-- python.rs `encrypt`, as far as the chunk contents it returns go: with the flag (read from the source: the binding
calls the THIRD-PARTY `self_encryption::encrypt` itself) the contents of the first-level chunks of the caller's bytes
and the bare `DataMap` — no `pack_data_map`, no `DataMapLevel` chunk; without it (the binding routed through the repo's
`encrypt`) the contents of ALL produced chunks. Either way an input the crate refuses is an error. -/
def pythonEncrypt (S : SE B DM) (max fuel : Nat) (data : B) : Except EncErr (List B) :=
  if Gen.SelfEnc.pythonEncryptBypassesPacking then
    match S.enc data with
    | none => .error .selfEncryption
    | some (_, cs) => .ok cs
  else
    match encrypt S max fuel data with
    | .error e => .error e
    | .ok (_, chunks) => .ok (chunks.map (·.value))

/-- What the entry point self-encrypts: the caller's bytes, or — if the source does anything else with them first —
some unknown function `pre` of them. Everything after `encrypt` (payment, upload, reporting) does not touch the result:
the private put returns the data-map chunk, the public one its address. -/
def putEntry (S : SE B DM) (max fuel : Nat) (pre : B → B) (e : Entry) (data : B) :
    Except EncErr (Chunk B × List (Chunk B)) :=
  encrypt S max fuel (if e.passesBytesUnchanged then data else pre data)

/-- The chunks the entry point hands to `upload_chunks_with_retries` (read from the source by rs2lean): the private put
all chunks `encrypt` returned (the data-map chunk goes back to the caller), the public put all of them and the data-map
chunk; the cost estimate uploads nothing. -/
def uploaded (e : Entry) (dataMapChunk : Chunk B) (chunks : List (Chunk B)) : List (Chunk B) :=
  match e with
  | .dataPut => if Gen.SelfEnc.dataPutUploadsChunks then chunks else []
  | .dataPutPublic =>
    (if Gen.SelfEnc.dataPutPublicUploadsChunks then chunks else []) ++
      (if Gen.SelfEnc.dataPutPublicUploadsDataMap then [dataMapChunk] else [])
  | .dataCost => []
  | .externalSigner => []
  | .fileCost => []

/-- The records `upload_chunks_with_retries` / `chunk_upload_with_payment` PUT, as the chunks a holder then stores under
their keys: every handed-in chunk the receipt has an entry for (`paid`, by chunk name = address), keyed by its own
address, value unchanged (flags from the source). A chunk without a receipt entry is skipped as "already paid" — and the
put still returns `Ok`. -/
def putRecords (paid : Nat → Bool) (cs : List (Chunk B)) : List (Chunk B) :=
  if Gen.SelfEnc.uploadSkipsOnlyUnpaid && Gen.SelfEnc.putRecordIsChunkUnderOwnAddress then cs.filter (fun c => paid c.address)
  else []

/-! ## Fetching (`client/utils.rs`) -/

/-- one download task of `fetch_from_data_map`: `chunk_get(info.dst_hash)` mapped to `EncryptedChunk { index, content }` -/
def taskResult (get : Nat → Except GetErr (Chunk B)) (t : Nat × Nat) : Except GetErr (Nat × B) :=
  match get t.1 with
  | .error e => .error e
  | .ok chunk => .ok (t.2, chunk.value)

/-- drop the entries whose address an earlier entry already has -/
def firstOfEachAddress : List (Nat × Nat) → List Nat → List (Nat × Nat)
  | [], _ => []
  | t :: ts, seen => if seen.contains t.1 then firstOfEachAddress ts seen else t :: firstOfEachAddress ts (t.1 :: seen)

/-- the download tasks of `fetch_from_data_map`: one per entry of the data map — `(dst_hash, index)` — even when several
entries name the same address (repeated content); or, if the source skips entries in its loop, one per distinct address -/
def downloadTasks (infos : List Nat) : List (Nat × Nat) :=
  if Gen.SelfEnc.fetchRequestsEveryInfo then infos.zipIdx else firstOfEachAddress infos.zipIdx []

/-- `fetch_from_data_map`: one `chunk_get(info.dst_hash)` per info, results in completion order (`code`), the first
error in that order wins, then `decrypt_full_set`. -/
def fetchFromDataMap (S : SE B DM) (get : Nat → Except GetErr (Chunk B)) (code : List Nat) (dataMap : DM) :
    Except GetErr B :=
  let tasks := downloadTasks (S.infos dataMap)
  let completed := permute code tasks
  match collect (completed.map (taskResult get)) with
  | .error e => .error e
  | .ok encryptedChunks =>
    match S.dec dataMap encryptedChunks with
    | none => .error .decryption
    | some data => .ok data

/-- what the `Additional` arm of the fetch loop deserialises as `DataMapLevel` -/
def unpackedLevel (S : SE B DM) (data : B) : Option (Bool × DM) :=
  if Gen.SelfEnc.fetchUnwrapsChunk then
    match S.unbin data with
    | none => none
    | some value => S.unwrap value
  else S.unwrap data

/-- The `loop` of `fetch_from_data_map_chunk`; `codes` = completion order of every round, first round first. -/
def fetchLoop (S : SE B DM) (get : Nat → Except GetErr (Chunk B)) :
    Nat → List (List Nat) → Bool × DM → Except GetErr B
  | 0, _, _ => .error .outOfFuel
  | fuel + 1, codes, (additional, dataMap) =>
    match fetchFromDataMap S get (codes.headD []) dataMap with
    | .error e => .error e
    | .ok data =>
      if additional then
        match unpackedLevel S data with
        | none => .error .invalidDataMap
        | some level => fetchLoop S get fuel codes.tail level
      else .ok data

/-- `fetch_from_data_map_chunk` -/
def fetchFromDataMapChunk (S : SE B DM) (get : Nat → Except GetErr (Chunk B)) (fuel : Nat)
    (codes : List (List Nat)) (dataMapBytes : B) : Except GetErr B :=
  match S.unwrap dataMapBytes with
  | none => .error .invalidDataMap
  | some level => fetchLoop S get fuel codes level

/-- A record source that holds exactly the given chunks under their own addresses and answers honestly. -/
def storeGet (chunks : List (Chunk B)) (addr : Nat) : Except GetErr (Chunk B) :=
  match chunks.find? (fun c => c.address == addr) with
  | some c => .ok c
  | none => .error (.other "nf")

end SafeNet.Model.SelfEnc
