import SafeNet.Gen.Fetcher
/-!
Model of `ant-networking/src/replication_fetcher.rs` (`ReplicationFetcher`), property C08.

* keys, record types and peers are natural numbers (the fetcher only compares them for equality);
  record type codes used by the harness: `0` = `Chunk`, `1` = `Scratchpad`, `n+2` = `NonChunk(hash #n)`.
* `dist : Nat → Nat` is the 256-bit XOR distance key ↔ self, supplied as data.
* `to_be_fetched` / `on_going_fetches` are lists of entries in insertion order; the `HashMap` key
  uniqueness is an invariant proved in `Proofs/Fetcher.lean`, not a built-in.
* Time: `now` counts whole seconds of simulated time (`age d`). The real clock is strictly ahead of the
  tick at which a deadline was computed by a sub-second amount, so the source comparisons
  `*time_out < Instant::now()` / `*time_out > Instant::now()` are evaluated on half ticks:
  deadline `2*d` against clock `2*now+1`. The operators themselves are the generated ones.
* `HashMap` iteration order in `next_keys_to_fetch`: the operation carries the implementation's returned
  batch as a choice witness; `legal` says exactly when a batch can be produced by the greedy loop over
  *some* distance-sorted order of `to_be_fetched` (stable sort, ties = entries of the same key).
-/
namespace SafeNet.Fetcher
open SafeNet.Gen.Fetcher

structure Entry where
  key : Nat
  ty : Nat
  holder : Nat
  deadline : Nat
deriving DecidableEq, Repr

structure State where
  tbf : List Entry := []
  ogf : List Entry := []
  range : Option Nat := none
  farthest : Option Nat := none
  now : Nat := 0
deriving Repr

def State.init : State := {}

/-- what a call hands back: the scheduled `(holder, key)` pairs (with the record type made explicit and the
fetch deadline), the holders reported through `NetworkEvent::FailedToFetchHolders` (unsorted, with
repetitions; `[]` = no event), and whether the choice witness was rejected -/
structure Out where
  ret : List Entry := []
  failed : List Nat := []
  illegal : Bool := false
deriving Repr

def sameKT (k t : Nat) (e : Entry) : Bool := e.key == k && e.ty == t
def sameKTH (k t h : Nat) (e : Entry) : Bool := e.key == k && e.ty == t && e.holder == h
def hasKT (l : List Entry) (k t : Nat) : Bool := l.any (sameKT k t)
def hasKTH (l : List Entry) (k t h : Nat) : Bool := l.any (sameKTH k t h)

/-- `locally_stored_keys` test of `add_keys` (first loop) -/
def skipHeld (locals : List (Nat × Nat)) (k t : Nat) : Bool :=
  if skipHeldSameTypeOnly then locals.lookup k == some t else (locals.lookup k).isSome

/-- `remove_stored_keys`: an entry goes when the key is held with the same record type -/
def heldSame (locals : List (Nat × Nat)) (e : Entry) : Bool := locals.lookup e.key == some e.ty

/-- first loop of `add_keys`: which incoming `(key, type)` become `new_incoming_keys` -/
def admits (dist : Nat → Nat) (s : State) (locals : List (Nat × Nat)) (h : Nat) (kt : Nat × Nat) : Bool :=
  !skipHeld locals kt.1 kt.2 && !hasKTH s.tbf kt.1 kt.2 h &&
  (match s.farthest with
   | some f => !beyondFarthest (dist kt.1) f
   | none => true)

def expired (now : Nat) (e : Entry) : Bool := fetchExpired (2 * e.deadline) (2 * now + 1)
def alive (now : Nat) (e : Entry) : Bool := pendingAlive (2 * e.deadline) (2 * now + 1)

/-- `prune_expired_keys_and_slow_nodes` -/
def prune (s : State) : State × List Nat :=
  let failed := (s.ogf.filter (expired s.now)).map (·.holder)
  ({ s with ogf := s.ogf.filter (fun e => !expired s.now e),
            tbf := s.tbf.filter (fun e => !failed.contains e.holder) }, failed)

def sortedBy (dist : Nat → Nat) : List Entry → Bool
  | [] => true
  | [_] => true
  | a :: b :: rest => decide (dist a.key ≤ dist b.key) && sortedBy dist (b :: rest)

def kt (e : Entry) : Nat × Nat := (e.key, e.ty)
def kth (e : Entry) : Nat × Nat × Nat := (e.key, e.ty, e.holder)

/-- Can the greedy loop of `next_keys_to_fetch` return `choice` for some iteration order?
`tbf`, `ogf` are the queues after pruning, with `ogf.length < MAX_PARALLEL_FETCH`. -/
def legal (dist : Nat → Nat) (tbf ogf choice : List Entry) : Bool :=
  decide (ogf.length + choice.length ≤ maxParallelFetch) &&
  choice.all (fun c => hasKTH tbf c.key c.ty c.holder) &&
  choice.all (fun c => !hasKT ogf c.key c.ty) &&
  decide ((choice.map kt).Nodup) &&
  sortedBy dist choice &&
  tbf.all (fun e =>
    hasKT ogf e.key e.ty || hasKT choice e.key e.ty ||
    (decide (maxParallelFetch ≤ ogf.length + choice.length) &&
     choice.all (fun c => decide (dist c.key ≤ dist e.key))))

/-- `next_keys_to_fetch` from the pruning call on. (The source's early return on an empty `to_be_fetched` *after*
pruning is subsumed: with an empty queue the only legal batch is the empty one and the state is unchanged.) -/
def nextKeysCore (dist : Nat → Nat) (s : State) (choice : List Entry) : State × Out :=
  let (s1, failed) := prune s
  if maxParallelFetch ≤ s1.ogf.length then
    (s1, { failed := failed, illegal := !choice.isEmpty })
  else if legal dist s1.tbf s1.ogf choice then
    let sched := choice.map (fun c => { c with deadline := s1.now + fetchTimeout })
    ({ s1 with ogf := s1.ogf ++ sched,
               tbf := s1.tbf.filter (fun e => !hasKTH choice e.key e.ty e.holder) },
     { ret := sched, failed := failed })
  else
    (s1, { failed := failed, illegal := true })

/-- `next_keys_to_fetch`. The generated flag says whether `prune_expired_keys_and_slow_nodes` runs before the
empty-queue early return (as it does today); were the early return to come first, an empty queue would skip the
pruning — timed-out fetches would stay in flight and their holders unreported. -/
def nextKeys (dist : Nat → Nat) (s : State) (choice : List Entry) : State × Out :=
  if !pruneBeforeEmptyQueueReturn && s.tbf.isEmpty then
    (s, { illegal := !choice.isEmpty })
  else nextKeysCore dist s choice

/-- insertion of the in-range new keys: `entry(..).or_insert(now + PENDING_TIMEOUT)` -/
def insertPending (now h : Nat) (tbf : List Entry) (new : List (Nat × Nat)) : List Entry :=
  new.foldl (fun acc p =>
    if hasKTH acc p.1 p.2 h then acc else acc ++ [⟨p.1, p.2, h, now + pendingTimeout⟩]) tbf

/-- the condition of the single-key fast path of `add_keys`, with `single` = the fast path needs a single-key
ADVERTISEMENT (`total_incoming_keys == 1 && new_incoming_keys.len() == 1`; otherwise `new_incoming_keys.len() == 1`
alone): the key that takes it, if any -/
def fastKeyWith (single : Bool) (incoming new : List (Nat × Nat)) : Option (Nat × Nat) :=
  match new with
  | [p] => if single && incoming.length != 1 then none else some p
  | _ => none

/-- the part of `add_keys` before the final `next_keys_to_fetch`; returns the fast-path result -/
def addCoreWith (single : Bool) (dist : Nat → Nat) (s : State) (h : Nat) (incoming locals : List (Nat × Nat)) :
    State × List Entry :=
  let new := incoming.filter (admits dist s locals h)
  let tbf1 := s.tbf.filter (fun e => !heldSame locals e)
  let ogf1 := s.ogf.filter (fun e => !heldSame locals e)
  match fastKeyWith single incoming new with
  | some p =>
    -- single new key: fetched at once unless that (key, type) is in flight; nothing is queued
    let tbf2 := tbf1.filter (alive s.now)
    let e : Entry := ⟨p.1, p.2, h, s.now + fetchTimeout⟩
    if hasKT ogf1 p.1 p.2 then
      if fastPathChecksOngoing then ({ s with tbf := tbf2, ogf := ogf1 }, [])
      else ({ s with tbf := tbf2, ogf := (ogf1.filter (fun o => !sameKT p.1 p.2 o)) ++ [e] }, [e])
    else
      ({ s with tbf := tbf2, ogf := ogf1 ++ [e] }, [e])
  | none =>
    let tbf2 := tbf1.filter (alive s.now)
    let new3 := match s.range with
      | some r => new.filter (fun p => rangeOk (dist p.1) r)
      | none => new
    ({ s with tbf := insertPending s.now h tbf2 new3, ogf := ogf1 }, [])

def fastKey (incoming new : List (Nat × Nat)) : Option (Nat × Nat) := fastKeyWith fastPathNeedsSingleAdvert incoming new

def addCore (dist : Nat → Nat) (s : State) (h : Nat) (incoming locals : List (Nat × Nat)) : State × List Entry :=
  addCoreWith fastPathNeedsSingleAdvert dist s h incoming locals

/-- `add_keys` after its first part `r`; `choice` is the whole returned list, the model checks that it starts with the
fast-path result and that the rest is a legal batch -/
def addKeysFrom (dist : Nat → Nat) (r : State × List Entry) (choice : List Entry) : State × Out :=
  let (s1, fast) := r
  match fast with
  | [] =>
    nextKeys dist s1 choice
  | f :: _ =>
    match choice with
    | c :: rest =>
      if c.key == f.key && c.ty == f.ty && c.holder == f.holder then
        let (s2, o) := nextKeys dist s1 rest
        (s2, { o with ret := fast ++ o.ret })
      else
        let (s2, o) := nextKeys dist s1 []
        (s2, { o with ret := fast ++ o.ret, illegal := true })
    | [] =>
      let (s2, o) := nextKeys dist s1 []
      (s2, { o with ret := fast ++ o.ret, illegal := true })

/-- `add_keys` -/
def addKeys (dist : Nat → Nat) (s : State) (h : Nat) (incoming locals : List (Nat × Nat))
    (choice : List Entry) : State × Out :=
  addKeysFrom dist (addCore dist s h incoming locals) choice

/-- `add_keys` with the fast-path condition given explicitly (for statements about the other shape of the source) -/
def addKeysWith (single : Bool) (dist : Nat → Nat) (s : State) (h : Nat) (incoming locals : List (Nat × Nat))
    (choice : List Entry) : State × Out :=
  addKeysFrom dist (addCoreWith single dist s h incoming locals) choice

/-- `set_farthest_on_full(Some(key))` with `d = dist key` (`None` is a no-op) -/
def setFull (dist : Nat → Nat) (s : State) (d : Nat) : State :=
  match s.farthest with
  | some old =>
    if farthestUnchanged d old then s
    else { s with tbf := s.tbf.filter (fun e => farthestKeep (dist e.key) d),
                  ogf := s.ogf.filter (fun e => farthestKeep (dist e.key) d),
                  farthest := some d }
  | none =>
    { s with tbf := s.tbf.filter (fun e => farthestKeep (dist e.key) d),
             ogf := s.ogf.filter (fun e => farthestKeep (dist e.key) d),
             farthest := some d }

/-- `notify_about_new_put`: same key *and* type leave `to_be_fetched`, same key leaves `on_going_fetches` -/
def newPut (dist : Nat → Nat) (s : State) (k t : Nat) (choice : List Entry) : State × Out :=
  nextKeys dist { s with tbf := s.tbf.filter (fun e => !sameKT k t e),
                         ogf := s.ogf.filter (fun e => !(e.key == k)) } choice

/-- `notify_fetch_early_completed`: same key and type leave both queues -/
def earlyDone (dist : Nat → Nat) (s : State) (k t : Nat) (choice : List Entry) : State × Out :=
  nextKeys dist { s with tbf := s.tbf.filter (fun e => !sameKT k t e),
                         ogf := s.ogf.filter (fun e => !sameKT k t e) } choice

inductive Op
  | add (holder : Nat) (incoming locals : List (Nat × Nat)) (choice : List Entry)
  | put (k t : Nat) (choice : List Entry)
  | early (k t : Nat) (choice : List Entry)
  | next (choice : List Entry)
  | setRange (r : Nat)
  | full (k : Option Nat)
  | age (d : Nat)
deriving Repr

def step (dist : Nat → Nat) (s : State) : Op → State × Out
  | .add h inc loc c => addKeys dist s h inc loc c
  | .put k t c => newPut dist s k t c
  | .early k t c => earlyDone dist s k t c
  | .next c => nextKeys dist s c
  | .setRange r => ({ s with range := some r }, {})
  | .full none => (s, {})
  | .full (some k) => (setFull dist s (dist k), {})
  | .age d => ({ s with now := s.now + d }, {})

def run (dist : Nat → Nat) (s : State) (ops : List Op) : State :=
  ops.foldl (fun s op => (step dist s op).1) s

/-- the returned lists along a run, oldest first -/
def outs (dist : Nat → Nat) : State → List Op → List Out
  | _, [] => []
  | s, op :: ops => (step dist s op).2 :: outs dist (step dist s op).1 ops

end SafeNet.Fetcher
