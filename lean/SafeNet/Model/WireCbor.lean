import SafeNet.Base.Cbor
import SafeNet.Model.Wire
import SafeNet.Gen.WireCodec
/-!
Model of the wire format of network MESSAGES (C12): `ant_protocol::messages::{Request, Response}` and everything
inside them travel through libp2p `request_response::cbor`, i.e. `cbor4ii::serde::to_vec` / `from_slice`.

* `CTree` — a value in serde's data model as `cbor4ii::serde::Serializer` sees it.  Unlike the MessagePack side
  (`Model/Wire.lean`, structs positional) struct and struct-variant bodies keep their FIELD NAMES (`record`): cbor4ii writes
  a struct as a map keyed by field name (`serialize_struct` → `Map::bounded(len)`, `serialize_field` → key then value).
  `toC` is that serializer (`cbor4ii/src/serde/ser.rs`): unit → empty array (`serialize_unit` = `Array::bounded(0)`),
  `None` → `null`, `Some(x)` → `x`, newtype struct → transparent, seq / tuple → definite-length array, `serialize_bytes` →
  byte string, unit variant → its name as text, newtype / tuple / struct variant → the one-entry map `{name: payload}`.
* `CSchema` — the shape of a Rust type; `ofC` is the type-directed reading of a CBOR item (strict: keys in declaration
  order, no unknown or missing key — exactly what the serializer writes), `conformsC` says a tree is a value of the type.
* the schemas of the message types, `writeMsg` / `readMsg` (the codec's `write_*` / `read_*` on a byte string).

The reader schema and the writer schema differ in ONE place that the source decides: `PrettyPrintRecordKey` has
hand-written `Serialize` and `Deserialize` impls; which data-model kind each uses is regenerated from the source
(`Gen.WireCodec.ppkSerKind` / `ppkDeKind`).
-/
namespace SafeNet.WireCbor
open SafeNet.Cbor SafeNet.Gen.WireCodec
open SafeNet.Wire (validUtf8 nm)

inductive CTree where
  | unit
  | bool (b : Bool)
  | u (n : Nat)
  | i (m : Nat)
  | str (s : List Nat)
  | bytes (s : List Nat)
  | none
  | some (t : CTree)
  | seq (ts : List CTree)
  | tup (ts : List CTree)
  | record (fs : List (List Nat × CTree))
  | uvar (name : List Nat)
  | nvar (name : List Nat) (t : CTree)
  deriving Repr, Inhabited

mutual
/-- `cbor4ii::serde::Serializer` -/
def toC : CTree → Val
  | .unit => .arr []
  | .bool b => .bool b
  | .u n => .uint n
  | .i m => .nint m
  | .str s => .text s
  | .bytes s => .bytes s
  | .none => .null
  | .some t => toC t
  | .seq ts => .arr (toCs ts)
  | .tup ts => .arr (toCs ts)
  | .record fs => .map (toCFields fs)
  | .uvar n => .text n
  | .nvar n t => .map [(.text n, toC t)]
def toCs : List CTree → List Val
  | [] => []
  | t :: ts => toC t :: toCs ts
def toCFields : List (List Nat × CTree) → List (Val × Val)
  | [] => []
  | (k, t) :: fs => (.text k, toC t) :: toCFields fs
end

inductive CSchema where
  | unit
  | bool
  | uint (bound : Nat)
  | str
  | bytes
  | bytesN (n : Nat)
  | opt (s : CSchema)
  | seq (s : CSchema)
  | tup (ss : List CSchema)
  /-- a struct / struct-variant body: field names in declaration order with their types -/
  | record (fs : List (List Nat × CSchema))
  | enum (vs : List (List Nat × CSchema))
  /-- payload marker of a unit variant -/
  | absent
  deriving Repr, Inhabited

def isUnitVariant (vs : List (List Nat × CSchema)) (name : List Nat) : Bool :=
  vs.any fun v => v.1 == name && (match v.2 with | .absent => true | _ => false)

mutual
/-- type-directed reading of a CBOR item -/
def ofC : CSchema → Val → Option CTree
  | .unit, .arr [] => some .unit
  | .bool, .bool b => some (.bool b)
  | .uint bound, .uint n => if n < bound then some (.u n) else none
  | .str, .text s => if validUtf8 s then some (.str s) else none
  | .bytes, .bytes s => some (.bytes s)
  | .bytesN n, .bytes s => if s.length = n then some (.bytes s) else none
  | .opt _, .null => some .none
  | .opt s, v => (ofC s v).map .some
  | .seq s, .arr xs => (xs.mapM (ofC s)).map .seq
  | .tup ss, .arr xs => (ofCTup ss xs).map .tup
  | .record fs, .map ps => (ofCRec fs ps).map .record
  | .enum vs, .text name => if isUnitVariant vs name then some (.uvar name) else none
  | .enum vs, .map [(.text name, payload)] => ofCVariant vs name payload
  | _, _ => none
def ofCTup : List CSchema → List Val → Option (List CTree)
  | [], [] => some []
  | s :: ss, x :: xs =>
    match ofC s x with
    | none => none
    | some t => (ofCTup ss xs).map (t :: ·)
  | _, _ => none
def ofCRec : List (List Nat × CSchema) → List (Val × Val) → Option (List (List Nat × CTree))
  | [], [] => some []
  | (k, s) :: fs, (.text k', x) :: ps =>
    match k == k' with
    | true =>
      match ofC s x with
      | none => none
      | some t => (ofCRec fs ps).map ((k, t) :: ·)
    | false => none
  | _, _ => none
def ofCVariant : List (List Nat × CSchema) → List Nat → Val → Option CTree
  | [], _, _ => none
  | (n, p) :: rest, name, payload =>
    match n == name with
    | true => (ofC p payload).map (.nvar name)
    | false => ofCVariant rest name payload
end

mutual
/-- `t` is a value of the type described by the schema -/
def conformsC : CSchema → CTree → Bool
  | .unit, .unit => true
  | .bool, .bool _ => true
  | .uint bound, .u n => n < bound
  | .str, .str s => validUtf8 s
  | .bytes, .bytes _ => true
  | .bytesN n, .bytes s => s.length = n
  | .opt _, .none => true
  | .opt s, .some t => conformsC s t
  | .seq s, .seq ts => ts.all (conformsC s)
  | .tup ss, .tup ts => conformsCTup ss ts
  | .record fs, .record ts => conformsCRec fs ts
  | .enum vs, .uvar name => isUnitVariant vs name
  | .enum vs, .nvar name t => conformsCVariant vs name t
  | _, _ => false
def conformsCTup : List CSchema → List CTree → Bool
  | [], [] => true
  | s :: ss, t :: ts => conformsC s t && conformsCTup ss ts
  | _, _ => false
def conformsCRec : List (List Nat × CSchema) → List (List Nat × CTree) → Bool
  | [], [] => true
  | (k, s) :: fs, (k', t) :: ts => k == k' && (conformsC s t && conformsCRec fs ts)
  | _, _ => false
def conformsCVariant : List (List Nat × CSchema) → List Nat → CTree → Bool
  | [], _, _ => false
  | (n, p) :: rest, name, t =>
    match n == name with
    | true => conformsC p t
    | false => conformsCVariant rest name t
end

/-! ## the codec on byte strings -/

/-- `Codec::write_request` / `write_response`: `cbor4ii::serde::to_vec(Vec::new(), &msg)` -/
def writeMsg (t : CTree) : List Nat := encode (toC t)

/-- `Codec::read_request` / `read_response` on the bytes read from the stream: `cbor4ii::serde::from_slice` takes one value of
the type from the front; what follows is not looked at (returned here so that theorems can speak about it) -/
def readMsg (s : CSchema) (bs : List Nat) : Option (CTree × List Nat) :=
  match decode bs with
  | none => none
  | some (v, r) => (ofC s v).map fun t => (t, r)

/-- the reader first cuts the stream at the codec's size limit (`io.take(REQUEST_SIZE_MAXIMUM)`, 1 MiB for requests, 10 MiB
for responses) -/
def readCapped (cap : Nat) (s : CSchema) (stream : List Nat) : Option (CTree × List Nat) := readMsg s (stream.take cap)

/-! ## schemas of the message types (field and variant names as on the wire) -/

def u8 : CSchema := .uint 256
def u64 : CSchema := .uint 18446744073709551616
def xorName : CSchema := .tup (List.replicate 32 u8)
def blsPublicKey : CSchema := .tup (List.replicate 48 u8)
def vecU8 : CSchema := .seq u8

def recordType : CSchema := .enum [(nm "Chunk", .absent), (nm "Scratchpad", .absent), (nm "NonChunk", xorName)]
def registerAddress : CSchema := .record [(nm "meta", xorName), (nm "owner", blsPublicKey)]
def scratchpadAddress : CSchema := .record [(nm "owner", blsPublicKey)]
def networkAddress : CSchema :=
  .enum [(nm "PeerId", .bytes), (nm "ChunkAddress", xorName), (nm "TransactionAddress", xorName),
    (nm "RegisterAddress", registerAddress), (nm "RecordKey", .bytes), (nm "ScratchpadAddress", scratchpadAddress)]
def quotingMetrics : CSchema :=
  .record [(nm "close_records_stored", u64), (nm "max_records", u64), (nm "received_payment_count", u64),
    (nm "live_time", u64), (nm "network_density", .opt xorName), (nm "network_size", .opt u64)]
/-- `SystemTime` (serde's impl): `{secs_since_epoch, nanos_since_epoch}`; seconds must fit the platform's `i64`, nanos `< 10⁹` -/
def systemTime : CSchema :=
  .record [(nm "secs_since_epoch", .uint 9223372036854775808), (nm "nanos_since_epoch", .uint 1000000000)]
def paymentQuote : CSchema :=
  .record [(nm "content", xorName), (nm "timestamp", systemTime), (nm "quoting_metrics", quotingMetrics),
    (nm "rewards_address", .bytesN 20), (nm "pub_key", vecU8), (nm "signature", vecU8)]

/-- a byte-like value in the data-model kind the source chose -/
def kindSchema : SerdeKind → CSchema
  | .seq => vecU8
  | .bytes => .bytes

/-- `ant_protocol::error::Error`, with the schema of `PrettyPrintRecordKey` as a parameter -/
def protocolError (pk : CSchema) : CSchema :=
  .enum [(nm "UserDataDirectoryNotObtainable", .absent), (nm "CouldNotObtainPortFromMultiAddr", .absent),
    (nm "ParseRetryStrategyError", .absent), (nm "CouldNotObtainDataDir", .absent),
    (nm "ChunkDoesNotExist", networkAddress), (nm "RegisterNotFound", registerAddress),
    (nm "RegisterAlreadyClaimed", blsPublicKey),
    (nm "RegisterRecordNotFound", .record [(nm "holder", networkAddress), (nm "key", networkAddress)]),
    (nm "ScratchpadHexDeserializeFailed", .absent), (nm "ScratchpadCipherTextFailed", .absent),
    (nm "ScratchpadCipherTextInvalid", .absent), (nm "GetStoreQuoteFailed", .absent),
    (nm "QuoteGenerationFailed", .absent),
    (nm "ReplicatedRecordNotFound", .record [(nm "holder", networkAddress), (nm "key", networkAddress)]),
    (nm "RecordHeaderParsingFailed", .absent), (nm "RecordParsingFailed", .absent), (nm "RecordExists", pk)]
def result (pk ok : CSchema) : CSchema := .enum [(nm "Ok", ok), (nm "Err", protocolError pk)]

def cmd : CSchema :=
  .enum [(nm "Replicate", .record [(nm "holder", networkAddress), (nm "keys", .seq (.tup [networkAddress, recordType]))]),
    (nm "PeerConsideredAsBad", .record [(nm "detected_by", networkAddress), (nm "bad_peer", networkAddress), (nm "bad_behaviour", .str)])]
def query : CSchema :=
  .enum [(nm "GetStoreQuote", .record [(nm "key", networkAddress), (nm "nonce", .opt u64), (nm "difficulty", u64)]),
    (nm "GetReplicatedRecord", .record [(nm "requester", networkAddress), (nm "key", networkAddress)]),
    (nm "GetRegisterRecord", .record [(nm "requester", networkAddress), (nm "key", networkAddress)]),
    (nm "GetChunkExistenceProof", .record [(nm "key", networkAddress), (nm "nonce", u64), (nm "difficulty", u64)]),
    (nm "CheckNodeInProblem", networkAddress),
    (nm "GetClosestPeers", .record [(nm "key", networkAddress), (nm "num_of_peers", .opt u64), (nm "range", .opt xorName),
      (nm "sign_result", .bool)])]
def request : CSchema := .enum [(nm "Cmd", cmd), (nm "Query", query)]

def cmdResponse (pk : CSchema) : CSchema :=
  .enum [(nm "Replicate", result pk .unit), (nm "PeerConsideredAsBad", result pk .unit)]
def storageProofs (pk : CSchema) : CSchema := .seq (.tup [networkAddress, result pk xorName])
def queryResponse (pk : CSchema) : CSchema :=
  .enum [(nm "GetStoreQuote", .record [(nm "quote", result pk paymentQuote), (nm "peer_address", networkAddress),
      (nm "storage_proofs", storageProofs pk)]),
    (nm "CheckNodeInProblem", .record [(nm "reporter_address", networkAddress), (nm "target_address", networkAddress),
      (nm "is_in_trouble", .bool)]),
    (nm "GetReplicatedRecord", result pk (.tup [networkAddress, .bytes])),
    (nm "GetRegisterRecord", result pk (.tup [networkAddress, .bytes])),
    (nm "GetChunkExistenceProof", storageProofs pk),
    (nm "GetClosestPeers", .record [(nm "target", networkAddress), (nm "peers", .seq (.tup [networkAddress, .seq .bytes])),
      (nm "signature", .opt vecU8)])]
def response (pk : CSchema) : CSchema := .enum [(nm "Cmd", cmdResponse pk), (nm "Query", queryResponse pk)]

/-- what the WRITER of a `PrettyPrintRecordKey` puts on the wire / what its READER expects (regenerated from the source) -/
def prettyKeyW : CSchema := kindSchema ppkSerKind
def prettyKeyR : CSchema := kindSchema ppkDeKind

/-- writer-side (`.1`) and reader-side (`.2`) schema of the type names used on the op lines of the correspondence run -/
def cschemaOf : String → Option (CSchema × CSchema)
  | "RecordType" => some (recordType, recordType)
  | "NetworkAddress" => some (networkAddress, networkAddress)
  | "QuotingMetrics" => some (quotingMetrics, quotingMetrics)
  | "PaymentQuote" => some (paymentQuote, paymentQuote)
  | "ProtocolError" => some (protocolError prettyKeyW, protocolError prettyKeyR)
  | "Cmd" => some (cmd, cmd)
  | "Query" => some (query, query)
  | "Request" => some (request, request)
  | "CmdResponse" => some (cmdResponse prettyKeyW, cmdResponse prettyKeyR)
  | "QueryResponse" => some (queryResponse prettyKeyW, queryResponse prettyKeyR)
  | "Response" => some (response prettyKeyW, response prettyKeyR)
  | _ => none

/-! ## the codec's size limits against the messages honest nodes send

`try_interval_replication` (ant-networking/src/cmd.rs) puts ALL of `record_addresses_ref()` — up to `MAX_RECORDS_COUNT`
entries `(NetworkAddress::RecordKey(<32-byte key>), RecordType)` — into ONE `Cmd::Replicate`; the codec's writer has no size
check, its reader cuts the stream at `REQUEST_SIZE_MAXIMUM`. -/

def requestCap : Nat := requestSizeMaximum
def responseCap : Nat := responseSizeMaximum

/-- one advertised record: the key as the record store keeps it (`NetworkAddress::from_record_key`, 32 bytes) and a
`RecordType::NonChunk(content hash)`; every byte is `b` (bytes `≥ 24` take two CBOR bytes inside the hash's array of ints) -/
def fillEntry (b : Nat) : CTree :=
  .tup [.nvar (nm "RecordKey") (.bytes (List.replicate 32 b)), .nvar (nm "NonChunk") (.tup (List.replicate 32 (.u b)))]

/-- `Request::Cmd(Cmd::Replicate { holder: NetworkAddress::from_peer(self), keys })` advertising `n` such records -/
def fillReplicate (n b : Nat) : CTree :=
  .nvar (nm "Cmd") (.nvar (nm "Replicate") (.record [(nm "holder", .nvar (nm "PeerId") (.bytes (List.replicate 38 b))),
    (nm "keys", .seq (List.replicate n (fillEntry b)))]))

/-- bytes of one entry: `82`, `a1 69 "RecordKey" 58 20 <32>` (45), `a1 68 "NonChunk" 98 20 <32 ints>` (12 + 32 or 64) -/
def entrySize (b : Nat) : Nat := if b < 24 then 90 else 122

/-- the closed form of the written size: `a1 63 "Cmd" a1 69 "Replicate" a2 66 "holder" <48> 64 "keys"` (77 bytes), the array
header of `n`, `n` entries -/
def replicateRequestSize (n b : Nat) : Nat := 77 + (encodeArg 4 n).length + n * entrySize b

/-- an advertised CHUNK: the same key and the unit variant `RecordType::Chunk` (text `"Chunk"`): `82`, the 45-byte key, `65 "Chunk"` = 52 bytes -/
def chunkEntry (b : Nat) : CTree :=
  .tup [.nvar (nm "RecordKey") (.bytes (List.replicate 32 b)), .uvar (nm "Chunk")]

/-- the advertisement of a node holding `c` chunks and `n` non-chunk records (`fillReplicate n b = mixedReplicate 0 n b`) -/
def mixedReplicate (c n b : Nat) : CTree :=
  .nvar (nm "Cmd") (.nvar (nm "Replicate") (.record [(nm "holder", .nvar (nm "PeerId") (.bytes (List.replicate 38 b))),
    (nm "keys", .seq (List.replicate c (chunkEntry b) ++ List.replicate n (fillEntry b)))]))

def chunkEntrySize : Nat := 52

def mixedRequestSize (c n b : Nat) : Nat := 77 + (encodeArg 4 (c + n)).length + c * chunkEntrySize + n * entrySize b

/-- the largest number of worst-case (`b ≥ 24`) NON-CHUNK records whose advertisement still fits the request limit -/
def replicateFits : Nat := (requestCap - 80) / 122

/-- `Response::Query(QueryResponse::GetReplicatedRecord(Ok((NetworkAddress::RecordKey(""), <n bytes b>))))` -/
def fillResponse (n b : Nat) : CTree :=
  .nvar (nm "Query") (.nvar (nm "GetReplicatedRecord") (.nvar (nm "Ok") (.tup [.nvar (nm "RecordKey") (.bytes []),
    .bytes (List.replicate n b)])))

/-- everything of that response in front of the payload's own header (45 bytes) -/
def responsePrefix : List Nat := (writeMsg (fillResponse 0 0)).dropLast

def fillResponseSize (n : Nat) : Nat := 45 + (encodeArg 2 n).length + n

end SafeNet.WireCbor
