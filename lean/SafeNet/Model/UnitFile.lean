import SafeNet.Model.ArgTable
/-!
# C20 model: the unit file the shipped systemd backend writes, and systemd's reading of it

`antctl` hands a `ServiceInstallCtx { program, args, environment, .. }` to the `service-manager` crate.
On Linux (`ServiceManagerKind::native()` = systemd when `systemctl` is found) the crate's
`systemd.rs::make_service` writes

    ExecStart={program} {args.join(" ")}
    Environment="{var}={val}"            (one line per variable)

with NO quoting or escaping of `program`, of the arguments, or of the environment strings.  systemd then
reads the `ExecStart=` value back by its own rules (systemd.service(5), "Command lines"): split at
unquoted white space, `"…"` / `'…'` group and are removed, `\` starts a C-style escape, `%x` is a
specifier, `$VAR` / `${VAR}` is substituted from the environment, a lone `;` separates commands.

The other backends of service-manager 0.7.1 (not modelled): launchd writes a plist `ProgramArguments`
array (one XML string per argument: faithful); `sc.exe` escapes every argument with `shell_escape`
(faithful); WinSW joins with `" "` into one `<arguments>` element, OpenRC / rc.d join with `" "` inside
`command_args="…"` (both unquoted like systemd).
-/
namespace SafeNet.UnitFile
open SafeNet.ArgTable

/-- the right-hand side of `ExecStart=` as `make_service` formats it -/
def execStartValue (program : String) (args : List String) : String :=
  program ++ " " ++ " ".intercalate args

/-- one `Environment=` line as `make_service` formats it -/
def environmentLine (var val : String) : String :=
  "Environment=\"" ++ var ++ "=" ++ val ++ "\""

/-! ### Rust format strings (`"ExecStart={program} {args}"`): literal pieces and `{name}` holes -/

inductive Piece where
  | lit (s : String)
  | hole (name : String)
  deriving DecidableEq, Repr

/-- `cur` = the piece under construction (reversed); `inHole` = between `{` and `}` -/
def fmtGo : List Char → List Char → Bool → List Piece
  | [], cur, _ => if cur.isEmpty then [] else [.lit (String.ofList cur.reverse)]
  | c :: cs, cur, false =>
    if c == '{' then (if cur.isEmpty then [] else [Piece.lit (String.ofList cur.reverse)]) ++ fmtGo cs [] true
    else fmtGo cs (c :: cur) false
  | c :: cs, cur, true =>
    if c == '}' then Piece.hole (String.ofList cur.reverse) :: fmtGo cs [] false
    else fmtGo cs (c :: cur) true

def fmtPieces (fmt : String) : List Piece := fmtGo fmt.toList [] false

/-- the formatted text: every hole replaced by what `env` gives for its name, nothing else touched -/
def fmtApply (pieces : List Piece) (env : String → String) : String :=
  pieces.foldl (fun acc pc => acc ++ (match pc with | .lit s => s | .hole n => env n)) ""

def isWs (c : Char) : Bool := c == ' ' || c == '\t' || c == '\n' || c == '\r'

/-- a character systemd passes through unchanged wherever it stands in a command line -/
def plainChar (c : Char) : Bool :=
  !(isWs c || c == '"' || c == '\'' || c == '\\' || c == '%' || c == '$')

/-- systemd's splitting of a command line into words (`extract_first_word` with `EXTRACT_UNQUOTE`).
`acc` is the word under construction (reversed; `none` between words), `q` the open quote.
`none` = the line contains a construct whose outcome is not a function of the line alone or that this
model does not interpret: a `\` escape, a `%` specifier, a `$` variable, an unbalanced quote. -/
def sdGo : List Char → Option (List Char) → Option Char → Option (List String)
  | [], none, _ => some []
  | [], some w, none => some [String.ofList w.reverse]
  | [], some _, some _ => none
  | c :: cs, acc, none =>
    if isWs c then
      match acc with
      | none => sdGo cs none none
      | some w => (sdGo cs none none).map (String.ofList w.reverse :: ·)
    else if c == '"' || c == '\'' then sdGo cs (some (acc.getD [])) (some c)
    else if c == '\\' || c == '%' || c == '$' then none
    else sdGo cs (some (c :: acc.getD [])) none
  | c :: cs, acc, some q =>
    if c == q then sdGo cs acc none
    else if c == '\\' || c == '%' || c == '$' then none
    else sdGo cs (some (c :: acc.getD [])) (some q)

/-- the words of a command line; a word `;` would start a second command (`none`: not interpreted) -/
def sdLex (line : String) : Option (List String) :=
  match sdGo line.toList none none with
  | some ws => if ws.contains ";" then none else some ws
  | none => none

/-- (executable, arguments) systemd starts for an `ExecStart=` value -/
def unitCommand (value : String) : Option (String × List String) :=
  match sdLex value with
  | some (p :: args) => some (p, args)
  | _ => none

/-- a string that survives `make_service` + systemd's reading as ONE unchanged word: non-empty, no white
space, quote, backslash, `%`, `$`, and not `;` alone -/
def wordSafe (w : String) : Bool := !w.toList.isEmpty && w.toList.all plainChar && w != ";"

/-- **UnitSafe**: the program path and every argument string are `wordSafe` (decidable). -/
def UnitSafe (program : String) (args : List String) : Bool := wordSafe program && args.all wordSafe

/-- a character that stands for itself inside the `"…"` of an `Environment=` line (white space does;
a line break would end the line) -/
def envCharSafe (c : Char) : Bool :=
  !(c == '"' || c == '\\' || c == '%' || c == '$' || c == '\n' || c == '\r')

def envStringSafe (s : String) : Bool := s.toList.all envCharSafe

/-- the assignments systemd reads from one `Environment=` line (same word splitting; `$` has no meaning
there, the model stays on the safe side and does not interpret it) -/
def environmentRead (line : String) : Option (List String) :=
  sdGo (line.toList.drop "Environment=".length) none none

end SafeNet.UnitFile
