import SafeNet.Gen.Register
/-!
Model of `ant-registers/src/{register,register_op,permissions}.rs`: `SignedRegister::{verify, add_op,
merge, verified_merge}` and `Register::check_register_op`, with the limits, comparators and the presence
of each check regenerated from the Rust source (`Gen.Register`).

Abstractions (trusted base): keys, addresses and CRDT node hashes are natural-number ids; a BLS signature
check is one Boolean per op (`sigOk`: the signature verifies for `source` over the op's own
(address, node hash, source) digest) and one per register (`ownerSigOk`); a `BTreeSet<RegisterOp>` is a
duplicate-free list observed only through membership (two sets are equal iff they have the same members).
-/
namespace SafeNet.Register
open SafeNet.Gen.Register

structure Op where
  addr : Nat            -- address of the register the op is destined for
  node : Nat            -- hash of the CRDT node (children + value)
  children : List Nat
  size : Nat            -- length of the entry value
  source : Nat          -- public key of the signer
  sig : Nat             -- signature value (0 = the genuine signature by `source`)
  sigOk : Bool          -- the signature verifies for `source` over this op's own digest
deriving DecidableEq, Repr

inductive Perms
  | anyone
  | writers (ws : List Nat)
deriving DecidableEq, Repr

structure Base where
  addr : Nat
  owner : Nat
  perms : Perms
deriving DecidableEq, Repr

structure SReg where
  base : Base
  ownerSigOk : Bool
  ops : List Op
deriving Repr

inductive Err
  | tooManyEntries (n : Nat)
  | invalidSignature
  | accessDenied
  | entryTooBig
  | differentBase
  | addrMismatch
deriving DecidableEq, Repr

def _root_.SafeNet.Gen.Register.Cmp.rejects : Cmp → Nat → Nat → Bool
  | .ge, x, max => decide (x ≥ max)
  | .gt, x, max => decide (x > max)

def Perms.canWrite : Perms → Nat → Bool
  | .anyone, _ => true
  | .writers ws, u => ws.contains u

/-- `Register::check_register_op` -/
def checkOp (b : Base) (op : Op) : Except Err Unit :=
  if checkOpChecksAddr && op.addr ≠ b.addr then .error .addrMismatch
  else if checkOpAnyoneShortCircuit && b.perms = .anyone then .ok ()
  else if checkOpChecksPerm && !b.perms.canWrite op.source then .error .accessDenied
  else if checkOpChecksSig && !op.sigOk then .error .invalidSignature
  else .ok ()

/-- per-op part of `verify`: permission/signature check, then the size guard -/
def verifyOp (b : Base) (op : Op) : Except Err Unit :=
  match (if verifyChecksOps then checkOp b op else .ok ()) with
  | .error e => .error e
  | .ok () => if verifySizeCmp.rejects op.size maxEntrySize then .error .entryTooBig else .ok ()

def firstErr (b : Base) : List Op → Except Err Unit
  | [] => .ok ()
  | op :: rest =>
    match verifyOp b op with
    | .error e => .error e
    | .ok () => firstErr b rest

/-- `SignedRegister::verify` -/
def verify (r : SReg) : Except Err Unit :=
  if verifyCountCmp.rejects r.ops.length maxNumEntries then .error (.tooManyEntries r.ops.length)
  else if verifyChecksOwnerSig && !r.ownerSigOk then .error .invalidSignature
  else firstErr r.base r.ops

def insertOp (s : List Op) (x : Op) : List Op := if x ∈ s then s else s ++ [x]

def unionOps (s t : List Op) : List Op := t.foldl insertOp s

/-- `SignedRegister::add_op` -/
def addOp (r : SReg) (op : Op) : Except Err SReg :=
  if addOpCountCmp.rejects r.ops.length maxNumEntries then .error (.tooManyEntries r.ops.length)
  else if addOpSizeCmp.rejects op.size maxEntrySize then .error .entryTooBig
  else match (if addOpChecksOp then checkOp r.base op else .ok ()) with
    | .error e => .error e
    | .ok () => .ok { r with ops := insertOp r.ops op }

/-- `Register::verify_is_mergeable` -/
def mergeable (a b : Base) : Bool :=
  !((mergeableComparesAddr && (a.addr ≠ b.addr || a.owner ≠ b.owner)) || (mergeableComparesPerms && a.perms ≠ b.perms))

/-- `SignedRegister::merge` -/
def merge (r other : SReg) : Except Err SReg :=
  if mergeChecksBase && !mergeable r.base other.base then .error .differentBase
  else .ok { r with ops := unionOps r.ops other.ops }

/-- `SignedRegister::verified_merge` -/
def verifiedMerge (r other : SReg) : Except Err SReg :=
  if vmergeChecksBase && !mergeable r.base other.base then .error .differentBase
  else match (if vmergeVerifiesOther then verify other else .ok ()) with
    | .error e => .error e
    | .ok () => .ok { r with ops := unionOps r.ops other.ops }

end SafeNet.Register
