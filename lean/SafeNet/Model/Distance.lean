import SafeNet.Base.Dec
import SafeNet.Base.Sha256
import SafeNet.Model.Amount
import SafeNet.Gen.Distance
/-!
Model of the distance computations: `NetworkAddress::{as_bytes, to_record_key, from_record_key, distance}`,
`convert_distance_to_u256` (ant-protocol/src/lib.rs), `sort_peers_by_key` (ant-networking/src/lib.rs),
`get_peers_in_range` / the selection step of `get_replicate_candidates` (ant-networking/src/cmd.rs) and
`Node::calculate_get_closest_peers` (ant-node/src/node.rs). SHA-256 is a parameter `H` in the general statements and
the FIPS 180-4 definition of `Base/Sha256` in `distSha` (what the code computes: `KBucketKey::new` hashes with sha2).
-/
namespace SafeNet.Distance
open SafeNet.Gen.Distance SafeNet.Dec

structure Addr where
  kind : Kind
  raw : List Nat       -- stored raw bytes (peer id bytes / record key bytes)
  xorname : List Nat   -- the typed address's xorname (32 bytes)
deriving Repr

def asBytes (a : Addr) : List Nat := if asBytesRaw a.kind then a.raw else a.xorname
def toRecordKey (a : Addr) : List Nat := if toRecordKeyRaw a.kind then a.raw else a.xorname
def fromRecordKey (k : List Nat) : Addr := { kind := .recordKey, raw := k, xorname := [] }

/-- `self.as_kbucket_key().distance(&other.as_kbucket_key())`: XOR of the SHA-256 digests. -/
def dist (H : List Nat → Nat) (a b : Addr) : Nat := H (asBytes a) ^^^ H (asBytes b)

/-- the distance the code computes: `H` is SHA-256 itself (defined in `Base/Sha256`), digests read big-endian -/
def distSha (a b : Addr) : Nat := dist SafeNet.Sha256.hashNat a b

/-- `trim_start_matches(pat)`: strip the prefix repeatedly. -/
def stripPrefixAll (pat : List Nat) : Nat → List Nat → List Nat
  | 0, s => s
  | fuel + 1, s =>
    if pat.isEmpty then s
    else if pat.isPrefixOf s then stripPrefixAll pat fuel (s.drop pat.length) else s

def trimStartMatches (pat s : List Nat) : List Nat := stripPrefixAll pat s.length s
def trimEndMatches (pat s : List Nat) : List Nat := (stripPrefixAll pat.reverse s.length s.reverse).reverse

/-- `format!("{distance:?}")` of libp2p's `Distance(U256)`: `Distance(` decimal `)`. -/
def render (n : Nat) : List Nat :=
  [68, 105, 115, 116, 97, 110, 99, 101, 40] ++ SafeNet.Amount.toChars (toDigits n) ++ [41]

/-- `convert_distance_to_u256` on the Debug string. -/
def convertStr (s : List Nat) : Nat :=
  match SafeNet.Amount.uintFromStr (trimEndMatches trimEnd (trimStartMatches trimStart s)) with
  | some v => v
  | none => fallback

def convert (n : Nat) : Nat := convertStr (render n)

/-- peers as (id, distance to the target) -/
abbrev Peer := Nat × Nat

def leDist (a b : Peer) : Bool := decide (a.2 ≤ b.2)

def sortByDist (ps : List Peer) : List Peer := ps.mergeSort leDist

/-- `sort_peers_by_key`: `none` = `NotEnoughPeers`. -/
def sortPeersByKey (ps : List Peer) (expected : Nat) : Option (List Peer) :=
  if closeGroupSize > ps.length then none else some ((sortByDist ps).take expected)

def within (le : Bool) (d range : Nat) : Bool := if le then decide (d ≤ range) else decide (d < range)

/-- `get_peers_in_range` -/
def getPeersInRange (ps : List Peer) (range : Nat) : List Peer := ps.filter (fun p => within inRangeLe p.2 range)

/-- `Node::calculate_get_closest_peers` -/
def calcClosest (ps : List Peer) (num : Option Nat) (range : Option Nat) : List Peer :=
  match num, range with
  | _, some r => ps.filter (fun p => within closestRangeLe p.2 r)
  | some n, none => (sortByDist ps).take n
  | none, none => []

/-- selection step of `get_replicate_candidates` given the K closest local peers (closest first) -/
def replicateCandidates (closestK : List Peer) (range : Option Nat) : List Peer :=
  match range with
  | some r =>
    let inr := getPeersInRange closestK r
    if inr.length ≥ closeGroupSize then inr else closestK.take closeGroupSize
  | none => closestK.take closeGroupSize

/-- `Network::get_all_close_peers_in_range_or_close_group` on the peers the network returned
(`client = true`: the caller's own id does not count). `none` = `NotEnoughPeers`. -/
def closeGroupSelect (ps : List Peer) (selfId : Nat) (client : Bool) : Option (List Peer) :=
  if clientStripsSelfBeforeSort then
    sortPeersByKey (if client then ps.filter (fun p => p.1 != selfId) else ps) expandedCloseGroup
  else
    match sortPeersByKey ps expandedCloseGroup with
    | none => none
    | some r => some (if client then r.filter (fun p => p.1 != selfId) else r)

/-! ## The same decisions over ADDRESSES, as the code computes them: every distance is the `Distance` of the two
addresses' SHA-256 digests; the range filters compare `convert_distance_to_u256(distance)`, the sorts compare the
`Distance` itself (the 256-bit number). -/

/-- a peer with its id and its address -/
abbrev APeer := Nat × Addr

/-- what `convert_distance_to_u256(&target.distance(&peer))` evaluates to -/
def convDist (target p : Addr) : Nat := convert (distSha target p)

/-- `get_peers_in_range(peers, address, range)` -/
def getPeersInRangeAddr (target : Addr) (ps : List APeer) (range : Nat) : List APeer :=
  ps.filter (fun p => within inRangeLe (convDist target p.2) range)

/-- `Node::calculate_get_closest_peers` over addresses -/
def calcClosestAddr (target : Addr) (ps : List APeer) (num : Option Nat) (range : Option Nat) : List APeer :=
  match num, range with
  | _, some r => ps.filter (fun p => within closestRangeLe (convDist target p.2) r)
  | some n, none => ((ps.map (fun p => (p, distSha target p.2))).mergeSort (fun a b => decide (a.2 ≤ b.2))).map (·.1) |>.take n
  | none, none => []

/-- `sort_peers_by_key` over addresses: `none` = `NotEnoughPeers` -/
def sortPeersByKeyAddr (target : Addr) (ps : List APeer) (expected : Nat) : Option (List APeer) :=
  if closeGroupSize > ps.length then none
  else some ((((ps.map (fun p => (p, distSha target p.2))).mergeSort (fun a b => decide (a.2 ≤ b.2))).map (·.1)).take expected)

/-- the number-level view of an address-level peer: its id and the `Distance` (XOR of the SHA-256 digests) to the target -/
def toPeer (target : Addr) (p : APeer) : Peer := (p.1, distSha target p.2)

/-- the comparison `sort_by(|a, b| a.1.cmp(&b.1))` makes on two peers of an address-level list -/
def leAddr (target : Addr) (a b : APeer) : Bool := decide (distSha target a.2 ≤ distSha target b.2)

/-! ## The producer of every range bound: the `set_farthest_record_interval` arm of `SwarmDriver::run` -/

/-- `libp2p::kad::K_VALUE` (third party, 20): `get_closest_k_value_local_peers` returns the node itself followed by its
closest local peers, `K_VALUE` entries in all -/
def kValue : Nat := 20

/-- `SwarmDriver::estimate_network_size` -/
def estimateNetworkSize (peersInNonFullBuckets numFullBuckets : Nat) : Nat :=
  (peersInNonFullBuckets + 1) * 2 ^ numFullBuckets

/-- `get_closest_k_value_local_peers` as distances to the node itself: `0` for the node, then its routing-table peers
nearest first, `K_VALUE` in all -/
def closestKSelfInclusive (table : List Peer) : List Peer := ((0, 0) :: sortByDist table).take kValue

/-- the bound the interval arm computes (`none`: it `continue`s, the range stays as it was): `convDistOf p` is what
`convert_distance_to_u256(&self_addr.distance(peer p))` evaluates to -/
def deriveRange (convDistOf : Peer → Nat) (peersInNonFullBuckets numFullBuckets : Nat) (table : List Peer) : Option Nat :=
  let est := estimateNetworkSize peersInNonFullBuckets numFullBuckets
  if est ≤ rangeMinEstimateExclusive then none
  else
    let k := closestKSelfInclusive table
    if k.length ≤ rangeMinListLenExclusive then none
    else
      match k[rangeNeighbourIndex]? with
      | none => none
      | some p => some (Nat.max ((SafeNet.Amount.U256 - 1) / est * rangeDensityFactor) (convDistOf p))

/-! ## The storage challenge's closeness decisions (ant-node/src/node.rs) -/

/-- the `difficulty ≠ 1` branch of `respond_x_closest_record_proof`: the held chunk addresses (id, distance to the key)
sorted by distance to the key, the first `min(difficulty, CLOSE_GROUP_SIZE)` answered for -/
def respondClosest (held : List Peer) (difficulty : Nat) : List Peer :=
  (sortByDist held).take (min difficulty challengeWorkloadCap)

/-- what `respond_x_closest_record_proof` answers for -/
inductive ProofAnswer where
  /-- `difficulty == 1` (a client checking one published chunk): one entry, for the key itself — a proof when the record
  is held locally (`found`), `ChunkDoesNotExist` otherwise; nothing is sorted -/
  | single (found : Bool)
  /-- otherwise: proofs for these held chunks, in this order -/
  | nearest (l : List Peer)
  deriving DecidableEq, Repr

/-- `respond_x_closest_record_proof(key, nonce, difficulty, chunk_only = true)`: `keyId` is the id of the key among the
chunk ids of the universe (`none`: the key is no chunk of the universe, so it is not held) -/
def respondProof (held : List Peer) (keyId : Option Nat) (difficulty : Nat) : ProofAnswer :=
  if difficulty = 1 then .single (held.any (fun p => some p.1 == keyId))
  else .nearest (respondClosest held difficulty)

/-- `storage_challenge`, the challenger's choice of what is checked: with at least 50 held chunks, sorted by distance to
the node itself (`bySelf`), the target is entry `index < n / 2` (the implementation's random choice, carried as a
witness), and the expected answers are the `CLOSE_GROUP_SIZE` chunks nearest the target (`toTarget`: distance of a chunk
id to the chosen target). `none`: not enough candidates / illegal index. -/
def challengeTargets (bySelf : List Peer) (index : Nat) (toTarget : Nat → Nat → Nat) : Option (Nat × List Nat) :=
  if bySelf.length < challengeMinCandidates then none
  else if index ≥ bySelf.length / 2 then none
  else
    match (sortByDist bySelf)[index]? with
    | none => none
    | some t =>
      some (t.1, ((sortByDist (bySelf.map (fun c => (c.1, toTarget t.1 c.1)))).take challengeDifficulty).map (·.1))

/-- `storage_challenge`, who is challenged: the first `CLOSE_GROUP_SIZE` of the self-inclusive K list, the node itself
skipped — `none` when fewer than `CLOSE_GROUP_SIZE` entries are known -/
def challengedPeers (table : List Peer) : Option (List Peer) :=
  let k := (closestKSelfInclusive table).take challengePeersTaken
  if k.length < challengePeersTaken then none else some (k.filter (fun p => p.1 != 0))

end SafeNet.Distance
