/-!
Model of `crdts-7.3.2/src/merkle_reg.rs` (`MerkleReg::apply`, `read`, `merge`) as used by
`ant-registers/src/reg_crdt.rs`. A node is identified with its SHA3 hash (collision-freedom is the
stated assumption); sets/maps are duplicate-free lists observed through membership.
-/
namespace SafeNet.MerkleReg

structure Node where
  hash : Nat
  children : List Nat
deriving DecidableEq, Repr

structure MReg where
  roots : List Nat := []
  dag : List Node := []
  orphans : List Node := []
deriving Repr

def inDag (m : MReg) (h : Nat) : Bool := m.dag.any (·.hash == h)
def inOrphans (m : MReg) (h : Nat) : Bool := m.orphans.any (·.hash == h)
def allSeen (m : MReg) (cs : List Nat) : Bool := cs.all (inDag m)

/-- `apply`; the recursion through newly-ready orphans takes fuel (`orphans.length + 1` suffices). -/
def applyFuel : Nat → MReg → Node → MReg
  | 0, m, _ => m
  | fuel + 1, m, n =>
    if inDag m n.hash || inOrphans m n.hash then m
    else if allSeen m n.children then
      let roots := (m.roots.filter (fun r => !n.children.contains r)) ++ [n.hash]
      let m1 : MReg := { roots := roots, dag := m.dag ++ [n], orphans := m.orphans }
      let ready := m1.orphans.filter (fun o => allSeen m1 o.children)
      let m2 : MReg := { m1 with orphans := m1.orphans.filter (fun o => !allSeen m1 o.children) }
      ready.foldl (applyFuel fuel) m2
    else { m with orphans := m.orphans ++ [n] }

def apply (m : MReg) (n : Node) : MReg := applyFuel (m.orphans.length + 1) m n

/-- `CvRDT::merge`: apply every dag node, then every orphan, of the other replica. -/
def merge (m other : MReg) : MReg := (other.dag ++ other.orphans).foldl apply m

/-- `read()`: the roots that are in the dag. -/
def read (m : MReg) : List Nat := m.roots.filter (inDag m)

end SafeNet.MerkleReg
