/-
C13, client side: `Network::get_store_quote_from_network` (`ant-networking/src/lib.rs`) as a function of what the
swarm layer answers: the closest peers found, and per queried peer one response to `Query::GetStoreQuote`.
A quote inside a response is described by who it names in `peer_address`, whose key and signature it carries and
whether it is for the requested address; `PaymentQuote::check_is_signed_by_claimed_peer` itself is the subject of the
`Quote` model (ideal signatures): here it is `signedBy`.
-/
import SafeNet.Gen.QuoteFetch
namespace SafeNet.Model.QuoteFetch

/-- the `peer_address` field of a `QueryResponse::GetStoreQuote` -/
inductive Addr where
  | self                -- names the responding peer
  | peer (j : Nat)      -- names peer `j`
  | nonPeer             -- not a `NetworkAddress::PeerId`
  deriving DecidableEq, Repr

/-- whose public key the quote carries together with a valid signature by that key -/
inductive Signer where
  | self
  | peer (j : Nat)
  | garbage             -- the signature does not verify under the carried key
  deriving DecidableEq, Repr

structure QuoteResp where
  claimed : Addr
  signer : Signer
  contentOk : Bool
  deriving DecidableEq, Repr

inductive Resp where
  | quote (q : QuoteResp)
  | recordExists        -- `quote: Err(ProtocolError::RecordExists)`
  | quoteErr            -- any other `quote: Err(..)`
  | failed              -- the request failed (network error, no reply)
  | unexpected          -- some other response
  deriving DecidableEq, Repr

/-- `quote.check_is_signed_by_claimed_peer(who)` for a quote sent by `responder` -/
def signedBy (responder : Nat) (s : Signer) (who : Nat) : Bool :=
  match s with
  | .self => responder == who
  | .peer j => j == who
  | .garbage => false

/-- the peer the fetch loop checks the quote against -/
def checkedAgainst (responder : Nat) (q : QuoteResp) : Nat :=
  match Gen.QuoteFetch.checkedPeer with
  | .responder => responder
  | .claimedAddressElseResponder =>
    match q.claimed with
    | .peer j => j
    | _ => responder

def accepts (responder : Nat) (q : QuoteResp) : Bool :=
  signedBy responder q.signer (checkedAgainst responder q) && (!Gen.QuoteFetch.checksContent || q.contentOk)

inductive FetchErr where
  | notEnoughPeers
  | noStoreCostResponses
  deriving DecidableEq, Repr

/-- `get_store_quote_from_network(addr, ignore)`: `found` = answer to `GetClosestPeersToAddressFromNetwork` in distance
order, `self` = the client's own peer id, `resp p` = what peer `p` answers. Result: the peers whose quote is returned
(each pair is `(p, the quote p sent)`). -/
def fetch (self : Nat) (found ignore : List Nat) (resp : Nat → Resp) : Except FetchErr (List Nat) :=
  let closest := found.filter (· != self)
  if closest.length < Gen.QuoteFetch.closeGroupSize then .error .notEnoughPeers else
  let expanded := Gen.QuoteFetch.closeGroupSize + Gen.QuoteFetch.closeGroupSize / 2
  let closeNodes := (closest.take expanded).filter (fun p => !ignore.contains p)
  if closeNodes.isEmpty then .error .noStoreCostResponses else
  let alreadyHave := closeNodes.countP (fun p => resp p == .recordExists)
  -- "already paid": as soon as half of the close nodes say so (the test sits in the `RecordExists` arm)
  if alreadyHave ≥ 1 && alreadyHave ≥ closeNodes.length / 2 then .ok [] else
  .ok (closeNodes.filter fun p =>
    match resp p with
    | .quote q => accepts p q
    | _ => false)

end SafeNet.Model.QuoteFetch
